import H5V.Lemmas.HtmlTBFuelRules0
/-!
# The fuel of `process_to_completion`, part 6: what an insertion does to the stack

`SQ m` — every successful run of `m` is a sequence of sink calls only (`QF`: every builder field is kept);
`ef_insertElement` — `insert_element` pushes (if asked to) one element with the requested name.
-/
namespace H5V.Lemmas.TBFuel
open H5V.Model.HtmlTB
open H5V.Model.HtmlTok (TagKind)
open H5V.Model.Dom (Id QualName Attr NodeOrText SinkOp Output ElementFlags QuirksMode Dom NodeData Node)
open H5V.Lemmas.TBSafe
open H5V.Lemmas.TBC (ok_bind ok_pure ok_getS_bind ok_modS_bind ok_ite ok_bind_pure)

/-- only sink calls -/
def SQ {α : Type} (m : M α) : Prop := ∀ s a s', m s = .ok (a, s') → QF s s'

theorem sq_pure {α : Type} (a : α) : SQ (pure a : M α) := by
  intro s b s' hr; rw [← (ok_pure hr).2]; exact QF.refl _

theorem sq_bind {α β : Type} {m : M α} {f : α → M β} (h1 : SQ m) (h2 : ∀ a, SQ (f a)) : SQ (m >>= f) := by
  intro s b s'' hr
  obtain ⟨a, s', hm, hf⟩ := ok_bind hr
  exact (h1 s a s' hm).trans (h2 a s' b s'' hf)

theorem sq_ite {α : Type} {c : Prop} [Decidable c] {a b : M α} (h1 : c → SQ a) (h2 : ¬c → SQ b) :
    SQ (if c then a else b) := by
  by_cases hc : c
  · rw [if_pos hc]; exact h1 hc
  · rw [if_neg hc]; exact h2 hc

theorem sq_throw {α : Type} {e : String} : SQ (throw e : M α) := by intro s a s' hr; cases hr
theorem sq_panicAt {α : Type} {cls site text : String} : SQ (panicAt cls site text : M α) := by
  intro s a s' hr; cases hr

theorem sq_getS_bind {β : Type} {f : State → M β} (h : ∀ s0, SQ (f s0)) : SQ (getS >>= f) := by
  intro s b s' hr
  exact h s s b s' (ok_getS_bind hr)

theorem sq_sink (op : SinkOp) : SQ (sink op) := by
  intro s a s' hr
  unfold sink at hr
  cases ha : s.dom.apply op with
  | error e => rw [ha] at hr; cases hr
  | ok p =>
    obtain ⟨d, o⟩ := p
    rw [ha] at hr
    cases hr
    exact ⟨d, _, rfl, apply_ext ha⟩

theorem sq_sinkUnit (op : SinkOp) : SQ (sinkUnit op) := sq_bind (sq_sink op) (fun _ => sq_pure _)

theorem sq_sinkNode (op : SinkOp) : SQ (sinkNode op) := by
  unfold sinkNode
  refine sq_bind (sq_sink op) (fun o => ?_)
  cases o <;> first | exact sq_pure _ | exact sq_throw

theorem sq_elemName (h : Id) : SQ (elemName h) := by
  unfold elemName
  refine sq_bind (sq_sink _) (fun o => ?_)
  cases o <;> first | exact sq_pure _ | exact sq_throw

theorem sq_htmlElemNamed (h : Id) (name : String) : SQ (htmlElemNamed h name) := by
  unfold htmlElemNamed htmlElemNamedS
  exact sq_bind (sq_elemName _) (fun _ => sq_pure _)

theorem sq_elemIn (h : Id) (set : EName → Bool) : SQ (elemIn h set) := by
  unfold elemIn
  exact sq_bind (sq_elemName _) (fun _ => sq_pure _)

theorem sq_currentNode : SQ currentNode := by
  unfold currentNode
  refine sq_getS_bind (fun s0 => ?_)
  cases s0.openElems.getLast? with
  | none => exact sq_panicAt
  | some h => exact sq_pure _

theorem sq_htmlElem : SQ htmlElem := by
  unfold htmlElem
  refine sq_getS_bind (fun s0 => ?_)
  cases s0.openElems.head? with
  | none => exact sq_panicAt
  | some h => exact sq_pure _

theorem sq_fosterLoop : ∀ l, SQ (fosterLoop l) := by
  intro l
  induction l with
  | nil => unfold fosterLoop; exact sq_bind sq_htmlElem (fun _ => sq_pure _)
  | cons e rest ih =>
    unfold fosterLoop
    refine sq_bind (sq_htmlElemNamed _ _) (fun _ => ?_)
    refine sq_ite (fun _ => sq_bind (sq_sinkNode _) (fun _ => sq_pure _)) (fun _ => ?_)
    refine sq_bind (sq_htmlElemNamed _ _) (fun _ => ?_)
    refine sq_ite (fun _ => ?_) (fun _ => ih)
    cases rest with
    | nil => exact sq_panicAt
    | cons p _ => exact sq_pure _

theorem sq_appropriatePlaceForInsertion (ov : Option Id) : SQ (appropriatePlaceForInsertion ov) := by
  unfold appropriatePlaceForInsertion
  dsimp only
  have htail : ∀ (target : Id), SQ (do
      let __do_lift ← getS
      if __do_lift.fosterParenting = true then do
          let foster ← elemIn target fosterTarget
          if (!foster) = true then do
            let __do_lift ← htmlElemNamed target "template"
            if __do_lift = true then do
                let contents ← sinkNode (SinkOp.getTemplateContents target)
                pure (InsertionPoint.lastChild contents)
              else pure (InsertionPoint.lastChild target)
          else do
            let __do_lift ← getS
            fosterLoop __do_lift.openElems.reverse
        else do
          let foster ← pure false
          if (!foster) = true then do
            let __do_lift ← htmlElemNamed target "template"
            if __do_lift = true then do
                let contents ← sinkNode (SinkOp.getTemplateContents target)
                pure (InsertionPoint.lastChild contents)
              else pure (InsertionPoint.lastChild target)
          else do
            let __do_lift ← getS
            fosterLoop __do_lift.openElems.reverse) := by
    intro target
    have hk : ∀ (foster : Bool), SQ (if (!foster) = true then do
            let __do_lift ← htmlElemNamed target "template"
            if __do_lift = true then do
                let contents ← sinkNode (SinkOp.getTemplateContents target)
                pure (InsertionPoint.lastChild contents)
              else pure (InsertionPoint.lastChild target)
          else do
            let __do_lift ← getS
            fosterLoop __do_lift.openElems.reverse) := by
      intro foster
      refine sq_ite (fun _ => ?_) (fun _ => sq_getS_bind (fun _ => sq_fosterLoop _))
      refine sq_bind (sq_htmlElemNamed _ _) (fun _ => ?_)
      exact sq_ite (fun _ => sq_bind (sq_sinkNode _) (fun _ => sq_pure _)) (fun _ => sq_pure _)
    refine sq_getS_bind (fun s0 => ?_)
    refine sq_ite (fun _ => sq_bind (sq_elemIn _ _) (fun f => hk f)) (fun _ => ?_)
    exact sq_bind (sq_pure _) (fun f => hk f)
  cases ov with
  | none => exact sq_bind sq_currentNode (fun t => htail t)
  | some t => exact sq_bind (sq_pure _) (fun t => htail t)

theorem sq_anyHtmlElemNamed (name : String) : ∀ l, SQ (anyHtmlElemNamed name l) := by
  intro l
  induction l with
  | nil => unfold anyHtmlElemNamed; exact sq_pure _
  | cons e rest ih =>
    unfold anyHtmlElemNamed
    exact sq_bind (sq_htmlElemNamed _ _) (fun _ => sq_ite (fun _ => sq_pure _) (fun _ => ih))

theorem sq_inHtmlElemNamed (name : String) : SQ (inHtmlElemNamed name) := by
  unfold inHtmlElemNamed
  exact sq_getS_bind (fun _ => sq_anyHtmlElemNamed _ _)

theorem sq_insertAt (ip : InsertionPoint) (c : NodeOrText) : SQ (insertAt ip c) := by
  unfold insertAt
  cases ip <;> exact sq_sinkUnit _

/-- what `insert_element` does to the builder -/
structure Pushed (s s' : State) (r : Id) (ns name : Str) (pushIt : Bool) : Prop where
  ext : Ext s.dom s'.dom
  stack : s'.openElems = if pushIt = true then s.openElems ++ [r] else s.openElems
  tm : s'.templateModes = s.templateModes
  nm : nm s'.dom r = ⟨ns, name⟩
  el : IsEl s'.dom r

theorem ef_insertElement {pushIt : Bool} {ns name : Str} {attrs : List Attr} {hadDup : Bool} {s s' : State} {r : Id}
    (h : insertElement pushIt ns name attrs hadDup s = .ok (r, s')) : Pushed s s' r ns name pushIt := by
  unfold insertElement at h
  obtain ⟨ip, s1, h1, h2⟩ := ok_bind h
  have q1 : QF s s1 := sq_appropriatePlaceForInsertion none s ip s1 h1
  dsimp only at h2
  have h3 := ok_getS_bind h2
  -- the end: `insert_at`, maybe `push`
  have hend : ∀ (elem : Id) (s4 : State), QF s s4 → IsEl s4.dom elem → nm s4.dom elem = ⟨ns, name⟩ → (do
        insertAt ip (NodeOrText.node elem)
        if pushIt = true then do
            push elem
            pure elem
          else pure elem : M Id) s4 = .ok (r, s') → Pushed s s' r ns name pushIt := by
    intro elem s4 q4 hel4 hnm4 h8
    obtain ⟨_, s5, h9, h10⟩ := ok_bind h8
    have q5 : QF s4 s5 := sq_insertAt _ _ s4 _ s5 h9
    have q : QF s s5 := q4.trans q5
    have hel5 : IsEl s5.dom elem := hel4.ext q5.ext
    have hnm5 : nm s5.dom elem = ⟨ns, name⟩ := by rw [nm_ext q5.ext hel4]; exact hnm4
    cases pushIt with
    | true =>
      simp only [if_true] at h10
      obtain ⟨_, s6, h11, h12⟩ := ok_bind h10
      have e6 : s6 = { s5 with openElems := s5.openElems ++ [elem] } := by
        have : Except.ok ((), { s5 with openElems := s5.openElems ++ [elem] }) = Except.ok (_, s6) := h11
        cases this; rfl
      obtain ⟨e1, e2⟩ := ok_pure h12
      subst e1 e2 e6
      exact ⟨q.ext, by simp [q.openElems], q.templateModes, hnm5, hel5⟩
    | false =>
      simp only [Bool.false_eq_true, if_false] at h10
      obtain ⟨e1, e2⟩ := ok_pure h10
      subst e1 e2
      exact ⟨q.ext, by simp [q.openElems], q.templateModes, hnm5, hel5⟩
  -- the middle: `create_element`, maybe `associate_with_form`
  have hmid : ∀ (fa : Bool) (s2 : State), QF s s2 → (do
        let elem ← createElementWithFlags { pfx := none, ns := ns, loc := name } attrs hadDup
        if fa = true then do
            let __do_lift ← getS
            match __do_lift.formElem with
              | some form => do
                sinkUnit (SinkOp.associateWithForm elem form ip.nodes.fst ip.nodes.snd)
                insertAt ip (NodeOrText.node elem)
                if pushIt = true then do
                    push elem
                    pure elem
                  else pure elem
              | none => do
                panicAt "unwrap-none" "mod.rs:1401" "form_elem unwrap"
                insertAt ip (NodeOrText.node elem)
                if pushIt = true then do
                    push elem
                    pure elem
                  else pure elem
          else do
            insertAt ip (NodeOrText.node elem)
            if pushIt = true then do
                push elem
                pure elem
              else pure elem : M Id) s2 = .ok (r, s') → Pushed s s' r ns name pushIt := by
    intro fa s2 q2 h5
    obtain ⟨elem, s3, h6, h7⟩ := ok_bind h5
    have hc := sat_ok (al := anyAl) sat_createElementWithFlags h6
    by_cases cf : fa = true
    · rw [if_pos cf] at h7
      have h8 := ok_getS_bind h7
      cases hf : s3.formElem with
      | none =>
        rw [hf] at h8
        obtain ⟨_, _, h9, _⟩ := ok_bind h8
        cases h9
      | some form =>
        rw [hf] at h8
        dsimp only at h8
        obtain ⟨_, s4, h9, h10⟩ := ok_bind h8
        have q4 : QF s3 s4 := sq_sinkUnit _ s3 _ s4 h9
        exact hend elem s4 ((q2.trans hc.qf).trans q4) (hc.el.ext q4.ext)
          (by rw [nm_ext q4.ext hc.el]; exact hc.nm) h10
    · rw [if_neg cf] at h7
      exact hend elem s3 (q2.trans hc.qf) hc.el hc.nm h7
  by_cases c1 : (formAssociatable ⟨ns, name⟩ && s1.formElem.isSome) = true
  · rw [if_pos c1] at h3
    obtain ⟨b, s2, h4, h5⟩ := ok_bind h3
    have q2 : QF s1 s2 := sq_inHtmlElemNamed _ s1 b s2 h4
    by_cases c2 : b = true
    · rw [if_pos c2] at h5
      simp only [pure_bind] at h5
      exact hmid false s2 (q1.trans q2) h5
    · rw [if_neg c2] at h5
      simp only [pure_bind] at h5
      exact hmid _ s2 (q1.trans q2) h5
  · rw [if_neg c1] at h3
    simp only [pure_bind] at h3
    exact hmid false s1 q1 h3

/-- the stack part after `insert_element` of an element that is not an HTML `table` -/
theorem Pushed.wle {s s' : State} {r : Id} {ns name : Str} {pushIt : Bool} (h : Pushed s s' r ns name pushIt)
    (hel : AllEl s.dom s.openElems) (hn : (⟨ns, name⟩ : EName) ≠ tableName) : WLe s s' := by
  refine ⟨?_, by rw [h.tm]; exact Nat.le_refl _⟩
  rw [h.stack]
  cases pushIt with
  | false =>
    simp only [Bool.false_eq_true, if_false]
    rw [tabCount_ext h.ext hel]; exact Nat.le_refl _
  | true =>
    simp only [if_true]
    rw [tabCount_append, tabCount_ext h.ext hel]
    have : tabCount s'.dom [r] = 0 := by
      unfold tabCount
      simp only [List.countP_cons, List.countP_nil, h.nm]
      have : ((⟨ns, name⟩ : EName) == tableName) = false := by
        cases hb : ((⟨ns, name⟩ : EName) == tableName) with
        | false => rfl
        | true => exact absurd (eq_of_beq hb) hn
      rw [this]; rfl
    omega

theorem ef_insertPhantom {name : String} {s s' : State} {r : Id} (h : insertPhantom name s = .ok (r, s')) :
    Pushed s s' r nsHtml name.toList true := ef_insertElement h

theorem ef_insertElementFor {tag : Tag} {s s' : State} {r : Id} (h : insertElementFor tag s = .ok (r, s')) :
    Pushed s s' r nsHtml tag.name true := ef_insertElement h

/-- `create_root` pushes an `html` element -/
theorem wle_createRoot {attrs : List Attr} {s s' : State} (hel : AllEl s.dom s.openElems)
    (h : createRoot attrs s = .ok ((), s')) : WLe s s' := by
  obtain ⟨r, fr, ho, _, _, hn, _⟩ := sat_ok (al := anyAl) sat_createRoot h
  refine ⟨?_, by rw [fr.templateModes]; exact Nat.le_refl _⟩
  rw [ho, tabCount_append, tabCount_ext fr.ext hel]
  have : tabCount s'.dom [r] = 0 := by
    unfold tabCount
    simp only [List.countP_cons, List.countP_nil, hn]
    rfl
  omega

end H5V.Lemmas.TBFuel
