import H5V.Lemmas.HtmlTBModesDriver
/-!
The driver, part 2: `process_token` against `processTokenDev`, a token list against `runDev`.
-/
namespace H5V.Lemmas.HtmlTBModes
open H5V.Model.HtmlTB
open H5V.Model.Dom (Id SinkOp Output Dom QualName Attr NodeOrText ElementFlags NodeData QuirksMode)
open H5V.Lemmas.HtmlTBAlgo
open H5V.Lemmas.TBSafe (TI HInv SInv Rooted ForeignTop textTok)
open H5V.Spec.TreeAlgo2 (Elem Entry PState Ctx Edit Place)
open H5V.Spec.TreeModes (STok ETok IMode Config Out TokSwitch XOp Op Step Edition)

/-! ### tokens of the tokenizer -/

/-- the standard's token for a token of html5ever's tokenizer (a parse error is not a token) -/
def specTokOf : TokToken → Option Spec.TreeModes.Token
  | .parseError _ => none
  | .doctype d => some (.doctype d.name d.publicId d.systemId d.forceQuirks)
  | .tag t => some (if t.kind == .startTag then .startTag (specTag t) else .endTag (specTag t))
  | .comment d => some (.comment d)
  | .chars x => some (.chars x)
  | .nullChar => some (.chars ['\x00'])
  | .eof => some .eof

/-- the adjusted current node, if any, is an element in the HTML namespace (in the "in table text" insertion mode
the current node is a `table`, `tbody`, `template`, `tfoot`, `thead` or `tr` element: that is how the mode is
entered, and it does not touch the stack) -/
def AcnHtml (s : State) : Prop := ∀ c, TBSafe.adjNode s = some c → (nameOf s.dom c).ns = nsHtml

/-- what the token source has to respect when it sends `token` in state `s` (the html5ever tokenizer
does): well-formed tags, non-empty character tokens without U+0000, in the "text" insertion mode
only characters, end tags and EOF; `drop_doctype` is off; a DOCTYPE in "initial" finds the Document in
no-quirks mode -/
structure TokTokOk (s : State) (token : TokToken) : Prop where
  tag : ∀ t, token = .tag t → TagWf t
  chars : ∀ x, token = .chars x → x ≠ [] ∧ '\x00' ∉ x
  text : s.mode = .text → (∃ x, token = .chars x) ∨ token = .eof ∨ (∃ t, token = .tag t ∧ t.kind = .endTag) ∨
    (∃ e, token = .parseError e)
  doctype : ∀ d, token = .doctype d → s.opts.dropDoctype = false ∧ (s.mode = .initial → s.quirksMode = .noQuirks)

/-- the `then` branch of the DOCTYPE arm of `process_token`, with the rest of `process_token` as `k` -/
def ptDoctypeInitialK {β : Type} (dt : Doctype) (k : Option Token → M β) : M β := do
  let (err, quirk) := doctypeErrorAndQuirks dt (← getS).opts.iframeSrcdoc
  if err then parseError "Bad DOCTYPE"
  if !(← getS).opts.dropDoctype then
    sinkUnit (.appendDoctypeToDocument (dt.name.getD []) (dt.publicId.getD []) (dt.systemId.getD []))
  setQuirksMode quirk
  setMode .beforeHtml
  k none

/-- the DOCTYPE token in the "initial" insertion mode (handled by `process_token` in html5ever), in
continuation-passing form: whatever follows (`k none`) runs in a state `s'` reached by a stretch that
the specification's "initial" rule for the DOCTYPE token matches -/
def DoctypeInitialSim : Prop :=
  ∀ (dt : Doctype) (s : State), TI s → MInv s → s.mode = .initial → s.opts.dropDoctype = false →
    s.quirksMode = .noQuirks →
    ∀ (β : Type) (k : Option Token → M β) (Q : β → State → List Call → Prop),
      (∀ s' c, Ext2 s c s' → Tr s s' c (fun x x' =>
          Spec.TreeModes.initial (cfgOf s) (absF s x) (.doctype dt.name dt.publicId dt.systemId dt.forceQuirks)
            = .ok (.done (absF s' x'))) →
        PC (k none) s' (fun b s2 c2 => Q b s2 (c ++ c2))) →
      PC (ptDoctypeInitialK dt k) s Q

/-- the post-condition of `process_token` -/
def PtPost (s : State) (token : TokToken) : SinkResult → State → List Call → Prop :=
  fun r s' calls => MInv s' ∧ cfgOf s' = cfgOf s ∧ TBSafe.Ext s.dom s'.dom ∧
    ∃ ids, ∀ x rest, AuxOk s x → x.supply = ids ++ rest →
      ∃ x', (x'.stopped = false → AuxOk s' x') ∧ x'.supply = rest ∧
        (∃ ops, x'.fullLog = x.fullLog ++ ops ∧
          ∀ tc, TcOk s'.dom tc → flatCalls (edits2 calls) = flatCalls (ops.map (opCall tc))) ∧
        (x'.stopped = true → token = .eof) ∧
        match specTokOf token with
        | none => r = .continue_ ∧ absF s' x' = absF s x ∧ x'.outs = x.outs
        | some t => ∃ o, x'.outs = x.outs ++ [o] ∧ OutRelR r {} o ∧
            (∃ F, ∀ fuel, F ≤ fuel → processTokenDev (cfgOf s) fuel (absF s x) t = .ok (absF s' x')) ∧
            -- from a state that satisfies the invariant `Good` of the specification's run, the UNMODIFIED
            -- specification processes the token to the same state, which satisfies the invariant again
            (H5V.Lemmas.ModesInv.Inv (absF s x) → H5V.Lemmas.ModesInv.Inv (absF s' x') ∧
              ∃ F, ∀ fuel, F ≤ fuel → Spec.TreeModes.processToken (cfgOf s) fuel (absF s x) t = .ok (absF s' x'))

theorem qshape_sinkUnit {op : SinkOp} (h : isEdit op = false) : QShape (sinkUnit op) := by
  unfold sinkUnit
  exact qshape_bind (qshape_sink h) (fun _ => qshape_pure _)

theorem pc_ite_jp {β : Type} {c : Prop} [Decidable c] {a : M PUnit} {k : PUnit → M β} {s : State}
    {Q1 : State → List Call → Prop} {R : β → State → List Call → Prop}
    (ha : c → PC a s (fun _ s1 c1 => Q1 s1 c1)) (hn : ¬c → Q1 s [])
    (hk : ∀ s1 c1, Ext2 s c1 s1 → Q1 s1 c1 → PC (k PUnit.unit) s1 (fun b s2 c2 => R b s2 (c1 ++ c2))) :
    PC (if c then a >>= k else k PUnit.unit) s R := by
  split
  · rename_i hc; exact pc_seq (ha hc) (fun _ s1 c1 he h => hk s1 c1 he h)
  · rename_i hc
    refine pc_conseq (hk s [] (Ext2.refl s) (hn hc)) ?_
    intro b s2 c2 _ h
    simpa using h

/-! ### a DOCTYPE token outside the "initial" insertion mode is ignored -/

theorem byModeDev_doctype (cfg : Config Id) (m : Mode) (hi : m ≠ .initial) (ht : m ≠ .text) (htt : m ≠ .inTableText)
    (σ : SState) (hm : σ.mode = imode m) (n p sy : Option Str) (f : Bool) :
    ∃ w, byModeDev cfg σ (.doctype n p sy f) = .ok (.done (σ.err w)) := by
  cases m <;> first
    | exact absurd rfl hi
    | exact absurd rfl ht
    | exact absurd rfl htt
    | (apply Exists.intro
       simp only [byModeDev, isDoctype, hm, imode, Bool.true_and, Bool.false_eq_true, if_false,
         cellAssertFails, isStartTag, Bool.and_false, Bool.false_and,
         Spec.TreeModes.byMode, Spec.TreeModes.beforeHtml, Spec.TreeModes.beforeHead, Spec.TreeModes.inHead,
         Spec.TreeModes.inHeadNoscript, Spec.TreeModes.afterHead, Spec.TreeModes.inBody, Spec.TreeModes.inTable,
         Spec.TreeModes.inCaption, Spec.TreeModes.inColumnGroup, Spec.TreeModes.inTableBody, Spec.TreeModes.inRow,
         Spec.TreeModes.inCell, Spec.TreeModes.inTemplate, Spec.TreeModes.afterBody, Spec.TreeModes.inFrameset,
         Spec.TreeModes.afterFrameset, Spec.TreeModes.afterAfterBody, Spec.TreeModes.afterAfterFrameset]
       first | rfl | (simp; rfl))

/-- an HTML adjusted current node: the dispatcher chooses the rules of the insertion mode for every token -/
theorem useHtml_of_acnHtml {s : State} (h : AcnHtml s) (x : Aux) (hx : AuxOk s x) (k : Spec.TreeAlgo.TokenKind) :
    Spec.TreeAlgo.useHtmlRules (Spec.TreeModes.adjustedCurrentNode (cfgOf s) (absF s x)) k = true := by
  have hstack : (absF s x).p.stack = absStack s.dom s.openElems := by
    simp only [absF, absP, hx.live, Bool.false_eq_true, if_false]
  have key : ∀ e : Spec.TreeAlgo.OpenElem, e.name.ns = Spec.TreeAlgo.nsHtml → Spec.TreeAlgo.useHtmlRules (some e) k = true := by
    intro e he
    simp [Spec.TreeAlgo.useHtmlRules, he]
  unfold Spec.TreeModes.adjustedCurrentNode
  rw [hstack]
  cases hl : s.openElems.reverse with
  | nil =>
    have he : s.openElems = [] := by simpa using hl
    simp [he, absStack, Spec.TreeAlgo.adjustedCurrentNode, Spec.TreeAlgo.useHtmlRules]
  | cons top rest =>
    have hrev : (absStack s.dom s.openElems).reverse = elemOf s.dom top :: rest.map (elemOf s.dom) := by
      unfold absStack; rw [← List.map_reverse, hl]; rfl
    have hlast : s.openElems.getLast? = some top := by
      rw [List.getLast?_eq_head?_reverse, hl]; rfl
    have hlen : s.openElems.length = rest.length + 1 := by
      have := congrArg List.length hl
      simpa using this
    rw [hrev]
    cases rest with
    | nil =>
      cases hc : s.contextElem with
      | none =>
        have hadj : TBSafe.adjNode s = some top := by
          unfold TBSafe.adjNode; rw [hlast]; simp [hc]
        have := h top hadj
        simp only [cfgOf, hc, Option.map_none, List.map_nil, List.map_cons, Spec.TreeAlgo.adjustedCurrentNode]
        exact key _ this
      | some c =>
        have hadj : TBSafe.adjNode s = some c := by
          unfold TBSafe.adjNode; rw [hlast]; simp [hc, hlen]
        have := h c hadj
        simp only [cfgOf, hc, Option.map_some, List.map_nil, List.map_cons, Spec.TreeAlgo.adjustedCurrentNode]
        exact key _ this
    | cons r rs =>
      have hadj : TBSafe.adjNode s = some top := by
        unfold TBSafe.adjNode; rw [hlast]; simp [hlen]
      have := h top hadj
      simp only [List.map_cons, Spec.TreeAlgo.adjustedCurrentNode]
      exact key _ this

/-! ### a DOCTYPE token in the "in table text" insertion mode: flush, then ignored in the original mode -/

/-- the "anything else" arm of "in table text" is `flush_pending_table_text` followed by "reprocess" -/
theorem stepInTableText_comment_eq (d : Str) :
    stepInTableText (.comment d) = flushPendingTableText >>= fun m => pure (.reprocess m (.comment d)) := by
  simp only [stepInTableText, flushPendingTableText, bind_assoc]
  congr 1; funext s0
  congr 1; funext u
  split
  · simp only [bind_assoc]
    congr 1; funext u1; congr 1; funext u2; congr 1; funext s1
    cases s1.origMode <;> simp
    rfl
  · simp only [bind_assoc]
    congr 1; funext u2; congr 1; funext s1
    cases s1.origMode <;> simp
    rfl

/-- `flush_pending_table_text` answers the original insertion mode, a table mode (C04's lemmas, with the
answer made explicit) -/
theorem sat_flush_tableMode [al : TBSafe.Allow] {s : State} (ht : TI s) (hm : s.mode = .inTableText) :
    TBSafe.Sat flushPendingTableText s (fun m _ => TBSafe.tableMode m = true) := by
  have hs : SInv .inTableText s := by have := ht.s; rw [hm] at this; exact this
  have hr : Rooted s.dom s.openElems := hs.root rfl
  obtain ⟨om, ho, hom⟩ := hs.tableText rfl
  unfold flushPendingTableText
  dsimp only
  refine TBSafe.sat_getS_bind ?_
  refine TBSafe.sat_modS_bind ?_
  have hi0 : HInv { s with pendingTableText := [] } :=
    ⟨ht.h.open_el, ht.h.open_tc, ht.h.af, ht.h.head, ht.h.form, ht.h.ctx⟩
  have htail : ∀ s2, s2.origMode = some om → TBSafe.Sat (do
      let s ← getS
      match s.origMode with
      | none => panicAt "unwrap-none" "rules.rs:1172" "orig_mode.take().unwrap()"
      | some m =>
        set { s with origMode := none }
        pure m) s2 (fun m _ => TBSafe.tableMode m = true) := by
    intro s2 ho2
    refine TBSafe.sat_getS_bind ?_
    rw [ho2]
    dsimp only
    refine TBSafe.sat_set_bind ?_
    exact TBSafe.sat_pure hom
  split
  · refine TBSafe.sat_parseError.bind ?_
    intro _ s1 hq1
    have b1 : TBSafe.BStep { s with pendingTableText := [] } s1 := TBSafe.BStep.of_qf hi0 hr hq1
    refine (TBSafe.sat_flushPendingFoster _ s1 b1.hinv b1.rooted).bind ?_
    intro _ s2 b2
    exact htail s2 (by rw [(b1.trans b2).origMode]; exact ho)
  · refine (TBSafe.sat_flushPendingPlain _ _ hi0 hr).bind ?_
    intro _ s2 b2
    exact htail s2 (by rw [b2.origMode]; exact ho)

/-- the flush of a DOCTYPE token in "in table text", with the switch to the original mode: the specification's
"anything else" of "in table text" answers "reprocess" with the same state -/
theorem pc_flushSetMode (hmode : ModeSim .inTableText) {s : State} (ht : TI s) (hm : MInv s) (hmd : s.mode = .inTableText) :
    PC (flushPendingTableText >>= fun m => setMode m) s (fun _ sB calls => TI sB ∧ MInv sB ∧ TBSafe.tableMode sB.mode = true ∧
      DTr s sB calls (fun x x1 => byModeDev (cfgOf s) (absF s x) (.comment []) = .ok (.reprocess (absF sB x1)) ∧
        (x1.out.switch = x.out.switch ∧ x1.out.script = x.out.script) ∧ x1.stopped = false)) := by
  intro u sB hr
  rw [StateT.run_bind] at hr
  cases hf : flushPendingTableText.run s with
  | error e => rw [hf] at hr; cases hr
  | ok p =>
    obtain ⟨m, s3⟩ := p
    rw [hf] at hr
    have hsB : sB = { s3 with mode := m } := by
      have : (Except.ok (m, s3) >>= fun p : Mode × State => (setMode p.1).run p.2) = .ok ((), { s3 with mode := m }) := rfl
      rw [this] at hr; cases hr; rfl
    subst hsB
    have hstep : (step .inTableText (.comment [])).run s = .ok (.reprocess m (.comment []), s3) := by
      show (stepInTableText (.comment [])).run s = _
      rw [stepInTableText_comment_eq, StateT.run_bind, hf]
      rfl
    have htm : TBSafe.tableMode m = true :=
      ((@H5V.Props.C04TB.sat_iff H5V.Props.C04TB.allowAll _ _ _ _).mp (@sat_flush_tableMode H5V.Props.C04TB.allowAll s ht hmd)).1 m s3 hf
    obtain ⟨calls, he, hpost⟩ := hmode (.comment []) rfl trivial s ht hm hmd (fun h => by cases h) _ _ hstep
    have hd := DTr.of_tokPost he.ext hpost
    have hsp := (@H5V.Props.C04TB.C04_tb_no_panic_step H5V.Props.C04TB.allowAll s (.comment []) ht (fun _ => Or.inl trivial)).1
      _ _ (by rw [hmd]; exact hstep)
    have htB : TI ({ s3 with mode := m } : State) := ⟨hsp.h.withMode m, hsp.s.withMode m⟩
    refine ⟨calls, ⟨he.trace, he.replay⟩, htB, hpost.2.1, htm, hd.conseq ?_⟩
    rintro x x1 hx ⟨e, ho, hst, _⟩
    have hlive : x1.stopped = false := by
      cases h : x1.stopped
      · rfl
      · cases (hst h).1
    exact ⟨e, ho, hlive⟩

/-! ### `process_token` -/

/-- the `Aux` at the end of a token: the answer goes to `outs`, the parse error for an unacknowledged
self-closing flag to `errors` -/
def Aux.finish (x : Aux) (s : State) (t : Spec.TreeModes.Token) : Aux :=
  { x with outs := x.outs ++ [x.out], errors := (finishTok t (absF s x)).errors }

theorem absF_finish (s : State) (x : Aux) (t : Spec.TreeModes.Token) : absF s (x.finish s t) = finishTok t (absF s x) := by
  cases t with
  | startTag tg =>
    simp only [Aux.finish, finishTok]
    split <;> rfl
  | _ => rfl

theorem AuxOk.finish_ok {s : State} {x : Aux} (h : AuxOk s x) (t : Spec.TreeModes.Token) : AuxOk s (x.finish s t) :=
  ⟨h.live, h.annot, h.annotEl, h.xlog⟩

theorem AuxOk.prelude {s s1 : State} {x : Aux} {c1 : List Call} (h : AuxOk s x) (hm : MInv s) (hs : SameTB s s1)
    (he : Ext2 s c1 s1) (o : Out Id) (b : Bool) : AuxOk { s1 with ignoreLf := b } { x with out := o } := by
  have h1 := h.of_same hm hs he.ext
  exact ⟨h1.live, h1.annot, h1.annotEl, h1.xlog⟩

theorem absF_prelude {s s1 : State} {c1 : List Call} (x : Aux) (hm : MInv s) (hs : SameTB s s1) (he : Ext2 s c1 s1) :
    absF { s1 with ignoreLf := false } { x with out := {} } = { absF s x with out := {}, ignoreLf := false } := by
  rw [← absF_of_same x hm hs he.ext]
  rfl

theorem dispatchFull_of_dev_done {cfg : Config Id} {σ σ' : SState} {tok : STok}
    (h : dispatchDev cfg σ tok = .ok (.done σ')) : dispatchFull cfg σ tok = .ok (.done σ') := by
  unfold dispatchDev at h
  unfold dispatchFull
  split
  · rename_i hu; rw [if_pos hu] at h; exact h
  · rename_i hu; rw [if_neg hu] at h
    unfold foreignFull
    rw [h]; rfl

theorem dispatchFull_of_dev_reprocess {cfg : Config Id} {σ σ' : SState} {tok : STok}
    (h : dispatchDev cfg σ tok = .ok (.reprocess σ')) : dispatchFull cfg σ tok = .ok (.reprocess σ') := by
  unfold dispatchDev at h
  unfold dispatchFull
  split
  · rename_i hu; rw [if_pos hu] at h; exact h
  · rename_i hu; rw [if_neg hu] at h
    unfold foreignFull
    rw [h]; rfl

/-- a non-character token that one step of the dispatcher finishes: the unmodified specification -/
theorem std_of_rule_done {s s1 s' : State} {x x' : Aux} {c1 : List Call} {t : Spec.TreeModes.Token}
    (hct : isCharsSTok t = false) (ht2 : TI { s1 with ignoreLf := false }) (hm2 : MInv { s1 with ignoreLf := false })
    (hm : MInv s) (hs : SameTB s s1) (he1 : Ext2 s c1 s1) (hx : AuxOk s x)
    (hfs : FreshSup { s1 with ignoreLf := false } { x with out := {} } x')
    (hrule : dispatchDev (cfgOf s) { absF s x with out := {}, ignoreLf := false } (soleSTok t) = .ok (.done (absF s' x')))
    (hi : H5V.Lemmas.ModesInv.Inv (absF s x)) :
    H5V.Lemmas.ModesInv.Inv (finishTok t (absF s' x')) ∧
      ∃ F, ∀ fuel, F ≤ fuel → Spec.TreeModes.processToken (cfgOf s) fuel (absF s x) t = .ok (finishTok t (absF s' x')) := by
  have hc0 : cfgOf ({ s1 with ignoreLf := false } : State) = cfgOf s := cfgOf_of_same hm hs he1.ext (s' := s1)
  have hgs : GS { s1 with ignoreLf := false } { x with out := {} } (soleSTok t) s' x' :=
    gs_done ht2 hm2 (hx.prelude hm hs he1 _ _) hfs
      (dispatchFull_of_dev_done (by rw [hc0, absF_prelude x hm hs he1]; exact hrule))
  unfold GS at hgs
  rw [hc0, absF_prelude x hm hs he1] at hgs
  exact std_of_gs hct hx.live hgs hi

/-- from the result of `process_to_completion` (started in the state after the prelude of `process_token`)
to the post-condition of `process_token` -/
theorem ptPost_of_dtr {s s1 s' : State} {token : TokToken} {t : Spec.TreeModes.Token} {r : SinkResult} {c1 c2 : List Call}
    {R : Aux → Aux → Prop} (hspec : specTokOf token = some t) (hm : MInv s) (hs : SameTB s s1) (he1 : Ext2 s c1 s1)
    (hc1 : edits c1 = []) (hd : DTr { s1 with ignoreLf := false } s' c2 R) (hm' : MInv s')
    (hR : ∀ x x', AuxOk s x → R { x with out := {} } x' → OutRelR r {} x'.out ∧ (x'.stopped = true → token = .eof) ∧
      ∃ F, ∀ fuel, F ≤ fuel → processTokenDev (cfgOf s) fuel (absF s x) t = .ok (finishTok t (absF s' x')))
    (hstd : isCharsSTok t = false → ∀ x x', AuxOk s x → R { x with out := {} } x' →
      FreshSup { s1 with ignoreLf := false } { x with out := {} } x' → H5V.Lemmas.ModesInv.Inv (absF s x) →
      H5V.Lemmas.ModesInv.Inv (finishTok t (absF s' x')) ∧
        ∃ F, ∀ fuel, F ≤ fuel → Spec.TreeModes.processToken (cfgOf s) fuel (absF s x) t = .ok (finishTok t (absF s' x'))) :
    PtPost s token r s' (c1 ++ c2) := by
  obtain ⟨hc, he, ids, hfi, f⟩ := hd
  have hc0 : cfgOf ({ s1 with ignoreLf := false } : State) = cfgOf s := cfgOf_of_same hm hs he1.ext (s' := s1)
  refine ⟨hm', hc.trans hc0, he1.ext.trans he, ids, fun x rest hx hsup => ?_⟩
  obtain ⟨x', l, r1⟩ := f { x with out := {} } rest (hx.prelude hm hs he1 _ _) hsup
  obtain ⟨ho, hst, F, hF⟩ := hR x x' hx r1
  refine ⟨x'.finish s' t, fun h => (l.aux h).finish_ok t, l.supply, ?_, hst, ?_⟩
  · obtain ⟨ops, e, k⟩ := l.log
    refine ⟨ops, e, fun tc htc => ?_⟩
    rw [edits2_append, ← edits2_edits c1, hc1]
    exact k tc htc
  · rw [hspec]
    refine ⟨x'.out, ?_, ho, ⟨F, fun fuel hfu => ?_⟩, ?_⟩
    · show x'.outs ++ [x'.out] = x.outs ++ [x'.out]
      rw [l.outs]
    · rw [absF_finish]; exact hF fuel hfu
    · rw [absF_finish]
      cases hct : isCharsSTok t
      · refine hstd hct x x' hx r1 ?_
        intro used hu
        rw [show ({ x with out := {} } : Aux).supply = x.supply from rfl, hsup, l.supply] at hu
        rw [← List.append_cancel_right hu]
        exact hfi
      · cases t with
        | chars cs => exact std_of_dev_chars (cfgOf_edition s) hF
        | _ => cases hct

theorem textTok_of_ok {s : State} {token : TokToken} (h : TokTokOk s token) (hm : s.mode = .text) (t : Tag)
    (ht : token = .tag t) : textTok (.tag t) = true := by
  rcases h.text hm with ⟨x, hx⟩ | hx | ⟨t', ht', hk⟩ | ⟨e, he⟩
  · rw [ht] at hx; cases hx
  · rw [ht] at hx; cases hx
  · rw [ht] at ht'; cases ht'
    simp [textTok, hk]
  · rw [ht] at he; cases he

/-- the non-character tokens: from `pc_ptc_tok` to `PtPost` -/
theorem ptPost_tok {s s1 s' : State} {token : TokToken} {tok : Token} {t : Spec.TreeModes.Token} {r : SinkResult}
    {c1 c2 : List Call} (hspec : specTokOf token = some t) (hct : isCharsSTok t = false) (hsole : soleSTok t = stokOf tok)
    (heof : tok = .eof → token = .eof) (hm : MInv s) (hs : SameTB s s1)
    (he1 : Ext2 s c1 s1) (hc1 : edits c1 = []) (h : PtcTokPost { s1 with ignoreLf := false } tok r s' c2) :
    PtPost s token r s' (c1 ++ c2) := by
  obtain ⟨_, hm', hd⟩ := h
  have hc0 : cfgOf ({ s1 with ignoreLf := false } : State) = cfgOf s := cfgOf_of_same hm hs he1.ext (s' := s1)
  refine ptPost_of_dtr hspec hm hs he1 hc1 hd hm' ?_ ?_
  · rintro x x' hx ⟨ho, hl, hst, _⟩
    refine ⟨ho, fun h => heof (hst h), ?_⟩
    rw [hc0, absF_prelude x hm hs he1, ← hsole] at hl
    exact processTokenDev_tok hct hx.live hl
  · rintro _ x x' hx ⟨_, _, _, hgs⟩ _ hi
    unfold GS at hgs
    rw [hc0, absF_prelude x hm hs he1, ← hsole] at hgs
    exact std_of_gs hct hx.live hgs hi

theorem charsToken_spec {lf : Bool} {x : Str} (hx : x ≠ []) (hn : '\x00' ∉ x) :
    (charsToken lf x = none ∧ dropIgnoredLf lf x = []) ∨
    (charsToken lf x = some (.chars .notSplit (dropIgnoredLf lf x)) ∧ TokWf (.chars .notSplit (dropIgnoredLf lf x))) := by
  unfold charsToken
  by_cases he : (dropIgnoredLf lf x).isEmpty = true
  · left; rw [if_pos he]; exact ⟨rfl, by simpa using he⟩
  · right; rw [if_neg he]
    refine ⟨rfl, by simpa using he, ?_, trivial⟩
    intro h
    apply hn
    unfold dropIgnoredLf at h
    split at h
    · split at h
      · exact List.mem_cons_of_mem _ h
      · exact h
    · exact h

theorem AuxOk.not_stopped {s : State} {x : Aux} (hx : AuxOk s x) {P : Prop} (h : x.stopped = true) : P := by
  rw [hx.live] at h; cases h

theorem DTr.refl (s : State) : DTr s s [] (fun x x' => x' = x) :=
  ⟨rfl, TBSafe.Ext.refl _, [], FreshIds.nil _, fun x rest hx hs => ⟨x, ⟨fun _ => hx, by simpa using hs, rfl, [], by simp, fun _ _ => rfl⟩, rfl⟩⟩

theorem DTr.reaux {s s' : State} {c : List Call} {R : Aux → Aux → Prop} (h : DTr s s' c R) (g : Aux → Aux → Aux)
    (hg : ∀ x x', AuxSame x' (g x x') ∧ (g x x').stopped = x'.stopped) :
    DTr s s' c (fun x x'' => ∃ x', R x x' ∧ x'' = g x x') := by
  obtain ⟨hc, he, ids, hfi, f⟩ := h
  refine ⟨hc, he, ids, hfi, fun x rest hx hs => ?_⟩
  obtain ⟨x', l, r⟩ := f x rest hx hs
  obtain ⟨hsame, hst⟩ := hg x x'
  refine ⟨g x x', ⟨fun h => ?_, hsame.supply.trans l.supply, hsame.outs.trans l.outs, ?_⟩, x', r, rfl⟩
  · have hx' := l.aux (hst ▸ h)
    exact ⟨h, by rw [hsame.annot]; exact hx'.annot, by rw [hsame.annot]; exact hx'.annotEl,
      by rw [hsame.xlog, hsame.log]; exact hx'.xlog⟩
  · obtain ⟨ops, e, k⟩ := l.log
    refine ⟨ops, ?_, k⟩
    unfold Aux.fullLog at e ⊢
    rw [hsame.xlog, hsame.log]; exact e

/-- a DOCTYPE token outside "initial" and "text": the dispatcher's answer is "parse error, ignore" -/
theorem dispatchDev_doctype (cfg : Config Id) (m : Mode) (hi : m ≠ .initial) (ht : m ≠ .text) (htt : m ≠ .inTableText)
    (σ : SState) (hm : σ.mode = imode m) (n p sy : Option Str) (f : Bool) :
    ∃ w, dispatchDev cfg σ (.doctype n p sy f) = .ok (.done (σ.err w)) := by
  unfold dispatchDev
  split
  · exact byModeDev_doctype cfg m hi ht htt σ hm n p sy f
  · exact ⟨_, by simp [Spec.TreeModes.foreign]; rfl⟩

theorem sameTB_of_fields {s s' : State} (f : SameFields s s') (hl : s'.currentLine = s.currentLine) : SameTB s s' := by
  obtain ⟨h1, h2, h3, h4, h5, h6, h7, h8, h9, h10, h11, h12, h13, h14, h15⟩ := f
  cases s; cases s'
  simp only at h1 h2 h3 h4 h5 h6 h7 h8 h9 h10 h11 h12 h13 h14 h15 hl
  subst h1 h2 h3 h4 h5 h6 h7 h8 h9 h10 h11 h12 h13 h14 h15 hl
  rfl

/-- a DOCTYPE token outside "initial", "text", "in table text": parse error, ignored — on both sides -/
theorem pc_doctypeIgnored {sA : State} (hmA : MInv sA) (hi : sA.mode ≠ .initial) (ht : sA.mode ≠ .text)
    (htt : sA.mode ≠ .inTableText) (n p sy : Option Str) (f : Bool) :
    PC (parseError "DOCTYPE in body") sA (fun _ s' calls => MInv s' ∧ DTr sA s' calls (fun x x' =>
      dispatchDev (cfgOf sA) (absF sA x) (.doctype n p sy f) = .ok (.done (absF s' x')) ∧ AuxOk s' x' ∧
      x'.out.switch = x.out.switch ∧ x'.out.script = x.out.script)) := by
  refine pc_conseq (PC.of_tot (tot_parseError sA _)) ?_
  rintro _ s3 c3 he3 ⟨-, hs3, hc3⟩
  let errs : Aux → List String := fun x0 =>
    match dispatchDev (cfgOf sA) (absF sA x0) (.doctype n p sy f) with
    | .ok r => r.state.errors
    | .error _ => []
  have htr3 := Tr.of_same hmA hs3 he3 (by rw [← edits2_edits, hc3]; rfl)
  have hd := (DTr.of_tr htr3).reaux
    (fun x0 x' => { x' with errors := errs x0 }) (fun _ _ => ⟨⟨rfl, rfl, rfl, rfl, rfl⟩, rfl⟩)
  refine ⟨htr3.1, hd.conseq ?_⟩
  rintro x x'' hx ⟨x', ⟨⟨hxx, he⟩, hx', h1, h2⟩, hx''⟩
  subst x' x''
  obtain ⟨w, hw⟩ := dispatchDev_doctype (cfgOf sA) sA.mode hi ht htt (absF sA x) rfl n p sy f
  have herr : errs x = ((absF sA x).err w).errors := by
    show (match dispatchDev (cfgOf sA) _ _ with | .ok r => r.state.errors | .error _ => []) = _
    rw [hw]; rfl
  refine ⟨?_, ⟨hx'.live, hx'.annot, hx'.annotEl, hx'.xlog⟩, h1, h2⟩
  rw [hw, herr]
  have e2 : ∀ E, absF s3 { x with errors := E } = { absF s3 x with errors := E } := fun _ => rfl
  rw [e2, ← he]
  rfl

/-- **`process_token`** -/
theorem pc_processToken (hmode : ∀ m, ModeSim m) (hchar : ∀ m, ModeCharSim m) (hfor : ForeignSim)
    (hforc : ForeignCharSim) (hdt : DoctypeInitialSim) (token : TokToken) (line : Nat) (s : State) (ht : TI s)
    (hm : MInv s) (hok : TokTokOk s token) (hacnH : s.mode = .inTableText → AcnHtml s) :
    PC (processToken token line) s (PtPost s token) := by
  unfold processToken
  refine pc_getS_bind ?_
  dsimp only
  refine pc_ite_jp (Q1 := fun s1 c1 => SameTB s s1 ∧ edits c1 = [])
    (fun _ => pc_conseq (qshape_sinkUnit rfl s) (fun _ _ _ _ h => h)) (fun _ => ⟨SameTB.refl s, rfl⟩) ?_
  rintro s1 c1 he1 ⟨hs1, hc1⟩
  have ht1 : TI s1 := ht.of_qf (qf_of_same hs1 he1)
  refine pc_getS_bind ?_
  refine pc_bind (pc_modS rfl rfl ?_)
  have ht2 : TI { s1 with ignoreLf := false } := ht1.withIgnoreLf false
  have hm2 : MInv ({ s1 with ignoreLf := false } : State) := (hm.sameTB hs1 he1.ext).withIgnoreLf false
  have hlf2 : ({ s1 with ignoreLf := false } : State).ignoreLf = false := rfl
  have hmode2 : ({ s1 with ignoreLf := false } : State).mode = s.mode := hs1.fields.mode
  have hc0 : cfgOf ({ s1 with ignoreLf := false } : State) = cfgOf s := cfgOf_of_same hm hs1 he1.ext (s' := s1)
  cases token with
  | parseError e =>
    dsimp only
    refine pc_seq (qshape_sinkUnit rfl _) ?_
    rintro _ s3 c3 he3 ⟨hs3, hc3⟩
    refine pc_bind (pc_modS rfl rfl ?_)
    refine pc_bind (pc_pure ?_)
    refine pc_pure ?_
    simp only [List.nil_append, List.append_nil]
    have hs4 : SameTB s { s3 with ignoreLf := s1.ignoreLf } := by
      have f1 := hs1.fields
      have f3 := hs3.fields
      refine sameTB_of_fields ⟨f3.opts.trans f1.opts, f3.mode.trans f1.mode, f3.origMode.trans f1.origMode,
        f3.templateModes.trans f1.templateModes, f3.pendingTableText.trans f1.pendingTableText,
        f3.quirksMode.trans f1.quirksMode, f3.docHandle.trans f1.docHandle, f3.openElems.trans f1.openElems,
        f3.activeFormatting.trans f1.activeFormatting, f3.headElem.trans f1.headElem, f3.formElem.trans f1.formElem,
        f3.framesetOk.trans f1.framesetOk, f1.ignoreLf, f3.fosterParenting.trans f1.fosterParenting,
        f3.contextElem.trans f1.contextElem⟩ ?_
      have e3 : s3.currentLine = ({ s1 with ignoreLf := false } : State).currentLine := by
        unfold SameTB at hs3; rw [hs3]
      have e1 : s1.currentLine = s.currentLine := by unfold SameTB at hs1; rw [hs1]
      exact e3.trans e1
    have he3' : Ext2 s1 c3 s3 := ⟨he3.trace, he3.replay⟩
    have he4 : Ext2 s (c1 ++ c3) { s3 with ignoreLf := s1.ignoreLf } :=
      ⟨(he1.trans he3').trace, (he1.trans he3').replay⟩
    refine ⟨hm.sameTB hs4 he4.ext, cfgOf_of_same hm hs4 he4.ext, he4.ext, [], fun x rest hx hsup => ?_⟩
    refine ⟨x, fun _ => hx.of_same hm hs4 he4.ext, by simpa using hsup, ⟨[], by simp, fun _ _ => ?_⟩,
      fun h => hx.not_stopped h, ?_⟩
    · rw [edits2_append, ← edits2_edits c1, hc1, ← edits2_edits c3, hc3]
      rfl
    · show _ ∧ _ ∧ _
      exact ⟨rfl, absF_of_same x hm hs4 he4.ext, rfl⟩
  | doctype dt =>
    dsimp only
    refine pc_getS_bind ?_
    have hdrop : ({ s1 with ignoreLf := false } : State).opts.dropDoctype = false := by
      have := (hok.doctype dt rfl).1
      rw [← hs1.fields.opts] at this; exact this
    by_cases hmi : s.mode = .initial
    · have hmi2 : ({ s1 with ignoreLf := false } : State).mode = .initial := hmode2.trans hmi
      have hmi' : (({ s1 with ignoreLf := false } : State).mode == Mode.initial) = true := by rw [hmi2]; rfl
      rw [if_pos hmi']
      have hq2 : ({ s1 with ignoreLf := false } : State).quirksMode = .noQuirks :=
        hs1.fields.quirksMode.trans ((hok.doctype dt rfl).2 hmi)
      refine hdt dt _ ht2 hm2 hmi2 hdrop hq2 _ (fun _ => pure SinkResult.continue_) _ ?_
      intro s' c he htr
      refine pc_pure ?_
      simp only [List.nil_append, List.append_nil]
      have hempty : s.openElems = [] := by
        have hst := ht.s.stack
        rw [hmi] at hst
        simpa only [TBSafe.ModeStack] using hst
      have hrule : ∀ x x', AuxOk s x →
          Spec.TreeModes.initial (cfgOf ({ s1 with ignoreLf := false } : State)) (absF { s1 with ignoreLf := false } { x with out := {} })
            (.doctype dt.name dt.publicId dt.systemId dt.forceQuirks) = .ok (.done (absF s' x')) →
          dispatchDev (cfgOf s) { absF s x with out := {}, ignoreLf := false }
            (soleSTok (.doctype dt.name dt.publicId dt.systemId dt.forceQuirks)) = .ok (.done (absF s' x')) := by
        intro x x' hx hi
        rw [hc0, absF_prelude x hm hs1 he1] at hi
        have hstack : ({ absF s x with out := {}, ignoreLf := false } : SState).p.stack = [] := by
          show (absF s x).p.stack = []
          simp only [absF, absP, hx.live, Bool.false_eq_true, if_false, hempty, absStack, List.map_nil]
        have hmσ : ({ absF s x with out := {}, ignoreLf := false } : SState).mode = .initial := by
          show imode s.mode = .initial
          rw [hmi]; rfl
        generalize ({ absF s x with out := {}, ignoreLf := false } : SState) = σ at hi hstack hmσ ⊢
        simp only [Bool.false_eq_true, if_false, dispatchDev, Spec.TreeModes.adjustedCurrentNode, hstack,
          List.reverse_nil, List.map_nil, Spec.TreeAlgo.adjustedCurrentNode, Spec.TreeAlgo.useHtmlRules, if_true,
          soleSTok, byModeDev, Bool.false_and, hmσ, Spec.TreeModes.byMode,
          cellAssertFails, isStartTag, Bool.and_false, Bool.true_and]
        have hmc : (IMode.initial == IMode.inCell) = false := rfl
        try simp only [hmc, Bool.false_eq_true, if_false, Bool.false_and]
        exact hi
      refine ptPost_of_dtr (t := .doctype dt.name dt.publicId dt.systemId dt.forceQuirks) rfl hm hs1 he1 hc1 (DTr.of_tr htr) htr.1 ?_ ?_
      · rintro x x' hx ⟨hi, hx', h1, h2⟩
        refine ⟨⟨h1, h2⟩, fun h => hx'.not_stopped h, ?_⟩
        exact processTokenDev_tok rfl hx.live (LoopsTo.done (by simp only [ruleOf, Bool.false_eq_true, if_false]; exact hrule x x' hx hi))
      · rintro _ x x' hx ⟨hi, _, _, _⟩ hfs hinv
        exact std_of_rule_done rfl ht2 hm2 hm hs1 he1 hx hfs (hrule x x' hx hi) hinv
    · have hmi2 : ({ s1 with ignoreLf := false } : State).mode ≠ .initial := fun h => hmi (hmode2.symm.trans h)
      have hmi' : (({ s1 with ignoreLf := false } : State).mode == Mode.initial) = false := by
        cases hmm : ({ s1 with ignoreLf := false } : State).mode <;> first | rfl | exact absurd hmm hmi2
      rw [hmi']
      simp only [Bool.false_eq_true, if_false]
      have hnt : s.mode ≠ .text := by
        intro h
        rcases hok.text h with ⟨y, hy⟩ | hy | ⟨t', ht', _⟩ | ⟨e, he⟩ <;> first | cases hy | cases ht' | cases he
      refine pc_getS_bind ?_
      by_cases hmt : s.mode = .inTableText
      · -- "in table text": the pending table text is flushed, the mode switched back, the token ignored there
        have hmt2 : ({ s1 with ignoreLf := false } : State).mode = .inTableText := hmode2.trans hmt
        have hmt' : (({ s1 with ignoreLf := false } : State).mode == Mode.inTableText) = true := by rw [hmt2]; rfl
        rw [if_pos hmt']
        rw [← bind_assoc]
        refine pc_seq (pc_flushSetMode (hmode .inTableText) ht2 hm2 hmt2) ?_
        rintro _ sB cB heB ⟨htB, hmB, htmB, hdB⟩
        have hBi : sB.mode ≠ .initial := by intro h; rw [h] at htmB; cases htmB
        have hBt : sB.mode ≠ .text := by intro h; rw [h] at htmB; cases htmB
        have hBtt : sB.mode ≠ .inTableText := by intro h; rw [h] at htmB; cases htmB
        refine pc_seq (pc_doctypeIgnored hmB hBi hBt hBtt dt.name dt.publicId dt.systemId dt.forceQuirks) ?_
        rintro _ s3 c3 he3 ⟨hm3, hd3⟩
        refine pc_bind (pc_pure ?_)
        refine pc_pure ?_
        simp only [List.nil_append, List.append_nil]
        have hd := hdB.withFresh.trans (fun _ _ h => h.1.2.2) hd3.withFresh
        have hcB : cfgOf sB = cfgOf s := hdB.1.trans hc0
        have hdtok : soleSTok (.doctype dt.name dt.publicId dt.systemId dt.forceQuirks)
            = STok.doctype dt.name dt.publicId dt.systemId dt.forceQuirks := rfl
        -- first iteration: "in table text", anything else: reprocess
        have hfirst : ∀ x xB, AuxOk s x →
            byModeDev (cfgOf ({ s1 with ignoreLf := false } : State)) (absF { s1 with ignoreLf := false } { x with out := {} })
              (.comment []) = .ok (.reprocess (absF sB xB)) →
            dispatchDev (cfgOf s) { absF s x with out := {}, ignoreLf := false }
              (STok.doctype dt.name dt.publicId dt.systemId dt.forceQuirks) = .ok (.reprocess (absF sB xB)) := by
          intro x xB hx e1
          rw [hc0, absF_prelude x hm hs1 he1] at e1
          have hacn := hacnH hmt
          have hu := useHtml_of_acnHtml hacn x hx (Spec.TreeModes.tokenKind (STok.doctype dt.name dt.publicId dt.systemId dt.forceQuirks))
          have hmσ : ({ absF s x with out := {}, ignoreLf := false } : SState).mode = .inTableText := by
            show imode s.mode = .inTableText
            rw [hmt]; rfl
          have hacnσ : Spec.TreeModes.adjustedCurrentNode (cfgOf s) ({ absF s x with out := {}, ignoreLf := false } : SState)
              = Spec.TreeModes.adjustedCurrentNode (cfgOf s) (absF s x) := rfl
          simp only [dispatchDev, hacnσ, hu, if_true]
          have hca : cellAssertFails ({ absF s x with out := {}, ignoreLf := false } : SState)
              (STok.doctype dt.name dt.publicId dt.systemId dt.forceQuirks) = false :=
            cellAssertFails_of_mode _ _ (by rw [hmσ]; decide)
          have hcb : cellAssertFails ({ absF s x with out := {}, ignoreLf := false } : SState) (STok.comment []) = false :=
            cellAssertFails_of_mode _ _ (by rw [hmσ]; decide)
          rw [byModeDev_eq _ _ _ hca]
          rw [byModeDev_eq _ _ _ hcb] at e1
          have hmσ' : (absF s x).mode = .inTableText := hmσ
          simp only [Spec.TreeModes.byMode, hmσ'] at e1 ⊢
          exact e1
        refine ptPost_of_dtr (t := .doctype dt.name dt.publicId dt.systemId dt.forceQuirks) rfl hm hs1 he1 hc1 hd hm3 ?_ ?_
        · rintro x x3 hx ⟨xB, ⟨⟨e1, hoB, _⟩, _⟩, hxB, ⟨e3, hx3, h1, h2⟩, _⟩
          refine ⟨⟨h1.trans hoB.1, h2.trans hoB.2⟩, fun h => hx3.not_stopped h, ?_⟩
          refine processTokenDev_tok rfl hx.live ?_
          rw [hcB] at e3
          refine LoopsTo.reprocess (σ1 := absF sB xB) ?_ (LoopsTo.done (by simpa [ruleOf, soleSTok] using e3))
          simp only [ruleOf, Bool.false_eq_true, if_false, hdtok]
          exact hfirst x xB hx e1
        · rintro _ x x3 hx ⟨xB, ⟨⟨e1, _, _⟩, hfB⟩, hxB, ⟨e3, _, _, _⟩, hf3⟩ _ hinv
          have hx0 := hx.prelude hm hs1 he1 ({} : Out Id) false
          have e1' := dispatchFull_of_dev_reprocess (hfirst x xB hx e1)
          have hg3 : GS sB xB (STok.doctype dt.name dt.publicId dt.systemId dt.forceQuirks) s3 x3 :=
            gs_done htB hmB hxB hf3 (dispatchFull_of_dev_done e3)
          have hgs : GS { s1 with ignoreLf := false } { x with out := {} }
              (STok.doctype dt.name dt.publicId dt.systemId dt.forceQuirks) s3 x3 :=
            gs_reprocess ht2 hm2 hx0 hfB (by rw [hc0, absF_prelude x hm hs1 he1]; exact e1') (hdB.1) hg3
          unfold GS at hgs
          rw [hc0, absF_prelude x hm hs1 he1] at hgs
          exact std_of_gs (tok := .doctype dt.name dt.publicId dt.systemId dt.forceQuirks) rfl hx.live hgs hinv
      · have hmt2 : ({ s1 with ignoreLf := false } : State).mode ≠ .inTableText := fun h => hmt (hmode2.symm.trans h)
        have hmt' : (({ s1 with ignoreLf := false } : State).mode == Mode.inTableText) = false := by
          cases hmm : ({ s1 with ignoreLf := false } : State).mode <;> first | rfl | exact absurd hmm hmt2
        rw [hmt']
        simp only [Bool.false_eq_true, if_false]
        have hnt2 : ({ s1 with ignoreLf := false } : State).mode ≠ .text := fun h => hnt (hmode2.symm.trans h)
        refine pc_seq (pc_doctypeIgnored hm2 hmi2 hnt2 hmt2 dt.name dt.publicId dt.systemId dt.forceQuirks) ?_
        rintro _ s3 c3 he3 ⟨hm3, hd3⟩
        refine pc_bind (pc_pure ?_)
        refine pc_pure ?_
        simp only [List.nil_append, List.append_nil]
        refine ptPost_of_dtr (t := .doctype dt.name dt.publicId dt.systemId dt.forceQuirks) rfl hm hs1 he1 hc1 hd3 hm3 ?_ ?_
        · rintro x x3 hx ⟨e3, hx3, h1, h2⟩
          refine ⟨⟨h1, h2⟩, fun h => hx3.not_stopped h, ?_⟩
          refine processTokenDev_tok rfl hx.live (LoopsTo.done ?_)
          rw [hc0, absF_prelude x hm hs1 he1] at e3
          simpa [ruleOf, soleSTok] using e3
        · rintro _ x x3 hx ⟨e3, _, _, _⟩ hfs hinv
          rw [hc0, absF_prelude x hm hs1 he1] at e3
          exact std_of_rule_done rfl ht2 hm2 hm hs1 he1 hx hfs e3 hinv
  | tag t =>
    dsimp only
    refine pc_bind (pc_pure ?_)
    dsimp only
    refine pc_getS_bind ?_
    generalize ptcFuel _ (Token.tag t) = fuel
    have hprot : ({ s1 with ignoreLf := false } : State).mode = .text → textTok (.tag t) = true :=
      fun h => textTok_of_ok hok (hmode2.symm.trans h) t rfl
    have hwf : TokWf (.tag t) := hok.tag t rfl
    refine pc_conseq (pc_ptc_tok hmode hfor (.tag t) rfl hwf fuel _ ht2 hm2 hprot) ?_
    intro r s' c2 _ hp
    simp only [List.nil_append]
    refine ptPost_tok (t := if t.kind == .startTag then .startTag (specTag t) else .endTag (specTag t))
      rfl ?_ ?_ (fun h => by cases h) hm hs1 he1 hc1 hp
    · split <;> rfl
    · simp only [stokOf, stokOfTag]; split <;> rfl
  | comment d =>
    dsimp only
    refine pc_bind (pc_pure ?_)
    dsimp only
    refine pc_getS_bind ?_
    generalize ptcFuel _ (Token.comment d) = fuel
    have hprot : ({ s1 with ignoreLf := false } : State).mode = .text → textTok (.comment d) = true := by
      intro h
      rcases hok.text (hmode2.symm.trans h) with ⟨x, hx⟩ | hx | ⟨t', ht', _⟩ | ⟨e, he⟩ <;> first | cases hx | cases ht' | cases he
    refine pc_conseq (pc_ptc_tok hmode hfor (.comment d) rfl trivial fuel _ ht2 hm2 hprot) ?_
    intro r s' c2 _ hp
    simp only [List.nil_append]
    exact ptPost_tok (t := .comment d) rfl rfl rfl (fun h => by cases h) hm hs1 he1 hc1 hp
  | eof =>
    dsimp only
    refine pc_bind (pc_pure ?_)
    dsimp only
    refine pc_getS_bind ?_
    generalize ptcFuel _ Token.eof = fuel
    refine pc_conseq (pc_ptc_tok hmode hfor .eof rfl trivial fuel _ ht2 hm2 (fun _ => rfl)) ?_
    intro r s' c2 _ hp
    simp only [List.nil_append]
    exact ptPost_tok (t := .eof) rfl rfl rfl (fun _ => rfl) hm hs1 he1 hc1 hp
  | nullChar =>
    dsimp only
    refine pc_bind (pc_pure ?_)
    dsimp only
    refine pc_getS_bind ?_
    generalize ptcFuel _ Token.nullChar = fuel
    have hprot : ({ s1 with ignoreLf := false } : State).mode = .text → textTok .nullChar = true := by
      intro h
      rcases hok.text (hmode2.symm.trans h) with ⟨x, hx⟩ | hx | ⟨t', ht', _⟩ | ⟨e, he⟩ <;> first | cases hx | cases ht' | cases he
    refine pc_conseq (pc_ptc_tok hmode hfor .nullChar rfl trivial fuel _ ht2 hm2 hprot) ?_
    rintro r s' c2 _ ⟨_, hm', hd⟩
    simp only [List.nil_append]
    refine ptPost_of_dtr (t := .chars ['\x00']) rfl hm hs1 he1 hc1 hd hm' ?_ (fun h => by cases h)
    rintro x x' hx ⟨ho, hl, hst, _⟩
    refine ⟨ho, fun h => absurd (hst h) (by intro h'; cases h'), ?_⟩
    rw [hc0, absF_prelude x hm hs1 he1] at hl
    have hct : CharsTo (cfgOf s) { absF s x with out := {}, ignoreLf := false } ['\x00'] (absF s' x') :=
      CharsTo.cons hx.live rfl hl (CharsTo.nil _ _)
    have hd0 : dropIgnoredLf ({ absF s x with out := {} } : SState).ignoreLf ['\x00'] = ['\x00'] := by
      unfold dropIgnoredLf; split <;> rfl
    obtain ⟨F, hF⟩ := processCharsDev_lf (σ := { absF s x with out := {} }) (text := ['\x00']) hx.live
      (by rw [hd0]; exact hct) (fun h => by cases h)
    refine ⟨F, fun fuel hfu => ?_⟩
    unfold processTokenDev
    simp only [hF fuel hfu, finishTok]
    rfl
  | chars x =>
    dsimp only
    refine pc_bind (pc_pure ?_)
    obtain ⟨hxne, hxnul⟩ := hok.chars x rfl
    have hlfσ : ∀ y : Aux, ({ absF s y with out := {} } : SState).ignoreLf = s1.ignoreLf := fun y => hs1.fields.ignoreLf.symm
    rcases charsToken_spec (lf := s1.ignoreLf) hxne hxnul with ⟨hcn, hdn⟩ | ⟨hcs, hwf⟩
    · rw [hcn]
      dsimp only
      refine pc_pure ?_
      refine ptPost_of_dtr (t := .chars x) rfl hm hs1 he1 hc1 (DTr.refl _) hm2 ?_ (fun h => by cases h)
      rintro y y' hy hyy
      subst y'
      refine ⟨⟨rfl, rfl⟩, fun h => hy.not_stopped h, ?_⟩
      have hct : CharsTo (cfgOf s) { absF s y with out := {}, ignoreLf := false }
          (dropIgnoredLf ({ absF s y with out := {} } : SState).ignoreLf x)
          (absF { s1 with ignoreLf := false } { y with out := {} }) := by
        rw [hlfσ y, hdn, absF_prelude y hm hs1 he1]
        exact CharsTo.nil _ _
      obtain ⟨F, hF⟩ := processCharsDev_lf (σ := { absF s y with out := {} }) (text := x) hy.live hct
        (fun h => absurd h hxne)
      refine ⟨F, fun fuel hfu => ?_⟩
      unfold processTokenDev
      simp only [hF fuel hfu, finishTok]
      rfl
    · rw [hcs]
      dsimp only
      refine pc_getS_bind ?_
      generalize ptcFuel _ (Token.chars .notSplit (dropIgnoredLf s1.ignoreLf x)) = fuel
      refine pc_conseq (pc_ptc_chars hchar hforc fuel .notSplit _ [] _ hwf (Or.inl rfl) ht2 hm2 hlf2) ?_
      rintro r s' c2 _ ⟨hr, _, hm', hlf', hd⟩
      subst hr
      simp only [List.nil_append]
      refine ptPost_of_dtr (t := .chars x) rfl hm hs1 he1 hc1 hd hm' ?_ (fun h => by cases h)
      rintro y y' hy ⟨hy', h1, h2, c, cs, σ1, htext, l1, l2⟩
      refine ⟨⟨h1, h2⟩, fun h => hy'.not_stopped h, ?_⟩
      rw [hc0, absF_prelude y hm hs1 he1] at l1
      rw [hc0] at l2
      have hct : CharsTo (cfgOf s) { absF s y with out := {}, ignoreLf := false }
          (dropIgnoredLf ({ absF s y with out := {} } : SState).ignoreLf x) (absF s' y') := by
        rw [hlfσ y, htext]
        exact CharsTo.cons hy.live rfl l1 (by simpa [moreText] using l2)
      obtain ⟨F, hF⟩ := processCharsDev_lf (σ := { absF s y with out := {} }) (text := x) hy.live hct
        (fun h => absurd h hxne)
      refine ⟨F, fun fuel hfu => ?_⟩
      unfold processTokenDev
      simp only [hF fuel hfu, finishTok]
      rfl

/-! ### the invariant `Good` of the specification's run, at the states between two tokens -/

/-- the abstract states of `s` satisfy the invariant of the specification's run -/
def XInv (s : State) : Prop := ∀ x, AuxOk s x → H5V.Lemmas.ModesInv.Inv (absF s x)

theorem auxOk_exists {s : State} (hm : MInv s) (sup : List Id) : ∃ x, AuxOk s x ∧ x.supply = sup := by
  refine ⟨{ supply := sup, annot := s.openElems.filter (fun h => ipOfDom s.dom h) }, ⟨rfl, ?_, ?_, ?_⟩, rfl⟩
  · intro h hh _
    show (s.openElems.filter (fun h => ipOfDom s.dom h)).contains h = _
    cases hi : ipOfDom s.dom h with
    | true => simp [List.mem_filter, hh, hi]
    | false =>
      have : ¬ h ∈ s.openElems.filter (fun h => ipOfDom s.dom h) := by simp [List.mem_filter, hi]
      simpa [List.contains_iff_mem] using this
  · intro a ha
    exact hm.elems a (List.mem_filter.mp ha).1
  · exact ⟨by simp, by simp⟩

theorem imode_inTableText {m : Mode} (h : imode m = .inTableText) : m = .inTableText := by
  cases m <;> first | rfl | cases h

/-- `Good` does not depend on the `Aux` (between two tokens) -/
theorem good_absF_indep {s : State} {x x' : Aux} (ht : TI s) (hx : AuxOk s x) (hx' : AuxOk s x')
    (hg : H5V.Lemmas.ModesInv.Good (absF s x)) : H5V.Lemmas.ModesInv.Good (absF s x') := by
  have hstack : (absF s x').p.stack = (absF s x).p.stack := by rw [absF_stack hx', absF_stack hx]
  have horig : (s.mode = .text ∨ s.mode = .inTableText) → (absF s x').originalMode = (absF s x).originalMode := by
    intro hmode
    have : ∃ om, s.origMode = some om := by
      rcases hmode with h | h
      · obtain ⟨om, ho, _⟩ := ht.s.text h; exact ⟨om, ho⟩
      · obtain ⟨om, ho, _⟩ := ht.s.tableText h; exact ⟨om, ho⟩
    obtain ⟨om, ho⟩ := this
    simp only [absF, ho, Option.map_some, Option.getD_some]
  have hnames : (absF s x').names = (absF s x).names := by
    simp only [Spec.TreeModes.State.names, hstack]
  constructor
  · intro h; rw [hnames]; exact hg.cell h
  · intro h
    have hm' : s.mode = .text := imode_text h
    rw [horig (Or.inl hm'), hnames]
    exact hg.text h
  · intro h
    have hm' : s.mode = .inTableText := imode_inTableText h
    rw [horig (Or.inr hm')]
    have := hg.ttext h
    simp only [Spec.TreeModes.State.curIn, Spec.TreeModes.State.cur, hstack] at this ⊢
    exact this
  · exact hg.nosel
  · exact hg.af
  · exact hg.tm

/-- in "in table text" the adjusted current node is an HTML element (the current node is the `table`, `tbody`,
`template`, `tfoot`, `thead` or `tr` element under which the mode was entered) -/
theorem acnHtml_of_xinv {s : State} (ht : TI s) (hm : MInv s) (hinv : XInv s) (hmode : s.mode = .inTableText) :
    AcnHtml s := by
  obtain ⟨x, hx, _⟩ := auxOk_exists hm []
  have hg := hinv x hx hx.live
  obtain ⟨_, hc⟩ := hg.ttext (by show imode s.mode = _; rw [hmode]; rfl)
  have hs : SInv .inTableText s := by have := ht.s; rw [hmode] at this; exact this
  obtain ⟨r, rest, hl, hr⟩ := hs.root rfl
  rw [absF_stack hx] at hc
  -- the first element of the stack is the `html` element: not one of the six
  have hhead : ((absStack s.dom s.openElems).head?.any fun e =>
      Spec.TreeAlgo.inHtml H5V.Lemmas.ModesInv.tableish e.name) = false := by
    rw [hl]
    simp only [absStack, List.map_cons, List.head?_cons, Option.any_some, elemOf]
    rw [← nm_eq_nameOf, hr]
    decide
  have hcur : (absF s x).curIn H5V.Lemmas.ModesInv.tableish = true := by
    rcases hc with hc | hc
    · exact hc
    · rw [hhead] at hc; cases hc
  simp only [Spec.TreeModes.State.curIn, Spec.TreeModes.State.cur, absF_stack hx] at hcur
  intro c hcn
  unfold TBSafe.adjNode at hcn
  cases hlast : s.openElems.getLast? with
  | none => rw [hlast] at hcn; cases hcn
  | some top =>
    rw [hlast] at hcn
    have htop : Spec.TreeAlgo.inHtml H5V.Lemmas.ModesInv.tableish (elemOf s.dom top).name = true := by
      unfold absStack at hcur
      rw [List.getLast?_map, hlast] at hcur
      simpa using hcur
    have hns : (nameOf s.dom top).ns = nsHtml := by
      simp only [Spec.TreeAlgo.inHtml, Bool.and_eq_true, beq_iff_eq] at htop
      exact htop.1
    dsimp only at hcn
    split at hcn
    · rename_i hlen
      -- a one-element stack: the current node would be the `html` element
      exfalso
      have hlen' : s.openElems.length = 1 := by simpa using hlen
      rw [hl] at hlen' hlast
      have hrest : rest = [] := by
        cases rest with
        | nil => rfl
        | cons a b => simp at hlen'
      subst hrest
      simp only [List.getLast?_singleton, Option.some.injEq] at hlast
      subst hlast
      have : Spec.TreeAlgo.inHtml H5V.Lemmas.ModesInv.tableish (elemOf s.dom r).name = true := htop
      simp only [elemOf] at this
      rw [← nm_eq_nameOf, hr] at this
      revert this; decide
    · cases hcn; exact hns

/-! ### a list of tokens -/

/-- the protocol of the token source along the model's run: every token is acceptable in the state it
arrives in (`TokTokOk`), nothing follows the end-of-file token -/
def Respects2 : State → List (TokToken × Nat) → Prop
  | _, [] => True
  | s, (t, line) :: rest =>
    TokTokOk s t ∧ (t = .eof → rest = []) ∧
    ∀ r s', (processToken t line).run s = .ok (r, s') → Respects2 s' rest

/-- the answer to the tokenizer, as a value: a script to run or a tokenizer state to switch to -/
def outAnswer (o : Out Id) : Option (Id ⊕ TokSwitch) :=
  match o.script with
  | some n => some (.inl n)
  | none => o.switch.map .inr

def resAnswer : SinkResult → Option (Id ⊕ TokSwitch)
  | .script n => some (.inl n)
  | .plaintext => some (.inr .plaintext)
  | .rawData k => some (.inr (rawSwitch k))
  | _ => none

theorem answer_of_outRelR {r : SinkResult} {o : Out Id} (h : OutRelR r {} o) : resAnswer r = outAnswer o := by
  cases r <;> simp only [OutRelR] at h <;> simp [resAnswer, outAnswer, h.1, h.2]

/-- the standard's tokens of a list of tokenizer tokens -/
def specToks (toks : List (TokToken × Nat)) : List Spec.TreeModes.Token := toks.filterMap (fun p => specTokOf p.1)

/-- the post-condition of a token list -/
def RunPost (s : State) (toks : List (TokToken × Nat)) (acc : List SinkResult) :
    List SinkResult → State → List Call → Prop :=
  fun res s' calls => TI s' ∧ MInv s' ∧ cfgOf s' = cfgOf s ∧ TBSafe.Ext s.dom s'.dom ∧
    ∃ ids, ∀ x rest, AuxOk s x → x.supply = ids ++ rest →
      ∃ x' os, (x'.stopped = false → AuxOk s' x') ∧ x'.supply = rest ∧
        (∃ ops, x'.fullLog = x.fullLog ++ ops ∧
          ∀ tc, TcOk s'.dom tc → flatCalls (edits2 calls) = flatCalls (ops.map (opCall tc))) ∧
        x'.outs = x.outs ++ os ∧
        res.reverse.filterMap resAnswer = acc.reverse.filterMap resAnswer ++ os.filterMap outAnswer ∧
        (∃ F, ∀ fuel, F ≤ fuel → runDev (cfgOf s) fuel (absF s x) (specToks toks) = .ok (absF s' x')) ∧
        -- the UNMODIFIED specification, from a state that satisfies the invariant of its run
        (H5V.Lemmas.ModesInv.Inv (absF s x) → H5V.Lemmas.ModesInv.Inv (absF s' x') ∧
          ∃ F, ∀ fuel, F ≤ fuel → Spec.TreeModes.run (cfgOf s) fuel (absF s x) (specToks toks) = .ok (absF s' x'))

/-- one token, then the rest: the unmodified specification -/
theorem std_cons {s s1 : State} {x x1 : Aux} {t : TokToken} {line : Nat} {rest : List (TokToken × Nat)} {r : SinkResult}
    {σ2 : SState}
    (hm1 : match specTokOf t with
      | none => r = .continue_ ∧ absF s1 x1 = absF s x ∧ x1.outs = x.outs
      | some st => ∃ o, x1.outs = x.outs ++ [o] ∧ OutRelR r {} o ∧
          (∃ F, ∀ fuel, F ≤ fuel → processTokenDev (cfgOf s) fuel (absF s x) st = .ok (absF s1 x1)) ∧
          (H5V.Lemmas.ModesInv.Inv (absF s x) → H5V.Lemmas.ModesInv.Inv (absF s1 x1) ∧
            ∃ F, ∀ fuel, F ≤ fuel → Spec.TreeModes.processToken (cfgOf s) fuel (absF s x) st = .ok (absF s1 x1)))
    (hi : H5V.Lemmas.ModesInv.Inv (absF s x)) :
    H5V.Lemmas.ModesInv.Inv (absF s1 x1) ∧
      ((∃ F, ∀ fuel, F ≤ fuel → Spec.TreeModes.run (cfgOf s) fuel (absF s1 x1) (specToks rest) = .ok σ2) →
        ∃ F, ∀ fuel, F ≤ fuel → Spec.TreeModes.run (cfgOf s) fuel (absF s x) (specToks ((t, line) :: rest)) = .ok σ2) := by
  cases hsp : specTokOf t with
  | none =>
    rw [hsp] at hm1
    obtain ⟨_, ha, _⟩ := hm1
    refine ⟨by rw [ha]; exact hi, ?_⟩
    rintro ⟨F2, hF2⟩
    refine ⟨F2, fun fuel hfu => ?_⟩
    have : specToks ((t, line) :: rest) = specToks rest := by simp [specToks, hsp]
    rw [this, ← ha]; exact hF2 fuel hfu
  | some st =>
    rw [hsp] at hm1
    obtain ⟨o, _, _, _, hstd⟩ := hm1
    obtain ⟨hi1, F1, hF1⟩ := hstd hi
    refine ⟨hi1, ?_⟩
    rintro ⟨F2, hF2⟩
    refine ⟨max F1 F2, fun fuel hfu => ?_⟩
    have : specToks ((t, line) :: rest) = st :: specToks rest := by simp [specToks, hsp]
    rw [this]
    simp only [Spec.TreeModes.run]
    rw [hF1 fuel (by omega)]
    exact hF2 fuel (by omega)

theorem pc_processTokens (hmode : ∀ m, ModeSim m) (hchar : ∀ m, ModeCharSim m) (hfor : ForeignSim)
    (hforc : ForeignCharSim) (hdt : DoctypeInitialSim) :
    ∀ (toks : List (TokToken × Nat)) (acc : List SinkResult) (s : State), TI s → MInv s → XInv s → Respects2 s toks →
    PC (processTokens toks acc) s (RunPost s toks acc) := by
  intro toks
  induction toks with
  | nil =>
    intro acc s ht hm _ _
    unfold processTokens
    refine pc_pure ⟨ht, hm, rfl, TBSafe.Ext.refl _, [], fun x rest hx hs => ?_⟩
    exact ⟨x, [], fun _ => hx, by simpa using hs, ⟨[], by simp, fun _ _ => rfl⟩, by simp, by simp, ⟨0, fun _ _ => rfl⟩,
      fun hi => ⟨hi, 0, fun _ _ => rfl⟩⟩
  | cons tk rest ih =>
    intro acc s ht hm hinv hresp
    obtain ⟨t, line⟩ := tk
    obtain ⟨hok, heof, hnext⟩ := hresp
    unfold processTokens
    refine pc_seq (pc_with_run (pc_and_run
      (@H5V.Props.C04TB.C04_tb_no_panic_token H5V.Props.C04TB.allowAll trivial s t line ht (fun _ => Or.inl trivial)).1
      (pc_processToken hmode hchar hfor hforc hdt t line s ht hm hok (acnHtml_of_xinv ht hm hinv)))) ?_
    rintro r s1 c1 he1 ⟨⟨ht1, hp⟩, hrun⟩
    obtain ⟨hm1, hc1, hext1, ids1, f1⟩ := hp
    -- the results collected so far
    have hacc : (if r == SinkResult.continue_ then acc else r :: acc).reverse.filterMap resAnswer
        = acc.reverse.filterMap resAnswer ++ (resAnswer r).toList := by
      by_cases hr : r = .continue_
      · subst hr; simp [resAnswer]
      · have : (r == SinkResult.continue_) = false := by simpa using hr
        rw [this]
        simp only [Bool.false_eq_true, if_false, List.reverse_cons, List.filterMap_append, List.filterMap_cons,
          List.filterMap_nil]
        cases resAnswer r <;> rfl
    -- the specification's run over the first token and the rest
    have hspec : ∀ (x x1 : Aux) (σ2 : SState) (os1 : List (Out Id)),
        (match specTokOf t with
          | none => r = .continue_ ∧ absF s1 x1 = absF s x ∧ x1.outs = x.outs
          | some st => ∃ o, x1.outs = x.outs ++ [o] ∧ OutRelR r {} o ∧
              (∃ F, ∀ fuel, F ≤ fuel → processTokenDev (cfgOf s) fuel (absF s x) st = .ok (absF s1 x1)) ∧
              (H5V.Lemmas.ModesInv.Inv (absF s x) → H5V.Lemmas.ModesInv.Inv (absF s1 x1) ∧
                ∃ F, ∀ fuel, F ≤ fuel → Spec.TreeModes.processToken (cfgOf s) fuel (absF s x) st = .ok (absF s1 x1))) →
        (∃ F, ∀ fuel, F ≤ fuel → runDev (cfgOf s) fuel (absF s1 x1) (specToks rest) = .ok σ2) →
        (∃ o1, x1.outs = x.outs ++ o1 ∧ (resAnswer r).toList = o1.filterMap outAnswer) ∧
        ∃ F, ∀ fuel, F ≤ fuel → runDev (cfgOf s) fuel (absF s x) (specToks ((t, line) :: rest)) = .ok σ2 := by
      intro x x1 σ2 os1 hm1 ⟨F2, hF2⟩
      cases hsp : specTokOf t with
      | none =>
        rw [hsp] at hm1
        obtain ⟨hr, ha, ho⟩ := hm1
        refine ⟨⟨[], by simpa using ho, by subst hr; rfl⟩, F2, fun fuel hfu => ?_⟩
        have : specToks ((t, line) :: rest) = specToks rest := by simp [specToks, hsp]
        rw [this, ← ha]; exact hF2 fuel hfu
      | some st =>
        rw [hsp] at hm1
        obtain ⟨o, ho, hrel, ⟨F1, hF1⟩, _⟩ := hm1
        refine ⟨⟨[o], ho, ?_⟩, max F1 F2, fun fuel hfu => ?_⟩
        · rw [answer_of_outRelR hrel]
          simp only [List.filterMap_cons, List.filterMap_nil]
          cases outAnswer o <;> rfl
        · have : specToks ((t, line) :: rest) = st :: specToks rest := by simp [specToks, hsp]
          rw [this]
          simp only [runDev]
          rw [hF1 fuel (by omega)]
          exact hF2 fuel (by omega)
    by_cases hte : t = .eof
    · -- the end-of-file token is the last one
      have hrest := heof hte
      subst hrest
      unfold processTokens
      refine pc_pure ?_
      refine ⟨ht1, hm1, hc1, hext1, ids1, fun x rst hx hs => ?_⟩
      obtain ⟨x1, hx1, hs1, ⟨ops1, e1, k1⟩, hst1, hm1⟩ := f1 x rst hx hs
      obtain ⟨⟨o1, ho1, ha1⟩, hF⟩ := hspec x x1 (absF s1 x1) [] hm1 ⟨0, fun _ _ => rfl⟩
      refine ⟨x1, o1, hx1, hs1, ⟨ops1, e1, by simpa using k1⟩, ho1, ?_, hF, ?_⟩
      · rw [hacc, ha1]
      · intro hi
        obtain ⟨hi1, hrun1⟩ := std_cons (rest := []) (line := line) (σ2 := absF s1 x1) hm1 hi
        exact ⟨hi1, hrun1 ⟨0, fun _ _ => rfl⟩⟩
    · -- the invariant of the specification's run at the state between the two tokens
      have hinv1 : XInv s1 := by
        intro x1' hx1'
        obtain ⟨x, hx, hxs⟩ := auxOk_exists hm (ids1 ++ x1'.supply)
        obtain ⟨x1, hx1, _, _, hst1, hm1'⟩ := f1 x x1'.supply hx hxs
        have hlive : x1.stopped = false := by
          cases h : x1.stopped
          · rfl
          · exact absurd (hst1 h) hte
        have hi1 := (std_cons (rest := rest) (line := line) (σ2 := absF s1 x1) hm1' (hinv x hx)).1
        intro _
        exact good_absF_indep ht1 (hx1 hlive) hx1' (hi1 hlive)
      refine pc_conseq (ih (if r == .continue_ then acc else r :: acc) s1 ht1 hm1 hinv1 (hnext r s1 hrun)) ?_
      rintro res s2 c2 he2 ⟨ht2, hm2, hc2, hext2, ids2, f2⟩
      refine ⟨ht2, hm2, hc2.trans hc1, hext1.trans hext2, ids1 ++ ids2, fun x rst hx hs => ?_⟩
      obtain ⟨x1, hx1, hs1, ⟨ops1, e1, k1⟩, hst1, hm1⟩ := f1 x (ids2 ++ rst) hx (by rw [hs, List.append_assoc])
      have hlive : x1.stopped = false := by
        cases h : x1.stopped
        · rfl
        · exact absurd (hst1 h) hte
      obtain ⟨x2, os2, hx2, hs2, ⟨ops2, e2, k2⟩, ho2, hfb2, hF2, hstd2⟩ := f2 x1 rst (hx1 hlive) hs1
      rw [hc1] at hF2 hstd2
      obtain ⟨⟨o1, ho1, ha1⟩, hF⟩ := hspec x x1 (absF s2 x2) [] hm1 hF2
      refine ⟨x2, o1 ++ os2, hx2, hs2, ⟨ops1 ++ ops2, by rw [e2, e1, List.append_assoc], ?_⟩,
        by rw [ho2, ho1, List.append_assoc], ?_, hF, ?_⟩
      · intro tc htc
        rw [edits2_append, flatCalls_append, List.map_append, flatCalls_append, k1 tc (tcOk_of_ext htc hext2), k2 tc htc]
      · rw [hfb2, hacc, ha1, List.filterMap_append, List.append_assoc]
      · intro hi
        obtain ⟨hi1, hrun1⟩ := std_cons (rest := rest) (line := line) (σ2 := absF s2 x2) hm1 hi
        obtain ⟨hi2, hrun2⟩ := hstd2 hi1
        exact ⟨hi2, hrun1 hrun2⟩

end H5V.Lemmas.HtmlTBModes
