import H5V.Model.HtmlTB
import H5V.Lemmas.HtmlTBSplitDom
/-!
C03 lifted to the tree — layer 1: the simulation relation `Sim` on tree-builder states, the relational
judgement `RespQ` ("a computation respects `Sim`") and its closure rules, and the proof automation
(`resp_auto`) used to push `RespQ` through all definitions of the tree-builder model.

`Sim s t`: `t` is `s` up to
* the trace of sink calls (`traceRev`), the line counter (`currentLine`), the parse-error log of the
  DOM (`dom.errorsRev`) — none of which is ever read back by the tree builder;
* a re-splitting of the pending table text (`PendRel`: same concatenation, same "contains
  non-whitespace" verdict, no empty piece);
and `s` satisfies the invariant `AFInv` (every tag in the list of active formatting elements has one
of the 14 formatting names) — `Sim` is a partial equivalence relation whose domain is `AFInv`.
-/
namespace H5V.Lemmas.TBSplit
open H5V.Model.Dom (Id QualName Attr NodeOrText SinkOp Output ElementFlags QuirksMode Dom)
open H5V.Model.HtmlTB
open H5V.Lemmas.TBSplitDom

abbrev Str := List Char

/-! ### the invariant and the relation -/

def fmtNames : List String :=
  ["a", "b", "big", "code", "em", "font", "i", "nobr", "s", "small", "strike", "strong", "tt", "u"]

def FmtEntry : FormatEntry → Prop
  | .marker => True
  | .element _ t => isOneOf t.name fmtNames = true

/-- every entry of the list of active formatting elements carries a formatting tag -/
def AFInv (s : State) : Prop := ∀ e ∈ s.activeFormatting, FmtEntry e

/-- `contains_nonspace` of rules.rs:1150 -/
def cns (l : List (SplitStatus × Str)) : Bool :=
  l.any (fun (split, text) =>
    match split with
    | .whitespace => false
    | .notWhitespace => true
    | .notSplit => anyNotWhitespace text)

structure PendRel (l1 l2 : List (SplitStatus × Str)) : Prop where
  cat : l1.flatMap (·.2) = l2.flatMap (·.2)
  cns : cns l1 = cns l2
  ne1 : ∀ p ∈ l1, p.2 ≠ []
  ne2 : ∀ p ∈ l2, p.2 ≠ []

/-- `s` with the four unobservable components replaced -/
@[reducible] def upd (s : State) (tr : List (SinkOp × Output)) (cl : Nat) (er : List Str)
    (pt : List (SplitStatus × Str)) : State :=
  { s with traceRev := tr, currentLine := cl, pendingTableText := pt, dom := { s.dom with errorsRev := er } }

def Sim (s t : State) : Prop :=
  AFInv s ∧ ∃ tr cl er pt, t = upd s tr cl er pt ∧ PendRel s.pendingTableText pt

theorem upd_self (s : State) : upd s s.traceRev s.currentLine s.dom.errorsRev s.pendingTableText = s := by
  cases s with | mk _ _ _ _ _ _ _ _ _ _ _ _ _ _ _ _ dom _ => cases dom; rfl

theorem upd_upd (s : State) (tr cl er pt tr' cl' er' pt') :
    upd (upd s tr cl er pt) tr' cl' er' pt' = upd s tr' cl' er' pt' := rfl

theorem PendRel.symm {l1 l2} (h : PendRel l1 l2) : PendRel l2 l1 := ⟨h.cat.symm, h.cns.symm, h.ne2, h.ne1⟩
theorem PendRel.trans {l1 l2 l3} (h : PendRel l1 l2) (h' : PendRel l2 l3) : PendRel l1 l3 :=
  ⟨h.cat.trans h'.cat, h.cns.trans h'.cns, h.ne1, h'.ne2⟩
theorem PendRel.rfl' {l} (h : ∀ p ∈ l, p.2 ≠ []) : PendRel l l := ⟨rfl, rfl, h, h⟩

theorem Sim.symm {s t : State} (h : Sim s t) : Sim t s := by
  obtain ⟨hi, tr, cl, er, pt, rfl, hp⟩ := h
  refine ⟨hi, s.traceRev, s.currentLine, s.dom.errorsRev, s.pendingTableText, ?_, hp.symm⟩
  rw [upd_upd, upd_self]

theorem Sim.trans {s t u : State} (h : Sim s t) (h' : Sim t u) : Sim s u := by
  obtain ⟨hi, tr, cl, er, pt, rfl, hp⟩ := h
  obtain ⟨_, tr', cl', er', pt', rfl, hp'⟩ := h'
  exact ⟨hi, tr', cl', er', pt', rfl, hp.trans hp'⟩

theorem Sim.left {s t : State} (h : Sim s t) : Sim s s := h.trans h.symm
theorem Sim.right {s t : State} (h : Sim s t) : Sim t t := h.symm.trans h
theorem Sim.inv {s t : State} (h : Sim s t) : AFInv s := h.1
theorem Sim.inv' {s t : State} (h : Sim s t) : AFInv t := h.symm.1

/-- the domain of `Sim` -/
structure Good (s : State) : Prop where
  af : AFInv s
  pend : ∀ p ∈ s.pendingTableText, p.2 ≠ []

theorem Good.sim {s : State} (h : Good s) : Sim s s :=
  ⟨h.af, _, _, _, _, (upd_self s).symm, PendRel.rfl' h.pend⟩

theorem Sim.good {s t : State} (h : Sim s t) : Good s := ⟨h.1, by obtain ⟨_, _, _, _, _, _, hp⟩ := h; exact hp.ne1⟩

/-! field access through `Sim` -/
section fields
variable {s t : State} (h : Sim s t)
include h
theorem Sim.opts : s.opts = t.opts := by obtain ⟨_, _, _, _, _, rfl, _⟩ := h; rfl
theorem Sim.mode : s.mode = t.mode := by obtain ⟨_, _, _, _, _, rfl, _⟩ := h; rfl
theorem Sim.origMode : s.origMode = t.origMode := by obtain ⟨_, _, _, _, _, rfl, _⟩ := h; rfl
theorem Sim.templateModes : s.templateModes = t.templateModes := by obtain ⟨_, _, _, _, _, rfl, _⟩ := h; rfl
theorem Sim.openElems : s.openElems = t.openElems := by obtain ⟨_, _, _, _, _, rfl, _⟩ := h; rfl
theorem Sim.activeFormatting : s.activeFormatting = t.activeFormatting := by obtain ⟨_, _, _, _, _, rfl, _⟩ := h; rfl
theorem Sim.ignoreLf : s.ignoreLf = t.ignoreLf := by obtain ⟨_, _, _, _, _, rfl, _⟩ := h; rfl
theorem Sim.framesetOk : s.framesetOk = t.framesetOk := by obtain ⟨_, _, _, _, _, rfl, _⟩ := h; rfl
theorem Sim.fosterParenting : s.fosterParenting = t.fosterParenting := by obtain ⟨_, _, _, _, _, rfl, _⟩ := h; rfl
theorem Sim.contextElem : s.contextElem = t.contextElem := by obtain ⟨_, _, _, _, _, rfl, _⟩ := h; rfl
theorem Sim.nodes : s.dom.nodes = t.dom.nodes := by obtain ⟨_, _, _, _, _, rfl, _⟩ := h; rfl
theorem Sim.quirks : s.dom.quirks = t.dom.quirks := by obtain ⟨_, _, _, _, _, rfl, _⟩ := h; rfl
theorem Sim.pend : PendRel s.pendingTableText t.pendingTableText := by obtain ⟨_, _, _, _, _, rfl, hp⟩ := h; exact hp
end fields

/-! ### running `M` -/

theorem bind_apply {α β : Type} (m : M α) (f : α → M β) (s : State) :
    (m >>= f) s = match m s with | .ok (a, s') => f a s' | .error e => .error e := by
  show (StateT.bind m f) s = _
  unfold StateT.bind
  cases m s with
  | error e => rfl
  | ok p => rfl

theorem pure_apply {α : Type} (a : α) (s : State) : (pure a : M α) s = .ok (a, s) := rfl
theorem getS_apply (s : State) : getS s = .ok (s, s) := rfl
theorem modS_apply (f : State → State) (s : State) : modS f s = .ok ((), f s) := rfl
theorem set_apply (s' s : State) : (set s' : M PUnit) s = .ok (⟨⟩, s') := rfl
theorem throw_apply {α : Type} (e : String) (s : State) : (throw e : M α) s = .error e := rfl

/-! ### the judgement -/

def RelR {α : Type} (Q : α → Prop) : Except String (α × State) → Except String (α × State) → Prop
  | .ok (a, s), .ok (b, t) => a = b ∧ Q a ∧ Sim s t
  | .error _, .error _ => True
  | _, _ => False

/-- `m` respects `Sim`; its answers satisfy `Q` -/
def RespQ {α : Type} (Q : α → Prop) (m : M α) : Prop := ∀ s t, Sim s t → RelR Q (m s) (m t)

abbrev Resp {α : Type} (m : M α) : Prop := RespQ (fun _ => True) m

theorem RelR.ok_iff {α : Type} {Q : α → Prop} {a b : α} {s t : State} :
    RelR Q (.ok (a, s)) (.ok (b, t)) ↔ a = b ∧ Q a ∧ Sim s t := Iff.rfl

theorem RelR.mono {α : Type} {P Q : α → Prop} (hpq : ∀ a, P a → Q a) {x y : Except String (α × State)}
    (h : RelR P x y) : RelR Q x y := by
  cases x with
  | error e => cases y with
    | error e' => trivial
    | ok q => exact h
  | ok p => cases y with
    | error e' => exact h
    | ok q =>
      obtain ⟨a, s⟩ := p; obtain ⟨b, t⟩ := q
      exact ⟨h.1, hpq _ h.2.1, h.2.2⟩

theorem RelR.symm {α : Type} {Q : α → Prop} {x y : Except String (α × State)} (h : RelR Q x y) : RelR Q y x := by
  cases x with
  | error e => cases y with
    | error e' => trivial
    | ok q => exact h
  | ok p => cases y with
    | error e' => exact h
    | ok q =>
      obtain ⟨a, s⟩ := p; obtain ⟨b, t⟩ := q
      obtain ⟨h1, hq, hs⟩ := h
      subst h1
      exact ⟨rfl, hq, hs.symm⟩

theorem RelR.trans {α : Type} {Q : α → Prop} {x y z : Except String (α × State)} (h : RelR Q x y) (h' : RelR Q y z) :
    RelR Q x z := by
  cases x with
  | error e => cases y with
    | error e' => cases z with
      | error _ => trivial
      | ok _ => exact h'
    | ok q => exact h.elim
  | ok p => cases y with
    | error e' => exact h.elim
    | ok q => cases z with
      | error _ => exact h'.elim
      | ok r =>
        obtain ⟨a, s⟩ := p; obtain ⟨b, t⟩ := q; obtain ⟨c, u⟩ := r
        obtain ⟨h1, hq, hs⟩ := h
        obtain ⟨h2, _, hs'⟩ := h'
        subst h1; subst h2
        exact ⟨rfl, hq, hs.trans hs'⟩

theorem respQ_weaken {α : Type} {P Q : α → Prop} {m : M α} (h : RespQ P m) (hpq : ∀ a, P a → Q a) : RespQ Q m :=
  fun s t hst => (h s t hst).mono hpq

theorem respQ_resp {α : Type} {P : α → Prop} {m : M α} (h : RespQ P m) : Resp m := respQ_weaken h (fun _ _ => trivial)

theorem respQ_pure {α : Type} {Q : α → Prop} {a : α} (h : Q a) : RespQ Q (pure a : M α) :=
  fun _ _ hst => ⟨rfl, h, hst⟩

theorem resp_pure {α : Type} (a : α) : Resp (pure a : M α) := respQ_pure trivial

theorem respQ_throw {α : Type} {Q : α → Prop} (e : String) : RespQ Q (throw e : M α) := fun _ _ _ => trivial

theorem respQ_bind {α β : Type} {P : α → Prop} {Q : β → Prop} {m : M α} {f : α → M β}
    (hm : RespQ P m) (hf : ∀ a, P a → RespQ Q (f a)) : RespQ Q (m >>= f) := by
  intro s t hst
  have h := hm s t hst
  rw [bind_apply, bind_apply]
  cases hs : m s with
  | error e =>
    rw [hs] at h
    cases ht : m t with
    | error e' => trivial
    | ok q => rw [ht] at h; exact h.elim
  | ok p =>
    rw [hs] at h
    cases ht : m t with
    | error e' => rw [ht] at h; exact h.elim
    | ok q =>
      rw [ht] at h
      obtain ⟨a, s'⟩ := p; obtain ⟨b, t'⟩ := q
      obtain ⟨h1, hp, hs'⟩ := h
      subst h1
      exact hf a hp s' t' hs'

theorem resp_bind {α β : Type} {Q : β → Prop} {m : M α} {f : α → M β}
    (hm : Resp m) (hf : ∀ a, RespQ Q (f a)) : RespQ Q (m >>= f) := respQ_bind hm (fun a _ => hf a)

/-- reading the state: the continuation may look at every component that `Sim` fixes -/
theorem respQ_getS_bind {β : Type} {Q : β → Prop} {f : State → M β}
    (h : ∀ s, Good s → RespQ Q (f s)) (hst : ∀ s t, Sim s t → f s = f t) : RespQ Q (getS >>= f) := by
  intro s t hs
  rw [bind_apply, bind_apply, getS_apply, getS_apply]
  show RelR Q (f s s) (f t t)
  rw [← hst s t hs]
  exact h s hs.good s t hs

theorem resp_modS {g : State → State} (h : ∀ s t, Sim s t → Sim (g s) (g t)) : Resp (modS g) :=
  fun s t hst => ⟨rfl, trivial, h s t hst⟩

theorem resp_set {s' t' : State} (h : Sim s' t') : ∀ s t, Sim s t → RelR (fun _ => True) ((set s' : M PUnit) s) ((set t' : M PUnit) t) :=
  fun _ _ _ => ⟨rfl, trivial, h⟩

theorem respQ_ite {α : Type} {Q : α → Prop} {c : Prop} [Decidable c] {a b : M α}
    (ha : c → RespQ Q a) (hb : ¬ c → RespQ Q b) : RespQ Q (if c then a else b) := by
  split
  · exact ha ‹_›
  · exact hb ‹_›

/-! ### the sink -/

theorem dom_eq_wE {s t : State} (h : Sim s t) : t.dom = wE s.dom t.dom.errorsRev := by
  obtain ⟨_, _, _, _, _, rfl, _⟩ := h; rfl

theorem sink_apply (op : SinkOp) (s : State) :
    sink op s = match s.dom.apply op with
      | .error e => .error (errClass e ++ "@sink: " ++ e)
      | .ok (d, out) => .ok (out, { s with dom := d, traceRev := (op, out) :: s.traceRev }) := rfl

theorem sink_resp (op : SinkOp) : Resp (sink op) := by
  intro s t hst
  obtain ⟨hi, tr, cl, er, pt, rfl, hp⟩ := hst
  rw [sink_apply, sink_apply]
  have hw := apply_wE s.dom er op
  have hd : (upd s tr cl er pt).dom = wE s.dom er := rfl
  rw [hd, hw]
  cases hA : s.dom.apply op with
  | error e => trivial
  | ok v =>
    obtain ⟨d', o⟩ := v
    refine ⟨rfl, trivial, hi, (op, o) :: tr, cl, errUpd op er, pt, ?_, hp⟩
    cases d'; rfl

theorem sinkUnit_resp (op : SinkOp) : Resp (sinkUnit op) := by
  unfold sinkUnit
  exact resp_bind (sink_resp op) (fun _ => resp_pure _)

theorem sinkNode_resp (op : SinkOp) : Resp (sinkNode op) := by
  unfold sinkNode
  refine resp_bind (sink_resp op) (fun o => ?_)
  split
  · exact resp_pure _
  · exact respQ_throw _

theorem sinkBool_resp (op : SinkOp) : Resp (sinkBool op) := by
  unfold sinkBool
  refine resp_bind (sink_resp op) (fun o => ?_)
  split
  · exact resp_pure _
  · exact respQ_throw _

theorem parseError_resp (msg : String) : Resp (parseError msg) := sinkUnit_resp _

theorem elemName_resp (h : Id) : Resp (elemName h) := by
  unfold elemName
  refine resp_bind (sink_resp _) (fun o => ?_)
  split
  · exact resp_pure _
  · exact respQ_throw _

theorem sameNode_resp (x y : Id) : Resp (sameNode x y) := sinkBool_resp _

theorem panicAt_resp {α : Type} {Q : α → Prop} (a b c : String) : RespQ Q (panicAt a b c : M α) := respQ_throw _
theorem fuelOut_resp {α : Type} {Q : α → Prop} (a : String) : RespQ Q (fuelOut a : M α) := respQ_throw _

theorem respQ_pure_bind {α β : Type} {Q : β → Prop} {a : α} {f : α → M β} (h : RespQ Q (f a)) :
    RespQ Q ((pure a : M α) >>= f) := h

theorem respQ_throw_bind {α β : Type} {Q : β → Prop} (e : String) (f : α → M β) : RespQ Q ((throw e : M α) >>= f) :=
  fun _ _ _ => trivial
theorem respQ_panicAt_bind {α β : Type} {Q : β → Prop} (a b c : String) (f : α → M β) :
    RespQ Q ((panicAt a b c : M α) >>= f) := respQ_throw_bind _ _
theorem respQ_fuelOut_bind {α β : Type} {Q : β → Prop} (a : String) (f : α → M β) :
    RespQ Q ((fuelOut a : M α) >>= f) := respQ_throw_bind _ _

/-- bind where the first computation already yields the final kind of answer (`α = β`): its
postcondition is handed to the continuation -/
theorem respQ_bind_same {α : Type} {Q : α → Prop} {m : M α} {f : α → M α}
    (hm : RespQ Q m) (hf : ∀ a, Q a → RespQ Q (f a)) : RespQ Q (m >>= f) := respQ_bind hm hf

/-! ### tokens and answers of the rules -/

/-- a character token is never empty (`C06_chars_token_nonempty`, `C06_split_run_nonempty`) -/
def TokOK : Token → Prop
  | .chars _ x => x ≠ []
  | _ => True

/-- a `Reprocess` answer of the rules for `t` carries `t` itself (or EOF, after a template was closed) -/
def ResOK (t : Token) : ProcessResult → Prop
  | .reprocess _ t' => t' = t ∨ t' = .eof
  | .reprocessForeign t' => t' = t
  | _ => True

theorem ResOK.tokOK {t : Token} (ht : TokOK t) {m : Mode} {t' : Token} (h : ResOK t (.reprocess m t')) : TokOK t' := by
  rcases h with rfl | rfl
  · exact ht
  · trivial

/-- an answer that is not a `Reprocess` -/
def NotRe : ProcessResult → Prop
  | .reprocess _ _ => False
  | .reprocessForeign _ => False
  | _ => True

theorem respQ_notRe_ok {t : Token} {m : M ProcessResult} (h : RespQ NotRe m) : RespQ (ResOK t) m :=
  respQ_weaken h (fun a ha => by cases a <;> first | trivial | exact ha.elim)

theorem respQ_done_notRe {m : M ProcessResult} (h : RespQ (· = .done) m) : RespQ NotRe m :=
  respQ_weaken h (fun a ha => by subst ha; trivial)

theorem respQ_done_ok {t : Token} {m : M ProcessResult} (h : RespQ (· = .done) m) : RespQ (ResOK t) m :=
  respQ_weaken h (fun a ha => by subst ha; trivial)

/-! ### state updates that `Sim` tolerates -/

/-- an update of components other than the unobservable ones and the list of active formatting
elements, given as a function that commutes with `upd` -/
theorem sim_of_comm {g : State → State}
    (hc : ∀ s tr cl er pt, g (upd s tr cl er pt) = upd (g s) tr cl er pt)
    (haf : ∀ s, AFInv s → AFInv (g s)) (hpt : ∀ s, (g s).pendingTableText = s.pendingTableText)
    {s t : State} (h : Sim s t) : Sim (g s) (g t) := by
  obtain ⟨hi, tr, cl, er, pt, rfl, hp⟩ := h
  exact ⟨haf s hi, tr, cl, er, pt, hc s tr cl er pt, by rw [hpt]; exact hp⟩

theorem resp_modS' {g : State → State}
    (hc : ∀ s tr cl er pt, g (upd s tr cl er pt) = upd (g s) tr cl er pt)
    (haf : ∀ s, AFInv s → AFInv (g s)) (hpt : ∀ s, (g s).pendingTableText = s.pendingTableText) : Resp (modS g) :=
  resp_modS (fun _ _ h => sim_of_comm hc haf hpt h)

/-! ### automation -/

/-- extensible: closes a goal `RespQ Q (known definition …)` with its registered lemma -/
syntax "resp_lemma" : tactic
/-- extensible: closes the side goals (`Q a`) of `pure` -/
syntax "resp_side" : tactic

macro_rules | `(tactic| resp_lemma) => `(tactic| with_reducible exact sink_resp _)
macro_rules | `(tactic| resp_lemma) => `(tactic| with_reducible exact sinkUnit_resp _)
macro_rules | `(tactic| resp_lemma) => `(tactic| with_reducible exact sinkNode_resp _)
macro_rules | `(tactic| resp_lemma) => `(tactic| with_reducible exact sinkBool_resp _)
macro_rules | `(tactic| resp_lemma) => `(tactic| with_reducible exact parseError_resp _)
macro_rules | `(tactic| resp_lemma) => `(tactic| with_reducible exact elemName_resp _)
macro_rules | `(tactic| resp_lemma) => `(tactic| with_reducible exact sameNode_resp _ _)
macro_rules | `(tactic| resp_lemma) => `(tactic| with_reducible exact panicAt_resp _ _ _)
macro_rules | `(tactic| resp_lemma) => `(tactic| with_reducible exact fuelOut_resp _)
macro_rules | `(tactic| resp_lemma) => `(tactic| with_reducible exact respQ_throw _)
macro_rules | `(tactic| resp_lemma) => `(tactic| with_reducible exact respQ_throw_bind _ _)
macro_rules | `(tactic| resp_lemma) => `(tactic| with_reducible exact respQ_panicAt_bind _ _ _ _)
macro_rules | `(tactic| resp_lemma) => `(tactic| with_reducible exact respQ_fuelOut_bind _ _)

/-- the continuation of a `getS` reads only components fixed by `Sim` -/
macro "resp_stable" : tactic =>
  `(tactic| (intro s t hst; obtain ⟨_, tr, cl, er, pt, heq, _⟩ := hst; subst heq; rfl))

macro_rules | `(tactic| resp_side) => `(tactic| trivial)
macro_rules | `(tactic| resp_side) => `(tactic| exact Or.inl rfl)
macro_rules | `(tactic| resp_side) => `(tactic| exact Or.inr rfl)
macro_rules | `(tactic| resp_side) => `(tactic| rfl)

/-- one step of the structural descent -/
macro "resp_step" : tactic =>
  `(tactic| first
    | resp_lemma
    | ((with_reducible refine respQ_pure ?_); resp_side)
    | ((with_reducible refine resp_modS' ?_ ?_ ?_) <;>
        first | exact fun _ _ _ _ _ => rfl | exact fun _ h => h | exact fun _ => rfl)
    | ((with_reducible refine respQ_getS_bind ?_ ?_); rotate_left; resp_stable)
    | (with_reducible refine respQ_pure_bind ?_)
    | (with_reducible refine respQ_bind_same ?_ ?_)
    | (with_reducible refine respQ_bind (P := fun _ => True) ?_ ?_)
    | (with_reducible intro _)
    | (with_reducible refine respQ_ite (fun _ => ?_) (fun _ => ?_))
    | split
    | assumption
    | (with_reducible exact ‹∀ _, RespQ _ _› _)
    | (with_reducible exact ‹∀ _ _, RespQ _ _› _ _)
    | (with_reducible exact ‹∀ _ _ _, RespQ _ _› _ _ _)
    | (with_reducible exact ‹∀ _ _ _ _, RespQ _ _› _ _ _ _)
    | (simp (config := { zeta := true }) only [pure_bind]))

macro "resp_auto" : tactic => `(tactic| repeat' resp_step)

end H5V.Lemmas.TBSplit
