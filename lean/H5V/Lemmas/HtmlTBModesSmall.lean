import H5V.Lemmas.HtmlTBModesPrimPop
/-!
The small insertion modes: "after frameset", …
-/
namespace H5V.Lemmas.HtmlTBModes
open H5V.Model.HtmlTB
open H5V.Model.Dom (Id SinkOp Output Dom QualName Attr NodeOrText ElementFlags NodeData QuirksMode)
open H5V.Lemmas.HtmlTBAlgo
open H5V.Lemmas.TBSafe (TI HInv SInv Rooted)
open H5V.Spec.TreeAlgo2 (Elem Entry PState Ctx Edit Place)
open H5V.Spec.TreeModes (STok ETok IMode Config Out TokSwitch XOp Op Step Edition)

@[simp] theorem isWs_nul : Spec.TreeModes.isWs '\x00' = false := by decide

theorem sim_afterFrameset (hhead : StepSimTok stepInHead Spec.TreeModes.inHead)
    (hbody : StepSimTok stepInBody Spec.TreeModes.inBody) :
    StepSimTok stepAfterFrameset Spec.TreeModes.afterFrameset := by
  intro tok hch hwf s hm
  cases tok with
  | chars st text => cases hch
  | comment text =>
    simp only [stepAfterFrameset]
    refine pc_conseq (pc_appendComment' hm text) ?_
    rintro r s' calls _ ⟨rfl, htr⟩
    refine tokPost_of_tr htr trivial ?_
    intro x x' hx hx' hr
    refine ⟨x', ?_, AuxSame.rfl', Or.inl rfl, rfl, rfl⟩
    simp only [stokOf, Spec.TreeModes.afterFrameset, hr]
    rfl
  | eof =>
    simp only [stepAfterFrameset]
    refine pc_pure (tokPost_of_tr (Tr.refl hm) trivial ?_)
    intro x x' hx hx' hr
    subst x'
    exact ⟨{ x with stopped := true }, rfl, ⟨rfl, rfl, rfl, rfl, rfl⟩, Or.inr ⟨rfl, rfl⟩, rfl, rfl⟩
  | nullChar =>
    simp only [stepAfterFrameset]
    refine pc_conseq (pc_unexpected hm) ?_
    rintro r s' calls _ ⟨rfl, htr⟩
    refine tokPost_of_tr htr trivial ?_
    rintro x x' hx hx' ⟨hr, he⟩
    subst x'
    refine ⟨{ x with errors := x.errors ++ ["after frameset: unexpected token"] }, ?_, ⟨rfl, rfl, rfl, rfl, rfl⟩, Or.inl rfl, rfl, rfl⟩
    simp only [stokOf, Spec.TreeModes.afterFrameset, stepOf, he, isWs_nul]
    rfl
  | tag t =>
    simp only [stepAfterFrameset, Tag.isStart, Tag.isEnd, isOneOf_cons, isOneOf_nil, Bool.or_false]
    have hunexp : ∀ w, PC unexpected s (TokPost (fun σ => pure (Step.done (Spec.TreeModes.State.err σ w))) s (.tag t)) := by
      intro w
      refine pc_conseq (pc_unexpected hm) ?_
      rintro r s' calls _ ⟨rfl, htr⟩
      refine tokPost_of_tr htr trivial ?_
      rintro x x' hx hx' ⟨hr, he⟩
      subst x'
      refine ⟨{ x with errors := x.errors ++ [w] }, ?_, ⟨rfl, rfl, rfl, rfl, rfl⟩, Or.inl rfl, rfl, rfl⟩
      simp only [stepOf, he]
      rfl
    cases hk : t.kind with
    | startTag =>
      simp only [stokOf, stokOfTag_start hk, Spec.TreeModes.afterFrameset, Spec.TreeModes.Tag.is, strIs_eq, specTag_name]
      by_cases h1 : t.name = "html".toList
      · simp +decide only [h1, if_true]
        refine pc_tokPost_congr (hbody (.tag t) rfl hwf s hm) ?_
        intro x hx
        simp only [stokOf, stokOfTag_start hk]
      · by_cases h2 : t.name = "noframes".toList
        · simp +decide only [h2, if_true, if_false]
          refine pc_tokPost_congr (hhead (.tag t) rfl hwf s hm) ?_
          intro x hx
          simp only [stokOf, stokOfTag_start hk]
        · simp +decide only [h1, h2, if_false]
          exact hunexp _
    | endTag =>
      simp only [stokOf, stokOfTag_end hk, Spec.TreeModes.afterFrameset, Spec.TreeModes.Tag.is, strIs_eq, specTag_name]
      by_cases h1 : t.name = "html".toList
      · simp +decide only [h1, if_true, if_false]
        refine pc_seq (pc_setMode hm _) ?_
        rintro _ s1 c1 _ ⟨rfl, htr⟩
        refine pc_pure (tokPost_of_tr (by rw [List.append_nil]; exact htr) trivial ?_)
        intro x x' hx hx' hr
        subst x'
        refine ⟨{ x with pendingJunk := (absF s x).pendingTableChars }, ?_, ⟨rfl, rfl, rfl, rfl, rfl⟩, Or.inl rfl, rfl, rfl⟩
        rfl
      · simp +decide only [h1, if_false]
        exact hunexp _

end H5V.Lemmas.HtmlTBModes
