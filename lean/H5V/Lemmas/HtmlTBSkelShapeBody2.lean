import H5V.Lemmas.HtmlTBSkelShapeBody
/-!
C06, second invariant layer, part 15: the arms of InBody that depend on the state.
-/
namespace H5V.Props.C06
open H5V.Model.Dom hiding Str
open H5V.Model.HtmlTB hiding Str
open H5V.Lemmas.Dom
set_option synthInstance.maxSize 4096

/-- a rule with a precondition on the state -/
def RBw (W : State → Prop) (prog : M ProcessResult) : Prop :=
  ∀ m r ph s res s', Big m r ph s → s.mode = m → isBL m = true → W s → prog s = .ok (res, s') → Out r s' res

theorem RBw.of_rb {W : State → Prop} {prog : M ProcessResult} (h : RB prog) : RBw W prog :=
  fun m r ph s res s' hb hm hbl _ e => h.p m r ph s res s' hb hm hbl e

theorem RBw.of_pbsc {sc P : EName → Bool} {prog : M ProcessResult} (h : PBsc sc P prog) [hn : NR prog] :
    RBw (InScP sc P) prog :=
  fun m r ph s res s' hb hm hbl hw e => by
    obtain ⟨h1, h2, _⟩ := h.p m r ph s res s' hb hw e
    exact Out.of_good (h1.good (h2.trans hm) hbl) (hn.h _ _ _ e)

theorem rb_ofGetS {f : State → M ProcessResult} (h : ∀ s0, RBw (fun s => s = s0) (f s0)) : RB (getS >>= f) :=
  ⟨fun m r ph s res s' hb hm hbl e => by
    rw [getS_bind] at e
    exact h s m r ph s res s' hb hm hbl rfl e⟩

def IsBody (b : Id) (s : State) : Prop := s.openElems[1]? = some b ∧ nm s.dom b = hN "body"

theorem rb_bodyElem {f : Option Id → M ProcessResult} (hn : RB (f none)) (hs : ∀ b, RBw (IsBody b) (f (some b))) :
    RB (bodyElem >>= f) :=
  ⟨fun m r ph s res s'' hb hm hbl e => by
    obtain ⟨a, s', e1, e2⟩ := bind_ok.mp e
    obtain ⟨q, ha⟩ := bodyElem_sem e1
    have hb' := hb.qs q
    have hm' : s'.mode = m := q.mode.trans hm
    cases a with
    | none => exact hn.p m r ph s' res s'' hb' hm' hbl e2
    | some b =>
      obtain ⟨h1, h2⟩ := ha b rfl
      refine hs b m r ph s' res s'' hb' hm' hbl ⟨by rw [q.openElems]; exact h1, ?_⟩ e2
      rw [q.nm]
      unfold isHS at h2
      simp only [Bool.and_eq_true, beq_iff_eq] at h2
      have : nm s.dom b = ⟨(nm s.dom b).ns, (nm s.dom b).loc⟩ := rfl
      rw [this, h2.1, h2.2]; rfl⟩

instance : ScBase extraSpecial := ⟨fun n hn => by
  obtain ⟨a, ha, rfl⟩ := htmlIn_eq hn
  revert a; decide⟩

theorem rb_listClose {list : Bool} {f : Option Str → M ProcessResult} (hn : RB (f none))
    (hs : ∀ name, isOneOf name ["li", "dd", "dt"] = true → RBw (InScP extraSpecial (namedP name)) (f (some name))) :
    RB (getS >>= fun s => listCloseSearch list s.openElems.reverse >>= f) :=
  ⟨fun m r ph s res s'' hb hm hbl e => by
    rw [getS_bind] at e
    obtain ⟨a, s', e1, e2⟩ := bind_ok.mp e
    obtain ⟨q, ha⟩ := listCloseSearch_sem list _ _ _ _ e1
    have hb' := hb.qs q
    have hm' : s'.mode = m := q.mode.trans hm
    cases a with
    | none => exact hn.p m r ph s' res s'' hb' hm' hbl e2
    | some name =>
      obtain ⟨pre, x, post, hl, hname, hcl, hpre⟩ := ha name rfl
      obtain ⟨_, hsplit⟩ := getElem?_of_reverse_split hl
      -- the name of the element found
      have hx : nm s.dom x = ⟨nsHtml, name⟩ ∧ isOneOf name ["li", "dd", "dt"] = true := by
        cases list with
        | true =>
          simp only [if_true] at hcl
          obtain ⟨a, ha', heq⟩ := htmlIn_eq hcl
          simp only [List.mem_cons, List.not_mem_nil, or_false] at ha'
          subst ha'
          rw [heq] at hname
          exact ⟨by rw [heq, hname]; rfl, by rw [hname]; decide⟩
        | false =>
          simp only [Bool.false_eq_true, if_false] at hcl
          obtain ⟨a, ha', heq⟩ := htmlIn_eq hcl
          simp only [List.mem_cons, List.not_mem_nil, or_false] at ha'
          rw [heq] at hname
          rcases ha' with rfl | rfl
          · exact ⟨by rw [heq, hname]; rfl, by rw [hname]; decide⟩
          · exact ⟨by rw [heq, hname]; rfl, by rw [hname]; decide⟩
      have hi : InScP extraSpecial (namedP name) s := by
        refine ⟨post.reverse, x, pre.reverse, hsplit, by rw [hx.1]; simp [namedP], fun y hy => ?_⟩
        obtain ⟨h1, h2⟩ := hpre y (List.mem_reverse.mp hy)
        refine ⟨?_, h1⟩
        -- an element named `name` would have been found first
        cases hp : namedP name (nm s.dom y) with
        | false => rfl
        | true =>
          have hy' := namedP_eq hp
          rw [hy', ← hx.1] at h2
          rw [hcl] at h2; cases h2
      exact hs name hx.2 m r ph s' res s'' hb' hm' hbl (hi.qs q) e2⟩

/-! ### mode changes -/

theorem Big.reNeed {m m' : Mode} {r : Id} {ph : Phase} {s : State} (h : Big m r ph s)
    (hn : ∀ up, s.openElems = r :: up → Need s.dom m' up) : Big m' r ph s := by
  obtain ⟨up, hc, hbb, _, hfp⟩ := h
  exact ⟨up, hc, hbb, hn up hc.stack, hfp⟩

theorem Big.setMode {m : Mode} {r : Id} {ph : Phase} {s : State} (h : Big m r ph s) {m' : Mode}
    (hl : isLate m' = true) : Big m r ph { s with mode := m' } := by
  obtain ⟨up, hc, hbb, hn, hfp⟩ := h
  exact ⟨up, hc.modes hl hc.late.ml.orig, hbb, hn, hfp⟩

/-- the end of a rule that switches to another body-like mode -/
theorem rbw_setModeDone {m' : Mode} (hbl' : isBL m' = true) :
    RBw (fun s => ∀ r up, s.openElems = r :: up → Need s.dom m' up)
      (setMode m' >>= fun _ => pure ProcessResult.done) :=
  fun m r ph s res s'' hb hm hbl hw e => by
    obtain ⟨u, s', e1, e2⟩ := bind_ok.mp e
    obtain ⟨rfl, rfl⟩ := pure_ok.mp e2
    unfold H5V.Model.HtmlTB.setMode at e1
    rw [modS_ok.mp e1]
    have hb' : Big m' r ph s := hb.reNeed (fun up hup => hw r up hup)
    exact (hb'.setMode (isLate_of_bl hbl')).good rfl hbl'


theorem rbw_bind {α : Type} {W : State → Prop} {m : M α} {f : α → M ProcessResult}
    (h1 : ∀ md r ph s a s', Big md r ph s → W s → m s = .ok (a, s') →
      Big md r ph s' ∧ s'.mode = s.mode ∧ ∃ W' : State → Prop, W' s' ∧ RBw W' (f a)) : RBw W (m >>= f) :=
  fun md r ph s res s'' hb hm hbl hw e => by
    obtain ⟨a, s', e1, e2⟩ := bind_ok.mp e
    obtain ⟨b1, m1, W', hw', hf⟩ := h1 md r ph s a s' hb hw e1
    exact hf md r ph s' res s'' b1 (m1.trans hm) hbl hw' e2

/-! ### `<table>` -/

theorem need_of_top {d : Dom} {m : Mode} {r el : Id} {l up : List Id} (hl : l ≠ [])
    (hst : l ++ [el] = r :: up) (hn : ∀ up0, up = up0 ++ [el] → Need d m up) : Need d m up := by
  cases l with
  | nil => exact absurd rfl hl
  | cons a t =>
    simp only [List.cons_append, List.cons.injEq] at hst
    exact hn t hst.2.symm

theorem rb_table_tail {tag : Tag} (h : tag.isStart ["table"] = true) :
    RB (insertElementFor tag >>= fun _ => setFramesetOk false >>= fun _ => setMode .inTable >>= fun _ =>
      pure ProcessResult.done) :=
  ⟨fun m r ph s res s'' hb hm hbl e => by
    obtain ⟨a, ha, hn, _⟩ := name_of_isStart h
    simp only [List.mem_cons, List.not_mem_nil, or_false] at ha
    subst ha
    obtain ⟨el, s1, e1, e2⟩ := bind_ok.mp e
    unfold insertElementFor at e1
    have hpk : PushOk s ⟨nsHtml, tag.name⟩ := by
      rw [hn]
      exact ⟨fun t _ => predOk_of_not_constrained (by decide), by decide, fun h0 => absurd h0 (by decide)⟩
    obtain ⟨hb1, hm1, _, hnm1, _, _, hst1, _, _⟩ := insertElement_gen hb (fun _ => hpk) e1
    simp only [if_true] at hst1
    obtain ⟨u2, s2, e3, e4⟩ := bind_ok.mp e2
    obtain ⟨hb2, hm2, _⟩ := (inferInstance : PB (setFramesetOk false)).p m r ph s1 u2 s2 hb1 e3
    have hs2 : s2 = { s1 with framesetOk := false } := by
      unfold setFramesetOk at e3; exact modS_ok.mp e3
    refine rbw_setModeDone (m' := .inTable) rfl m r ph s2 res s'' hb2 ((hm2.trans hm1).trans hm) hbl ?_ e4
    intro r' up hup
    have hne : s.openElems ≠ [] := by
      intro h0; have := hb.root_mem; rw [h0] at this; cases this
    have hst2 : s.openElems ++ [el] = r' :: up := by rw [← hst1, ← hup, hs2]
    refine need_of_top hne hst2 (fun up0 hu => ?_)
    refine ⟨el, by rw [hu]; simp, ?_⟩
    have : nm s2.dom el = nm s1.dom el := by rw [hs2]
    rw [this, hnm1, hn]; decide⟩

/-! ### `</body>`, `</html>` -/

/-- `body` in the default scope: the stack is `html body …` and the phase is `pb` -/
theorem body_in_scope {m : Mode} {r : Id} {ph : Phase} {s : State} (hb : Big m r ph s)
    (hi : InScP defaultScope (namedP "body".toList) s) :
    ∃ b up', s.openElems = r :: b :: up' ∧ ph = .pb b ∧ ∀ h, s.headElem = some h → h ∉ b :: up' := by
  have hnp := hb.notPf
  obtain ⟨up, hc, hbb, _, _⟩ := hb
  obtain ⟨below, x, above, h1, h2, _⟩ := hi
  have hxn := namedP_eq h2
  have hxm : x ∈ s.openElems := by rw [h1]; simp
  rcases hbb with ⟨b, u, hu, hph, hh⟩ | ⟨hh, t, u, h0, hu, ht, hph⟩ | ⟨t, u, hu, ht, hph, _⟩
  · exact ⟨b, u, by rw [hc.stack, hu], hph, by rw [← hu]; exact hh⟩
  · -- no element named body: the root is html, then head, template, and above them none
    exfalso
    rw [hc.stack, hu] at hxm
    simp only [List.mem_cons] at hxm
    rcases hxm with rfl | rfl | rfl | hxm
    · rw [hc.root_name] at hxn; revert hxn; decide
    · have : nm s.dom x = hN "head" := by
        subst hph; obtain ⟨h', e1, _, e3⟩ := hc.elems; rw [h0] at e1; cases e1; exact e3
      rw [this] at hxn; revert hxn; decide
    · rw [ht] at hxn; revert hxn; decide
    · have := hc.bh4 hnp x (by rw [hu]; simp [hxm])
      rw [hxn] at this; revert this; decide
  · exfalso
    rw [hc.stack, hu] at hxm
    simp only [List.mem_cons] at hxm
    rcases hxm with rfl | rfl | hxm
    · rw [hc.root_name] at hxn; revert hxn; decide
    · rw [ht] at hxn; revert hxn; decide
    · have := hc.bh4 hnp x (by rw [hu]; simp [hxm])
      rw [hxn] at this; revert this; decide

/-- a state in which `</body>` / `</html>` may end the body -/
theorem afterBody_good {m : Mode} {r : Id} {ph : Phase} {s : State} (hb : Big m r ph s)
    (hi : InScP defaultScope (namedP "body".toList) s) : Good r { s with mode := .afterBody } := by
  obtain ⟨b, up', hst, hph, hh⟩ := body_in_scope hb hi
  obtain ⟨up, hc, _, _, hfp⟩ := hb
  have hup : up = b :: up' := by
    have := hc.stack; rw [hst] at this
    simp only [List.cons.injEq, true_and] at this; exact this.symm
  refine ⟨up, ph, ⟨hc.modes rfl hc.late.ml.orig, ?_⟩, fun _ => hfp⟩
  show FitsM { s with mode := .afterBody } up ph
  unfold FitsM
  exact ⟨b, up', hup, hph, by rw [hup]; exact hh⟩

theorem rb_body_end :
    RB (inScopeNamed defaultScope "body" >>= fun b => if b = true then
      checkBodyEnd >>= fun _ => setMode .afterBody >>= fun _ => pure ProcessResult.done
      else parseError "</body> with no <body> in scope" >>= fun _ => pure ProcessResult.done) :=
  ⟨fun m r ph s res s'' hb hm hbl e => by
    obtain ⟨a, s', e1, e2⟩ := bind_ok.mp e
    unfold inScopeNamed inScopeNamedS inScope at e1
    rw [getS_bind] at e1
    obtain ⟨q, hres⟩ := inScopeLoop_sem defaultScope _ (fun n => namedP "body".toList (nm s.dom n)) s
      (fun n s1 b1 s2 q0 e0 => by
        obtain ⟨q1, hb1, _⟩ := htmlElemNamedS_sem e0
        exact ⟨q1, by rw [hb1, q0.nm]⟩) _ s s' a (QS.refl _) e1
    have hb' := hb.qs q
    cases a with
    | false =>
      simp only [Bool.false_eq_true, if_false] at e2
      obtain ⟨u, s2, e3, e4⟩ := bind_ok.mp e2
      obtain ⟨rfl, rfl⟩ := pure_ok.mp e4
      exact (hb'.qs (qs_parseError e3)).good (((qs_parseError e3).mode.trans q.mode).trans hm) hbl
    | true =>
      simp only [if_true] at e2
      obtain ⟨pre, x, post, hl, hx, hpre⟩ := hres rfl
      obtain ⟨_, hsplit⟩ := getElem?_of_reverse_split hl
      have hi : InScP defaultScope (namedP "body".toList) s :=
        ⟨post.reverse, x, pre.reverse, hsplit, hx, fun y hy => hpre y (List.mem_reverse.mp hy)⟩
      obtain ⟨u, s2, e3, e4⟩ := bind_ok.mp e2
      have q2 : QS s' s2 := IsQ.q _ _ _ e3
      obtain ⟨u3, s3, e5, e6⟩ := bind_ok.mp e4
      obtain ⟨rfl, rfl⟩ := pure_ok.mp e6
      unfold H5V.Model.HtmlTB.setMode at e5
      rw [modS_ok.mp e5]
      exact afterBody_good (hb'.qs q2) ((hi.qs q).qs q2)⟩

theorem rb_html_end {tag : Tag} :
    RB (inScopeNamed defaultScope "body" >>= fun b => if b = true then
      checkBodyEnd >>= fun _ => pure (ProcessResult.reprocess .afterBody (.tag tag))
      else parseError "</html> with no <body> in scope" >>= fun _ => pure ProcessResult.done) :=
  ⟨fun m r ph s res s'' hb hm hbl e => by
    obtain ⟨a, s', e1, e2⟩ := bind_ok.mp e
    unfold inScopeNamed inScopeNamedS inScope at e1
    rw [getS_bind] at e1
    obtain ⟨q, hres⟩ := inScopeLoop_sem defaultScope _ (fun n => namedP "body".toList (nm s.dom n)) s
      (fun n s1 b1 s2 q0 e0 => by
        obtain ⟨q1, hb1, _⟩ := htmlElemNamedS_sem e0
        exact ⟨q1, by rw [hb1, q0.nm]⟩) _ s s' a (QS.refl _) e1
    have hb' := hb.qs q
    cases a with
    | false =>
      simp only [Bool.false_eq_true, if_false] at e2
      obtain ⟨u, s2, e3, e4⟩ := bind_ok.mp e2
      obtain ⟨rfl, rfl⟩ := pure_ok.mp e4
      exact (hb'.qs (qs_parseError e3)).good (((qs_parseError e3).mode.trans q.mode).trans hm) hbl
    | true =>
      simp only [if_true] at e2
      obtain ⟨pre, x, post, hl, hx, hpre⟩ := hres rfl
      obtain ⟨_, hsplit⟩ := getElem?_of_reverse_split hl
      have hi : InScP defaultScope (namedP "body".toList) s :=
        ⟨post.reverse, x, pre.reverse, hsplit, hx, fun y hy => hpre y (List.mem_reverse.mp hy)⟩
      obtain ⟨u, s2, e3, e4⟩ := bind_ok.mp e2
      have q2 : QS s' s2 := IsQ.q _ _ _ e3
      obtain ⟨rfl, rfl⟩ := pure_ok.mp e4
      exact ⟨afterBody_good (hb'.qs q2) ((hi.qs q).qs q2), inferInstance⟩⟩


/-! ### `<form>`, `</form>` -/

theorem rb_form_tail {tag : Tag} (h : tag.isStart ["form"] = true) :
    RB (insertElementFor tag >>= fun elem => inHtmlElemNamed "template" >>= fun b =>
      if (!b) = true then (modS fun s => { s with formElem := some elem }) >>= fun _ => pure ProcessResult.done
      else pure ProcessResult.done) :=
  ⟨fun m r ph s res s'' hb hm hbl e => by
    obtain ⟨a, ha, hn, _⟩ := name_of_isStart h
    simp only [List.mem_cons, List.not_mem_nil, or_false] at ha
    subst ha
    obtain ⟨el, s1, e1, e2⟩ := bind_ok.mp e
    unfold insertElementFor at e1
    obtain ⟨hb1, hm1, _, hnm1, hel1, _, _, _, _⟩ := insertElement_big hb (by rw [hn]; decide) e1
    obtain ⟨b, s2, e3, e4⟩ := bind_ok.mp e2
    have q2 : QS s1 s2 := IsQ.q _ _ _ e3
    have hb2 := hb1.qs q2
    have hm2 : s2.mode = m := (q2.mode.trans hm1).trans hm
    rcases ite_run e4 with ⟨_, e4⟩ | ⟨_, e4⟩
    · obtain ⟨u, s3, e5, e6⟩ := bind_ok.mp e4
      obtain ⟨rfl, rfl⟩ := pure_ok.mp e6
      rw [modS_ok.mp e5]
      have : Big m r ph { s2 with formElem := some el } :=
        hb2.upd rfl rfl rfl rfl rfl rfl rfl rfl rfl hb2.afok
          (fun f hf => by
            cases hf
            exact ⟨by rw [q2.nm, hnm1, hn]; rfl, by rw [isElement_of_nodes q2.nodes]; exact hel1⟩)
          (fun hf => hf)
      exact this.good hm2 hbl
    · obtain ⟨rfl, rfl⟩ := pure_ok.mp e4
      exact hb2.good hm2 hbl⟩

theorem rbw_form_end (s0 : State) (node : Id) (hfe : s0.formElem = some node) (msg1 msg2 : String) :
    RBw (fun s => s = s0) (set { s0 with formElem := none } >>= fun _ =>
      inScope defaultScope (fun n => sameNode node n) >>= fun b =>
        if (!b) = true then parseError msg1 >>= fun _ => pure ProcessResult.done
        else generateImpliedEndTags cursoryImpliedEnd >>= fun _ => currentNode >>= fun current =>
          removeFromStack node >>= fun _ => sameNode current node >>= fun b2 =>
            if (!b2) = true then parseError msg2 >>= fun _ => pure ProcessResult.done
            else pure ProcessResult.done) :=
  fun m r ph s res s'' hb hm hbl hw e => by
    subst hw
    obtain ⟨hnm0, hel0⟩ := hb.formOk node hfe
    obtain ⟨u, s1, e1, e2⟩ := bind_ok.mp e
    have hs1 := set_ok.mp e1
    have hb1 : Big m r ph s1 := by
      rw [hs1]
      exact hb.upd rfl rfl rfl rfl rfl rfl rfl rfl rfl hb.afok (fun f hf => by cases hf) (fun hf => hf)
    have hm1 : s1.mode = m := by rw [hs1]; exact hm
    have hn1 : nm s1.dom node = hN "form" := by rw [hs1]; exact hnm0
    obtain ⟨b, s2, e3, e4⟩ := bind_ok.mp e2
    have q2 : QS s1 s2 := IsQ.q _ _ _ e3
    have hb2 := hb1.qs q2
    have hm2 : s2.mode = m := q2.mode.trans hm1
    rcases ite_run e4 with ⟨_, e4⟩ | ⟨_, e4⟩
    · obtain ⟨u3, s3, e5, e6⟩ := bind_ok.mp e4
      obtain ⟨rfl, rfl⟩ := pure_ok.mp e6
      exact (hb2.qs (qs_parseError e5)).good ((qs_parseError e5).mode.trans hm2) hbl
    · obtain ⟨u3, s3, e5, e6⟩ := bind_ok.mp e4
      obtain ⟨hb3, hm3, _⟩ := (inferInstance : PB (generateImpliedEndTags cursoryImpliedEnd)).p m r ph s2 u3 s3 hb2 e5
      obtain ⟨popped, p3, _⟩ := generateImpliedEndTags_sem e5
      obtain ⟨cur, s4, e7, e8⟩ := bind_ok.mp e6
      obtain ⟨h34, _⟩ := currentNode_sem e7
      rw [h34] at e8
      obtain ⟨u5, s5, e9, e10⟩ := bind_ok.mp e8
      have hn3 : nm s3.dom node = hN "form" := by rw [p3.nm, q2.nm]; exact hn1
      obtain ⟨hb5, hm5, _⟩ := removeFromStack_big hb3 (by rw [hn3]; decide) e9
      obtain ⟨b6, s6, e11, e12⟩ := bind_ok.mp e10
      have q6 : QS s5 s6 := IsQ.q _ _ _ e11
      have hb6 := hb5.qs q6
      have hm6 : s6.mode = m := by rw [q6.mode, hm5, hm3]; exact hm2
      rcases ite_run e12 with ⟨_, e12⟩ | ⟨_, e12⟩
      · obtain ⟨u7, s7, e13, e14⟩ := bind_ok.mp e12
        obtain ⟨rfl, rfl⟩ := pure_ok.mp e14
        exact (hb6.qs (qs_parseError e13)).good ((qs_parseError e13).mode.trans hm6) hbl
      · obtain ⟨rfl, rfl⟩ := pure_ok.mp e12
        exact hb6.good hm6 hbl

/-! ### `</p>` with no `p` in scope: a phantom `p` is inserted, then closed -/

instance {β : Type} (X : String) [hk : PlainStr X.toList] (f : Id → M β)
    [h2 : ∀ a, PBsc buttonScope (namedP X.toList) (f a)] : PB (insertPhantom X >>= f) :=
  ⟨fun m r ph s b s'' hb e => by
    obtain ⟨el, s1, e1, e2⟩ := bind_ok.mp e
    unfold insertPhantom at e1
    obtain ⟨hb1, hm1, ho1, hnm1, _, _, hst1, _, _⟩ := insertElement_big hb hk.h e1
    simp only [if_true] at hst1
    have hi : InScP buttonScope (namedP X.toList) s1 :=
      ⟨s.openElems, el, [], by rw [hst1], by rw [hnm1]; simp [namedP], fun y hy => by cases hy⟩
    obtain ⟨b2, m2, o2⟩ := (h2 el).p m r ph s1 b s'' hb1 hi e2
    exact ⟨b2, m2.trans hm1, o2.trans ho1⟩⟩

/-! ### the generic arms -/

theorem not_isStart {tag : Tag} {l : List String} (h : ¬ tag.isStart l = true) (hk : tag.kind = .startTag)
    {a : String} (ha : a ∈ l) : tag.name ≠ a.toList := by
  intro hn
  apply h
  unfold Tag.isStart isOneOf
  simp only [Bool.and_eq_true, beq_iff_eq, List.any_eq_true]
  exact ⟨hk, a, ha, hn.symm⟩

/-- a start tag that reaches the last start-tag arm of InBody has a disposable name -/
theorem plain_generic_start {tag : Tag} (hk : (tag.kind == H5V.Model.HtmlTok.TagKind.startTag) = true)
    (h1 : ¬ tag.isStart ["html"] = true)
    (h2 : ¬ (tag.isStart ["base", "basefont", "bgsound", "link", "meta", "noframes", "script", "style",
      "template", "title"] || tag.isEnd ["template"]) = true)
    (h3 : ¬ tag.isStart ["body"] = true) (h4 : ¬ tag.isStart ["frameset"] = true)
    (h5 : ¬ tag.isStart ["table"] = true)
    (h6 : ¬ tag.isStart ["caption", "col", "colgroup", "frame", "head", "tbody", "td", "tfoot", "th", "thead", "tr"] = true) :
    PlainStr tag.name := by
  have hk' : tag.kind = .startTag := by simpa using hk
  have h2' : ¬ tag.isStart ["base", "basefont", "bgsound", "link", "meta", "noframes", "script", "style",
      "template", "title"] = true := by
    intro h; apply h2; rw [h]; rfl
  constructor
  cases hkn : keepName ⟨nsHtml, tag.name⟩ with
  | false => rfl
  | true =>
    exfalso
    rcases keepName_cases hkn with hc | hc
    · obtain ⟨a, ha, heq⟩ := htmlIn_eq hc
      have hn : tag.name = a.toList := by
        have := congrArg EName.loc heq; exact this
      simp only [List.mem_cons, List.not_mem_nil, or_false] at ha
      rcases ha with rfl | rfl | rfl | rfl | rfl | rfl | rfl | rfl <;>
        exact not_isStart h6 hk' (by simp) hn
    · obtain ⟨a, ha, heq⟩ := htmlIn_eq hc
      have hn : tag.name = a.toList := by
        have := congrArg EName.loc heq; exact this
      simp only [List.mem_cons, List.not_mem_nil, or_false] at ha
      rcases ha with rfl | rfl | rfl | rfl | rfl | rfl
      · exact not_isStart h1 hk' (by simp) hn
      · exact not_isStart h5 hk' (by simp) hn
      · exact not_isStart h2' hk' (by simp) hn
      · exact not_isStart h3 hk' (by simp) hn
      · exact not_isStart h6 hk' (by simp) hn
      · exact not_isStart h4 hk' (by simp) hn


/-! ### the last arm: any other end tag -/

/-- popping elements none of which is `html`, `body`, `head`, `template`, in a mode that needs no
witness on the stack -/
theorem Big.popK {m : Mode} {r : Id} {ph : Phase} {s s' : State} {popped : List Id} (h : Big m r ph s)
    (p : PR s s' popped) (hp : ∀ x ∈ popped, htmlIn (nm s.dom x) ["html", "body", "head", "template"] = false)
    (hneed : ∀ up', Need s'.dom m up') : Big m r ph s' := by
  obtain ⟨up, hc, hbb, _, _⟩ := h
  have hnm : ∀ x, nm s'.dom x = nm s.dom x := nm_of_nodes p.nodes
  have hr : r ∉ popped := fun hm => by
    have := hp r hm; rw [hc.root_name] at this; revert this; decide
  have hst := p.stack
  rw [hc.stack] at hst
  obtain ⟨up', hs', hup⟩ := head_of_split hst hr
  have hc' : Core s' r up' ph := hc.pr p hup
  have hhead : s'.headElem = s.headElem := by rw [p.rest]
  refine ⟨up', hc', ?_, hneed up', FPok.triv _ _⟩
  rw [hhead]
  rcases hbb with ⟨b, upb, h1, h2, h3⟩ | ⟨hh, t, upt, h1, h2, h3, h4⟩ | ⟨t, upt, h2, h3, h4, h5⟩
  · have hbn : nm s.dom b = hN "body" := by
      subst h2
      obtain ⟨_, _, _, _, hb⟩ := hc.elems
      exact hb
    rw [h1] at hup
    obtain ⟨t', e1, e2⟩ := head_of_split hup (fun hm => by
      have := hp b hm; rw [hbn] at this; revert this; decide)
    refine Or.inl ⟨b, t', e1, h2, fun x hx hm => h3 x hx ?_⟩
    rw [h1, e2]; rw [e1] at hm
    simp only [List.mem_cons] at hm ⊢
    rcases hm with hm | hm
    · exact Or.inl hm
    · exact Or.inr (List.mem_append_left _ hm)
  · have hhn : nm s.dom hh = hN "head" := by
      subst h4
      obtain ⟨h', e1, _, e3⟩ := hc.elems
      rw [h1] at e1; cases e1; exact e3
    rw [h2] at hup
    obtain ⟨t1, e1, e2⟩ := head_of_split hup (fun hm => by
      have := hp hh hm; rw [hhn] at this; revert this; decide)
    obtain ⟨t2, e3, e4⟩ := head_of_split e2 (fun hm => by
      have := hp t hm; rw [h3] at this; revert this; decide)
    exact Or.inr (Or.inl ⟨hh, t, t2, h1, by rw [e1, e3], by rw [hnm]; exact h3, h4⟩)
  · rw [h2] at hup
    obtain ⟨t1, e1, e2⟩ := head_of_split hup (fun hm => by
      have := hp t hm; rw [h3] at this; revert this; decide)
    refine Or.inr (Or.inr ⟨t, t1, e1, by rw [hnm]; exact h3, h4, fun x hx hm => h5 x hx ?_⟩)
    rw [h2, e2]; rw [e1] at hm
    simp only [List.mem_cons] at hm ⊢
    rcases hm with hm | hm
    · exact Or.inl hm
    · exact Or.inr (List.mem_append_left _ hm)

def needTriv (m : Mode) : Bool := m == .inBody || m == .inCaption || m == .inColumnGroup

/-- what the caller of the InBody rules guarantees about an end tag with a protected name -/
def EndSide (tag : Tag) (m : Mode) : Prop :=
  keepName ⟨nsHtml, tag.name⟩ = true → isOneOf tag.name ["head", "frameset"] = true ∨ needTriv m = true

theorem isHS_eq {n : EName} {X : Str} (h : isHS n X = true) : n = ⟨nsHtml, X⟩ := by
  unfold isHS at h
  simp only [Bool.and_eq_true, beq_iff_eq] at h
  cases n; simp_all

theorem rbw_generic_end {tag : Tag} (h5 : ¬ tag.isEnd ["body"] = true) (h6 : ¬ tag.isEnd ["html"] = true)
    (h2 : ¬ (tag.isStart ["base", "basefont", "bgsound", "link", "meta", "noframes", "script", "style",
      "template", "title"] || tag.isEnd ["template"]) = true)
    (hk : ¬ (tag.kind == H5V.Model.HtmlTok.TagKind.startTag) = true) :
    RBw (fun s => EndSide tag s.mode) (processEndTagInBody tag >>= fun _ => pure ProcessResult.done) :=
  fun m r ph s res s'' hb hm hbl hw e => by
    have hw : EndSide tag m := by have := hw; simp only at this; rw [hm] at this; exact this
    obtain ⟨u, s', e1, e2⟩ := bind_ok.mp e
    obtain ⟨rfl, rfl⟩ := pure_ok.mp e2
    show Good r s'
    cases hkn : keepName ⟨nsHtml, tag.name⟩ with
    | false =>
      haveI : PlainStr tag.name := ⟨hkn⟩
      obtain ⟨h1, h2', _⟩ := (inferInstance : PB (processEndTagInBody tag)).p m r ph s u s' hb e1
      exact h1.good (h2'.trans hm) hbl
    | true =>
      have hke : tag.kind = .endTag := by
        cases hkk : tag.kind with
        | startTag => rw [hkk] at hk; exact absurd rfl hk
        | endTag => rfl
      have hnot : ∀ a, a ∈ ["body", "html", "template"] → tag.name ≠ a.toList := by
        intro a ha hn
        have hen : ∀ l, a ∈ l → tag.isEnd l = true := by
          intro l hl
          unfold Tag.isEnd isOneOf
          simp only [Bool.and_eq_true, beq_iff_eq, List.any_eq_true]
          exact ⟨hke, a, hl, hn.symm⟩
        simp only [List.mem_cons, List.not_mem_nil, or_false] at ha
        rcases ha with rfl | rfl | rfl
        · exact h5 (hen _ (by simp))
        · exact h6 (hen _ (by simp))
        · apply h2; rw [hen ["template"] (by simp)]; simp
      obtain ⟨popped, p, hpop⟩ := processEndTagInBody_sem e1
      have hnp := hb.notPf
      have hmode : s'.mode = m := by rw [p.rest]; exact hm
      obtain ⟨up, hc, hbb, _, _⟩ := id hb
      have hst := p.stack
      rcases hw hkn with hhf | hnt
      · -- `</head>`, `</frameset>`: nothing with that name can be reached
        refine (hb.pop p (fun x hx => ?_)).good hmode hbl
        rcases hpop x hx with h1 | h1 | h1
        · cases hk' : keepName (nm s.dom x) with
          | false => rfl
          | true => rw [special_of_keepName hk'] at h1; cases h1
        · exfalso
          have hxn := isHS_eq h1
          have hxs : x ∈ s.openElems := by rw [hst]; exact List.mem_append_right _ hx
          rw [hc.stack] at hxs
          simp only [List.mem_cons] at hxs
          have hxr : x ≠ r := by
            rintro rfl
            rw [hc.root_name] at hxn
            have : tag.name = "html".toList := (congrArg EName.loc hxn).symm
            exact hnot "html" (by simp) this
          have hxu : x ∈ up := by
            rcases hxs with h | h
            · exact absurd h hxr
            · exact h
          -- the names head/frameset occur at most at the first place above the root
          have hname : htmlIn (nm s.dom x) ["html", "body", "head", "frameset"] = true := by
            rw [hxn]
            unfold isOneOf at hhf
            simp only [List.any_cons, List.any_nil, Bool.or_false, Bool.or_eq_true, beq_iff_eq] at hhf
            rcases hhf with h | h <;> (rw [← h]; decide)
          rcases hbb with ⟨b, u', hu, hph, _⟩ | ⟨hh, t, u', h0, hu, htn, hph⟩ | ⟨t, u', hu, htn, _, _⟩
          · rw [hu] at hxu
            simp only [List.mem_cons] at hxu
            rcases hxu with rfl | hxu
            · have hbn : nm s.dom x = hN "body" := by
                subst hph; obtain ⟨_, _, _, _, hb'⟩ := hc.elems; exact hb'
              rw [hbn] at hxn
              have : tag.name = "body".toList := (congrArg EName.loc hxn).symm
              exact hnot "body" (by simp) this
            · have := hc.bh4 hnp x (by rw [hu]; exact hxu)
              rw [hname] at this; cases this
          · rw [hu] at hxu
            simp only [List.mem_cons] at hxu
            rcases hxu with rfl | rfl | hxu
            · -- x is the head below a template: the template is popped too
              have htp : t ∈ popped := by
                have h1' : r :: x :: t :: u' = s'.openElems ++ popped := by rw [← hst, hc.stack, hu]
                -- x ∈ popped, so everything after x is
                obtain ⟨a1, a2, ha⟩ := List.append_of_mem hx
                rw [ha] at h1'
                have h2' : (r :: x :: t :: u') = ((s'.openElems ++ a1) ++ x :: a2) := by rw [h1']; simp
                have hnd := hc.nodup
                rw [hc.stack, hu] at hnd
                -- unique position of x
                have : [r] ++ x :: (t :: u') = (s'.openElems ++ a1) ++ x :: a2 := h2'
                have hx1 : x ∉ t :: u' := by
                  intro hm
                  have := List.nodup_cons.mp (List.nodup_cons.mp hnd).2
                  exact this.1 hm
                have hx2 : x ∉ [r] := by simp; exact hxr
                rcases List.append_eq_append_iff.mp this with ⟨c, hc1, hc2⟩ | ⟨c, hc1, hc2⟩
                · cases c with
                  | nil =>
                    simp only [List.nil_append, List.cons.injEq, true_and] at hc2
                    rw [ha, ← hc2]; simp
                  | cons z zs =>
                    simp only [List.cons_append, List.cons.injEq] at hc2
                    exact absurd (by rw [hc2.2]; simp) hx1
                · cases c with
                  | nil =>
                    simp only [List.nil_append, List.cons.injEq, true_and] at hc2
                    rw [ha, hc2]; simp
                  | cons z zs =>
                    simp only [List.cons_append, List.cons.injEq] at hc2
                    exact absurd (by rw [hc1, ← hc2.1]; simp) hx2
              rcases hpop t htp with h3 | h3 | h3
              · rw [htn] at h3; revert h3; decide
              · have := isHS_eq h3
                rw [htn] at this
                have : tag.name = "template".toList := (congrArg EName.loc this).symm
                exact hnot "template" (by simp) this
              · rw [htn] at h3; revert h3; decide
            · rw [htn] at hxn
              have : tag.name = "template".toList := (congrArg EName.loc hxn).symm
              exact hnot "template" (by simp) this
            · have := hc.bh4 hnp x (by rw [hu]; simp [hxu])
              rw [hname] at this; cases this
          · rw [hu] at hxu
            simp only [List.mem_cons] at hxu
            rcases hxu with rfl | hxu
            · rw [htn] at hxn
              have : tag.name = "template".toList := (congrArg EName.loc hxn).symm
              exact hnot "template" (by simp) this
            · have := hc.bh4 hnp x (by rw [hu]; exact hxu)
              rw [hname] at this; cases this
        · exact keepName_cursory h1
      · -- a mode without a witness: structure elements may be popped, the anchors are not
        have hb' : Big m r ph s' := by
          refine hb.popK p (fun x hx => ?_) (fun up' => ?_)
          · rcases hpop x hx with h1 | h1 | h1
            · cases hq : htmlIn (nm s.dom x) ["html", "body", "head", "template"] with
              | false => rfl
              | true =>
                obtain ⟨a, ha, heq⟩ := htmlIn_eq hq
                rw [heq] at h1
                simp only [List.mem_cons, List.not_mem_nil, or_false] at ha
                rcases ha with rfl | rfl | rfl | rfl <;> (revert h1; decide)
            · have hxn := isHS_eq h1
              cases hq : htmlIn (nm s.dom x) ["html", "body", "head", "template"] with
              | false => rfl
              | true =>
                exfalso
                obtain ⟨a, ha, heq⟩ := htmlIn_eq hq
                rw [hxn] at heq
                have hn : tag.name = a.toList := congrArg EName.loc heq
                simp only [List.mem_cons, List.not_mem_nil, or_false] at ha
                rcases ha with rfl | rfl | rfl | rfl
                · exact hnot "html" (by simp) hn
                · exact hnot "body" (by simp) hn
                · -- `</head>` with a protected name is covered by the first case of the side condition;
                  -- here: head is not reachable either, but the mode needs no witness, so use the names
                  -- the element named head is an anchor below a template, which is then popped too
                  have hxs : x ∈ s.openElems := by rw [hst]; exact List.mem_append_right _ hx
                  rw [hc.stack] at hxs
                  simp only [List.mem_cons] at hxs
                  have hxr : x ≠ r := by
                    rintro rfl
                    rw [hc.root_name] at hxn
                    have : tag.name = "html".toList := (congrArg EName.loc hxn).symm
                    exact hnot "html" (by simp) this
                  have hxu : x ∈ up := by
                    rcases hxs with h | h
                    · exact absurd h hxr
                    · exact h
                  have hname : htmlIn (nm s.dom x) ["html", "body", "head", "frameset"] = true := by
                    rw [hxn, hn]; decide
                  rcases hbb with ⟨b, u', hu, hph, _⟩ | ⟨hh, t, u', h0, hu, htn, hph⟩ | ⟨t, u', hu, htn, _, _⟩
                  · rw [hu] at hxu
                    simp only [List.mem_cons] at hxu
                    rcases hxu with rfl | hxu
                    · have hbn : nm s.dom x = hN "body" := by
                        subst hph; obtain ⟨_, _, _, _, hb'⟩ := hc.elems; exact hb'
                      rw [hbn, hn] at hxn; revert hxn; decide
                    · have := hc.bh4 hnp x (by rw [hu]; exact hxu)
                      rw [hname] at this; cases this
                  · rw [hu] at hxu
                    simp only [List.mem_cons] at hxu
                    rcases hxu with rfl | rfl | hxu
                    · have htp : t ∈ popped := by
                        obtain ⟨a1, a2, ha⟩ := List.append_of_mem hx
                        have h1' : r :: x :: t :: u' = s'.openElems ++ popped := by rw [← hst, hc.stack, hu]
                        rw [ha] at h1'
                        have hnd := hc.nodup
                        rw [hc.stack, hu] at hnd
                        have : [r] ++ x :: (t :: u') = (s'.openElems ++ a1) ++ x :: a2 := by
                          show r :: x :: t :: u' = _
                          rw [h1']; simp
                        have hx1 : x ∉ t :: u' := by
                          intro hm
                          have := List.nodup_cons.mp (List.nodup_cons.mp hnd).2
                          exact this.1 hm
                        have hx2 : x ∉ [r] := by simp; exact hxr
                        rcases List.append_eq_append_iff.mp this with ⟨c, hc1, hc2⟩ | ⟨c, hc1, hc2⟩
                        · cases c with
                          | nil =>
                            simp only [List.nil_append, List.cons.injEq, true_and] at hc2
                            rw [ha, ← hc2]; simp
                          | cons z zs =>
                            simp only [List.cons_append, List.cons.injEq] at hc2
                            exact absurd (by rw [hc2.2]; simp) hx1
                        · cases c with
                          | nil =>
                            simp only [List.nil_append, List.cons.injEq, true_and] at hc2
                            rw [ha, hc2]; simp
                          | cons z zs =>
                            simp only [List.cons_append, List.cons.injEq] at hc2
                            exact absurd (by rw [hc1, ← hc2.1]; simp) hx2
                      rcases hpop t htp with h3 | h3 | h3
                      · rw [htn] at h3; revert h3; decide
                      · have := isHS_eq h3
                        rw [htn] at this
                        have : tag.name = "template".toList := (congrArg EName.loc this).symm
                        exact hnot "template" (by simp) this
                      · rw [htn] at h3; revert h3; decide
                    · rw [htn, hn] at hxn; revert hxn; decide
                    · have := hc.bh4 hnp x (by rw [hu]; simp [hxu])
                      rw [hname] at this; cases this
                  · rw [hu] at hxu
                    simp only [List.mem_cons] at hxu
                    rcases hxu with rfl | hxu
                    · rw [htn, hn] at hxn; revert hxn; decide
                    · have := hc.bh4 hnp x (by rw [hu]; exact hxu)
                      rw [hname] at this; cases this
                · exact hnot "template" (by simp) hn
            · cases hq : htmlIn (nm s.dom x) ["html", "body", "head", "template"] with
              | false => rfl
              | true =>
                obtain ⟨a, ha, heq⟩ := htmlIn_eq hq
                rw [heq] at h1
                simp only [List.mem_cons, List.not_mem_nil, or_false] at ha
                rcases ha with rfl | rfl | rfl | rfl <;> (revert h1; decide)
          · unfold needTriv at hnt
            simp only [Bool.or_eq_true, beq_iff_eq] at hnt
            rcases hnt with (rfl | rfl) | rfl <;> trivial
        exact hb'.good hmode hbl


set_option synthInstance.maxHeartbeats 400000

theorem rbw_dite {W : State → Prop} {c : Prop} [Decidable c] {a b : M ProcessResult}
    (h1 : c → RBw W a) (h2 : ¬c → RBw W b) : RBw W (if c then a else b) := by
  by_cases hc : c
  · simp only [hc, if_true]; exact h1 hc
  · simp only [hc, if_false]; exact h2 hc

theorem plain_of_isOneOf {name : Str} {l : List String} (h : isOneOf name l = true)
    (hl : ∀ a ∈ l, keepName (hN a) = false) : PlainStr name := by
  unfold isOneOf at h
  simp only [List.any_eq_true, beq_iff_eq] at h
  obtain ⟨a, ha, rfl⟩ := h
  exact ⟨hl a ha⟩

macro "rbw_arm" : tactic => `(tactic| (refine rbw_dite (fun h => ?_) (fun h => ?_); rotate_left))

macro_rules
  | `(tactic| rb_step) => `(tactic| first
    | (with_reducible apply rb_table_tail) <;> assumption
    | (with_reducible apply rb_form_tail) <;> assumption
    | with_reducible exact rb_body_end
    | with_reducible exact rb_html_end
    | (with_reducible apply rb_listClose
       rotate_left
       · intro name hname
         haveI : PlainStr name := plain_of_isOneOf hname (by decide)
         dsimp only
         exact RBw.of_pbsc inferInstance)
    | (with_reducible apply RB.guardPosN) <;> exact inferInstance
    | (with_reducible apply RB.guardNegN) <;> exact inferInstance
    | (with_reducible apply RB.guardPosS) <;> exact inferInstance
    | (with_reducible apply RB.guardNegS) <;> exact inferInstance
    | (with_reducible apply RB.guardPos) <;> exact inferInstance
    | (with_reducible apply RB.guardTop) <;> exact inferInstance
    | (with_reducible apply RB.guardTopN) <;> exact inferInstance
    | exact inferInstance
    | with_reducible apply RB.bindPB
    | with_reducible apply RB.dite
    | intro _
    | (dsimp only)
    | split)

instance {β : Type} (sc : EName → Bool) [ScBase sc] (f : Unit → M β) [h : ∀ a, PB (f a)] :
    PBsc sc (namedP "p".toList) (closePElement >>= f) :=
  ⟨fun md r ph s b s'' hb hi e => by
    obtain ⟨a, s', e1, e2⟩ := bind_ok.mp e
    obtain ⟨b1, m1, o1⟩ := (inferInstance : PBsc sc (namedP "p".toList) closePElement).p md r ph s a s' hb hi e1
    obtain ⟨b2, m2, o2⟩ := (h a).p md r ph s' b s'' b1 e2
    exact ⟨b2, m2.trans m1, o2.trans o1⟩⟩

/-- the frameset arm, as a parameter for the moment -/
def FramesetArm (tag : Tag) : Prop :=
  ∀ b, RBw (IsBody b) (sinkUnit (.removeFromParent b) >>= fun _ =>
    (modS fun s => { s with openElems := s.openElems.take 1 }) >>= fun _ =>
      insertElementFor tag >>= fun _ => setMode .inFrameset >>= fun _ => pure ProcessResult.done)


end H5V.Props.C06
