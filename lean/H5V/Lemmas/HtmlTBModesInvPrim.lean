import H5V.Lemmas.HtmlTBModesInvBase
/-!
C02 (insertion modes), the invariant `Good` of the specification's run: what the helper algorithms of
`Spec.TreeModes1` / `TreeModes2` do to the parts of the state `Good` looks at (`Upd`), and when they keep
"a td/th element is in table scope" (`cellR`).
-/
set_option linter.unusedSectionVars false
set_option linter.unusedSimpArgs false
namespace H5V.Lemmas.ModesInv
open H5V.Spec H5V.Spec.TreeModes
open H5V.Spec.TreeAlgo (Str Name nsHtml nsMathml nsSvg inHtml)
open H5V.Spec.TreeAlgo2 (Elem Entry PState)

section
variable {N : Type} [DecidableEq N]

/-! ### lists -/

theorem mem_takeWhile_p {α : Type} {p : α → Bool} : ∀ {l : List α} {a : α}, a ∈ l.takeWhile p → p a = true
  | [], _, h => by simp at h
  | b :: l, a, h => by
    by_cases hb : p b = true
    · rw [List.takeWhile_cons_of_pos hb] at h
      rcases List.mem_cons.mp h with rfl | h
      · exact hb
      · exact mem_takeWhile_p h
    · rw [List.takeWhile_cons_of_neg hb] at h; cases h

theorem map_dropWhile_name (p : Name → Bool) : ∀ l : List (Elem N),
    (l.dropWhile fun e => p e.name).map (·.name) = (l.map (·.name)).dropWhile p
  | [] => rfl
  | e :: l => by
    simp only [List.dropWhile_cons, List.map_cons]
    split
    · exact map_dropWhile_name p l
    · rfl

/-- names of a stack after dropping from the top while `p` holds of the element's name -/
theorem namesOf_dropWhile (p : Name → Bool) (st : List (Elem N)) :
    namesOf (st.reverse.dropWhile fun e => p e.name).reverse = (namesOf st).dropWhile p := by
  simp only [namesOf, List.reverse_reverse]
  exact map_dropWhile_name p _

theorem reverse_take' {α : Type} (l : List α) (k : Nat) : (l.take (l.length - k)).reverse = l.reverse.drop k :=
  List.drop_reverse.symm

theorem reverse_dropLast' {α : Type} (l : List α) : l.dropLast.reverse = l.reverse.drop 1 := by
  rw [List.dropLast_eq_take, reverse_take']

theorem namesOf_dropLast (st : List (Elem N)) : namesOf st.dropLast = (namesOf st).drop 1 := by
  simp only [namesOf]
  rw [reverse_dropLast', List.map_drop]

theorem namesOf_take_drop (st : List (Elem N)) (k : Nat) : namesOf (st.take (st.length - k)) = (namesOf st).drop k := by
  simp only [namesOf]
  rw [reverse_take', List.map_drop]

/-! ### the small setters: projections (`simp` set) -/

@[simp] theorem err_mode (s : State N) (w) : (s.err w).mode = s.mode := rfl
@[simp] theorem err_orig (s : State N) (w) : (s.err w).originalMode = s.originalMode := rfl
@[simp] theorem err_tms (s : State N) (w) : (s.err w).templateModes = s.templateModes := rfl
@[simp] theorem err_stopped (s : State N) (w) : (s.err w).stopped = s.stopped := rfl
@[simp] theorem err_p (s : State N) (w) : (s.err w).p = s.p := rfl
@[simp] theorem err_names (s : State N) (w) : (s.err w).names = s.names := rfl

@[simp] theorem xop_mode (s : State N) (o) : (s.xop o).mode = s.mode := rfl
@[simp] theorem xop_orig (s : State N) (o) : (s.xop o).originalMode = s.originalMode := rfl
@[simp] theorem xop_tms (s : State N) (o) : (s.xop o).templateModes = s.templateModes := rfl
@[simp] theorem xop_stopped (s : State N) (o) : (s.xop o).stopped = s.stopped := rfl
@[simp] theorem xop_p (s : State N) (o) : (s.xop o).p = s.p := rfl

@[simp] theorem setStack_mode (s : State N) (st) : (s.setStack st).mode = s.mode := rfl
@[simp] theorem setStack_orig (s : State N) (st) : (s.setStack st).originalMode = s.originalMode := rfl
@[simp] theorem setStack_tms (s : State N) (st) : (s.setStack st).templateModes = s.templateModes := rfl
@[simp] theorem setStack_stopped (s : State N) (st) : (s.setStack st).stopped = s.stopped := rfl
@[simp] theorem setStack_stack (s : State N) (st) : (s.setStack st).p.stack = st := rfl
@[simp] theorem setStack_list (s : State N) (st) : (s.setStack st).p.list = s.p.list := rfl
@[simp] theorem setStack_form (s : State N) (st) : (s.setStack st).p.formPointer = s.p.formPointer := rfl
@[simp] theorem setStack_names (s : State N) (st) : (s.setStack st).names = namesOf st := rfl

@[simp] theorem setList_mode (s : State N) (l) : (s.setList l).mode = s.mode := rfl
@[simp] theorem setList_orig (s : State N) (l) : (s.setList l).originalMode = s.originalMode := rfl
@[simp] theorem setList_tms (s : State N) (l) : (s.setList l).templateModes = s.templateModes := rfl
@[simp] theorem setList_stopped (s : State N) (l) : (s.setList l).stopped = s.stopped := rfl
@[simp] theorem setList_stack (s : State N) (l) : (s.setList l).p.stack = s.p.stack := rfl
@[simp] theorem setList_list (s : State N) (l) : (s.setList l).p.list = l := rfl
@[simp] theorem setList_names (s : State N) (l) : (s.setList l).names = s.names := rfl

@[simp] theorem setMode_mode (s : State N) (m) : (s.setMode m).mode = m := rfl
@[simp] theorem setMode_orig (s : State N) (m) : (s.setMode m).originalMode = s.originalMode := rfl
@[simp] theorem setMode_tms (s : State N) (m) : (s.setMode m).templateModes = s.templateModes := rfl
@[simp] theorem setMode_stopped (s : State N) (m) : (s.setMode m).stopped = s.stopped := rfl
@[simp] theorem setMode_p (s : State N) (m) : (s.setMode m).p = s.p := rfl
@[simp] theorem setMode_names (s : State N) (m) : (s.setMode m).names = s.names := rfl

@[simp] theorem setFoster_mode (s : State N) (b) : (s.setFoster b).mode = s.mode := rfl
@[simp] theorem setFoster_orig (s : State N) (b) : (s.setFoster b).originalMode = s.originalMode := rfl
@[simp] theorem setFoster_tms (s : State N) (b) : (s.setFoster b).templateModes = s.templateModes := rfl
@[simp] theorem setFoster_stopped (s : State N) (b) : (s.setFoster b).stopped = s.stopped := rfl
@[simp] theorem setFoster_stack (s : State N) (b) : (s.setFoster b).p.stack = s.p.stack := rfl
@[simp] theorem setFoster_list (s : State N) (b) : (s.setFoster b).p.list = s.p.list := rfl
@[simp] theorem setFoster_form (s : State N) (b) : (s.setFoster b).p.formPointer = s.p.formPointer := rfl
@[simp] theorem setFoster_names (s : State N) (b) : (s.setFoster b).names = s.names := rfl

@[simp] theorem setForm_mode (s : State N) (f) : (s.setForm f).mode = s.mode := rfl
@[simp] theorem setForm_orig (s : State N) (f) : (s.setForm f).originalMode = s.originalMode := rfl
@[simp] theorem setForm_tms (s : State N) (f) : (s.setForm f).templateModes = s.templateModes := rfl
@[simp] theorem setForm_stopped (s : State N) (f) : (s.setForm f).stopped = s.stopped := rfl
@[simp] theorem setForm_stack (s : State N) (f) : (s.setForm f).p.stack = s.p.stack := rfl
@[simp] theorem setForm_list (s : State N) (f) : (s.setForm f).p.list = s.p.list := rfl
@[simp] theorem setForm_names (s : State N) (f) : (s.setForm f).names = s.names := rfl

@[simp] theorem notOk_mode (s : State N) : s.notOk.mode = s.mode := rfl
@[simp] theorem notOk_orig (s : State N) : s.notOk.originalMode = s.originalMode := rfl
@[simp] theorem notOk_tms (s : State N) : s.notOk.templateModes = s.templateModes := rfl
@[simp] theorem notOk_stopped (s : State N) : s.notOk.stopped = s.stopped := rfl
@[simp] theorem notOk_p (s : State N) : s.notOk.p = s.p := rfl
@[simp] theorem notOk_names (s : State N) : s.notOk.names = s.names := rfl

@[simp] theorem switchTokenizer_mode (s : State N) (t) : (s.switchTokenizer t).mode = s.mode := rfl
@[simp] theorem switchTokenizer_orig (s : State N) (t) : (s.switchTokenizer t).originalMode = s.originalMode := rfl
@[simp] theorem switchTokenizer_tms (s : State N) (t) : (s.switchTokenizer t).templateModes = s.templateModes := rfl
@[simp] theorem switchTokenizer_stopped (s : State N) (t) : (s.switchTokenizer t).stopped = s.stopped := rfl
@[simp] theorem switchTokenizer_p (s : State N) (t) : (s.switchTokenizer t).p = s.p := rfl
@[simp] theorem switchTokenizer_names (s : State N) (t) : (s.switchTokenizer t).names = s.names := rfl

@[simp] theorem ack_mode (s : State N) (t) : (s.ack t).mode = s.mode := by unfold State.ack; split <;> rfl
@[simp] theorem ack_orig (s : State N) (t) : (s.ack t).originalMode = s.originalMode := by unfold State.ack; split <;> rfl
@[simp] theorem ack_tms (s : State N) (t) : (s.ack t).templateModes = s.templateModes := by unfold State.ack; split <;> rfl
@[simp] theorem ack_stopped (s : State N) (t) : (s.ack t).stopped = s.stopped := by unfold State.ack; split <;> rfl
@[simp] theorem ack_p (s : State N) (t) : (s.ack t).p = s.p := by unfold State.ack; split <;> rfl
@[simp] theorem ack_names (s : State N) (t) : (s.ack t).names = s.names := by unfold State.ack; split <;> rfl

@[simp] theorem pop_mode (s : State N) : s.pop.mode = s.mode := rfl
@[simp] theorem pop_orig (s : State N) : s.pop.originalMode = s.originalMode := rfl
@[simp] theorem pop_tms (s : State N) : s.pop.templateModes = s.templateModes := rfl
@[simp] theorem pop_stopped (s : State N) : s.pop.stopped = s.stopped := rfl
@[simp] theorem pop_stack (s : State N) : s.pop.p.stack = s.p.stack.dropLast := rfl
@[simp] theorem pop_list (s : State N) : s.pop.p.list = s.p.list := rfl
@[simp] theorem pop_names (s : State N) : s.pop.names = s.names.drop 1 := namesOf_dropLast _

@[simp] theorem insertMarker_mode (s : State N) : s.insertMarker.mode = s.mode := rfl
@[simp] theorem insertMarker_orig (s : State N) : s.insertMarker.originalMode = s.originalMode := rfl
@[simp] theorem insertMarker_tms (s : State N) : s.insertMarker.templateModes = s.templateModes := rfl
@[simp] theorem insertMarker_stopped (s : State N) : s.insertMarker.stopped = s.stopped := rfl
@[simp] theorem insertMarker_stack (s : State N) : s.insertMarker.p.stack = s.p.stack := rfl
@[simp] theorem insertMarker_list (s : State N) : s.insertMarker.p.list = s.p.list ++ [.marker] := rfl
@[simp] theorem insertMarker_names (s : State N) : s.insertMarker.names = s.names := rfl

@[simp] theorem clearToLastMarker_mode (s : State N) : s.clearToLastMarker.mode = s.mode := rfl
@[simp] theorem clearToLastMarker_orig (s : State N) : s.clearToLastMarker.originalMode = s.originalMode := rfl
@[simp] theorem clearToLastMarker_tms (s : State N) : s.clearToLastMarker.templateModes = s.templateModes := rfl
@[simp] theorem clearToLastMarker_stopped (s : State N) : s.clearToLastMarker.stopped = s.stopped := rfl
@[simp] theorem clearToLastMarker_stack (s : State N) : s.clearToLastMarker.p.stack = s.p.stack := rfl
@[simp] theorem clearToLastMarker_list (s : State N) :
    s.clearToLastMarker.p.list = TreeAlgo2.clearToLastMarker s.p.list := rfl
@[simp] theorem clearToLastMarker_names (s : State N) : s.clearToLastMarker.names = s.names := rfl

/-! ### the list of active formatting elements -/

theorem AFOk.sub {l l' : List (Entry N ETok)} (h : AFOk l) (hs : ∀ x ∈ l', x ∈ l) : AFOk l' :=
  fun n t hm => h n t (hs _ hm)

theorem AFOk.nil : AFOk ([] : List (Entry N ETok)) := fun _ _ h => by cases h

theorem AFOk.eraseIdx {l : List (Entry N ETok)} (h : AFOk l) (i : Nat) : AFOk (l.eraseIdx i) :=
  h.sub fun _ hx => List.mem_of_mem_eraseIdx hx

theorem AFOk.marker {l : List (Entry N ETok)} (h : AFOk l) : AFOk (l ++ [.marker]) := by
  intro n t hm
  rcases List.mem_append.mp hm with hm | hm
  · exact h n t hm
  · simp at hm

theorem AFOk.snoc {l : List (Entry N ETok)} (h : AFOk l) {n : N} {t : ETok} (ht : fmtN t.name = true) :
    AFOk (l ++ [.element n t]) := by
  intro n' t' hm
  rcases List.mem_append.mp hm with hm | hm
  · exact h n' t' hm
  · simp only [List.mem_singleton] at hm
    cases hm; exact ht

theorem mem_clearRev {x : Entry N ETok} : ∀ {l : List (Entry N ETok)}, x ∈ TreeAlgo2.clearRev l → x ∈ l
  | [], h => h
  | e :: rest, h => by
    unfold TreeAlgo2.clearRev at h
    split at h
    · exact List.mem_cons_of_mem _ h
    · exact List.mem_cons_of_mem _ (mem_clearRev h)

theorem AFOk.clear {l : List (Entry N ETok)} (h : AFOk l) : AFOk (TreeAlgo2.clearToLastMarker l) :=
  h.sub fun x hx => by
    unfold TreeAlgo2.clearToLastMarker at hx
    have := mem_clearRev (List.mem_reverse.mp hx)
    exact List.mem_reverse.mp this

theorem AFOk.set {l : List (Entry N ETok)} (h : AFOk l) {i : Nat} {n : N} {t : ETok} (ht : fmtN t.name = true) :
    AFOk (l.set i (.element n t)) := by
  intro n' t' hm
  rcases List.mem_or_eq_of_mem_set hm with hm | hm
  · exact h n' t' hm
  · cases hm; exact ht

theorem AFOk.getElem {l : List (Entry N ETok)} (h : AFOk l) {i : Nat} {n : N} {t : ETok}
    (hi : l[i]? = some (.element n t)) : fmtN t.name = true :=
  h n t (List.mem_of_getElem? hi)

theorem AFOk.insertIdx {l : List (Entry N ETok)} (h : AFOk l) (i : Nat) {n : N} {t : ETok} (ht : fmtN t.name = true) :
    AFOk (l.insertIdx i (.element n t)) := by
  intro n' t' hm
  by_cases hi : i ≤ l.length
  · rcases (List.mem_insertIdx hi).mp hm with hm | hm
    · cases hm; exact ht
    · exact h n' t' hm
  · rw [List.insertIdx_of_length_lt (by omega)] at hm
    exact h n' t' hm

theorem mem_removeEarliest {E : Type} {p : E → Bool} {x : Option E} :
    ∀ {l : List (Option E)}, x ∈ TreeAlgo.removeEarliestAfterMarker p l → x ∈ l
  | [], h => by simp [TreeAlgo.removeEarliestAfterMarker] at h
  | none :: rest, h => by
    unfold TreeAlgo.removeEarliestAfterMarker at h
    rcases List.mem_cons.mp h with h | h
    · exact h ▸ List.mem_cons_self ..
    · exact List.mem_cons_of_mem _ (mem_removeEarliest h)
  | some e :: rest, h => by
    unfold TreeAlgo.removeEarliestAfterMarker at h
    split at h
    · rcases List.mem_cons.mp h with h | h
      · exact h ▸ List.mem_cons_self ..
      · exact List.mem_cons_of_mem _ (mem_removeEarliest h)
    · split at h
      · exact List.mem_cons_of_mem _ h
      · rcases List.mem_cons.mp h with h | h
        · exact h ▸ List.mem_cons_self ..
        · exact List.mem_cons_of_mem _ (mem_removeEarliest h)

/-- "push onto the list of active formatting elements" a formatting start tag -/
theorem AFOk.push {s : State N} (h : AFOk s.p.list) (e : Elem N) {t : Tag} (ht : fmtN t.name = true) :
    AFOk (pushFormatting s e t).p.list := by
  intro n tok hm
  simp only [pushFormatting, setList_list, List.mem_map] at hm
  obtain ⟨o, ho, he⟩ := hm
  unfold TreeAlgo.noahPush at ho
  rcases List.mem_append.mp ho with ho | ho
  · have ho' : o ∈ s.p.list.map entryToOpt := by
      split at ho
      · exact mem_removeEarliest ho
      · exact ho
    obtain ⟨x, hx, hxo⟩ := List.mem_map.mp ho'
    cases x with
    | marker => subst hxo; cases he
    | element n' t' =>
      subst hxo
      simp only [entryToOpt, optToEntry] at he
      cases he
      exact h n tok hx
  · simp only [List.mem_singleton] at ho
    subst ho
    simp only [optToEntry] at he
    cases he
    exact ht

@[simp] theorem pushFormatting_mode (s : State N) (e t) : (pushFormatting s e t).mode = s.mode := rfl
@[simp] theorem pushFormatting_orig (s : State N) (e t) : (pushFormatting s e t).originalMode = s.originalMode := rfl
@[simp] theorem pushFormatting_tms (s : State N) (e t) : (pushFormatting s e t).templateModes = s.templateModes := rfl
@[simp] theorem pushFormatting_stopped (s : State N) (e t) : (pushFormatting s e t).stopped = s.stopped := rfl
@[simp] theorem pushFormatting_stack (s : State N) (e t) : (pushFormatting s e t).p.stack = s.p.stack := rfl
@[simp] theorem pushFormatting_names (s : State N) (e t) : (pushFormatting s e t).names = s.names := rfl

/-! ### popping: the element types after the pop -/

@[simp] theorem genImplied_mode (s : State N) (ex) : (genImplied s ex).mode = s.mode := rfl
@[simp] theorem genImplied_orig (s : State N) (ex) : (genImplied s ex).originalMode = s.originalMode := rfl
@[simp] theorem genImplied_tms (s : State N) (ex) : (genImplied s ex).templateModes = s.templateModes := rfl
@[simp] theorem genImplied_stopped (s : State N) (ex) : (genImplied s ex).stopped = s.stopped := rfl
@[simp] theorem genImplied_list (s : State N) (ex) : (genImplied s ex).p.list = s.p.list := rfl
@[simp] theorem genImplied_form (s : State N) (ex) : (genImplied s ex).p.formPointer = s.p.formPointer := rfl
theorem genImplied_names (s : State N) (ex : Option String) :
    (genImplied s ex).names = s.names.dropWhile (TreeAlgo.impliedEndTag (ex.map String.toList)) :=
  namesOf_dropWhile _ _

@[simp] theorem genImpliedExceptStr_mode (s : State N) (ex) : (genImpliedExceptStr s ex).mode = s.mode := rfl
@[simp] theorem genImpliedExceptStr_orig (s : State N) (ex) : (genImpliedExceptStr s ex).originalMode = s.originalMode := rfl
@[simp] theorem genImpliedExceptStr_tms (s : State N) (ex) : (genImpliedExceptStr s ex).templateModes = s.templateModes := rfl
@[simp] theorem genImpliedExceptStr_stopped (s : State N) (ex) : (genImpliedExceptStr s ex).stopped = s.stopped := rfl
@[simp] theorem genImpliedExceptStr_list (s : State N) (ex) : (genImpliedExceptStr s ex).p.list = s.p.list := rfl
theorem genImpliedExceptStr_names (s : State N) (ex : Str) :
    (genImpliedExceptStr s ex).names = s.names.dropWhile (TreeAlgo.impliedEndTag (some ex)) :=
  namesOf_dropWhile _ _

/-- an element that has an implied end tag is not a `td`/`th` -/
theorem impliedEndTag_noTd {ex : Option Str} {n : Name} (h : TreeAlgo.impliedEndTag ex n = true) : tdThN n = false := by
  simp only [TreeAlgo.impliedEndTag, Bool.and_eq_true] at h
  have h1 := h.1
  simp only [inHtml, TreeTables.impliedEnd, Bool.and_eq_true, List.any_eq_true, beq_iff_eq] at h1
  obtain ⟨_, x, hx, hxn⟩ := h1
  cases hc : tdThN n
  · rfl
  · exfalso
    simp only [tdThN, inHtml, Bool.and_eq_true, List.any_eq_true, beq_iff_eq] at hc
    obtain ⟨_, y, hy, hyn⟩ := hc
    have : x.toList = y.toList := hxn.trans hyn.symm
    simp only [List.mem_cons, List.mem_nil_iff, or_false] at hx hy
    rcases hx with rfl | rfl | rfl | rfl | rfl | rfl | rfl | rfl | rfl | rfl <;> rcases hy with rfl | rfl <;>
      revert this <;> decide

/-- "generate implied end tags" keeps "td/th in table scope" -/
theorem cellR_genImplied {s : State N} (ex : Option String) (h : cellR s.names = true) :
    cellR (genImplied s ex).names = true := by
  rw [genImplied_names]
  exact cellR_dropWhile (fun n hn => impliedEndTag_noTd (mem_takeWhile_p hn)) h

theorem cellR_genImpliedExceptStr {s : State N} (ex : Str) (h : cellR s.names = true) :
    cellR (genImpliedExceptStr s ex).names = true := by
  rw [genImpliedExceptStr_names]
  exact cellR_dropWhile (fun n hn => impliedEndTag_noTd (mem_takeWhile_p hn)) h

theorem namesOf_popUntilPopped (p : Name → Bool) (st : List (Elem N)) :
    namesOf (TreeAlgo2.popUntilPopped (fun e => p e.name) st) = ((namesOf st).dropWhile fun n => !p n).drop 1 := by
  unfold TreeAlgo2.popUntilPopped
  simp only [namesOf, List.reverse_reverse]
  rw [List.map_drop, map_dropWhile_name (fun n => !p n)]

@[simp] theorem popUntilPopped_mode (s : State N) (n) : (popUntilPopped s n).mode = s.mode := rfl
@[simp] theorem popUntilPopped_orig (s : State N) (n) : (popUntilPopped s n).originalMode = s.originalMode := rfl
@[simp] theorem popUntilPopped_tms (s : State N) (n) : (popUntilPopped s n).templateModes = s.templateModes := rfl
@[simp] theorem popUntilPopped_stopped (s : State N) (n) : (popUntilPopped s n).stopped = s.stopped := rfl
@[simp] theorem popUntilPopped_list (s : State N) (n) : (popUntilPopped s n).p.list = s.p.list := rfl
theorem popUntilPopped_names (s : State N) (n : String) :
    (popUntilPopped s n).names = (s.names.dropWhile fun m => !m.isHtml n).drop 1 :=
  namesOf_popUntilPopped (fun m => m.isHtml n) _

@[simp] theorem popUntilPoppedStr_mode (s : State N) (n) : (popUntilPoppedStr s n).mode = s.mode := rfl
@[simp] theorem popUntilPoppedStr_orig (s : State N) (n) : (popUntilPoppedStr s n).originalMode = s.originalMode := rfl
@[simp] theorem popUntilPoppedStr_tms (s : State N) (n) : (popUntilPoppedStr s n).templateModes = s.templateModes := rfl
@[simp] theorem popUntilPoppedStr_stopped (s : State N) (n) : (popUntilPoppedStr s n).stopped = s.stopped := rfl
@[simp] theorem popUntilPoppedStr_list (s : State N) (n) : (popUntilPoppedStr s n).p.list = s.p.list := rfl
theorem popUntilPoppedStr_names (s : State N) (n : Str) :
    (popUntilPoppedStr s n).names = (s.names.dropWhile fun m => !isNamed n m).drop 1 :=
  namesOf_popUntilPopped (fun m => isNamed n m) _

@[simp] theorem popUntilPoppedAny_mode (s : State N) (l) : (popUntilPoppedAny s l).mode = s.mode := rfl
@[simp] theorem popUntilPoppedAny_orig (s : State N) (l) : (popUntilPoppedAny s l).originalMode = s.originalMode := rfl
@[simp] theorem popUntilPoppedAny_tms (s : State N) (l) : (popUntilPoppedAny s l).templateModes = s.templateModes := rfl
@[simp] theorem popUntilPoppedAny_stopped (s : State N) (l) : (popUntilPoppedAny s l).stopped = s.stopped := rfl
@[simp] theorem popUntilPoppedAny_list (s : State N) (l) : (popUntilPoppedAny s l).p.list = s.p.list := rfl
theorem popUntilPoppedAny_names (s : State N) (l : List String) :
    (popUntilPoppedAny s l).names = (s.names.dropWhile fun m => !inHtml l m).drop 1 :=
  namesOf_popUntilPopped (fun m => inHtml l m) _

/-- popping until a target has been popped: if the target is in a scope whose list has `td`, `th`, and the target
itself is not a `td`/`th`, "td/th in table scope" survives -/
theorem cellR_popUntil {isTarget list : Name → Bool} (hl : ∀ n, tdThN n = true → list n = true)
    (ht : ∀ n, isTarget n = true → tdThN n = false) {l : List Name}
    (hs : TreeAlgo.hasInScope isTarget list l = true) (h : cellR l = true) :
    cellR ((l.dropWhile fun n => !isTarget n).drop 1) = true := by
  have h1 := cellR_dropWhile (p := fun n => !isTarget n) (noTd_above_target hl hs) h
  cases hd : l.dropWhile (fun n => !isTarget n) with
  | nil => rw [hd] at h1; cases h1
  | cons m rest =>
    rw [hd] at h1
    have hm : isTarget m = true := by
      have := List.head_dropWhile_not (p := fun n => !isTarget n) (l := l) (by rw [hd]; simp)
      simpa [hd] using this
    exact cellR_drop 1 (by intro n hn; simp at hn; subst hn; exact ht _ hm) h1

/-- the element types of the scope list of "has an element in scope" (any edition) include `td`, `th` -/
theorem defaultScope_td (cfg : Config N) (hed : cfg.edition = .customizableSelect) (n : Name) (h : tdThN n = true) :
    scopeList cfg TreeAlgo.defaultScopeList n = true := by
  simp only [tdThN, inHtml, Bool.and_eq_true, List.any_cons, List.any_nil, Bool.or_false, Bool.or_eq_true, beq_iff_eq] at h
  obtain ⟨hns, hl⟩ := h
  cases n with
  | mk ns loc =>
    simp only at hns hl
    subst hns
    simp only [scopeList, hed]
    rcases hl with hl | hl <;> subst hl <;> decide

theorem buttonScope_td (cfg : Config N) (hed : cfg.edition = .customizableSelect) (n : Name) (h : tdThN n = true) :
    scopeList cfg TreeAlgo.buttonScopeList n = true := by
  simp only [tdThN, inHtml, Bool.and_eq_true, List.any_cons, List.any_nil, Bool.or_false, Bool.or_eq_true, beq_iff_eq] at h
  obtain ⟨hns, hl⟩ := h
  cases n with
  | mk ns loc =>
    simp only at hns hl
    subst hns
    simp only [scopeList, hed]
    rcases hl with hl | hl <;> subst hl <;> decide

theorem listItemScope_td (cfg : Config N) (hed : cfg.edition = .customizableSelect) (n : Name) (h : tdThN n = true) :
    scopeList cfg TreeAlgo.listItemScopeList n = true := by
  simp only [tdThN, inHtml, Bool.and_eq_true, List.any_cons, List.any_nil, Bool.or_false, Bool.or_eq_true, beq_iff_eq] at h
  obtain ⟨hns, hl⟩ := h
  cases n with
  | mk ns loc =>
    simp only at hns hl
    subst hns
    simp only [scopeList, hed]
    rcases hl with hl | hl <;> subst hl <;> decide

/-- `isNamed x` is not a td/th when `x` is neither -/
theorem isNamed_noTd {x : Str} (hx : x ≠ "td".toList ∧ x ≠ "th".toList) (n : Name) (h : isNamed x n = true) :
    tdThN n = false := by
  simp only [isNamed, Bool.and_eq_true, beq_iff_eq] at h
  cases hc : tdThN n
  · rfl
  · exfalso
    simp only [tdThN, inHtml, Bool.and_eq_true, List.any_cons, List.any_nil, Bool.or_false, Bool.or_eq_true, beq_iff_eq] at hc
    rcases hc.2 with hc | hc
    · exact hx.1 (h.2 ▸ hc.symm)
    · exact hx.2 (h.2 ▸ hc.symm)

theorem isHtml_eq_isNamed (n : Name) (x : String) : n.isHtml x = isNamed x.toList n := rfl

/-- "pop until an `x` element has been popped", `x` in scope (default list), `x` not td/th -/
theorem cellR_popUntilPopped_inScope (cfg : Config N) (hed : cfg.edition = .customizableSelect) {s : State N} {x : String}
    (hx : x.toList ≠ "td".toList ∧ x.toList ≠ "th".toList) (hs : hasInScope cfg s x = true) (h : cellR s.names = true) :
    cellR (popUntilPopped s x).names = true := by
  rw [popUntilPopped_names]
  exact cellR_popUntil (isTarget := isNamed x.toList) (defaultScope_td cfg hed) (isNamed_noTd hx) hs h

theorem cellR_popUntilPoppedStr_inScope (cfg : Config N) (hed : cfg.edition = .customizableSelect) {s : State N} {x : Str}
    (hx : x ≠ "td".toList ∧ x ≠ "th".toList) (hs : hasStrInScope cfg s x = true) (h : cellR s.names = true) :
    cellR (popUntilPoppedStr s x).names = true := by
  rw [popUntilPoppedStr_names]
  exact cellR_popUntil (isTarget := isNamed x) (defaultScope_td cfg hed) (isNamed_noTd hx) hs h

/-! ### "close a p element" -/

@[simp] theorem closeP_mode (s : State N) : (closeP s).mode = s.mode := by unfold closeP; dsimp only; split <;> rfl
@[simp] theorem closeP_orig (s : State N) : (closeP s).originalMode = s.originalMode := by unfold closeP; dsimp only; split <;> rfl
@[simp] theorem closeP_tms (s : State N) : (closeP s).templateModes = s.templateModes := by unfold closeP; dsimp only; split <;> rfl
@[simp] theorem closeP_stopped (s : State N) : (closeP s).stopped = s.stopped := by unfold closeP; dsimp only; split <;> rfl
@[simp] theorem closeP_list (s : State N) : (closeP s).p.list = s.p.list := by unfold closeP; dsimp only; split <;> rfl
theorem closeP_names (s : State N) :
    (closeP s).names = ((s.names.dropWhile (TreeAlgo.impliedEndTag (some "p".toList))).dropWhile fun m => !m.isHtml "p").drop 1 := by
  have : (closeP s).names = namesOf (TreeAlgo2.closePElement s.p.stack) := by unfold closeP; dsimp only; split <;> rfl
  rw [this]
  unfold TreeAlgo2.closePElement
  rw [namesOf_popUntilPopped (fun m => m.isHtml "p")]
  unfold TreeAlgo2.generateImpliedEndTags
  rw [namesOf_dropWhile]
  rfl

theorem hasInScope_cons (isTarget list : Name → Bool) (n : Name) (l : List Name) :
    TreeAlgo.hasInScope isTarget list (n :: l) =
      if isTarget n then true else if list n then false else TreeAlgo.hasInScope isTarget list l := rfl

theorem hasInScope_dropWhile {isTarget list p : Name → Bool} (hp : ∀ n, p n = true → isTarget n = false ∧ list n = false) :
    ∀ (l : List Name), TreeAlgo.hasInScope isTarget list (l.dropWhile p) = TreeAlgo.hasInScope isTarget list l
  | [] => rfl
  | n :: l => by
    by_cases h : p n = true
    · rw [List.dropWhile_cons_of_pos h, hasInScope_dropWhile hp l, hasInScope_cons, (hp n h).1, (hp n h).2]
      simp
    · rw [List.dropWhile_cons_of_neg h]

/-- "If the stack of open elements has a p element in button scope, then close a p element." keeps "td/th in
table scope" -/
theorem cellR_closePIfInButtonScope (cfg : Config N) (hed : cfg.edition = .customizableSelect) {s : State N}
    (h : cellR s.names = true) : cellR (closePIfInButtonScope cfg s).names = true := by
  unfold closePIfInButtonScope
  split
  · rename_i hs
    rw [closeP_names]
    have h1 : cellR (s.names.dropWhile (TreeAlgo.impliedEndTag (some "p".toList))) = true :=
      cellR_dropWhile (fun n hn => impliedEndTag_noTd (mem_takeWhile_p hn)) h
    refine cellR_popUntil (isTarget := isNamed "p".toList) (list := scopeList cfg TreeAlgo.buttonScopeList)
      (buttonScope_td cfg hed) (isNamed_noTd (by decide)) ?_ h1
    unfold hasInButtonScope at hs
    rw [hasInScope_dropWhile]
    · exact hs
    · intro n hn
      simp only [TreeAlgo.impliedEndTag, Bool.and_eq_true, Bool.not_eq_true', Bool.and_eq_false_iff] at hn
      obtain ⟨h1, h2⟩ := hn
      simp only [inHtml, TreeTables.impliedEnd, Bool.and_eq_true, List.any_eq_true, beq_iff_eq] at h1
      obtain ⟨hns, x, hx, hxn⟩ := h1
      cases n with
      | mk ns loc =>
        simp only at hns hxn h2
        subst hns hxn
        simp only [List.mem_cons, List.mem_nil_iff, or_false] at hx
        simp only [scopeList, hed, isNamed]
        rcases hx with rfl | rfl | rfl | rfl | rfl | rfl | rfl | rfl | rfl | rfl <;>
          first
          | exact ⟨by decide, by decide⟩
          | (exfalso; revert h2; decide)
  · exact h

@[simp] theorem closePIfInButtonScope_mode (cfg : Config N) (s : State N) : (closePIfInButtonScope cfg s).mode = s.mode := by
  unfold closePIfInButtonScope; split <;> simp
@[simp] theorem closePIfInButtonScope_orig (cfg : Config N) (s : State N) :
    (closePIfInButtonScope cfg s).originalMode = s.originalMode := by unfold closePIfInButtonScope; split <;> simp
@[simp] theorem closePIfInButtonScope_tms (cfg : Config N) (s : State N) :
    (closePIfInButtonScope cfg s).templateModes = s.templateModes := by unfold closePIfInButtonScope; split <;> simp
@[simp] theorem closePIfInButtonScope_stopped (cfg : Config N) (s : State N) :
    (closePIfInButtonScope cfg s).stopped = s.stopped := by unfold closePIfInButtonScope; split <;> simp
@[simp] theorem closePIfInButtonScope_list (cfg : Config N) (s : State N) :
    (closePIfInButtonScope cfg s).p.list = s.p.list := by unfold closePIfInButtonScope; split <;> simp

/-! ### inserting -/

theorem insertForeignElement_eff {cxx : TreeAlgo2.Ctx ETok} {st st' : PState N ETok} {tok : ETok} {ns : Str} {b : Bool} {e : Elem N}
    (h : TreeAlgo2.insertForeignElement cxx st tok ns b = some (st', e)) :
    e.name = ⟨ns, cxx.tokName tok⟩ ∧ st.stack ≠ [] ∧ st'.stack = st.stack ++ [e] ∧ st'.list = st.list ∧
      st'.formPointer = st.formPointer := by
  unfold TreeAlgo2.insertForeignElement at h
  cases hp : TreeAlgo2.appropriatePlace st.stack st.fosterParenting none with
  | none => rw [hp] at h; cases h
  | some loc =>
    rw [hp] at h
    have hne : st.stack ≠ [] := by
      intro he
      unfold TreeAlgo2.appropriatePlace at hp
      rw [he] at hp
      simp at hp
    cases hn : st.newNode with
    | none => rw [hn] at h; cases h
    | some r =>
      obtain ⟨n, st1⟩ := r
      rw [hn] at h
      have h1 : st1.stack = st.stack ∧ st1.list = st.list ∧ st1.formPointer = st.formPointer := by
        unfold PState.newNode at hn
        split at hn
        · cases hn
        · cases hn; exact ⟨rfl, rfl, rfl⟩
      simp only [Option.bind_some, Option.map_some, Option.some.injEq, Prod.mk.injEq] at h
      obtain ⟨h2, h3⟩ := h
      subst h3 h2
      exact ⟨rfl, hne, by simp [h1.1], h1.2.1, h1.2.2⟩

/-- "insert an HTML element for the token" -/
theorem insertHtml_eff {s s' : State N} {t : Tag} {e : Elem N} (h : insertHtml s t = .ok (s', e)) :
    e.name = ⟨nsHtml, t.name⟩ ∧ s.p.stack ≠ [] ∧ Upd s s' (s.p.stack ++ [e]) s.p.list ∧
      s'.p.formPointer = s.p.formPointer := by
  unfold insertHtml at h
  obtain ⟨r, hr, h2⟩ := bind_ok h
  have hr' := req_ok hr
  obtain ⟨r1, r2⟩ := r
  obtain ⟨a, b, c, d, f⟩ := insertForeignElement_eff (show TreeAlgo2.insertForeignElement cx s.p t.etok nsHtml false = some (r1, r2) from hr')
  cases pure_ok h2
  exact ⟨a, b, ⟨rfl, rfl, rfl, rfl, c, d⟩, f⟩

theorem insertHtml'_eff {s s' : State N} {t : Tag} (h : insertHtml' s t = .ok s') :
    ∃ e : Elem N, e.name = ⟨nsHtml, t.name⟩ ∧ s.p.stack ≠ [] ∧ Upd s s' (s.p.stack ++ [e]) s.p.list ∧
      s'.p.formPointer = s.p.formPointer := by
  unfold insertHtml' at h
  obtain ⟨r, hr, h2⟩ := bind_ok h
  obtain ⟨r1, r2⟩ := r
  cases pure_ok h2
  exact ⟨r2, insertHtml_eff hr⟩

/-- "insert an HTML element, immediately pop it" -/
theorem insertVoid_eff {s s' : State N} {t : Tag} (h : insertVoid s t = .ok s') :
    s.p.stack ≠ [] ∧ Upd s s' s.p.stack s.p.list := by
  unfold insertVoid at h
  obtain ⟨s1, hr, h2⟩ := bind_ok h
  obtain ⟨e, _, hne, hu, _⟩ := insertHtml'_eff hr
  cases pure_ok h2
  refine ⟨hne, ?_⟩
  constructor <;> simp [hu.mode, hu.orig, hu.tms, hu.stopped, hu.stack, hu.list]

theorem insertChar_eff {s s' : State N} {c : Char} (h : insertChar s c = .ok s') : Upd s s' s.p.stack s.p.list := by
  unfold insertChar at h
  obtain ⟨p, hr, h2⟩ := bind_ok h
  have hr' := req_ok hr
  cases pure_ok h2
  unfold TreeAlgo2.insertCharacters at hr'
  cases hp : TreeAlgo2.appropriatePlace s.p.stack s.p.fosterParenting none with
  | none => rw [hp] at hr'; cases hr'
  | some loc => rw [hp] at hr'; cases hr'; exact ⟨rfl, rfl, rfl, rfl, rfl, rfl⟩

theorem insertChars_eff {s s' : State N} {cs : Str} (h : insertChars s cs = .ok s') : Upd s s' s.p.stack s.p.list := by
  unfold insertChars at h
  split at h
  · cases pure_ok h; exact Upd.refl s
  · obtain ⟨p, hr, h2⟩ := bind_ok h
    have hr' := req_ok hr
    cases pure_ok h2
    unfold TreeAlgo2.insertCharacters at hr'
    cases hp : TreeAlgo2.appropriatePlace s.p.stack s.p.fosterParenting none with
    | none => rw [hp] at hr'; cases hr'
    | some loc => rw [hp] at hr'; cases hr'; exact ⟨rfl, rfl, rfl, rfl, rfl, rfl⟩

theorem insertComment_eff {s s' : State N} {d : Str} (h : insertComment s d = .ok s') : Upd s s' s.p.stack s.p.list := by
  unfold insertComment at h
  obtain ⟨p, hr, h2⟩ := bind_ok h
  have hr' := req_ok hr
  cases pure_ok h2
  unfold TreeAlgo2.insertComment at hr'
  cases hp : TreeAlgo2.appropriatePlace s.p.stack s.p.fosterParenting none with
  | none => rw [hp] at hr'; cases hr'
  | some loc =>
    rw [hp] at hr'
    cases hn : s.p.newNode with
    | none => rw [hn] at hr'; cases hr'
    | some r =>
      rw [hn] at hr'
      obtain ⟨n, st1⟩ := r
      have h1 : st1.stack = s.p.stack ∧ st1.list = s.p.list := by
        unfold PState.newNode at hn
        split at hn
        · cases hn
        · cases hn; exact ⟨rfl, rfl⟩
      cases hr'
      exact ⟨rfl, rfl, rfl, rfl, h1.1, h1.2⟩

theorem insertCommentIn_eff {s s' : State N} {x : N} {d : Str} (h : insertCommentIn s x d = .ok s') :
    Upd s s' s.p.stack s.p.list := by
  unfold insertCommentIn at h
  obtain ⟨p, hr, h2⟩ := bind_ok h
  have hr' := req_ok hr
  cases pure_ok h2
  unfold TreeAlgo2.insertCommentAsLastChildOf at hr'
  cases hn : s.p.newNode with
  | none => rw [hn] at hr'; cases hr'
  | some r =>
    rw [hn] at hr'
    obtain ⟨n, st1⟩ := r
    have h1 : st1.stack = s.p.stack ∧ st1.list = s.p.list := by
      unfold PState.newNode at hn
      split at hn
      · cases hn
      · cases hn; exact ⟨rfl, rfl⟩
    cases hr'
    exact ⟨rfl, rfl, rfl, rfl, h1.1, h1.2⟩

theorem upd_ite {s a b : State N} {st l} {c : Prop} [Decidable c] (ha : Upd s a st l) (hb : Upd s b st l) :
    Upd s (if c then a else b) st l := by split <;> assumption

/-- "insert a foreign element" -/
theorem insertForeign_eff {s s' : State N} {t : Tag} {kind : TreeAlgo.ForeignKind} {ns : Str} {e : Elem N}
    (h : insertForeign s t kind ns = .ok (s', e)) :
    e.name.ns = ns ∧ s.p.stack ≠ [] ∧ Upd s s' (s.p.stack ++ [e]) s.p.list := by
  unfold insertForeign at h
  obtain ⟨r, hr, h2⟩ := bind_ok h
  have hr' := req_ok hr
  obtain ⟨r1, r2⟩ := r
  obtain ⟨a, b, c, d, _⟩ := insertForeignElement_eff hr'
  have h3 := pure_ok h2
  simp only [Prod.mk.injEq] at h3
  obtain ⟨h4, h5⟩ := h3
  subst h5
  refine ⟨by rw [a], b, ?_⟩
  subst h4
  exact upd_ite ⟨rfl, rfl, rfl, rfl, c, d⟩ ⟨rfl, rfl, rfl, rfl, c, d⟩

/-- the generic raw text / RCDATA element parsing algorithm -/
theorem genericTextElement_eff {s s' : State N} {t : Tag} {sw : TokSwitch} (h : genericTextElement s t sw = .ok s') :
    ∃ e : Elem N, e.name = ⟨nsHtml, t.name⟩ ∧ s.p.stack ≠ [] ∧ s'.mode = .text ∧ s'.originalMode = s.mode ∧
      s'.templateModes = s.templateModes ∧ s'.stopped = s.stopped ∧ s'.p.stack = s.p.stack ++ [e] ∧ s'.p.list = s.p.list := by
  unfold genericTextElement at h
  obtain ⟨s1, hr, h2⟩ := bind_ok h
  obtain ⟨e, he, hne, hu, _⟩ := insertHtml'_eff hr
  cases pure_ok h2
  exact ⟨e, he, hne, rfl, by simp [hu.mode], by simp [hu.tms], by simp [hu.stopped], by simp [hu.stack], by simp [hu.list]⟩

/-- entering "text" from a good state whose mode is neither "text" nor "in table text" -/
theorem Good.enterText {σ σ' : State N} (hg : Good σ) (hnt : σ.mode ≠ .text) (hntt : σ.mode ≠ .inTableText)
    {e : Elem N} (he : e.name.ns = nsHtml) (hne : σ.p.stack ≠ [])
    (hm : σ'.mode = .text) (ho : σ'.originalMode = σ.mode) (ht : σ'.templateModes = σ.templateModes)
    (hs : σ'.p.stack = σ.p.stack ++ [e]) (hl : σ'.p.list = σ.p.list) : Good σ' where
  cell := fun h => by rw [hm] at h; cases h
  text := fun _ => by
    refine ⟨?_, ?_⟩
    · rw [ho]; exact ⟨hnt, hntt, hg.nosel.1, hg.nosel.2⟩
    · intro hc
      rw [ho] at hc
      rw [names_eq, hs, namesOf_snoc, List.drop_one, List.tail_cons]
      exact hg.cell hc
  ttext := fun h => by rw [hm] at h; cases h
  nosel := by rw [hm]; exact ⟨by decide, by decide⟩
  af := by rw [hl]; exact hg.af
  tm := by rw [ht]; exact hg.tm

/-! ### "reset the insertion mode appropriately" -/

theorem tdThN_eq (n : Name) : tdThN n = (n.isHtml "td" || n.isHtml "th") := by
  simp only [tdThN, inHtml, Name.isHtml, List.any_cons, List.any_nil, Bool.or_false]
  rw [BEq.comm (a := "td".toList), BEq.comm (a := "th".toList)]
  cases n.ns == nsHtml <;> simp

theorem markN_eq (n : Name) : markN n = (n.isHtml "html" || n.isHtml "table" || n.isHtml "template") := by
  simp only [markN, TreeAlgo.tableScopeList, TreeAlgo.inTable, TreeTables.tableScope, Name.isHtml, List.any_cons,
    List.any_nil, Bool.or_false]
  have : TreeAlgo.nsUrl "html" = nsHtml := rfl
  rw [this, BEq.comm (a := nsHtml), BEq.comm (a := "html".toList), BEq.comm (a := "table".toList),
    BEq.comm (a := "template".toList)]
  cases n.ns == nsHtml <;> simp [Bool.or_assoc]

theorem mode_vac {P Q R : Prop} {m : TreeAlgo.Mode} (h1 : m ≠ .inCell) (h2 : m ≠ .text) (h3 : m ≠ .inTableText) :
    (m = .inCell → P) ∧ (m = .text → Q) ∧ (m = .inTableText → R) :=
  ⟨fun h => absurd h h1, fun h => absurd h h2, fun h => absurd h h3⟩

theorem resetStep_none {node : Name} {last : Bool} {tm : Option TreeAlgo.Mode} {hp : Bool}
    (h : TreeAlgo.resetStep node last tm hp = none) : last = false ∧ tdThN node = false ∧ markN node = false := by
  unfold TreeAlgo.resetStep at h
  rw [tdThN_eq, markN_eq]
  by_cases c0 : ((node.isHtml "td" || node.isHtml "th") && !last) = true
  · rw [if_pos c0] at h; cases h
  rw [if_neg c0] at h
  by_cases c1 : node.isHtml "tr" = true
  · rw [if_pos c1] at h; cases h
  rw [if_neg c1] at h
  by_cases c2 : (node.isHtml "tbody" || node.isHtml "thead" || node.isHtml "tfoot") = true
  · rw [if_pos c2] at h; cases h
  rw [if_neg c2] at h
  by_cases c3 : node.isHtml "caption" = true
  · rw [if_pos c3] at h; cases h
  rw [if_neg c3] at h
  by_cases c4 : node.isHtml "colgroup" = true
  · rw [if_pos c4] at h; cases h
  rw [if_neg c4] at h
  by_cases c5 : node.isHtml "table" = true
  · rw [if_pos c5] at h; cases h
  rw [if_neg c5] at h
  by_cases c6 : node.isHtml "template" = true
  · rw [if_pos c6] at h; cases h
  rw [if_neg c6] at h
  by_cases c7 : (node.isHtml "head" && !last) = true
  · rw [if_pos c7] at h; cases h
  rw [if_neg c7] at h
  by_cases c8 : node.isHtml "body" = true
  · rw [if_pos c8] at h; cases h
  rw [if_neg c8] at h
  by_cases c9 : node.isHtml "frameset" = true
  · rw [if_pos c9] at h; cases h
  rw [if_neg c9] at h
  by_cases c10 : node.isHtml "html" = true
  · rw [if_pos c10] at h; (split at h <;> cases h)
  rw [if_neg c10] at h
  by_cases cl : last = true
  · rw [if_pos cl] at h; cases h
  have hl : last = false := by simpa using cl
  subst hl
  simp only [Bool.not_false, Bool.and_true] at c0
  refine ⟨rfl, by simpa using c0, ?_⟩
  simp only [Bool.not_eq_true] at c5 c6 c10
  simp [c5, c6, c10]

theorem resetStep_some {node : Name} {last : Bool} {tm : Option TreeAlgo.Mode} {hp : Bool} {m : TreeAlgo.Mode}
    (h : TreeAlgo.resetStep node last tm hp = some (some m)) :
    (m = .inCell → (tdThN node = true ∧ last = false) ∨ tm = some .inCell) ∧ (m = .text → tm = some .text) ∧
      (m = .inTableText → tm = some .inTableText) := by
  unfold TreeAlgo.resetStep at h
  rw [tdThN_eq]
  by_cases c0 : ((node.isHtml "td" || node.isHtml "th") && !last) = true
  · rw [if_pos c0] at h
    simp only [Option.some.injEq] at h; subst h
    simp only [Bool.and_eq_true, Bool.not_eq_true'] at c0
    exact ⟨fun _ => Or.inl c0, (fun h => nomatch h), (fun h => nomatch h)⟩
  rw [if_neg c0] at h
  by_cases c1 : node.isHtml "tr" = true
  · rw [if_pos c1] at h
    simp only [Option.some.injEq] at h; subst h
    exact mode_vac (by decide) (by decide) (by decide)
  rw [if_neg c1] at h
  by_cases c2 : (node.isHtml "tbody" || node.isHtml "thead" || node.isHtml "tfoot") = true
  · rw [if_pos c2] at h
    simp only [Option.some.injEq] at h; subst h
    exact mode_vac (by decide) (by decide) (by decide)
  rw [if_neg c2] at h
  by_cases c3 : node.isHtml "caption" = true
  · rw [if_pos c3] at h
    simp only [Option.some.injEq] at h; subst h
    exact mode_vac (by decide) (by decide) (by decide)
  rw [if_neg c3] at h
  by_cases c4 : node.isHtml "colgroup" = true
  · rw [if_pos c4] at h
    simp only [Option.some.injEq] at h; subst h
    exact mode_vac (by decide) (by decide) (by decide)
  rw [if_neg c4] at h
  by_cases c5 : node.isHtml "table" = true
  · rw [if_pos c5] at h
    simp only [Option.some.injEq] at h; subst h
    exact mode_vac (by decide) (by decide) (by decide)
  rw [if_neg c5] at h
  by_cases c6 : node.isHtml "template" = true
  · rw [if_pos c6] at h
    simp only [Option.some.injEq] at h
    exact ⟨fun hm => Or.inr (hm ▸ h), fun hm => hm ▸ h, fun hm => hm ▸ h⟩
  rw [if_neg c6] at h
  by_cases c7 : (node.isHtml "head" && !last) = true
  · rw [if_pos c7] at h
    simp only [Option.some.injEq] at h; subst h
    exact mode_vac (by decide) (by decide) (by decide)
  rw [if_neg c7] at h
  by_cases c8 : node.isHtml "body" = true
  · rw [if_pos c8] at h
    simp only [Option.some.injEq] at h; subst h
    exact mode_vac (by decide) (by decide) (by decide)
  rw [if_neg c8] at h
  by_cases c9 : node.isHtml "frameset" = true
  · rw [if_pos c9] at h
    simp only [Option.some.injEq] at h; subst h
    exact mode_vac (by decide) (by decide) (by decide)
  rw [if_neg c9] at h
  by_cases c10 : node.isHtml "html" = true
  · rw [if_pos c10] at h
    split at h <;> (simp only [Option.some.injEq] at h; subst h; exact mode_vac (by decide) (by decide) (by decide))
  rw [if_neg c10] at h
  by_cases cl : last = true
  · rw [if_pos cl] at h
    simp only [Option.some.injEq] at h; subst h
    exact mode_vac (by decide) (by decide) (by decide)
  · rw [if_neg cl] at h; cases h

theorem reset_spec (ctx : Option Name) (hp : Bool) (tm : Option TreeAlgo.Mode) :
    ∀ (names : List Name) (m : TreeAlgo.Mode), TreeAlgo.resetInsertionMode ctx hp tm names = some m →
      (m = .inCell → cellR names = true ∨ tm = some .inCell) ∧ (m = .text → tm = some .text) ∧
        (m = .inTableText → tm = some .inTableText)
  | [], m, h => by
    simp only [TreeAlgo.resetInsertionMode, Option.some.injEq] at h
    subst h
    exact mode_vac (by decide) (by decide) (by decide)
  | node0 :: rest, m, h => by
    unfold TreeAlgo.resetInsertionMode at h
    dsimp only at h
    cases hs : TreeAlgo.resetStep (if rest.isEmpty = true then ctx.getD node0 else node0) rest.isEmpty tm hp with
    | none =>
      rw [hs] at h
      simp only [Option.getD_none] at h
      obtain ⟨hl, h1, h2⟩ := resetStep_none hs
      rw [hl] at h1 h2
      simp only [Bool.false_eq_true, if_false] at h1 h2
      obtain ⟨a, b, c⟩ := reset_spec ctx hp tm rest m h
      refine ⟨fun hm => ?_, b, c⟩
      rcases a hm with a | a
      · left; rw [cellR_cons_neutral (by simp [neutralN, h1, h2])]; exact a
      · exact Or.inr a
    | some r =>
      rw [hs] at h
      simp only [Option.getD_some] at h
      subst h
      obtain ⟨a, b, c⟩ := resetStep_some hs
      refine ⟨fun hm => ?_, b, c⟩
      rcases a hm with ⟨a1, a2⟩ | a
      · left
        rw [a2] at a1
        simp only [Bool.false_eq_true, if_false] at a1
        exact cellR_cons_td a1 _
      · exact Or.inr a

theorem ofAlgo_toAlgo {m : IMode} {a : TreeAlgo.Mode} (h : m.toAlgo = some a) : IMode.ofAlgo a = m := by
  cases m <;> simp only [IMode.toAlgo, Option.some.injEq] at h <;> first | (subst h; rfl) | cases h

/-- **"reset the insertion mode appropriately"**: only the mode changes; the new mode is none of "text", "in table
text", the select modes; if it is "in cell", a td/th is in table scope -/
theorem resetInsertionMode_eff (cfg : Config N) (hed : cfg.edition = .customizableSelect) {s s' : State N}
    (htm : ∀ m ∈ s.templateModes, tmOk m) (h : resetInsertionMode cfg s = .ok s') :
    ∃ m, s' = s.setMode m ∧ m ≠ .text ∧ m ≠ .inTableText ∧ m ≠ .inSelect ∧ m ≠ .inSelectInTable ∧
      (m = .inCell → cellR s.names = true) := by
  unfold resetInsertionMode at h
  simp only [hed] at h
  obtain ⟨m, hr, h2⟩ := bind_ok h
  have hr' := req_ok hr
  cases pure_ok h2
  refine ⟨m, rfl, ?_⟩
  cases hx : TreeAlgo.resetInsertionMode (cfg.context.map (·.name)) s.headPointer.isNone
      (s.templateModes.getLast?.bind IMode.toAlgo) s.names with
  | none => rw [hx] at hr'; cases hr'
  | some a =>
    rw [hx] at hr'
    simp only [Option.map_some, Option.some.injEq] at hr'
    subst hr'
    obtain ⟨h1, h2, h3⟩ := reset_spec _ _ _ _ _ hx
    -- the current template insertion mode is one of those "in template" pushes
    have htmk : ∀ b, s.templateModes.getLast?.bind IMode.toAlgo = some b → tmOk (IMode.ofAlgo b) := by
      intro b hb
      cases hl : s.templateModes.getLast? with
      | none => rw [hl] at hb; cases hb
      | some last =>
        rw [hl] at hb
        simp only [Option.bind_some] at hb
        rw [ofAlgo_toAlgo hb]
        exact htm last (List.mem_of_getLast? hl)
    have hno : ∀ b, s.templateModes.getLast?.bind IMode.toAlgo = some b → b ≠ .inCell ∧ b ≠ .text ∧ b ≠ .inTableText := by
      intro b hb
      have := htmk b hb
      refine ⟨?_, ?_, ?_⟩ <;> intro hc <;> subst hc <;> simp [tmOk, IMode.ofAlgo] at this
    refine ⟨?_, ?_, ?_, ?_, ?_⟩
    · intro hc
      cases a <;> simp only [IMode.ofAlgo] at hc <;> try cases hc
      exact (hno _ (h2 rfl)).2.1 rfl
    · intro hc
      cases a <;> simp only [IMode.ofAlgo] at hc <;> try cases hc
      exact (hno _ (h3 rfl)).2.2 rfl
    · intro hc; cases a <;> cases hc
    · intro hc; cases a <;> cases hc
    · intro hc
      cases a <;> simp only [IMode.ofAlgo] at hc <;> try cases hc
      rcases h1 rfl with h1 | h1
      · exact h1
      · exact absurd rfl (hno _ h1).1

end
end H5V.Lemmas.ModesInv
