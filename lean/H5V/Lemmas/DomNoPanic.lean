import H5V.Lemmas.DomStep
/-! A sink call within the TreeSink contract never makes (the model of) RcDom panic. -/
namespace H5V.Lemmas.Dom
open H5V.Model.Dom

/-! ### success of the primitive operations on a well-formed arena -/

theorem appendRaw_succeeds {d : Dom} {p c : Id} (hc : c < d.size) (hpar : d.parentOf c = none) (hp : p < d.size) :
    ∃ d', d.appendRaw p c = .ok d' := by
  obtain ⟨cn, hcn⟩ := node?_of_lt hc
  have hcp : cn.parent = none := by rw [← parentOf_of_node hcn]; exact hpar
  have hp' : p < (d.setNode c { data := cn.data, parent := some p, children := cn.children }).size := by simpa using hp
  obtain ⟨pn, hpn⟩ := node?_of_lt hp'
  simp only [Dom.appendRaw, bind, Except.bind, get_ok_of hcn, hcp, Option.isSome_none, Bool.false_eq_true,
    if_false, get_ok_of hpn]
  exact ⟨_, rfl⟩

theorem getParentAndIndex_succeeds {d : Dom} (hw : WF d) {t : Id} (ht : t < d.size) :
    (d.parentOf t = none ∧ d.getParentAndIndex t = .ok none) ∨
    (∃ p i, d.parentOf t = some p ∧ indexOf? t (d.childrenOf p) = some i ∧ d.getParentAndIndex t = .ok (some (p, i))) := by
  obtain ⟨tn, htn⟩ := node?_of_lt ht
  cases hpar : tn.parent with
  | none =>
    left
    refine ⟨by rw [parentOf_of_node htn, hpar], ?_⟩
    simp only [Dom.getParentAndIndex, bind, Except.bind, get_ok_of htn, hpar]
  | some p =>
    right
    have hpo : d.parentOf t = some p := by rw [parentOf_of_node htn, hpar]
    obtain ⟨pn, hpn⟩ := node?_of_lt (parent_lt_size hw hpo)
    have hmem : t ∈ pn.children := by rw [← childrenOf_of_node hpn]; exact (hw.links t p).mp hpo
    obtain ⟨i, hi⟩ := indexOf?_of_mem hmem
    refine ⟨p, i, hpo, by rw [childrenOf_of_node hpn]; exact hi, ?_⟩
    simp only [Dom.getParentAndIndex, bind, Except.bind, get_ok_of htn, hpar, get_ok_of hpn, hi]

theorem removeFromParent_succeeds {d : Dom} (hw : WF d) {t : Id} (ht : t < d.size) :
    ∃ d', d.removeFromParent t = .ok d' := by
  rcases getParentAndIndex_succeeds hw ht with ⟨_, hg⟩ | ⟨p, i, hpo, _, hg⟩
  · simp only [Dom.removeFromParent, bind, Except.bind, hg]; exact ⟨_, rfl⟩
  · obtain ⟨pn, hpn⟩ := node?_of_lt (parent_lt_size hw hpo)
    have ht' : t < (d.setNode p { data := pn.data, parent := pn.parent, children := removeAt pn.children i }).size := by
      simpa using ht
    obtain ⟨tn, htn⟩ := node?_of_lt ht'
    simp only [Dom.removeFromParent, bind, Except.bind, hg, get_ok_of hpn, get_ok_of htn]
    exact ⟨_, rfl⟩

theorem length_removeAt {l : List Id} {i : Nat} (hi : i < l.length) : (removeAt l i).length = l.length - 1 := by
  unfold removeAt
  simp only [List.length_append, List.length_take, List.length_drop]
  omega

/-- `insertAtIndex parent i c` succeeds when `i` is the index of some *other* child `s` of `parent` -/
theorem insertAtIndex_succeeds {d : Dom} (hw : WF d) {P c s : Id} {i : Nat} (hc : c < d.size) (hP : P < d.size)
    (hi : indexOf? s (d.childrenOf P) = some i) (hsc : s ≠ c) : ∃ d', d.insertAtIndex P i c = .ok d' := by
  obtain ⟨d1, hr⟩ := removeFromParent_succeeds hw hc
  have hsz := removeFromParent_size hr
  obtain ⟨cn, hcn⟩ := node?_of_lt (show c < d1.size by rw [hsz]; exact hc)
  have hP' : P < (d1.setNode c { data := cn.data, parent := some P, children := cn.children }).size := by
    simp; rw [hsz]; exact hP
  obtain ⟨pn, hpn⟩ := node?_of_lt hP'
  -- the child list of `P` after the removal still has room for index `i`
  obtain ⟨hsplit, _, hilt⟩ := indexOf?_some hi
  have hlen : i ≤ (d1.childrenOf P).length := by
    rcases removeFromParent_ok hr with ⟨_, he⟩ | ⟨p', j, _, hj, _, hch, _⟩
    · rw [he]; exact Nat.le_of_lt hilt
    · rw [hch]
      by_cases hpp : P = p'
      · subst hpp
        simp only [if_true]
        rw [length_removeAt (indexOf?_some hj).2.2]; omega
      · simp [hpp]; exact Nat.le_of_lt hilt
  have hpc : pn.children = d1.childrenOf P := by
    rw [node?_setNode_of hcn] at hpn
    by_cases hPc : P = c
    · subst hPc; simp at hpn; subst hpn; simp [childrenOf_of_node hcn]
    · simp [hPc] at hpn; simp [childrenOf_of_node hpn]
  simp only [Dom.insertAtIndex, bind, Except.bind, hr, get_ok_of hcn, get_ok_of hpn]
  rw [hpc]
  simp only [gt_iff_lt, Nat.not_lt.mpr hlen, if_false]
  exact ⟨_, rfl⟩


theorem allocAppend_succeeds {d : Dom} (data : NodeData) {p : Id} (hp : p < d.size) :
    ∃ d', (d.alloc data).1.appendRaw p (d.alloc data).2 = .ok d' := by
  rw [alloc_id]
  exact appendRaw_succeeds (by simp) (by rw [parentOf_alloc]; exact parentOf_none_of_ge (Nat.le_refl _))
    (by simp; exact Nat.lt_succ_of_lt hp)

theorem append_succeeds {d : Dom} (hw : WF d) {p : Id} {ch : NodeOrText} (hc : d.contractAppend p ch = true) :
    ∃ d', d.append p ch = .ok d' := by
  simp only [Dom.contractAppend, Bool.and_eq_true] at hc
  have hp := lt_of_isContainer hc.1
  cases ch with
  | node c =>
    rw [append_node_eq]
    simp only [Dom.childOk, Bool.and_eq_true, Bool.not_eq_true', Bool.or_eq_true] at hc
    have hcv : c < d.size := by
      have := hc.2.1.1
      unfold Dom.isInsertable at this
      cases hd : d.dataOf c with
      | none => simp [hd] at this
      | some v => exact lt_of_dataOf_some hd
    have hpar : d.parentOf c = none := by
      have := hc.2.1.2
      cases hpc : d.parentOf c with
      | none => rfl
      | some q => simp [hpc] at this
    exact appendRaw_succeeds hcv hpar hp
  | text s =>
    obtain ⟨pn, hpn⟩ := node?_of_lt hp
    simp only [Dom.append, bind, Except.bind, get_ok_of hpn]
    cases hl : pn.children.getLast? with
    | none => simp only; exact allocAppend_succeeds _ hp
    | some h =>
      simp only
      have hh : h ∈ d.childrenOf p := by rw [childrenOf_of_node hpn]; exact List.mem_of_getLast? hl
      obtain ⟨hn, hhn⟩ := node?_of_lt (child_valid hw hh)
      simp only [get_ok_of hhn]
      cases hn.data with
      | text old => exact ⟨_, rfl⟩
      | document | doctype _ _ _ | comment _ | element _ _ _ _ | pi _ _ => exact allocAppend_succeeds _ hp

/-- the pinned and the repaired `append_before_sibling` body succeed on a sibling that has a parent -/
theorem appendBeforeSibling_succeeds {d : Dom} (hw : WF d) {s P : Id} {ch : NodeOrText} (hs : d.parentOf s = some P)
    (hch : match ch with | .text _ => True | .node c => c < d.size ∧ s ≠ c) :
    ∃ d', d.appendBeforeSibling s ch = .ok d' := by
  have hsv := child_lt_size hs
  have hP := parent_lt_size hw hs
  rcases getParentAndIndex_succeeds hw hsv with ⟨h0, _⟩ | ⟨P', i, hs', hi, hg⟩
  · rw [hs] at h0; cases h0
  · rw [hs] at hs'; cases hs'
    simp only [Dom.appendBeforeSibling, bind, Except.bind, hg]
    have fresh : ∃ d', (d.alloc (.text (match ch with | .text t => t | _ => []))).1.insertAtIndex P i
        (d.alloc (.text (match ch with | .text t => t | _ => []))).2 = .ok d' := by
      rw [alloc_id]
      exact insertAtIndex_succeeds (hw.alloc _) (s := s) (by simp) (by simp; exact Nat.lt_succ_of_lt hP)
        (by rw [childrenOf_alloc]; exact hi) (Nat.ne_of_lt hsv)
    cases ch with
    | node c => simp only; exact insertAtIndex_succeeds hw hch.1 hP hi hch.2
    | text t =>
      simp only at fresh ⊢
      by_cases hi0 : i = 0
      · simp only [hi0, if_true]; rw [hi0] at fresh; exact fresh
      · simp only [hi0, if_false]
        obtain ⟨pn, hpn⟩ := node?_of_lt hP
        simp only [get_ok_of hpn]
        have hilt := (indexOf?_some hi).2.2
        rw [childrenOf_of_node hpn] at hilt
        have hlt : i - 1 < pn.children.length := by omega
        rw [List.getElem?_eq_getElem hlt]
        simp only
        have hmem : pn.children[i - 1] ∈ d.childrenOf P := by
          rw [childrenOf_of_node hpn]; exact List.getElem_mem hlt
        obtain ⟨prevn, hprevn⟩ := node?_of_lt (child_valid hw hmem)
        simp only [get_ok_of hprevn]
        cases prevn.data with
        | text old => exact ⟨_, rfl⟩
        | document | doctype _ _ _ | comment _ | element _ _ _ _ | pi _ _ => exact fresh

theorem lt_of_isInsertable {d : Dom} {x : Id} (h : d.isInsertable x = true) : x < d.size := by
  unfold Dom.isInsertable at h
  cases hd : d.dataOf x with
  | none => simp [hd] at h
  | some v => exact lt_of_dataOf_some hd

theorem appendBeforeSiblingV_succeeds {b : Dom.BeforeSiblingVariant} {d : Dom} (hw : WF d) {s : Id} {ch : NodeOrText}
    (hc : d.contractAppendBeforeSibling s ch = true) : ∃ d', d.appendBeforeSiblingV b s ch = .ok d' := by
  have hc0 := hc
  unfold Dom.contractAppendBeforeSibling at hc
  cases hps : d.parentOf s with
  | none => simp [hps] at hc
  | some P =>
    simp only [hps, Bool.and_eq_true] at hc
    cases ch with
    | text t =>
      rw [show d.appendBeforeSiblingV b s (.text t) = d.appendBeforeSibling s (.text t) from rfl]
      exact appendBeforeSibling_succeeds hw hps trivial
    | node c =>
      simp only [Dom.childOk, Bool.and_eq_true] at hc
      have hcv := lt_of_isInsertable hc.2.1.2.1.1
      have hsc : s ≠ c := by
        intro e; subst e; have := hc.2.2; simp at this
      cases b with
      | asCode =>
        rw [show d.appendBeforeSiblingV .asCode s (.node c) = d.appendBeforeSibling s (.node c) from rfl]
        exact appendBeforeSibling_succeeds hw hps ⟨hcv, hsc⟩
      | detachFirst =>
        obtain ⟨d1, hr⟩ := removeFromParent_succeeds hw hcv
        simp only [Dom.appendBeforeSiblingV, Dom.preDetach, bind, Except.bind, hr]
        have hps1 : d1.parentOf s = some P := by
          rcases removeFromParent_ok hr with ⟨_, he⟩ | ⟨_, _, _, _, hp, _⟩
          · rw [he]; exact hps
          · rw [hp]; simp [hsc, hps]
        exact appendBeforeSibling_succeeds (hw.removeFromParent hr) hps1
          ⟨by rw [removeFromParent_size hr]; exact hcv, hsc⟩


theorem reparentLoop_succeeds {n np : Id} : ∀ (cs : List Id) (d : Dom), cs.Nodup →
    (∀ c ∈ cs, d.parentOf c = some n) → ∃ d', Dom.reparentLoop d n np cs = .ok d' := by
  intro cs
  induction cs with
  | nil => intro d _ _; exact ⟨d, rfl⟩
  | cons c cs ih =>
    intro d hnd hp
    have hpc := hp c (by simp)
    obtain ⟨cn, hcn⟩ := node?_of_lt (child_lt_size hpc)
    have hcp : cn.parent = some n := by rw [← parentOf_of_node hcn]; exact hpc
    obtain ⟨hnotin, hnd'⟩ := List.nodup_cons.mp hnd
    simp only [Dom.reparentLoop, bind, Except.bind, get_ok_of hcn, hcp, ne_eq, not_true_eq_false, if_false]
    apply ih _ hnd'
    intro c' hc'
    rw [parentOf_setNode hcn]
    have : c' ≠ c := fun e => hnotin (e ▸ hc')
    simp [this]; exact hp c' (by simp [hc'])

theorem reparentChildren_succeeds {d : Dom} (hw : WF d) {n np : Id} (hn : n < d.size) (hnp : np < d.size)
    (hne : n ≠ np) : ∃ d', d.reparentChildren n np = .ok d' := by
  obtain ⟨nn, hnn⟩ := node?_of_lt hn
  obtain ⟨npn, hnpn⟩ := node?_of_lt hnp
  obtain ⟨d1, hl⟩ := reparentLoop_succeeds (n := n) (np := np) nn.children d
    (by rw [← childrenOf_of_node hnn]; exact hw.nodup n)
    (fun c hc => (hw.links c n).mpr (by rw [childrenOf_of_node hnn]; exact hc))
  obtain ⟨_, _, _, l4, _⟩ := reparentLoop_ok _ hl
  obtain ⟨nn1, hnn1⟩ := node?_of_lt (show n < d1.size by rw [l4]; exact hn)
  obtain ⟨npn1, hnpn1⟩ := node?_of_lt (show np < d1.size by rw [l4]; exact hnp)
  have hset : (d1.setNode np { data := npn1.data, parent := npn1.parent, children := npn1.children ++ nn1.children }).node? n
      = some nn1 := by
    rw [node?_setNode_of hnpn1]; simp [hne, hnn1]
  simp only [Dom.reparentChildren, bind, Except.bind, get_ok_of hnn, get_ok_of hnpn, hne, if_false, hl,
    get_ok_of hnn1, get_ok_of hnpn1, get_ok_of hset]
  exact ⟨_, rfl⟩

theorem ne_of_not_isAncOrSelf {d : Dom} {a x : Id} (hx : x < d.size) (h : d.isAncOrSelf a x = false) : a ≠ x := by
  intro e; subst e
  unfold Dom.isAncOrSelf at h
  cases hs : d.size with
  | zero => rw [hs] at hx; exact Nat.not_lt_zero _ hx
  | succ s => rw [hs] at h; simp [Dom.ancestorsOrSelf] at h

/-- **A contract-abiding call never panics** (every `TreeSink` method except the option →
selectedcontent mirroring, for either behaviour of `append_before_sibling`): on every arena
satisfying the invariant, `Dom.applyV` returns normally. -/
theorem applyV_succeeds {v : Dom.CloneVariant} {b : Dom.BeforeSiblingVariant} {d : Dom} {op : SinkOp} (hw : WF d)
    (hc : d.contractOk op = true) (hop : ∀ o, op ≠ .maybeCloneAnOptionIntoSelectedcontent o) :
    ∃ d' out, d.applyV v b op = .ok (d', out) := by
  cases op with
  | parseError _ | getDocument | createElement _ _ _ | createComment _ | createPi _ _ | markScriptAlreadyStarted _
  | pop _ | sameNode _ _ | setQuirksMode _ | associateWithForm _ _ _ _ | setCurrentLine _
  | allowDeclarativeShadowRoots _ | attachDeclarativeShadow _ _ _ => exact ⟨_, _, rfl⟩
  | elemName t =>
    obtain ⟨tn, htn⟩ := node?_of_lt (lt_of_isElement (by simpa [Dom.contractOk] using hc))
    have he : d.isElement t = true := by simpa [Dom.contractOk] using hc
    simp only [Dom.isElement, dataOf_of_node htn] at he
    simp only [Dom.applyV, Dom.elemName, bind, Except.bind, get_ok_of htn]
    cases hd : tn.data <;> simp [hd] at he ⊢
  | isMathmlAnnotationXmlIntegrationPoint t =>
    obtain ⟨tn, htn⟩ := node?_of_lt (lt_of_isElement (by simpa [Dom.contractOk] using hc))
    have he : d.isElement t = true := by simpa [Dom.contractOk] using hc
    simp only [Dom.isElement, dataOf_of_node htn] at he
    simp only [Dom.applyV, Dom.isMathmlAnnotationXmlIntegrationPoint, bind, Except.bind, get_ok_of htn]
    cases hd : tn.data <;> simp [hd] at he ⊢
  | getTemplateContents t =>
    have he : (d.templateContentsOf t).isSome = true := by simpa [Dom.contractOk] using hc
    unfold Dom.templateContentsOf at he
    cases hdt : d.dataOf t with
    | none => simp [hdt] at he
    | some v =>
      rw [hdt] at he
      obtain ⟨tn, htn⟩ := node?_of_lt (lt_of_dataOf_some hdt)
      rw [dataOf_of_node htn] at hdt
      have hv : tn.data = v := Option.some.inj hdt
      simp only [Dom.applyV, Dom.getTemplateContents, bind, Except.bind, get_ok_of htn, hv]
      cases v with
      | element n a tc ip => cases tc <;> simp at he ⊢
      | document | doctype _ _ _ | comment _ | text _ | pi _ _ => simp at he
  | addAttrsIfMissing t a =>
    have he : d.isElement t = true := by
      simp only [Dom.contractOk, Bool.and_eq_true] at hc
      exact hc.1
    obtain ⟨tn, htn⟩ := node?_of_lt (lt_of_isElement he)
    simp only [Dom.isElement, dataOf_of_node htn] at he
    simp only [Dom.applyV, Dom.addAttrsIfMissing, bind, Except.bind, get_ok_of htn]
    cases hd : tn.data <;> simp [hd] at he ⊢
  | append p c =>
    obtain ⟨d', h⟩ := append_succeeds hw (p := p) (ch := c) (by simpa [Dom.contractOk] using hc)
    exact ⟨d', .unit, by simp [Dom.applyV, bind, Except.bind, h]⟩
  | appendBeforeSibling s c =>
    obtain ⟨d', h⟩ := appendBeforeSiblingV_succeeds (b := b) hw (s := s) (ch := c) (by simpa [Dom.contractOk] using hc)
    exact ⟨d', .unit, by simp [Dom.applyV, bind, Except.bind, h]⟩
  | appendBasedOnParentNode e p c =>
    simp only [Dom.contractOk, Bool.and_eq_true] at hc
    obtain ⟨en, hen⟩ := node?_of_lt (lt_of_isElement hc.1.1)
    have hpe : d.parentOf e = en.parent := parentOf_of_node hen
    by_cases hp : (d.parentOf e).isSome = true
    · simp only [hp, if_true] at hc
      obtain ⟨d', h⟩ := appendBeforeSiblingV_succeeds (b := b) hw hc.2
      rw [hpe] at hp
      exact ⟨d', .unit, by simp [Dom.applyV, Dom.appendBasedOnParentNodeV, bind, Except.bind, get_ok_of hen, hp, h]⟩
    · simp only [hp] at hc
      obtain ⟨d', h⟩ := append_succeeds hw hc.2
      rw [hpe] at hp
      exact ⟨d', .unit, by simp [Dom.applyV, Dom.appendBasedOnParentNodeV, bind, Except.bind, get_ok_of hen, hp, h]⟩
  | appendDoctypeToDocument n p s =>
    simp only [Dom.contractOk, Bool.and_eq_true] at hc
    obtain ⟨d', h⟩ := allocAppend_succeeds (d := d) (.doctype n p s) (lt_of_isContainer hc.1)
    exact ⟨d', .unit, by simp [Dom.applyV, Dom.appendDoctypeToDocument, bind, Except.bind, h]⟩
  | removeFromParent t =>
    obtain ⟨d', h⟩ := removeFromParent_succeeds hw (t := t) (by simpa [Dom.contractOk] using hc)
    exact ⟨d', .unit, by simp [Dom.applyV, bind, Except.bind, h]⟩
  | reparentChildren n np =>
    simp only [Dom.contractOk, Bool.and_eq_true, Bool.not_eq_true'] at hc
    have hnp := lt_of_isContainer hc.1.2
    obtain ⟨d', h⟩ := reparentChildren_succeeds hw (lt_of_isContainer hc.1.1) hnp (ne_of_not_isAncOrSelf hnp hc.2)
    exact ⟨d', .unit, by simp [Dom.applyV, bind, Except.bind, h]⟩
  | maybeCloneAnOptionIntoSelectedcontent o => exact absurd rfl (hop o)

end H5V.Lemmas.Dom
