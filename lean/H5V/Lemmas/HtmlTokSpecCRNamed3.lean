import H5V.Lemmas.HtmlTokSpecCRNamed2
/-!
# C01 simulation — named character references (layer L3b), part 3: the relation after a finished
reference (give up / attribute exception with lag / resolved) and after a consumed name character
-/
set_option linter.unusedSimpArgs false
namespace H5V.Lemmas.HtmlTokSpec
open H5V.Model.HtmlTok
open H5V.Spec.HtmlTokenizer (St Tok Emit Tree Switch Ctl ReturnSt normalizeNewlinesFrom normalizeNewlines)
open H5V.Props.C14

/-- the machine a finished reference is processed on: `m` up to parse-error tokens, `ignore_lf` and
the sub-tokenizer register -/
def crnBase (m : Mach) (o' : Out) (il : Bool) (x : Option CharRefSt) : Mach :=
  { m with out := o', ignoreLf := il, charRef := x }

/-- … and after `process_char_ref` -/
def crnFin (m : Mach) (o' : Out) (il : Bool) (x : Option CharRefSt) (chars : Str) : Mach :=
  (processCharRef (crnBase m o' il x) chars).1.setCharRef none

theorem crn_fin_fields (m : Mach) (o' : Out) (il : Bool) (x : Option CharRefSt) (chars : Str) :
    (crnFin m o' il x chars).state = m.state ∧ (crnFin m o' il x chars).reconsume = m.reconsume ∧
    (crnFin m o' il x chars).ignoreLf = il ∧ (crnFin m o' il x chars).charRef = none := by
  have hp := processCharRef_fields (crnBase m o' il x) chars
  unfold crnFin
  refine ⟨?_, ?_, ?_, by simp⟩
  · rw [setCharRef_state, hp.1]; rfl
  · rw [setCharRef_reconsume, hp.2.2.2.1]; rfl
  · rw [setCharRef_ignoreLf, hp.2.2.1]; rfl

set_option maxHeartbeats 1600000 in
/-- the register part of the relation after `process_char_ref` / "flush code points consumed as a
character reference" -/
theorem crn_regCore_done {m : Mach} {inp : Str} {t : Tok} {rest : Str} {cr : CharRefSt}
    (h : RelCore m inp t rest) (hcr : m.charRef = some cr) (o' : Out) (il : Bool) (x : Option CharRefSt)
    (hfl : flat o' = flat m.out) (chars : Str)
    (hnul : isAttrValueState m.state = false → ∀ c ∈ crnEff chars, c ≠ '\x00')
    (s' : St) (hs' : s' = t.returnState.toSt ∨ s' = .ambiguousAmpersand) :
    (processCharRef (crnBase m o' il x) chars).2 = .cont ∧
    RegCore (crnFin m o' il x chars)
      ((({ t with temporaryBuffer := crnEff chars } : Tok).flushCodePoints).setState s') := by
  obtain ⟨hret, hrs, _, _⟩ := h.crRel hcr
  have hstd := h.std
  obtain ⟨r1, r2, r3, r4, r5, r6, r7, r8, r9⟩ := h.reg
  have hout := h.out
  have hst : (({ t with temporaryBuffer := crnEff chars } : Tok).flushCodePoints.setState s').state = stOf m.state ∨
      altSt m.state (({ t with temporaryBuffer := crnEff chars } : Tok).flushCodePoints.setState s') := by
    rcases hs' with rfl | rfl
    · left; exact hrs
    · right; left
      refine ⟨rfl, hret, ?_⟩
      unfold Tok.flushCodePoints
      split
      · simp only [Tok.setState]
        generalize crnEff chars = cs
        have : ∀ (t0 : Tok), (cs.foldl Tok.appendAttributeValue t0).returnState = t0.returnState := by
          induction cs with
          | nil => intro t0; rfl
          | cons c cs ih => intro t0; rw [List.foldl_cons, ih, appendAttributeValue_eq]
        rw [this]; exact hrs
      · simp only [Tok.setState]
        rw [crn_foldl_emitChar]; exact hrs
  unfold crnFin
  rcases crn_ret_cases hret hrs with ⟨hs, hia, hav⟩ | ⟨k, hs, hia, hav⟩
  · have hs2 : (crnBase m o' il x).state = .data ∨ (crnBase m o' il x).state = .rawData .rcdata := hs
    have hpc := crn_pcr_text (crnBase m o' il x) chars hs2 (hnul hav)
    rw [crn_flush_text _ _ hia] at hst ⊢
    rw [hpc]
    refine ⟨rfl, ⟨hstd, hst, rfl, ⟨r1, r2, r3, r4, ?_, r6, r7, r8, r9⟩, ?_⟩⟩
    · intro hu
      exfalso
      change usesTemp m.state = true at hu
      rcases hs with hs | hs <;> rw [hs] at hu <;> simp [usesTemp] at hu
    · unfold OutRel cdataBuf at hout ⊢
      change (crnEff chars |>.map Emit.char).reverse ++ t.out =
        (List.map Emit.char (if isCdata m.state = true then m.tempBuf else []).reverse) ++
          flat (((crnEff chars).reverse.map fun c => (Token.chars [c], m.line)) ++ o')
      rw [crn_flat_chars, hfl, hout]
      have hcd : isCdata m.state = false := by
        rcases hs with hs | hs <;> rw [hs] <;> rfl
      simp [hcd]
  · have hpc := crn_pcr_attr (crnBase m o' il x) chars k hs
    have hne : t.attrs ≠ [] := r4 (by rw [hs]; rfl)
    rw [crn_flush_attr _ _ hia hne] at hst ⊢
    rw [hpc]
    have htag : isTagSt m.state = true := by rw [hs]; rfl
    obtain ⟨a1, a2, a3, a4⟩ := r2 htag
    refine ⟨rfl, ⟨hstd, hst, rfl, ⟨r1, fun _ => ⟨a1, a2, a3, ?_⟩, ?_, fun _ => by simp [Tok.setState], ?_, r6, r7, ?_, r9⟩, ?_⟩⟩
    · unfold AttrRel at a4 ⊢
      change AttrR m.tagAttrs m.tagHadDup m.attrName (m.attrValue ++ crnEff chars)
        (modLast (fun a => { a with value := a.value ++ crnEff chars }) t.attrs)
      generalize crnEff chars = cs
      rcases list_nil_or_concat t.attrs with hnil | ⟨pre, a, hpa⟩
      · exact absurd hnil hne
      · rw [hpa] at a4 ⊢
        rw [attrR_concat_iff] at a4
        obtain ⟨b1, b1', b2, b3, b4, b5⟩ := a4
        rw [modLast_concat, attrR_concat_iff]
        exact ⟨b1, b1', b2, b3, b4, by simp [b5]⟩
    · intro hu
      change isTagSt m.state = false at hu
      rw [htag] at hu; simp at hu
    · intro hu
      exfalso
      change usesTemp m.state = true at hu
      rw [hs] at hu; simp [usesTemp] at hu
    · intro hu
      exfalso
      have : usesTemp m.state = true := hu.2
      rw [hs] at this; simp [usesTemp] at this
    · unfold OutRel cdataBuf at hout ⊢
      change t.out = (List.map Emit.char (if isCdata m.state = true then m.tempBuf else []).reverse) ++ flat o'
      rw [hfl]; exact hout

/-- from the register part to the relation: nothing is stashed, nothing pending -/
theorem crn_relCore_done {m2 : Mach} {t2 : Tok} {inp2 rest2 : Str} (hreg : RegCore m2 t2) (hti : TInv m2)
    (hst : crStateOk m2.state) (hrc : m2.reconsume = false) (hil : m2.ignoreLf = false)
    (hin : rest2 = normalizeNewlinesFrom false inp2) : RelCore m2 inp2 t2 rest2 := by
  refine RelCore.ofRegCore hreg ?_ hti
  unfold InpRel
  rw [rc_false hrc, hil, stash_plain hreg.cr (crStateOk_facts hst).1 (crStateOk_facts hst).2.1]
  simpa using hin

theorem crn_crStateOk {m : Mach} {inp : Str} {t : Tok} {rest : Str} {cr : CharRefSt}
    (h : RelCore m inp t rest) (hcr : m.charRef = some cr) : crStateOk m.state :=
  h.tinv.linv.safe.crState cr hcr

theorem crn_spec_regs {m : Mach} {inp : Str} {t : Tok} {rest : Str} {cr : CharRefSt}
    (h : RelCore m inp t rest) (hcr : m.charRef = some cr)
    (hstn : cr.state = .named ∨ cr.state = .bogusName) :
    t.state = .namedCharacterReference ∧ t.temporaryBuffer = amp := by
  obtain ⟨_, _, _, hd⟩ := h.crRel hcr
  rcases hstn with hs | hs <;> rw [hs] at hd <;> exact ⟨hd.1, hd.2.1⟩

/-- **give up**: nothing matches; the specification goes to the ambiguous ampersand state, the model
is back in the return state and will read the name again -/
theorem crn_done_none (tree : Tree) {m : Mach} {inp : Str} {t : Tok} {rest : Str} {cr : CharRefSt}
    (h : RelCore m inp t rest) (hcr : m.charRef = some cr)
    (hstn : cr.state = .named ∨ cr.state = .bogusName)
    (o' : Out) (x : Option CharRefSt) (hfl : flat o' = flat m.out) (inp2 : Str)
    (hl : H5V.Spec.HtmlTokenizer.longestNamedReference rest = none)
    (hin : rest = normalizeNewlinesFrom false inp2)
    (hti : TInv (crnFin m o' false x [])) :
    Reach tree t rest (fun t' rest' => Rel (crnFin m o' false x []) inp2 t' rest') := by
  obtain ⟨hts, htb⟩ := crn_spec_regs h hcr hstn
  obtain ⟨_, hreg⟩ := crn_regCore_done h hcr o' false x hfl []
    (fun _ c hc => by simp [crnEff] at hc; subst hc; decide) .ambiguousAmpersand (Or.inr rfl)
  have hf := crn_fin_fields m o' false x []
  refine Reach.stepEq (n := 0)
    (t1 := (({ t with temporaryBuffer := amp } : Tok).flushCodePoints).setState .ambiguousAmpersand)
    ?_ (Reach.done (RelCore.toRel ?_))
  · rw [crn_sstep _ _ _ hts, crn_named_none _ _ hl htb]
  · exact crn_relCore_done hreg hti (by rw [hf.1]; exact crn_crStateOk h hcr)
      (by rw [hf.2.1]; exact (h.tinv.linv.cr cr hcr).2.1) hf.2.2.1 hin

/-- **resolved**: the characters of the longest match are flushed on both sides -/
theorem crn_done_val (tree : Tree) {m : Mach} {inp : Str} {t : Tok} {rest : Str} {cr : CharRefSt}
    (h : RelCore m inp t rest) (hcr : m.charRef = some cr)
    (hstn : cr.state = .named ∨ cr.state = .bogusName)
    (o' : Out) (x : Option CharRefSt) (hfl : flat o' = flat m.out) (inp2 : Str) (name : List Nat) (c1 c2 : Nat)
    (hl : H5V.Spec.HtmlTokenizer.longestNamedReference rest = some (name, c1, c2))
    (hexc : (t.returnState.inAttribute && !(name.getLast? == some 59) &&
          ((rest.drop name.length).head? == some '=' ||
           (rest.drop name.length).head?.any H5V.Spec.HtmlTokenizer.isAsciiAlphanumeric)) = false)
    (hin : rest.drop name.length = normalizeNewlinesFrom false inp2)
    (hv1 : isValidScalar c1 = true) (hv2 : isValidScalar c2 = true) (h10 : c1 ≠ 0)
    (hti : TInv (crnFin m o' false x (crnChars c1 c2))) :
    Reach tree t rest (fun t' rest' => Rel (crnFin m o' false x (crnChars c1 c2)) inp2 t' rest') := by
  obtain ⟨hts, htb⟩ := crn_spec_regs h hcr hstn
  have heff : crnEff (crnChars c1 c2) = crnChars c1 c2 := by
    unfold crnEff crnChars; split <;> rfl
  obtain ⟨_, hreg⟩ := crn_regCore_done h hcr o' false x hfl (crnChars c1 c2)
    (fun _ c hc => by
      rw [heff] at hc
      unfold crnChars at hc
      split at hc
      · simp at hc; subst hc; exact crn_ofNat_ne_nul c1 hv1 h10
      · rename_i h20
        simp at hc
        rcases hc with hc | hc
        · subst hc; exact crn_ofNat_ne_nul c1 hv1 h10
        · subst hc; exact crn_ofNat_ne_nul c2 hv2 h20) t.returnState.toSt (Or.inl rfl)
  rw [heff] at hreg
  have hf := crn_fin_fields m o' false x (crnChars c1 c2)
  refine Reach.stepEq (n := name.length)
    (t1 := (({ t with temporaryBuffer := crnChars c1 c2 } : Tok).flushCodePoints).setState t.returnState.toSt)
    ?_ (Reach.done (RelCore.toRel ?_))
  · rw [crn_sstep _ _ _ hts, crn_named_some _ _ _ _ _ hl]
    simp only [hexc, Bool.false_eq_true, if_false]
  · exact crn_relCore_done hreg hti (by rw [hf.1]; exact crn_crStateOk h hcr)
      (by rw [hf.2.1]; exact (h.tinv.linv.cr cr hcr).2.1) hf.2.2.1 hin

/-- **the attribute exception**: the specification flushes `&` and the name into the attribute value;
the model appends `&` and will read the name again: related with the name as lag -/
theorem crn_done_exc (tree : Tree) {m : Mach} {inp : Str} {t : Tok} {rest : Str} {cr : CharRefSt}
    (h : RelCore m inp t rest) (hcr : m.charRef = some cr)
    (hstn : cr.state = .named ∨ cr.state = .bogusName)
    (o' : Out) (x : Option CharRefSt) (hfl : flat o' = flat m.out) (lag inp0 : Str) (name : List Nat) (c1 c2 : Nat)
    (hl : H5V.Spec.HtmlTokenizer.longestNamedReference rest = some (name, c1, c2))
    (hexc : (t.returnState.inAttribute && !(name.getLast? == some 59) &&
          ((rest.drop name.length).head? == some '=' ||
           (rest.drop name.length).head?.any H5V.Spec.HtmlTokenizer.isAsciiAlphanumeric)) = true)
    (hlag : rest.take name.length = lag) (hlne : lag ≠ []) (hlch : ∀ c ∈ lag, lagCh c = true)
    (hin : rest.drop name.length = normalizeNewlinesFrom false inp0)
    (hti : TInv (crnFin m o' false x [])) :
    Reach tree t rest (fun t' rest' => Rel (crnFin m o' false x []) (lag ++ inp0) t' rest') := by
  obtain ⟨hts, htb⟩ := crn_spec_regs h hcr hstn
  obtain ⟨hret, hrs, _, _⟩ := h.crRel hcr
  have hia : t.returnState.inAttribute = true := by
    simp only [Bool.and_eq_true] at hexc; exact hexc.1.1
  obtain ⟨k, hs, hav⟩ : ∃ k, m.state = .attributeValue k ∧ isAttrValueState m.state = true := by
    rcases crn_ret_cases hret hrs with ⟨_, hia', _⟩ | ⟨k, hs, _, hav⟩
    · rw [hia] at hia'; simp at hia'
    · exact ⟨k, hs, hav⟩
  obtain ⟨_, hreg⟩ := crn_regCore_done h hcr o' false x hfl ('&' :: lag)
    (fun hx => by rw [hav] at hx; simp at hx) t.returnState.toSt (Or.inl rfl)
  have hf := crn_fin_fields m o' false x []
  have hf2 := crn_fin_fields m o' false x ('&' :: lag)
  have hrec : m.reconsume = false := (h.tinv.linv.cr cr hcr).2.1
  have hab : absorb (crnFin m o' false x []) lag = crnFin m o' false x ('&' :: lag) := by
    unfold absorb
    rw [if_neg hlne, hf.1, hav, if_pos rfl]
    unfold crnFin
    rw [crn_pcr_attr (crnBase m o' false x) [] k hs, crn_pcr_attr (crnBase m o' false x) ('&' :: lag) k hs]
    simp [appendValue, Mach.setCharRef, crnEff]
  have heff : crnEff ('&' :: lag) = t.temporaryBuffer ++ rest.take name.length := by
    rw [htb, hlag]; rfl
  rw [heff] at hreg
  refine Reach.stepEq (n := name.length)
    (t1 := (({ t with temporaryBuffer := t.temporaryBuffer ++ rest.take name.length } : Tok).flushCodePoints).setState
      t.returnState.toSt)
    ?_ (Reach.done ⟨lag, inp0, rfl, Or.inr ⟨?_, hf.2.2.2, ?_, hf.2.2.1, hlch⟩, ?_⟩)
  · rw [crn_sstep _ _ _ hts, crn_named_some _ _ _ _ _ hl]
    simp only [hexc, if_true]
  · rw [hf.1, hs]; rfl
  · rw [hf.2.1]; exact hrec
  · rw [hab]
    have hti2 : TInv (crnFin m o' false x ('&' :: lag)) := by rw [← hab]; exact tinv_absorb hti lag
    exact crn_relCore_done hreg hti2 (by rw [hf2.1]; exact crn_crStateOk h hcr)
      (by rw [hf2.2.1]; exact hrec) hf2.2.2.1 hin

/-! ## a consumed name character -/

/-- `Progress`: the specification does not move; the new registers -/
theorem crn_progress {m : Mach} {c : Char} {inp' : Str} {t : Tok} {rest : Str} {cr : CharRefSt}
    (h : RelCore m (c :: inp') t rest) (hcr : m.charRef = some cr)
    (hstn : cr.state = .named ∨ cr.state = .bogusName) (nb : Str) (hb : cr.nameBuf = some nb)
    (cr' : CharRefSt) (hnb' : cr'.nameBuf = some (nb ++ [c])) (hia : cr'.inAttr = cr.inAttr)
    (hst' : cr'.state = .named ∨ (cr'.state = .bogusName ∧ cr'.nameMatch = none))
    (hg : CRStG cr' cr'.state) (hti : TInv (m.setCharRef (some cr'))) :
    RelCore (m.setCharRef (some cr')) inp' t rest := by
  obtain ⟨hts, htb⟩ := crn_spec_regs h hcr hstn
  obtain ⟨hret, hrs, hin, _⟩ := h.crRel hcr
  obtain ⟨hil, hrec, _⟩ := h.tinv.linv.cr cr hcr
  refine RelCore.ofCR (cr := cr') (by simp) h.std ⟨hret, hrs, by rw [hia]; exact hin, ?_⟩ hg h.reg h.out ?_ hti
  · rcases hst' with hs | ⟨hs, hm⟩
    · rw [hs]; exact ⟨hts, htb, by rw [hnb']; simp⟩
    · rw [hs]; exact ⟨hts, htb, by rw [hnb']; simp, hm⟩
  · have hi := h.inp
    unfold InpRel at hi ⊢
    have hs1 : stash m = nb := by unfold stash; rw [hcr]; simp [hb]
    have hs2 : stash (m.setCharRef (some cr')) = nb ++ [c] := by unfold stash; simp [hnb']
    have hr2 : rc (m.setCharRef (some cr')) = rc m := by unfold rc; simp
    rw [hs2, hr2, setCharRef_ignoreLf, hi, hs1]
    simp

end H5V.Lemmas.HtmlTokSpec
