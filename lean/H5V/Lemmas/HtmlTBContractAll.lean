import H5V.Lemmas.HtmlTBContractSimple
import H5V.Lemmas.HtmlTBContractHead
import H5V.Lemmas.HtmlTBContractTable
import H5V.Lemmas.HtmlTBContractBody
import H5V.Lemmas.HtmlTBContractNew
/-!
# TreeSink contract for the HTML tree builder, part 11: all rules together, whole parses
-/
namespace H5V.Lemmas.TBC
open H5V.Model.HtmlTB
open H5V.Model.Dom (Id QualName Attr NodeOrText SinkOp Output ElementFlags QuirksMode Dom NodeData Node Contract)
open H5V.Props.C20 (Inv Run)
open H5V.Lemmas.TBSafe (IsEl nm sigOf Ext apply_ext)

variable {d0 : Dom}

theorem bodyH' : BodyH d0 := bodyH headH
theorem tableH' : TableH d0 := tableH headH bodyH'

/-- **every rule but Initial's** keeps `CB` and the stack-order invariant, issues only contract-abiding
sink calls, and answers `Reprocess` with a late mode and the same token -/
theorem stepH : StepH d0 := by
  intro m tok hm ht
  unfold step
  cases m with
  | initial => exact (hm rfl).elim
  | beforeHtml => exact rs_stepBeforeHtml tok ht
  | beforeHead => exact rs_stepBeforeHead bodyH' tok ht
  | inHead => exact rs_of_cpp (headH tok ht)
  | inHeadNoscript => exact rs_stepInHeadNoscript headH bodyH' tok ht
  | afterHead => exact rs_stepAfterHead' headH bodyH' tok ht
  | inBody => exact bodyH' tok ht
  | text => exact rs_stepText tok ht
  | inTable => exact tableH' tok ht
  | inTableText => exact rs_stepInTableText bodyH' tok ht
  | inCaption => exact rs_stepInCaption bodyH' tok ht
  | inColumnGroup => exact rs_stepInColumnGroup headH bodyH' tok ht
  | inTableBody => exact rs_stepInTableBody tableH' tok ht
  | inRow => exact rs_stepInRow tableH' tok ht
  | inCell => exact rs_stepInCell bodyH' tok ht
  | inTemplate => exact rs_stepInTemplate headH bodyH' tok ht
  | afterBody => exact rs_stepAfterBody bodyH' tok ht
  | inFrameset => exact rs_stepInFrameset headH bodyH' tok ht
  | afterFrameset => exact rs_stepAfterFrameset headH bodyH' tok ht
  | afterAfterBody => exact rs_stepAfterAfterBody bodyH' tok ht
  | afterAfterFrameset => exact rs_stepAfterAfterFrameset headH bodyH' tok ht

/-- tokens, then `end` -/
theorem satc_rest {s : State} (h : PI d0 s) {toks : List (TokToken × Nat)} (hok : TagsOk toks) :
    SatC (do
      let r ← processTokens toks []
      finishTB
      pure r) s (fun _ s' => DomI d0 s') := by
  refine (satc_processTokens stepH toks [] s h hok).bind ?_
  intro r s1 h1
  refine (satc_finishTB h1).bind ?_
  intro _ s2 h2
  exact satc_pure h2

end H5V.Lemmas.TBC
