import H5V.Lemmas.XmlRTCmt
/-!
C17, tokenizer half, part 5: runs over the pieces of serializer output — escaped text, escaped
attribute values, names, one attribute, a start tag with its attribute list, an end tag, a processing
instruction, a doctype.
-/
namespace H5V.Lemmas.XmlRT
open H5V.Model.XmlTok
open H5V.Model.XmlSer (SerCfg escape escapeChar)

/-- the next character exists and is not rewritten by the input preprocessing (needed behind a named
character reference, which is recognised with one character of look-ahead) -/
def OkHead (s : Str) : Prop := ∃ d t, s = d :: t ∧ d ≠ '\r' ∧ d ≠ '\x00'

theorem okHead_cons (d : Char) (t : Str) (h1 : d ≠ '\r') (h2 : d ≠ '\x00') : OkHead (d :: t) := ⟨d, t, rfl, h1, h2⟩

/-! ### references in text and in attribute values -/

theorem named_ref_data (o : Opts) (ho : o.exactErrors = false) (nm : Str) (v : Nat) (hr : RefOk nm v)
    (m : Mach) (rest : Str) (hrest : OkHead rest) (h : Ctl m .data) (hn : Clean m) :
    ∃ m', Reach o m ('&' :: nm ++ rest) m' rest ∧ Ctl m' .data ∧ Clean m' ∧
      cvOut m'.out = cvOut m.out ++ [.chars [Char.ofNat v]] := by
  obtain ⟨d, t, rfl, d1, d2⟩ := hrest
  obtain ⟨m1, e1, c1, n1, o1⟩ := data_amp o ho m (nm ++ d :: t) h hn
  obtain ⟨m2, cr, r2, c2, dn, n2, o2⟩ := ref_read o ho .data carried_clean (d :: t) nm v hr none (Or.inl rfl) m1 c1 n1
  obtain ⟨m3, e3, c3, n3, o3⟩ := cr_finish_data o ho m2 d t cr nm v c2 n2 dn hr d1 d2
  refine ⟨m3, Reach.cons e1 (Reach.trans r2 (Reach.one e3)), c3, n3, ?_⟩
  rw [o3, cvOut_cons, o2, o1]; rfl

theorem named_ref_attr (o : Opts) (ho : o.exactErrors = false) (nm : Str) (v : Nat) (hr : RefOk nm v)
    (m : Mach) (rest : Str) (hrest : OkHead rest) (k : TagKind) (tn : Str) (as : List Attr) (an av : Str)
    (h : Ctl m (.tagAttrValue .doubleQuoted)) (hg : Regs m k tn as an av) :
    ∃ m', Reach o m ('&' :: nm ++ rest) m' rest ∧ Ctl m' (.tagAttrValue .doubleQuoted) ∧
      Regs m' k tn as an (av ++ [Char.ofNat v]) ∧ cvOut m'.out = cvOut m.out := by
  obtain ⟨d, t, rfl, d1, d2⟩ := hrest
  obtain ⟨m1, e1, c1, n1, o1⟩ := val_amp o ho m (nm ++ d :: t) k tn as an av h hg
  obtain ⟨m2, cr, r2, c2, dn, n2, o2⟩ := ref_read o ho _ (carried_regs k tn as an av) (d :: t) nm v hr (some '"')
    (Or.inr rfl) m1 c1 n1
  obtain ⟨m3, e3, c3, n3, o3⟩ := cr_finish_attr o ho m2 d t cr nm v k tn as an av c2 n2 dn hr d1 d2
  refine ⟨m3, Reach.cons e1 (Reach.trans r2 (Reach.one e3)), c3, n3, ?_⟩
  rw [o3, o2, o1]

theorem num13_data (o : Opts) (ho : o.exactErrors = false) (m : Mach) (rest : Str)
    (h : Ctl m .data) (hn : Clean m) :
    ∃ m', Reach o m ('&' :: '#' :: '1' :: '3' :: ';' :: rest) m' rest ∧ Ctl m' .data ∧ Clean m' ∧
      cvOut m'.out = cvOut m.out ++ [.chars ['\r']] := by
  obtain ⟨m1, e1, c1, n1, o1⟩ := data_amp o ho m ('#' :: '1' :: '3' :: ';' :: rest) h hn
  obtain ⟨m2, r2, c2, n2, o2⟩ := ref_num13 o ho .data carried_clean rest none (Or.inl rfl) m1 c1 n1
  obtain ⟨m3, e3, c3, n3, o3⟩ := cr_num13_data o ho m2 rest none c2 n2
  refine ⟨m3, Reach.cons e1 (Reach.trans r2 (Reach.one e3)), c3, n3, ?_⟩
  rw [o3, o2, o1]

theorem num13_attr (o : Opts) (ho : o.exactErrors = false) (m : Mach) (rest : Str)
    (k : TagKind) (tn : Str) (as : List Attr) (an av : Str)
    (h : Ctl m (.tagAttrValue .doubleQuoted)) (hg : Regs m k tn as an av) :
    ∃ m', Reach o m ('&' :: '#' :: '1' :: '3' :: ';' :: rest) m' rest ∧ Ctl m' (.tagAttrValue .doubleQuoted) ∧
      Regs m' k tn as an (av ++ ['\r']) ∧ cvOut m'.out = cvOut m.out := by
  obtain ⟨m1, e1, c1, n1, o1⟩ := val_amp o ho m ('#' :: '1' :: '3' :: ';' :: rest) k tn as an av h hg
  obtain ⟨m2, r2, c2, n2, o2⟩ := ref_num13 o ho _ (carried_regs k tn as an av) rest (some '"') (Or.inr rfl) m1 c1 n1
  obtain ⟨m3, e3, c3, n3, o3⟩ := cr_num13_attr o ho m2 rest (some '"') k tn as an av c2 n2
  refine ⟨m3, Reach.cons e1 (Reach.trans r2 (Reach.one e3)), c3, n3, ?_⟩
  rw [o3, o2, o1]

/-! ### escaped text -/

theorem okHead_escapeChar (am : Bool) (c : Char) (hc : c ≠ '\x00') (x : Str) :
    OkHead (escapeChar SerCfg.fixed am c ++ x) := by
  unfold escapeChar
  (repeat' split) <;> first
    | exact okHead_cons _ _ (by decide) (by decide)
    | (rename_i h6; simp only [SerCfg.fixed, and_true] at h6; exact okHead_cons _ _ h6 hc)

theorem okHead_escape (am : Bool) (s : Str) (hs : ∀ c ∈ s, c ≠ '\x00') (x : Str) (hx : OkHead x) :
    OkHead (escape SerCfg.fixed am s ++ x) := by
  cases s with
  | nil => simpa [escape] using hx
  | cons c t =>
    simp only [escape, List.map_cons, List.flatten_cons, List.append_assoc]
    exact okHead_escapeChar am c (hs c (by simp)) _

/-- one character of text, as the serializer writes it -/
theorem text_char (o : Opts) (ho : o.exactErrors = false) (m : Mach) (c : Char) (rest : Str)
    (hc : c ≠ '\x00') (hrest : OkHead rest) (h : Ctl m .data) (hn : Clean m) :
    ∃ m', Reach o m (escapeChar SerCfg.fixed false c ++ rest) m' rest ∧ Ctl m' .data ∧ Clean m' ∧
      cvOut m'.out = cvOut m.out ++ [.chars [c]] := by
  have he : escapeChar SerCfg.fixed false c =
      if c = '&' then ['&', 'a', 'm', 'p', ';'] else if c = '<' then ['&', 'l', 't', ';']
      else if c = '>' then ['&', 'g', 't', ';'] else if c = '\r' then ['&', '#', '1', '3', ';'] else [c] := by
    simp [escapeChar, SerCfg.fixed]
  rw [he]
  by_cases h1 : c = '&'
  · subst h1; rw [if_pos rfl]; exact named_ref_data o ho nAmp 38 refOk_amp m rest hrest h hn
  rw [if_neg h1]
  by_cases h2 : c = '<'
  · subst h2; rw [if_pos rfl]; exact named_ref_data o ho nLt 60 refOk_lt m rest hrest h hn
  rw [if_neg h2]
  by_cases h3 : c = '>'
  · subst h3; rw [if_pos rfl]; exact named_ref_data o ho nGt 62 refOk_gt m rest hrest h hn
  rw [if_neg h3]
  by_cases h4 : c = '\r'
  · subst h4; rw [if_pos rfl]; exact num13_data o ho m rest h hn
  rw [if_neg h4]
  obtain ⟨m', e, c', n', o'⟩ := data_plain o ho m c rest h hn ⟨hc, h4, h1, h2⟩
  exact ⟨m', Reach.one e, c', n', by rw [o', cvOut_cons]; rfl⟩

theorem text_run (o : Opts) (ho : o.exactErrors = false) (rest : Str) (hrest : OkHead rest) :
    ∀ (s : Str) (m : Mach), (∀ c ∈ s, c ≠ '\x00') → Ctl m .data → Clean m →
      ∃ m', Reach o m (escape SerCfg.fixed false s ++ rest) m' rest ∧ Ctl m' .data ∧ Clean m' ∧
        cvOut m'.out = cvOut m.out ++ s.map (fun c => .chars [c]) := by
  intro s
  induction s with
  | nil => intro m _ h hn; exact ⟨m, by simpa [escape] using Reach.refl _ _, h, hn, by simp⟩
  | cons c t ih =>
    intro m hs h hn
    have hs' : ∀ d ∈ t, d ≠ '\x00' := fun d hd => hs d (by simp [hd])
    obtain ⟨m1, r1, c1, n1, o1⟩ := text_char o ho m c (escape SerCfg.fixed false t ++ rest) (hs c (by simp))
      (okHead_escape false t hs' rest hrest) h hn
    obtain ⟨m2, r2, c2, n2, o2⟩ := ih m1 hs' c1 n1
    refine ⟨m2, ?_, c2, n2, ?_⟩
    · simp only [escape, List.map_cons, List.flatten_cons, List.append_assoc]
      exact Reach.trans r1 r2
    · rw [o2, o1]; simp

/-! ### escaped attribute values -/

theorem val_char (o : Opts) (ho : o.exactErrors = false) (m : Mach) (c : Char) (rest : Str)
    (hc : c ≠ '\x00') (hrest : OkHead rest) (k : TagKind) (tn : Str) (as : List Attr) (an av : Str)
    (h : Ctl m (.tagAttrValue .doubleQuoted)) (hg : Regs m k tn as an av) :
    ∃ m', Reach o m (escapeChar SerCfg.fixed true c ++ rest) m' rest ∧ Ctl m' (.tagAttrValue .doubleQuoted) ∧
      Regs m' k tn as an (av ++ [c]) ∧ cvOut m'.out = cvOut m.out := by
  have he : escapeChar SerCfg.fixed true c =
      if c = '&' then ['&', 'a', 'm', 'p', ';'] else if c = '\'' then ['&', 'a', 'p', 'o', 's', ';']
      else if c = '"' then ['&', 'q', 'u', 'o', 't', ';'] else if c = '\r' then ['&', '#', '1', '3', ';'] else [c] := by
    simp [escapeChar, SerCfg.fixed]
  rw [he]
  by_cases h1 : c = '&'
  · subst h1; rw [if_pos rfl]; exact named_ref_attr o ho nAmp 38 refOk_amp m rest hrest k tn as an av h hg
  rw [if_neg h1]
  by_cases h2 : c = '\''
  · subst h2; rw [if_pos rfl]; exact named_ref_attr o ho nApos 39 refOk_apos m rest hrest k tn as an av h hg
  rw [if_neg h2]
  by_cases h3 : c = '"'
  · subst h3; rw [if_pos rfl]; exact named_ref_attr o ho nQuot 34 refOk_quot m rest hrest k tn as an av h hg
  rw [if_neg h3]
  by_cases h4 : c = '\r'
  · subst h4; rw [if_pos rfl]; exact num13_attr o ho m rest k tn as an av h hg
  rw [if_neg h4]
  obtain ⟨m', e, c', n', o'⟩ := val_plain o ho m c rest k tn as an av h hg ⟨hc, h4, h3, h1⟩
  exact ⟨m', Reach.one e, c', n', by rw [o']⟩

theorem val_run (o : Opts) (ho : o.exactErrors = false) (rest : Str) (hrest : OkHead rest)
    (k : TagKind) (tn : Str) (as : List Attr) (an : Str) :
    ∀ (v : Str) (av : Str) (m : Mach), (∀ c ∈ v, c ≠ '\x00') → Ctl m (.tagAttrValue .doubleQuoted) →
      Regs m k tn as an av →
      ∃ m', Reach o m (escape SerCfg.fixed true v ++ rest) m' rest ∧ Ctl m' (.tagAttrValue .doubleQuoted) ∧
        Regs m' k tn as an (av ++ v) ∧ cvOut m'.out = cvOut m.out := by
  intro v
  induction v with
  | nil => intro av m _ h hg; exact ⟨m, by simpa [escape] using Reach.refl _ _, h, by simpa using hg, rfl⟩
  | cons c t ih =>
    intro av m hs h hg
    have hs' : ∀ d ∈ t, d ≠ '\x00' := fun d hd => hs d (by simp [hd])
    obtain ⟨m1, r1, c1, n1, o1⟩ := val_char o ho m c (escape SerCfg.fixed true t ++ rest) (hs c (by simp))
      (okHead_escape true t hs' rest hrest) k tn as an av h hg
    obtain ⟨m2, r2, c2, n2, o2⟩ := ih (av ++ [c]) m1 hs' c1 n1
    refine ⟨m2, ?_, c2, by simpa using n2, by rw [o2, o1]⟩
    simp only [escape, List.map_cons, List.flatten_cons, List.append_assoc]
    exact Reach.trans r1 r2

end H5V.Lemmas.XmlRT
