import H5V.Lemmas.HtmlTokSpecStepDefs
set_option linter.unusedSimpArgs false
/-!
# C01 simulation — layer L2, the look-ahead states: reader lemmas

* newline normalisation (`normalizeNewlinesFrom`) against the model's reader (`getChar`, `eat`);
* `eatCmp` against the specification's `nextAre` / `nextAreCaseInsensitive`;
* `look_eat`: one `Tokenizer::eat` under the input relation `InpRel`;
* `look_getChar_some` / `look_getChar_none`: one `get_char` under `InpRel`.

The step lemmas `stepMdo_sim`, `stepBav_sim`, `stepAdn_sim` are in `HtmlTokSpecLook2.lean`.
-/
namespace H5V.Lemmas.HtmlTokSpec
open H5V.Model.HtmlTok
open H5V.Spec.HtmlTokenizer (St Tok Emit Tree Switch Ctl ReturnSt normalizeNewlinesFrom)

/-! ## newline normalisation -/

@[simp] theorem look_norm_nil (b : Bool) : normalizeNewlinesFrom b [] = [] := by
  simp [normalizeNewlinesFrom]

theorem look_norm_cr (b : Bool) (s : Str) :
    normalizeNewlinesFrom b ('\r' :: s) = '\n' :: normalizeNewlinesFrom true s := by
  simp [normalizeNewlinesFrom]

theorem look_norm_lf_true (s : Str) :
    normalizeNewlinesFrom true ('\n' :: s) = normalizeNewlinesFrom false s := by
  simp [normalizeNewlinesFrom]

theorem look_norm_lf_false (s : Str) :
    normalizeNewlinesFrom false ('\n' :: s) = '\n' :: normalizeNewlinesFrom false s := by
  simp [normalizeNewlinesFrom]

theorem look_norm_plain (b : Bool) (c : Char) (s : Str) (h1 : c ≠ '\r') (h2 : c ≠ '\n') :
    normalizeNewlinesFrom b (c :: s) = c :: normalizeNewlinesFrom false s := by
  simp [normalizeNewlinesFrom, h1, h2]

/-- the pending-LF flag only matters for a LF -/
theorem look_norm_flag (c : Char) (s : Str) (h : c ≠ '\n') :
    normalizeNewlinesFrom true (c :: s) = normalizeNewlinesFrom false (c :: s) := by
  simp [normalizeNewlinesFrom, h]

theorem look_brk_ne {c : Char} (h : isBrk c = false) : c ≠ '\r' ∧ c ≠ '\n' := by
  simp only [isBrk, Bool.or_eq_false_iff, decide_eq_false_iff_not] at h
  exact ⟨h.2, h.1⟩

/-! ## `eatCmp` on the raw and on the normalised text -/

/-- a keyword without line breaks matches the raw text iff it matches the normalised text -/
theorem look_eatCmp_norm (eq : Char → Char → Bool) (all pat : Str) (hp : PatOk eq pat) :
    eatCmp eq (normalizeNewlinesFrom false all) pat = eatCmp eq all pat := by
  induction all generalizing pat with
  | nil => simp
  | cons c s ih =>
    cases pat with
    | nil => simp [eatCmp]
    | cons p ps =>
      have hp' : PatOk eq ps := fun q hq => hp q (List.mem_cons_of_mem _ hq)
      obtain ⟨p1, p2⟩ := hp p (List.mem_cons_self ..)
      by_cases h1 : c = '\r'
      · subst h1
        rw [look_norm_cr]
        simp [eatCmp, p1, p2]
      · by_cases h2 : c = '\n'
        · subst h2
          rw [look_norm_lf_false]
          simp [eatCmp, p1]
        · rw [look_norm_plain _ _ _ h1 h2]
          simp only [eatCmp]
          rw [ih ps hp']

/-- the matched keyword is the same text on both sides: dropping it commutes with normalisation -/
theorem look_eatCmp_drop (eq : Char → Char → Bool) (all pat : Str) (hp : PatOk eq pat)
    (h : eatCmp eq all pat = some true) :
    (normalizeNewlinesFrom false all).drop pat.length = normalizeNewlinesFrom false (all.drop pat.length) := by
  induction all generalizing pat with
  | nil =>
    cases pat with
    | nil => simp
    | cons p ps => simp [eatCmp] at h
  | cons c s ih =>
    cases pat with
    | nil => simp
    | cons p ps =>
      have hp' : PatOk eq ps := fun q hq => hp q (List.mem_cons_of_mem _ hq)
      simp only [eatCmp] at h
      split at h
      · rename_i he
        obtain ⟨h1, h2⟩ := look_brk_ne (patOk_not_brk hp c p (List.mem_cons_self ..) he)
        rw [look_norm_plain _ _ _ h1 h2]
        simpa using ih ps hp' h
      · simp at h

/-- exact comparison: `eatCmp` = the specification's "the next few characters are" -/
theorem look_eatCmp_exact (s pat : Str) :
    (eatCmp eqExact s pat = some true) ↔ s.take pat.length = pat := by
  induction s generalizing pat with
  | nil =>
    cases pat with
    | nil => simp [eatCmp]
    | cons p ps => simp [eatCmp]
  | cons c s ih =>
    cases pat with
    | nil => simp [eatCmp]
    | cons p ps =>
      simp only [eatCmp, eqExact, beq_iff_eq, List.length_cons, List.take_succ_cons, List.cons.injEq]
      by_cases hc : c = p
      · simp [hc, ih ps]
      · simp [hc]

/-- ASCII case-insensitive comparison with a lower-case keyword -/
theorem look_eatCmp_ci (s pat : Str) (hl : ∀ p ∈ pat, toAsciiLower p = p) :
    (eatCmp eqCi s pat = some true) ↔ (s.take pat.length).map H5V.Spec.HtmlTokenizer.lowercase = pat := by
  induction s generalizing pat with
  | nil =>
    cases pat with
    | nil => simp [eatCmp]
    | cons p ps => simp [eatCmp]
  | cons c s ih =>
    cases pat with
    | nil => simp [eatCmp]
    | cons p ps =>
      have hl' : ∀ q ∈ ps, toAsciiLower q = q := fun q hq => hl q (List.mem_cons_of_mem _ hq)
      have hpl := hl p (List.mem_cons_self ..)
      simp only [eatCmp, eqCi, beq_iff_eq, List.length_cons, List.take_succ_cons, List.map_cons, List.cons.injEq,
        hpl, ← toAsciiLower_eq]
      by_cases hc : toAsciiLower c = p
      · simp [hc, ih ps hl']
      · simp [hc]

/-! ## `Tokenizer::eat` under the input relation -/

theorem look_eatSkipLf (m : Mach) (inp : Str) (hr : m.reconsume = false) (hok : EatOk m) :
    (eatSkipLf m inp).1 = { m with ignoreLf := (eatSkipLf m inp).1.ignoreLf } ∧
    normalizeNewlinesFrom (eatSkipLf m inp).1.ignoreLf ((eatSkipLf m inp).1.tempBuf ++ (eatSkipLf m inp).2)
      = normalizeNewlinesFrom m.ignoreLf (m.tempBuf ++ inp) ∧
    ((eatSkipLf m inp).1.ignoreLf = true → (eatSkipLf m inp).1.tempBuf ++ (eatSkipLf m inp).2 = []) := by
  obtain ⟨st, cr, cc, rcn, il, tk, tn, tsc, thd, ta, an0, av0, com, dt, lst, tb, ln, ae, db, out⟩ := m
  simp only [EatOk] at hr hok
  subst hr
  unfold eatSkipLf
  cases il with
  | false => simp
  | true =>
    have ht := hok rfl
    subst ht
    have hr : ∀ b, (Mach.mk st cr cc false b tk tn tsc thd ta an0 av0 com dt lst [] ln ae db out).reconsume = false :=
      fun _ => rfl
    have hil : (Mach.mk st cr cc false true tk tn tsc thd ta an0 av0 com dt lst [] ln ae db out).ignoreLf = true := rfl
    cases inp with
    | nil => simp [peek]
    | cons c rest =>
      simp only [peek, hr, Bool.false_eq_true, ↓reduceIte, List.head?_cons]
      by_cases hc : c = '\n'
      · subst hc
        simp [discardChar, look_norm_lf_true, Mach.setIgnoreLf]
      · simp [hc, look_norm_flag c rest hc, Mach.setIgnoreLf]

/-- **one `eat` under `InpRel`**: `N` is what the specification still has to read. The model's
answer is the specification's test on `N`; a matched keyword is dropped on both sides; otherwise
nothing is consumed (a suspended `eat` has moved everything into the stash). -/
theorem look_eat (m : Mach) (inp pat : Str) (eq : Char → Char → Bool)
    (hr : m.reconsume = false) (hok : EatOk m) (hp : PatOk eq pat) (hne : pat ≠ [])
    (b : Option Bool) (m1 : Mach) (i1 : Str) (h : eat m inp pat eq = (b, m1, i1)) :
    m1 = { m with ignoreLf := m1.ignoreLf, tempBuf := m1.tempBuf } ∧
    (m1.ignoreLf = true → m1.tempBuf = [] ∧ i1 = []) ∧
    (b = some true →
      eatCmp eq (normalizeNewlinesFrom m.ignoreLf (m.tempBuf ++ inp)) pat = some true ∧
      normalizeNewlinesFrom m1.ignoreLf i1 = (normalizeNewlinesFrom m.ignoreLf (m.tempBuf ++ inp)).drop pat.length ∧
      m1.tempBuf = [] ∧ m1.ignoreLf = false) ∧
    (b = some false →
      eatCmp eq (normalizeNewlinesFrom m.ignoreLf (m.tempBuf ++ inp)) pat ≠ some true ∧
      normalizeNewlinesFrom m1.ignoreLf i1 = normalizeNewlinesFrom m.ignoreLf (m.tempBuf ++ inp) ∧
      m1.tempBuf = []) ∧
    (b = none →
      normalizeNewlinesFrom m1.ignoreLf (m1.tempBuf ++ i1) = normalizeNewlinesFrom m.ignoreLf (m.tempBuf ++ inp)) := by
  rw [eat_eq_core] at h
  obtain ⟨f1, f2, f3⟩ := look_eatSkipLf m inp hr hok
  generalize (eatSkipLf m inp).1 = mi at *
  generalize (eatSkipLf m inp).2 = ii at *
  rw [← f2]
  generalize hall : mi.tempBuf ++ ii = all at *
  -- the comparison sees the same on the raw and on the normalised text
  have hN : eatCmp eq (normalizeNewlinesFrom mi.ignoreLf all) pat = eatCmp eq all pat := by
    cases hx : mi.ignoreLf with
    | false => exact look_eatCmp_norm eq all pat hp
    | true => rw [f3 hx]; simp
  have hmach : ∀ tb, mi.setTempBuf tb = { m with ignoreLf := mi.ignoreLf, tempBuf := tb } := by
    intro tb; rw [f1]; rfl
  unfold eatCore at h
  cases hc : eatCmp eq all pat with
  | none =>
    cases hae : mi.atEof with
    | true =>
      simp only [hc, hae, ↓reduceIte, Prod.mk.injEq] at h
      obtain ⟨hb, hm1, hi1⟩ := h
      subst hb hm1 hi1
      refine ⟨by rw [hmach], fun hx => ⟨rfl, f3 (by simpa using hx)⟩, by simp, fun _ => ⟨?_, rfl, rfl⟩, by simp⟩
      show eatCmp eq (normalizeNewlinesFrom mi.ignoreLf all) pat ≠ some true
      rw [hN, hc]; simp
    | false =>
      simp only [hc, hae, Bool.false_eq_true, ↓reduceIte, Prod.mk.injEq] at h
      obtain ⟨hb, hm1, hi1⟩ := h
      subst hb hm1 hi1
      refine ⟨by rw [hmach], fun hx => ⟨f3 (by simpa using hx), rfl⟩, by simp, by simp, fun _ => by simp [Mach.setTempBuf]⟩
  | some bb =>
    have hne' : all ≠ [] := by
      intro hnil
      rw [hnil] at hc
      cases pat with
      | nil => exact hne rfl
      | cons p ps => simp [eatCmp] at hc
    have hig : mi.ignoreLf = false := by
      cases hx : mi.ignoreLf with
      | false => rfl
      | true => exact absurd (f3 hx) hne'
    cases bb with
    | false =>
      simp only [hc, Prod.mk.injEq] at h
      obtain ⟨hb, hm1, hi1⟩ := h
      subst hb hm1 hi1
      refine ⟨by rw [hmach], fun hx => by simp [hig] at hx, by simp, fun _ => ⟨?_, rfl, rfl⟩, by simp⟩
      show eatCmp eq (normalizeNewlinesFrom mi.ignoreLf all) pat ≠ some true
      rw [hN, hc]; simp
    | true =>
      simp only [hc, Prod.mk.injEq] at h
      obtain ⟨hb, hm1, hi1⟩ := h
      subst hb hm1 hi1
      refine ⟨by rw [hmach], fun hx => by simp [hig] at hx, fun _ => ⟨?_, ?_, rfl, by simpa using hig⟩, by simp, by simp⟩
      · rw [hN, hc]
      · simp only [Mach.setTempBuf]
        rw [hig]
        exact (look_eatCmp_drop eq all pat hp hc).symm

/-! ## `get_char` under the input relation -/

theorem look_foldChar (o : Opts) (ho : o.exactErrors = false) (m : Mach) (hr : m.reconsume = false)
    (hil : m.ignoreLf = false) (x : Char) (xs : Str) :
    normalizeNewlinesFrom false (x :: xs)
      = (foldChar o m x).1 :: normalizeNewlinesFrom (foldChar o m x).2.ignoreLf xs ∧
    (foldChar o m x).2
      = readerUpd m (foldChar o m x).2.ignoreLf false (foldChar o m x).2.line (foldChar o m x).1 := by
  obtain ⟨st, cr, cc, rcn, il, tk, tn, tsc, thd, ta, an0, av0, com, dt, lst, tb, ln, ae, db, out⟩ := m
  simp only at hr hil
  subst hr hil
  unfold foldChar
  by_cases h1 : x = '\r'
  · subst h1
    simp [ho, look_norm_cr, readerUpd, Mach.setIgnoreLf, Mach.bumpLine, Mach.setCurrentChar]
  · by_cases h2 : x = '\n'
    · subst h2
      simp [ho, look_norm_lf_false, readerUpd, Mach.setIgnoreLf, Mach.bumpLine, Mach.setCurrentChar]
    · simp [ho, h1, h2, look_norm_plain, readerUpd, Mach.setIgnoreLf, Mach.bumpLine, Mach.setCurrentChar]

/-- a successful `get_char` (nothing to reconsume): the character delivered is the next character of
the normalised text, and only the reader's registers change -/
theorem look_getChar_some (o : Opts) (ho : o.exactErrors = false) (m : Mach) (inp : Str)
    (hr : m.reconsume = false) (c : Char) (m1 : Mach) (i1 : Str) (h : getChar o m inp = (some c, m1, i1)) :
    normalizeNewlinesFrom m.ignoreLf inp = c :: normalizeNewlinesFrom m1.ignoreLf i1 ∧
    m1 = readerUpd m m1.ignoreLf false m1.line c := by
  unfold getChar at h
  simp only [hr, Bool.false_eq_true, ↓reduceIte] at h
  cases inp with
  | nil => simp at h
  | cons x xs =>
    simp only at h
    unfold preprocess at h
    have hr' : (m.setIgnoreLf false).reconsume = false := by simpa using hr
    have hil' : (m.setIgnoreLf false).ignoreLf = false := rfl
    have hru : ∀ a b d, readerUpd (m.setIgnoreLf false) a false b d = readerUpd m a false b d := fun _ _ _ => rfl
    cases hil : m.ignoreLf with
    | true =>
      simp only [hil, ↓reduceIte] at h
      by_cases hx : x = '\n'
      · subst hx
        simp only [↓reduceIte] at h
        cases xs with
        | nil => simp at h
        | cons y ys =>
          simp only [Prod.mk.injEq, Option.some.injEq] at h
          obtain ⟨e1, e2, e3⟩ := h
          obtain ⟨g1, g2⟩ := look_foldChar o ho (m.setIgnoreLf false) hr' hil' y ys
          rw [look_norm_lf_true, g1, e1, e2, e3]
          refine ⟨rfl, ?_⟩
          rw [e1, e2, hru] at g2
          exact g2
      · simp only [hx, ↓reduceIte, Prod.mk.injEq, Option.some.injEq] at h
        obtain ⟨e1, e2, e3⟩ := h
        obtain ⟨g1, g2⟩ := look_foldChar o ho (m.setIgnoreLf false) hr' hil' x xs
        rw [look_norm_flag x xs hx, g1, e1, e2, e3]
        refine ⟨rfl, ?_⟩
        rw [e1, e2, hru] at g2
        exact g2
    | false =>
      simp only [hil, Bool.false_eq_true, ↓reduceIte, Prod.mk.injEq, Option.some.injEq] at h
      obtain ⟨e1, e2, e3⟩ := h
      obtain ⟨g1, g2⟩ := look_foldChar o ho m hr hil x xs
      rw [g1, e1, e2, e3]
      refine ⟨rfl, ?_⟩
      rw [e1, e2] at g2
      exact g2

/-- a suspended `get_char`: the normalised text is exhausted on both sides -/
theorem look_getChar_none (o : Opts) (m : Mach) (inp : Str) (hr : m.reconsume = false)
    (m1 : Mach) (i1 : Str) (h : getChar o m inp = (none, m1, i1)) :
    normalizeNewlinesFrom m.ignoreLf inp = [] ∧ i1 = [] ∧
    m1 = readerUpd m m1.ignoreLf false m.line m.currentChar := by
  obtain ⟨h1, _, h3⟩ := getChar_none o m m1 inp i1 h
  obtain ⟨st, cr, cc, rcn, il, tk, tn, tsc, thd, ta, an0, av0, com, dt, lst, tb, ln, ae, db, out⟩ := m
  simp only at hr
  subst hr
  rcases h3 with ⟨h3, h4⟩ | ⟨h3, h4, h5⟩
  · subst h3 h4; exact ⟨by simp, h1, rfl⟩
  · simp only at h4
    subst h3 h4 h5
    exact ⟨by simp [look_norm_lf_true], h1, rfl⟩

/-- the two lemmas in the form of the input relation -/
theorem look_getChar_inp (o : Opts) (ho : o.exactErrors = false) (m : Mach) (inp rest : Str)
    (hr : m.reconsume = false) (hst : stash m = []) (hi : InpRel m inp rest)
    (c : Char) (m1 : Mach) (inp1 : Str) (h : getChar o m inp = (some c, m1, inp1)) :
    ∃ rest1, rest = c :: rest1 ∧ rest1 = normalizeNewlinesFrom m1.ignoreLf inp1 ∧
      m1 = readerUpd m m1.ignoreLf false m1.line c := by
  obtain ⟨g1, g2⟩ := look_getChar_some o ho m inp hr c m1 inp1 h
  unfold InpRel at hi
  rw [rc_false hr, hst] at hi
  exact ⟨_, by rw [hi]; simpa using g1, rfl, g2⟩

theorem look_getChar_inp_none (o : Opts) (m : Mach) (inp rest : Str)
    (hr : m.reconsume = false) (hst : stash m = []) (hi : InpRel m inp rest)
    (m1 : Mach) (inp1 : Str) (h : getChar o m inp = (none, m1, inp1)) :
    rest = [] ∧ inp1 = [] ∧ m1 = readerUpd m m1.ignoreLf false m.line m.currentChar := by
  obtain ⟨g1, g2, g3⟩ := look_getChar_none o m inp hr m1 inp1 h
  unfold InpRel at hi
  rw [rc_false hr, hst] at hi
  exact ⟨by rw [hi]; simpa using g1, g2, g3⟩

end H5V.Lemmas.HtmlTokSpec
