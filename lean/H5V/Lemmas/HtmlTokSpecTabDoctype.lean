import H5V.Lemmas.HtmlTokSpecTac
set_option linter.unusedSimpArgs false
/-!
# C01 simulation — table lemmas (`TabOk`) of the DOCTYPE states

`.doctype`, `.beforeDoctypeName`, `.doctypeName`, the table part of `.afterDoctypeName`,
`.afterDoctypeKeyword k`, `.beforeDoctypeIdentifier k`, `.doctypeIdentifierDoubleQuoted k`,
`.doctypeIdentifierSingleQuoted k`, `.afterDoctypeIdentifier k`,
`.betweenDoctypePublicAndSystemIdentifiers`, `.bogusDoctype`; dispatcher `tab_doctype`.

Local variants of the tactics of `HtmlTokSpecTac` (`dt_step`, `dt_done`, `dt_leaf`, `dt_cases`,
`dt_state`): the specification's step also unfolds `afterDoctypeNameState` (which looks at the whole
remaining input), and the model's `optPush` is rewritten with `optPush_eq` (the specification's
`Option.getD` form) instead of being unfolded.
-/
namespace H5V.Lemmas.HtmlTokSpec
open H5V.Model.HtmlTok
open H5V.Spec.HtmlTokenizer (St Tok Emit Tree Switch Ctl ReturnSt)

/-- the model's `optPush` in the form of the specification's `append…` operations -/
theorem optPush_eq (o : Option Str) (c : Char) : optPush o c = some (o.getD [] ++ [c]) := by
  cases o <;> rfl

/-- one step of the specification, computed (variant of `spec_step` for the DOCTYPE states) -/
macro "dt_step" : tactic => `(tactic| (
  refine Reach.step' ?_ ?_ <;>
  simp (config := {decide := true}) [sstep, H5V.Spec.HtmlTokenizer.step,
    H5V.Spec.HtmlTokenizer.dataState,
    H5V.Spec.HtmlTokenizer.doctypeState, H5V.Spec.HtmlTokenizer.beforeDoctypeNameState,
    H5V.Spec.HtmlTokenizer.doctypeNameState, H5V.Spec.HtmlTokenizer.afterDoctypeNameState,
    H5V.Spec.HtmlTokenizer.afterDoctypePublicKeywordState, H5V.Spec.HtmlTokenizer.beforeDoctypePublicIdentifierState,
    H5V.Spec.HtmlTokenizer.doctypePublicIdentifierDoubleQuotedState,
    H5V.Spec.HtmlTokenizer.doctypePublicIdentifierSingleQuotedState,
    H5V.Spec.HtmlTokenizer.afterDoctypePublicIdentifierState,
    H5V.Spec.HtmlTokenizer.betweenDoctypePublicAndSystemIdentifiersState,
    H5V.Spec.HtmlTokenizer.afterDoctypeSystemKeywordState, H5V.Spec.HtmlTokenizer.beforeDoctypeSystemIdentifierState,
    H5V.Spec.HtmlTokenizer.doctypeSystemIdentifierDoubleQuotedState,
    H5V.Spec.HtmlTokenizer.doctypeSystemIdentifierSingleQuotedState,
    H5V.Spec.HtmlTokenizer.afterDoctypeSystemIdentifierState, H5V.Spec.HtmlTokenizer.bogusDoctypeState,
    Tok.switchTo, Tok.reconsumeIn, Tok.done, Tok.emitChar, Tok.emitNull, Tok.emit, Tok.setState, Tok.setReturnState,
    Tok.createDoctype, Tok.setForceQuirks,
    Tok.setDoctypeName, Tok.appendDoctypeName, Tok.setPublicIdEmpty, Tok.setSystemIdEmpty, Tok.appendPublicId,
    Tok.appendSystemId, Tok.emitDoctype,
    isAsciiUpperAlpha_special, isAsciiLowerAlpha_special, isAsciiAlpha_special, lowercase_special,
    replacementCharacter_eq, *]))

/-- `Reach.done` and the six components of the goal (variant of `tab_done`) -/
macro "dt_done" : tactic => `(tactic| (
  refine Reach.done ⟨?_, ?_, ?_, ?_, ?_, ?_⟩
  · simp (config := {decide := true}) [to, reconsumeTo, emit, emitErr, badChar, badEof, clearTemp,
      H5V.Model.HtmlTok.createDoctype, pushDoctypeName, pushDoctypeId, clearDoctypeId, forceQuirks,
      H5V.Model.HtmlTok.emitDoctype, *]
  · simp (config := {decide := true}) [Std, to, reconsumeTo, emit, emitErr, badChar, badEof, clearTemp,
      H5V.Model.HtmlTok.createDoctype, pushDoctypeName, pushDoctypeId, clearDoctypeId, forceQuirks,
      H5V.Model.HtmlTok.emitDoctype, *]
  · simp (config := {decide := true}) [stOf, altSt, isRet, to, reconsumeTo, emit, emitErr, badChar, badEof, clearTemp,
      H5V.Model.HtmlTok.createDoctype, pushDoctypeName, pushDoctypeId, clearDoctypeId, forceQuirks,
      H5V.Model.HtmlTok.emitDoctype, *]
  · simp (config := {decide := true}) [to, reconsumeTo, emit, emitErr, badChar, badEof, clearTemp,
      H5V.Model.HtmlTok.createDoctype, pushDoctypeName, pushDoctypeId, clearDoctypeId, forceQuirks,
      H5V.Model.HtmlTok.emitDoctype, *]
  · simp (config := {decide := true}) [RegRel, AttrRel, attrR_nil_iff, isTagSt, needsCur, usesTemp, usesComment,
      usesDoctype, to, reconsumeTo, emit, emitErr, badChar, badEof, clearTemp,
      H5V.Model.HtmlTok.createDoctype, pushDoctypeName, pushDoctypeId, clearDoctypeId, forceQuirks,
      H5V.Model.HtmlTok.emitDoctype, optPush_eq, *]
  · simp (config := {decide := true}) [OutRel, cdataBuf, isCdata, to, reconsumeTo, emit, emitErr, badChar, badEof,
      clearTemp, H5V.Model.HtmlTok.createDoctype, pushDoctypeName, pushDoctypeId, clearDoctypeId, forceQuirks,
      H5V.Model.HtmlTok.emitDoctype, *]))

/-- a leaf of the case split (variant of `tab_leaf`) -/
macro "dt_leaf" : tactic => `(tactic| (first | contradiction | (
  simp (config := {decide := true}) only [*, if_true, if_false, reduceCtorEq, Char.reduceEq, ne_eq, not_true_eq_false,
    not_false_eq_true, lowerAsciiLetter_special, toAsciiLower_special, isWs, Bool.or_false, Bool.or_true, Bool.false_or, Bool.true_or,
    decide_true, decide_false, Bool.false_eq_true, and_true, true_and, and_false, false_and, or_true, true_or,
    or_false, false_or]
  refine ⟨rfl, ?_⟩
  first
  | (dt_step; dt_done)
  | (dt_step; dt_step; dt_done)
  | dt_done
  | skip)))

/-- the case split on the character `c` (variant of `tab_cases`) -/
macro "dt_cases" c:ident "[" ls:term,* "]" : tactic => `(tactic| (
  rcases classify [$ls,*] $c with hm | hU | hL | ⟨hm, hO⟩
  · mem_cases hm <;> dt_leaf
  · obtain ⟨⟨n1, n2, n3, n4, n5, n6, n7, n8, n9, n10, n11, n12, n13, n14, n15, n16, n17, n18, n19, n20, nws⟩,
      up, lo, al, lal, tl⟩ := hU
    dt_leaf
  · obtain ⟨⟨n1, n2, n3, n4, n5, n6, n7, n8, n9, n10, n11, n12, n13, n14, n15, n16, n17, n18, n19, n20, nws⟩,
      up, lo, al, lal, tl, lc⟩ := hL
    dt_leaf
  · simp only [List.mem_cons, List.not_mem_nil, or_false, not_or] at hm
    obtain ⟨up, lo, al, lal, tl, lc⟩ := hO
    dt_leaf))

/-- a table lemma of a DOCTYPE state (variant of `tab_state`) -/
macro "dt_state" h:ident hs:ident c:ident "[" ls:term,* "]" : tactic => `(tactic| (
  obtain ⟨hstd, hst, hcr, hreg, hout⟩ := $h
  simp [$hs:ident, stOf, altSt, isRet] at hst
  simp [RegRel, AttrRel, $hs:ident, isTagSt, needsCur, usesTemp, usesComment, usesDoctype] at hreg
  simp [OutRel, cdataBuf, isCdata, $hs:ident] at hout
  unfold transChar
  simp only [$hs:ident]
  repeat' (rcases hst with hst | hst)
  all_goals (dt_cases $c [$ls,*])))

set_option maxHeartbeats 1600000 in
theorem tab_doctypeSt (o : Opts) (ho : o.exactErrors = false) (pol : Pol) (tree : Tree)
    (m : Mach) (t : Tok) (c : Char) (rest : Str) (h : RegCore m t) (hr : m.reconsume = false)
    (hs : m.state = .doctype) : TabOk tree t c rest (transChar o pol m c) := by
  dt_state h hs c ['\t', '\n', '\x0c', ' ', '>']

set_option maxHeartbeats 1600000 in
theorem tab_beforeDoctypeName (o : Opts) (ho : o.exactErrors = false) (pol : Pol) (tree : Tree)
    (m : Mach) (t : Tok) (c : Char) (rest : Str) (h : RegCore m t) (hr : m.reconsume = false)
    (hs : m.state = .beforeDoctypeName) : TabOk tree t c rest (transChar o pol m c) := by
  dt_state h hs c ['\t', '\n', '\x0c', ' ', '>', '\x00']

set_option maxHeartbeats 1600000 in
theorem tab_doctypeName (o : Opts) (ho : o.exactErrors = false) (pol : Pol) (tree : Tree)
    (m : Mach) (t : Tok) (c : Char) (rest : Str) (h : RegCore m t) (hr : m.reconsume = false)
    (hs : m.state = .doctypeName) : TabOk tree t c rest (transChar o pol m c) := by
  dt_state h hs c ['\t', '\n', '\x0c', ' ', '>', '\x00']

set_option maxHeartbeats 1600000 in
theorem tab_afterDoctypeName (o : Opts) (ho : o.exactErrors = false) (pol : Pol) (tree : Tree)
    (m : Mach) (t : Tok) (c : Char) (rest : Str) (h : RegCore m t) (hr : m.reconsume = false)
    (hs : m.state = .afterDoctypeName)
    (hp : H5V.Spec.HtmlTokenizer.nextAreCaseInsensitive "public" (c :: rest) = false)
    (hq : H5V.Spec.HtmlTokenizer.nextAreCaseInsensitive "system" (c :: rest) = false) :
    TabOk tree t c rest (transChar o pol m c) := by
  dt_state h hs c ['\t', '\n', '\x0c', ' ', '>']

set_option maxHeartbeats 1600000 in
theorem tab_afterDoctypeKeyword (o : Opts) (ho : o.exactErrors = false) (pol : Pol) (tree : Tree)
    (m : Mach) (t : Tok) (c : Char) (rest : Str) (h : RegCore m t) (hr : m.reconsume = false)
    (k : DoctypeIdKind) (hs : m.state = .afterDoctypeKeyword k) :
    TabOk tree t c rest (transChar o pol m c) := by
  cases k
  · dt_state h hs c ['\t', '\n', '\x0c', ' ', '"', '\'', '>']
  · dt_state h hs c ['\t', '\n', '\x0c', ' ', '"', '\'', '>']

set_option maxHeartbeats 1600000 in
theorem tab_beforeDoctypeIdentifier (o : Opts) (ho : o.exactErrors = false) (pol : Pol) (tree : Tree)
    (m : Mach) (t : Tok) (c : Char) (rest : Str) (h : RegCore m t) (hr : m.reconsume = false)
    (k : DoctypeIdKind) (hs : m.state = .beforeDoctypeIdentifier k) :
    TabOk tree t c rest (transChar o pol m c) := by
  cases k
  · dt_state h hs c ['\t', '\n', '\x0c', ' ', '"', '\'', '>']
  · dt_state h hs c ['\t', '\n', '\x0c', ' ', '"', '\'', '>']

set_option maxHeartbeats 1600000 in
theorem tab_doctypeIdentifierDoubleQuoted (o : Opts) (ho : o.exactErrors = false) (pol : Pol) (tree : Tree)
    (m : Mach) (t : Tok) (c : Char) (rest : Str) (h : RegCore m t) (hr : m.reconsume = false)
    (k : DoctypeIdKind) (hs : m.state = .doctypeIdentifierDoubleQuoted k) :
    TabOk tree t c rest (transChar o pol m c) := by
  cases k
  · dt_state h hs c ['"', '\x00', '>']
  · dt_state h hs c ['"', '\x00', '>']

set_option maxHeartbeats 1600000 in
theorem tab_doctypeIdentifierSingleQuoted (o : Opts) (ho : o.exactErrors = false) (pol : Pol) (tree : Tree)
    (m : Mach) (t : Tok) (c : Char) (rest : Str) (h : RegCore m t) (hr : m.reconsume = false)
    (k : DoctypeIdKind) (hs : m.state = .doctypeIdentifierSingleQuoted k) :
    TabOk tree t c rest (transChar o pol m c) := by
  cases k
  · dt_state h hs c ['\'', '\x00', '>']
  · dt_state h hs c ['\'', '\x00', '>']

set_option maxHeartbeats 1600000 in
theorem tab_afterDoctypeIdentifier_pub (o : Opts) (ho : o.exactErrors = false) (pol : Pol) (tree : Tree)
    (m : Mach) (t : Tok) (c : Char) (rest : Str) (h : RegCore m t) (hr : m.reconsume = false)
    (hs : m.state = .afterDoctypeIdentifier .pub) :
    TabOk tree t c rest (transChar o pol m c) := by
  dt_state h hs c ['\t', '\n', '\x0c', ' ', '>', '"', '\'']

set_option maxHeartbeats 1600000 in
theorem tab_afterDoctypeIdentifier_sys (o : Opts) (ho : o.exactErrors = false) (pol : Pol) (tree : Tree)
    (m : Mach) (t : Tok) (c : Char) (rest : Str) (h : RegCore m t) (hr : m.reconsume = false)
    (hs : m.state = .afterDoctypeIdentifier .sys) :
    TabOk tree t c rest (transChar o pol m c) := by
  dt_state h hs c ['\t', '\n', '\x0c', ' ', '>']

set_option maxHeartbeats 1600000 in
theorem tab_betweenDoctypePublicAndSystemIdentifiers (o : Opts) (ho : o.exactErrors = false) (pol : Pol)
    (tree : Tree) (m : Mach) (t : Tok) (c : Char) (rest : Str) (h : RegCore m t) (hr : m.reconsume = false)
    (hs : m.state = .betweenDoctypePublicAndSystemIdentifiers) :
    TabOk tree t c rest (transChar o pol m c) := by
  dt_state h hs c ['\t', '\n', '\x0c', ' ', '>', '"', '\'']

set_option maxHeartbeats 1600000 in
theorem tab_bogusDoctype (o : Opts) (ho : o.exactErrors = false) (pol : Pol) (tree : Tree)
    (m : Mach) (t : Tok) (c : Char) (rest : Str) (h : RegCore m t) (hr : m.reconsume = false)
    (hs : m.state = .bogusDoctype) : TabOk tree t c rest (transChar o pol m c) := by
  dt_state h hs c ['>', '\x00']

/-- all DOCTYPE states whose step is the table alone -/
theorem tab_doctype (o : Opts) (ho : o.exactErrors = false) (pol : Pol) (tree : Tree)
    (m : Mach) (t : Tok) (c : Char) (rest : Str) (h : RegCore m t) (hr : m.reconsume = false)
    (hs : m.state = .doctype ∨ m.state = .beforeDoctypeName ∨ m.state = .doctypeName ∨
          (∃ k, m.state = .afterDoctypeKeyword k) ∨ (∃ k, m.state = .beforeDoctypeIdentifier k) ∨
          (∃ k, m.state = .doctypeIdentifierDoubleQuoted k) ∨ (∃ k, m.state = .doctypeIdentifierSingleQuoted k) ∨
          (∃ k, m.state = .afterDoctypeIdentifier k) ∨ m.state = .betweenDoctypePublicAndSystemIdentifiers ∨
          m.state = .bogusDoctype) :
    TabOk tree t c rest (transChar o pol m c) := by
  rcases hs with hs | hs | hs | ⟨k, hs⟩ | ⟨k, hs⟩ | ⟨k, hs⟩ | ⟨k, hs⟩ | ⟨k, hs⟩ | hs | hs
  · exact tab_doctypeSt o ho pol tree m t c rest h hr hs
  · exact tab_beforeDoctypeName o ho pol tree m t c rest h hr hs
  · exact tab_doctypeName o ho pol tree m t c rest h hr hs
  · exact tab_afterDoctypeKeyword o ho pol tree m t c rest h hr k hs
  · exact tab_beforeDoctypeIdentifier o ho pol tree m t c rest h hr k hs
  · exact tab_doctypeIdentifierDoubleQuoted o ho pol tree m t c rest h hr k hs
  · exact tab_doctypeIdentifierSingleQuoted o ho pol tree m t c rest h hr k hs
  · cases k
    · exact tab_afterDoctypeIdentifier_pub o ho pol tree m t c rest h hr hs
    · exact tab_afterDoctypeIdentifier_sys o ho pol tree m t c rest h hr hs
  · exact tab_betweenDoctypePublicAndSystemIdentifiers o ho pol tree m t c rest h hr hs
  · exact tab_bogusDoctype o ho pol tree m t c rest h hr hs

end H5V.Lemmas.HtmlTokSpec
