import H5V.Lemmas.HtmlTBModesInvPrim
/-!
C02 (insertion modes), the invariant `Good` of the specification's run, tool box part 2: reconstruct the active
formatting elements, removing a node from the stack, "any other end tag", the table helpers, the dispatcher.
-/
set_option linter.unusedSectionVars false
set_option linter.unusedSimpArgs false
namespace H5V.Lemmas.ModesInv
open H5V.Spec H5V.Spec.TreeModes
open H5V.Spec.TreeAlgo (Str Name nsHtml nsMathml nsSvg inHtml)
open H5V.Spec.TreeAlgo2 (Elem Entry PState)

section
variable {N : Type} [DecidableEq N]

/-! ### stacks that differ in neutral elements only -/

/-- the non-neutral elements of a stack -/
def core (st : List (Elem N)) : List (Elem N) := st.filter fun e => !neutralN e.name

theorem cellR_core (st : List (Elem N)) : cellR (namesOf (core st)) = cellR (namesOf st) := by
  have : namesOf (core st) = (namesOf st).filter fun n => !neutralN n := by
    simp only [namesOf, core, List.filter_reverse, List.filter_map]
    rfl
  rw [this, cellR_filter]

/-- two stacks with the same non-neutral elements agree on "td/th in table scope" -/
theorem cellR_of_core {st st' : List (Elem N)} (h : core st' = core st) : cellR (namesOf st') = cellR (namesOf st) := by
  rw [← cellR_core st', h, cellR_core]

theorem core_append (a b : List (Elem N)) : core (a ++ b) = core a ++ core b := List.filter_append ..

theorem core_of_neutral {es : List (Elem N)} (h : ∀ e ∈ es, neutralN e.name = true) : core es = [] := by
  simp only [core, List.filter_eq_nil_iff]
  intro e he; simp [h e he]

theorem core_eraseIdx {st : List (Elem N)} {i : Nat} {e : Elem N} (hi : st[i]? = some e) (hn : neutralN e.name = true) :
    core (st.eraseIdx i) = core st := by
  induction st generalizing i with
  | nil => rfl
  | cons a l ih =>
    cases i with
    | zero =>
      simp only [List.getElem?_cons_zero, Option.some.injEq] at hi
      subst hi
      simp [core, hn]
    | succ i =>
      simp only [List.getElem?_cons_succ] at hi
      simp only [List.eraseIdx_cons_succ, core, List.filter_cons]
      have := ih hi
      simp only [core] at this
      rw [this]

theorem core_set {st : List (Elem N)} {i : Nat} {e e' : Elem N} (hi : st[i]? = some e) (hn : neutralN e.name = true)
    (hn' : neutralN e'.name = true) : core (st.set i e') = core st := by
  induction st generalizing i with
  | nil => rfl
  | cons a l ih =>
    cases i with
    | zero =>
      simp only [List.getElem?_cons_zero, Option.some.injEq] at hi
      subst hi
      simp [core, hn, hn']
    | succ i =>
      simp only [List.getElem?_cons_succ] at hi
      simp only [List.set_cons_succ, core, List.filter_cons]
      have := ih hi
      simp only [core] at this
      rw [this]

theorem core_insertIdx {st : List (Elem N)} (i : Nat) {e : Elem N} (hn : neutralN e.name = true) :
    core (st.insertIdx i e) = core st := by
  induction st generalizing i with
  | nil => cases i <;> simp [core, hn, List.insertIdx]
  | cons a l ih =>
    cases i with
    | zero => simp [core, hn]
    | succ i =>
      simp only [List.insertIdx_succ_cons, core, List.filter_cons]
      have := ih i
      simp only [core] at this
      rw [this]

theorem cellR_append_neutral (st : List (Elem N)) {es : List (Elem N)} (h : ∀ e ∈ es, neutralN e.name = true) :
    cellR (namesOf (st ++ es)) = cellR (namesOf st) := by
  apply cellR_of_core
  rw [core_append, core_of_neutral h, List.append_nil]

theorem cellR_snoc_neutral (st : List (Elem N)) {e : Elem N} (h : neutralN e.name = true) :
    cellR (namesOf (st ++ [e])) = cellR (namesOf st) :=
  cellR_append_neutral st (by intro x hx; simp at hx; subst hx; exact h)

/-! ### "reconstruct the active formatting elements" -/

theorem reconstructCreate_eff : ∀ (n i : Nat) (st st' : PState N ETok), AFOk st.list →
    TreeAlgo2.reconstructCreate cx n i st = some st' →
    ∃ es, st'.stack = st.stack ++ es ∧ (∀ e ∈ es, neutralN e.name = true ∧ e.name.ns = nsHtml) ∧ AFOk st'.list ∧
      st'.formPointer = st.formPointer
  | 0, _, st, st', haf, h => by
    simp only [TreeAlgo2.reconstructCreate, Option.some.injEq] at h
    subst h
    exact ⟨[], by simp, by simp, haf, rfl⟩
  | n + 1, i, st, st', haf, h => by
    unfold TreeAlgo2.reconstructCreate at h
    cases hi : st.list[i]? with
    | none => rw [hi] at h; cases h
    | some ent =>
      rw [hi] at h
      cases ent with
      | marker => cases h
      | element x tok =>
        dsimp only at h
        cases hins : TreeAlgo2.insertHtmlElement cx st tok with
        | none => rw [hins] at h; cases h
        | some r =>
          obtain ⟨st1, ne⟩ := r
          rw [hins] at h
          simp only [Option.bind_some] at h
          obtain ⟨hname, _, hstack, hlist, hform⟩ := insertForeignElement_eff hins
          have hfmt : fmtN tok.name = true := haf.getElem hi
          have hneu : neutralN ne.name = true ∧ ne.name.ns = nsHtml := by
            rw [hname]; exact ⟨neutralN_of_fmt hfmt, rfl⟩
          have haf2 : AFOk (st1.list.set i (.element ne.id tok)) := by
            rw [hlist]; exact haf.set hfmt
          split at h
          · obtain ⟨es, h1, h2, h3, h4⟩ := reconstructCreate_eff n (i + 1) _ st' haf2 h
            refine ⟨ne :: es, ?_, ?_, h3, ?_⟩
            · rw [h1]; simp [hstack]
            · intro e he
              rcases List.mem_cons.mp he with rfl | he
              · exact hneu
              · exact h2 e he
            · rw [h4]; exact hform
          · simp only [Option.some.injEq] at h
            subst h
            refine ⟨[ne], by simp [hstack], ?_, haf2, hform⟩
            intro e he; simp at he; subst he; exact hneu

/-- **"reconstruct the active formatting elements"** pushes elements created for formatting start tags -/
theorem reconstruct_eff {s s' : State N} (haf : AFOk s.p.list) (h : reconstruct s = .ok s') :
    ∃ es l', Upd s s' (s.p.stack ++ es) l' ∧ (∀ e ∈ es, neutralN e.name = true ∧ e.name.ns = nsHtml) ∧ AFOk l' ∧
      s'.p.formPointer = s.p.formPointer := by
  unfold reconstruct at h
  obtain ⟨p, hr, h2⟩ := bind_ok h
  have hr' := req_ok hr
  cases pure_ok h2
  unfold TreeAlgo2.reconstructActiveFormattingElements at hr'
  split at hr'
  · cases hr'; exact ⟨[], _, ⟨rfl, rfl, rfl, rfl, by simp, rfl⟩, by simp, haf, rfl⟩
  · split at hr'
    · cases hr'; exact ⟨[], _, ⟨rfl, rfl, rfl, rfl, by simp, rfl⟩, by simp, haf, rfl⟩
    · obtain ⟨es, h1, h2, h3, h4⟩ := reconstructCreate_eff _ _ _ _ haf hr'
      exact ⟨es, _, ⟨rfl, rfl, rfl, rfl, h1, rfl⟩, h2, h3, h4⟩

/-- "reconstruct" keeps "td/th in table scope" (both ways) -/
theorem cellR_reconstruct {s s' : State N} (haf : AFOk s.p.list) (h : reconstruct s = .ok s') :
    cellR s'.names = cellR s.names := by
  obtain ⟨es, l', hu, hes, _, _⟩ := reconstruct_eff haf h
  rw [names_eq, hu.stack]
  exact cellR_append_neutral _ (fun e he => (hes e he).1)

/-! ### removing a node from the stack / the list -/

theorem lastPos_spec {p : Elem N → Bool} : ∀ {l : List (Elem N)} {i : Nat}, TreeAlgo2.lastPos p l = some i →
    ∃ e, l[i]? = some e ∧ p e = true
  | [], _, h => by cases h
  | a :: l, i, h => by
    unfold TreeAlgo2.lastPos at h
    cases hl : TreeAlgo2.lastPos p l with
    | some j =>
      rw [hl] at h
      simp only [Option.some.injEq] at h
      subst h
      obtain ⟨e, he, hp⟩ := lastPos_spec hl
      exact ⟨e, by simpa using he, hp⟩
    | none =>
      rw [hl] at h
      dsimp only at h
      split at h
      · cases h; rename_i hp; exact ⟨a, rfl, hp⟩
      · cases h

theorem stackPos_spec {x : N} {st : List (Elem N)} {i : Nat} (h : TreeAlgo2.stackPos x st = some i) :
    ∃ e, st[i]? = some e ∧ e.id = x := by
  obtain ⟨e, he, hp⟩ := lastPos_spec h
  exact ⟨e, he, by simpa using hp⟩

@[simp] theorem removeFromStack_mode (s : State N) (x) : (removeFromStack s x).mode = s.mode := by
  unfold removeFromStack; split <;> rfl
@[simp] theorem removeFromStack_orig (s : State N) (x) : (removeFromStack s x).originalMode = s.originalMode := by
  unfold removeFromStack; split <;> rfl
@[simp] theorem removeFromStack_tms (s : State N) (x) : (removeFromStack s x).templateModes = s.templateModes := by
  unfold removeFromStack; split <;> rfl
@[simp] theorem removeFromStack_stopped (s : State N) (x) : (removeFromStack s x).stopped = s.stopped := by
  unfold removeFromStack; split <;> rfl
@[simp] theorem removeFromStack_list (s : State N) (x) : (removeFromStack s x).p.list = s.p.list := by
  unfold removeFromStack; split <;> rfl

/-- removing a node all of whose stack entries are neutral keeps "td/th in table scope" -/
theorem cellR_removeFromStack {s : State N} {x : N} (hx : ∀ e ∈ s.p.stack, e.id = x → neutralN e.name = true) :
    cellR (removeFromStack s x).names = cellR s.names := by
  unfold removeFromStack
  split
  · rename_i i hi
    obtain ⟨e, he, hid⟩ := stackPos_spec hi
    rw [setStack_names, names_eq]
    exact cellR_of_core (core_eraseIdx he (hx e (List.mem_of_getElem? he) hid))
  · rfl

@[simp] theorem removeFromList_mode (s : State N) (x) : (removeFromList s x).mode = s.mode := by
  unfold removeFromList; split <;> rfl
@[simp] theorem removeFromList_orig (s : State N) (x) : (removeFromList s x).originalMode = s.originalMode := by
  unfold removeFromList; split <;> rfl
@[simp] theorem removeFromList_tms (s : State N) (x) : (removeFromList s x).templateModes = s.templateModes := by
  unfold removeFromList; split <;> rfl
@[simp] theorem removeFromList_stopped (s : State N) (x) : (removeFromList s x).stopped = s.stopped := by
  unfold removeFromList; split <;> rfl
@[simp] theorem removeFromList_stack (s : State N) (x) : (removeFromList s x).p.stack = s.p.stack := by
  unfold removeFromList; split <;> rfl
@[simp] theorem removeFromList_names (s : State N) (x) : (removeFromList s x).names = s.names := by
  unfold removeFromList; split <;> rfl
theorem removeFromList_af {s : State N} (x : N) (h : AFOk s.p.list) : AFOk (removeFromList s x).p.list := by
  unfold removeFromList; split
  · exact h.eraseIdx _
  · exact h

/-! ### "any other end tag" -/

theorem special_of_tdTh {e : Elem N} (h : tdThN e.name = true) : TreeAlgo2.isSpecial e = true := by
  simp only [tdThN, inHtml, Bool.and_eq_true, List.any_cons, List.any_nil, Bool.or_false, Bool.or_eq_true, beq_iff_eq] at h
  obtain ⟨hns, hl⟩ := h
  obtain ⟨id, ns, loc⟩ := e
  simp only at hns hl
  subst hns
  rcases hl with hl | hl <;> subst hl
  · show TreeAlgo.inTable TreeTables.special ⟨nsHtml, "td".toList⟩ = true; decide
  · show TreeAlgo.inTable TreeTables.special ⟨nsHtml, "th".toList⟩ = true; decide

theorem anyOtherEndTagSearch_noTd {name : Str} (hn : name ≠ "td".toList ∧ name ≠ "th".toList) :
    ∀ {l : List (Elem N)} {k : Nat}, TreeAlgo2.anyOtherEndTagSearch name l = some k →
      ∀ e ∈ l.take (k + 1), tdThN e.name = false
  | [], _, h, _, _ => by cases h
  | node :: rest, k, h, e, he => by
    unfold TreeAlgo2.anyOtherEndTagSearch at h
    split at h
    · rename_i hm
      simp only [Option.some.injEq] at h
      subst h
      simp only [Nat.zero_add, List.take_succ_cons, List.take_zero, List.mem_singleton] at he
      subst he
      exact isNamed_noTd hn _ hm
    · split at h
      · cases h
      · rename_i hsp
        cases hr : TreeAlgo2.anyOtherEndTagSearch name rest with
        | none => rw [hr] at h; cases h
        | some k' =>
          rw [hr] at h
          simp only [Option.map_some, Option.some.injEq] at h
          subst h
          simp only [List.take_succ_cons, List.mem_cons] at he
          rcases he with rfl | he
          · cases hc : tdThN e.name
            · rfl
            · exact absurd (special_of_tdTh hc) hsp
          · exact anyOtherEndTagSearch_noTd hn hr e he

theorem take_takeWhile_length {α : Type} (p : α → Bool) : ∀ l : List α, l.take (l.takeWhile p).length = l.takeWhile p
  | [] => rfl
  | a :: l => by
    by_cases h : p a = true
    · rw [List.takeWhile_cons_of_pos h]; simp [take_takeWhile_length p l]
    · rw [List.takeWhile_cons_of_neg h]; rfl

theorem genImplied_stack_take (ex : Option Str) (st : List (Elem N)) :
    ∃ j, TreeAlgo2.generateImpliedEndTags ex st = st.take (st.length - j) ∧
      ∀ e ∈ st.reverse.take j, TreeAlgo.impliedEndTag ex e.name = true := by
  unfold TreeAlgo2.generateImpliedEndTags
  refine ⟨(st.reverse.takeWhile fun e => TreeAlgo.impliedEndTag ex e.name).length, ?_, ?_⟩
  · have h := List.takeWhile_append_dropWhile (p := fun e : Elem N => TreeAlgo.impliedEndTag ex e.name) (l := st.reverse)
    have hlen : st.length = (st.reverse.takeWhile fun e => TreeAlgo.impliedEndTag ex e.name).length +
        (st.reverse.dropWhile fun e => TreeAlgo.impliedEndTag ex e.name).length := by
      have := congrArg List.length h
      simp only [List.length_append, List.length_reverse] at this
      omega
    have h2 : st = (st.reverse.dropWhile fun e => TreeAlgo.impliedEndTag ex e.name).reverse ++
        (st.reverse.takeWhile fun e => TreeAlgo.impliedEndTag ex e.name).reverse := by
      have := congrArg List.reverse h
      simp only [List.reverse_append, List.reverse_reverse] at this
      exact this.symm
    conv => rhs; rw [h2]
    rw [List.take_left' (by simp)]
  · intro e he
    rw [take_takeWhile_length] at he
    exact mem_takeWhile_p (p := fun e : Elem N => TreeAlgo.impliedEndTag ex e.name) he

/-- **"any other end tag"** (tag name neither `td` nor `th`) pops no `td`/`th` element -/
theorem anyOtherEndTag_noTd {name : Str} (hn : name ≠ "td".toList ∧ name ≠ "th".toList) (st : List (Elem N)) :
    ∃ j, TreeAlgo2.anyOtherEndTag name st = st.take (st.length - j) ∧ ∀ n ∈ (namesOf st).take j, tdThN n = false := by
  unfold TreeAlgo2.anyOtherEndTag
  cases hs : TreeAlgo2.anyOtherEndTagSearch name st.reverse with
  | none => exact ⟨0, by simp, by simp⟩
  | some k =>
    dsimp only
    obtain ⟨j, hj, hjm⟩ := genImplied_stack_take (some name) st
    rw [hj, List.take_take]
    have hk := anyOtherEndTagSearch_noTd hn hs
    by_cases hle : st.length - 1 - k ≤ st.length - j
    · refine ⟨st.length - (st.length - 1 - k), by rw [Nat.min_eq_left hle]; congr 1; omega, ?_⟩
      intro n hn'
      simp only [namesOf, ← List.map_take, List.mem_map] at hn'
      obtain ⟨e, he, rfl⟩ := hn'
      exact hk e ((List.take_subset_take_left st.reverse (show st.length - (st.length - 1 - k) ≤ k + 1 by omega)) he)
    · refine ⟨st.length - (st.length - j), by rw [Nat.min_eq_right (by omega)]; congr 1; omega, ?_⟩
      intro n hn'
      simp only [namesOf, ← List.map_take, List.mem_map] at hn'
      obtain ⟨e, he, rfl⟩ := hn'
      have : e ∈ st.reverse.take j := (List.take_subset_take_left st.reverse (show st.length - (st.length - j) ≤ j by omega)) he
      exact impliedEndTag_noTd (hjm e this)

theorem cellR_anyOtherEndTag {name : Str} (hn : name ≠ "td".toList ∧ name ≠ "th".toList) {st : List (Elem N)}
    (h : cellR (namesOf st) = true) : cellR (namesOf (TreeAlgo2.anyOtherEndTag name st)) = true := by
  obtain ⟨j, hj, hno⟩ := anyOtherEndTag_noTd hn st
  rw [hj, namesOf_take_drop]
  exact cellR_drop j hno h

/-! ### the dispatcher -/

/-- if the stack has at least two elements (or there is no context element), the adjusted current node is the
current node -/
theorem adjustedCurrentNode_top (cfg : Config N) (s : State N) {top : Elem N} (ht : s.p.stack.getLast? = some top)
    (h2 : 2 ≤ s.p.stack.length ∨ cfg.context = none) :
    adjustedCurrentNode cfg s = some (openElem s top) := by
  unfold adjustedCurrentNode
  have hr : s.p.stack.reverse = top :: s.p.stack.dropLast.reverse := by
    obtain ⟨ys, hys⟩ := List.getLast?_eq_some_iff.mp ht
    rw [hys]; simp
  rw [hr]
  simp only [List.map_cons]
  unfold TreeAlgo.adjustedCurrentNode
  rcases h2 with h2 | h2
  · cases hd : s.p.stack.dropLast.reverse with
    | nil =>
      exfalso
      have : s.p.stack.dropLast.length = 0 := by
        have := congrArg List.length hd; simpa using this
      simp at this; omega
    | cons a l => rfl
  · rw [h2]
    cases s.p.stack.dropLast.reverse <;> rfl

/-- an HTML adjusted current node: the dispatcher chooses the rules of the insertion mode -/
theorem useHtml_of_top_html (cfg : Config N) (s : State N) {top : Elem N} (ht : s.p.stack.getLast? = some top)
    (h2 : 2 ≤ s.p.stack.length ∨ cfg.context = none) (hns : top.name.ns = nsHtml) (k : TreeAlgo.TokenKind) :
    TreeAlgo.useHtmlRules (adjustedCurrentNode cfg s) k = true := by
  rw [adjustedCurrentNode_top cfg s ht h2]
  unfold TreeAlgo.useHtmlRules
  simp [openElem, hns]

/-- the dispatcher chose the foreign rules and the adjusted current node is the current node: it is not an HTML
element -/
theorem top_foreign_of_not_useHtml (cfg : Config N) (s : State N) {top : Elem N} (ht : s.p.stack.getLast? = some top)
    (h2 : 2 ≤ s.p.stack.length ∨ cfg.context = none) {k : TreeAlgo.TokenKind}
    (h : TreeAlgo.useHtmlRules (adjustedCurrentNode cfg s) k = false) : top.name.ns ≠ nsHtml := by
  intro hns
  rw [useHtml_of_top_html cfg s ht h2 hns k] at h
  cases h

/-! ### "in body", a character token (any insertion mode: used by "in table text" for the pending characters) -/

theorem inBody_char_eff {cfg : Config N} {σ : State N} {c : Char} {r : Step N} (haf : AFOk σ.p.list)
    (h : inBody cfg σ (.character c) = .ok r) :
    ∃ s', r = .done s' ∧ ∃ es l', Upd σ s' (σ.p.stack ++ es) l' ∧
      (∀ e ∈ es, neutralN e.name = true ∧ e.name.ns = nsHtml) ∧ AFOk l' := by
  unfold inBody at h
  dsimp only at h
  split at h
  · cases pure_ok h
    exact ⟨_, rfl, [], _, ⟨rfl, rfl, rfl, rfl, by simp, rfl⟩, by simp, haf⟩
  · split at h
    · obtain ⟨s1, h1, h2⟩ := bind_ok h
      obtain ⟨s2, h3, h4⟩ := map_ok h2
      subst h4
      obtain ⟨es, l', hu, hes, haf', _⟩ := reconstruct_eff haf h1
      have hu2 := insertChar_eff h3
      exact ⟨_, rfl, es, l', hu.trans (by rw [← hu.stack, ← hu.list]; exact hu2), hes, haf'⟩
    · obtain ⟨s1, h1, h2⟩ := bind_ok h
      obtain ⟨s2, h3, h4⟩ := bind_ok h2
      cases pure_ok h4
      obtain ⟨es, l', hu, hes, haf', _⟩ := reconstruct_eff haf h1
      have hu2 := insertChar_eff h3
      refine ⟨_, rfl, es, l', ?_, hes, haf'⟩
      have hu3 : Upd σ s2 (σ.p.stack ++ es) l' := hu.trans (by rw [← hu.stack, ← hu.list]; exact hu2)
      exact ⟨hu3.mode, hu3.orig, hu3.tms, hu3.stopped, hu3.stack, hu3.list⟩

/-! ### the context of a rule of "in body" / "in head" & co. -/

/-- the standing hypotheses of a rule that may be run in any insertion mode but "text" / "in table text" -/
structure Ctx (cfg : Config N) (σ : State N) : Prop where
  ed : cfg.edition = .customizableSelect
  good : Good σ
  live : σ.stopped = false
  nt : σ.mode ≠ .text
  ntt : σ.mode ≠ .inTableText

/-- the rule left the mode, the original mode, the template modes alone; the stack became `st` (keeping "td/th in
table scope"), the list `l` (still formatting tokens) -/
theorem Ctx.upd {cfg : Config N} {σ σ' : State N} {st l} (hc : Ctx cfg σ) (hu : Upd σ σ' st l)
    (hcell : cellR σ.names = true → cellR (namesOf st) = true) (haf : AFOk l) : Good σ' :=
  hc.good.upd hu hc.nt hc.ntt (fun _ h => hcell h) haf

theorem Ctx.live' {cfg : Config N} {σ σ' : State N} {st l} (hc : Ctx cfg σ) (hu : Upd σ σ' st l) : σ'.stopped = false := by
  rw [hu.stopped]; exact hc.live

/-- the same state up to fields `Good` does not look at (an `err`, `notOk`, `ack`, … on top of `σ`) is again a
context -/
theorem Ctx.same {cfg : Config N} {σ σ' : State N} (hc : Ctx cfg σ) (hm : σ'.mode = σ.mode := by rfl)
    (ho : σ'.originalMode = σ.originalMode := by rfl) (ht : σ'.templateModes = σ.templateModes := by rfl)
    (hst : σ'.stopped = σ.stopped := by rfl) (hs : σ'.p.stack = σ.p.stack := by rfl) (hl : σ'.p.list = σ.p.list := by rfl) :
    Ctx cfg σ' :=
  ⟨hc.ed, hc.good.same hm ho ht hs hl, by rw [hst]; exact hc.live, by rw [hm]; exact hc.nt, by rw [hm]; exact hc.ntt⟩

/-- a context after a change of the stack that keeps "td/th in table scope" -/
theorem Ctx.of_upd {cfg : Config N} {σ σ' : State N} {st l} (hc : Ctx cfg σ) (hu : Upd σ σ' st l)
    (hcell : cellR σ.names = true → cellR (namesOf st) = true) (haf : AFOk l) : Ctx cfg σ' :=
  ⟨hc.ed, hc.upd hu hcell haf, hc.live' hu, by rw [hu.mode]; exact hc.nt, by rw [hu.mode]; exact hc.ntt⟩

/-- entering "text" from a context (the generic raw text / RCDATA algorithms, `textarea`, `script`) -/
theorem Ctx.enterText {cfg : Config N} {σ σ' : State N} (hc : Ctx cfg σ) {e : Elem N} (he : e.name.ns = nsHtml)
    (hne : σ.p.stack ≠ []) (hm : σ'.mode = .text) (ho : σ'.originalMode = σ.mode)
    (ht : σ'.templateModes = σ.templateModes) (hs : σ'.p.stack = σ.p.stack ++ [e]) (hl : σ'.p.list = σ.p.list) : Good σ' :=
  hc.good.enterText hc.nt hc.ntt he hne hm ho ht hs hl

/-- an HTML element whose tag name is in a list without `td`, `th`, `html`, `table`, `template` is neutral -/
theorem neutral_of_isOneOf {t : Tag} {l : List String} (h : t.isOneOf l = true)
    (hl : l.all (fun x => !(["td", "th", "html", "table", "template"].contains x)) = true) :
    neutralN ⟨nsHtml, t.name⟩ = true := by
  simp only [Tag.isOneOf, strIsOneOf, List.any_eq_true, beq_iff_eq] at h
  obtain ⟨x, hx, hxe⟩ := h
  have := List.all_eq_true.mp hl x hx
  simp only [Bool.not_eq_true', List.contains_eq_mem, List.mem_cons, List.mem_nil_iff, or_false, decide_eq_false_iff_not,
    not_or] at this
  apply neutralN_of_loc
  simp only [hxe]
  refine ⟨?_, ?_, ?_, ?_, ?_⟩ <;> intro hc <;> have := String.toList_inj.mp hc <;> simp_all

theorem neutral_of_is {t : Tag} {x : String} (h : t.is x = true)
    (hx : (["td", "th", "html", "table", "template"].contains x) = false) : neutralN ⟨nsHtml, t.name⟩ = true :=
  neutral_of_isOneOf (l := [x]) (by simpa [Tag.isOneOf, Tag.is, strIs, strIsOneOf] using h)
    (by simp only [List.all_cons, List.all_nil, Bool.and_true, hx]; rfl)

/-- … and so is one whose tag name is none of the five -/
theorem neutral_of_not {t : Tag} (h1 : t.is "td" = false) (h2 : t.is "th" = false) (h3 : t.is "html" = false)
    (h4 : t.is "table" = false) (h5 : t.is "template" = false) : neutralN ⟨nsHtml, t.name⟩ = true := by
  apply neutralN_of_loc
  simp only [Tag.is, strIs, beq_eq_false_iff_ne, ne_eq] at h1 h2 h3 h4 h5
  exact ⟨h1, h2, h3, h4, h5⟩

theorem fmtN_of_isOneOf {t : Tag} {l : List String} (h : t.isOneOf l = true)
    (hl : l.all (fun x => fmtNames.contains x) = true) : fmtN t.name = true := by
  simp only [Tag.isOneOf, strIsOneOf, List.any_eq_true, beq_iff_eq] at h
  obtain ⟨x, hx, hxe⟩ := h
  have := List.all_eq_true.mp hl x hx
  simp only [fmtN, strIsOneOf, List.any_eq_true, beq_iff_eq]
  exact ⟨x, by simpa using this, hxe⟩

/-! ### the node supply only loses a prefix -/

/-- `σ'` has a suffix of the supply of `σ` -/
def Suf (σ σ' : State N) : Prop := ∃ u, σ.p.supply = u ++ σ'.p.supply

theorem Suf.refl (σ : State N) : Suf σ σ := ⟨[], rfl⟩
theorem Suf.of_eq {σ σ' : State N} (h : σ'.p.supply = σ.p.supply) : Suf σ σ' := ⟨[], by rw [h]; rfl⟩
theorem Suf.trans {a b c : State N} (h1 : Suf a b) (h2 : Suf b c) : Suf a c := by
  obtain ⟨u, hu⟩ := h1
  obtain ⟨v, hv⟩ := h2
  exact ⟨u ++ v, by rw [hu, hv, List.append_assoc]⟩

@[simp] theorem setStack_supply (s : State N) (st) : (s.setStack st).p.supply = s.p.supply := rfl
@[simp] theorem setList_supply (s : State N) (l) : (s.setList l).p.supply = s.p.supply := rfl
@[simp] theorem setFoster_supply (s : State N) (b) : (s.setFoster b).p.supply = s.p.supply := rfl
@[simp] theorem setForm_supply (s : State N) (f) : (s.setForm f).p.supply = s.p.supply := rfl
@[simp] theorem pop_supply (s : State N) : s.pop.p.supply = s.p.supply := rfl
@[simp] theorem pushFormatting_supply (s : State N) (e t) : (pushFormatting s e t).p.supply = s.p.supply := rfl
@[simp] theorem removeFromStack_supply (s : State N) (x) : (removeFromStack s x).p.supply = s.p.supply := by
  unfold removeFromStack; split <;> rfl
@[simp] theorem removeFromList_supply (s : State N) (x) : (removeFromList s x).p.supply = s.p.supply := by
  unfold removeFromList; split <;> rfl
@[simp] theorem insertMarker_supply (s : State N) : s.insertMarker.p.supply = s.p.supply := rfl
@[simp] theorem clearToLastMarker_supply (s : State N) : s.clearToLastMarker.p.supply = s.p.supply := rfl
@[simp] theorem genImplied_supply (s : State N) (ex) : (genImplied s ex).p.supply = s.p.supply := rfl
@[simp] theorem popUntilPopped_supply (s : State N) (n) : (popUntilPopped s n).p.supply = s.p.supply := rfl

theorem newNode_supply {st st1 : PState N ETok} {n : N} (h : st.newNode = some (n, st1)) : st.supply = n :: st1.supply := by
  unfold PState.newNode at h
  split at h
  · cases h
  · rename_i n' rest hs
    cases h; exact hs

theorem insertForeignElement_supply {cxx : TreeAlgo2.Ctx ETok} {st st' : PState N ETok} {tok : ETok} {ns : Str} {b : Bool}
    {e : Elem N} (h : TreeAlgo2.insertForeignElement cxx st tok ns b = some (st', e)) : st.supply = e.id :: st'.supply := by
  unfold TreeAlgo2.insertForeignElement at h
  cases hp : TreeAlgo2.appropriatePlace st.stack st.fosterParenting none with
  | none => rw [hp] at h; cases h
  | some loc =>
    rw [hp] at h
    cases hn : st.newNode with
    | none => rw [hn] at h; cases h
    | some r =>
      obtain ⟨n, st1⟩ := r
      rw [hn] at h
      simp only [Option.bind_some, Option.map_some, Option.some.injEq, Prod.mk.injEq] at h
      obtain ⟨h2, h3⟩ := h
      subst h3 h2
      exact (newNode_supply hn : st.supply = n :: st1.supply)

theorem insertHtml_supply {s s' : State N} {t : Tag} {e : Elem N} (h : insertHtml s t = .ok (s', e)) :
    s.p.supply = e.id :: s'.p.supply := by
  unfold insertHtml at h
  obtain ⟨r, hr, h2⟩ := bind_ok h
  have hr' := req_ok hr
  obtain ⟨r1, r2⟩ := r
  cases pure_ok h2
  exact insertForeignElement_supply hr'

theorem insertHtml_suf {s s' : State N} {t : Tag} {e : Elem N} (h : insertHtml s t = .ok (s', e)) : Suf s s' :=
  ⟨[e.id], by rw [insertHtml_supply h]; rfl⟩

theorem insertHtml'_suf {s s' : State N} {t : Tag} (h : insertHtml' s t = .ok s') : Suf s s' := by
  unfold insertHtml' at h
  obtain ⟨r, hr, h2⟩ := bind_ok h
  obtain ⟨r1, r2⟩ := r
  cases pure_ok h2
  exact insertHtml_suf hr

theorem insertVoid_suf {s s' : State N} {t : Tag} (h : insertVoid s t = .ok s') : Suf s s' := by
  unfold insertVoid at h
  obtain ⟨s1, hr, h2⟩ := bind_ok h
  cases pure_ok h2
  obtain ⟨u, hu⟩ := insertHtml'_suf hr
  exact ⟨u, by rw [hu]; simp⟩

theorem reconstructCreate_suf : ∀ (n i : Nat) (st st' : PState N ETok),
    TreeAlgo2.reconstructCreate cx n i st = some st' → ∃ u, st.supply = u ++ st'.supply
  | 0, _, st, st', h => by
    simp only [TreeAlgo2.reconstructCreate, Option.some.injEq] at h
    subst h; exact ⟨[], rfl⟩
  | n + 1, i, st, st', h => by
    unfold TreeAlgo2.reconstructCreate at h
    cases hi : st.list[i]? with
    | none => rw [hi] at h; cases h
    | some ent =>
      rw [hi] at h
      cases ent with
      | marker => cases h
      | element x tok =>
        dsimp only at h
        cases hins : TreeAlgo2.insertHtmlElement cx st tok with
        | none => rw [hins] at h; cases h
        | some r =>
          obtain ⟨st1, ne⟩ := r
          rw [hins] at h
          simp only [Option.bind_some] at h
          have hs := insertForeignElement_supply hins
          split at h
          · obtain ⟨u, hu⟩ := reconstructCreate_suf n (i + 1) _ st' h
            exact ⟨ne.id :: u, by rw [hs]; simpa using hu⟩
          · simp only [Option.some.injEq] at h
            subst h
            exact ⟨[ne.id], by rw [hs]; rfl⟩

theorem reconstruct_suf {s s' : State N} (h : reconstruct s = .ok s') : Suf s s' := by
  unfold reconstruct at h
  obtain ⟨p, hr, h2⟩ := bind_ok h
  have hr' := req_ok hr
  cases pure_ok h2
  unfold TreeAlgo2.reconstructActiveFormattingElements at hr'
  split at hr'
  · cases hr'; exact Suf.refl _
  · split at hr'
    · cases hr'; exact Suf.refl _
    · exact reconstructCreate_suf _ _ _ _ hr'

/-- the td/th elements of `st ++ es` with neutral `es` are elements of `st` -/
theorem tdTh_of_append_neutral {st es : List (Elem N)} (hes : ∀ e ∈ es, neutralN e.name = true) :
    ∀ e ∈ st ++ es, tdThN e.name = true → e ∈ st := by
  intro e he htd
  rcases List.mem_append.mp he with h | h
  · exact h
  · have := hes e h
    simp [neutralN, htd] at this

/-! ### the entries "reconstruct" writes into the list -/

theorem reconstructCreate_entries : ∀ (n i : Nat) (st st' : PState N ETok),
    TreeAlgo2.reconstructCreate cx n i st = some st' →
    ∃ u, st.supply = u ++ st'.supply ∧ ∀ x t, Entry.element x t ∈ st'.list → Entry.element x t ∈ st.list ∨ x ∈ u
  | 0, _, st, st', h => by
    simp only [TreeAlgo2.reconstructCreate, Option.some.injEq] at h
    subst h; exact ⟨[], rfl, fun x t hm => Or.inl hm⟩
  | n + 1, i, st, st', h => by
    unfold TreeAlgo2.reconstructCreate at h
    cases hi : st.list[i]? with
    | none => rw [hi] at h; cases h
    | some ent =>
      rw [hi] at h
      cases ent with
      | marker => cases h
      | element x0 tok =>
        dsimp only at h
        cases hins : TreeAlgo2.insertHtmlElement cx st tok with
        | none => rw [hins] at h; cases h
        | some r =>
          obtain ⟨st1, ne⟩ := r
          rw [hins] at h
          simp only [Option.bind_some] at h
          have hs := insertForeignElement_supply hins
          obtain ⟨_, _, _, hlist, _⟩ := insertForeignElement_eff hins
          have hset : ∀ x t, Entry.element x t ∈ st1.list.set i (.element ne.id tok) →
              Entry.element x t ∈ st.list ∨ x = ne.id := by
            intro x t hm
            rcases List.mem_or_eq_of_mem_set hm with hm | hm
            · left; rw [← hlist]; exact hm
            · right; cases hm; rfl
          split at h
          · obtain ⟨u, hu, hent⟩ := reconstructCreate_entries n (i + 1) _ st' h
            refine ⟨ne.id :: u, by rw [hs]; simpa using hu, fun x t hm => ?_⟩
            rcases hent x t hm with h1 | h1
            · rcases hset x t h1 with h2 | h2
              · exact Or.inl h2
              · exact Or.inr (by simp [h2])
            · exact Or.inr (by simp [h1])
          · simp only [Option.some.injEq] at h
            subst h
            refine ⟨[ne.id], by rw [hs]; rfl, fun x t hm => ?_⟩
            rcases hset x t hm with h2 | h2
            · exact Or.inl h2
            · exact Or.inr (by simp [h2])

/-- an entry of the list after "reconstruct" is an old entry or has the id of a node taken from the supply -/
theorem reconstruct_entries {s s' : State N} (h : reconstruct s = .ok s') :
    ∃ u, s.p.supply = u ++ s'.p.supply ∧ ∀ x t, Entry.element x t ∈ s'.p.list → Entry.element x t ∈ s.p.list ∨ x ∈ u := by
  unfold reconstruct at h
  obtain ⟨p, hr, h2⟩ := bind_ok h
  have hr' := req_ok hr
  cases pure_ok h2
  unfold TreeAlgo2.reconstructActiveFormattingElements at hr'
  split at hr'
  · cases hr'; exact ⟨[], rfl, fun x t hm => Or.inl hm⟩
  · split at hr'
    · cases hr'; exact ⟨[], rfl, fun x t hm => Or.inl hm⟩
    · exact reconstructCreate_entries _ _ _ _ hr'

/-- `WLink` after "reconstruct" (the new entries have fresh ids, the new elements are neutral) -/
theorem reconstruct_wlink {s s' : State N} {sup' : List N} (haf : AFOk s.p.list) (hl : WLink s)
    (hfr : FreshL s.p.stack s.p.supply sup') (hsuf : ∃ v, s'.p.supply = v ++ sup') (h : reconstruct s = .ok s') :
    WLink s' := by
  obtain ⟨es, l', hu, hes, _, _⟩ := reconstruct_eff haf h
  obtain ⟨u, hsu, hent⟩ := reconstruct_entries h
  obtain ⟨v, hv⟩ := hsuf
  intro e he t ht
  rw [hu.stack] at he
  rcases List.mem_append.mp he with he | he
  · cases htd : tdThN e.name
    · rfl
    · exfalso
      rcases hent e.id t ht with h1 | h1
      · have := hl e he t h1
        rw [htd] at this; cases this
      · exact hfr (u ++ v) (by rw [hsu, hv, List.append_assoc]) e.id (by simp [h1]) e he htd rfl
  · have := (hes e he).1
    simp only [neutralN, Bool.and_eq_true, Bool.not_eq_true'] at this
    exact this.1

end
end H5V.Lemmas.ModesInv
