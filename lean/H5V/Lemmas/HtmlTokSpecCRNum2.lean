import H5V.Lemmas.HtmlTokSpecCRNum1
set_option linter.unusedSimpArgs false
set_option linter.unusedVariables false
/-!
# C01 simulation — layer L3a, character references (start and numeric), part 2: the character classes
of the two sides (`toDigit` against ASCII (hex) digit) and one lemma per arm of the specification's
states 13.2.5.72 and 13.2.5.75–80, in the normal form `crTok` / `finT`
-/
namespace H5V.Lemmas.HtmlTokSpec
open H5V.Model.HtmlTok
open H5V.Spec.HtmlTokenizer (St Tok Emit Tree Switch Ctl ReturnSt normalizeNewlinesFrom)

theorem crnum_sstep_begin (tree : Tree) (t : Tok) (rest : Str) (hs : t.state = .characterReference) :
    sstep tree t rest = H5V.Spec.HtmlTokenizer.characterReferenceState t rest.head? := by
  simp only [sstep, H5V.Spec.HtmlTokenizer.step, hs]

theorem crnum_begin_hash (t : Tok) :
    H5V.Spec.HtmlTokenizer.characterReferenceState t (some '#') =
      (crTok t .numericCharacterReference ['&', '#'] t.characterReferenceCode, .advance 1) := rfl

theorem crnum_alnum_eq (c : Char) : H5V.Spec.HtmlTokenizer.isAsciiAlphanumeric c = isAsciiAlnum c := by
  rw [Bool.eq_iff_iff]
  simp [isAsciiAlnum, H5V.Spec.HtmlTokenizer.isAsciiAlphanumeric, H5V.Spec.HtmlTokenizer.isAsciiDigit,
    H5V.Spec.HtmlTokenizer.isAsciiAlpha, H5V.Spec.HtmlTokenizer.isAsciiUpperAlpha,
    H5V.Spec.HtmlTokenizer.isAsciiLowerAlpha, char_le_iff]
  omega

theorem crnum_toDigit16_some {c : Char} {d : Nat} (h : toDigit c 16 = some d) :
    (H5V.Spec.HtmlTokenizer.isAsciiDigit c = true ∧ d = c.toNat - 0x30) ∨
    (H5V.Spec.HtmlTokenizer.isAsciiDigit c = false ∧ H5V.Spec.HtmlTokenizer.isAsciiUpperHexDigit c = true ∧
      d = c.toNat - 0x37) ∨
    (H5V.Spec.HtmlTokenizer.isAsciiDigit c = false ∧ H5V.Spec.HtmlTokenizer.isAsciiUpperHexDigit c = false ∧
      H5V.Spec.HtmlTokenizer.isAsciiLowerHexDigit c = true ∧ d = c.toNat - 0x57) := by
  unfold toDigit at h
  simp only [char_le_iff, Char.reduceToNat] at h
  simp only [H5V.Spec.HtmlTokenizer.isAsciiDigit, H5V.Spec.HtmlTokenizer.isAsciiUpperHexDigit,
    H5V.Spec.HtmlTokenizer.isAsciiLowerHexDigit, char_le_iff, Char.reduceToNat, Bool.and_eq_true, decide_eq_true_eq,
    Bool.and_eq_false_iff, decide_eq_false_iff_not]
  by_cases h1 : 48 ≤ c.toNat ∧ c.toNat ≤ 57
  · simp [h1] at h; omega
  · by_cases h2 : 97 ≤ c.toNat ∧ c.toNat ≤ 122
    · simp [h1, h2] at h; omega
    · by_cases h3 : 65 ≤ c.toNat ∧ c.toNat ≤ 90
      · simp [h1, h2, h3] at h; omega
      · simp [h1, h2, h3] at h

theorem crnum_toDigit16_none {c : Char} (h : toDigit c 16 = none) :
    H5V.Spec.HtmlTokenizer.isAsciiHexDigit c = false := by
  unfold toDigit at h
  simp only [char_le_iff, Char.reduceToNat] at h
  simp only [H5V.Spec.HtmlTokenizer.isAsciiHexDigit, H5V.Spec.HtmlTokenizer.isAsciiDigit,
    H5V.Spec.HtmlTokenizer.isAsciiUpperHexDigit,
    H5V.Spec.HtmlTokenizer.isAsciiLowerHexDigit, char_le_iff, Char.reduceToNat, Bool.and_eq_true, decide_eq_true_eq,
    Bool.and_eq_false_iff, decide_eq_false_iff_not, Bool.or_eq_false_iff]
  by_cases h1 : 48 ≤ c.toNat ∧ c.toNat ≤ 57
  · simp [h1] at h; omega
  · by_cases h2 : 97 ≤ c.toNat ∧ c.toNat ≤ 122
    · simp [h1, h2] at h; omega
    · by_cases h3 : 65 ≤ c.toNat ∧ c.toNat ≤ 90
      · simp [h1, h2, h3] at h; omega
      · omega

theorem crnum_toDigit10_some {c : Char} {d : Nat} (h : toDigit c 10 = some d) :
    H5V.Spec.HtmlTokenizer.isAsciiDigit c = true ∧ d = c.toNat - 0x30 := by
  unfold toDigit at h
  simp only [char_le_iff, Char.reduceToNat] at h
  simp only [H5V.Spec.HtmlTokenizer.isAsciiDigit, char_le_iff, Char.reduceToNat, Bool.and_eq_true, decide_eq_true_eq]
  by_cases h1 : 48 ≤ c.toNat ∧ c.toNat ≤ 57
  · simp [h1] at h; omega
  · by_cases h2 : 97 ≤ c.toNat ∧ c.toNat ≤ 122
    · simp [h1, h2] at h; omega
    · by_cases h3 : 65 ≤ c.toNat ∧ c.toNat ≤ 90
      · simp [h1, h2, h3] at h; omega
      · simp [h1, h2, h3] at h

theorem crnum_toDigit10_none {c : Char} (h : toDigit c 10 = none) :
    H5V.Spec.HtmlTokenizer.isAsciiDigit c = false := by
  unfold toDigit at h
  simp only [char_le_iff, Char.reduceToNat] at h
  simp only [H5V.Spec.HtmlTokenizer.isAsciiDigit, char_le_iff, Char.reduceToNat, Bool.and_eq_false_iff,
    decide_eq_false_iff_not]
  by_cases h1 : 48 ≤ c.toNat ∧ c.toNat ≤ 57
  · simp [h1] at h; omega
  · omega

theorem crnum_toDigit_lt {c : Char} {b d : Nat} (h : toDigit c b = some d) : d < b := by
  unfold toDigit at h
  dsimp only at h
  split at h
  · split at h
    · simp only [Option.some.injEq] at h; omega
    · simp at h
  · simp at h

theorem crnum_toDigit_semicolon (b : Nat) : toDigit ';' b = none := by
  simp [toDigit]
theorem crnum_toDigit_lf (b : Nat) : toDigit '\n' b = none := by
  simp [toDigit]

theorem crnum_toDigit_foldCh {c : Char} {b : Nat} (h : toDigit c b = none) : toDigit (foldCh c) b = none := by
  unfold foldCh
  split
  · exact crnum_toDigit_lf b
  · exact h

/-! ## the steps of the specification -/

theorem crnum_begin_alnum (t : Tok) (c : Char) (h : isAsciiAlnum c = true) :
    H5V.Spec.HtmlTokenizer.characterReferenceState t (some c) =
      (crTok t .namedCharacterReference ['&'] t.characterReferenceCode, .advance 0) := by
  have hne : c ≠ '#' := by intro hc; subst hc; simp [isAsciiAlnum] at h
  unfold H5V.Spec.HtmlTokenizer.characterReferenceState
  split
  · rename_i heq; simp at heq; exact absurd heq hne
  · rename_i heq; simp only [Option.some.injEq] at heq; subst heq
    simp only [crnum_alnum_eq, h, if_true]
    rfl
  · rename_i heq; simp at heq

theorem crnum_finT_eq (t : Tok) (s : St) (b : Str) (n : Nat) :
    (crTok t s b n).flushCodePoints.setState t.returnState.toSt = finT t b n := by
  unfold finT
  rw [crnum_flush_eq, crnum_flush_eq]
  by_cases hx : t.returnState.inAttribute = true
  · have h1 : (crTok t s b n).returnState.inAttribute = true := hx
    have h2 : (crTok t t.state b n).returnState.inAttribute = true := hx
    rw [if_pos h1, if_pos h2]; rfl
  · have h1 : ¬ (crTok t s b n).returnState.inAttribute = true := hx
    have h2 : ¬ (crTok t t.state b n).returnState.inAttribute = true := hx
    rw [if_neg h1, if_neg h2]; rfl

@[simp] theorem crnum_finT_crTok (t : Tok) (s : St) (b b' : Str) (n n' : Nat) :
    finT (crTok t s b n) b' n' = finT t b' n' := by
  unfold finT
  rw [crTok_crTok, crTok_returnState]
  exact crnum_finT_eq t _ b' n'

theorem crnum_begin_other (t : Tok) (oc : Option Char)
    (h : ∀ c, oc = some c → c ≠ '#' ∧ isAsciiAlnum c = false) :
    H5V.Spec.HtmlTokenizer.characterReferenceState t oc = (finT t ['&'] t.characterReferenceCode, .advance 0) := by
  unfold H5V.Spec.HtmlTokenizer.characterReferenceState
  split
  · exact absurd rfl (h _ rfl).1
  · rename_i c _
    simp only [crnum_alnum_eq, (h c rfl).2, Bool.false_eq_true, if_false]
    rfl
  · rfl

/-! ### 13.2.5.75 numeric character reference state -/

theorem crnum_sstep_num (tree : Tree) (t : Tok) (rest : Str) (hs : t.state = .numericCharacterReference) :
    sstep tree t rest = H5V.Spec.HtmlTokenizer.numericCharacterReferenceState t rest.head? := by
  simp only [sstep, H5V.Spec.HtmlTokenizer.step, hs]

theorem crnum_num_x (t : Tok) (c : Char) (h : c = 'x' ∨ c = 'X') :
    H5V.Spec.HtmlTokenizer.numericCharacterReferenceState t (some c) =
      (crTok t .hexadecimalCharacterReferenceStart (t.temporaryBuffer ++ [c]) 0, .advance 1) := by
  rcases h with rfl | rfl <;> rfl

theorem crnum_num_other (t : Tok) (oc : Option Char) (h1 : oc ≠ some 'x') (h2 : oc ≠ some 'X') :
    H5V.Spec.HtmlTokenizer.numericCharacterReferenceState t oc =
      (crTok t .decimalCharacterReferenceStart t.temporaryBuffer 0, .advance 0) := by
  unfold H5V.Spec.HtmlTokenizer.numericCharacterReferenceState
  split
  · exact absurd rfl h1
  · exact absurd rfl h2
  · rfl

/-! ### 13.2.5.76/77 start states -/

theorem crnum_sstep_hexStart (tree : Tree) (t : Tok) (rest : Str) (hs : t.state = .hexadecimalCharacterReferenceStart) :
    sstep tree t rest = H5V.Spec.HtmlTokenizer.hexadecimalCharacterReferenceStartState t rest.head? := by
  simp only [sstep, H5V.Spec.HtmlTokenizer.step, hs]

theorem crnum_sstep_decStart (tree : Tree) (t : Tok) (rest : Str) (hs : t.state = .decimalCharacterReferenceStart) :
    sstep tree t rest = H5V.Spec.HtmlTokenizer.decimalCharacterReferenceStartState t rest.head? := by
  simp only [sstep, H5V.Spec.HtmlTokenizer.step, hs]

theorem crnum_hexStart_digit (t : Tok) (c : Char) (d : Nat) (h : toDigit c 16 = some d) :
    H5V.Spec.HtmlTokenizer.hexadecimalCharacterReferenceStartState t (some c) =
      (crTok t .hexadecimalCharacterReference t.temporaryBuffer t.characterReferenceCode, .advance 0) := by
  have : H5V.Spec.HtmlTokenizer.isAsciiHexDigit c = true := by
    unfold H5V.Spec.HtmlTokenizer.isAsciiHexDigit
    rcases crnum_toDigit16_some h with ⟨h1, _⟩ | ⟨_, h1, _⟩ | ⟨_, _, h1, _⟩ <;> simp [h1]
  unfold H5V.Spec.HtmlTokenizer.hexadecimalCharacterReferenceStartState
  simp only [Option.any_some, this, if_true]
  rfl

theorem crnum_hexStart_other (t : Tok) (oc : Option Char) (h : (oc.bind fun c => toDigit c 16) = none) :
    H5V.Spec.HtmlTokenizer.hexadecimalCharacterReferenceStartState t oc =
      (finT t t.temporaryBuffer t.characterReferenceCode, .advance 0) := by
  have : oc.any H5V.Spec.HtmlTokenizer.isAsciiHexDigit = false := by
    cases oc with
    | none => rfl
    | some c => simpa using crnum_toDigit16_none (by simpa using h)
  unfold H5V.Spec.HtmlTokenizer.hexadecimalCharacterReferenceStartState
  simp only [this, Bool.false_eq_true, if_false]
  rfl

theorem crnum_decStart_digit (t : Tok) (c : Char) (d : Nat) (h : toDigit c 10 = some d) :
    H5V.Spec.HtmlTokenizer.decimalCharacterReferenceStartState t (some c) =
      (crTok t .decimalCharacterReference t.temporaryBuffer t.characterReferenceCode, .advance 0) := by
  unfold H5V.Spec.HtmlTokenizer.decimalCharacterReferenceStartState
  simp only [Option.any_some, (crnum_toDigit10_some h).1, if_true]
  rfl

theorem crnum_decStart_other (t : Tok) (oc : Option Char) (h : (oc.bind fun c => toDigit c 10) = none) :
    H5V.Spec.HtmlTokenizer.decimalCharacterReferenceStartState t oc =
      (finT t t.temporaryBuffer t.characterReferenceCode, .advance 0) := by
  have : oc.any H5V.Spec.HtmlTokenizer.isAsciiDigit = false := by
    cases oc with
    | none => rfl
    | some c => simpa using crnum_toDigit10_none (by simpa using h)
  unfold H5V.Spec.HtmlTokenizer.decimalCharacterReferenceStartState
  simp only [this, Bool.false_eq_true, if_false]
  rfl

/-! ### 13.2.5.78/79 digit states -/

theorem crnum_sstep_hex (tree : Tree) (t : Tok) (rest : Str) (hs : t.state = .hexadecimalCharacterReference) :
    sstep tree t rest = H5V.Spec.HtmlTokenizer.hexadecimalCharacterReferenceState t rest.head? := by
  simp only [sstep, H5V.Spec.HtmlTokenizer.step, hs]

theorem crnum_sstep_dec (tree : Tree) (t : Tok) (rest : Str) (hs : t.state = .decimalCharacterReference) :
    sstep tree t rest = H5V.Spec.HtmlTokenizer.decimalCharacterReferenceState t rest.head? := by
  simp only [sstep, H5V.Spec.HtmlTokenizer.step, hs]

theorem crnum_hex_semi (t : Tok) :
    H5V.Spec.HtmlTokenizer.hexadecimalCharacterReferenceState t (some ';') =
      (crTok t .numericCharacterReferenceEnd t.temporaryBuffer t.characterReferenceCode, .advance 1) := rfl

theorem crnum_dec_semi (t : Tok) :
    H5V.Spec.HtmlTokenizer.decimalCharacterReferenceState t (some ';') =
      (crTok t .numericCharacterReferenceEnd t.temporaryBuffer t.characterReferenceCode, .advance 1) := rfl

theorem crnum_hex_digit (t : Tok) (c : Char) (d : Nat) (h : toDigit c 16 = some d) :
    H5V.Spec.HtmlTokenizer.hexadecimalCharacterReferenceState t (some c) =
      (crTok t t.state t.temporaryBuffer (t.characterReferenceCode * 16 + d), .advance 1) := by
  have hne : c ≠ ';' := by intro hc; subst hc; simp [toDigit] at h
  unfold H5V.Spec.HtmlTokenizer.hexadecimalCharacterReferenceState
  split
  · rename_i heq; simp at heq; exact absurd heq hne
  · rename_i heq; simp only [Option.some.injEq] at heq; subst heq
    rcases crnum_toDigit16_some h with ⟨h1, h2⟩ | ⟨h0, h1, h2⟩ | ⟨h0, h0', h1, h2⟩
    · simp only [h1, if_true, h2]; rfl
    · simp only [h0, h1, Bool.false_eq_true, if_false, if_true, h2]; rfl
    · simp only [h0, h0', h1, Bool.false_eq_true, if_false, if_true, h2]; rfl
  · rename_i heq; simp at heq

theorem crnum_hex_other (t : Tok) (oc : Option Char) (h : (oc.bind fun c => toDigit c 16) = none)
    (h2 : oc ≠ some ';') :
    H5V.Spec.HtmlTokenizer.hexadecimalCharacterReferenceState t oc =
      (crTok t .numericCharacterReferenceEnd t.temporaryBuffer t.characterReferenceCode, .advance 0) := by
  unfold H5V.Spec.HtmlTokenizer.hexadecimalCharacterReferenceState
  split
  · exact absurd rfl h2
  · rename_i c _
    have := crnum_toDigit16_none (c := c) (by simpa using h)
    simp only [H5V.Spec.HtmlTokenizer.isAsciiHexDigit, Bool.or_eq_false_iff] at this
    simp only [this.1.1, this.1.2, this.2, Bool.false_eq_true, if_false]
    rfl
  · rfl

theorem crnum_dec_digit (t : Tok) (c : Char) (d : Nat) (h : toDigit c 10 = some d) :
    H5V.Spec.HtmlTokenizer.decimalCharacterReferenceState t (some c) =
      (crTok t t.state t.temporaryBuffer (t.characterReferenceCode * 10 + d), .advance 1) := by
  have hne : c ≠ ';' := by intro hc; subst hc; simp [toDigit] at h
  unfold H5V.Spec.HtmlTokenizer.decimalCharacterReferenceState
  split
  · rename_i heq; simp at heq; exact absurd heq hne
  · rename_i heq; simp only [Option.some.injEq] at heq; subst heq
    obtain ⟨h1, h2⟩ := crnum_toDigit10_some h
    simp only [h1, if_true, h2]; rfl
  · rename_i heq; simp at heq

theorem crnum_dec_other (t : Tok) (oc : Option Char) (h : (oc.bind fun c => toDigit c 10) = none)
    (h2 : oc ≠ some ';') :
    H5V.Spec.HtmlTokenizer.decimalCharacterReferenceState t oc =
      (crTok t .numericCharacterReferenceEnd t.temporaryBuffer t.characterReferenceCode, .advance 0) := by
  unfold H5V.Spec.HtmlTokenizer.decimalCharacterReferenceState
  split
  · exact absurd rfl h2
  · rename_i c _
    have := crnum_toDigit10_none (c := c) (by simpa using h)
    simp only [this, Bool.false_eq_true, if_false]
    rfl
  · rfl

/-! ### 13.2.5.80 numeric character reference end state -/

theorem crnum_sstep_end (tree : Tree) (t : Tok) (rest : Str) (hs : t.state = .numericCharacterReferenceEnd) :
    sstep tree t rest =
      (finT t [Char.ofNat (H5V.Spec.HtmlTokenizer.numericReferenceCodePoint t.characterReferenceCode)]
        (H5V.Spec.HtmlTokenizer.numericReferenceCodePoint t.characterReferenceCode), .advance 0) := by
  simp only [sstep, H5V.Spec.HtmlTokenizer.step, hs]
  rfl

theorem crnum_codePoint_eq (v : Nat) :
    H5V.Spec.HtmlTokenizer.numericReferenceCodePoint v = H5V.Props.C14.specNumeric v := by
  unfold H5V.Spec.HtmlTokenizer.numericReferenceCodePoint H5V.Props.C14.specNumeric
  by_cases h1 : v = 0
  · rw [if_pos h1, if_pos h1]
  · rw [if_neg h1, if_neg h1]
    by_cases h2 : v > 0x10FFFF
    · rw [if_pos h2, if_pos h2]
    · rw [if_neg h2, if_neg h2]
      by_cases h3 : 0xD800 ≤ v ∧ v ≤ 0xDFFF
      · rw [if_pos h3, if_pos h3]
      · rw [if_neg h3, if_neg h3]
        by_cases h4 : 0x80 ≤ v ∧ v ≤ 0x9F
        · rw [if_pos h4, if_pos h4]
          cases H5V.Spec.C1.table[v - 0x80]? with
          | none => rfl
          | some y => cases y <;> rfl
        · rw [if_neg h4, if_neg h4]

end H5V.Lemmas.HtmlTokSpec
