import H5V.Lemmas.HtmlTBFuelLogic
/-!
# The fuel of `process_to_completion`, part 4: the helpers only shrink the stack (`SH`)
-/
namespace H5V.Lemmas.TBFuel
open H5V.Model.HtmlTB
open H5V.Model.HtmlTok (TagKind)
open H5V.Model.Dom (Id QualName Attr NodeOrText SinkOp Output ElementFlags QuirksMode Dom NodeData Node)
open H5V.Lemmas.TBSafe
open H5V.Lemmas.TBC (ok_bind ok_pure ok_getS_bind ok_modS_bind ok_ite ok_bind_pure)

theorem sh_htmlElemNamedS (h : Id) (name : Str) : SH (htmlElemNamedS h name) := by
  unfold H5V.Model.HtmlTB.htmlElemNamedS; sh_walk
macro_rules | `(tactic| sh_leaf) => `(tactic| with_reducible exact sh_htmlElemNamedS _ _)

theorem sh_htmlElemNamed (h : Id) (name : String) : SH (htmlElemNamed h name) := sh_htmlElemNamedS _ _
macro_rules | `(tactic| sh_leaf) => `(tactic| with_reducible exact sh_htmlElemNamed _ _)

theorem sh_elemIn (h : Id) (set : EName → Bool) : SH (elemIn h set) := by
  unfold H5V.Model.HtmlTB.elemIn; sh_walk
macro_rules | `(tactic| sh_leaf) => `(tactic| with_reducible exact sh_elemIn _ _)

theorem sh_sameNode (x y : Id) : SH (sameNode x y) := sh_sinkBool _
macro_rules | `(tactic| sh_leaf) => `(tactic| with_reducible exact sh_sameNode _ _)

theorem sh_currentNode : SH currentNode := by
  unfold H5V.Model.HtmlTB.currentNode
  refine sh_getS_bind (fun s0 => ?_)
  cases s0.openElems.getLast? <;> sh_walk
macro_rules | `(tactic| sh_leaf) => `(tactic| with_reducible exact sh_currentNode)

theorem sh_adjustedCurrentNode : SH adjustedCurrentNode := by
  unfold H5V.Model.HtmlTB.adjustedCurrentNode
  refine sh_getS_bind (fun s0 => ?_)
  refine sh_ite (fun _ => ?_) (fun _ => sh_currentNode)
  cases s0.contextElem <;> sh_walk
macro_rules | `(tactic| sh_leaf) => `(tactic| with_reducible exact sh_adjustedCurrentNode)

theorem sh_currentNodeIn (set : EName → Bool) : SH (currentNodeIn set) := by
  unfold H5V.Model.HtmlTB.currentNodeIn; sh_walk
macro_rules | `(tactic| sh_leaf) => `(tactic| with_reducible exact sh_currentNodeIn _)

theorem sh_currentNodeNamedS (name : Str) : SH (currentNodeNamedS name) := by
  unfold H5V.Model.HtmlTB.currentNodeNamedS; sh_walk
macro_rules | `(tactic| sh_leaf) => `(tactic| with_reducible exact sh_currentNodeNamedS _)

theorem sh_currentNodeNamed (name : String) : SH (currentNodeNamed name) := sh_currentNodeNamedS _
macro_rules | `(tactic| sh_leaf) => `(tactic| with_reducible exact sh_currentNodeNamed _)

theorem sh_htmlElem : SH htmlElem := by
  unfold H5V.Model.HtmlTB.htmlElem
  refine sh_getS_bind (fun s0 => ?_)
  cases s0.openElems.head? <;> sh_walk
macro_rules | `(tactic| sh_leaf) => `(tactic| with_reducible exact sh_htmlElem)

theorem sh_isFragment : SH isFragment := by
  unfold H5V.Model.HtmlTB.isFragment; sh_walk
macro_rules | `(tactic| sh_leaf) => `(tactic| with_reducible exact sh_isFragment)

theorem shr_dropStack (s : State) {l : List Id} (h : l.Sublist s.openElems) : Shr s { s with openElems := l } :=
  ⟨Ext.refl _, h, rfl, rfl⟩

theorem sh_pop : SH pop := by
  unfold H5V.Model.HtmlTB.pop
  refine sh_getS_bind_at (fun s0 => ?_)
  cases s0.openElems.getLast? with
  | none => exact sh_at sh_panicAt _
  | some h =>
    dsimp only
    refine shat_set_bind (shr_dropStack s0 (List.dropLast_sublist _)) ?_
    sh_walk
macro_rules | `(tactic| sh_leaf) => `(tactic| with_reducible exact sh_pop)

theorem sh_popSilently : SH popSilently := by
  unfold H5V.Model.HtmlTB.popSilently
  refine sh_getS_bind_at (fun s0 => ?_)
  cases s0.openElems.getLast? with
  | none => exact sh_at (sh_pure _) _
  | some h =>
    dsimp only
    refine shat_set_bind (shr_dropStack s0 (List.dropLast_sublist _)) ?_
    sh_walk
macro_rules | `(tactic| sh_leaf) => `(tactic| with_reducible exact sh_popSilently)

/-- an update of builder fields other than the stack and the template modes -/
theorem sh_modS_fields {f : State → State} (hd : ∀ s, (f s).dom = s.dom) (ho : ∀ s, (f s).openElems = s.openElems)
    (ht : ∀ s, (f s).templateModes = s.templateModes) (hor : ∀ s, (f s).origMode = s.origMode := by intro _; rfl) :
    SH (modS f) :=
  sh_modS (fun s => ⟨by rw [hd]; exact Ext.refl _, by rw [ho]; exact List.Sublist.refl _, ht s, hor s⟩)

theorem sh_setMode (m : Mode) : SH (setMode m) := sh_modS_fields (fun _ => rfl) (fun _ => rfl) (fun _ => rfl)
theorem sh_setFramesetOk (b : Bool) : SH (setFramesetOk b) := sh_modS_fields (fun _ => rfl) (fun _ => rfl) (fun _ => rfl)
theorem sh_pushMarker : SH pushMarker := sh_modS_fields (fun _ => rfl) (fun _ => rfl) (fun _ => rfl)
theorem sh_clearActiveFormattingToMarker : SH clearActiveFormattingToMarker :=
  sh_modS_fields (fun _ => rfl) (fun _ => rfl) (fun _ => rfl)
macro_rules | `(tactic| sh_leaf) => `(tactic| with_reducible exact sh_setMode _)
macro_rules | `(tactic| sh_leaf) => `(tactic| with_reducible exact sh_setFramesetOk _)
macro_rules | `(tactic| sh_leaf) => `(tactic| with_reducible exact sh_pushMarker)
macro_rules | `(tactic| sh_leaf) => `(tactic| with_reducible exact sh_clearActiveFormattingToMarker)

theorem sh_unexpected : SH unexpected := by
  unfold H5V.Model.HtmlTB.unexpected; sh_walk
macro_rules | `(tactic| sh_leaf) => `(tactic| with_reducible exact sh_unexpected)

theorem sh_setQuirksMode (m : QuirksMode) : SH (setQuirksMode m) := by
  unfold H5V.Model.HtmlTB.setQuirksMode
  exact sh_bind (sh_modS_fields (fun _ => rfl) (fun _ => rfl) (fun _ => rfl)) (fun _ => sh_sinkUnit _)
macro_rules | `(tactic| sh_leaf) => `(tactic| with_reducible exact sh_setQuirksMode _)

theorem sh_anyHtmlElemNamed (name : String) : ∀ l, SH (anyHtmlElemNamed name l) := by
  intro l
  induction l with
  | nil => unfold anyHtmlElemNamed; exact sh_pure _
  | cons e rest ih => unfold anyHtmlElemNamed; sh_walk; exact ih
macro_rules | `(tactic| sh_leaf) => `(tactic| with_reducible exact sh_anyHtmlElemNamed _ _)

theorem sh_inHtmlElemNamed (name : String) : SH (inHtmlElemNamed name) := by
  unfold H5V.Model.HtmlTB.inHtmlElemNamed; sh_walk
macro_rules | `(tactic| sh_leaf) => `(tactic| with_reducible exact sh_inHtmlElemNamed _)

theorem sh_inScopeLoop (scope : EName → Bool) {pred : Id → M Bool} (hp : ∀ x, SH (pred x)) :
    ∀ l, SH (inScopeLoop scope pred l) := by
  intro l
  induction l with
  | nil => unfold inScopeLoop; exact sh_pure _
  | cons e rest ih =>
    unfold inScopeLoop
    refine sh_bind (hp e) (fun _ => ?_)
    refine sh_ite (fun _ => sh_pure _) (fun _ => ?_)
    refine sh_bind (sh_elemName _) (fun _ => ?_)
    exact sh_ite (fun _ => sh_pure _) (fun _ => ih)

theorem sh_inScope (scope : EName → Bool) {pred : Id → M Bool} (hp : ∀ x, SH (pred x)) : SH (inScope scope pred) := by
  unfold H5V.Model.HtmlTB.inScope
  exact sh_getS_bind (fun _ => sh_inScopeLoop scope hp _)

theorem sh_inScopeNamedS (scope : EName → Bool) (name : Str) : SH (inScopeNamedS scope name) :=
  sh_inScope scope (fun _ => sh_htmlElemNamedS _ _)
theorem sh_inScopeNamed (scope : EName → Bool) (name : String) : SH (inScopeNamed scope name) :=
  sh_inScopeNamedS _ _
theorem sh_inScope_elemIn (scope set : EName → Bool) : SH (inScope scope (fun e => elemIn e set)) :=
  sh_inScope scope (fun _ => sh_elemIn _ _)
theorem sh_inScope_sameNode (scope : EName → Bool) (node : Id) : SH (inScope scope (fun n => sameNode node n)) :=
  sh_inScope scope (fun _ => sh_sameNode _ _)
macro_rules | `(tactic| sh_leaf) => `(tactic| with_reducible exact sh_inScopeNamedS _ _)
macro_rules | `(tactic| sh_leaf) => `(tactic| with_reducible exact sh_inScopeNamed _ _)
macro_rules | `(tactic| sh_leaf) => `(tactic| with_reducible exact sh_inScope_elemIn _ _)
macro_rules | `(tactic| sh_leaf) => `(tactic| with_reducible exact sh_inScope_sameNode _ _)

theorem sh_generateImpliedEndTagsLoop (set : EName → Bool) : ∀ n, SH (generateImpliedEndTagsLoop set n) := by
  intro n
  induction n with
  | zero => unfold generateImpliedEndTagsLoop; exact sh_fuelOut
  | succ n ih =>
    unfold generateImpliedEndTagsLoop
    refine sh_getS_bind (fun s0 => ?_)
    cases s0.openElems.getLast? with
    | none => exact sh_pure _
    | some e => dsimp only; sh_walk; exact ih

theorem sh_generateImpliedEndTags (set : EName → Bool) : SH (generateImpliedEndTags set) := by
  unfold H5V.Model.HtmlTB.generateImpliedEndTags
  exact sh_getS_bind (fun _ => sh_generateImpliedEndTagsLoop _ _)
theorem sh_generateImpliedEndExcept (e : Str) : SH (generateImpliedEndExcept e) := sh_generateImpliedEndTags _
macro_rules | `(tactic| sh_leaf) => `(tactic| with_reducible exact sh_generateImpliedEndTags _)
macro_rules | `(tactic| sh_leaf) => `(tactic| with_reducible exact sh_generateImpliedEndExcept _)

theorem sh_popUntilCurrentLoop (set : EName → Bool) : ∀ n, SH (popUntilCurrentLoop set n) := by
  intro n
  induction n with
  | zero => unfold popUntilCurrentLoop; exact sh_fuelOut
  | succ n ih => unfold popUntilCurrentLoop; sh_walk; exact ih

theorem sh_popUntilCurrent (set : EName → Bool) : SH (popUntilCurrent set) := by
  unfold H5V.Model.HtmlTB.popUntilCurrent
  exact sh_getS_bind (fun _ => sh_popUntilCurrentLoop _ _)
macro_rules | `(tactic| sh_leaf) => `(tactic| with_reducible exact sh_popUntilCurrent _)

theorem sh_popUntilLoop (pred : EName → Bool) : ∀ n k, SH (popUntilLoop pred n k) := by
  intro n
  induction n with
  | zero => intro k; unfold popUntilLoop; exact sh_fuelOut
  | succ n ih =>
    intro k
    unfold popUntilLoop
    dsimp only
    refine sh_bind sh_popSilently (fun o => ?_)
    cases o with
    | none => exact sh_pure _
    | some e => dsimp only; sh_walk; exact ih _

theorem sh_popUntil (pred : EName → Bool) : SH (popUntil pred) := by
  unfold H5V.Model.HtmlTB.popUntil
  exact sh_getS_bind (fun _ => sh_popUntilLoop _ _ _)
theorem sh_popUntilNamedS (name : Str) : SH (popUntilNamedS name) := sh_popUntil _
theorem sh_popUntilNamed (name : String) : SH (popUntilNamed name) := sh_popUntil _
macro_rules | `(tactic| sh_leaf) => `(tactic| with_reducible exact sh_popUntil _)
macro_rules | `(tactic| sh_leaf) => `(tactic| with_reducible exact sh_popUntilNamedS _)
macro_rules | `(tactic| sh_leaf) => `(tactic| with_reducible exact sh_popUntilNamed _)

theorem sh_expectToCloseS (name : Str) : SH (expectToCloseS name) := by
  unfold H5V.Model.HtmlTB.expectToCloseS; sh_walk
theorem sh_expectToClose (name : String) : SH (expectToClose name) := sh_expectToCloseS _
macro_rules | `(tactic| sh_leaf) => `(tactic| with_reducible exact sh_expectToCloseS _)
macro_rules | `(tactic| sh_leaf) => `(tactic| with_reducible exact sh_expectToClose _)

theorem sh_closePElement : SH closePElement := by
  unfold H5V.Model.HtmlTB.closePElement; sh_walk
macro_rules | `(tactic| sh_leaf) => `(tactic| with_reducible exact sh_closePElement)

theorem sh_closePElementInButtonScope : SH closePElementInButtonScope := by
  unfold H5V.Model.HtmlTB.closePElementInButtonScope; sh_walk
macro_rules | `(tactic| sh_leaf) => `(tactic| with_reducible exact sh_closePElementInButtonScope)

theorem sh_checkBodyEndLoop : ∀ l, SH (checkBodyEndLoop l) := by
  intro l
  induction l with
  | nil => unfold checkBodyEndLoop; exact sh_pure _
  | cons e rest ih => unfold checkBodyEndLoop; sh_walk; exact ih

theorem sh_checkBodyEnd : SH checkBodyEnd := by
  unfold H5V.Model.HtmlTB.checkBodyEnd
  exact sh_getS_bind (fun _ => sh_checkBodyEndLoop _)
macro_rules | `(tactic| sh_leaf) => `(tactic| with_reducible exact sh_checkBodyEnd)

theorem sh_closeTheCell : SH closeTheCell := by
  unfold H5V.Model.HtmlTB.closeTheCell; sh_walk
macro_rules | `(tactic| sh_leaf) => `(tactic| with_reducible exact sh_closeTheCell)

theorem sh_popTr (site : String) : SH (popTr site) := by
  unfold H5V.Model.HtmlTB.popTr; sh_walk
macro_rules | `(tactic| sh_leaf) => `(tactic| with_reducible exact sh_popTr _)

theorem sh_resetLoop : ∀ l n, SH (resetLoop l n) := by
  intro l
  induction l with
  | nil => intro n; unfold resetLoop; exact sh_pure _
  | cons node rest ih =>
    intro n
    unfold resetLoop
    refine sh_getS_bind (fun s0 => ?_)
    dsimp only
    refine sh_bind (sh_elemName _) (fun nm => ?_)
    refine sh_ite (fun _ => ih _) (fun _ => ?_)
    refine sh_ite (fun _ => sh_pure _) (fun _ => ?_)
    refine sh_ite (fun _ => sh_pure _) (fun _ => ?_)
    refine sh_ite (fun _ => sh_pure _) (fun _ => ?_)
    refine sh_ite (fun _ => sh_pure _) (fun _ => ?_)
    refine sh_ite (fun _ => sh_pure _) (fun _ => ?_)
    refine sh_ite (fun _ => sh_pure _) (fun _ => ?_)
    refine sh_ite (fun _ => ?_) (fun _ => ?_)
    · cases s0.templateModes.getLast? with
      | none => exact sh_panicAt
      | some m => exact sh_pure _
    refine sh_ite (fun _ => sh_ite (fun _ => sh_pure _) (fun _ => ih _)) (fun _ => ?_)
    refine sh_ite (fun _ => sh_pure _) (fun _ => ?_)
    refine sh_ite (fun _ => sh_pure _) (fun _ => ?_)
    refine sh_ite (fun _ => ?_) (fun _ => ih _)
    cases s0.headElem with
    | none => exact sh_pure _
    | some _ => exact sh_pure _

theorem sh_resetInsertionMode : SH resetInsertionMode := by
  unfold H5V.Model.HtmlTB.resetInsertionMode
  exact sh_getS_bind (fun _ => sh_resetLoop _ _)
macro_rules | `(tactic| sh_leaf) => `(tactic| with_reducible exact sh_resetInsertionMode)

/-! ### the modes `reset_insertion_mode` can answer -/

/-- the modes `reset_insertion_mode` answers without looking at the stack of template modes -/
def resetRange : List Mode :=
  [.inBody, .inCell, .inRow, .inTableBody, .inCaption, .inColumnGroup, .inTable, .inHead, .inFrameset,
   .beforeHead, .afterHead]

theorem range_resetLoop : ∀ (l : List Id) (n : Nat) (s : State) (m : Mode) (s' : State),
    resetLoop l n s = .ok (m, s') → m ∈ resetRange ∨ m ∈ s'.templateModes := by
  intro l
  induction l with
  | nil =>
    intro n s m s' h
    unfold resetLoop at h
    rw [← (ok_pure h).1]; exact Or.inl (by decide)
  | cons node rest ih =>
    intro n s m s' h
    unfold resetLoop at h
    have h1 := ok_getS_bind h
    obtain ⟨nn, s1, hq, h2⟩ := ok_bind h1
    have htm1 : s1.templateModes = s.templateModes := (sh_elemName _ s nn s1 hq).tm
    have hfix : ∀ {x : Mode} {sa sb : State}, x ∈ resetRange → (pure x : M Mode) sa = .ok (m, sb) →
        m ∈ resetRange ∨ m ∈ s'.templateModes := by
      intro x sa sb hx hp
      rw [← (ok_pure hp).1]; exact Or.inl hx
    by_cases c0 : (nn.ns != nsHtml) = true
    · rw [if_pos c0] at h2; exact ih _ _ _ _ h2
    rw [if_neg c0] at h2
    by_cases c1 : (isOneOf nn.loc ["td", "th"] && !(n - 1 == 0)) = true
    · rw [if_pos c1] at h2; exact hfix (by decide) h2
    rw [if_neg c1] at h2
    by_cases c2 : isName nn.loc "tr" = true
    · rw [if_pos c2] at h2; exact hfix (by decide) h2
    rw [if_neg c2] at h2
    by_cases c3 : isOneOf nn.loc ["tbody", "thead", "tfoot"] = true
    · rw [if_pos c3] at h2; exact hfix (by decide) h2
    rw [if_neg c3] at h2
    by_cases c4 : isName nn.loc "caption" = true
    · rw [if_pos c4] at h2; exact hfix (by decide) h2
    rw [if_neg c4] at h2
    by_cases c5 : isName nn.loc "colgroup" = true
    · rw [if_pos c5] at h2; exact hfix (by decide) h2
    rw [if_neg c5] at h2
    by_cases c6 : isName nn.loc "table" = true
    · rw [if_pos c6] at h2; exact hfix (by decide) h2
    rw [if_neg c6] at h2
    by_cases c7 : isName nn.loc "template" = true
    · rw [if_pos c7] at h2
      cases hl : s.templateModes.getLast? with
      | none => rw [hl] at h2; cases h2
      | some x =>
        rw [hl] at h2
        have e := ok_pure h2
        rw [← e.1, ← e.2, htm1]
        exact Or.inr (List.mem_of_getLast? hl)
    rw [if_neg c7] at h2
    by_cases c8 : isName nn.loc "head" = true
    · rw [if_pos c8] at h2
      by_cases c9 : (!(n - 1 == 0)) = true
      · rw [if_pos c9] at h2; exact hfix (by decide) h2
      · rw [if_neg c9] at h2; exact ih _ _ _ _ h2
    rw [if_neg c8] at h2
    by_cases c10 : isName nn.loc "body" = true
    · rw [if_pos c10] at h2; exact hfix (by decide) h2
    rw [if_neg c10] at h2
    by_cases c11 : isName nn.loc "frameset" = true
    · rw [if_pos c11] at h2; exact hfix (by decide) h2
    rw [if_neg c11] at h2
    by_cases c12 : isName nn.loc "html" = true
    · rw [if_pos c12] at h2
      cases hh : s.headElem with
      | none => rw [hh] at h2; exact hfix (by decide) h2
      | some x => rw [hh] at h2; exact hfix (by decide) h2
    rw [if_neg c12] at h2
    exact ih _ _ _ _ h2

theorem range_resetInsertionMode {s s' : State} {m : Mode} (h : resetInsertionMode s = .ok (m, s')) :
    m ∈ resetRange ∨ m ∈ s'.templateModes := by
  unfold resetInsertionMode at h
  exact range_resetLoop _ _ _ _ _ (ok_getS_bind h)

end H5V.Lemmas.TBFuel
