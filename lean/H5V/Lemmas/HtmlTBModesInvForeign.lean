import H5V.Lemmas.HtmlTBModesInvPrim2
/-!
C02 (insertion modes), the invariant `Good` of the specification's run: the rules for parsing tokens in foreign
content (§13.2.6.5, `Spec.TreeModes.foreign`).

The rules never touch the insertion mode, the original insertion mode, the template insertion modes or the list of
active formatting elements; they push elements outside the HTML namespace and pop elements outside the HTML
namespace (`FgRel`).  Hence "has a td/th in table scope" is kept, and an HTML element at the bottom of the stack
stays there.
-/
set_option linter.unusedSectionVars false
set_option linter.unusedSimpArgs false
namespace H5V.Lemmas.ModesInv
open H5V.Spec H5V.Spec.TreeModes
open H5V.Spec.TreeAlgo (Str Name nsHtml nsMathml nsSvg inHtml)
open H5V.Spec.TreeAlgo2 (Elem Entry PState)

section
variable {N : Type} [DecidableEq N]

/-! ### stacks that differ by pushed / popped foreign elements only -/

/-- `st` arises from `st0` by pushing elements outside the HTML namespace (`ps`) and popping elements outside the
HTML namespace (`fs`) -/
def FgRel (st0 st : List (Elem N)) : Prop :=
  ∃ ps fs : List (Elem N), (∀ e ∈ ps, e.name.ns ≠ nsHtml) ∧ (∀ e ∈ fs, e.name.ns ≠ nsHtml) ∧ st0 ++ ps = st ++ fs

theorem fg_rel_refl (st : List (Elem N)) : FgRel st st :=
  ⟨[], [], fun _ h => (by cases h), fun _ h => (by cases h), rfl⟩

/-- popping foreign elements: `st0 = st ++ fs` -/
theorem fg_rel_pop {st0 st fs : List (Elem N)} (hfs : ∀ e ∈ fs, e.name.ns ≠ nsHtml) (h : st0 = st ++ fs) :
    FgRel st0 st :=
  ⟨[], fs, fun _ h => (by cases h), hfs, (by rw [List.append_nil, h])⟩

/-- (a) "has a td/th in table scope" is the same -/
theorem fg_rel_cellR {st0 st : List (Elem N)} (h : FgRel st0 st) : cellR (namesOf st) = cellR (namesOf st0) := by
  obtain ⟨ps, fs, hps, hfs, he⟩ := h
  rw [← cellR_append_neutral st (es := fs) (fun e he => neutralN_of_ns (hfs e he)), ← he,
    cellR_append_neutral st0 (fun e he => neutralN_of_ns (hps e he))]

/-- (b) an HTML element at the bottom of the stack stays there -/
theorem fg_rel_head {st0 st : List (Elem N)} (h : FgRel st0 st) {b : Elem N} (hb : st0.head? = some b)
    (hns : b.name.ns = nsHtml) : st.head? = some b := by
  obtain ⟨ps, fs, hps, hfs, he⟩ := h
  cases st0 with
  | nil => cases hb
  | cons a l =>
    simp only [List.head?_cons, Option.some.injEq] at hb
    subst hb
    cases st with
    | nil =>
      simp only [List.nil_append] at he
      exact absurd hns (hfs a (by rw [← he]; simp))
    | cons x st' =>
      simp only [List.cons_append, List.cons.injEq] at he
      rw [← he.1]; rfl

/-! ### the pieces of `foreign` -/

theorem fg_stops_ns {s : State N} {e : Elem N} (h : (!stopsBreakOut s e) = true) : e.name.ns ≠ nsHtml := by
  unfold stopsBreakOut at h
  simp only [Bool.not_eq_true', Bool.or_eq_false_iff] at h
  simpa using h.2

theorem fg_breakOut (σ : State N) :
    ∃ s' st, foreignBreakOut σ = .reprocessHtml s' ∧ Upd σ s' st σ.p.list ∧ FgRel σ.p.stack st := by
  refine ⟨_, _, rfl, ⟨rfl, rfl, rfl, rfl, rfl, rfl⟩, ?_⟩
  refine fg_rel_pop (fs := (σ.p.stack.reverse.takeWhile fun e =>
    !stopsBreakOut (σ.err "foreign content: HTML tag breaks out") e).reverse) ?_ ?_
  · intro e he
    have he' : e ∈ σ.p.stack.reverse.takeWhile fun e =>
        !stopsBreakOut (σ.err "foreign content: HTML tag breaks out") e := List.mem_reverse.mp he
    have hp := mem_takeWhile_p he'
    exact fg_stops_ns hp
  · show σ.p.stack = (List.dropWhile _ σ.p.stack.reverse).reverse ++ _
    rw [← List.reverse_append, List.takeWhile_append_dropWhile, List.reverse_reverse]

theorem fg_svgScript {s : State N} {r : Step N} (h : foreignEndSvgScript s = .ok r) :
    ∃ s', r = .done s' ∧ Upd s s' s.p.stack.dropLast s.p.list := by
  unfold foreignEndSvgScript at h
  obtain ⟨sc, _, h2⟩ := bind_ok h
  cases pure_ok h2
  exact ⟨_, rfl, ⟨rfl, rfl, rfl, rfl, rfl, rfl⟩⟩

/-- the dispatcher chose the foreign rules: the adjusted current node is not an HTML element -/
theorem fg_acn_ns {acn : Option TreeAlgo.OpenElem} {k : TreeAlgo.TokenKind} {e : TreeAlgo.OpenElem}
    (hu : TreeAlgo.useHtmlRules acn k = false) (ha : acn = some e) : e.name.ns ≠ nsHtml := by
  subst ha
  unfold TreeAlgo.useHtmlRules at hu
  simp only [Bool.or_eq_false_iff] at hu
  simpa using hu.1.1.1.1.1.1

theorem fg_startTag {cfg : Config N} {σ : State N} {t : Tag} {k : TreeAlgo.TokenKind} {r : Step N}
    (hu : TreeAlgo.useHtmlRules (adjustedCurrentNode cfg σ) k = false)
    (h : foreignAnyOtherStartTag cfg σ t = .ok r) :
    ∃ s' st, r = .done s' ∧ Upd σ s' st σ.p.list ∧ FgRel σ.p.stack st := by
  unfold foreignAnyOtherStartTag at h
  obtain ⟨acn, ha, h⟩ := bind_ok h
  have hns : acn.name.ns ≠ nsHtml := fg_acn_ns hu (req_ok ha)
  dsimp only at h
  obtain ⟨⟨s1, e⟩, hi, h⟩ := bind_ok h
  obtain ⟨he, hne, hu1⟩ := insertForeign_eff hi
  dsimp only at h
  have hpop : (σ.p.stack ++ [e]).dropLast = σ.p.stack := by simp
  have tail : ∀ c : Bool, (if t.selfClosing = true then
      (if c = true then foreignEndSvgScript (s1.ack t) else pure (.done (s1.pop.ack t)))
      else pure (.done s1)) = .ok r → ∃ s' st, r = .done s' ∧ Upd σ s' st σ.p.list ∧ FgRel σ.p.stack st := by
    intro c h
    split at h
    · split at h
      · obtain ⟨s', rfl, hu2⟩ := fg_svgScript h
        refine ⟨s', σ.p.stack, rfl, ?_, fg_rel_refl _⟩
        have h1 := hu2.stack
        have h2 := hu2.list
        have h3 := hu2.mode
        have h4 := hu2.orig
        have h5 := hu2.tms
        have h6 := hu2.stopped
        simp only [ack_p, ack_mode, ack_orig, ack_tms, ack_stopped, hu1.stack, hu1.list, hu1.mode, hu1.orig, hu1.tms,
          hu1.stopped, hpop] at h1 h2 h3 h4 h5 h6
        exact ⟨h3, h4, h5, h6, h1, h2⟩
      · cases pure_ok h
        refine ⟨_, σ.p.stack, rfl, ?_, fg_rel_refl _⟩
        constructor <;> simp [hu1.stack, hu1.list, hu1.mode, hu1.orig, hu1.tms, hu1.stopped]
    · cases pure_ok h
      exact ⟨s1, _, rfl, hu1, [e], [], (by intro x hx; simp at hx; subst hx; rw [he]; exact hns),
        fun _ h => (by cases h), (by simp)⟩
  exact tail _ h

/-- the loop of "any other end tag": the elements between the current node and the matching node (inclusive) are
not HTML elements, and the matching node is not the first element of the stack -/
theorem fg_loop {name : Str} : ∀ (l : List (Elem N)) (n k : Nat), foreignEndLoop name l n = .popThrough k →
    ∃ j, k = n + j ∧ 2 ≤ l.length ∧ ∀ e ∈ (l.take (j + 1)).drop 1, e.name.ns ≠ nsHtml
  | [], _, _, h => by simp [foreignEndLoop] at h
  | [_], _, _, h => by simp [foreignEndLoop] at h
  | node :: prev :: rest, n, k, h => by
    unfold foreignEndLoop at h
    split at h
    · cases h
      exact ⟨0, rfl, by simp, by simp⟩
    · split at h
      · rename_i hp
        obtain ⟨j, hk, _, hj⟩ := fg_loop (prev :: rest) (n + 1) k h
        refine ⟨j + 1, by omega, by simp, ?_⟩
        intro e he
        simp only [List.take_succ_cons, List.drop_one, List.tail_cons, List.mem_cons] at he
        rcases he with rfl | he
        · simpa using hp
        · exact hj e (by simpa using he)
      · cases h

theorem fg_popThrough {cfg : Config N} {σ : State N} {name : Str} {k : Nat} {kind : TreeAlgo.TokenKind}
    (hu : TreeAlgo.useHtmlRules (adjustedCurrentNode cfg σ) kind = false)
    (h : foreignEndLoop name σ.p.stack.reverse 0 = .popThrough k) :
    FgRel σ.p.stack (σ.p.stack.take (σ.p.stack.length - (k + 1))) := by
  obtain ⟨j, hk, h2, hj⟩ := fg_loop _ _ _ h
  have hk : k = j := by omega
  subst hk
  have h2 : 2 ≤ σ.p.stack.length := by simpa using h2
  cases ht : σ.p.stack.getLast? with
  | none =>
    rw [List.getLast?_eq_none_iff.mp ht] at h2
    simp at h2
  | some top =>
    have htop : top.name.ns ≠ nsHtml := top_foreign_of_not_useHtml cfg σ ht (Or.inl h2) hu
    have hr : σ.p.stack.reverse = top :: σ.p.stack.dropLast.reverse := by
      obtain ⟨ys, hys⟩ := List.getLast?_eq_some_iff.mp ht
      rw [hys]; simp
    refine fg_rel_pop (fs := (σ.p.stack.reverse.take (k + 1)).reverse) ?_ ?_
    · intro e he
      have he := List.mem_reverse.mp he
      rw [hr] at he hj
      simp only [List.take_succ_cons, List.mem_cons] at he
      rcases he with rfl | he
      · exact htop
      · exact hj e (by simpa using he)
    · have : σ.p.stack.take (σ.p.stack.length - (k + 1)) = (σ.p.stack.reverse.drop (k + 1)).reverse := by
        rw [← reverse_take', List.reverse_reverse]
      rw [this, ← List.reverse_append, List.take_append_drop, List.reverse_reverse]

theorem fg_popThrough' {cfg : Config N} {σ s : State N} {name : Str} {k : Nat} {kind : TreeAlgo.TokenKind}
    (hu : TreeAlgo.useHtmlRules (adjustedCurrentNode cfg σ) kind = false) (hs : s.p.stack = σ.p.stack)
    (h : foreignEndLoop name s.p.stack.reverse 0 = .popThrough k) :
    FgRel σ.p.stack (s.p.stack.take (s.p.stack.length - (k + 1))) := by
  rw [hs] at h ⊢
  exact fg_popThrough hu h

theorem fg_upd_setStack {σ s : State N} (hs : Upd σ s σ.p.stack σ.p.list) (st : List (Elem N)) :
    Upd σ (s.setStack st) st σ.p.list := ⟨hs.mode, hs.orig, hs.tms, hs.stopped, rfl, hs.list⟩

/-- the effect of `foreign`: either it hands the end tag to the rules of the insertion mode, or it only pushes /
pops elements outside the HTML namespace -/
theorem fg_eff {cfg : Config N} {σ : State N} {tok : STok} {r : Step N}
    (hu : TreeAlgo.useHtmlRules (adjustedCurrentNode cfg σ) (tokenKind tok) = false)
    (h : foreign cfg σ tok = .ok r) :
    (∃ t s, tok = .endTag t ∧ (s = σ ∨ ∃ w, s = σ.err w) ∧ byMode cfg s (.endTag t) = .ok r) ∨
    (∃ s' st, (r = .done s' ∨ r = .reprocessHtml s') ∧ Upd σ s' st σ.p.list ∧ FgRel σ.p.stack st ∧
      (isChar tok = true → st = σ.p.stack)) := by
  unfold foreign at h
  cases tok with
  | character c =>
    dsimp only at h
    right
    split at h
    · obtain ⟨s1, h1, h2⟩ := map_ok h
      subst h2
      have hu' := insertChar_eff h1
      exact ⟨s1, _, Or.inl rfl, ⟨hu'.mode, hu'.orig, hu'.tms, hu'.stopped, hu'.stack, hu'.list⟩, fg_rel_refl _,
        fun _ => rfl⟩
    · split at h
      · obtain ⟨s1, h1, h2⟩ := map_ok h
        subst h2
        exact ⟨s1, _, Or.inl rfl, insertChar_eff h1, fg_rel_refl _, fun _ => rfl⟩
      · obtain ⟨s1, h1, h2⟩ := bind_ok h
        cases pure_ok h2
        have hu' := insertChar_eff h1
        exact ⟨_, _, Or.inl rfl, ⟨hu'.mode, hu'.orig, hu'.tms, hu'.stopped, hu'.stack, hu'.list⟩, fg_rel_refl _,
          fun _ => rfl⟩
  | comment d =>
    dsimp only at h
    obtain ⟨s1, h1, h2⟩ := map_ok h
    subst h2
    exact Or.inr ⟨s1, _, Or.inl rfl, insertComment_eff h1, fg_rel_refl _, fun _ => rfl⟩
  | doctype _ _ _ _ =>
    cases pure_ok h
    exact Or.inr ⟨_, _, Or.inl rfl, ⟨rfl, rfl, rfl, rfl, rfl, rfl⟩, fg_rel_refl _, fun _ => rfl⟩
  | eof => cases h
  | startTag t =>
    dsimp only at h
    right
    split at h
    · cases pure_ok h
      obtain ⟨s', st, he, hu', hr⟩ := fg_breakOut σ
      exact ⟨s', st, Or.inr he, hu', hr, fun hc => by cases hc⟩
    · obtain ⟨s', st, he, hu', hr⟩ := fg_startTag hu h
      exact ⟨s', st, Or.inl he, hu', hr, fun hc => by cases hc⟩
  | endTag t =>
    dsimp only at h
    split at h
    · cases pure_ok h
      obtain ⟨s', st, he, hu', hr⟩ := fg_breakOut σ
      exact Or.inr ⟨s', st, Or.inr he, hu', hr, fun hc => by cases hc⟩
    · split at h
      · rename_i hsc
        obtain ⟨s', rfl, hu'⟩ := fg_svgScript h
        refine Or.inr ⟨s', _, Or.inl rfl, hu', ?_, fun hc => by cases hc⟩
        simp only [Bool.and_eq_true] at hsc
        have hc := hsc.2
        unfold State.cur at hc
        cases hl : σ.p.stack.getLast? with
        | none => rw [hl] at hc; cases hc
        | some top =>
          rw [hl] at hc
          simp only [Option.any_some, Bool.and_eq_true, beq_iff_eq] at hc
          obtain ⟨ys, hys⟩ := List.getLast?_eq_some_iff.mp hl
          rw [hys]
          simp only [List.dropLast_concat]
          refine fg_rel_pop (fs := [top]) ?_ rfl
          intro x hx
          simp only [List.mem_singleton] at hx
          subst hx
          rw [hc.1]; decide
      · unfold foreignAnyOtherEndTag at h
        dsimp only at h
        split at h
        · cases pure_ok h
          refine Or.inr ⟨_, σ.p.stack, Or.inl rfl, ?_, fg_rel_refl _, fun hc => by cases hc⟩
          split <;> exact ⟨rfl, rfl, rfl, rfl, rfl, rfl⟩
        · rename_i k hk
          cases pure_ok h
          have hs : Upd σ _ σ.p.stack σ.p.list :=
            upd_ite (c := (σ.cur.any fun e => e.name.loc.map TreeAlgo.lower == t.name) = true) (Upd.refl σ)
              (b := σ.err "foreign content: end tag does not match the current node") ⟨rfl, rfl, rfl, rfl, rfl, rfl⟩
          exact Or.inr ⟨_, _, Or.inl rfl, fg_upd_setStack hs _, fg_popThrough' hu hs.stack hk, fun hc => by cases hc⟩
        · left
          refine ⟨t, _, rfl, ?_, h⟩
          split
          · exact Or.inl rfl
          · exact Or.inr ⟨_, rfl⟩

/-! ### the invariant -/

/-- the current node is an HTML element and the dispatcher chose the foreign rules: the stack has exactly one
element (fragment case with a foreign context element) -/
theorem fg_head_of_cur {cfg : Config N} {σ : State N} {kind : TreeAlgo.TokenKind} {top : Elem N}
    (hu : TreeAlgo.useHtmlRules (adjustedCurrentNode cfg σ) kind = false) (ht : σ.p.stack.getLast? = some top)
    (hns : top.name.ns = nsHtml) : σ.p.stack.head? = some top := by
  by_cases h2 : 2 ≤ σ.p.stack.length
  · exact absurd hns (top_foreign_of_not_useHtml cfg σ ht (Or.inl h2) hu)
  · obtain ⟨ys, hys⟩ := List.getLast?_eq_some_iff.mp ht
    rw [hys] at h2 ⊢
    cases ys with
    | nil => rfl
    | cons a l => simp at h2

theorem fg_inHtml_ns {l : List String} {n : Name} (h : inHtml l n = true) : n.ns = nsHtml := by
  unfold inHtml at h
  simp only [Bool.and_eq_true, beq_iff_eq] at h
  exact h.1

/-- the rules for parsing tokens in foreign content keep the invariant -/
theorem post_foreign (hmode : Keeps (byMode (N := N)) (fun _ _ => True)) {cfg : Config N}
    (hed : cfg.edition = .customizableSelect) {σ : State N} {tok : STok} {r : Step N} (hg : Good σ) (hst : σ.stopped = false)
    (hl : LinkFor σ tok) (hfr : FreshFor σ tok r) (htext : σ.mode = .text → isChar tok = true)
    (hu : TreeAlgo.useHtmlRules (adjustedCurrentNode cfg σ) (tokenKind tok) = false)
    (h : foreign cfg σ tok = .ok r) : PostF r := by
  rcases fg_eff hu h with ⟨t, s, rfl, hs, hb⟩ | ⟨s', st, hr, hu', hrel, hch⟩
  · rcases hs with rfl | ⟨w, rfl⟩
    · exact (hmode cfg hed _ _ r hg hst hl hfr trivial hb).toF
    · exact (hmode cfg hed (σ.err w) _ r hg.same hst (fun hc => (hl hc).same) hfr trivial hb).toF
  · have hgood : Good s' := by
      by_cases hmt : σ.mode = .text
      · have := hch (htext hmt)
        subst this
        exact hg.same hu'.mode hu'.orig hu'.tms hu'.stack hu'.list
      · by_cases hmtt : σ.mode = .inTableText
        · obtain ⟨ho, hc⟩ := hg.ttext hmtt
          -- the first element of the stack is an HTML tableish element
          have hhead : ∃ b, σ.p.stack.head? = some b ∧ inHtml tableish b.name = true := by
            rcases hc with hc | hc
            · unfold State.curIn State.cur at hc
              cases ht : σ.p.stack.getLast? with
              | none => rw [ht] at hc; cases hc
              | some top =>
                rw [ht] at hc
                simp only [Option.any_some] at hc
                exact ⟨top, fg_head_of_cur hu ht (fg_inHtml_ns hc), hc⟩
            · cases hh : σ.p.stack.head? with
              | none => rw [hh] at hc; cases hc
              | some b =>
                rw [hh] at hc
                simp only [Option.any_some] at hc
                exact ⟨b, rfl, hc⟩
          obtain ⟨b, hb, hbt⟩ := hhead
          have hb' := fg_rel_head hrel hb (fg_inHtml_ns hbt)
          refine ⟨fun hm => ?_, fun hm => ?_, fun _ => ⟨?_, Or.inr ?_⟩, ?_, ?_, ?_⟩
          · rw [hu'.mode, hmtt] at hm; cases hm
          · rw [hu'.mode, hmtt] at hm; cases hm
          · rw [hu'.orig]; exact ho
          · rw [hu'.stack, hb']; simpa using hbt
          · rw [hu'.mode]; exact hg.nosel
          · rw [hu'.list]; exact hg.af
          · rw [hu'.tms]; exact hg.tm
        · exact hg.upd hu' hmt hmtt (fun _ hc => by rw [fg_rel_cellR hrel]; exact hc) hg.af
    rcases hr with rfl | rfl
    · exact fun _ => hgood
    · exact ⟨by rw [hu'.stopped]; exact hst, hgood⟩

end
end H5V.Lemmas.ModesInv
