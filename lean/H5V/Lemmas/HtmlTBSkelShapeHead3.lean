import H5V.Lemmas.HtmlTBSkelShapeHead2
/-!
C06, second invariant layer, part 22: InHeadNoscript and AfterHead.
-/
namespace H5V.Props.C06
open H5V.Model.Dom hiding Str
open H5V.Model.HtmlTB hiding Str
open H5V.Lemmas.Dom
set_option synthInstance.maxSize 4096

/-- from the outcome of an InHead arm to the invariant, in a mode other than Text / InTableText -/
theorem HeadOut.good {r : Id} {s s' : State} {up : List Id} {ph : Phase} {res : ProcessResult} {m : Mode}
    (h : HeadOut r s up ph s' res) (hm : s.mode = m) (h1 : m ≠ .text) (h2 : m ≠ .inTableText)
    (hfit : Fits s.dom s.headElem m up ph) : Out r s' res := by
  cases h with
  | same hc' hsn hhd hmd hod hoe hnr =>
    refine Out.of_good (Good.mk' ⟨hc', ?_⟩) hnr
    refine fitsM_of_fits h1 h2 (hmd.trans hm) ?_
    rw [hhd]; exact hfit.congr hsn
  | text el hc' hsn hhd hmd hod hoe hx hnr =>
    refine Out.of_good (Good.mk' ⟨hc', ?_⟩) hnr
    unfold FitsM
    rw [hmd]
    exact ⟨m, up, el, by rw [hod, hm], rfl, h1, h2, by rw [hhd]; exact hfit.congr hsn,
      not_in_of_keepName_false hx.1 (by decide), hx.2⟩

theorem isStart_sub {tag : Tag} {l l' : List String} (h : tag.isStart l = true) (hl : ∀ a ∈ l, a ∈ l') :
    tag.isStart l' = true := by
  obtain ⟨a, ha, hn, hk⟩ := name_of_isStart h
  unfold Tag.isStart isOneOf
  simp only [Bool.and_eq_true, beq_iff_eq, List.any_eq_true]
  exact ⟨hk, a, hl a ha, hn.symm⟩

theorem isEnd_false_of_isStart {tag : Tag} {l l' : List String} (h : tag.isStart l = true) : tag.isEnd l' = false := by
  unfold Tag.isStart at h
  unfold Tag.isEnd
  simp only [Bool.and_eq_true, beq_iff_eq] at h
  rw [h.1]; rfl

/-- a token that the InHead rules answer without leaving the mode: the special arms do not apply -/
theorem head_not_special {tok : Token} {s s' : State} {res : ProcessResult} (h : HeadSpecial tok s s' res)
    (hcls : (∃ text, tok = .chars .whitespace text) ∨ (∃ text, tok = .comment text) ∨
      ∃ tag, tok = .tag tag ∧ tag.isStart ["basefont", "bgsound", "link", "meta", "noframes", "style"] = true) : False := by
  cases h with
  | split text h1 _ _ =>
    rcases hcls with ⟨t, h⟩ | ⟨t, h⟩ | ⟨t, h, _⟩ <;> (rw [h] at h1; cases h1)
  | noscript tag h1 h2 h3 _ =>
    rcases hcls with ⟨t, h⟩ | ⟨t, h⟩ | ⟨t, h, hs⟩
    · rw [h] at h1; cases h1
    · rw [h] at h1; cases h1
    · rw [h] at h1; cases h1
      obtain ⟨a, ha, hn, _⟩ := name_of_isStart hs
      unfold isName at h3
      have h3' := beq_iff_eq.mp h3
      rw [hn] at h3'
      have : a = "noscript" := String.ext h3'.symm
      subst this
      revert ha; decide
  | endHead tag h1 h2 _ =>
    rcases hcls with ⟨t, h⟩ | ⟨t, h⟩ | ⟨t, h, hs⟩
    · rw [h] at h1; cases h1
    · rw [h] at h1; cases h1
    · rw [h] at h1; cases h1
      rw [isEnd_false_of_isStart hs] at h2; cases h2
  | anyElse h1 h2 h3 _ =>
    rcases hcls with ⟨t, h⟩ | ⟨t, h⟩ | ⟨t, h, hs⟩
    · exact h2 t h
    · exact h3 t h
    · have := (h1 t h).1
      unfold isHeadInsertTag at this
      simp only [Bool.or_eq_false_iff] at this
      obtain ⟨a, ha, hn, hk⟩ := name_of_isStart hs
      have mk : ∀ l : List String, a ∈ l → t.isStart l = true := fun l hl => by
        unfold Tag.isStart isOneOf
        simp only [Bool.and_eq_true, beq_iff_eq, List.any_eq_true]
        exact ⟨hk, a, hl, hn.symm⟩
      have hA := this.1.1.1
      have hC := this.1.2
      simp only [List.mem_cons, List.not_mem_nil, or_false] at ha
      rcases ha with rfl | rfl | rfl | rfl | rfl | rfl
      · rw [mk _ (by decide)] at hA; cases hA
      · rw [mk _ (by decide)] at hA; cases hA
      · rw [mk _ (by decide)] at hA; cases hA
      · rw [mk _ (by decide)] at hA; cases hA
      · rw [mk _ (by decide)] at hC; cases hC
      · rw [mk _ (by decide)] at hC; cases hC
  | tmpl tag h1 h2 =>
    rcases hcls with ⟨t, h⟩ | ⟨t, h⟩ | ⟨t, h, hs⟩
    · rw [h] at h1; cases h1
    · rw [h] at h1; cases h1
    · rw [h] at h1; cases h1
      rcases h2 with h2 | h2
      · rw [isStart_name hs (by decide)] at h2; cases h2
      · rw [isEnd_false_of_isStart hs] at h2; cases h2


/-! ### InHeadNoscript -/

theorem modeOk_inHeadNoscript : ModeOk .inHeadNoscript := by
  intro tok ht r s res s' hg hm e
  obtain ⟨up, ph, hs, _⟩ := id hg
  have hf := hs.fits
  unfold FitsM at hf
  rw [hm] at hf
  obtain ⟨h, x, hh, rfl, rfl, hxn⟩ : ∃ h x, s.headElem = some h ∧ up = [h, x] ∧ ph = .p1 ∧ nm s.dom x = hN "noscript" := hf
  have hc := hs.core
  have hfit : Fits s.dom s.headElem .inHeadNoscript [h, x] .p1 := ⟨h, x, hh, rfl, rfl, hxn⟩
  have hi : Inner s r x :=
    ⟨by rw [hc.stack]; rfl, hc.up_ne_root (by simp), by rw [hxn]; decide, by rw [hxn]; decide⟩
  have e' : stepInHeadNoscript tok s = .ok (res, s') := e
  unfold stepInHeadNoscript at e'
  -- delegation to the InHead rules
  have deleg : (∃ text, tok = .chars .whitespace text) ∨ (∃ text, tok = .comment text) ∨
      (∃ tag, tok = .tag tag ∧ tag.isStart ["basefont", "bgsound", "link", "meta", "noframes", "style"] = true) →
      stepInHead tok s = .ok (res, s') → Out r s' res := by
    intro hcls e0
    rcases stepInHead_cases hc hi e0 with ho | hsp
    · exact ho.good hm (by decide) (by decide) hfit
    · exact (head_not_special hsp hcls).elim
  -- "anything else"
  have anyElse : ∀ t : Token, TokW t →
      (unexpected >>= fun _ => pop >>= fun _ => pure (ProcessResult.reprocess .inHead t)) s = .ok (res, s') →
      Out r s' res := by
    intro t htw e0
    obtain ⟨_, s1, e1, e2⟩ := bind_ok.mp e0
    have q1 := (qs_unexpected e1).1
    obtain ⟨y, s2, e3, e4⟩ := bind_ok.mp e2
    obtain ⟨rfl, rfl⟩ := pure_ok.mp e4
    have p2 := pop_sem e3
    have hc1 := hc.qs q1
    have hy : y = x := by
      have := p2.stack
      rw [hc1.stack, show [r, h, x] = [r, h] ++ [x] from rfl] at this
      obtain ⟨_, hz⟩ := List.append_inj' this rfl
      simpa using hz.symm
    subst hy
    have hc2 : Core s2 r [h] .p1 := hc1.pr p2 rfl
    refine ⟨Good.mk' ⟨hc2.modes rfl hc2.late.ml.orig, ?_⟩, htw⟩
    show FitsM { s2 with mode := .inHead } [h] .p1
    unfold FitsM
    exact ⟨h, by show s2.headElem = _; rw [p2.rest, q1.rest]; exact hh, rfl, rfl⟩
  cases tok with
  | chars st text =>
    cases st with
    | notSplit => dsimp only at e'; obtain ⟨rfl, rfl⟩ := pure_ok.mp e'; exact hg
    | whitespace => dsimp only at e'; exact deleg (Or.inl ⟨text, rfl⟩) e'
    | notWhitespace => dsimp only at e'; exact anyElse _ ht e'
  | comment text => dsimp only at e'; exact deleg (Or.inr (Or.inl ⟨text, rfl⟩)) e'
  | eof => dsimp only at e'; exact anyElse _ ht e'
  | nullChar => dsimp only at e'; exact anyElse _ ht e'
  | tag tag =>
    dsimp only at e'
    rcases ite_run e' with ⟨h1, e'⟩ | ⟨h1, e'⟩
    · rw [stepInBody_html h1] at e'
      rw [done_of_inBodyHtml e']
      exact (hg.ps e').1
    · rcases ite_run e' with ⟨h2, e'⟩ | ⟨h2, e'⟩
      · -- </noscript>
        obtain ⟨y, s1, e1, e2⟩ := bind_ok.mp e'
        obtain ⟨_, s2, e3, e4⟩ := bind_ok.mp e2
        obtain ⟨rfl, rfl⟩ := pure_ok.mp e4
        have p1 := pop_sem e1
        have hy : y = x := by
          have := p1.stack
          rw [hc.stack, show [r, h, x] = [r, h] ++ [x] from rfl] at this
          obtain ⟨_, hz⟩ := List.append_inj' this rfl
          simpa using hz.symm
        subst hy
        have hc1 : Core s1 r [h] .p1 := hc.pr p1 rfl
        unfold setMode at e3
        rw [modS_ok.mp e3]
        refine Good.mk' ⟨hc1.modes rfl hc1.late.ml.orig, ?_⟩
        show FitsM { s1 with mode := .inHead } [h] .p1
        unfold FitsM
        exact ⟨h, by show s1.headElem = _; rw [p1.rest]; exact hh, rfl, rfl⟩
      · rcases ite_run e' with ⟨h3, e'⟩ | ⟨h3, e'⟩
        · exact deleg (Or.inr (Or.inr ⟨tag, rfl, h3⟩)) e'
        · rcases ite_run e' with ⟨h4, e'⟩ | ⟨h4, e'⟩
          · exact anyElse _ ht e'
          · rcases ite_run e' with ⟨h5, e'⟩ | ⟨h5, e'⟩
            · obtain ⟨q, rfl⟩ := qs_unexpected e'
              exact hg.qs q
            · exact anyElse _ ht e'


/-! ### AfterHead -/

/-- the head element is pushed back on the stack (for the head-only start tags) -/
theorem Core.pushHead {s : State} {r h : Id} (hc : Core s r [] .p1) (hh : s.headElem = some h) :
    Core { s with openElems := s.openElems ++ [h] } r [h] .p1 ∧ nm s.dom h = hN "head" := by
  have hhn : nm s.dom h = hN "head" := by
    obtain ⟨h', e1, _, e3⟩ := hc.elems; rw [hh] at e1; cases e1; exact e3
  obtain ⟨hel, hnd⟩ := hc.late.st.head h hh
  have hst : s.openElems = [r] := hc.stack
  have hne : h ≠ r := by
    rintro rfl
    rw [hc.root_name] at hhn; revert hhn; decide
  have hadj : AdjD s.dom (s.openElems ++ [h]) := by
    have hhr : h ∈ s.dom.childrenOf r := by
      obtain ⟨h', e1, e2, _⟩ := hc.elems
      rw [hh] at e1; cases e1
      exact (mem_rootElems (by rw [e2]; simp)).1
    have hph : s.dom.parentOf h = some r := hc.adj.lk r h hhr
    have hpr : s.dom.parentOf r = some 0 := hc.adj.lk 0 r hc.rdoc
    have hrel : s.dom.isElement r = true := hc.late.st.oe r hc.root_mem
    refine hc.adj.push (fun hx => ?_) (fun hm => ?_) (fun e he heO => ?_) (fun tc e htc he heO => ?_) (fun hn => ?_)
    · rw [hhn] at hx; exact absurd hx (by decide)
    · have := hc.adj.lk h h hm
      rw [hph] at this; exact hne (Option.some.inj this).symm
    · rw [hst] at heO
      have : e = r := by simpa using heO
      subst this
      have := hc.adj.lk h e he
      rw [hpr] at this
      exact ne_zero_of_isElement hc.late.base hel (Option.some.inj this).symm
    · obtain ⟨t0, tdoc⟩ := hc.late.base.tcOk h tc htc
      rw [hst] at heO
      have : e = r ∨ e = h := by simpa using heO
      rcases this with rfl | rfl
      · have := hc.adj.lk tc e he
        rw [hpr] at this
        exact t0 (Option.some.inj this).symm
      · have := hc.adj.lk tc e he
        rw [hph] at this
        have : r = tc := Option.some.inj this
        subst this
        unfold Dom.isElement at hrel; rw [tdoc] at hrel; cases hrel
    · rw [hhn] at hn; exact absurd hn (by decide)
  refine ⟨⟨hc.late.push ⟨hel, hnd⟩, by show s.openElems ++ [h] = _; rw [hst]; rfl, hc.rdoc, ?_, ?_, hc.afn, ?_, hc.tmm,
    hc.form, hc.rtu, hc.rnd, hc.kids, hc.elems, (by intro y hy; cases hy), hc.afx, hadj⟩, hhn⟩
  · show (s.openElems ++ [h]).Nodup
    rw [hst]; simp; exact Ne.symm hne
  · show TG (nm s.dom) (s.openElems ++ [h])
    rw [hst]
    intro pre x y post hs
    have : pre = [] ∧ x = r ∧ y = h ∧ post = [] := by
      cases pre with
      | nil => simp at hs; exact ⟨rfl, hs.1.symm, hs.2.1.symm, hs.2.2⟩
      | cons a t => cases t <;> simp at hs
    obtain ⟨_, rfl, rfl, _⟩ := this
    rw [hhn]; exact predOk_of_not_constrained (by decide)
  · show tcount s.dom (s.openElems ++ [h]) ≤ _
    rw [hst]
    unfold tcount
    have h1 : (nm s.dom r == hN "template") = false := by rw [hc.root_name]; decide
    have h2 : (nm s.dom h == hN "template") = false := by rw [hhn]; decide
    simp [h1, h2]

/-- removing the first element above the root: the stack `r a b…` becomes `r b…` -/
theorem Core.dropSecond {s s' : State} {r a : Id} {rest : List Id} {ph : Phase} (hc : Core s r (a :: rest) ph)
    (hse : SE s s') (hst : s'.openElems = r :: rest)
    (hrest : ∀ b ∈ rest, constrained (nm s.dom b) = false)
    (hbh : ∀ y ∈ rest.tail, htmlIn (nm s.dom y) (bhNames ph) = false) :
    Core s' r rest ph := by
  have hr := hse.rest
  have hk : ∀ y, s'.dom.childrenOf y = s.dom.childrenOf y := childrenOf_of_nodes hse.nodes
  have hnm : ∀ y, nm s'.dom y = nm s.dom y := nm_of_nodes hse.nodes
  have hel : ∀ y, s'.dom.isElement y = s.dom.isElement y := isElement_of_nodes hse.nodes
  have hdata : ∀ y, s'.dom.dataOf y = s.dom.dataOf y := fun y => by unfold Dom.dataOf; rw [hse.nodes]
  have hsub : (r :: rest).Sublist s.openElems := by
    rw [hc.stack]; exact List.Sublist.cons₂ _ (List.sublist_cons_self _ _)
  have hl : Late s' := by
    refine hc.late.qrel ⟨SameSk.of_nodes hse.nodes, by rw [hst]; exact hsub, ?_, ?_, ?_, ?_, ?_, ?_, ?_, ?_⟩ ⟨?_, ?_, ?_⟩
    · rw [hr]
    · rw [hr]
    · rw [hr]
    · rw [hr]
    · rw [hr]
    · intro x t hx; rw [hr] at hx; exact hx
    · left; rw [hr]
    · intro hx; rw [hr] at hx; exact hx
    · rw [hr]; exact hc.late.ml.mode
    · rw [hr]; exact hc.late.ml.orig
    · rw [hr]; exact hc.late.ml.tm
  refine ⟨hl, hst, by rw [hk]; exact hc.rdoc, by rw [hst]; exact hsub.nodup hc.nodup, ?_, ?_, ?_, ?_, ?_,
    (RS.of_nodes hse.nodes).uniq hc.rtu, by rw [hk]; exact hc.rnd, ?_, ?_, ?_,
    (by have haf : s'.activeFormatting = s.activeFormatting := by rw [hr]
        rw [haf]; exact hc.afx.of_nodes hse.nodes),
    (by rw [hst]; exact (hc.adj.of_nodes hse.nodes).sub hc.nodup hsub)⟩
  · rw [hst]
    have h1 : TG (nm s.dom) [r] := TG.single _ _
    have : TG (nm s.dom) ([r] ++ rest) := h1.append_dis hrest
    exact this.congr (fun y _ => hnm y)
  · intro x t hx
    rw [hr] at hx
    obtain ⟨h1, h2, h3⟩ := hc.afn x t hx
    exact ⟨h1, by rw [hnm]; exact h2, by rw [hel]; exact h3⟩
  · have h1 : s'.templateModes = s.templateModes := by rw [hr]
    rw [h1, hst]
    refine Nat.le_trans ?_ hc.tc
    unfold tcount
    have : (fun y => nm s'.dom y == hN "template") = (fun y => nm s.dom y == hN "template") := by
      funext y; rw [hnm]
    rw [this]
    exact List.Sublist.countP_le hsub
  · intro md hm; rw [hr] at hm; exact hc.tmm md hm
  · intro f hf
    rw [hr] at hf
    obtain ⟨h1, h2⟩ := hc.form f hf
    exact ⟨by rw [hnm]; exact h1, by rw [hel]; exact h2⟩
  · intro c hcm
    rw [hk] at hcm
    rcases hc.kids c hcm with h1 | ⟨t, h1⟩ | ⟨t, h1, h2⟩
    · exact Or.inl (by rw [hel]; exact h1)
    · exact Or.inr (Or.inl ⟨t, by rw [hdata]; exact h1⟩)
    · exact Or.inr (Or.inr ⟨t, by rw [hdata]; exact h1, h2⟩)
  · have hhead : s'.headElem = s.headElem := by rw [hr]
    rw [hhead]
    exact hc.elems.congr hc.late.base (SameSk.of_nodes hse.nodes).chg (hk r)
  · intro y hy; rw [hnm]; exact hbh y hy


/-- fields outside the invariant may change -/
theorem Core.free {s s' : State} {r : Id} {up : List Id} {ph : Phase} (hc : Core s r up ph)
    (h1 : s'.dom = s.dom) (h2 : s'.openElems = s.openElems) (h3 : s'.headElem = s.headElem)
    (h4 : s'.docHandle = s.docHandle) (h5 : s'.contextElem = s.contextElem)
    (h6 : s'.pendingTableText = s.pendingTableText) (h7 : s'.mode = s.mode) (h8 : s'.origMode = s.origMode)
    (h9 : s'.templateModes = s.templateModes) (h10 : s'.activeFormatting = s.activeFormatting)
    (h11 : s'.formElem = s.formElem) : Core s' r up ph := by
  have hl : Late s' := hc.late.free h1 h2 h3 h4 h5 h6 h7 h8 h9
  exact ⟨hl, by rw [h2]; exact hc.stack, by rw [h1]; exact hc.rdoc, by rw [h2]; exact hc.nodup,
    by rw [h1, h2]; exact hc.tg, by rw [h1, h10]; exact hc.afn, by rw [h1, h2, h9]; exact hc.tc, by rw [h9]; exact hc.tmm,
    by rw [h1, h11]; exact hc.form, by rw [h1]; exact hc.rtu, by rw [h1]; exact hc.rnd, by rw [h1]; exact hc.kids,
    by rw [h1, h3]; exact hc.elems, by rw [h1]; exact hc.bh, by rw [h1, h10]; exact hc.afx,
    by rw [h1, h2]; exact hc.adj⟩

/-- `body` (or `frameset`) is inserted below the root in AfterHead -/
theorem afterHead_insert {s s1 : State} {r el h0 : Id} {name : Str} {attrs : List Attr} {dup : Bool}
    (hc : Core s r [] .p1) (hh : s.headElem = some h0)
    (hcon : constrained ⟨nsHtml, name⟩ = false) (hnt : (⟨nsHtml, name⟩ : EName) ≠ hN "template")
    (hnfm : isFmtE ⟨nsHtml, name⟩ = false)
    (e : insertElement true nsHtml name attrs dup s = .ok (el, s1)) :
    s1.headElem = some h0 ∧ s1.openElems = [r, el] ∧ nm s1.dom el = ⟨nsHtml, name⟩ ∧ h0 ≠ el ∧
      s1.mode = s.mode ∧ s1.origMode = s.origMode ∧
      ∀ ph', (∀ d', nm d' h0 = hN "head" → nm d' el = ⟨nsHtml, name⟩ → rootElems d' r = [h0, el] →
          ElemsOk d' (some h0) r ph') → Core s1 r [el] ph' := by
  obtain ⟨hl, hnf, hntm⟩ := root_last hc
  obtain ⟨s5, hs1, hres⟩ := insertElement_res hc hl hnf hntm e
  simp only [if_true] at hs1
  obtain ⟨hre, hnmo, hcore⟩ := hc.insRoot hres hcon hnt
  obtain ⟨f1, f2, f3, f4, _⟩ := hres.fields
  obtain ⟨h', e1, e2, e3⟩ := hc.elems
  rw [hh] at e1; cases e1
  have hh0e : s.dom.isElement h0 = true := (hc.late.st.head h0 hh).1
  have hne : h0 ≠ el := fun h => by
    have := lt_of_isElement hh0e
    rw [h] at this
    exact Nat.lt_irrefl _ (Nat.lt_of_lt_of_le this hres.fresh)
  have hst : s.openElems = [r] := hc.stack
  refine ⟨by rw [hs1]; show s5.headElem = _; rw [f2]; exact hh,
    by rw [hs1]; show s5.openElems ++ [el] = _; rw [f1, hst]; rfl, by rw [hs1]; exact hres.nmel, hne,
    by rw [hs1]; exact f3, by rw [hs1]; exact f4, fun ph' he => ?_⟩
  have := hcore ph' s5.headElem (fun x hx => hres.late.st.head x hx)
    (by
      rw [f2, hh]
      exact he s5.dom (by rw [hnmo h0 (lt_of_isElement hh0e)]; exact e3) hres.nmel (by rw [hre, e2]; rfl))
    (by
      intro x hx hf
      exfalso
      rw [hre, e2] at hx
      simp only [List.cons_append, List.nil_append, List.mem_cons, List.not_mem_nil, or_false] at hx
      rcases hx with rfl | rfl
      · rw [hnmo x (lt_of_isElement hh0e), e3] at hf; revert hf; decide
      · rw [hres.nmel, hnfm] at hf; cases hf)
  rw [hs1]
  exact this


theorem removeSecond {s s' : State} {r a : Id} {rest : List Id} {ph : Phase} {u : Unit}
    (hc : Core s r (a :: rest) ph) (e : H5V.Model.HtmlTB.removeFromStack a s = .ok (u, s')) :
    SE s s' ∧ s'.openElems = r :: rest := by
  obtain ⟨hse, hcase⟩ := removeFromStack_sem e
  refine ⟨hse, ?_⟩
  rcases hcase with ⟨_, hn⟩ | ⟨pos, hget, _, hst⟩
  · exact absurd (by rw [hc.stack]; simp) hn
  · have h1 : s.openElems[1]? = some a := by rw [hc.stack]; rfl
    have hlt : pos < s.openElems.length := by
      rcases Nat.lt_or_ge pos s.openElems.length with h | h
      · exact h
      · rw [List.getElem?_eq_none h] at hget; cases hget
    have : pos = 1 := (List.getElem?_inj hlt hc.nodup).mp (hget.trans h1.symm)
    subst this
    rw [hst, hc.stack]; rfl

/-- the template arms of the InHead rules as AfterHead uses them: with the `head` element pushed back
(start tag; it is removed again afterwards), or directly (end tag) -/
structure TmplAfterHead : Prop where
  start : ∀ (tag : Tag) (r h0 : Id) (s : State) (res : ProcessResult) (s' s'' : State) (u : Unit),
    Core s r [h0] .p1 → s.headElem = some h0 → s.mode = .afterHead → tag.isStart ["template"] = true →
    stepInHead (.tag tag) s = .ok (res, s') → H5V.Model.HtmlTB.removeFromStack h0 s' = .ok (u, s'') → Out r s'' res
  end_ : ∀ (tag : Tag) (r : Id) (s : State) (res : ProcessResult) (s' : State),
    Good r s → s.mode = .afterHead → tag.isEnd ["template"] = true →
    stepInHead (.tag tag) s = .ok (res, s') → Out r s' res

set_option maxHeartbeats 1600000 in
theorem modeOk_afterHead (T : TmplAfterHead) : ModeOk .afterHead := by
  intro tok ht r s res s' hg hm e
  obtain ⟨up, ph, hs, _⟩ := id hg
  have hf := hs.fits
  unfold FitsM at hf
  rw [hm] at hf
  obtain ⟨rfl, rfl⟩ : up = [] ∧ ph = .p1 := hf
  have hc := hs.core
  obtain ⟨h0, hh, hre, hhn⟩ := hc.elems
  obtain ⟨hl, hnf, hnt⟩ := root_last hc
  have e' : stepAfterHead tok s = .ok (res, s') := e
  unfold stepAfterHead at e'
  -- the body element goes below the root
  have body_core : ∀ {s1 : State} {el : Id} {attrs : List Attr} {dup : Bool},
      insertElement true nsHtml "body".toList attrs dup s = .ok (el, s1) →
      Core s1 r [el] (.pb el) ∧ s1.headElem = some h0 ∧ h0 ≠ el ∧ s1.mode = s.mode := by
    intro s1 el attrs dup e1
    obtain ⟨a1, a2, a3, a4, a5, a6, a7⟩ := afterHead_insert hc hh (by decide) (by decide) (by decide) e1
    exact ⟨a7 (.pb el) (fun d' h1 h2 h3 => ⟨h0, rfl, h3, h1, h2⟩), a1, a4, a5⟩
  have anyElse : ∀ t : Token, TokW t →
      (insertPhantom "body" >>= fun _ => pure (ProcessResult.reprocess .inBody t)) s = .ok (res, s') → Out r s' res := by
    intro t htw e0
    obtain ⟨el, s1, e1, e2⟩ := bind_ok.mp e0
    obtain ⟨rfl, rfl⟩ := pure_ok.mp e2
    unfold insertPhantom at e1
    obtain ⟨hc1, hh1, hne, hm1⟩ := body_core e1
    refine ⟨Good.mk' ⟨hc1.modes rfl hc1.late.ml.orig, ?_⟩, htw⟩
    show FitsM { s1 with mode := .inBody } [el] (.pb el)
    unfold FitsM
    exact ⟨Or.inl ⟨el, [], rfl, rfl, fun h hh' => by
      have : s1.headElem = some h := hh'
      rw [hh1] at this; cases this; simpa using hne⟩, trivial⟩
  cases tok with
  | chars st text =>
    cases st with
    | notSplit => dsimp only at e'; obtain ⟨rfl, rfl⟩ := pure_ok.mp e'; exact hg
    | whitespace =>
      dsimp only at e'
      obtain ⟨h1, rfl, _⟩ := appendText_shape hs hl hnf hnt (ht.ne _ _ rfl) (fun _ => ht.ws text rfl) e'
      exact Good.mk' h1
    | notWhitespace => dsimp only at e'; exact anyElse _ ht e'
  | comment text =>
    dsimp only at e'
    obtain ⟨h1, rfl, _⟩ := appendComment_shape hs hl hnf hnt e'
    exact Good.mk' h1
  | eof => dsimp only at e'; exact anyElse _ ht e'
  | nullChar => dsimp only at e'; exact anyElse _ ht e'
  | tag tag =>
    dsimp only at e'
    rcases ite_run e' with ⟨h1, e'⟩ | ⟨h1, e'⟩
    · rw [stepInBody_html h1] at e'
      rw [done_of_inBodyHtml e']
      exact (hg.ps e').1
    · rcases ite_run e' with ⟨h2, e'⟩ | ⟨h2, e'⟩
      · -- <body>
        obtain ⟨a, ha, hn, _⟩ := name_of_isStart h2
        simp only [List.mem_cons, List.not_mem_nil, or_false] at ha
        subst ha
        obtain ⟨el, s1, e1, e2⟩ := bind_ok.mp e'
        obtain ⟨_, s2, e3, e4⟩ := bind_ok.mp e2
        obtain ⟨_, s3, e5, e6⟩ := bind_ok.mp e4
        obtain ⟨rfl, rfl⟩ := pure_ok.mp e6
        unfold insertElementFor at e1
        rw [hn] at e1
        obtain ⟨hc1, hh1, hne, hm1⟩ := body_core e1
        unfold setFramesetOk at e3
        unfold setMode at e5
        rw [modS_ok.mp e5, modS_ok.mp e3]
        have hc2 : Core { s1 with framesetOk := false } r [el] (.pb el) :=
          hc1.free rfl rfl rfl rfl rfl rfl rfl rfl rfl rfl rfl
        refine Good.mk' ⟨hc2.modes rfl hc2.late.ml.orig, ?_⟩
        show FitsM { s1 with framesetOk := false, mode := .inBody } [el] (.pb el)
        unfold FitsM
        exact ⟨Or.inl ⟨el, [], rfl, rfl, fun h hh' => by
          have : s1.headElem = some h := hh'
          rw [hh1] at this; cases this; simpa using hne⟩, trivial⟩
      · rcases ite_run e' with ⟨h3, e'⟩ | ⟨h3, e'⟩
        · -- <frameset>
          obtain ⟨a, ha, hn, _⟩ := name_of_isStart h3
          simp only [List.mem_cons, List.not_mem_nil, or_false] at ha
          subst ha
          obtain ⟨el, s1, e1, e2⟩ := bind_ok.mp e'
          obtain ⟨_, s2, e3, e4⟩ := bind_ok.mp e2
          obtain ⟨rfl, rfl⟩ := pure_ok.mp e4
          unfold insertElementFor at e1
          rw [hn] at e1
          obtain ⟨a1, a2, a3, a4, a5, a6, a7⟩ := afterHead_insert hc hh (by decide) (by decide) (by decide) e1
          have hc1 : Core s1 r [el] (.pf el) :=
            a7 (.pf el) (fun d' h1' h2' h3' => ⟨h0, [], rfl, h3', h1', h2', fun x hx => by cases hx⟩)
          unfold setMode at e3
          rw [modS_ok.mp e3]
          refine Good.mk' ⟨hc1.modes rfl hc1.late.ml.orig, ?_⟩
          show FitsM { s1 with mode := .inFrameset } [el] (.pf el)
          unfold FitsM
          exact ⟨el, [], rfl, rfl, fun x hx => by
            simp only [List.mem_singleton] at hx; subst hx; exact a3⟩
        · rcases ite_run e' with ⟨h4, e'⟩ | ⟨h4, e'⟩
          · -- the head-only start tags: with `head` pushed back
            obtain ⟨_, s1, e1, e2⟩ := bind_ok.mp e'
            have q1 := (qs_unexpected e1).1
            rw [getS_bind] at e2
            have hh1 : s1.headElem = some h0 := by rw [q1.rest]; exact hh
            rw [hh1] at e2
            dsimp only at e2
            obtain ⟨_, s2, e3, e4⟩ := bind_ok.mp e2
            unfold push at e3
            have hs2 := modS_ok.mp e3
            have hc1 := hc.qs q1
            obtain ⟨hc2', hhn1⟩ := hc1.pushHead hh1
            have hc2 : Core s2 r [h0] .p1 := by rw [hs2]; exact hc2'
            have hi2 : Inner s2 r h0 := inner_head hc2 (by rw [hs2]; exact hhn1)
            have hh2 : s2.headElem = some h0 := by rw [hs2]; exact hh1
            have hm2 : s2.mode = .afterHead := by rw [hs2]; show s1.mode = _; rw [q1.mode]; exact hm
            obtain ⟨result, s3, e5, e6⟩ := bind_ok.mp e4
            obtain ⟨_, s4, e7, e8⟩ := bind_ok.mp e6
            obtain ⟨rfl, rfl⟩ := pure_ok.mp e8
            by_cases htm : tag.isStart ["template"] = true
            · exact T.start tag r h0 s2 _ s3 _ _ hc2 hh2 hm2 htm e5 e7
            · rcases stepInHead_cases hc2 hi2 e5 with ho | hsp
              · cases ho with
                | same hc3 hsn hhd hmd hod hoe hnr =>
                  obtain ⟨hse, hst4⟩ := removeSecond hc3 e7
                  have hc4 : Core s4 r [] .p1 := hc3.dropSecond hse hst4 (by intro b hb; cases hb) (by intro y hy; cases hy)
                  refine Out.of_good (Good.mk' ⟨hc4, ?_⟩) hnr
                  have hm4 : s4.mode = .afterHead := by rw [hse.rest]; show s3.mode = _; rw [hmd]; exact hm2
                  exact fitsM_of_fits (om := .afterHead) (by decide) (by decide) hm4 ⟨rfl, rfl⟩
                | text el hc3 hsn hhd hmd hod hoe hx hnr =>
                  obtain ⟨hse, hst4⟩ := removeSecond hc3 e7
                  have hc4 : Core s4 r [el] .p1 := hc3.dropSecond hse hst4
                    (by intro b hb
                        have hb' : b = el := by simpa using hb
                        subst hb'
                        exact constrained_of_keepName_false hx.1)
                    (by intro y hy; cases hy)
                  refine Out.of_good (Good.mk' ⟨hc4, ?_⟩) hnr
                  unfold FitsM
                  have hm4 : s4.mode = .text := by rw [hse.rest]; exact hmd
                  have ho4 : s4.origMode = some .afterHead := by rw [hse.rest]; show s3.origMode = _; rw [hod, hm2]
                  rw [hm4]
                  exact ⟨.afterHead, [], el, ho4, rfl, by decide, by decide, ⟨rfl, rfl⟩,
                    by rw [hse.nm]; exact not_in_of_keepName_false hx.1 (by decide), by rw [hse.nm]; exact hx.2⟩
              · exfalso
                cases hsp with
                | split text h1' _ _ => cases h1'
                | noscript tg h1' h2' h3' _ =>
                  cases h1'
                  obtain ⟨a, ha, hn, _⟩ := name_of_isStart h4
                  unfold isName at h3'
                  have h3'' := beq_iff_eq.mp h3'
                  rw [hn] at h3''
                  have : a = "noscript" := String.ext h3''.symm
                  subst this
                  revert ha; decide
                | endHead tg h1' h2' _ =>
                  cases h1'
                  rw [isEnd_false_of_isStart h4] at h2'; cases h2'
                | anyElse h1' _ _ _ =>
                  have := (h1' tag rfl).1
                  unfold isHeadInsertTag at this
                  simp only [Bool.or_eq_false_iff] at this
                  obtain ⟨a, ha, hn, hk⟩ := name_of_isStart h4
                  have mk : ∀ l : List String, a ∈ l → tag.isStart l = true := fun l hl => by
                    unfold Tag.isStart isOneOf
                    simp only [Bool.and_eq_true, beq_iff_eq, List.any_eq_true]
                    exact ⟨hk, a, hl, hn.symm⟩
                  have hA := this.1.1.1
                  have hB := this.1.1.2
                  have hC := this.1.2
                  have hD := this.2
                  simp only [List.mem_cons, List.not_mem_nil, or_false] at ha
                  rcases ha with rfl | rfl | rfl | rfl | rfl | rfl | rfl | rfl | rfl | rfl
                  · rw [mk _ (by decide)] at hA; cases hA
                  · rw [mk _ (by decide)] at hA; cases hA
                  · rw [mk _ (by decide)] at hA; cases hA
                  · rw [mk _ (by decide)] at hA; cases hA
                  · rw [mk _ (by decide)] at hA; cases hA
                  · rw [mk _ (by decide)] at hC; cases hC
                  · rw [mk _ (by decide)] at hD; cases hD
                  · rw [mk _ (by decide)] at hC; cases hC
                  · exact htm (mk _ (by decide))
                  · rw [mk _ (by decide)] at hB; cases hB
                | tmpl tg h1' h2' =>
                  cases h1'
                  rcases h2' with h2' | h2'
                  · exact htm h2'
                  · rw [isEnd_false_of_isStart h4] at h2'; cases h2'
          · rcases ite_run e' with ⟨h5, e'⟩ | ⟨h5, e'⟩
            · exact T.end_ tag r s res s' hg hm h5 e'
            · rcases ite_run e' with ⟨h6, e'⟩ | ⟨h6, e'⟩
              · exact anyElse _ ht e'
              · rcases ite_run e' with ⟨h7, e'⟩ | ⟨h7, e'⟩
                · obtain ⟨q, rfl⟩ := qs_unexpected e'
                  exact hg.qs q
                · exact anyElse _ ht e'

end H5V.Props.C06
