import H5V.Lemmas.HtmlTBModesInvPrim2
/-!
C02 (insertion modes), the invariant `Good` of the specification's run: the adoption agency algorithm keeps
"a td/th element is in table scope" and the formatting tokens of the list of active formatting elements.
-/
set_option linter.unusedSectionVars false
set_option linter.unusedSimpArgs false
namespace H5V.Lemmas.ModesInv
open H5V.Spec H5V.Spec.TreeModes
open H5V.Spec.TreeAlgo (Str Name nsHtml nsMathml nsSvg inHtml)
open H5V.Spec.TreeAlgo2 (Elem Entry PState)

section
variable {N : Type} [DecidableEq N]

/-! ### names -/

theorem aaa_tdTh_of_neutral {n : Name} (h : neutralN n = true) : tdThN n = false := by
  simp only [neutralN, Bool.and_eq_true, Bool.not_eq_true'] at h
  exact h.1

/-- an element type outside the default scope list is none of td, th, html, table, template -/
theorem aaa_neutral_of_notScope {n : Name} (h : TreeAlgo.defaultScopeList n = false) : neutralN n = true := by
  by_cases hns : n.ns = nsHtml
  · obtain ⟨ns, loc⟩ := n
    simp only at hns
    subst hns
    apply neutralN_of_loc
    refine ⟨?_, ?_, ?_, ?_, ?_⟩ <;> intro (hc : loc = _) <;> subst hc <;> revert h <;> decide
  · exact neutralN_of_ns hns

/-- removing an element that is not a td/th keeps "td/th in table scope" -/
theorem aaa_cellR_remove {n : Name} (hn : tdThN n = false) (y : List Name) :
    ∀ (x : List Name), cellR (x ++ n :: y) = true → cellR (x ++ y) = true
  | [], h => by
    rw [List.nil_append, cellR_cons, hn] at h
    by_cases hm : markN n = true
    · rw [hm] at h; simp at h
    · have hm' : markN n = false := by simpa using hm
      rw [hm'] at h
      simpa using h
  | a :: x, h => by
    rw [List.cons_append, cellR_cons] at h
    rw [List.cons_append, cellR_cons]
    by_cases ha : tdThN a = true
    · simp [ha]
    · have ha' : tdThN a = false := by simpa using ha
      rw [ha'] at h ⊢
      by_cases hm : markN a = true
      · rw [hm] at h; simp at h
      · have hm' : markN a = false := by simpa using hm
        rw [hm'] at h ⊢
        simp only [Bool.false_eq_true, if_false] at h ⊢
        exact aaa_cellR_remove hn y x h

theorem aaa_cellR_eraseIdx {st : List (Elem N)} {p : Nat} {e : Elem N} (hp : st[p]? = some e)
    (hn : tdThN e.name = false) (h : cellR (namesOf st) = true) : cellR (namesOf (st.eraseIdx p)) = true := by
  have hlt : p < st.length := by
    rcases Nat.lt_or_ge p st.length with h' | h'
    · exact h'
    · rw [List.getElem?_eq_none h'] at hp; cases hp
  have hd : st.drop p = e :: st.drop (p + 1) := by
    rw [List.drop_eq_getElem_cons hlt]
    congr 1
    rw [List.getElem?_eq_getElem hlt] at hp
    exact Option.some.inj hp
  have hs : st = st.take p ++ e :: st.drop (p + 1) := by
    rw [← hd, List.take_append_drop]
  rw [List.eraseIdx_eq_take_drop_succ, namesOf_append]
  rw [hs, namesOf_append] at h
  have hc : namesOf (e :: st.drop (p + 1)) = namesOf (st.drop (p + 1)) ++ e.name :: [] := by
    simp [namesOf]
  rw [hc, List.append_assoc] at h
  exact aaa_cellR_remove hn _ _ h

theorem aaa_mem_insertIdx {α : Type} {l : List α} {i : Nat} {a b : α} (h : a ∈ l.insertIdx i b) : a = b ∨ a ∈ l := by
  by_cases hi : i ≤ l.length
  · exact (List.mem_insertIdx hi).mp h
  · rw [List.insertIdx_of_length_lt (by omega)] at h
    exact Or.inr h

/-! ### the searches -/

theorem aaa_listPos {x : N} : ∀ {l : List (Entry N ETok)} {i : Nat}, TreeAlgo2.listPos x l = some i →
    ∃ t, l[i]? = some (.element x t)
  | [], _, h => by cases h
  | .marker :: rest, i, h => by
    unfold TreeAlgo2.listPos at h
    cases hr : TreeAlgo2.listPos x rest with
    | none => rw [hr] at h; cases h
    | some j =>
      rw [hr] at h
      simp only [Option.map_some, Option.some.injEq] at h
      subst h
      obtain ⟨t, ht⟩ := aaa_listPos hr
      exact ⟨t, by simpa using ht⟩
  | .element n tok :: rest, i, h => by
    unfold TreeAlgo2.listPos at h
    split at h
    · rename_i hn
      cases h
      subst hn
      exact ⟨tok, rfl⟩
    · cases hr : TreeAlgo2.listPos x rest with
      | none => rw [hr] at h; cases h
      | some j =>
        rw [hr] at h
        simp only [Option.map_some, Option.some.injEq] at h
        subst h
        obtain ⟨t, ht⟩ := aaa_listPos hr
        exact ⟨t, by simpa using ht⟩

theorem aaa_listPos_mem {x : N} {l : List (Entry N ETok)} {i : Nat} (h : TreeAlgo2.listPos x l = some i) :
    ∃ t, Entry.element x t ∈ l := by
  obtain ⟨t, ht⟩ := aaa_listPos h
  exact ⟨t, List.mem_of_getElem? ht⟩

theorem aaa_findFormattingRev {subject : Str} : ∀ {l : List (Entry N ETok)} {len i : Nat} {n : N} {tok : ETok},
    TreeAlgo2.findFormattingRev cx subject l len = some (i, n, tok) → Entry.element n tok ∈ l ∧ tok.name = subject
  | [], _, _, _, _, h => by cases h
  | .marker :: _, _, _, _, _, h => by cases h
  | .element m t :: rest, len, i, n, tok, h => by
    unfold TreeAlgo2.findFormattingRev at h
    split at h
    · rename_i hc
      simp only [Option.some.injEq, Prod.mk.injEq] at h
      obtain ⟨_, rfl, rfl⟩ := h
      exact ⟨List.mem_cons_self .., by simpa [cx] using hc⟩
    · obtain ⟨h1, h2⟩ := aaa_findFormattingRev h
      exact ⟨List.mem_cons_of_mem _ h1, h2⟩

theorem aaa_findFormattingElement {subject : Str} {l : List (Entry N ETok)} {i : Nat} {n : N} {tok : ETok}
    (h : TreeAlgo2.findFormattingElement cx subject l = some (i, n, tok)) : Entry.element n tok ∈ l ∧ tok.name = subject := by
  obtain ⟨h1, h2⟩ := aaa_findFormattingRev h
  exact ⟨List.mem_reverse.mp h1, h2⟩

theorem aaa_lastPos_none {p : Elem N → Bool} : ∀ {l : List (Elem N)}, TreeAlgo2.lastPos p l = none → ∀ e ∈ l, p e = false
  | [], _, _, he => by cases he
  | a :: l, h, e, he => by
    unfold TreeAlgo2.lastPos at h
    cases hl : TreeAlgo2.lastPos p l with
    | some j => rw [hl] at h; cases h
    | none =>
      rw [hl] at h
      dsimp only at h
      rcases List.mem_cons.mp he with rfl | he
      · cases hp : p e
        · rfl
        · rw [hp] at h; simp at h
      · exact aaa_lastPos_none hl e he

/-- the target is found in the first part of the list -/
theorem aaa_scope_left {x : N} {sc : Name → Bool} {v : List (Elem N)} : ∀ {u : List (Elem N)},
    (∃ e ∈ u, e.id = x) → TreeAlgo2.hasNodeInScope x sc (u ++ v) = true → TreeAlgo2.hasNodeInScope x sc u = true
  | [], ⟨_, he, _⟩, _ => by cases he
  | a :: u, ⟨e, he, hx⟩, h => by
    rw [List.cons_append] at h
    unfold TreeAlgo2.hasNodeInScope at h ⊢
    by_cases ha : a.id = x
    · simp [ha]
    · rw [if_neg ha] at h ⊢
      by_cases hs : sc a.name = true
      · rw [if_pos hs] at h; cases h
      · rw [if_neg hs] at h ⊢
        rcases List.mem_cons.mp he with rfl | he
        · exact absurd hx ha
        · exact aaa_scope_left ⟨e, he, hx⟩ h

/-- the target is not in the first part of the list: no element of the first part is in the scope list -/
theorem aaa_scope_right {x : N} {sc : Name → Bool} {v : List (Elem N)} : ∀ {u : List (Elem N)},
    (∀ e ∈ u, e.id ≠ x) → TreeAlgo2.hasNodeInScope x sc (u ++ v) = true → ∀ e ∈ u, sc e.name = false
  | [], _, _, _, he => by cases he
  | a :: u, hu, h, e, he => by
    rw [List.cons_append] at h
    unfold TreeAlgo2.hasNodeInScope at h
    rw [if_neg (hu a (List.mem_cons_self ..))] at h
    by_cases hs : sc a.name = true
    · rw [if_pos hs] at h; cases h
    · rw [if_neg hs] at h
      rcases List.mem_cons.mp he with rfl | he
      · simpa using hs
      · exact aaa_scope_right (fun e he => hu e (List.mem_cons_of_mem _ he)) h e he

/-- `stackPos` is the lowest occurrence of the node: if the node is in scope, the elements below it are not in the
scope list -/
theorem aaa_scope_above {x : N} {sc : Name → Bool} : ∀ {st : List (Elem N)} {pos : Nat},
    TreeAlgo2.stackPos x st = some pos → TreeAlgo2.hasNodeInScope x sc st.reverse = true →
    ∀ i e, pos < i → st[i]? = some e → sc e.name = false
  | [], _, h, _, _, _, _, _ => by cases h
  | a :: l, pos, h, hs, i, e, hi, he => by
    unfold TreeAlgo2.stackPos TreeAlgo2.lastPos at h
    rw [List.reverse_cons] at hs
    cases hl : TreeAlgo2.lastPos (fun e => e.id == x) l with
    | some j =>
      rw [hl] at h
      simp only [Option.some.injEq] at h
      subst h
      obtain ⟨e', he', hp⟩ := lastPos_spec hl
      have hx : ∃ e ∈ l.reverse, e.id = x :=
        ⟨e', List.mem_reverse.mpr (List.mem_of_getElem? he'), by simpa using hp⟩
      have hs' := aaa_scope_left hx hs
      cases i with
      | zero => omega
      | succ i =>
        simp only [List.getElem?_cons_succ] at he
        exact aaa_scope_above (st := l) hl hs' i e (by omega) he
    | none =>
      rw [hl] at h
      have hno := aaa_lastPos_none hl
      have hu : ∀ e ∈ l.reverse, e.id ≠ x := by
        intro e he hx
        have := hno e (List.mem_reverse.mp he)
        simp [hx] at this
      have hall := aaa_scope_right hu hs
      cases i with
      | zero =>
        dsimp only at h
        split at h
        · cases h; omega
        · cases h
      | succ i =>
        simp only [List.getElem?_cons_succ] at he
        exact hall e (List.mem_reverse.mpr (List.mem_of_getElem? he))

theorem aaa_furthestBlock {st : List (Elem N)} {pos fbPos : Nat} {fb : Elem N}
    (h : TreeAlgo2.furthestBlock st pos = some (fbPos, fb)) : pos < fbPos := by
  unfold TreeAlgo2.furthestBlock at h
  dsimp only at h
  cases hj : List.findIdx? TreeAlgo2.isSpecial (st.drop (pos + 1)) with
  | none => rw [hj] at h; cases h
  | some j =>
    rw [hj] at h
    simp only [Option.bind_some] at h
    cases he : (st.drop (pos + 1))[j]? with
    | none => rw [he] at h; cases h
    | some e =>
      rw [he] at h
      simp only [Option.map_some, Option.some.injEq, Prod.mk.injEq] at h
      omega

/-! ### the part of the stack the inner loop works on -/

/-- the element at `pos` is the formatting element; everything below it is neutral -/
def AaaPos (fe : N) (pos : Nat) (st : List (Elem N)) : Prop :=
  (∃ e, st[pos]? = some e ∧ e.id = fe) ∧ ∀ i e, pos < i → st[i]? = some e → neutralN e.name = true

theorem AaaPos.erase {fe : N} {pos idx : Nat} {st : List (Elem N)} (h : AaaPos fe pos st) (hi : pos < idx) :
    AaaPos fe pos (st.eraseIdx idx) := by
  obtain ⟨⟨e, he, hid⟩, hall⟩ := h
  refine ⟨⟨e, ?_, hid⟩, ?_⟩
  · rw [List.getElem?_eraseIdx, if_pos hi]; exact he
  · intro i e' hpi he'
    rw [List.getElem?_eraseIdx] at he'
    split at he'
    · exact hall i e' hpi he'
    · exact hall (i + 1) e' (by omega) he'

theorem AaaPos.set {fe : N} {pos idx : Nat} {st : List (Elem N)} {e' : Elem N} (h : AaaPos fe pos st) (hi : pos < idx)
    (hn : neutralN e'.name = true) : AaaPos fe pos (st.set idx e') := by
  obtain ⟨⟨e, he, hid⟩, hall⟩ := h
  refine ⟨⟨e, ?_, hid⟩, ?_⟩
  · rw [List.getElem?_set, if_neg (by omega)]; exact he
  · intro i e'' hpi he''
    rw [List.getElem?_set] at he''
    split at he''
    · split at he''
      · cases he''; exact hn
      · cases he''
    · exact hall i e'' hpi he''

/-! ### the invariant of the rounds -/

/-- none of the ids `used` is the id of a td/th element of `st0` -/
def AaaFresh (st0 : List (Elem N)) (used : List N) : Prop := ∀ n ∈ used, ∀ e ∈ st0, tdThN e.name = true → e.id ≠ n

/-- the state `st` reached from the stack `st0`, the list `l0`, the supply `sup0` by taking the ids `used` -/
structure AaaOk (st0 : List (Elem N)) (l0 : List (Entry N ETok)) (sup0 : List N) (st : PState N ETok) (used : List N) :
    Prop where
  q0 : ∀ e ∈ st0, ∀ t, Entry.element e.id t ∈ l0 → tdThN e.name = false
  sup : sup0 = used ++ st.supply
  ent : ∀ n t, Entry.element n t ∈ st.list → Entry.element n t ∈ l0 ∨ n ∈ used
  mem : ∀ e ∈ st.stack, e ∈ st0 ∨ neutralN e.name = true
  af : AFOk st.list
  cell : AaaFresh st0 used → cellR (namesOf st0) = true → cellR (namesOf st.stack) = true

/-- a stack element that has an entry in the list is not a td/th -/
def AaaNoTd (st : PState N ETok) : Prop :=
  ∀ e ∈ st.stack, ∀ t, Entry.element e.id t ∈ st.list → tdThN e.name = false

theorem AaaOk.noTd {st0 l0 sup0 used} {st : PState N ETok} (h : AaaOk st0 l0 sup0 st used) (hf : AaaFresh st0 used) :
    AaaNoTd st := by
  intro e he t ht
  cases hc : tdThN e.name with
  | false => rfl
  | true =>
    exfalso
    rcases h.mem e he with he0 | hn
    · rcases h.ent _ _ ht with h0 | hu
      · have := h.q0 e he0 t h0
        rw [hc] at this; cases this
      · exact hf _ hu e he0 hc rfl
    · have := aaa_tdTh_of_neutral hn
      rw [hc] at this; cases this

/-- one step: the supply loses the prefix `w`; new stack elements are neutral; new entries have an id of `w` and a
formatting token; "td/th in table scope" survives if no td/th element has an entry -/
theorem AaaOk.step {st0 l0 sup0 used} {st st' : PState N ETok} (h : AaaOk st0 l0 sup0 st used) (w : List N)
    (hsup : st.supply = w ++ st'.supply)
    (hmem : ∀ e ∈ st'.stack, e ∈ st.stack ∨ neutralN e.name = true)
    (hlist : ∀ x ∈ st'.list, x ∈ st.list ∨ ∃ n tok, x = Entry.element n tok ∧ n ∈ w ∧ fmtN tok.name = true)
    (hcell : AaaNoTd st → cellR (namesOf st.stack) = true → cellR (namesOf st'.stack) = true) :
    AaaOk st0 l0 sup0 st' (used ++ w) where
  q0 := h.q0
  sup := by rw [h.sup, hsup, List.append_assoc]
  ent := by
    intro n t hm
    rcases hlist _ hm with hm | ⟨n', tok, hx, hn, _⟩
    · rcases h.ent n t hm with h1 | h1
      · exact Or.inl h1
      · exact Or.inr (List.mem_append_left _ h1)
    · cases hx
      exact Or.inr (List.mem_append_right _ hn)
  mem := by
    intro e he
    rcases hmem e he with he | he
    · exact h.mem e he
    · exact Or.inr he
  af := by
    intro n t hm
    rcases hlist _ hm with hm | ⟨n', tok, hx, _, hf⟩
    · exact h.af n t hm
    · cases hx; exact hf
  cell := by
    intro hf hc
    have hf' : AaaFresh st0 used := fun n hn => hf n (List.mem_append_left _ hn)
    exact hcell (h.noTd hf') (h.cell hf' hc)

/-- a step that takes no node and adds no entry -/
theorem AaaOk.step0 {st0 l0 sup0 used} {st st' : PState N ETok} (h : AaaOk st0 l0 sup0 st used)
    (hsup : st'.supply = st.supply)
    (hmem : ∀ e ∈ st'.stack, e ∈ st.stack ∨ neutralN e.name = true)
    (hlist : ∀ x ∈ st'.list, x ∈ st.list)
    (hcell : AaaNoTd st → cellR (namesOf st.stack) = true → cellR (namesOf st'.stack) = true) :
    AaaOk st0 l0 sup0 st' used := by
  have := h.step (st' := st') [] (by simp [hsup]) hmem (fun x hx => Or.inl (hlist x hx)) hcell
  simpa using this

/-! ### the inner loop -/

theorem aaa_newNode {st st1 : PState N ETok} {n : N} (h : st.newNode = some (n, st1)) :
    ∃ rest, st.supply = n :: rest ∧ st1 = { st with supply := rest } := by
  unfold TreeAlgo2.PState.newNode at h
  split at h
  · cases h
  · rename_i m rest hs
    simp only [Option.some.injEq, Prod.mk.injEq] at h
    obtain ⟨rfl, rfl⟩ := h
    exact ⟨rest, hs, rfl⟩

theorem aaa_innerLoop {st0 : List (Elem N)} {l0 : List (Entry N ETok)} {sup0 : List N} (fe fb : N) (pos : Nat) :
    ∀ (k counter : Nat) (lastNode : N) (bm : TreeAlgo2.Bookmark N) (st : PState N ETok) (used : List N)
      (r : PState N ETok × N × TreeAlgo2.Bookmark N),
      TreeAlgo2.innerLoop cx fe fb k counter lastNode bm st = some r → pos < k → AaaOk st0 l0 sup0 st used →
      AaaPos fe pos st.stack → ∃ used', AaaOk st0 l0 sup0 r.1 used'
  | 0, _, _, _, _, _, _, h, _, _, _ => by unfold TreeAlgo2.innerLoop at h; cases h
  | idx + 1, counter, lastNode, bm, st, used, r, h, hk, hok, hp => by
    unfold TreeAlgo2.innerLoop at h
    dsimp only at h
    split at h
    · cases h
    · rename_i node hn
      split at h
      · cases h; exact ⟨used, hok⟩
      · rename_i hne
        have hidx : pos < idx := by
          rcases Nat.lt_or_ge pos idx with h' | h'
          · exact h'
          · exfalso
            have : idx = pos := by omega
            subst this
            obtain ⟨⟨e, he, hid⟩, _⟩ := hp
            rw [hn] at he; cases he; exact hne hid
        have hneu : neutralN node.name = true := hp.2 idx node hidx hn
        have hcore : core (st.stack.eraseIdx idx) = core st.stack := core_eraseIdx hn hneu
        split at h
        · -- 4. remove from both, then 5.
          refine aaa_innerLoop fe fb pos idx _ _ _ _ used r h hidx ?_ (hp.erase hidx)
          exact hok.step0 rfl (fun e he => Or.inl (List.mem_of_mem_eraseIdx he))
            (fun x hx => List.mem_of_mem_eraseIdx hx) (fun _ hc => (cellR_of_core hcore).trans hc)
        · -- 6.-9. replace with a new element
          rename_i i _ hlp
          split at h
          · rename_i x tok hli
            cases hnn : st.newNode with
            | none => rw [hnn] at h; cases h
            | some ns =>
              obtain ⟨n, st1⟩ := ns
              rw [hnn] at h
              simp only [Option.bind_some] at h
              obtain ⟨rest, hs, rfl⟩ := aaa_newNode hnn
              have hfm : fmtN tok.name = true := hok.af.getElem hli
              have hnew : neutralN (⟨n, ⟨nsHtml, cx.tokName tok⟩⟩ : Elem N).name = true := neutralN_of_fmt hfm
              refine aaa_innerLoop fe fb pos idx _ _ _ _ (used ++ [n]) r h hidx ?_ (hp.set hidx hnew)
              refine hok.step [n] (by simpa using hs) ?_ ?_ ?_
              · intro e he
                rcases List.mem_or_eq_of_mem_set he with he | he
                · exact Or.inl he
                · subst he; exact Or.inr hnew
              · intro y hy
                rcases List.mem_or_eq_of_mem_set hy with hy | hy
                · exact Or.inl hy
                · exact Or.inr ⟨n, tok, hy, by simp, hfm⟩
              · exact fun _ hc => (cellR_of_core (core_set hn hneu hnew)).trans hc
          · cases h
        · -- 5. remove from the stack
          refine aaa_innerLoop fe fb pos idx _ _ _ _ used r h hidx ?_ (hp.erase hidx)
          exact hok.step0 rfl (fun e he => Or.inl (List.mem_of_mem_eraseIdx he))
            (fun x hx => hx) (fun _ hc => (cellR_of_core hcore).trans hc)

/-! ### steps 14-19 -/

theorem aaa_insertAfter {y : N} {x : Entry N ETok} {l l' : List (Entry N ETok)} (h : TreeAlgo2.insertAfter y x l = some l') :
    ∀ z ∈ l', z = x ∨ z ∈ l := by
  unfold TreeAlgo2.insertAfter at h
  cases hp : TreeAlgo2.listPos y l with
  | none => rw [hp] at h; cases h
  | some i =>
    rw [hp] at h
    simp only [Option.map_some, Option.some.injEq] at h
    subst h
    exact fun z hz => aaa_mem_insertIdx hz

theorem aaa_finishRound {st0 : List (Elem N)} {l0 : List (Entry N ETok)} {sup0 used : List N} {fe : N} {feTok : ETok}
    {fb ca : Elem N} {st st' : PState N ETok} {lastNode : N} {bm : TreeAlgo2.Bookmark N} (hfm : fmtN feTok.name = true)
    (h : TreeAlgo2.finishRound cx fe feTok fb ca st lastNode bm = some st') (hok : AaaOk st0 l0 sup0 st used) :
    ∃ used', AaaOk st0 l0 sup0 st' used' := by
  unfold TreeAlgo2.finishRound at h
  cases hloc : TreeAlgo2.appropriatePlace st.stack st.fosterParenting (some ca) with
  | none => rw [hloc] at h; cases h
  | some loc =>
    rw [hloc] at h
    simp only [Option.bind_some] at h
    cases hnn : st.newNode with
    | none => rw [hnn] at h; cases h
    | some ns =>
      obtain ⟨n, st1⟩ := ns
      rw [hnn] at h
      simp only [Option.bind_some] at h
      obtain ⟨rest, hs, rfl⟩ := aaa_newNode hnn
      dsimp only at h
      obtain ⟨list, hl18, h⟩ := Option.bind_eq_some_iff.mp h
      obtain ⟨p, hsp, h⟩ := Option.bind_eq_some_iff.mp h
      obtain ⟨j, hj, h⟩ := Option.map_eq_some_iff.mp h
      subst h
      -- the new list
      have hlist : (∃ t, Entry.element fe t ∈ st.list) ∧ ∀ z ∈ list, z = Entry.element n feTok ∨ z ∈ st.list := by
        cases bm with
        | atFormattingElement =>
          dsimp only at hl18
          obtain ⟨i, hi, rfl⟩ := Option.map_eq_some_iff.mp hl18
          refine ⟨aaa_listPos_mem hi, fun z hz => ?_⟩
          rcases List.mem_or_eq_of_mem_set hz with hz | hz
          · exact Or.inr hz
          · exact Or.inl hz
        | after x =>
          dsimp only at hl18
          obtain ⟨i, hi, hia⟩ := Option.bind_eq_some_iff.mp hl18
          refine ⟨aaa_listPos_mem hi, fun z hz => ?_⟩
          rcases aaa_insertAfter hia z hz with hz | hz
          · exact Or.inl hz
          · exact Or.inr (List.mem_of_mem_eraseIdx hz)
      obtain ⟨⟨t, hfe⟩, hlist⟩ := hlist
      obtain ⟨e, hpe, hid⟩ := stackPos_spec hsp
      have hnew : neutralN (⟨n, ⟨nsHtml, cx.tokName feTok⟩⟩ : Elem N).name = true := neutralN_of_fmt hfm
      refine ⟨used ++ [n], hok.step [n] (by simpa using hs) ?_ ?_ ?_⟩
      · intro e' he'
        rcases aaa_mem_insertIdx he' with he' | he'
        · subst he'; exact Or.inr hnew
        · exact Or.inl (List.mem_of_mem_eraseIdx he')
      · intro z hz
        rcases hlist z hz with hz | hz
        · exact Or.inr ⟨n, feTok, hz, by simp, hfm⟩
        · exact Or.inl hz
      · intro hno hc
        have htd : tdThN e.name = false := hno e (List.mem_of_getElem? hpe) t (by rw [hid]; exact hfe)
        have h1 := aaa_cellR_eraseIdx hpe htd hc
        exact (cellR_of_core (core_insertIdx _ hnew)).trans h1

/-! ### the rounds -/

/-- popping elements none of which is a td/th keeps "td/th in table scope" -/
theorem aaa_cellR_take {st : List (Elem N)} {pos : Nat} (hd : ∀ e ∈ st.drop pos, tdThN e.name = false)
    (h : cellR (namesOf st) = true) : cellR (namesOf (st.take pos)) = true := by
  rw [← List.take_append_drop pos st, namesOf_append] at h
  have h1 := cellR_drop (namesOf (st.drop pos)).length (l := namesOf (st.drop pos) ++ namesOf (st.take pos)) (by
    intro n hn
    rw [List.take_left'] at hn
    · simp only [namesOf, List.mem_map, List.mem_reverse] at hn
      obtain ⟨e, he, rfl⟩ := hn
      exact hd e he
    · rfl) h
  rw [List.drop_left'] at h1
  · exact h1
  · rfl

/-- the state of a round's result -/
def aaa_rst {T : Type} : TreeAlgo2.Round N T → PState N T
  | .done st => st
  | .anyOtherEndTag st => st
  | .again st => st

theorem aaa_outerRound {st0 : List (Elem N)} {l0 : List (Entry N ETok)} {sup0 used : List N} {subject : Str}
    {st : PState N ETok} {r : TreeAlgo2.Round N ETok} (hsub : fmtN subject = true)
    (h : TreeAlgo2.outerRound cx subject st = some r) (hok : AaaOk st0 l0 sup0 st used) :
    ∃ used', AaaOk st0 l0 sup0 (aaa_rst r) used' := by
  unfold TreeAlgo2.outerRound at h
  split at h
  · cases h; exact ⟨used, hok⟩
  · rename_i fePos fe feTok hff
    obtain ⟨hfeMem, hfeName⟩ := aaa_findFormattingElement hff
    have hfm : fmtN feTok.name = true := by rw [hfeName]; exact hsub
    split at h
    · cases h
      exact ⟨used, hok.step0 rfl (fun e he => Or.inl he) (fun x hx => List.mem_of_mem_eraseIdx hx) (fun _ hc => hc)⟩
    · rename_i pos hsp
      split at h
      · cases h; exact ⟨used, hok⟩
      · rename_i hsc
        have hsc' : TreeAlgo2.hasNodeInScope fe TreeAlgo.defaultScopeList st.stack.reverse = true := by
          simpa using hsc
        obtain ⟨e, hpe, hid⟩ := stackPos_spec hsp
        have habove : ∀ i e', pos < i → st.stack[i]? = some e' → neutralN e'.name = true :=
          fun i e' hi he' => aaa_neutral_of_notScope (aaa_scope_above hsp hsc' i e' hi he')
        split at h
        · -- 8. no furthest block
          cases h
          refine ⟨used, hok.step0 rfl (fun e he => Or.inl (List.mem_of_mem_take he))
            (fun x hx => List.mem_of_mem_eraseIdx hx) ?_⟩
          intro hno hc
          apply aaa_cellR_take (pos := pos) _ hc
          intro e' he'
          obtain ⟨i, hi⟩ := List.mem_iff_getElem?.mp he'
          rw [List.getElem?_drop] at hi
          cases i with
          | zero =>
            rw [Nat.add_zero, hpe] at hi
            cases hi
            exact hno e (List.mem_of_getElem? hpe) feTok (by rw [hid]; exact hfeMem)
          | succ i => exact aaa_tdTh_of_neutral (habove _ e' (by omega) hi)
        · rename_i fbPos fb hfb
          split at h
          · cases h
          · obtain ⟨ca, _, h⟩ := Option.bind_eq_some_iff.mp h
            obtain ⟨r1, hil, h⟩ := Option.bind_eq_some_iff.mp h
            obtain ⟨st2, hfin, h⟩ := Option.map_eq_some_iff.mp h
            subst h
            obtain ⟨used1, hok1⟩ := aaa_innerLoop fe fb.id pos fbPos 0 fb.id _ st used r1 hil (aaa_furthestBlock hfb) hok
              ⟨⟨e, hpe, hid⟩, habove⟩
            exact aaa_finishRound hfm hfin hok1

theorem aaa_outerLoop {st0 : List (Elem N)} {l0 : List (Entry N ETok)} {sup0 : List N} {subject : Str}
    (hsub : fmtN subject = true) : ∀ (n : Nat) (st : PState N ETok) (used : List N) (r : PState N ETok × Bool),
    TreeAlgo2.outerLoop cx subject n st = some r → AaaOk st0 l0 sup0 st used → ∃ used', AaaOk st0 l0 sup0 r.1 used'
  | 0, st, used, r, h, hok => by
    unfold TreeAlgo2.outerLoop at h
    cases h; exact ⟨used, hok⟩
  | n + 1, st, used, r, h, hok => by
    unfold TreeAlgo2.outerLoop at h
    split at h
    · cases h
    · rename_i st1 hr
      cases h
      exact aaa_outerRound hsub hr hok
    · rename_i st1 hr
      cases h
      exact aaa_outerRound hsub hr hok
    · rename_i st1 hr
      obtain ⟨used1, hok1⟩ := aaa_outerRound hsub hr hok
      exact aaa_outerLoop hsub n st1 used1 r h hok1

/-! ### the algorithm -/

theorem aaa_algo {st0 : List (Elem N)} {l0 : List (Entry N ETok)} {sup0 used : List N} {subject : Str}
    {st : PState N ETok} {r : PState N ETok × Bool} (hsub : fmtN subject = true)
    (h : TreeAlgo2.adoptionAgency cx subject st = some r) (hok : AaaOk st0 l0 sup0 st used) :
    ∃ used', AaaOk st0 l0 sup0 r.1 used' := by
  unfold TreeAlgo2.adoptionAgency at h
  split at h
  · cases h
  · rename_i cur hcur
    split at h
    · rename_i hc
      cases h
      simp only [Bool.and_eq_true, beq_iff_eq] at hc
      obtain ⟨ys, hys⟩ := List.getLast?_eq_some_iff.mp hcur
      have hneu : neutralN cur.name = true := by
        have : cur.name = ⟨nsHtml, subject⟩ := by
          obtain ⟨id, ns, loc⟩ := cur
          simp only at hc
          rw [hc.1.1, hc.1.2]
        rw [this]; exact neutralN_of_fmt hsub
      refine ⟨used, hok.step0 rfl (fun e he => Or.inl (List.dropLast_subset _ he)) (fun x hx => hx) ?_⟩
      intro _ hcell
      show cellR (namesOf st.stack.dropLast) = true
      rw [hys, List.dropLast_concat]
      rw [hys, cellR_snoc_neutral _ hneu] at hcell
      exact hcell
    · exact aaa_outerLoop hsub _ st used r h hok

theorem aaa_fallback {st0 : List (Elem N)} {l0 : List (Entry N ETok)} {sup0 used : List N} {subject : Str}
    {st st' : PState N ETok} (hsub : fmtN subject = true)
    (h : TreeAlgo2.adoptionAgencyWithFallback cx subject st = some st') (hok : AaaOk st0 l0 sup0 st used) :
    ∃ used', AaaOk st0 l0 sup0 st' used' := by
  unfold TreeAlgo2.adoptionAgencyWithFallback at h
  obtain ⟨r, hr, h⟩ := Option.map_eq_some_iff.mp h
  obtain ⟨used1, hok1⟩ := aaa_algo hsub hr hok
  obtain ⟨st1, b⟩ := r
  dsimp only at h
  split at h
  · subst h
    have hn : subject ≠ "td".toList ∧ subject ≠ "th".toList := by
      constructor <;> intro hc <;> subst hc <;> revert hsub <;> decide
    refine ⟨used1, hok1.step0 rfl ?_ (fun x hx => hx) (fun _ hc => cellR_anyOtherEndTag hn hc)⟩
    intro e he
    obtain ⟨j, hj, _⟩ := anyOtherEndTag_noTd hn st1.stack
    change e ∈ TreeAlgo2.anyOtherEndTag subject st1.stack at he
    rw [hj] at he
    exact Or.inl (List.mem_of_mem_take he)
  · subst h; exact ⟨used1, hok1⟩

/-- **the adoption agency algorithm** (with its fall-back to "any other end tag") for a formatting tag name:
the mode, the original mode, the template modes do not change; the tokens of the list stay formatting start tags;
"a td/th element is in table scope" survives (`Link`: the stack entries of listed nodes are formatting elements;
`FreshL`: the ids of the nodes the algorithm creates are not ids of td/th elements of the stack);
every element of the new stack is an element of the old one or a (new) formatting element; the supply loses a
prefix -/
theorem adoptionAgency_eff' {s s' : State N} {subject : Str} (hsub : fmtN subject = true) (haf : AFOk s.p.list)
    (hl : WLink s) (hfr : FreshL s.p.stack s.p.supply s'.p.supply) (h : adoptionAgency s subject = .ok s') :
    ∃ st' l', Upd s s' st' l' ∧ AFOk l' ∧ (cellR s.names = true → cellR (namesOf st') = true) ∧
      (∀ e ∈ st', e ∈ s.p.stack ∨ neutralN e.name = true) ∧ (∃ u, s.p.supply = u ++ s'.p.supply) := by
  unfold adoptionAgency at h
  obtain ⟨p, hr, h2⟩ := bind_ok h
  have hr' := req_ok hr
  cases pure_ok h2
  have hok0 : AaaOk s.p.stack s.p.list s.p.supply s.p [] := by
    refine ⟨?_, rfl, fun n t hm => Or.inl hm, fun e he => Or.inl he, haf, fun _ hc => hc⟩
    intro e he t ht
    exact hl e he t ht
  obtain ⟨used, hok⟩ := aaa_fallback hsub hr' hok0
  refine ⟨p.stack, p.list, ⟨rfl, rfl, rfl, rfl, rfl, rfl⟩, hok.af, ?_, hok.mem, ⟨used, hok.sup⟩⟩
  intro hc
  exact hok.cell (hfr used hok.sup) hc

/-- the same from `Link` -/
theorem adoptionAgency_eff {s s' : State N} {subject : Str} (hsub : fmtN subject = true) (haf : AFOk s.p.list)
    (hl : Link s) (hfr : FreshL s.p.stack s.p.supply s'.p.supply) (h : adoptionAgency s subject = .ok s') :
    ∃ st' l', Upd s s' st' l' ∧ AFOk l' ∧ (cellR s.names = true → cellR (namesOf st') = true) ∧
      (∀ e ∈ st', e ∈ s.p.stack ∨ neutralN e.name = true) ∧ (∃ u, s.p.supply = u ++ s'.p.supply) :=
  adoptionAgency_eff' hsub haf (hl.weak haf) hfr h

/-! ### the supply only loses a prefix (no hypothesis) -/

theorem aaa_suf_innerLoop (fe fb : N) : ∀ (k counter : Nat) (lastNode : N) (bm : TreeAlgo2.Bookmark N) (st : PState N ETok)
    (r : PState N ETok × N × TreeAlgo2.Bookmark N), TreeAlgo2.innerLoop cx fe fb k counter lastNode bm st = some r →
    ∃ u, st.supply = u ++ r.1.supply
  | 0, _, _, _, _, _, h => by simp [TreeAlgo2.innerLoop] at h
  | k + 1, counter, lastNode, bm, st, r, h => by
    unfold TreeAlgo2.innerLoop at h
    dsimp only at h
    cases hnode : st.stack[k]? with
    | none => rw [hnode] at h; cases h
    | some node =>
      rw [hnode] at h
      dsimp only at h
      split at h
      · cases h; exact ⟨[], rfl⟩
      · split at h
        · obtain ⟨u, hu⟩ := aaa_suf_innerLoop fe fb k _ _ _ _ _ h
          exact ⟨u, hu⟩
        · split at h
          · rename_i tok0 _
            cases hn : st.newNode with
            | none => rw [hn] at h; cases h
            | some q =>
              obtain ⟨n, st1⟩ := q
              rw [hn] at h
              simp only [Option.bind_some] at h
              obtain ⟨rest, hs, hst1⟩ := aaa_newNode hn
              obtain ⟨u, hu⟩ := aaa_suf_innerLoop fe fb k _ _ _ _ _ h
              subst hst1
              exact ⟨n :: u, by rw [hs]; simpa using hu⟩
          · cases h
        · obtain ⟨u, hu⟩ := aaa_suf_innerLoop fe fb k _ _ _ _ _ h
          exact ⟨u, hu⟩

theorem aaa_suf_finishRound {fe : N} {feTok : ETok} {fb ca : Elem N} {st st' : PState N ETok} {lastNode : N}
    {bm : TreeAlgo2.Bookmark N} (h : TreeAlgo2.finishRound cx fe feTok fb ca st lastNode bm = some st') :
    ∃ u, st.supply = u ++ st'.supply := by
  unfold TreeAlgo2.finishRound at h
  cases hp : TreeAlgo2.appropriatePlace st.stack st.fosterParenting (some ca) with
  | none => rw [hp] at h; cases h
  | some loc =>
    rw [hp] at h
    simp only [Option.bind_some] at h
    cases hn : st.newNode with
    | none => rw [hn] at h; cases h
    | some q =>
      obtain ⟨n, st1⟩ := q
      rw [hn] at h
      simp only [Option.bind_some] at h
      obtain ⟨rest, hs, hst1⟩ := aaa_newNode hn
      subst hst1
      obtain ⟨l18, _, h⟩ := Option.bind_eq_some_iff.mp h
      obtain ⟨p, _, h⟩ := Option.bind_eq_some_iff.mp h
      obtain ⟨j, _, h⟩ := Option.map_eq_some_iff.mp h
      subst h
      exact ⟨[n], by rw [hs]; rfl⟩

theorem aaa_suf_outerRound {subject : Str} {st : PState N ETok} {r : TreeAlgo2.Round N ETok}
    (h : TreeAlgo2.outerRound cx subject st = some r) :
    ∃ u, st.supply = u ++ (match r with | .done s => s | .anyOtherEndTag s => s | .again s => s).supply := by
  unfold TreeAlgo2.outerRound at h
  split at h
  · cases h; exact ⟨[], rfl⟩
  · split at h
    · cases h; exact ⟨[], rfl⟩
    · split at h
      · cases h; exact ⟨[], rfl⟩
      · split at h
        · cases h; exact ⟨[], rfl⟩
        · split at h
          · cases h
          · obtain ⟨ca, _, h⟩ := Option.bind_eq_some_iff.mp h
            obtain ⟨r1, hin, h⟩ := Option.bind_eq_some_iff.mp h
            obtain ⟨st2, hfin, h⟩ := Option.map_eq_some_iff.mp h
            subst h
            obtain ⟨u, hu⟩ := aaa_suf_innerLoop _ _ _ _ _ _ _ _ hin
            obtain ⟨v, hv⟩ := aaa_suf_finishRound hfin
            exact ⟨u ++ v, by rw [hu, hv, List.append_assoc]⟩

theorem aaa_suf_outerLoop {subject : Str} : ∀ (n : Nat) (st : PState N ETok) (r : PState N ETok × Bool),
    TreeAlgo2.outerLoop cx subject n st = some r → ∃ u, st.supply = u ++ r.1.supply
  | 0, st, r, h => by
    simp only [TreeAlgo2.outerLoop, Option.some.injEq] at h
    subst h; exact ⟨[], rfl⟩
  | n + 1, st, r, h => by
    unfold TreeAlgo2.outerLoop at h
    cases hr : TreeAlgo2.outerRound cx subject st with
    | none => rw [hr] at h; cases h
    | some rd =>
      rw [hr] at h
      obtain ⟨u, hu⟩ := aaa_suf_outerRound hr
      cases rd with
      | done s1 => simp only [Option.some.injEq] at h; subst h; exact ⟨u, hu⟩
      | anyOtherEndTag s1 => simp only [Option.some.injEq] at h; subst h; exact ⟨u, hu⟩
      | again s1 =>
        obtain ⟨v, hv⟩ := aaa_suf_outerLoop n s1 r h
        exact ⟨u ++ v, by rw [hu]; simp only at hv ⊢; rw [hv, List.append_assoc]⟩

/-- the adoption agency algorithm takes a prefix of the supply (no hypothesis) -/
theorem adoptionAgency_suf {s s' : State N} {subject : Str} (h : adoptionAgency s subject = .ok s') :
    ∃ u, s.p.supply = u ++ s'.p.supply := by
  unfold adoptionAgency at h
  obtain ⟨p, hr, h2⟩ := bind_ok h
  have hr' := req_ok hr
  cases pure_ok h2
  unfold TreeAlgo2.adoptionAgencyWithFallback at hr'
  obtain ⟨q, hq, hp⟩ := Option.map_eq_some_iff.mp hr'
  obtain ⟨st1, b⟩ := q
  have h1 : ∃ u, s.p.supply = u ++ st1.supply := by
    unfold TreeAlgo2.adoptionAgency at hq
    split at hq
    · cases hq
    · split at hq
      · cases hq; exact ⟨[], rfl⟩
      · exact aaa_suf_outerLoop _ _ _ hq
  obtain ⟨u, hu⟩ := h1
  subst hp
  dsimp only
  split <;> exact ⟨u, hu⟩

end
end H5V.Lemmas.ModesInv
