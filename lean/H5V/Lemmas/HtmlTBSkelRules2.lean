import H5V.Lemmas.HtmlTBSkelRules
/-!
C06 (skeleton invariant), part 8: the remaining insertion modes (Text, the table modes, InTemplate,
AfterBody, the frameset modes, the after-after modes), `step`, and foreign content.
-/
namespace H5V.Props.C06
open H5V.Model.Dom hiding Str
open H5V.Model.HtmlTB hiding Str
open H5V.Lemmas.Dom

/-! ### Text -/

/-- leaving Text / InTableText: the original mode is a late one -/
theorem presRA_restoreOrig {s : State} {m : Mode} {tok : Token} (hm : s.origMode = some m) [ht : TokOk tok] :
    PresRA s ((set { s with origMode := none } : M Unit) >>= fun _ => pure (ProcessResult.reprocess m tok)) := by
  constructor
  intro hl a s' e
  obtain ⟨u, s1, e1, e2⟩ := bind_ok.mp e
  rw [set_ok.mp e1] at e2
  obtain ⟨rfl, rfl⟩ := pure_ok.mp e2
  refine ⟨⟨⟨hl.base, hl.pat, ⟨hl.st.doc, hl.st.ctx, hl.st.oe, hl.st.tail, hl.st.head, hl.st.ptt⟩,
    ⟨hl.ml.mode, (by intro m' hm'; cases hm'), hl.ml.tm⟩⟩, Ext.refl _⟩, hl.ml.orig m hm, ht⟩

theorem presRA_restoreOrigMode {s : State} {m : Mode} {f : Unit → M ProcessResult} (hm : s.origMode = some m)
    (h : ∀ u, PresR (f u)) : PresRA s ((set { s with origMode := none, mode := m } : M Unit) >>= f) := by
  constructor
  intro hl a s' e
  obtain ⟨u, s1, e1, e2⟩ := bind_ok.mp e
  rw [set_ok.mp e1] at e2
  have hl1 : Late { s with origMode := none, mode := m } :=
    ⟨hl.base, hl.pat, ⟨hl.st.doc, hl.st.ctx, hl.st.oe, hl.st.tail, hl.st.head, hl.st.ptt⟩,
     ⟨hl.ml.orig m hm, (by intro m' hm'; cases hm'), hl.ml.tm⟩⟩
  exact (h u).p { s with origMode := none, mode := m } a s' hl1 e2

macro_rules
  | `(tactic| tb_step) => `(tactic|
    first
      | (with_reducible apply presRA_restoreOrig; assumption)
      | (with_reducible apply presRA_restoreOrigMode; assumption))

theorem presR_stepText (token : Token) [TokOk token] : PresR (stepText token) := by
  unfold stepText
  tb_walk
instance (token : Token) [TokOk token] : PresR (stepText token) := presR_stepText token

/-! ### tables -/

instance (token : Token) [TokOk token] : PresR (fosterParentInBody token) := by
  unfold fosterParentInBody; tb_walk
instance (token : Token) [TokOk token] : PresR (processCharsInTable token) := by
  unfold processCharsInTable; tb_walk

theorem presR_stepInTable (token : Token) [TokOk token] : PresR (stepInTable token) := by
  unfold stepInTable
  tb_walk
instance (token : Token) [TokOk token] : PresR (stepInTable token) := presR_stepInTable token

/-! ### InTableText -/

theorem pres_flushPendingFoster : ∀ (l : List (SplitStatus × Str)), (∀ p ∈ l, p.2 ≠ []) → Pres (flushPendingFoster l)
  | [], _ => by unfold flushPendingFoster; infer_instance
  | (split, text) :: rest, h => by
    haveI := pres_flushPendingFoster rest (fun p hp => h p (List.mem_cons_of_mem _ hp))
    haveI : NE text := ⟨h (split, text) (by simp)⟩
    unfold flushPendingFoster
    tb_walk

theorem pres_flushPendingPlain : ∀ (l : List (SplitStatus × Str)), (∀ p ∈ l, p.2 ≠ []) → Pres (flushPendingPlain l)
  | [], _ => by unfold flushPendingPlain; infer_instance
  | (split, text) :: rest, h => by
    haveI := pres_flushPendingPlain rest (fun p hp => h p (List.mem_cons_of_mem _ hp))
    haveI : NE text := ⟨h (split, text) (by simp)⟩
    unfold flushPendingPlain
    tb_walk

theorem Late.setPtt {s : State} (h : Late s) {l : List (SplitStatus × Str)} (hl : ∀ p ∈ l, p.2 ≠ []) :
    Late { s with pendingTableText := l } :=
  ⟨h.base, h.pat, ⟨h.st.doc, h.st.ctx, h.st.oe, h.st.tail, h.st.head, hl⟩, ⟨h.ml.mode, h.ml.orig, h.ml.tm⟩⟩

instance : Pres (modS fun s => { s with pendingTableText := [] }) :=
  pres_modS fun s hl => ⟨hl.setPtt (by intro p hp; cases hp), rfl⟩

instance (split : SplitStatus) (text : Str) [h : NE text] :
    Pres (modS fun s => { s with pendingTableText := s.pendingTableText ++ [(split, text)] }) :=
  pres_modS fun s hl => ⟨hl.setPtt (by
    intro p hp
    simp only [List.mem_append, List.mem_singleton] at hp
    rcases hp with hp | rfl
    · exact hl.st.ptt p hp
    · exact h.h), rfl⟩

/-- the pending table text read from the state is non-empty text -/
theorem PresRA.ofPending {s : State} {F : List (SplitStatus × Str) → M ProcessResult}
    (h : ∀ l, (∀ p ∈ l, p.2 ≠ []) → PresR (F l)) : PresRA s (F s.pendingTableText) :=
  ⟨fun hl a s' e => (h _ hl.st.ptt).p s a s' hl e⟩

theorem presR_stepInTableText (token : Token) [TokOk token] : PresR (stepInTableText token) := by
  unfold stepInTableText
  split
  · tb_walk
  · tb_walk
  · apply PresR.ofGetS
    intro s
    constructor
    intro hl a s' e
    have hp := hl.st.ptt
    generalize s.pendingTableText = l at e hp
    haveI := pres_flushPendingFoster l hp
    haveI := pres_flushPendingPlain l hp
    exact (by tb_walk : PresR _).p s a s' hl e
instance (token : Token) [TokOk token] : PresR (stepInTableText token) := presR_stepInTableText token

/-! ### the other table modes, templates, after body, framesets -/

theorem presR_stepInCaption (token : Token) [TokOk token] : PresR (stepInCaption token) := by
  unfold stepInCaption; tb_walk
instance (token : Token) [TokOk token] : PresR (stepInCaption token) := presR_stepInCaption token

theorem presR_stepInColumnGroup (token : Token) [TokOk token] : PresR (stepInColumnGroup token) := by
  unfold stepInColumnGroup; tb_walk
instance (token : Token) [TokOk token] : PresR (stepInColumnGroup token) := presR_stepInColumnGroup token

theorem presR_stepInTableBody (token : Token) [TokOk token] : PresR (stepInTableBody token) := by
  unfold stepInTableBody; tb_walk
instance (token : Token) [TokOk token] : PresR (stepInTableBody token) := presR_stepInTableBody token

theorem presR_stepInRow (token : Token) [TokOk token] : PresR (stepInRow token) := by
  unfold stepInRow; tb_walk
instance (token : Token) [TokOk token] : PresR (stepInRow token) := presR_stepInRow token

theorem presR_stepInCell (token : Token) [TokOk token] : PresR (stepInCell token) := by
  unfold stepInCell; tb_walk
instance (token : Token) [TokOk token] : PresR (stepInCell token) := presR_stepInCell token

theorem presR_stepInTemplate (token : Token) [TokOk token] : PresR (stepInTemplate token) := by
  unfold stepInTemplate; tb_walk
instance (token : Token) [TokOk token] : PresR (stepInTemplate token) := presR_stepInTemplate token

theorem presR_stepAfterBody (token : Token) [TokOk token] : PresR (stepAfterBody token) := by
  unfold stepAfterBody; tb_walk
instance (token : Token) [TokOk token] : PresR (stepAfterBody token) := presR_stepAfterBody token

theorem presR_stepInFrameset (token : Token) [TokOk token] : PresR (stepInFrameset token) := by
  unfold stepInFrameset; tb_walk
instance (token : Token) [TokOk token] : PresR (stepInFrameset token) := presR_stepInFrameset token

theorem presR_stepAfterFrameset (token : Token) [TokOk token] : PresR (stepAfterFrameset token) := by
  unfold stepAfterFrameset; tb_walk
instance (token : Token) [TokOk token] : PresR (stepAfterFrameset token) := presR_stepAfterFrameset token

theorem presR_stepAfterAfterBody (token : Token) [TokOk token] : PresR (stepAfterAfterBody token) := by
  unfold stepAfterAfterBody; tb_walk
instance (token : Token) [TokOk token] : PresR (stepAfterAfterBody token) := presR_stepAfterAfterBody token

theorem presR_stepAfterAfterFrameset (token : Token) [TokOk token] : PresR (stepAfterAfterFrameset token) := by
  unfold stepAfterAfterFrameset; tb_walk
instance (token : Token) [TokOk token] : PresR (stepAfterAfterFrameset token) := presR_stepAfterAfterFrameset token

end H5V.Props.C06
