import H5V.Lemmas.HtmlTBSplitBase
/-!
C03 lifted to the tree — layer 2a: every helper algorithm of `H5V.Model.HtmlTB.Actions` respects `Sim`
(`foo_resp : Resp (foo …)`), registered with the `resp_lemma` tactic.
-/
namespace H5V.Lemmas.TBSplit
open H5V.Model.Dom (Id QualName Attr NodeOrText SinkOp Output ElementFlags QuirksMode Dom)
open H5V.Model.HtmlTok (TagKind RawKind)
open H5V.Model.HtmlTB

/-! ### small accessors -/

theorem htmlElemNamedS_resp (h : Id) (name : Str) : Resp (htmlElemNamedS h name) := by
  unfold htmlElemNamedS; resp_auto
macro_rules | `(tactic| resp_lemma) => `(tactic| with_reducible exact htmlElemNamedS_resp _ _)

theorem htmlElemNamed_resp (h : Id) (name : String) : Resp (htmlElemNamed h name) := htmlElemNamedS_resp _ _
macro_rules | `(tactic| resp_lemma) => `(tactic| with_reducible exact htmlElemNamed_resp _ _)

theorem elemIn_resp (h : Id) (set : EName → Bool) : Resp (elemIn h set) := by
  unfold elemIn; resp_auto
macro_rules | `(tactic| resp_lemma) => `(tactic| with_reducible exact elemIn_resp _ _)

theorem currentNode_resp : Resp currentNode := by
  unfold currentNode; resp_auto
macro_rules | `(tactic| resp_lemma) => `(tactic| with_reducible exact currentNode_resp)

theorem adjustedCurrentNode_resp : Resp adjustedCurrentNode := by
  unfold adjustedCurrentNode; resp_auto
macro_rules | `(tactic| resp_lemma) => `(tactic| with_reducible exact adjustedCurrentNode_resp)

theorem currentNodeIn_resp (set : EName → Bool) : Resp (currentNodeIn set) := by
  unfold currentNodeIn; resp_auto
macro_rules | `(tactic| resp_lemma) => `(tactic| with_reducible exact currentNodeIn_resp _)

theorem currentNodeNamedS_resp (name : Str) : Resp (currentNodeNamedS name) := by
  unfold currentNodeNamedS; resp_auto
macro_rules | `(tactic| resp_lemma) => `(tactic| with_reducible exact currentNodeNamedS_resp _)

theorem currentNodeNamed_resp (name : String) : Resp (currentNodeNamed name) := currentNodeNamedS_resp _
macro_rules | `(tactic| resp_lemma) => `(tactic| with_reducible exact currentNodeNamed_resp _)

theorem htmlElem_resp : Resp htmlElem := by
  unfold htmlElem; resp_auto
macro_rules | `(tactic| resp_lemma) => `(tactic| with_reducible exact htmlElem_resp)

theorem htmlElemFn_resp : Resp htmlElemFn := by
  unfold htmlElemFn; resp_auto
macro_rules | `(tactic| resp_lemma) => `(tactic| with_reducible exact htmlElemFn_resp)

theorem isFragment_resp : Resp isFragment := by
  unfold isFragment; resp_auto
macro_rules | `(tactic| resp_lemma) => `(tactic| with_reducible exact isFragment_resp)

theorem push_resp (h : Id) : Resp (push h) := by
  unfold push; resp_auto
macro_rules | `(tactic| resp_lemma) => `(tactic| with_reducible exact push_resp _)

/-- `set s'` after the state was read: both sides store `Sim`-related states -/
theorem relR_set_bind {β : Type} {Q : β → Prop} {s' t' s t : State} {k : M β} (h : Sim s' t') (hk : RespQ Q k) :
    RelR Q (((set s' : M PUnit) >>= fun _ => k) s) (((set t' : M PUnit) >>= fun _ => k) t) := by
  rw [bind_apply, bind_apply, set_apply, set_apply]
  exact hk s' t' h

theorem sim_upd_of {s : State} {tr cl er pt} (hi : AFInv s) (hp : PendRel s.pendingTableText pt) :
    Sim s (upd s tr cl er pt) := ⟨hi, tr, cl, er, pt, rfl, hp⟩

theorem pop_resp : Resp pop := by
  intro s t hst
  obtain ⟨hi, tr, cl, er, pt, rfl, hp⟩ := hst
  unfold pop
  rw [bind_apply, bind_apply, getS_apply, getS_apply]
  show RelR _ ((match s.openElems.getLast? with
      | none => panicAt "no-current-element" "mod.rs:934" "expect(\"no current element\")"
      | some h => (set { s with openElems := s.openElems.dropLast } : M PUnit) >>= fun _ =>
          (sinkUnit (.pop h) >>= fun _ => pure h)) s)
    ((match s.openElems.getLast? with
      | none => panicAt "no-current-element" "mod.rs:934" "expect(\"no current element\")"
      | some h => (set { upd s tr cl er pt with openElems := s.openElems.dropLast } : M PUnit) >>= fun _ =>
          (sinkUnit (.pop h) >>= fun _ => pure h)) (upd s tr cl er pt))
  cases s.openElems.getLast? with
  | none => trivial
  | some h =>
    refine relR_set_bind (sim_upd_of (s := { s with openElems := s.openElems.dropLast }) hi hp) ?_
    resp_auto
macro_rules | `(tactic| resp_lemma) => `(tactic| with_reducible exact pop_resp)

theorem popSilently_resp : Resp popSilently := by
  intro s t hst
  obtain ⟨hi, tr, cl, er, pt, rfl, hp⟩ := hst
  unfold popSilently
  rw [bind_apply, bind_apply, getS_apply, getS_apply]
  show RelR _ ((match s.openElems.getLast? with
      | none => pure none
      | some h => (set { s with openElems := s.openElems.dropLast } : M PUnit) >>= fun _ => pure (some h)) s)
    ((match s.openElems.getLast? with
      | none => pure none
      | some h => (set { upd s tr cl er pt with openElems := s.openElems.dropLast } : M PUnit) >>= fun _ =>
          pure (some h)) (upd s tr cl er pt))
  cases s.openElems.getLast? with
  | none => exact ⟨rfl, trivial, sim_upd_of hi hp⟩
  | some h =>
    refine relR_set_bind (sim_upd_of (s := { s with openElems := s.openElems.dropLast }) hi hp) ?_
    resp_auto
macro_rules | `(tactic| resp_lemma) => `(tactic| with_reducible exact popSilently_resp)

theorem setMode_resp (m : Mode) : Resp (setMode m) := by
  unfold setMode; resp_auto
macro_rules | `(tactic| resp_lemma) => `(tactic| with_reducible exact setMode_resp _)

theorem setFramesetOk_resp (b : Bool) : Resp (setFramesetOk b) := by
  unfold setFramesetOk; resp_auto
macro_rules | `(tactic| resp_lemma) => `(tactic| with_reducible exact setFramesetOk_resp _)

/-- an update of the list of active formatting elements that keeps the invariant -/
theorem resp_modAF {F : List FormatEntry → List FormatEntry}
    (h : ∀ l, (∀ e ∈ l, FmtEntry e) → ∀ e ∈ F l, FmtEntry e) :
    Resp (modS fun s => { s with activeFormatting := F s.activeFormatting }) :=
  resp_modS' (fun _ _ _ _ _ => rfl) (fun _ hs => h _ hs) (fun _ => rfl)

theorem pushMarker_resp : Resp pushMarker := by
  unfold pushMarker
  refine resp_modAF (F := fun l => l ++ [.marker]) ?_
  intro l hl e he
  rcases List.mem_append.mp he with he | he
  · exact hl e he
  · simp at he; subst he; trivial
macro_rules | `(tactic| resp_lemma) => `(tactic| with_reducible exact pushMarker_resp)

theorem unexpected_done : RespQ (· = .done) unexpected := by
  unfold unexpected; resp_auto
theorem unexpected_resp : Resp unexpected := respQ_resp unexpected_done
macro_rules | `(tactic| resp_lemma) => `(tactic| with_reducible exact unexpected_resp)
macro_rules | `(tactic| resp_lemma) => `(tactic| with_reducible exact unexpected_done)
macro_rules | `(tactic| resp_lemma) => `(tactic| with_reducible exact respQ_done_ok unexpected_done)
macro_rules | `(tactic| resp_lemma) => `(tactic| with_reducible exact respQ_done_notRe unexpected_done)

theorem setQuirksMode_resp (m : QuirksMode) : Resp (setQuirksMode m) := by
  unfold setQuirksMode; resp_auto
macro_rules | `(tactic| resp_lemma) => `(tactic| with_reducible exact setQuirksMode_resp _)

theorem toRawTextMode_notRe (k : RawKind) : RespQ NotRe (toRawTextMode k) := by
  unfold toRawTextMode; resp_auto
theorem toRawTextMode_resp (k : RawKind) : Resp (toRawTextMode k) := respQ_resp (toRawTextMode_notRe k)
macro_rules | `(tactic| resp_lemma) => `(tactic| with_reducible exact toRawTextMode_resp _)
macro_rules | `(tactic| resp_lemma) => `(tactic| with_reducible exact toRawTextMode_notRe _)
macro_rules | `(tactic| resp_lemma) => `(tactic| with_reducible exact respQ_notRe_ok (toRawTextMode_notRe _))

/-! ### creating and inserting nodes -/

theorem createElementWithFlags_resp (name : QualName) (attrs : List Attr) (hadDup : Bool) :
    Resp (createElementWithFlags name attrs hadDup) := by
  unfold createElementWithFlags; resp_auto
macro_rules | `(tactic| resp_lemma) => `(tactic| with_reducible exact createElementWithFlags_resp _ _ _)

theorem fosterLoop_resp : ∀ l, Resp (fosterLoop l)
  | [] => by unfold fosterLoop; resp_auto
  | e :: rest => by
    have ih := fosterLoop_resp rest
    unfold fosterLoop; resp_auto
macro_rules | `(tactic| resp_lemma) => `(tactic| with_reducible exact fosterLoop_resp _)

theorem appropriatePlaceForInsertion_resp (o : Option Id) : Resp (appropriatePlaceForInsertion o) := by
  unfold appropriatePlaceForInsertion; resp_auto
macro_rules | `(tactic| resp_lemma) => `(tactic| with_reducible exact appropriatePlaceForInsertion_resp _)

theorem insertAt_resp (p : InsertionPoint) (c : NodeOrText) : Resp (insertAt p c) := by
  unfold insertAt; resp_auto
macro_rules | `(tactic| resp_lemma) => `(tactic| with_reducible exact insertAt_resp _ _)

theorem insertAppropriately_resp (c : NodeOrText) (o : Option Id) : Resp (insertAppropriately c o) := by
  unfold insertAppropriately; resp_auto
macro_rules | `(tactic| resp_lemma) => `(tactic| with_reducible exact insertAppropriately_resp _ _)

theorem anyHtmlElemNamed_resp (name : String) : ∀ l, Resp (anyHtmlElemNamed name l)
  | [] => by unfold anyHtmlElemNamed; resp_auto
  | e :: rest => by
    have ih := anyHtmlElemNamed_resp name rest
    unfold anyHtmlElemNamed; resp_auto
macro_rules | `(tactic| resp_lemma) => `(tactic| with_reducible exact anyHtmlElemNamed_resp _ _)

theorem inHtmlElemNamed_resp (name : String) : Resp (inHtmlElemNamed name) := by
  unfold inHtmlElemNamed; resp_auto
macro_rules | `(tactic| resp_lemma) => `(tactic| with_reducible exact inHtmlElemNamed_resp _)

theorem insertElement_resp (pushIt : Bool) (ns name : Str) (attrs : List Attr) (hadDup : Bool) :
    Resp (insertElement pushIt ns name attrs hadDup) := by
  unfold insertElement; resp_auto
macro_rules | `(tactic| resp_lemma) => `(tactic| with_reducible exact insertElement_resp _ _ _ _ _)

theorem insertElementFor_resp (tag : Tag) : Resp (insertElementFor tag) := insertElement_resp _ _ _ _ _
macro_rules | `(tactic| resp_lemma) => `(tactic| with_reducible exact insertElementFor_resp _)
theorem insertAndPopElementFor_resp (tag : Tag) : Resp (insertAndPopElementFor tag) := insertElement_resp _ _ _ _ _
macro_rules | `(tactic| resp_lemma) => `(tactic| with_reducible exact insertAndPopElementFor_resp _)
theorem insertPhantom_resp (name : String) : Resp (insertPhantom name) := insertElement_resp _ _ _ _ _
macro_rules | `(tactic| resp_lemma) => `(tactic| with_reducible exact insertPhantom_resp _)

theorem insertForeignElement_resp (tag : Tag) (ns : Str) (b : Bool) : Resp (insertForeignElement tag ns b) := by
  unfold insertForeignElement; resp_auto
macro_rules | `(tactic| resp_lemma) => `(tactic| with_reducible exact insertForeignElement_resp _ _ _)

theorem createRoot_resp (attrs : List Attr) : Resp (createRoot attrs) := by
  unfold createRoot; resp_auto
macro_rules | `(tactic| resp_lemma) => `(tactic| with_reducible exact createRoot_resp _)

theorem appendText_resp (text : Str) : RespQ (· = .done) (appendText text) := by
  unfold appendText; resp_auto
theorem appendComment_resp (text : Str) : RespQ (· = .done) (appendComment text) := by
  unfold appendComment; resp_auto
theorem appendCommentToDoc_resp (text : Str) : RespQ (· = .done) (appendCommentToDoc text) := by
  unfold appendCommentToDoc; resp_auto
theorem appendCommentToHtml_resp (text : Str) : RespQ (· = .done) (appendCommentToHtml text) := by
  unfold appendCommentToHtml; resp_auto

macro_rules | `(tactic| resp_lemma) => `(tactic| with_reducible exact appendText_resp _)
macro_rules | `(tactic| resp_lemma) => `(tactic| with_reducible exact appendComment_resp _)
macro_rules | `(tactic| resp_lemma) => `(tactic| with_reducible exact appendCommentToDoc_resp _)
macro_rules | `(tactic| resp_lemma) => `(tactic| with_reducible exact appendCommentToHtml_resp _)
macro_rules | `(tactic| resp_lemma) => `(tactic| with_reducible exact respQ_resp (appendText_resp _))
macro_rules | `(tactic| resp_lemma) => `(tactic| with_reducible exact respQ_done_ok (appendText_resp _))
macro_rules | `(tactic| resp_lemma) => `(tactic| with_reducible exact respQ_done_notRe (appendText_resp _))
macro_rules | `(tactic| resp_lemma) => `(tactic| with_reducible exact respQ_done_notRe (appendComment_resp _))
macro_rules | `(tactic| resp_lemma) => `(tactic| with_reducible exact respQ_done_ok (appendComment_resp _))
macro_rules | `(tactic| resp_lemma) => `(tactic| with_reducible exact respQ_done_ok (appendCommentToDoc_resp _))
macro_rules | `(tactic| resp_lemma) => `(tactic| with_reducible exact respQ_done_ok (appendCommentToHtml_resp _))

theorem parseRawData_notRe (tag : Tag) (k : RawKind) : RespQ NotRe (parseRawData tag k) := by
  unfold parseRawData; resp_auto
theorem parseRawData_resp (tag : Tag) (k : RawKind) : Resp (parseRawData tag k) := respQ_resp (parseRawData_notRe _ _)
macro_rules | `(tactic| resp_lemma) => `(tactic| with_reducible exact parseRawData_resp _ _)
macro_rules | `(tactic| resp_lemma) => `(tactic| with_reducible exact parseRawData_notRe _ _)
macro_rules | `(tactic| resp_lemma) => `(tactic| with_reducible exact respQ_notRe_ok (parseRawData_notRe _ _))

/-! ### scope predicates, implied end tags, popping -/

theorem inScopeLoop_resp (scope : EName → Bool) (pred : Id → M Bool) (hp : ∀ n, Resp (pred n)) :
    ∀ l, Resp (inScopeLoop scope pred l)
  | [] => by unfold inScopeLoop; resp_auto
  | node :: rest => by
    have ih := inScopeLoop_resp scope pred hp rest
    have h1 := hp node
    unfold inScopeLoop; resp_auto

theorem inScope_resp (scope : EName → Bool) (pred : Id → M Bool) (hp : ∀ n, Resp (pred n)) :
    Resp (inScope scope pred) := by
  unfold inScope
  refine respQ_getS_bind (fun _ _ => inScopeLoop_resp scope pred hp _) (by resp_stable)

macro_rules | `(tactic| resp_lemma) => `(tactic| with_reducible exact inScope_resp _ _ (fun _ => sameNode_resp _ _))
macro_rules | `(tactic| resp_lemma) => `(tactic| with_reducible exact inScope_resp _ _ (fun _ => elemIn_resp _ _))

theorem inScopeNamedS_resp (scope : EName → Bool) (name : Str) : Resp (inScopeNamedS scope name) :=
  inScope_resp _ _ (fun _ => htmlElemNamedS_resp _ _)
macro_rules | `(tactic| resp_lemma) => `(tactic| with_reducible exact inScopeNamedS_resp _ _)

theorem inScopeNamed_resp (scope : EName → Bool) (name : String) : Resp (inScopeNamed scope name) :=
  inScopeNamedS_resp _ _
macro_rules | `(tactic| resp_lemma) => `(tactic| with_reducible exact inScopeNamed_resp _ _)

theorem generateImpliedEndTagsLoop_resp (set : EName → Bool) : ∀ n, Resp (generateImpliedEndTagsLoop set n)
  | 0 => by unfold generateImpliedEndTagsLoop; resp_auto
  | n + 1 => by
    have ih := generateImpliedEndTagsLoop_resp set n
    unfold generateImpliedEndTagsLoop; resp_auto
macro_rules | `(tactic| resp_lemma) => `(tactic| with_reducible exact generateImpliedEndTagsLoop_resp _ _)

theorem generateImpliedEndTags_resp (set : EName → Bool) : Resp (generateImpliedEndTags set) := by
  unfold generateImpliedEndTags; resp_auto
macro_rules | `(tactic| resp_lemma) => `(tactic| with_reducible exact generateImpliedEndTags_resp _)

theorem generateImpliedEndExcept_resp (e : Str) : Resp (generateImpliedEndExcept e) := generateImpliedEndTags_resp _
macro_rules | `(tactic| resp_lemma) => `(tactic| with_reducible exact generateImpliedEndExcept_resp _)

theorem popUntilCurrentLoop_resp (set : EName → Bool) : ∀ n, Resp (popUntilCurrentLoop set n)
  | 0 => by unfold popUntilCurrentLoop; resp_auto
  | n + 1 => by
    have ih := popUntilCurrentLoop_resp set n
    unfold popUntilCurrentLoop; resp_auto
macro_rules | `(tactic| resp_lemma) => `(tactic| with_reducible exact popUntilCurrentLoop_resp _ _)

theorem popUntilCurrent_resp (set : EName → Bool) : Resp (popUntilCurrent set) := by
  unfold popUntilCurrent; resp_auto
macro_rules | `(tactic| resp_lemma) => `(tactic| with_reducible exact popUntilCurrent_resp _)

theorem popUntilLoop_resp (pred : EName → Bool) : ∀ n k, Resp (popUntilLoop pred n k)
  | 0, _ => by unfold popUntilLoop; resp_auto
  | n + 1, k => by
    have ih := popUntilLoop_resp pred n (k + 1)
    unfold popUntilLoop; resp_auto
macro_rules | `(tactic| resp_lemma) => `(tactic| with_reducible exact popUntilLoop_resp _ _ _)

theorem popUntil_resp (pred : EName → Bool) : Resp (popUntil pred) := by
  unfold popUntil; resp_auto
macro_rules | `(tactic| resp_lemma) => `(tactic| with_reducible exact popUntil_resp _)

theorem popUntilNamedS_resp (name : Str) : Resp (popUntilNamedS name) := popUntil_resp _
macro_rules | `(tactic| resp_lemma) => `(tactic| with_reducible exact popUntilNamedS_resp _)
theorem popUntilNamed_resp (name : String) : Resp (popUntilNamed name) := popUntil_resp _
macro_rules | `(tactic| resp_lemma) => `(tactic| with_reducible exact popUntilNamed_resp _)

theorem expectToCloseS_resp (name : Str) : Resp (expectToCloseS name) := by
  unfold expectToCloseS; resp_auto
macro_rules | `(tactic| resp_lemma) => `(tactic| with_reducible exact expectToCloseS_resp _)
theorem expectToClose_resp (name : String) : Resp (expectToClose name) := expectToCloseS_resp _
macro_rules | `(tactic| resp_lemma) => `(tactic| with_reducible exact expectToClose_resp _)

theorem closePElement_resp : Resp closePElement := by
  unfold closePElement; resp_auto
macro_rules | `(tactic| resp_lemma) => `(tactic| with_reducible exact closePElement_resp)

theorem closePElementInButtonScope_resp : Resp closePElementInButtonScope := by
  unfold closePElementInButtonScope; resp_auto
macro_rules | `(tactic| resp_lemma) => `(tactic| with_reducible exact closePElementInButtonScope_resp)

theorem checkBodyEndLoop_resp : ∀ l, Resp (checkBodyEndLoop l)
  | [] => by unfold checkBodyEndLoop; resp_auto
  | e :: rest => by
    have ih := checkBodyEndLoop_resp rest
    unfold checkBodyEndLoop; resp_auto
macro_rules | `(tactic| resp_lemma) => `(tactic| with_reducible exact checkBodyEndLoop_resp _)

theorem checkBodyEnd_resp : Resp checkBodyEnd := by
  unfold checkBodyEnd; resp_auto
macro_rules | `(tactic| resp_lemma) => `(tactic| with_reducible exact checkBodyEnd_resp)

theorem bodyElem_resp : Resp bodyElem := by
  unfold bodyElem; resp_auto
macro_rules | `(tactic| resp_lemma) => `(tactic| with_reducible exact bodyElem_resp)

theorem rpositionLoop_resp (p : Id → M Bool) (hp : ∀ n, Resp (p n)) : ∀ l k, Resp (rpositionLoop p l k)
  | [], _ => by unfold rpositionLoop; resp_auto
  | x :: rest, k => by
    have ih := rpositionLoop_resp p hp rest (k - 1)
    have h1 := hp x
    unfold rpositionLoop; resp_auto

theorem rposition_resp (p : Id → M Bool) (hp : ∀ n, Resp (p n)) : Resp (rposition p) := by
  unfold rposition
  refine respQ_getS_bind (fun s _ => rpositionLoop_resp p hp _ _) (by resp_stable)

macro_rules | `(tactic| resp_lemma) => `(tactic| with_reducible exact rposition_resp _ (fun _ => sameNode_resp _ _))

theorem removeFromStack_resp (elem : Id) : Resp (removeFromStack elem) := by
  unfold removeFromStack
  refine respQ_bind (P := fun _ => True) (rposition_resp _ (fun _ => sameNode_resp _ _)) ?_
  resp_auto
macro_rules | `(tactic| resp_lemma) => `(tactic| with_reducible exact removeFromStack_resp _)

/-! ### the list of active formatting elements -/

theorem positionInAFLoop_resp (element : Id) : ∀ l i, Resp (positionInAFLoop element l i)
  | [], _ => by unfold positionInAFLoop; resp_auto
  | .marker :: rest, i => by
    have ih := positionInAFLoop_resp element rest (i + 1)
    unfold positionInAFLoop; resp_auto
  | .element h _ :: rest, i => by
    have ih := positionInAFLoop_resp element rest (i + 1)
    unfold positionInAFLoop; resp_auto
macro_rules | `(tactic| resp_lemma) => `(tactic| with_reducible exact positionInAFLoop_resp _ _ _)

theorem positionInActiveFormatting_resp (element : Id) : Resp (positionInActiveFormatting element) := by
  unfold positionInActiveFormatting; resp_auto
macro_rules | `(tactic| resp_lemma) => `(tactic| with_reducible exact positionInActiveFormatting_resp _)

theorem setAF_resp (af : List FormatEntry) (h : ∀ e ∈ af, FmtEntry e) : Resp (setAF af) := by
  unfold setAF
  exact resp_modAF (F := fun _ => af) (fun _ _ => h)

theorem fmt_eraseIdx {l : List FormatEntry} (h : ∀ e ∈ l, FmtEntry e) (i : Nat) : ∀ e ∈ l.eraseIdx i, FmtEntry e :=
  fun e he => h e (List.mem_of_mem_eraseIdx he)

theorem fmt_set {l : List FormatEntry} (h : ∀ e ∈ l, FmtEntry e) (i : Nat) {x : FormatEntry} (hx : FmtEntry x) :
    ∀ e ∈ l.set i x, FmtEntry e := by
  intro e he
  rcases List.mem_or_eq_of_mem_set he with he | rfl
  · exact h e he
  · exact hx

theorem afRemove_resp (i : Nat) (site : String) : Resp (afRemove i site) := by
  unfold afRemove
  refine respQ_getS_bind ?_ (by resp_stable)
  intro s hs
  show RespQ _ (if i < s.activeFormatting.length then setAF (s.activeFormatting.eraseIdx i)
    else panicAt "remove-oob" site "Vec::remove")
  split
  · exact setAF_resp _ (fmt_eraseIdx hs.af i)
  · resp_auto
macro_rules | `(tactic| resp_lemma) => `(tactic| with_reducible exact afRemove_resp _ _)

theorem anySameNodeRev_resp (node : Id) : ∀ l, Resp (anySameNodeRev node l)
  | [] => by unfold anySameNodeRev; resp_auto
  | n :: rest => by
    have ih := anySameNodeRev_resp node rest
    unfold anySameNodeRev; resp_auto
macro_rules | `(tactic| resp_lemma) => `(tactic| with_reducible exact anySameNodeRev_resp _ _)

theorem isMarkerOrOpen_resp : ∀ e, Resp (isMarkerOrOpen e)
  | .marker => by unfold isMarkerOrOpen; resp_auto
  | .element node _ => by unfold isMarkerOrOpen; resp_auto
macro_rules | `(tactic| resp_lemma) => `(tactic| with_reducible exact isMarkerOrOpen_resp _)

theorem reconstructRewind_resp : ∀ n, Resp (reconstructRewind n)
  | 0 => by unfold reconstructRewind; resp_auto
  | i + 1 => by
    have ih := reconstructRewind_resp i
    unfold reconstructRewind; resp_auto
macro_rules | `(tactic| resp_lemma) => `(tactic| with_reducible exact reconstructRewind_resp _)

/-- the entry read from the list carries a formatting tag -/
theorem fmt_of_getElem? {l : List FormatEntry} (h : ∀ e ∈ l, FmtEntry e) {i : Nat} {e : FormatEntry}
    (he : l[i]? = some e) : FmtEntry e := h e (List.mem_of_getElem? he)

theorem reconstructCreate_resp : ∀ fuel i, Resp (reconstructCreate fuel i)
  | 0, _ => by unfold reconstructCreate; resp_auto
  | fuel + 1, i => by
    have ih := reconstructCreate_resp fuel (i + 1)
    unfold reconstructCreate
    refine respQ_getS_bind ?_ (by resp_stable)
    intro s hs
    simp (config := { zeta := true }) only [pure_bind]
    split
    · rename_i t heq
      have htag := fmt_of_getElem? hs.af heq
      resp_auto
      rename_i hg _
      exact setAF_resp _ (fmt_set hg.af _ htag)
    · resp_auto
    · resp_auto
macro_rules | `(tactic| resp_lemma) => `(tactic| with_reducible exact reconstructCreate_resp _ _)

theorem reconstructActiveFormattingElements_resp : Resp reconstructActiveFormattingElements := by
  unfold reconstructActiveFormattingElements; resp_auto
macro_rules | `(tactic| resp_lemma) => `(tactic| with_reducible exact reconstructActiveFormattingElements_resp)

theorem fmt_append {l : List FormatEntry} (h : ∀ e ∈ l, FmtEntry e) {x : FormatEntry} (hx : FmtEntry x) :
    ∀ e ∈ l ++ [x], FmtEntry e := by
  intro e he
  rcases List.mem_append.mp he with he | he
  · exact h e he
  · simp at he; subst he; exact hx

theorem createFormattingElementFor_resp (tag : Tag) (htag : isOneOf tag.name fmtNames = true) :
    Resp (createFormattingElementFor tag) := by
  unfold createFormattingElementFor
  resp_auto
  all_goals
    rename_i elem _
    exact resp_modAF (F := fun l => l ++ [.element elem tag]) (fun l hl => fmt_append hl (x := .element elem tag) htag)

theorem clearToMarkerRev_sub : ∀ (l : List FormatEntry), ∀ e ∈ clearToMarkerRev l, e ∈ l
  | [], _, h => by simp [clearToMarkerRev] at h
  | .marker :: rest, e, h => by simp only [clearToMarkerRev] at h; exact List.mem_cons_of_mem _ h
  | .element _ _ :: rest, e, h => by
    simp only [clearToMarkerRev] at h
    exact List.mem_cons_of_mem _ (clearToMarkerRev_sub rest e h)

theorem clearActiveFormattingToMarker_resp : Resp clearActiveFormattingToMarker := by
  unfold clearActiveFormattingToMarker
  refine resp_modAF (F := fun l => (clearToMarkerRev l.reverse).reverse) ?_
  intro l hl e he
  exact hl e (List.mem_reverse.mp (clearToMarkerRev_sub _ _ (List.mem_reverse.mp he)))
macro_rules | `(tactic| resp_lemma) => `(tactic| with_reducible exact clearActiveFormattingToMarker_resp)

/-! ### "any other end tag" and the adoption agency -/

theorem endTagSearch_resp (name : Str) : ∀ l k, Resp (endTagSearch name l k)
  | [], _ => by unfold endTagSearch; resp_auto
  | e :: rest, k => by
    have ih := endTagSearch_resp name rest (k - 1)
    unfold endTagSearch; resp_auto
macro_rules | `(tactic| resp_lemma) => `(tactic| with_reducible exact endTagSearch_resp _ _ _)

theorem processEndTagInBody_resp (tag : Tag) : Resp (processEndTagInBody tag) := by
  unfold processEndTagInBody; resp_auto
macro_rules | `(tactic| resp_lemma) => `(tactic| with_reducible exact processEndTagInBody_resp _)

theorem findFurthestBlock_resp : ∀ l i, Resp (findFurthestBlock l i)
  | [], _ => by unfold findFurthestBlock; resp_auto
  | e :: rest, i => by
    have ih := findFurthestBlock_resp rest (i + 1)
    unfold findFurthestBlock; resp_auto
macro_rules | `(tactic| resp_lemma) => `(tactic| with_reducible exact findFurthestBlock_resp _ _)

theorem positionSameNode_resp (x : Id) : ∀ l i, Resp (positionSameNode x l i)
  | [], _ => by unfold positionSameNode; resp_auto
  | n :: rest, i => by
    have ih := positionSameNode_resp x rest (i + 1)
    unfold positionSameNode; resp_auto
macro_rules | `(tactic| resp_lemma) => `(tactic| with_reducible exact positionSameNode_resp _ _ _)

theorem aaInner_resp (fmtElem furthestBlock : Id) :
    ∀ n c l b, Resp (aaInner fmtElem furthestBlock n c l b)
  | 0, _, _, _ => by unfold aaInner; resp_auto
  | n + 1, c, l, b => by
    have ih := fun c l b => aaInner_resp fmtElem furthestBlock n c l b
    unfold aaInner
    resp_auto
    rename_i hg _ _ t heq _ _ _ _ _
    have hf : FmtEntry (.element _ t) := fmt_of_getElem? hg.af heq
    exact resp_modS' (fun _ _ _ _ _ => rfl) (fun s hs => fmt_set hs _ hf) (fun _ => rfl)
macro_rules | `(tactic| resp_lemma) => `(tactic| with_reducible exact aaInner_resp _ _ _ _ _ _)

theorem afEndToMarkerAux_mem : ∀ (l : List (FormatEntry × Nat)) (i : Nat) (h : Id) (t : Tag),
    (i, h, t) ∈ afEndToMarkerAux l → (FormatEntry.element h t, i) ∈ l
  | [], _, _, _, hm => by simp [afEndToMarkerAux] at hm
  | (.marker, _) :: _, _, _, _, hm => by simp [afEndToMarkerAux] at hm
  | (.element h' t', j) :: rest, i, h, t, hm => by
    simp only [afEndToMarkerAux, List.mem_cons] at hm
    rcases hm with hm | hm
    · cases hm; exact List.mem_cons_self ..
    · exact List.mem_cons_of_mem _ (afEndToMarkerAux_mem rest i h t hm)

theorem afEndToMarker_mem {af : List FormatEntry} {i : Nat} {h : Id} {t : Tag}
    (hm : (i, h, t) ∈ afEndToMarker af) : FormatEntry.element h t ∈ af := by
  unfold afEndToMarker at hm
  have := afEndToMarkerAux_mem _ _ _ _ hm
  exact List.fst_mem_of_mem_zipIdx (List.mem_reverse.mp this)

theorem fmt_insertIdx {l : List FormatEntry} (h : ∀ e ∈ l, FmtEntry e) (i : Nat) {x : FormatEntry} (hx : FmtEntry x) :
    ∀ e ∈ l.insertIdx i x, FmtEntry e := by
  intro e he
  by_cases hi : i ≤ l.length
  · rcases (List.mem_insertIdx hi).mp he with rfl | he
    · exact hx
    · exact h e he
  · rw [List.insertIdx_of_length_lt (by omega)] at he
    exact h e he

theorem aaOuterStep_resp (subject : Str) : Resp (aaOuterStep subject) := by
  unfold aaOuterStep
  refine respQ_getS_bind ?_ (by resp_stable)
  intro s hs
  split
  · resp_auto
  · rename_i fmtElemIndex fmtElem fmtElemTag hfind
    have htag : FmtEntry (.element fmtElem fmtElemTag) := hs.af _ (afEndToMarker_mem (List.mem_of_find?_eq_some hfind))
    resp_auto
    all_goals first
      | exact resp_modAF (F := fun l => l.set _ (.element _ fmtElemTag)) (fun l hl => fmt_set hl _ htag)
      | exact resp_modAF (F := fun l => l.insertIdx _ (.element _ fmtElemTag)) (fun l hl => fmt_insertIdx hl _ htag)
macro_rules | `(tactic| resp_lemma) => `(tactic| with_reducible exact aaOuterStep_resp _)

theorem aaOuter_resp (subject : Str) : ∀ n, Resp (aaOuter subject n)
  | 0 => by unfold aaOuter; resp_auto
  | n + 1 => by
    have ih := aaOuter_resp subject n
    unfold aaOuter; resp_auto
macro_rules | `(tactic| resp_lemma) => `(tactic| with_reducible exact aaOuter_resp _ _)

theorem adoptionAgency_resp (subject : Str) : Resp (adoptionAgency subject) := by
  unfold adoptionAgency; resp_auto
macro_rules | `(tactic| resp_lemma) => `(tactic| with_reducible exact adoptionAgency_resp _)

theorem findAInAF_resp : ∀ l, Resp (findAInAF l)
  | [] => by unfold findAInAF; resp_auto
  | (_, n, _) :: rest => by
    have ih := findAInAF_resp rest
    unfold findAInAF; resp_auto
macro_rules | `(tactic| resp_lemma) => `(tactic| with_reducible exact findAInAF_resp _)

theorem handleMisnestedATags_resp : Resp handleMisnestedATags := by
  unfold handleMisnestedATags; resp_auto
macro_rules | `(tactic| resp_lemma) => `(tactic| with_reducible exact handleMisnestedATags_resp)

/-! ### reset the insertion mode, tables, cells, foreign content -/

theorem resetLoop_resp : ∀ l k, Resp (resetLoop l k)
  | [], _ => by unfold resetLoop; resp_auto
  | node :: rest, k => by
    have ih := resetLoop_resp rest (k - 1)
    unfold resetLoop; resp_auto
macro_rules | `(tactic| resp_lemma) => `(tactic| with_reducible exact resetLoop_resp _ _)

theorem resetInsertionMode_resp : Resp resetInsertionMode := by
  unfold resetInsertionMode; resp_auto
macro_rules | `(tactic| resp_lemma) => `(tactic| with_reducible exact resetInsertionMode_resp)

theorem closeTheCell_resp : Resp closeTheCell := by
  unfold closeTheCell; resp_auto
macro_rules | `(tactic| resp_lemma) => `(tactic| with_reducible exact closeTheCell_resp)

theorem enterForeign_notRe (tag : Tag) (ns : Str) : RespQ NotRe (enterForeign tag ns) := by
  unfold enterForeign; resp_auto
theorem enterForeign_resp (tag : Tag) (ns : Str) : Resp (enterForeign tag ns) := respQ_resp (enterForeign_notRe _ _)
macro_rules | `(tactic| resp_lemma) => `(tactic| with_reducible exact enterForeign_resp _ _)
macro_rules | `(tactic| resp_lemma) => `(tactic| with_reducible exact enterForeign_notRe _ _)
macro_rules | `(tactic| resp_lemma) => `(tactic| with_reducible exact respQ_notRe_ok (enterForeign_notRe _ _))

theorem foreignStartTag_notRe (tag : Tag) : RespQ NotRe (foreignStartTag tag) := by
  unfold foreignStartTag; resp_auto
theorem foreignStartTag_resp (tag : Tag) : Resp (foreignStartTag tag) := respQ_resp (foreignStartTag_notRe _)
macro_rules | `(tactic| resp_lemma) => `(tactic| with_reducible exact foreignStartTag_resp _)
macro_rules | `(tactic| resp_lemma) => `(tactic| with_reducible exact foreignStartTag_notRe _)
macro_rules | `(tactic| resp_lemma) => `(tactic| with_reducible exact respQ_notRe_ok (foreignStartTag_notRe _))

theorem isForeign_resp (token : Token) : Resp (isForeign token) := by
  unfold isForeign; resp_auto
macro_rules | `(tactic| resp_lemma) => `(tactic| with_reducible exact isForeign_resp _)

theorem popToIntegrationPointLoop_resp : ∀ n, Resp (popToIntegrationPointLoop n)
  | 0 => by unfold popToIntegrationPointLoop; resp_auto
  | n + 1 => by
    have ih := popToIntegrationPointLoop_resp n
    unfold popToIntegrationPointLoop; resp_auto
macro_rules | `(tactic| resp_lemma) => `(tactic| with_reducible exact popToIntegrationPointLoop_resp _)

end H5V.Lemmas.TBSplit
