import H5V.Lemmas.XmlRTFeed
/-!
C17, tokenizer half, part 11: from trees to event lists.
* `nodesLex`: the lexical side conditions on a tree (names, values, comment / PI texts, doctype name)
  under which every event the fixed serializer writes for it satisfies `EvLex` (`serNodes_lex`) — the
  declarations it adds are `xmlns` / `xmlns:p` for prefixes `p` of the tag's own names, with the names'
  namespace URIs as values;
* `adjT`: no empty text node, no two adjacent text nodes; then the one-character-per-token delivery of the
  tokenizer model, merged (`mergeChars`), is exactly `XmlSer.lexAll` (`merge_evToks`).
-/
namespace H5V.Lemmas.XmlRT
open H5V.Model.XmlTB H5V.Model.XmlSer H5V.Lemmas.XmlSer H5V.Lemmas.XmlSerFixed

/-! ### lexical conditions on trees -/

/-- a prefix that can be written as `xmlns:p` -/
def PfxLex (p : Option Str) : Prop := ∀ q, p = some q → ∀ d ∈ q, NmCh d ∧ d ≠ '='

def NoNul (s : Str) : Prop := ∀ c ∈ s, c ≠ '\x00'

def ElemLex (n : QName) (as : List Attr) : Prop :=
  TagNameLex (rawName n) ∧ PfxLex n.pfx ∧ NoNul n.ns ∧
    ∀ a ∈ as, AttrNameLex (rawName a.name) ∧ PfxLex a.name.pfx ∧ NoNul a.name.ns ∧ NoNul a.value

mutual
def nodeLex : Node → Prop
  | .elem n as ks => ElemLex n as ∧ nodesLex ks
  | .text s => NoNul s
  | .comment s => CommentLex s
  | .pi t d => PiLex t d
  | .doctype n _ _ => ∀ x ∈ n, DtCh x
def nodesLex : List Node → Prop
  | [] => True
  | n :: rest => nodeLex n ∧ nodesLex rest
end

/-- an entry of the serializer's top map that can be written as a declaration -/
def DeclOK (e : Option Str × Str) : Prop := PfxLex e.1 ∧ NoNul e.2

theorem declOK_reg1 (sst : List SMap) (F : SMap) (x : QName) (hF : ∀ e ∈ F, DeclOK e) (hx : DeclOK (x.pfx, x.ns)) :
    ∀ e ∈ reg1 sst F x, DeclOK e := by
  unfold reg1
  split
  · intro e he
    rcases mem_insert F _ _ e he with rfl | h
    · exact hx
    · exact hF e h
  · exact hF

theorem declOK_regAll (sst : List SMap) (xs : List QName) (F : SMap) (hF : ∀ e ∈ F, DeclOK e)
    (hx : ∀ x ∈ xs, DeclOK (x.pfx, x.ns)) : ∀ e ∈ regAll sst F xs, DeclOK e := by
  induction xs generalizing F with
  | nil => exact hF
  | cons x rest ih =>
    exact ih _ (declOK_reg1 sst F x hF (hx x (by simp))) (fun y hy => hx y (by simp [hy]))

theorem declOK_topFixed (sst : List SMap) (n : QName) (as : List Attr) (h : ElemLex n as) :
    ∀ e ∈ sortDecls (topFixed sst n as), DeclOK e := by
  obtain ⟨_, h2, h3, h4⟩ := h
  intro e he
  have he' : e ∈ topFixed sst n as := (sortDecls_perm _).mem_iff.mp he
  unfold topFixed at he'
  refine declOK_regAll sst (as.map (·.name)) _ ?_ ?_ e he'
  · have h0 : ∀ e ∈ reg1 sst [] n, DeclOK e := declOK_reg1 sst [] n (by simp) ⟨h2, h3⟩
    split
    · intro e he
      rcases mem_insert _ _ _ e he with rfl | h
      · exact ⟨fun q hq => (by cases hq), fun c hc => (by cases hc)⟩
      · exact h0 e h
    · exact h0
  · intro x hx
    obtain ⟨a, ha, rfl⟩ := List.mem_map.mp hx
    exact ⟨(h4 a ha).2.1, (h4 a ha).2.2.1⟩

theorem attrNameLex_decl (k : Option Str) (h : PfxLex k) : AttrNameLex (declName k) := by
  cases k with
  | none =>
    refine ⟨'x', ['m', 'l', 'n', 's'], by decide, by unfold NmCh; decide, by decide, ?_⟩
    intro d hd
    simp at hd
    rcases hd with rfl | rfl | rfl | rfl <;> (unfold NmCh; decide)
  | some p =>
    refine ⟨'x', ['m', 'l', 'n', 's', ':'] ++ p, by simp [declName, sXmlns], by unfold NmCh; decide,
      by decide, ?_⟩
    intro d hd
    rcases List.mem_append.mp hd with hd | hd
    · simp at hd
      rcases hd with rfl | rfl | rfl | rfl | rfl <;> (unfold NmCh; decide)
    · exact h p rfl d hd

theorem startTag_lex (sst : List SMap) (n : QName) (as : List Attr) (h : ElemLex n as) :
    EvLex (.startTag n (sortDecls (topFixed sst n as)) as) := by
  refine ⟨h.1, ?_⟩
  intro a ha
  unfold rawAttrs at ha
  rcases List.mem_append.mp ha with ha | ha
  · obtain ⟨d, hd, rfl⟩ := List.mem_map.mp ha
    have := declOK_topFixed sst n as h d hd
    exact ⟨attrNameLex_decl d.1 this.1, this.2⟩
  · obtain ⟨b, hb, rfl⟩ := List.mem_map.mp ha
    exact ⟨(h.2.2.2 b hb).1, (h.2.2.2 b hb).2.2.2⟩

/-! ### no empty text, no adjacent text nodes -/

def isTextN : Node → Bool
  | .text _ => true
  | _ => false

mutual
def adjT : Bool → List Node → Prop
  | _, [] => True
  | prev, n :: rest => adjN prev n ∧ adjT (isTextN n) rest
def adjN : Bool → Node → Prop
  | prev, .text s => prev = false ∧ s ≠ []
  | _, .elem _ _ ks => adjT false ks
  | _, _ => True
end

def AdjOK : Bool → List Ev → Prop
  | _, [] => True
  | prev, .text s :: rest => prev = false ∧ s ≠ [] ∧ AdjOK true rest
  | _, .startTag _ _ _ :: rest => AdjOK false rest
  | _, .endTag _ :: rest => AdjOK false rest
  | _, .comment _ :: rest => AdjOK false rest
  | _, .pi _ _ :: rest => AdjOK false rest
  | _, .doctype _ :: rest => AdjOK false rest

def lastT : Bool → List Node → Bool
  | prev, [] => prev
  | _, n :: rest => lastT (isTextN n) rest

mutual
theorem serNode_facts : ∀ (nd : Node) (sst : List SMap) (prev : Bool) (tail : List Ev),
    nodeLex nd → adjN prev nd → AdjOK (isTextN nd) tail →
    (∀ e ∈ (serNode SerCfg.fixed sst nd).1, EvLex e) ∧ AdjOK prev ((serNode SerCfg.fixed sst nd).1 ++ tail)
  | .elem n as ks, sst, prev, tail, hl, ha, ht => by
    simp only [nodeLex] at hl
    simp only [adjN] at ha
    have ih := serNodes_facts ks (topFixed sst n as :: sst) false (.endTag n :: tail) hl.2 ha (by
      simpa [AdjOK, isTextN] using ht)
    simp only [serNode, startElem_fixed, endElem_fixed]
    constructor
    · intro e he
      simp only [List.cons_append, List.mem_cons, List.mem_append, List.mem_nil_iff, or_false] at he
      rcases he with rfl | he | rfl
      · exact startTag_lex sst n as hl.1
      · exact ih.1 e he
      · exact hl.1.1
    · simp only [List.cons_append, List.append_assoc, AdjOK]
      exact ih.2
  | .text s, sst, prev, tail, hl, ha, ht => by
    simp only [nodeLex] at hl
    simp only [adjN] at ha
    simp only [serNode]
    exact ⟨fun e he => by simp at he; subst he; exact ⟨ha.2, hl⟩, by simpa [AdjOK, isTextN] using ⟨ha.1, ha.2, ht⟩⟩
  | .comment s, sst, prev, tail, hl, _, ht => by
    simp only [nodeLex] at hl
    simp only [serNode]
    exact ⟨fun e he => by simp at he; subst he; exact hl, by simpa [AdjOK, isTextN] using ht⟩
  | .pi t d, sst, prev, tail, hl, _, ht => by
    simp only [nodeLex] at hl
    simp only [serNode]
    exact ⟨fun e he => by simp at he; subst he; exact hl, by simpa [AdjOK, isTextN] using ht⟩
  | .doctype n p sy, sst, prev, tail, hl, _, ht => by
    simp only [nodeLex] at hl
    simp only [serNode]
    exact ⟨fun e he => by simp at he; subst he; exact hl, by simpa [AdjOK, isTextN] using ht⟩
theorem serNodes_facts : ∀ (ns : List Node) (sst : List SMap) (prev : Bool) (tail : List Ev),
    nodesLex ns → adjT prev ns → AdjOK (lastT prev ns) tail →
    (∀ e ∈ (serNodes SerCfg.fixed sst ns).1, EvLex e) ∧ AdjOK prev ((serNodes SerCfg.fixed sst ns).1 ++ tail)
  | [], sst, prev, tail, _, _, ht => by
    simp only [serNodes]
    exact ⟨fun e he => (by cases he), by simpa [lastT] using ht⟩
  | nd :: rest, sst, prev, tail, hl, ha, ht => by
    simp only [nodesLex] at hl
    simp only [adjT] at ha
    simp only [lastT] at ht
    have ih2 := serNodes_facts rest (serNode SerCfg.fixed sst nd).2
      (isTextN nd) tail hl.2 ha.2 ht
    have ih1 := serNode_facts nd sst prev ((serNodes SerCfg.fixed (serNode SerCfg.fixed sst nd).2 rest).1 ++ tail)
      hl.1 ha.1 ih2.2
    simp only [serNodes]
    constructor
    · intro e he
      rcases List.mem_append.mp he with he | he
      · exact ih1.1 e he
      · exact ih2.1 e he
    · rw [List.append_assoc]; exact ih1.2
end

/-! ### merging the one-character text tokens -/

def isChars : Token → Bool
  | .chars _ => true
  | _ => false

theorem mergeChars_nonchars (t : Token) (rest : List Token) (h : isChars t = false) :
    mergeChars (t :: rest) = t :: mergeChars rest := by
  cases t with
  | chars s => simp [isChars] at h
  | _ => rw [mergeChars]; intro _ _ _ h1 h2; first | (cases h1; done) | (injection h2 with h3 _; cases h3)

theorem mergeChars_chars_stop (a : Str) (t : Token) (rest : List Token) (h : isChars t = false) :
    mergeChars (.chars a :: t :: rest) = .chars a :: mergeChars (t :: rest) := by
  cases t with
  | chars s => simp [isChars] at h
  | _ => rw [mergeChars]; intro _ _ _ h1 h2; first | (cases h1; done) | (injection h2 with h3 _; cases h3)

theorem mergeChars_run (s : Str) : ∀ (a : Str) (t : Token) (rest : List Token), isChars t = false →
    mergeChars (.chars a :: (s.map (fun c => Token.chars [c]) ++ t :: rest)) =
      .chars (a ++ s) :: mergeChars (t :: rest) := by
  induction s with
  | nil => intro a t rest h; simpa using mergeChars_chars_stop a t rest h
  | cons c s ih =>
    intro a t rest h
    simp only [List.map_cons, List.cons_append]
    rw [mergeChars]
    rw [ih (a ++ [c]) t rest h]
    simp

/-- the first token delivered for a list of events that does not start with text is not text -/
def headOK : List Token → Prop
  | [] => False
  | t :: _ => isChars t = false

theorem evToks_nontext (e : Ev) (h : isTextEv e = false) :
    ∃ t, evToks e = [t] ∧ isChars t = false ∧ lexEv SerCfg.fixed LexCfg.fixed e = some t := by
  cases e with
  | text s => simp [isTextEv] at h
  | startTag n d a => exact ⟨_, rfl, rfl, rfl⟩
  | endTag n => exact ⟨_, rfl, rfl, rfl⟩
  | comment s => exact ⟨_, rfl, rfl, rfl⟩
  | pi t d => exact ⟨_, rfl, rfl, rfl⟩
  | doctype n => exact ⟨_, rfl, rfl, rfl⟩

theorem merge_evToks : ∀ (evs : List Ev) (prev : Bool), AdjOK prev evs →
    (prev = true → headOK ((evs.map evToks).flatten ++ [.eof])) ∧
    mergeChars ((evs.map evToks).flatten ++ [.eof]) = lexAll SerCfg.fixed LexCfg.fixed evs := by
  intro evs
  induction evs with
  | nil => intro prev _; exact ⟨fun _ => rfl, by rw [lexAll]; simp [mergeChars]⟩
  | cons e es ih =>
    intro prev h
    by_cases ht : isTextEv e = true
    · cases e with
      | text s =>
        simp only [AdjOK] at h
        obtain ⟨h1, h2, h3⟩ := h
        obtain ⟨ih1, ih2⟩ := ih true h3
        have hk := ih1 rfl
        refine ⟨fun hp => (by rw [h1] at hp; cases hp), ?_⟩
        generalize hT : (es.map evToks).flatten ++ [Token.eof] = T at hk ih2
        cases T with
        | nil => exact hk.elim
        | cons t rest =>
          cases s with
          | nil => exact absurd rfl h2
          | cons c s' =>
            have e1 : ((Ev.text (c :: s') :: es).map evToks).flatten ++ [Token.eof] =
                .chars [c] :: (s'.map (fun c => Token.chars [c]) ++ t :: rest) := by
              simp only [List.map_cons, List.flatten_cons, evToks, List.append_assoc, hT]; rfl
            rw [e1, mergeChars_run s' [c] t rest hk, ih2]
            unfold lexAll
            have e2 : lexEv SerCfg.fixed LexCfg.fixed (.text (c :: s')) = some (.chars (c :: s')) := by
              simp only [lexEv]
              rw [lexText_escape SerCfg.fixed (c :: s') (Or.inr rfl)]
              simp
            simp [List.filterMap_cons, e2]
      | _ => simp [isTextEv] at ht
    · have ht' : isTextEv e = false := by simpa using ht
      obtain ⟨t, e1, e2, e3⟩ := evToks_nontext e ht'
      have hadj : AdjOK false es := by
        cases e with
        | text s => simp [isTextEv] at ht'
        | _ => simpa [AdjOK] using h
      obtain ⟨_, ih2⟩ := ih false hadj
      have e4 : ((e :: es).map evToks).flatten ++ [Token.eof] = t :: ((es.map evToks).flatten ++ [Token.eof]) := by
        simp [e1]
      rw [e4]
      refine ⟨fun _ => e2, ?_⟩
      rw [mergeChars_nonchars t _ e2, ih2]
      unfold lexAll
      simp [List.filterMap_cons, e3]

end H5V.Lemmas.XmlRT
