import H5V.Lemmas.DomClone
/-!
The repaired `clone_with_subtree` (`Dom.cloneFixed`) makes **deep** copies: the subtree below the
copy is isomorphic to the subtree below the original — same node data, children in the same order,
template contents copied recursively — and consists of fresh nodes only.

* `Tree` / `treeAux d n x`: the tree below `x` in the arena `d` with all ids forgotten (data with the
  template link erased, the template-contents tree, the child trees), cut at depth `n`.  Two nodes
  carry isomorphic subtrees iff `treeAux` agrees at every depth.
* `TcValid d`: template-contents links name nodes of the arena (true of every arena the sink builds:
  `create_element` allocates the contents before the element; without it a dangling link could come
  to name a node allocated later, and "the subtree of `x`" would not be stable).
* `NewClosed n0 d`: the nodes with id ≥ `n0` link (children, template contents) only to nodes ≥ `n0`.
-/
namespace H5V.Lemmas.Dom
open H5V.Model.Dom

/-- a subtree with the arena ids forgotten, cut at some depth -/
inductive Tree where
  | cut
  | node (data : Option NodeData) (tc : Option Tree) (kids : List Tree)

/-- the tree below `x`: node data (template link erased; `none` outside the arena), the tree of the
template contents, the trees of the children in order — cut at depth `n` -/
def treeAux (d : Dom) : Nat → Id → Tree
  | 0, _ => .cut
  | n + 1, x => .node ((d.dataOf x).map eraseTc) ((d.templateContentsOf x).map (treeAux d n))
      ((d.childrenOf x).map (treeAux d n))

/-- template-contents links name nodes of the arena -/
def TcValid (d : Dom) : Prop := ∀ x t, d.templateContentsOf x = some t → t < d.size

/-- nodes `≥ n0` link only to nodes `≥ n0` -/
def NewClosed (n0 : Nat) (d : Dom) : Prop :=
  ∀ y, n0 ≤ y → (∀ c ∈ d.childrenOf y, n0 ≤ c) ∧ (∀ t, d.templateContentsOf y = some t → n0 ≤ t)

/-- nodes `< n0` link only to nodes `< n0` -/
def OldDown (n0 : Nat) (d : Dom) : Prop :=
  ∀ y, y < n0 → (∀ c ∈ d.childrenOf y, c < n0) ∧ (∀ t, d.templateContentsOf y = some t → t < n0)

/-- the template-contents link stored in node data -/
def tcOfData : NodeData → Option Id
  | .element _ _ tc _ => tc
  | _ => none

theorem tc_eq (d : Dom) (x : Id) : d.templateContentsOf x = (d.dataOf x).bind tcOfData := by
  unfold Dom.templateContentsOf
  cases d.dataOf x with
  | none => rfl
  | some v => cases v <;> rfl

theorem tc_congr {d d' : Dom} {x : Id} (h : d'.dataOf x = d.dataOf x) :
    d'.templateContentsOf x = d.templateContentsOf x := by unfold Dom.templateContentsOf; rw [h]

theorem tc_lt {d : Dom} {x t : Id} (h : d.templateContentsOf x = some t) : x < d.size := by
  unfold Dom.templateContentsOf at h
  cases hd : d.dataOf x with
  | none => simp [hd] at h
  | some v =>
    rw [dataOf_eq] at hd
    cases hn : d.node? x with
    | none => simp [hn] at hd
    | some nd => exact node?_lt hn

theorem tc_none_of_ge {d : Dom} {x : Id} (h : d.size ≤ x) : d.templateContentsOf x = none := by
  cases ht : d.templateContentsOf x with
  | none => rfl
  | some t => exact absurd (tc_lt ht) (Nat.not_lt.mpr h)

/-- **the tree below a node depends only on the nodes below it**: if `S` is closed under child and
template links in `d` and `d'` agrees with `d` on the data and child lists of the `S`-nodes, the
trees below `S`-nodes agree -/
theorem tree_agree {d d' : Dom} (S : Id → Prop)
    (hcl : ∀ y, S y → (∀ c ∈ d.childrenOf y, S c) ∧ (∀ t, d.templateContentsOf y = some t → S t))
    (hag : ∀ y, S y → d'.dataOf y = d.dataOf y ∧ d'.childrenOf y = d.childrenOf y) :
    ∀ n x, S x → treeAux d' n x = treeAux d n x := by
  intro n
  induction n with
  | zero => intro x _; rfl
  | succ n ih =>
    intro x hx
    obtain ⟨hd, hc⟩ := hag x hx
    obtain ⟨c1, c2⟩ := hcl x hx
    simp only [treeAux]
    rw [hd, tc_congr hd, hc]
    congr 1
    · cases ht : d.templateContentsOf x with
      | none => rfl
      | some t => simp only [Option.map_some]; rw [ih t (c2 t ht)]
    · exact List.map_congr_left (fun c hc => ih c (c1 c hc))

theorem oldDown_self {d : Dom} (hw : WF d) (ht : TcValid d) : OldDown d.size d :=
  fun y _ => ⟨fun _ hc => child_valid hw hc, fun t h => ht y t h⟩

/-- nothing old changed ⇒ the trees below old nodes did not change -/
theorem tree_frame {d d' : Dom} (hf : Frame d d') (hw : WF d) (ht : TcValid d) :
    ∀ n x, x < d.size → treeAux d' n x = treeAux d n x :=
  tree_agree (fun y => y < d.size) (oldDown_self hw ht)
    (fun y hy => ⟨hf.data y hy, hf.children y hy (by simp)⟩)

theorem tree_oldDown {n0 : Nat} {d d' : Dom} (ho : OldDown n0 d)
    (hag : ∀ y, y < n0 → d'.dataOf y = d.dataOf y ∧ d'.childrenOf y = d.childrenOf y) :
    ∀ n x, x < n0 → treeAux d' n x = treeAux d n x :=
  tree_agree (fun y => y < n0) ho hag

theorem TcValid.alloc {d : Dom} (ht : TcValid d) {data : NodeData}
    (hd : ∀ t, tcOfData data = some t → t < d.size) :
    TcValid (d.alloc data).1 := by
  intro x t h
  rw [tc_eq, dataOf_alloc] at h
  rw [size_alloc]
  by_cases hx : x = d.size
  · simp only [hx, if_true, Option.bind_some] at h
    exact Nat.lt_succ_of_lt (hd t h)
  · simp only [hx, if_false] at h
    rw [← tc_eq] at h
    exact Nat.lt_succ_of_lt (ht x t h)

theorem TcValid.sameData {d d' : Dom} (ht : TcValid d) (hd : ∀ x, d'.dataOf x = d.dataOf x)
    (hs : d'.size = d.size) : TcValid d' := by
  intro x t h
  rw [tc_congr (hd x)] at h
  rw [hs]; exact ht x t h

/-- what copying the subtree of `x` yields, beyond `CloneSpec`: links stay valid, the new part of
the arena is closed (the copy shares no node with anything old), and the subtree of the copy `k`
is isomorphic to that of `x` -/
structure DeepSpec (d d' : Dom) (x k : Id) : Prop where
  spec : CloneSpec d d' x k
  tcv : TcValid d'
  closed : NewClosed d.size d'
  iso : ∀ n, treeAux d' n k = treeAux d n x

theorem newClosed_of_empty (d : Dom) : NewClosed d.size d :=
  fun y hy => ⟨fun c hc => (by rw [childrenOf_nil_of_ge hy] at hc; cases hc),
    fun t h => (by rw [tc_none_of_ge hy] at h; cases h)⟩

/-- the children loop of the repaired `clone_with_subtree`, deep version -/
theorem cloneKidsWith_deep {cl : Dom → Id → Except String (Dom × Id)}
    (hcl : ∀ d c d' k, WF d → Kinds d → TcValid d → cl d c = .ok (d', k) → DeepSpec d d' c k)
    {n0 id : Id} (hid0 : n0 ≤ id) :
    ∀ (cs : List Id) (d d' : Dom), WF d → Kinds d → TcValid d → id < d.size → d.parentOf id = none →
      NewClosed n0 d → OldDown n0 d →
      (∀ c ∈ cs, c < n0 ∧ d.dataOf c ≠ some .document ∧ d.isContainer id = true) →
      Dom.cloneKidsWith cl id d cs = .ok d' →
      WF d' ∧ Kinds d' ∧ TcValid d' ∧ FrameX d d' (some id) ∧ d'.parentOf id = none ∧
      NewClosed n0 d' ∧
      ∃ ks, d'.childrenOf id = d.childrenOf id ++ ks ∧ (∀ k ∈ ks, d.size ≤ k) ∧
        ∀ n, ks.map (treeAux d' n) = cs.map (treeAux d n) := by
  intro cs
  induction cs with
  | nil =>
    intro d d' hw hk ht _ hp hnc _ _ h
    simp [Dom.cloneKidsWith] at h; subst h
    exact ⟨hw, hk, ht, FrameX.refl _ _, hp, hnc, [], by simp, by simp, fun _ => rfl⟩
  | cons c cs ih =>
    intro d d' hw hk ht hid hp hnc hod hcs h
    simp only [Dom.cloneKidsWith, bind, Except.bind] at h
    cases h1 : cl d c with
    | error e => simp [h1] at h
    | ok r =>
      obtain ⟨d1, k⟩ := r
      simp only [h1] at h
      have dsp := hcl d c d1 k hw hk ht h1
      have sp := dsp.spec
      obtain ⟨hcn0, hcnd, hcont⟩ := hcs c (by simp)
      have hn0d : n0 ≤ d.size := Nat.le_trans hid0 (Nat.le_of_lt hid)
      have hclt : c < d.size := Nat.lt_of_lt_of_le hcn0 hn0d
      cases h2 : d1.appendRaw id k with
      | error e => simp [h2] at h
      | ok d2 =>
        simp only [h2] at h
        have hid1 : id < d1.size := Nat.lt_of_lt_of_le hid sp.frame.size
        have hp1 : d1.parentOf id = none := by rw [sp.frame.parent id hid]; exact hp
        have hne : id ≠ k := fun e => Nat.lt_irrefl _ (Nat.lt_of_lt_of_le (e ▸ hid) sp.fresh)
        have hanc : ¬ Anc d1 k id := fun ha => hne (anc_eq_of_parentless hp1 ha).symm
        obtain ⟨_, _, _, _, _, hpar2, hch2, hd2, hsz2, _⟩ := appendRaw_ok h2 hne
        have hw2 : WF d2 := sp.wf.appendRaw hanc h2
        have hcont1 : d1.isContainer id = true := by rw [isContainer_congr (sp.frame.data id hid)]; exact hcont
        have hk2 : Kinds d2 := sp.kinds.attach hpar2 hd2 hcont1 (not_doc_of_eraseTc sp.data hcnd)
        have ht2 : TcValid d2 := dsp.tcv.sameData hd2 hsz2
        have hf2 : FrameX d d2 (some id) := by
          refine ⟨by rw [hsz2]; exact sp.frame.size, ?_, ?_, ?_⟩
          · intro y hy
            rw [hpar2]
            have : y ≠ k := fun e => Nat.lt_irrefl _ (Nat.lt_of_lt_of_le (e ▸ hy) sp.fresh)
            simp [this]; exact sp.frame.parent y hy
          · intro y hy; rw [hd2]; exact sp.frame.data y hy
          · intro y hy hne'
            rw [hch2]
            have : y ≠ id := fun e => hne' (by rw [e])
            simp [this]; exact sp.frame.children y hy (by simp)
        have hid2 : id < d2.size := by rw [hsz2]; exact hid1
        have hp2 : d2.parentOf id = none := by rw [hpar2]; simp [hne, hp1]
        have hcs2 : ∀ c' ∈ cs, c' < n0 ∧ d2.dataOf c' ≠ some .document ∧ d2.isContainer id = true := by
          intro c' hc'
          obtain ⟨a1, a2, a3⟩ := hcs c' (by simp [hc'])
          have hc'lt : c' < d.size := Nat.lt_of_lt_of_le a1 hn0d
          exact ⟨a1, by rw [hf2.data c' hc'lt]; exact a2, by rw [isContainer_congr (hf2.data id hid)]; exact a3⟩
        -- the new part stays closed
        have hnc2 : NewClosed n0 d2 := by
          intro y hy
          by_cases hyd : y < d.size
          · have hdy : d2.dataOf y = d.dataOf y := hf2.data y hyd
            refine ⟨fun c' hc' => ?_, fun t h' => (hnc y hy).2 t (by rw [← tc_congr hdy]; exact h')⟩
            rw [hch2] at hc'
            by_cases hyi : y = id
            · simp only [hyi, if_true] at hc'
              rcases List.mem_append.1 hc' with hm | hm
              · rw [sp.frame.children id hid (by simp)] at hm
                exact (hnc id hid0).1 c' hm
              · simp only [List.mem_singleton] at hm
                rw [hm]; exact Nat.le_trans hn0d sp.fresh
            · simp only [hyi, if_false] at hc'
              rw [sp.frame.children y hyd (by simp)] at hc'
              exact (hnc y hy).1 c' hc'
          · have hyd' : d.size ≤ y := Nat.le_of_not_lt hyd
            have hyi : y ≠ id := fun e => hyd (e ▸ hid)
            refine ⟨fun c' hc' => ?_, fun t h' => ?_⟩
            · rw [hch2] at hc'
              simp only [hyi, if_false] at hc'
              exact Nat.le_trans hn0d ((dsp.closed y hyd').1 c' hc')
            · rw [tc_congr (hd2 y)] at h'
              exact Nat.le_trans hn0d ((dsp.closed y hyd').2 t h')
        have hag2 : ∀ y, y < n0 → d2.dataOf y = d.dataOf y ∧ d2.childrenOf y = d.childrenOf y := by
          intro y hy
          have hyd : y < d.size := Nat.lt_of_lt_of_le hy hn0d
          exact ⟨hf2.data y hyd, hf2.children y hyd (by
            intro e; cases e; exact Nat.lt_irrefl _ (Nat.lt_of_lt_of_le hy hid0))⟩
        have hod2 : OldDown n0 d2 := by
          intro y hy
          obtain ⟨e1, e2⟩ := hag2 y hy
          rw [e2, tc_congr e1]; exact hod y hy
        obtain ⟨hw', hk', ht', hf', hp', hnc', ks', hch', hks', hiso'⟩ :=
          ih d2 d' hw2 hk2 ht2 hid2 hp2 hnc2 hod2 hcs2 h
        refine ⟨hw', hk', ht', hf2.trans hf', hp', hnc', k :: ks', ?_, ?_, ?_⟩
        · rw [hch', hch2]; simp [sp.frame.children id hid (by simp)]
        · intro k' hk'm
          simp only [List.mem_cons] at hk'm
          rcases hk'm with e | hm
          · rw [e]; exact sp.fresh
          · exact Nat.le_trans (by rw [hsz2]; exact sp.frame.size) (hks' k' hm)
        · intro n
          simp only [List.map_cons]
          -- the subtree of the copy `k` lives in `[d.size, d1.size)` and is not touched any more
          have hk_tree : treeAux d' n k = treeAux d1 n k := by
            refine tree_agree (fun y => d.size ≤ y ∧ y < d1.size) ?_ ?_ n k ⟨sp.fresh, sp.valid⟩
            · intro y hy
              exact ⟨fun c' hc' => ⟨(dsp.closed y hy.1).1 c' hc', child_valid sp.wf hc'⟩,
                fun t h' => ⟨(dsp.closed y hy.1).2 t h', dsp.tcv y t h'⟩⟩
            · intro y hy
              have hyi : y ≠ id := fun e => Nat.lt_irrefl _ (Nat.lt_of_lt_of_le (e ▸ hid) hy.1)
              have hy2 : y < d2.size := by rw [hsz2]; exact hy.2
              refine ⟨by rw [hf'.data y hy2, hd2], ?_⟩
              rw [hf'.children y hy2 (by intro e; cases e; exact hyi rfl), hch2]
              simp [hyi]
          have hrest : cs.map (treeAux d2 n) = cs.map (treeAux d n) :=
            List.map_congr_left (fun c' hc' => tree_oldDown hod hag2 n c' (hcs c' (by simp [hc'])).1)
          rw [hk_tree, dsp.iso n, hiso' n, hrest]

/-- **the repaired `clone_with_subtree` makes a deep copy** -/
theorem cloneFixed_deep : ∀ (fuel : Nat) (d : Dom) (x : Id) (d' : Dom) (k : Id), WF d → Kinds d → TcValid d →
    Dom.cloneFixed d fuel x = .ok (d', k) → DeepSpec d d' x k := by
  intro fuel
  induction fuel with
  | zero => intro d x d' k _ _ _ h; simp [Dom.cloneFixed] at h
  | succ fuel ih =>
    intro d x d' k hw hk ht h
    have hspec := cloneFixed_spec (fuel + 1) d x d' k hw hk h
    simp only [Dom.cloneFixed, bind, Except.bind] at h
    cases hx : d.get x with
    | error e => simp [hx] at h
    | ok n =>
      have hn := get_ok.mp hx
      have hxlt := node?_lt hn
      simp only [hx] at h
      -- what remains to be done once the template contents (if any) are copied into `d1`
      have finish : ∀ (d1 : Dom) (data : NodeData), WF d1 → Kinds d1 → TcValid d1 → Frame d d1 →
          NewClosed d.size d1 →
          eraseTc data = eraseTc n.data →
          (∀ t, tcOfData data = some t → d.size ≤ t ∧ t < d1.size) →
          (∀ m, ((tcOfData data).map (treeAux d1 m)) =
            (d.templateContentsOf x).map (treeAux d m)) →
          ∀ d3,
          Dom.cloneKidsWith (fun d c => Dom.cloneFixed d fuel c) d1.size (d1.alloc data).1 n.children = .ok d3 →
          TcValid d3 ∧ NewClosed d.size d3 ∧ ∀ m, treeAux d3 m d1.size = treeAux d m x := by
        intro d1 data hw1 hk1 ht1 hf1 hnc1 hdat htcd htct d3 hl
        have hw2 := hw1.alloc data
        have hk2 := hk1.alloc data
        have ht2 : TcValid (d1.alloc data).1 := ht1.alloc (fun t h' => (htcd t h').2)
        have hf2 : Frame d (d1.alloc data).1 := hf1.trans (frame_alloc d1 data)
        have hidlt : d1.size < (d1.alloc data).1.size := by simp
        have hpid : (d1.alloc data).1.parentOf d1.size = none := by
          rw [parentOf_alloc]; exact parentOf_none_of_ge (Nat.le_refl _)
        have hdid : (d1.alloc data).1.dataOf d1.size = some data := by rw [dataOf_alloc]; simp
        have htcid : (d1.alloc data).1.templateContentsOf d1.size =
            tcOfData data := by
          rw [tc_eq, hdid]; rfl
        have hchid : (d1.alloc data).1.childrenOf d1.size = [] := by
          rw [childrenOf_alloc]; exact childrenOf_nil_of_ge (Nat.le_refl _)
        have hcontid : d.isContainer x = true → (d1.alloc data).1.isContainer d1.size = true := by
          intro hc
          have : (((d1.alloc data).1.dataOf d1.size).map eraseTc) = ((d.dataOf x).map eraseTc) := by
            rw [hdid, dataOf_of_node hn]; simp [hdat]
          rw [isContainer_of_eraseTc this]; exact hc
        have hcs : ∀ c ∈ n.children, c < d.size ∧ (d1.alloc data).1.dataOf c ≠ some .document ∧
            (d1.alloc data).1.isContainer d1.size = true := by
          intro c hc
          have hcx : c ∈ d.childrenOf x := by rw [childrenOf_of_node hn]; exact hc
          have hclt := child_valid hw hcx
          have hpar := (hw.links c x).mpr hcx
          exact ⟨hclt, by rw [hf2.data c hclt]; exact hk.childNotDoc c x hpar,
            hcontid (hk.parentContainer c x hpar)⟩
        have hnc2 : NewClosed d.size (d1.alloc data).1 := by
          intro y hy
          by_cases hyi : y = d1.size
          · subst hyi
            rw [hchid, htcid]
            exact ⟨fun c hc => (by cases hc), fun t h' => (htcd t h').1⟩
          · have hdy : (d1.alloc data).1.dataOf y = d1.dataOf y := by rw [dataOf_alloc]; simp [hyi]
            rw [childrenOf_alloc, tc_congr hdy]; exact hnc1 y hy
        have hod2 : OldDown d.size (d1.alloc data).1 := by
          intro y hy
          rw [hf2.children y hy (by simp), tc_congr (hf2.data y hy)]
          exact oldDown_self hw ht y hy
        obtain ⟨_, _, ht3, hf3, _, hnc3, ks, hch3, _, hiso3⟩ :=
          cloneKidsWith_deep (cl := fun d c => Dom.cloneFixed d fuel c)
            (fun d c d' k hw hk ht h => ih d c d' k hw hk ht h) (n0 := d.size) (id := d1.size) hf1.size
            n.children _ _ hw2 hk2 ht2 hidlt hpid hnc2 hod2 hcs hl
        refine ⟨ht3, hnc3, fun m => ?_⟩
        cases m with
        | zero => rfl
        | succ m =>
          simp only [treeAux]
          have hd3 : d3.dataOf d1.size = some data := by rw [hf3.data d1.size hidlt]; exact hdid
          have htc3 : d3.templateContentsOf d1.size =
              tcOfData data := by
            rw [tc_congr (hf3.data d1.size hidlt)]; exact htcid
          rw [hd3, htc3, hch3, hchid, dataOf_of_node hn, childrenOf_of_node hn]
          simp only [Option.map_some, hdat, List.nil_append]
          congr 1
          · rw [← htct m]
            cases htcv : tcOfData data with
            | none => rfl
            | some t =>
              simp only [Option.map_some]
              congr 1
              -- the copied template contents are older than the copy itself and stay untouched
              have hframe13 : Frame d1 d3 :=
                ((FrameX.weaken (frame_alloc d1 data) : FrameX d1 (d1.alloc data).1 (some d1.size)).trans
                  ⟨hf3.size, hf3.parent, hf3.data, hf3.children⟩).strengthen (Nat.le_refl _)
              exact tree_frame hframe13 hw1 ht1 m t (htcd t htcv).2
          · rw [hiso3 m]
            exact List.map_congr_left (fun c hc =>
              tree_frame hf2 hw ht m c (hcs c hc).1)
      have htcx : d.templateContentsOf x = tcOfData n.data := by
        rw [tc_eq, dataOf_of_node hn]; rfl
      cases hdata : n.data with
      | element name attrs tc ip =>
        cases tc with
        | none =>
          simp only [hdata, pure, Except.pure] at h
          split at h
          · cases h
          · rename_i d3 hl
            rw [alloc_id] at hl h
            obtain ⟨h1, h2⟩ := Prod.mk.inj (Except.ok.inj h)
            subst h1; subst h2
            obtain ⟨a, b, c⟩ := finish d _ hw hk ht (FrameX.refl _ _) (newClosed_of_empty d) (by rw [hdata])
              (fun t h' => by simp [tcOfData] at h') (fun m => by rw [htcx, hdata]) _ hl
            exact ⟨hspec, a, b, c⟩
        | some tc =>
          simp only [hdata, pure, Except.pure] at h
          cases htc : Dom.cloneFixed d fuel tc with
          | error e => simp [htc] at h
          | ok r =>
            obtain ⟨d1, tc'⟩ := r
            simp only [htc] at h
            have dsp := ih d tc d1 tc' hw hk ht htc
            have sp := dsp.spec
            split at h
            · cases h
            · rename_i d3 hl
              rw [alloc_id] at hl h
              obtain ⟨h1, h2⟩ := Prod.mk.inj (Except.ok.inj h)
              subst h1; subst h2
              obtain ⟨a, b, c⟩ := finish d1 _ sp.wf sp.kinds dsp.tcv sp.frame dsp.closed
                (by rw [hdata]; simp [eraseTc])
                (fun t h' => by
                  simp only [tcOfData, Option.some.injEq] at h'; subst h'; exact ⟨sp.fresh, sp.valid⟩)
                (fun m => by rw [htcx, hdata]; simp only [tcOfData, Option.map_some]; rw [dsp.iso m]) _ hl
              exact ⟨hspec, a, b, c⟩
      | document | doctype _ _ _ | text _ | comment _ | pi _ _ =>
        simp only [hdata, pure, Except.pure] at h
        split at h
        · cases h
        · rename_i d3 hl
          rw [alloc_id] at hl h
          obtain ⟨h1, h2⟩ := Prod.mk.inj (Except.ok.inj h)
          subst h1; subst h2
          obtain ⟨a, b, c⟩ := finish d _ hw hk ht (FrameX.refl _ _) (newClosed_of_empty d) (by rw [hdata])
            (fun t h' => by simp [tcOfData] at h') (fun m => by rw [htcx, hdata]) _ hl
          exact ⟨hspec, a, b, c⟩

/-! ### "clone an option into a selectedcontent", deep version -/

/-- step 2: the list of copies -/
theorem cloneListWith_deep {cl : Dom → Id → Except String (Dom × Id)}
    (hcl : ∀ d c d' k, WF d → Kinds d → TcValid d → cl d c = .ok (d', k) → DeepSpec d d' c k) :
    ∀ (cs : List Id) (d d' : Dom) (ks : List Id), WF d → Kinds d → TcValid d →
      (∀ c ∈ cs, c < d.size) → Dom.cloneListWith cl d cs = .ok (d', ks) →
      WF d' ∧ Kinds d' ∧ TcValid d' ∧ Frame d d' ∧ NewClosed d.size d' ∧
      (∀ k ∈ ks, d.size ≤ k ∧ k < d'.size) ∧
      ∀ n, ks.map (treeAux d' n) = cs.map (treeAux d n) := by
  intro cs
  induction cs with
  | nil =>
    intro d d' ks hw hk ht _ h
    simp [Dom.cloneListWith] at h
    obtain ⟨h1, h2⟩ := h; subst h1; subst h2
    exact ⟨hw, hk, ht, FrameX.refl _ _, newClosed_of_empty d, by simp, fun _ => rfl⟩
  | cons c cs ih =>
    intro d d' ks hw hk ht hcs h
    simp only [Dom.cloneListWith, bind, Except.bind] at h
    cases h1 : cl d c with
    | error e => simp [h1] at h
    | ok r =>
      obtain ⟨d1, k⟩ := r
      simp only [h1] at h
      have dsp := hcl d c d1 k hw hk ht h1
      have sp := dsp.spec
      cases h2 : Dom.cloneListWith cl d1 cs with
      | error e => simp [h2] at h
      | ok r2 =>
        obtain ⟨d2, ks'⟩ := r2
        simp only [h2] at h
        obtain ⟨e1, e2⟩ := Prod.mk.inj (Except.ok.inj h)
        subst e1; subst e2
        have hcs1 : ∀ c' ∈ cs, c' < d1.size := fun c' hc' =>
          Nat.lt_of_lt_of_le (hcs c' (by simp [hc'])) sp.frame.size
        obtain ⟨hw2, hk2, ht2, hf2, hnc2, hks, hiso⟩ := ih d1 d2 ks' sp.wf sp.kinds dsp.tcv hcs1 h2
        refine ⟨hw2, hk2, ht2, sp.frame.trans hf2, ?_, ?_, ?_⟩
        · intro y hy
          by_cases hy1 : y < d1.size
          · rw [hf2.children y hy1 (by simp), tc_congr (hf2.data y hy1)]
            exact dsp.closed y hy
          · have hy1' : d1.size ≤ y := Nat.le_of_not_lt hy1
            exact ⟨fun c' hc' => Nat.le_trans sp.frame.size ((hnc2 y hy1').1 c' hc'),
              fun t h' => Nat.le_trans sp.frame.size ((hnc2 y hy1').2 t h')⟩
        · intro k' hk'
          simp only [List.mem_cons] at hk'
          rcases hk' with e | hk'
          · subst e; exact ⟨sp.fresh, Nat.lt_of_lt_of_le sp.valid hf2.size⟩
          · exact ⟨Nat.le_trans sp.frame.size (hks k' hk').1, (hks k' hk').2⟩
        · intro n
          simp only [List.map_cons]
          rw [tree_frame hf2 sp.wf dsp.tcv n k sp.valid, dsp.iso n, hiso n]
          congr 1
          exact List.map_congr_left (fun c' hc' => tree_frame sp.frame hw ht n c' (hcs c' (by simp [hc'])))

/-- "replace all", second half: what it does to child lists and data (no well-formedness needed) -/
theorem attachAll_effects {p : Id} : ∀ (ks : List Id) (d d' : Dom), (∀ k ∈ ks, p ≠ k) →
    d.attachAll p ks = .ok d' →
    d'.childrenOf p = d.childrenOf p ++ ks ∧ (∀ x, x ≠ p → d'.childrenOf x = d.childrenOf x) ∧
    (∀ x, d'.dataOf x = d.dataOf x) ∧ d'.size = d.size := by
  intro ks
  induction ks with
  | nil =>
    intro d d' _ h
    simp [Dom.attachAll] at h; subst h
    exact ⟨by simp, fun _ _ => rfl, fun _ => rfl, rfl⟩
  | cons k ks ih =>
    intro d d' hne h
    simp only [Dom.attachAll, bind, Except.bind] at h
    cases h1 : d.appendRaw p k with
    | error e => simp [h1] at h
    | ok d1 =>
      simp only [h1] at h
      obtain ⟨_, _, _, _, _, _, hc1, hd1, hs1, _⟩ := appendRaw_ok h1 (hne k (by simp))
      obtain ⟨r1, r2, r3, r4⟩ := ih d1 d' (fun k' hk' => hne k' (by simp [hk'])) h
      refine ⟨?_, ?_, ?_, by rw [r4, hs1]⟩
      · rw [r1, hc1]; simp
      · intro x hx; rw [r2 x hx, hc1]; simp [hx]
      · intro x; rw [r3, hd1]

/-- **"clone an option into a selectedcontent" (repaired) makes deep copies**: the children of the
selectedcontent are, in order, roots of subtrees isomorphic to the subtrees of the option's children
as they were before the call; all nodes of the copies are fresh and link only to fresh nodes
(nothing is shared with the originals, template contents included); template links stay valid -/
theorem cloneOptionInto_fixed_deep {d d' : Dom} {o sc : Id} (hw : WF d) (hk : Kinds d) (ht : TcValid d)
    (hsc : d.isContainer sc = true) (h : d.cloneOptionInto .fixed o sc = .ok d') :
    TcValid d' ∧ NewClosed d.size d' ∧
    ∀ n, (d'.childrenOf sc).map (treeAux d' n) = (d.childrenOf o).map (treeAux d n) := by
  unfold Dom.cloneOptionInto at h
  simp only [bind, Except.bind] at h
  cases ho : d.get o with
  | error e => simp [ho] at h
  | ok on =>
    have hon := get_ok.mp ho
    simp only [ho] at h
    have hsclt := lt_of_isContainer hsc
    cases h1 : Dom.cloneListWith (fun d c => Dom.cloneFixed d (d.size + 1) c) d on.children with
    | error e => simp [h1] at h
    | ok r =>
      obtain ⟨d1, ks⟩ := r
      simp only [h1] at h
      have hoch : d.childrenOf o = on.children := childrenOf_of_node hon
      obtain ⟨hw1, hk1, ht1, hf1, hnc1, hks, hiso⟩ := cloneListWith_deep
        (cl := fun d c => Dom.cloneFixed d (d.size + 1) c)
        (fun d c d' k hw hk ht h => cloneFixed_deep _ d c d' k hw hk ht h) on.children d d1 ks hw hk ht
        (fun c hc => child_valid hw (by rw [hoch]; exact hc)) h1
      cases h2 : d1.detachChildren sc with
      | error e => simp [h2] at h
      | ok d2 =>
        simp only [h2] at h
        obtain ⟨_, _, hc2, hd2, hs2⟩ := detachChildren_ok h2
        have hne : ∀ k ∈ ks, sc ≠ k := fun k hkm e =>
          Nat.lt_irrefl _ (Nat.lt_of_lt_of_le (e ▸ hsclt) (hks k hkm).1)
        obtain ⟨r1, r2, r3, r4⟩ := attachAll_effects ks d2 d' hne h
        have hch' : d'.childrenOf sc = ks := by rw [r1, hc2]; simp
        have hdata : ∀ x, d'.dataOf x = d1.dataOf x := fun x => by rw [r3, hd2]
        have hchild : ∀ x, x ≠ sc → d'.childrenOf x = d1.childrenOf x := fun x hx => by
          rw [r2 x hx, hc2]; simp [hx]
        refine ⟨ht1.sameData hdata (by rw [r4, hs2]), ?_, ?_⟩
        · intro y hy
          have hysc : y ≠ sc := fun e => Nat.lt_irrefl _ (Nat.lt_of_lt_of_le (e ▸ hsclt) hy)
          rw [hchild y hysc, tc_congr (hdata y)]
          exact hnc1 y hy
        · intro n
          rw [hch', hoch, ← hiso n]
          refine List.map_congr_left (fun k hkm => ?_)
          refine tree_agree (fun y => d.size ≤ y ∧ y < d1.size) ?_ ?_ n k (hks k hkm)
          · intro y hy
            exact ⟨fun c' hc' => ⟨(hnc1 y hy.1).1 c' hc', child_valid hw1 hc'⟩,
              fun t h' => ⟨(hnc1 y hy.1).2 t h', ht1 y t h'⟩⟩
          · intro y hy
            have hysc : y ≠ sc := fun e => Nat.lt_irrefl _ (Nat.lt_of_lt_of_le (e ▸ hsclt) hy.1)
            exact ⟨hdata y, hchild y hysc⟩

theorem tcValid_new : TcValid Dom.new := by
  intro x t h
  have hx := tc_lt h
  have : x = 0 := by simp [Dom.new, Dom.size] at hx; omega
  subst this
  simp [Dom.templateContentsOf, Dom.dataOf, Dom.new] at h

/-! ### `TcValid` is an invariant of the sink -/

theorem TcValid.of_data {d d' : Dom} (ht : TcValid d) (hs : d.size ≤ d'.size)
    (hd : ∀ x, d'.dataOf x = d.dataOf x ∨
      ∃ v, d'.dataOf x = some v ∧ ∀ t, tcOfData v = some t → t < d'.size) : TcValid d' := by
  intro x t h
  rcases hd x with e | ⟨v, e, hv⟩
  · rw [tc_congr e] at h; exact Nat.lt_of_lt_of_le (ht x t h) hs
  · rw [tc_eq, e] at h; exact hv t h

/-- `fn append` touches no node data (whatever its arguments) -/
theorem appendRaw_data {d d' : Dom} {p c : Id} (h : d.appendRaw p c = .ok d') :
    (∀ x, d'.dataOf x = d.dataOf x) ∧ d'.size = d.size := by
  unfold Dom.appendRaw at h
  simp only [bind, Except.bind] at h
  cases hc : d.get c with
  | error e => simp [hc] at h
  | ok cn =>
    have hcn := get_ok.mp hc
    simp only [hc] at h
    by_cases hpar : cn.parent.isSome = true
    · simp [hpar, throw, throwThe, MonadExceptOf.throw] at h
    · simp only [hpar] at h
      cases hp : (d.setNode c { data := cn.data, parent := some p, children := cn.children }).get p with
      | error e => simp [hp] at h
      | ok pn =>
        have hpn := get_ok.mp hp
        simp [hp] at h
        subst h
        refine ⟨fun x => ?_, by simp⟩
        rw [dataOf_setNode hpn, dataOf_setNode hcn]
        by_cases hxp : x = p
        · subst hxp
          simp only [if_true]
          rw [← dataOf_of_node hpn, dataOf_setNode hcn]
          by_cases hxc : x = c
          · subst hxc; simp [dataOf_of_node hcn]
          · simp [hxc]
        · simp only [hxp, if_false]
          by_cases hxc : x = c
          · subst hxc; simp [dataOf_of_node hcn]
          · simp [hxc]

theorem TcValid.text_change {d d' : Dom} (ht : TcValid d) {hl : Id} {v : Str}
    (hd : ∀ x, d'.dataOf x = if x = hl then some (.text v) else d.dataOf x) (hs : d'.size = d.size) :
    TcValid d' := by
  refine ht.of_data (Nat.le_of_eq hs.symm) (fun x => ?_)
  rw [hd]
  by_cases hx : x = hl
  · exact Or.inr ⟨.text v, by simp [hx], fun t h => by simp [tcOfData] at h⟩
  · exact Or.inl (by simp [hx])

theorem TcValid.fresh_node {d d' : Dom} (ht : TcValid d) {data : NodeData} (hnt : tcOfData data = none)
    (hd : ∀ x, d'.dataOf x = if x = d.size then some data else d.dataOf x) (hs : d'.size = d.size + 1) :
    TcValid d' := by
  refine ht.of_data (by omega) (fun x => ?_)
  rw [hd]
  by_cases hx : x = d.size
  · exact Or.inr ⟨data, by simp [hx], fun t h => by rw [hnt] at h; cases h⟩
  · exact Or.inl (by simp [hx])

theorem TcValid.removeFromParent {d d' : Dom} (ht : TcValid d) {t : Id} (h : d.removeFromParent t = .ok d') :
    TcValid d' := by
  rcases removeFromParent_ok h with ⟨_, he⟩ | ⟨p, i, _, _, _, _, hd, hs, _⟩
  · subst he; exact ht
  · exact ht.sameData hd hs

theorem TcValid.insertAtIndex {d d' : Dom} (ht : TcValid d) {P c : Id} {i : Nat}
    (h : d.insertAtIndex P i c = .ok d') : TcValid d' := by
  obtain ⟨d1, hr, _, _, _, _, _, hd, hs, _⟩ := insertAtIndex_ok h
  exact (ht.removeFromParent hr).sameData hd hs

theorem TcValid.append {d d' : Dom} (ht : TcValid d) {p : Id} {ch : NodeOrText} (h : d.append p ch = .ok d') :
    TcValid d' := by
  cases ch with
  | node c =>
    rw [append_node_eq] at h
    obtain ⟨hd, hs⟩ := appendRaw_data h
    exact ht.sameData hd hs
  | text s =>
    obtain ⟨hp, hcase⟩ := append_text_ok h
    rcases hcase with ⟨hl, old, _, _, _, hd, hs⟩ | ⟨_, ha⟩
    · exact ht.text_change hd hs
    · obtain ⟨_, _, hd, hs, _⟩ := allocAppend_ok hp ha
      exact ht.fresh_node rfl hd hs

theorem TcValid.appendBeforeSibling {d d' : Dom} (ht : TcValid d) {s : Id} {ch : NodeOrText}
    (h : d.appendBeforeSibling s ch = .ok d') : TcValid d' := by
  obtain ⟨P, i, _, _, _, hm⟩ := appendBeforeSibling_ok h
  cases ch with
  | node c => exact ht.insertAtIndex hm
  | text t =>
    rcases hm with ⟨prev, old, _, _, _, _, hd, hs⟩ | ⟨_, hi⟩
    · exact ht.text_change hd hs
    · obtain ⟨_, _, _, hd, hs, _⟩ := insertAtIndex_fresh_ok hi
      exact ht.fresh_node rfl hd hs

theorem TcValid.appendBeforeSiblingV {b : Dom.BeforeSiblingVariant} {d d' : Dom} (ht : TcValid d) {s : Id}
    {ch : NodeOrText} (h : Dom.appendBeforeSiblingV b d s ch = .ok d') : TcValid d' := by
  unfold Dom.appendBeforeSiblingV at h
  simp only [bind, Except.bind] at h
  cases hp : Dom.preDetach b d ch with
  | error e => simp [hp] at h
  | ok d1 =>
    simp only [hp] at h
    have ht1 : TcValid d1 := by
      unfold Dom.preDetach at hp
      cases ch with
      | text t => simp at hp; subst hp; exact ht
      | node c =>
        cases b with
        | asCode => simp at hp; subst hp; exact ht
        | detachFirst => exact ht.removeFromParent hp
    exact ht1.appendBeforeSibling h

theorem TcValid.createElement {d : Dom} (ht : TcValid d) (name : QualName) (attrs : List Attr)
    (flags : ElementFlags) : TcValid (d.createElement name attrs flags).1 := by
  unfold Dom.createElement
  split
  · dsimp only
    refine (ht.alloc (data := .document) (fun t h => by simp [tcOfData] at h)).alloc (fun t h => ?_)
    simp only [tcOfData, Option.some.injEq] at h
    subst h
    simp [alloc_id]
  · exact ht.alloc (fun t h => by simp [tcOfData] at h)

/-- the mirror call keeps template links valid -/
theorem TcValid.maybeCloneOption_fixed {d d' : Dom} {o : Id} (hw : WF d) (hk : Kinds d) (ht : TcValid d)
    (h : d.maybeCloneOption .fixed o = .ok d') : TcValid d' := by
  unfold Dom.maybeCloneOption at h
  simp only [bind, Except.bind] at h
  cases htg : d.cloneTarget .fixed o with
  | error e => simp [htg] at h
  | ok r =>
    simp only [htg] at h
    cases r with
    | none => simp at h; subst h; exact ht
    | some sc =>
      simp only at h
      exact (cloneOptionInto_fixed_deep hw hk ht (cloneTarget_fixed_element htg) h).1

/-- **every sink call keeps template links valid** (no contract needed; `WF`/`Kinds` are used by the
mirror call only) -/
theorem TcValid.applyV {v : Dom.CloneVariant} {b : Dom.BeforeSiblingVariant} {d d' : Dom} {op : SinkOp}
    {out : Output} (hw : WF d) (hk : Kinds d) (ht : TcValid d) (h : d.applyV v b op = .ok (d', out)) :
    TcValid d' := by
  cases op with
  | parseError msg => simp [Dom.applyV] at h; obtain ⟨h, _⟩ := h; subst h; exact ht
  | getDocument => simp [Dom.applyV] at h; obtain ⟨h, _⟩ := h; subst h; exact ht
  | elemName t =>
    simp only [Dom.applyV, bind, Except.bind] at h
    cases he : d.elemName t with
    | error e => simp [he] at h
    | ok v => simp [he] at h; obtain ⟨h, _⟩ := h; subst h; exact ht
  | createElement name attrs flags =>
    simp [Dom.applyV] at h; obtain ⟨h, _⟩ := h; subst h
    exact ht.createElement name attrs flags
  | createComment text =>
    simp [Dom.applyV, Dom.createComment] at h; obtain ⟨h, _⟩ := h; subst h
    exact ht.alloc (fun t h => by simp [tcOfData] at h)
  | createPi t dd =>
    simp [Dom.applyV, Dom.createPi] at h; obtain ⟨h, _⟩ := h; subst h
    exact ht.alloc (fun t h => by simp [tcOfData] at h)
  | append p c =>
    simp only [Dom.applyV, bind, Except.bind] at h
    cases ha : d.append p c with
    | error e => simp [ha] at h
    | ok d1 => simp [ha] at h; obtain ⟨h, _⟩ := h; subst h; exact ht.append ha
  | appendBasedOnParentNode e p c =>
    simp only [Dom.applyV, bind, Except.bind] at h
    cases ha : d.appendBasedOnParentNodeV b e p c with
    | error err => simp [ha] at h
    | ok d1 =>
      simp [ha] at h; obtain ⟨h, _⟩ := h; subst h
      unfold Dom.appendBasedOnParentNodeV at ha
      simp only [bind, Except.bind] at ha
      cases hg : d.get e with
      | error err => simp [hg] at ha
      | ok en =>
        simp only [hg] at ha
        split at ha
        · exact ht.appendBeforeSiblingV ha
        · exact ht.append ha
  | appendDoctypeToDocument n p s =>
    simp only [Dom.applyV, bind, Except.bind] at h
    cases ha : d.appendDoctypeToDocument n p s with
    | error err => simp [ha] at h
    | ok d1 =>
      simp [ha] at h; obtain ⟨h, _⟩ := h; subst h
      unfold Dom.appendDoctypeToDocument at ha
      obtain ⟨hd, hs⟩ := appendRaw_data ha
      exact (ht.alloc (data := .doctype n p s) (fun t h => by simp [tcOfData] at h)).sameData hd hs
  | markScriptAlreadyStarted n => simp [Dom.applyV] at h; obtain ⟨h, _⟩ := h; subst h; exact ht
  | pop n => simp [Dom.applyV] at h; obtain ⟨h, _⟩ := h; subst h; exact ht
  | getTemplateContents t =>
    simp only [Dom.applyV, bind, Except.bind] at h
    cases he : d.getTemplateContents t with
    | error e => simp [he] at h
    | ok v => simp [he] at h; obtain ⟨h, _⟩ := h; subst h; exact ht
  | sameNode x y => simp [Dom.applyV] at h; obtain ⟨h, _⟩ := h; subst h; exact ht
  | setQuirksMode m => simp [Dom.applyV] at h; obtain ⟨h, _⟩ := h; subst h; exact ht
  | appendBeforeSibling s c =>
    simp only [Dom.applyV, bind, Except.bind] at h
    cases ha : Dom.appendBeforeSiblingV b d s c with
    | error err => simp [ha] at h
    | ok d1 => simp [ha] at h; obtain ⟨h, _⟩ := h; subst h; exact ht.appendBeforeSiblingV ha
  | addAttrsIfMissing t a =>
    simp only [Dom.applyV, bind, Except.bind] at h
    cases ha : d.addAttrsIfMissing t a with
    | error err => simp [ha] at h
    | ok d1 =>
      simp [ha] at h; obtain ⟨h, _⟩ := h; subst h
      obtain ⟨name, existing, tc, ip, hdt, _, hd, hs⟩ := addAttrsIfMissing_ok ha
      refine ht.of_data (Nat.le_of_eq hs.symm) (fun x => ?_)
      rw [hd]
      by_cases hx : x = t
      · refine Or.inr ⟨.element name (existing ++ Dom.missingAttrs existing a) tc ip, by simp [hx], fun t' h' => ?_⟩
        rw [hs]
        exact ht t t' (by rw [tc_eq, hdt]; exact h')
      · exact Or.inl (by simp [hx])
  | associateWithForm _ _ _ _ => simp [Dom.applyV] at h; obtain ⟨h, _⟩ := h; subst h; exact ht
  | removeFromParent t =>
    simp only [Dom.applyV, bind, Except.bind] at h
    cases ha : d.removeFromParent t with
    | error err => simp [ha] at h
    | ok d1 => simp [ha] at h; obtain ⟨h, _⟩ := h; subst h; exact ht.removeFromParent ha
  | reparentChildren n np =>
    simp only [Dom.applyV, bind, Except.bind] at h
    cases ha : d.reparentChildren n np with
    | error err => simp [ha] at h
    | ok d1 =>
      simp [ha] at h; obtain ⟨h, _⟩ := h; subst h
      obtain ⟨_, _, _, _, _, hd, hs, _⟩ := reparentChildren_ok ha
      exact ht.sameData hd hs
  | isMathmlAnnotationXmlIntegrationPoint t =>
    simp only [Dom.applyV, bind, Except.bind] at h
    cases he : d.isMathmlAnnotationXmlIntegrationPoint t with
    | error e => simp [he] at h
    | ok v => simp [he] at h; obtain ⟨h, _⟩ := h; subst h; exact ht
  | setCurrentLine _ => simp [Dom.applyV] at h; obtain ⟨h, _⟩ := h; subst h; exact ht
  | allowDeclarativeShadowRoots _ => simp [Dom.applyV] at h; obtain ⟨h, _⟩ := h; subst h; exact ht
  | attachDeclarativeShadow _ _ _ => simp [Dom.applyV] at h; obtain ⟨h, _⟩ := h; subst h; exact ht
  | maybeCloneAnOptionIntoSelectedcontent o =>
    simp only [Dom.applyV, bind, Except.bind] at h
    cases ha : d.maybeCloneOption v o with
    | error err => simp [ha] at h
    | ok d1 =>
      simp [ha] at h; obtain ⟨h, _⟩ := h; subst h
      cases v with
      | asCode => rw [maybeCloneOption_asCode_eq ha]; exact ht
      | fixed => exact ht.maybeCloneOption_fixed hw hk ha

end H5V.Lemmas.Dom
