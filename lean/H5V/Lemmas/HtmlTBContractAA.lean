import H5V.Lemmas.HtmlTBContractAA1
import H5V.Lemmas.HtmlTBContractQuiet
/-!
# TreeSink contract for the HTML tree builder, part 6b: the adoption agency

Every sink call of `adoption_agency` / `handle_misnested_a_tags` is inside the `TreeSink` contract, and
the stack-order invariant `SAnc` (a later stack entry is never an ancestor-or-self of an earlier one)
holds again afterwards: `cps_adoptionAgency`, `cps_handleMisnestedATags`.
-/
namespace H5V.Lemmas.TBC
open H5V.Model.HtmlTB
open H5V.Model.Dom (Id QualName Attr NodeOrText SinkOp Output ElementFlags QuirksMode Dom NodeData Node Contract)
open H5V.Lemmas.Dom
open H5V.Props.C20 (Inv Run)
open H5V.Lemmas.TBSafe (IsEl nm sigOf Ext apply_ext tmplName fmtNames nm_ext sigOf_ext IsEl.ext sigOf_lt
  namedP)

variable {d0 : Dom}

/-- the postcondition of this file: base invariant, stack-order invariant, elements stay elements -/
abbrev APost (d0 : Dom) (s s' : State) : Prop := CB d0 s' ∧ SAnc s'.dom s'.openElems ∧ Ext s.dom s'.dom

theorem apost_of_q2 {s s' : State} (hcb : CB d0 s) (hsa : SAnc s.dom s.openElems) (hq : Q2 d0 s s') :
    APost d0 s s' :=
  ⟨hq.cb, hsa.grow hcb.d.inv.wf hcb.h.lt hq.g, hq.ext⟩

theorem apost_of_cps {α : Type} {m : M α} {R : α → List Id} (h : CPS d0 [] m R) {s : State} (hcb : CB d0 s)
    (hsa : SAnc s.dom s.openElems) : SatC m s (fun _ s' => APost d0 s s') := by
  refine (h s hcb hsa (CtxOk.nil s)).mono ?_
  rintro a s' ⟨h1, h2, h3, _⟩
  exact ⟨h1, h2, h3⟩


theorem SatC.bind2 {α β γ : Type} {m1 : M α} {m2 : α → M β} {f : β → M γ} {s : State} {Q : β → State → Prop}
    {R : γ → State → Prop} (h : SatC (m1 >>= m2) s Q) (hf : ∀ b s', Q b s' → SatC (f b) s' R) :
    SatC (m1 >>= fun a => m2 a >>= f) s R := by
  have := h.bind hf
  rw [bind_assoc] at this
  exact this

/-- between step 17 and step 19: the clone `new` hangs below the furthest block `fb` and is not on
the stack `l` yet -/
structure Mid (d0 : Dom) (e0 : Dom) (x fb new : Id) (l : List Id) (s : State) : Prop where
  cb : CB d0 s
  sa : SAnc s.dom s.openElems
  stack : s.openElems = l
  par : s.dom.parentOf new = some fb
  ext : Ext e0 s.dom
  xel : IsEl s.dom x
  fbel : IsEl s.dom fb
  newel : IsEl s.dom new
  newtc : TcDoc s.dom new

theorem Mid.q2 {e0 : Dom} {x fb new : Id} {l : List Id} {s s' : State} (h : Mid d0 e0 x fb new l s)
    (hq : Q2 d0 s s') : Mid d0 e0 x fb new l s' where
  cb := hq.cb
  sa := h.sa.grow h.cb.d.inv.wf h.cb.h.lt hq.g
  stack := by rw [hq.openElems]; exact h.stack
  par := by rw [hq.g.oldPar new (lt_of_isEl h.newel)]; exact h.par
  ext := h.ext.trans hq.ext
  xel := h.xel.ext hq.ext
  fbel := h.fbel.ext hq.ext
  newel := h.newel.ext hq.ext
  newtc := h.newtc.ext hq.ext hq.g.kext h.newel

theorem Mid.withAF {e0 : Dom} {x fb new : Id} {l : List Id} {s : State} (h : Mid d0 e0 x fb new l s)
    (af' : List FormatEntry)
    (haf : ∀ y t, FormatEntry.element y t ∈ af' → FormatEntry.element y t ∈ s.activeFormatting ∨
      (IsEl s.dom y ∧ nm s.dom y = ⟨nsHtml, t.name⟩ ∧ isOneOf t.name fmtNames = true ∧ AttrsOk t.attrs)) :
    Mid d0 e0 x fb new l { s with activeFormatting := af' } :=
  ⟨cb_updAF h.cb af' haf, h.sa, h.stack, h.par, h.ext, h.xel, h.fbel, h.newel, h.newtc⟩

theorem Mid.finish {e0 : Dom} {x fb new : Id} {l : List Id} {s : State} (h : Mid d0 e0 x fb new l s)
    (hn : new ∉ l) :
    SatC (do
      removeFromStack x
      let __do_lift ← getS
      let __do_lift ← positionSameNode fb __do_lift.openElems 0
      match __do_lift with
        | none => panicAt "fb-missing" "mod.rs:916" "furthest block missing from open element stack"
        | some nfbi => do
          modS fun s => { s with openElems := s.openElems.insertIdx (nfbi + 1) new }
          pure false) s (fun _ s' => CB d0 s' ∧ SAnc s'.dom s'.openElems ∧ Ext e0 s'.dom) := by
  refine (satc_aaStep19 h.cb h.sa h.xel h.fbel h.newel h.newtc (by rw [h.stack]; exact hn) h.par).mono ?_
  rintro _ s' ⟨h1, h2, h3⟩
  exact ⟨h1, h2, h.ext.trans h3⟩

theorem satc_aaOuterStep {subject : Str} {s : State} (hcb : CB d0 s) (hsa : SAnc s.dom s.openElems)
    (_hsub : isOneOf subject fmtNames = true) :
    SatC (aaOuterStep subject) s (fun _ s' => APost d0 s s') := by
  unfold aaOuterStep
  dsimp only
  refine satc_getS_bind ?_
  split
  · refine (apost_of_cps (cp_toCPS cp_processEndTagInBody) hcb hsa).bind ?_
    intro _ s1 h1
    exact satc_pure h1
  · rename_i fmtElemIndex fmtElem fmtElemTag hfind
    have hname : fmtElemTag.name = subject := by have := List.find?_some hfind; simpa using this
    have hent := TBSafe.mem_afEndToMarker (List.mem_of_find?_eq_some hfind)
    obtain ⟨hfel, hfnm, htfmt, hattrs⟩ := hcb.h.af fmtElem fmtElemTag (List.mem_of_getElem? hent)
    refine (satcv_rposition (P := fun n => n == fmtElem) hcb
      (fun x hx => answersC_sameNode_right hfel (hcb.h.open_el x hx))).bind ?_
    rintro r s1 ⟨rfl, hq1⟩
    rcases TBSafe.rposL_spec (P := fun n => n == fmtElem) s.openElems with ⟨h1, _⟩ | ⟨pre, x, post, heq, h1, h2, h3⟩
    · rw [h1]
      dsimp only
      refine (satcv_parseError hq1.cb).bind ?_
      intro _ s2 hq2
      have hq := hq1.trans hq2
      refine (satc_afRemove).bind ?_
      rintro _ s3 rfl
      obtain ⟨a1, a2, a3⟩ := apost_of_q2 hcb hsa hq
      exact satc_pure ⟨cb_afErase a1 _, a2, a3⟩
    · rw [h1]
      dsimp only
      have hx : x = fmtElem := by simpa using h2
      subst hx
      have hfel1 : IsEl s1.dom x := hfel.ext hq1.ext
      have hopen1 : s1.openElems = pre ++ x :: post := by rw [hq1.openElems]; exact heq
      refine (satcv_inScope (scope := defaultScope) (P := fun n => n == x) hq1.cb
        (fun y hy => answersC_sameNode_right hfel1 (hq1.cb.h.open_el y hy))).bind ?_
      rintro b s2 ⟨rfl, hq2⟩
      have hq12 := hq1.trans hq2
      cases hsc : TBSafe.inScopeP s1.dom defaultScope (fun n => n == x) s1.openElems.reverse with
      | false =>
        refine satc_ite (fun _ => ?_) (fun hn => absurd rfl hn)
        refine (satcv_parseError hq2.cb).bind ?_
        intro _ s3 hq3
        exact satc_pure (apost_of_q2 hcb hsa (hq12.trans hq3))
      | true =>
        refine satc_ite (fun h => absurd h (by decide)) (fun _ => ?_)
        obtain ⟨pre', x', post', hts⟩ := TBSafe.inScopeP_split hsc
        obtain ⟨hpre', hx', hpost'⟩ := split_last_unique (P := fun n => n == x) (hopen1.symm.trans hts.eq) h2 hts.px
          h3 (fun y hy => (hts.above y hy).1)
        subst hpre' hx' hpost'
        have habove : ∀ y ∈ post, defaultScope (nm s1.dom y) = false := fun y hy => (hts.above y hy).2
        refine satcv_currentNode.bind ?_
        rintro cur s2' ⟨rfl, hcur⟩
        have hcurel : IsEl s2'.dom cur := hq2.cb.h.open_el cur (List.mem_of_getLast? hcur)
        refine (satcv_sameNode hq2.cb hcurel (hfel1.ext hq2.ext)).bind ?_
        rintro b3 s3 ⟨-, hq3⟩
        refine satc_if_pre hq3.cb (satcv_parseError hq3.cb) ?_
        intro s4 hq4
        have hq : Q2 d0 s s4 := (hq12.trans hq3).trans hq4
        have hcb4 := hq4.cb
        refine satc_getS_bind ?_
        have hopen4 : s4.openElems = pre ++ x :: post := by rw [hq.openElems]; exact heq
        have hdrop : List.drop pre.length s4.openElems = x :: post := by rw [hopen4]; simp
        rw [hdrop]
        have hall4 : ∀ y ∈ x :: post, IsEl s4.dom y :=
          fun y hy => hcb4.h.open_el y (by rw [hopen4]; exact List.mem_append_right _ hy)
        refine (satcv_findFurthestBlock _ _ s4 hcb4 hall4).bind ?_
        rintro r s5 ⟨rfl, hq5⟩
        have hq05 : Q2 d0 s s5 := hq.trans hq5
        have hcb5 := hq5.cb
        have hsa5 : SAnc s5.dom s5.openElems := (apost_of_q2 hcb hsa hq05).2.1
        have hopen5 : s5.openElems = pre ++ x :: post := by rw [hq5.openElems]; exact hopen4
        cases hffb : TBSafe.ffbP s4.dom (x :: post) pre.length with
        | none =>
          dsimp only
          refine satc_modS_bind ?_
          refine (satc_afRemove).bind ?_
          rintro _ s6 rfl
          obtain ⟨hcb6, _⟩ := cb_dropStack hcb5 (List.take_sublist pre.length s5.openElems)
          exact satc_pure ⟨cb_afErase hcb6 _, hsa5.sublist (List.take_sublist _ _), hq05.ext⟩
        | some p =>
          obtain ⟨fbi, fb⟩ := p
          dsimp only
          obtain ⟨hle, hfbget, hfbsp4, _⟩ := TBSafe.ffbP_some hffb
          refine satc_ite (fun _ => satc_false_bind satc_panicAt) (fun hnz => ?_)
          have hprelen : 0 < pre.length := by
            have : ¬ pre.length = 0 := by simpa using hnz
            omega
          refine satc_getS_bind ?_
          cases hca : s5.openElems[pre.length - 1]? with
          | none => exact satc_false_bind satc_panicAt
          | some ca =>
            dsimp only
            refine SatC.bind (Q := fun r s' => ca = r ∧ s5 = s') (satc_pure ⟨rfl, rfl⟩) ?_
            rintro ca' s5' ⟨rfl, rfl⟩
            have hcam : ca ∈ pre := by
              rw [hopen5, List.getElem?_append_left (by omega)] at hca
              exact List.mem_of_getElem? hca
            -- the handles
            have he05 : Ext s.dom s5.dom := hq05.ext
            have he15 : Ext s1.dom s5.dom := ((hq2.trans hq3).trans hq4).ext.trans hq5.ext
            have hxel5 : IsEl s5.dom x := hfel.ext he05
            have hfbmem : fb ∈ x :: post := List.mem_of_getElem? hfbget
            have hfbmem5 : fb ∈ s5.openElems := by rw [hopen5]; exact List.mem_append_right _ hfbmem
            have hfbel5 : IsEl s5.dom fb := hcb5.h.open_el fb hfbmem5
            have hfnm5 : nm s5.dom x = ⟨nsHtml, fmtElemTag.name⟩ := by rw [nm_ext he05 hfel]; exact hfnm
            -- the furthest block is above the formatting element
            have hlt : pre.length < fbi := by
              by_cases h0 : fbi - pre.length = 0
              · exfalso
                rw [h0] at hfbget
                simp only [List.getElem?_cons_zero, Option.some.injEq] at hfbget
                subst hfbget
                have hxel4 : IsEl s4.dom x := hall4 x List.mem_cons_self
                rw [← nm_ext hq5.ext hxel4, hfnm5, TBSafe.fmt_not_special htfmt] at hfbsp4
                cases hfbsp4
              · omega
            -- the invariant of the inner loop
            have hv5 : AInv s5 x pre fbi fb := by
              refine ⟨hlt, by rw [hopen5]; simp, by rw [hopen5]; simp, ⟨fbi, Nat.le_refl _, ?_⟩, ?_, hsa5⟩
              · rw [hopen5, List.getElem?_append_right hle]; exact hfbget
              · intro k y hk hy
                rw [hopen5, List.getElem?_append_right hk] at hy
                rcases List.mem_cons.mp (List.mem_of_getElem? hy) with rfl | hy'
                · exact notTT_of_fmt hfnm5 htfmt
                · have hyel : IsEl s1.dom y := hq1.cb.h.open_el y (by rw [hopen1]; simp [hy'])
                  exact (notTT_of_not_scope (habove y hy')).ext he15 hyel
            refine (satc_aaInner fbi 0 s5 fb (.replace x) hcb5 hfbel5 hxel5 hv5).bind ?_
            rintro ⟨lastNode, bm⟩ s6 ⟨hcb6, he56, ⟨hfb6, hbm6⟩, hv6⟩
            dsimp only
            have he06 : Ext s.dom s6.dom := he05.trans he56
            refine SatC.bind2 (satc_aaStep14 hcb6 hv6 hcam) ?_
            rintro _ s9 ⟨hcb9, he69, ho9, haf9, hsa9⟩
            have he09 : Ext s.dom s9.dom := he06.trans he69
            refine (satc_createElement hcb9 (attrKeysNodup_of_attrsOk hattrs)).bind ?_
            intro new s10 hcr
            have hcb10 := hcr.q.cb
            have hfb9 : IsEl s9.dom fb := hfb6.ext he69
            have hfb10 : IsEl s10.dom fb := hfb9.ext hcr.q.ext
            have hsa10 : SAnc s10.dom s10.openElems := hsa9.grow hcb9.d.inv.wf hcb9.h.lt hcr.q.g
            have hnotin10 : new ∉ s10.openElems := by
              intro hmem
              rw [hcr.q.openElems] at hmem
              exact Nat.lt_irrefl _ (Nat.lt_of_lt_of_le (hcb9.h.lt new hmem) hcr.ge)
            have hfbne : fb ≠ new := by
              rintro rfl
              exact Nat.lt_irrefl _ (Nat.lt_of_lt_of_le (lt_of_isEl hfb9) hcr.ge)
            have hk10 : NoKids s10.dom new := noKids_of_children hcb10.d.inv.wf hcr.fresh.kids
            refine (satc_reparentChildren hcb10 hfb10 hcr.el
              (fun ha => hfbne (anc_of_parentless hcr.fresh.par ha))).bind ?_
            rintro _ s11 ⟨ht11, _, hp11⟩
            have hpn11 : s11.dom.parentOf new = none := by
              rw [hp11, hcr.fresh.par]; simp
            refine (satc_append_moved ht11.cb (hfb10.ext ht11.ext) (hcr.el.ext ht11.ext) hpn11
              (not_anc_after_reparent hcb10.d.inv.wf hk10 hfbne hp11)).bind ?_
            rintro _ s12 ⟨ht12, heff12⟩
            have he1012 : Ext s10.dom s12.dom := ht11.ext.trans ht12.ext
            have ho12 : s12.openElems = s10.openElems := by rw [ht12.openElems, ht11.openElems]
            have hmid : Mid d0 s.dom x fb new s10.openElems s12 := by
              refine ⟨ht12.cb, ?_, ho12, by rw [heff12.par]; simp, (he09.trans hcr.q.ext).trans he1012,
                (hfel.ext (he09.trans hcr.q.ext)).ext he1012, hfb10.ext he1012, hcr.el.ext he1012,
                hcr.tc.ext he1012 (ht11.kext.trans ht12.kext) hcr.el⟩
              rw [ho12]
              exact sanc_after_clone hsa10 hnotin10 hcr.fresh.par hk10 hp11 heff12.par
            have hnewnm : nm s10.dom new = ⟨nsHtml, fmtElemTag.name⟩ := hcr.nm
            have hbm12 : IsEl s12.dom (bmId bm) := ((hbm6.ext he69).ext hcr.q.ext).ext he1012
            -- a new entry for the clone in the list of active formatting elements
            have hentry : ∀ {s' : State}, Ext s10.dom s'.dom →
                IsEl s'.dom new ∧ nm s'.dom new = ⟨nsHtml, fmtElemTag.name⟩ ∧
                  isOneOf fmtElemTag.name fmtNames = true ∧ AttrsOk fmtElemTag.attrs :=
              fun he => ⟨hcr.el.ext he, by rw [nm_ext he hcr.el]; exact hnewnm, htfmt, hattrs⟩
            cases bm with
            | replace toReplace =>
              dsimp only
              refine (satc_positionInActiveFormatting ht12.cb hbm12).bind ?_
              intro r s13 hq13
              have hmid13 := hmid.q2 hq13
              cases r with
              | none => exact satc_false_bind satc_panicAt
              | some index =>
                dsimp only
                refine satc_modS_bind ?_
                refine (Mid.finish (hmid13.withAF _ ?_) hnotin10).mono ?_
                · intro y t hy
                  rcases List.mem_or_eq_of_mem_set hy with h | h
                  · exact Or.inl h
                  · cases h; exact Or.inr (hentry (he1012.trans hq13.ext))
                · rintro _ s' ⟨a1, a2, a3⟩
                  exact ⟨a1, a2, a3⟩
            | insertAfter previous =>
              dsimp only
              refine (satc_positionInActiveFormatting ht12.cb hbm12).bind ?_
              intro r s13 hq13
              have hmid13 := hmid.q2 hq13
              cases r with
              | none => exact satc_false_bind satc_panicAt
              | some index =>
                dsimp only
                refine satc_modS_bind ?_
                have hmid14 := hmid13.withAF
                  (s13.activeFormatting.insertIdx (index + 1) (FormatEntry.element new fmtElemTag)) (by
                    intro y t hy
                    rcases mem_insertIdx_or hy with h | h
                    · cases h; exact Or.inr (hentry (he1012.trans hq13.ext))
                    · exact Or.inl h)
                refine (satc_positionInActiveFormatting hmid14.cb hmid14.xel).bind ?_
                intro r2 s15 hq15
                have hmid15 := hmid14.q2 hq15
                cases r2 with
                | none => exact satc_false_bind satc_panicAt
                | some oldIndex =>
                  dsimp only
                  refine (satc_afRemove).bind ?_
                  rintro _ s16 rfl
                  refine (Mid.finish (hmid15.withAF _ ?_) hnotin10).mono ?_
                  · intro y t hy; exact Or.inl (List.mem_of_mem_eraseIdx hy)
                  · rintro _ s' ⟨a1, a2, a3⟩
                    exact ⟨a1, a2, a3⟩

theorem apost_trans {a b c : State} (h1 : APost d0 a b) (h2 : APost d0 b c) : APost d0 a c :=
  ⟨h2.1, h2.2.1, h1.2.2.trans h2.2.2⟩

theorem satc_aaOuter {subject : Str} (hsub : isOneOf subject fmtNames = true) : ∀ (n : Nat) (s : State),
    CB d0 s → SAnc s.dom s.openElems → SatC (aaOuter subject n) s (fun _ s' => APost d0 s s') := by
  intro n
  induction n with
  | zero => intro s hcb hsa; exact satc_pure ⟨hcb, hsa, Ext.refl _⟩
  | succ n ih =>
    intro s hcb hsa
    unfold aaOuter
    refine (satc_aaOuterStep hcb hsa hsub).bind ?_
    intro b s1 h1
    refine satc_ite (fun _ => satc_pure h1) (fun _ => ?_)
    exact (ih s1 h1.1 h1.2.1).mono (fun _ s2 h2 => apost_trans h1 h2)

theorem cps_aaOuter {c : List Id} {subject : Str} (hsub : isOneOf subject fmtNames = true) (n : Nat) :
    CPS d0 c (aaOuter subject n) (fun _ => []) := by
  intro s hcb hsa _
  refine (satc_aaOuter hsub n s hcb hsa).mono ?_
  rintro _ s' ⟨h1, h2, h3⟩
  exact ⟨h1, h2, h3, CtxOk.nil _⟩

/-- **the adoption agency algorithm: every sink call is inside the contract** -/
theorem cps_adoptionAgency {c : List Id} {subject : Str} (hsub : isOneOf subject fmtNames = true) :
    CPS d0 c (adoptionAgency subject) (fun _ => []) := by
  unfold adoptionAgency
  have hjp : ∀ (c' : List Id) (shortcut : Bool), CPS d0 c'
      (if shortcut = true then do
          let _ ← pop
          pure ()
        else aaOuter subject 8) (fun _ => []) := by
    intro c' shortcut
    refine cps_ite (fun _ => ?_) (fun _ => cps_aaOuter hsub 8)
    refine cp_toCPS (cp_bind cp_pop ?_)
    intro _
    exact cp_pure_nil _
  refine cps_bind (R := fun _ => []) (cp_toCPS cp_currentNodeNamedS) ?_
  intro b
  dsimp only
  refine cps_ite (fun _ => ?_) (fun _ => ?_)
  · refine cps_bind (cp_toCPS cp_currentNode) ?_
    intro cur
    refine cps_bind (R := fun _ => [])
      (cp_toCPS (cp_positionInActiveFormatting (List.mem_append_left _ List.mem_cons_self))) ?_
    intro r
    refine cps_bind (R := fun _ => []) (cp_toCPS (cp_pure_nil _)) ?_
    intro sc
    exact hjp _ sc
  · refine cps_bind (R := fun _ => []) (cp_toCPS (cp_pure_nil _)) ?_
    intro sc
    exact hjp _ sc

/-- **`handle_misnested_a_tags`** -/
theorem cps_handleMisnestedATags {c : List Id} : CPS d0 c handleMisnestedATags (fun _ => []) := by
  unfold handleMisnestedATags
  refine cps_getS_bind ?_
  intro s0
  refine cps_bind (cp_toCPS cp_findAInAF_state) ?_
  intro r
  cases r with
  | none => exact cp_toCPS (cp_pure_nil _)
  | some node =>
    dsimp only
    have hnode : ∀ (c' : List Id), node ∈ c' ++ ([node] ++ (stH s0 ++ c)) :=
      fun c' => List.mem_append_right _ (List.mem_append_left _ List.mem_cons_self)
    refine cps_bind (R := fun _ => []) (cp_toCPS cp_unexpected) ?_
    intro _
    refine cps_bind (R := fun _ => []) (cps_adoptionAgency (by decide)) ?_
    intro _
    refine cps_bind (R := fun _ => [])
      (cp_toCPS (cp_positionInActiveFormatting (List.mem_append_right _ (hnode _)))) ?_
    intro r2
    have hrm : ∀ (c' : List Id), node ∈ c' → CPS d0 c' (removeFromStack node) (fun _ => []) :=
      fun c' h => cp_toCPS (cp_removeFromStack h)
    cases r2 with
    | none => exact hrm _ (List.mem_append_right _ (List.mem_append_right _ (hnode _)))
    | some index =>
      dsimp only
      refine cps_bind (R := fun _ => []) (cp_toCPS cp_afRemove) ?_
      intro _
      exact hrm _ (List.mem_append_right _ (List.mem_append_right _ (List.mem_append_right _ (hnode _))))

end H5V.Lemmas.TBC
