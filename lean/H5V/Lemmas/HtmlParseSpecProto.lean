import H5V.Lemmas.HtmlParseSpecAgree3
/-!
Capstone, part: **the protocol hypothesis `Respects2`, split into what is a fact about the tokenizer's output and
what is not.**

`Respects2 s ts` (C02Modes) asks of every token, in the tree-builder state it arrives in, `TokTokOk`: (1) tags are
well-formed (`TagWf`), (2) character tokens are non-empty and free of U+0000, (3) in the "text" insertion mode
only characters / end tags / EOF / parse errors arrive, (4) the DOCTYPE clauses, and (5) nothing follows EOF.

(1) except the `shadowrootmode` clause, (2) and (5) only depend on the tokens: `TokOkT` / `EofLast`, and they are
FACTS about the tokenizer model's output (`H5V.Lemmas.HtmlParseSpecOutWf`), for the exploded stream.  What remains
is `RespectsP`: the state-dependent clauses (3), (4) and "no `shadowrootmode` attribute" (declarative shadow roots
are outside `Spec.TreeModes`).
-/
namespace H5V.Lemmas.ParseSpec
open H5V.Model.HtmlTB
open H5V.Model.Dom (Id QualName Attr)
open H5V.Lemmas.HtmlTBAlgo
open H5V.Lemmas.HtmlTBModes
open H5V.Model.HtmlTB.Joint (conv convTag)

/-- the state-independent part of `TokTokOk` -/
def TokOkT : TokToken → Prop
  | .tag t => PlainTag t ∧ (∀ c ∈ t.name, ¬ ('A' ≤ c ∧ c ≤ 'Z')) ∧ (t.attrs.map (·.name.loc)).Nodup
  | .chars x => x ≠ [] ∧ '\x00' ∉ x
  | _ => True

/-- the residual protocol: what is NOT a fact about the tokenizer alone -/
structure ProtoOk (s : State) (token : TokToken) : Prop where
  noShadow : ∀ t, token = .tag t → ∀ a ∈ t.attrs, a.name.loc ≠ "shadowrootmode".toList
  text : s.mode = .text → (∃ x, token = .chars x) ∨ token = .eof ∨ (∃ t, token = .tag t ∧ t.kind = .endTag) ∨
    (∃ e, token = .parseError e)
  doctype : ∀ d, token = .doctype d → s.opts.dropDoctype = false ∧ (s.mode = .initial → s.quirksMode = .noQuirks)

/-- `ProtoOk` along the model's run -/
def RespectsP : State → List (TokToken × Nat) → Prop
  | _, [] => True
  | s, (t, line) :: rest =>
    ProtoOk s t ∧ ∀ r s', (processToken t line).run s = .ok (r, s') → RespectsP s' rest

/-- the end-of-file token only occurs as the last token -/
def EofLast : List (TokToken × Nat) → Prop
  | [] => True
  | (t, _) :: rest => (t = .eof → rest = []) ∧ EofLast rest

theorem respects2_of_parts : ∀ (ts : List (TokToken × Nat)) (s : State), RespectsP s ts →
    (∀ p ∈ ts, TokOkT p.1) → EofLast ts → Respects2 s ts
  | [], _, _, _, _ => trivial
  | (t, line) :: rest, s, hp, hw, he => by
    obtain ⟨hp1, hp2⟩ := hp
    obtain ⟨he1, he2⟩ := he
    refine ⟨⟨?_, ?_, hp1.text, hp1.doctype⟩, he1, fun r s' hr =>
      respects2_of_parts rest s' (hp2 r s' hr) (fun p hp => hw p (by simp [hp])) he2⟩
    · intro tg e
      have h := hw (t, line) (by simp)
      rw [e] at h
      exact ⟨h.1, h.2.1, h.2.2, hp1.noShadow tg e⟩
    · intro x e
      have h := hw (t, line) (by simp)
      rw [e] at h
      exact h

/-- decidable form of `RespectsP` -/
def protoOkB (s : State) : TokToken → Bool
  | .tag t => t.attrs.all (fun a => a.name.loc != "shadowrootmode".toList) && (s.mode != .text || t.kind == .endTag)
  | .chars _ => true
  | .eof => true
  | .parseError _ => true
  | .comment _ => s.mode != .text
  | .nullChar => s.mode != .text
  | .doctype _ => s.mode != .text && !s.opts.dropDoctype && (s.mode != .initial || s.quirksMode == .noQuirks)

theorem protoOk_of_B {s : State} {t : TokToken} (h : protoOkB s t = true) : ProtoOk s t := by
  cases t with
  | tag tg =>
    simp only [protoOkB, Bool.and_eq_true, Bool.or_eq_true, bne_iff_ne, ne_eq, beq_iff_eq, List.all_eq_true] at h
    constructor
    · intro t' e a ha; cases e; exact h.1 a ha
    · intro hm
      rcases h.2 with h2 | h2
      · exact absurd hm h2
      · exact Or.inr (Or.inr (Or.inl ⟨tg, rfl, h2⟩))
    · intro d e; cases e
  | chars x =>
    constructor
    · intro t' e; cases e
    · intro _; exact Or.inl ⟨x, rfl⟩
    · intro d e; cases e
  | eof =>
    constructor
    · intro t' e; cases e
    · intro _; exact Or.inr (Or.inl rfl)
    · intro d e; cases e
  | parseError m =>
    constructor
    · intro t' e; cases e
    · intro _; exact Or.inr (Or.inr (Or.inr ⟨m, rfl⟩))
    · intro d e; cases e
  | comment c =>
    simp only [protoOkB, bne_iff_ne, ne_eq] at h
    constructor
    · intro t' e; cases e
    · intro hm; exact absurd hm h
    · intro d e; cases e
  | nullChar =>
    simp only [protoOkB, bne_iff_ne, ne_eq] at h
    constructor
    · intro t' e; cases e
    · intro hm; exact absurd hm h
    · intro d e; cases e
  | doctype d =>
    simp only [protoOkB, Bool.and_eq_true, bne_iff_ne, ne_eq, Bool.not_eq_true', Bool.or_eq_true, beq_iff_eq] at h
    constructor
    · intro t' e; cases e
    · intro hm; exact absurd hm h.1.1
    · intro d' _
      refine ⟨h.1.2, fun hi => ?_⟩
      rcases h.2 with h2 | h2
      · exact absurd hi h2
      · exact h2

def respectsPB : State → List (TokToken × Nat) → Bool
  | _, [] => true
  | s, (t, line) :: rest =>
    protoOkB s t &&
    match (processToken t line).run s with
    | .ok (_, s') => respectsPB s' rest
    | .error _ => true

theorem respectsP_of_B : ∀ (toks : List (TokToken × Nat)) (s : State), respectsPB s toks = true → RespectsP s toks
  | [], _, _ => trivial
  | (t, line) :: rest, s, h => by
    simp only [respectsPB, Bool.and_eq_true] at h
    refine ⟨protoOk_of_B h.1, fun r s' hr => ?_⟩
    have h3 := h.2
    rw [hr] at h3
    exact respectsP_of_B rest s' h3

/-! ### the token-only parts for the exploded stream of a tokenizer log -/

/-- well-formedness of the tokenizer's tokens, as in `H5V.Lemmas.HtmlParseSpecOutWf` -/
def TokWfT' : TTok → Prop
  | .tag t => (∀ c ∈ t.name, ¬ ('A' ≤ c ∧ c ≤ 'Z')) ∧ (t.attrs.map (·.name)).Nodup
  | .chars x => '\x00' ∉ x
  | _ => True

theorem tokOkT_convTag {t : H5V.Model.HtmlTok.Tag} (h : TokWfT' (.tag t)) : TokOkT (.tag (convTag t)) := by
  obtain ⟨h1, h2⟩ := h
  refine ⟨?_, h1, ?_⟩
  · intro a ha
    simp only [convTag, List.mem_map] at ha
    obtain ⟨b, _, rfl⟩ := ha
    rfl
  · have : (convTag t).attrs.map (·.name.loc) = t.attrs.map (·.name) := by
      simp only [convTag, List.map_map]
      rfl
    rw [this]; exact h2

/-- the exploded stream of a well-formed log satisfies the token-only parts of the protocol -/
theorem tokOkT_explode {l : List (TTok × Nat)} (h : ∀ p ∈ l, TokWfT' p.1) :
    ∀ q ∈ explode (convAll l), TokOkT q.1 := by
  intro q hq
  unfold explode at hq
  rw [List.mem_flatMap] at hq
  obtain ⟨p, hp, hqp⟩ := hq
  unfold convAll at hp
  rw [List.mem_filterMap] at hp
  obtain ⟨p0, hp0, e0⟩ := hp
  have hw := h p0 hp0
  obtain ⟨t0, l0⟩ := p0
  cases t0 with
  | doctype d => cases e0; simp only [explodeTok, List.mem_singleton] at hqp; subst hqp; trivial
  | tag t =>
    cases e0; simp only [explodeTok, List.mem_singleton] at hqp; subst hqp
    exact tokOkT_convTag hw
  | comment c => cases e0; simp only [explodeTok, List.mem_singleton] at hqp; subst hqp; trivial
  | chars x =>
    cases e0
    simp only [explodeTok, List.mem_map] at hqp
    obtain ⟨c, hc, rfl⟩ := hqp
    refine ⟨by simp, ?_⟩
    intro hm
    have : c = '\x00' := by simpa [eq_comm] using hm
    subst this
    exact hw hc
  | nullChar => cases e0; simp only [explodeTok, List.mem_singleton] at hqp; subst hqp; trivial
  | eof => cases e0; simp only [explodeTok, List.mem_singleton] at hqp; subst hqp; trivial
  | error m => cases e0; simp only [explodeTok, List.mem_singleton] at hqp; subst hqp; trivial
  | pause b => cases e0

theorem eofLast_append_eof : ∀ (a : List (TokToken × Nat)) (l : Nat), (∀ p ∈ a, p.1 ≠ .eof) →
    EofLast (a ++ [(TokToken.eof, l)])
  | [], _, _ => ⟨fun _ => rfl, trivial⟩
  | (t, k) :: rest, l, h =>
    ⟨fun e => absurd e (h (t, k) (by simp)), eofLast_append_eof rest l (fun p hp => h p (by simp [hp]))⟩

theorem noEof_explode {l : List (TTok × Nat)} (h : ∀ p ∈ l, p.1 ≠ .eof) :
    ∀ q ∈ explode (convAll l), q.1 ≠ .eof := by
  intro q hq
  unfold explode at hq
  rw [List.mem_flatMap] at hq
  obtain ⟨p, hp, hqp⟩ := hq
  unfold convAll at hp
  rw [List.mem_filterMap] at hp
  obtain ⟨p0, hp0, e0⟩ := hp
  have hw := h p0 hp0
  obtain ⟨t0, l0⟩ := p0
  cases t0 with
  | eof => exact absurd rfl hw
  | chars x =>
    cases e0
    simp only [explodeTok, List.mem_map] at hqp
    obtain ⟨c, _, rfl⟩ := hqp
    simp
  | pause b => cases e0
  | doctype d => cases e0; simp only [explodeTok, List.mem_singleton] at hqp; subst hqp; simp
  | tag t => cases e0; simp only [explodeTok, List.mem_singleton] at hqp; subst hqp; simp
  | comment c => cases e0; simp only [explodeTok, List.mem_singleton] at hqp; subst hqp; simp
  | nullChar => cases e0; simp only [explodeTok, List.mem_singleton] at hqp; subst hqp; simp
  | error m => cases e0; simp only [explodeTok, List.mem_singleton] at hqp; subst hqp; simp

end H5V.Lemmas.ParseSpec
