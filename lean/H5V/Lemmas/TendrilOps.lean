import H5V.Lemmas.TendrilHeap
/-!
Specifications of the private building blocks of `tendril.rs` (`as_byte_slice`, `Drop`,
`make_buf_shared`, `incref`, `clone`, `owned_copy`, `make_owned`, `grow`,
`make_owned_with_capacity`) over `WF heap (t :: rest)`: the result is well-formed with the same
`rest`, `abs` of every other tendril is unchanged, `abs` of the head is as stated.
-/
namespace H5V.Lemmas.Tendril
open H5V.Model.Tendril

/-! ### evaluation of the primitives on a live buffer -/

theorem get_ok {h : Heap} {id : Nat} {b : Buf} (s : String) (hb : h.bufs[id]? = some b)
    (hl : b.live = true) : h.get id s = .ok b := by
  simp [Heap.get, hb, hl]

theorem read_ok {h : Heap} {id lo hi : Nat} {b : Buf} (s : String) (hb : h.bufs[id]? = some b)
    (hl : b.live = true) (h1 : lo ≤ hi) (h2 : hi ≤ b.data.length) (h3 : hi ≤ b.cap) :
    h.read id lo hi s = .ok ((b.data.drop lo).take (hi - lo)) := by
  unfold Heap.read
  rw [get_ok _ hb hl]
  simp only [bind, Except.bind]
  rw [if_pos ⟨h1, h2, h3⟩]

theorem write_ok {h : Heap} {id pos : Nat} {bytes : List UInt8} {b : Buf} (s : String)
    (hb : h.bufs[id]? = some b) (hl : b.live = true) (h1 : pos ≤ b.data.length)
    (h2 : pos + bytes.length ≤ b.cap) :
    h.write id pos bytes s = .ok ⟨h.bufs.set id { b with data := b.data.take pos ++ bytes },
      .write id pos (pos + bytes.length) :: h.trace⟩ := by
  unfold Heap.write
  rw [get_ok _ hb hl]
  simp only [bind, Except.bind]
  rw [if_pos ⟨h1, h2⟩]

theorem poke_ok {h : Heap} {id pos : Nat} {v : UInt8} {b : Buf} (s : String)
    (hb : h.bufs[id]? = some b) (hl : b.live = true) (h1 : pos < b.data.length) (h2 : pos < b.cap) :
    h.poke id pos v s = .ok ⟨h.bufs.set id { b with data := b.data.set pos v },
      .write id pos (pos + 1) :: h.trace⟩ := by
  unfold Heap.poke
  rw [get_ok _ hb hl]
  simp only [bind, Except.bind]
  rw [if_pos ⟨h1, h2⟩]

theorem free_ok {h : Heap} {id cap : Nat} {b : Buf} (s : String) (hb : h.bufs[id]? = some b)
    (hl : b.live = true) (hc : cap = b.cap) :
    h.free id cap s = .ok ⟨h.bufs.set id { b with live := false }, .free id cap :: h.trace⟩ := by
  unfold Heap.free
  rw [get_ok _ hb hl]
  simp only [bind, Except.bind]
  rw [if_pos hc]

theorem incref_ok {h : Heap} {id : Nat} {b : Buf} (s : String) (hb : h.bufs[id]? = some b)
    (hl : b.live = true) :
    h.incref id s = .ok ⟨h.bufs.set id { b with refcount := b.refcount + 1 },
      .incref id b.refcount :: h.trace⟩ := by
  unfold Heap.incref
  rw [get_ok _ hb hl]
  rfl

theorem decref_ok {h : Heap} {id : Nat} {b : Buf} (s : String) (hb : h.bufs[id]? = some b)
    (hl : b.live = true) (hr : b.refcount ≠ 0) :
    h.decref id s = .ok (⟨h.bufs.set id { b with refcount := b.refcount - 1 },
      .decref id b.refcount :: h.trace⟩, b.refcount) := by
  unfold Heap.decref
  rw [get_ok _ hb hl]
  simp only [bind, Except.bind]
  rw [if_neg hr]

theorem setHdrCap_ok {h : Heap} {id cap : Nat} {b : Buf} (s : String) (hb : h.bufs[id]? = some b)
    (hl : b.live = true) :
    h.setHdrCap id cap s = .ok ⟨h.bufs.set id { b with hdrCap := cap }, h.trace⟩ := by
  unfold Heap.setHdrCap
  rw [get_ok _ hb hl]
  rfl

theorem getHdrCap_ok {h : Heap} {id : Nat} {b : Buf} (s : String) (hb : h.bufs[id]? = some b)
    (hl : b.live = true) : h.getHdrCap id s = .ok b.hdrCap := by
  unfold Heap.getHdrCap
  rw [get_ok _ hb hl]
  rfl

theorem realloc_ok {h : Heap} {id oldCap newCap : Nat} {b : Buf} (s : String)
    (hb : h.bufs[id]? = some b) (hl : b.live = true) (hc : oldCap = b.cap) :
    h.realloc id oldCap newCap s =
      .ok (⟨h.bufs.set id { b with live := false } ++ [{ b with cap := newCap }],
            .free id oldCap :: .alloc h.bufs.length newCap :: h.trace⟩, h.bufs.length) := by
  unfold Heap.realloc
  rw [get_ok _ hb hl]
  simp only [bind, Except.bind]
  rw [if_pos hc]

/-! ### `as_byte_slice` is the abstraction function -/

theorem asByteSlice_eq {h : Heap} {t : T} (wt : TWF h t)
    (hok : ∀ (id : Nat) (b : Buf), h.bufs[id]? = some b → BufOK b) : asByteSlice h t = .ok (abs h t) := by
  cases t with
  | inline bs => rfl
  | owned id len cap =>
    obtain ⟨b, hb, hl, hc, hlen⟩ := wt
    have := (hok id b hb).1
    simp only [asByteSlice, assumeBuf, bind, Except.bind, T.len32]
    rw [read_ok _ hb hl (Nat.zero_le _) hlen (by omega)]
    simp only []
    rw [read_ok _ hb hl (by omega) (by omega) (by omega)]
    simp [abs, hb]
  | shared id off len =>
    obtain ⟨b, hb, hl, hc, hlen⟩ := wt
    have := (hok id b hb).1
    simp only [asByteSlice, assumeBuf, bind, Except.bind, T.len32]
    rw [getHdrCap_ok _ hb hl]
    simp only []
    rw [read_ok _ hb hl (Nat.zero_le _) hlen (by omega)]
    simp only []
    rw [read_ok _ hb hl (by omega) (by omega) (by omega)]
    simp [abs, hb]

theorem asByteSlice_head {h : Heap} {t : T} {rest : List T} (w : WF h (t :: rest)) :
    asByteSlice h t = .ok (abs h t) :=
  asByteSlice_eq (w.twf t (List.mem_cons_self ..)) w.bufs

theorem abs_length {h : Heap} {t : T} (wt : TWF h t) : (abs h t).length = t.len32 := by
  cases t with
  | inline bs => rfl
  | owned id len cap =>
    obtain ⟨b, hb, hl, hc, hlen⟩ := wt
    simp [abs, hb, T.len32, List.length_take, Nat.min_eq_left hlen]
  | shared id off len =>
    obtain ⟨b, hb, hl, hc, hlen⟩ := wt
    simp [abs, hb, T.len32, List.length_take, List.length_drop]
    omega

/-! ### `Drop` -/

theorem dropT_spec {h : Heap} {t : T} {rest : List T} (w : WF h (t :: rest)) :
    SatT (dropT h t) (fun h' => WF h' rest ∧ ∀ u, abs h' u = abs h u) := by
  cases t with
  | inline bs => exact ⟨h, rfl, w.tail_inline, fun _ => rfl⟩
  | owned id len cap =>
    obtain ⟨b, hb, hl, hc, hlen, hok, hrc, hr0⟩ := w.owned_head
    refine ⟨_, ?_, w.free_owned_head hb, fun u => abs_set_data u hb (by rfl)⟩
    simp only [dropT, assumeBuf, bind, Except.bind]
    exact free_ok _ hb hl hc.symm
  | shared id off len =>
    obtain ⟨b, hb, hl, hc, hlen, hok, hrc, hno⟩ := w.shared_head
    have hlt := lookup_lt hb
    have hr0 : b.refcount ≠ 0 := by omega
    by_cases h1 : b.refcount = 1
    · refine ⟨_, ?_, w.decref_free_head hb h1, fun u => abs_set_data u hb (by rfl)⟩
      simp only [dropT, assumeBuf, bind, Except.bind]
      rw [getHdrCap_ok _ hb hl]
      simp only [↓reduceIte]
      rw [decref_ok _ hb hl hr0]
      simp only []
      rw [if_pos h1, free_ok (b := { b with refcount := b.refcount - 1 }) _ (getElem?_set_self' hb) hl hc]
      simp [List.set_set, h1, hc]
    · refine ⟨_, ?_, w.decref_head hb h1, fun u => abs_set_data u hb (by rfl)⟩
      simp only [dropT, assumeBuf, bind, Except.bind]
      rw [getHdrCap_ok _ hb hl]
      simp only [↓reduceIte]
      rw [decref_ok _ hb hl hr0]
      simp only []
      rw [if_neg h1]

/-! ### `make_buf_shared`, `incref`, `clone` -/

theorem makeBufShared_spec {h : Heap} {t : T} {rest : List T} (s : String) (w : WF h (t :: rest))
    (hni : t.bufId?.isSome) :
    SatT (makeBufShared h t s) (fun r => WF r.1 (r.2 :: rest) ∧ (∀ u, abs r.1 u = abs h u) ∧
      abs r.1 r.2 = abs h t ∧ ∃ id off, r.2 = .shared id off t.len32 ∧
        (t = .shared id off t.len32 ∨ (off = 0 ∧ ∃ cap, t = .owned id t.len32 cap))) := by
  cases t with
  | inline bs => simp [T.bufId?] at hni
  | owned id len cap =>
    obtain ⟨b, hb, hl, hc, hlen, hok, hrc, hr0⟩ := w.owned_head
    refine ⟨(_, _), ?_, w.make_shared hb, fun u => abs_set_data u hb (by rfl), ?_, id, 0, rfl,
      Or.inr ⟨rfl, cap, rfl⟩⟩
    · simp only [makeBufShared, bind, Except.bind]
      rw [setHdrCap_ok _ hb hl]
    · simp [abs, getElem?_set_self' hb, hb]
  | shared id off len =>
    exact ⟨(_, _), rfl, w, fun _ => rfl, rfl, id, off, rfl, Or.inl rfl⟩

/-- `incref` on a shared head; afterwards any sub-view of the head may be added -/
theorem increfT_spec {h : Heap} {id off len : Nat} {rest : List T} (s : String)
    (w : WF h (.shared id off len :: rest)) :
    SatT (increfT h (.shared id off len) s) (fun h' => (∀ u, abs h' u = abs h u) ∧
      ∀ o l, o + l ≤ len →
        WF h' (.shared id off len :: .shared id (off + o) l :: rest) ∧
        abs h' (.shared id (off + o) l) = ((abs h (.shared id off len)).drop o).take l) := by
  obtain ⟨b, hb, hl, hc, hlen, hok, hrc, hno⟩ := w.shared_head
  refine ⟨⟨h.bufs.set id { b with refcount := b.refcount + 1 }, .incref id b.refcount :: h.trace⟩,
    ?_, fun u => abs_set_data u hb (by rfl), ?_⟩
  · simp only [increfT, T.bufId?]
    exact incref_ok _ hb hl
  · intro o l hol
    refine ⟨w.incref_view hb (by omega), ?_⟩
    rw [abs_set_data _ hb (by rfl)]
    simp only [abs, hb, List.drop_take, List.drop_drop, List.take_take]
    congr 1
    omega

theorem cloneT_spec {h : Heap} {t : T} {rest : List T} (w : WF h (t :: rest)) :
    SatT (cloneT h t) (fun r => WF r.1 (r.2.1 :: r.2.2 :: rest) ∧ (∀ u, abs r.1 u = abs h u) ∧
      abs r.1 r.2.1 = abs h t ∧ abs r.1 r.2.2 = abs h t) := by
  have key : t.bufId?.isSome → SatT (makeBufShared h t "clone" >>= fun r =>
      increfT r.1 r.2 "clone" >>= fun h' => (.ok (h', r.2, r.2) : M (Heap × T × T)))
      (fun r => WF r.1 (r.2.1 :: r.2.2 :: rest) ∧ (∀ u, abs r.1 u = abs h u) ∧
      abs r.1 r.2.1 = abs h t ∧ abs r.1 r.2.2 = abs h t) := by
    intro hni
    apply (makeBufShared_spec "clone" w hni).bind
    rintro ⟨h1, t1⟩ ⟨w1, hab, hat, id, off, ht1, _⟩
    simp only at ht1 w1 hab hat
    subst ht1
    apply (increfT_spec "clone" w1).bind
    rintro h2 ⟨hab2, hv⟩
    have := hv 0 t.len32 (by omega)
    simp only [Nat.add_zero, List.drop_zero] at this
    refine SatT.ok ⟨this.1, fun u => (hab2 u).trans (hab u), (hab2 _).trans hat, ?_⟩
    simp only [this.2, hat]
    rw [← abs_length (w.twf t (List.mem_cons_self ..)), List.take_length]
  cases t with
  | inline bs =>
    exact ⟨_, rfl, w.cons_inline (w.twf _ (List.mem_cons_self ..)), fun _ => rfl, rfl, rfl⟩
  | owned id len cap => exact key rfl
  | shared id off len => exact key rfl

/-! ### `Sat` through the panic / UB guards of the model -/

theorem Sat.ite_panic {α} {c : Prop} [Decidable c] {s : String} {x : M α} {Q : α → Prop}
    (h : ¬ c → Sat x Q) : Sat (if c then .error (.panic s) else x) Q := by
  by_cases hc : c
  · rw [if_pos hc]; trivial
  · rw [if_neg hc]; exact h hc

theorem Sat.ite_ub {α} {c : Prop} [Decidable c] {s : String} {x : M α} {Q : α → Prop}
    (hc : ¬ c) (h : Sat x Q) : Sat (if c then .error (.ub s) else x) Q := by
  rw [if_neg hc]; exact h

theorem SatT.ite_ub {α} {c : Prop} [Decidable c] {s : String} {x : M α} {Q : α → Prop}
    (hc : ¬ c) (h : SatT x Q) : SatT (if c then .error (.ub s) else x) Q := by
  rw [if_neg hc]; exact h

/-! ### `buf32.rs` arithmetic -/

theorem le_roundCap (x : Nat) : x ≤ roundCap x := by unfold roundCap; omega

theorem roundCap_ge16 {x : Nat} (h : 16 ≤ x) : 16 ≤ roundCap x := by unfold roundCap; omega

theorem nextPow2Fuel_spec (f p n : Nat) : n ≤ nextPow2Fuel f p n ∨ nextPow2Fuel f p n = p * 2 ^ f := by
  induction f generalizing p with
  | zero => right; simp [nextPow2Fuel]
  | succ f ih =>
    unfold nextPow2Fuel
    split
    · left; assumption
    · rcases ih (2 * p) with h | h
      · left; exact h
      · right; rw [h, Nat.pow_succ, Nat.mul_comm 2 p, Nat.mul_assoc, Nat.mul_comm (2 ^ f) 2]

theorem le_nextPow2 {n : Nat} (h : nextPow2 n ≤ 4294967295) : n ≤ nextPow2 n := by
  rcases nextPow2Fuel_spec 33 1 n with h1 | h1
  · exact h1
  · unfold nextPow2 at h; rw [h1] at h; simp at h

/-! ### `owned_copy`, `make_owned`, `grow`, `make_owned_with_capacity` -/

theorem ownedCopy_spec {h : Heap} {ts : List T} (x : List UInt8) (w : WF h ts) :
    Sat (ownedCopy h x) (fun r => WF r.1 (r.2 :: ts) ∧ (∀ u ∈ ts, abs r.1 u = abs h u) ∧
      abs r.1 r.2 = x ∧ ∃ id cap, r.2 = .owned id x.length cap ∧ x.length ≤ cap) := by
  unfold ownedCopy buf32WithCapacity
  simp only []
  generalize hc : roundCap (if x.length < 16 then 16 else x.length) = c
  have h1 : x.length ≤ c := by
    subst hc; split
    · have := le_roundCap 16; omega
    · exact le_roundCap _
  have h2 : 16 ≤ c := by
    subst hc; split
    · exact roundCap_ge16 (Nat.le_refl _)
    · exact roundCap_ge16 (by omega)
  by_cases hbig : c > 4294967295
  · simp only [hbig, ↓reduceIte, bind, Except.bind]; trivial
  · simp only [hbig, ↓reduceIte, Heap.alloc, bind, Except.bind]
    have hnb : (h.bufs ++ [(⟨[], c, 0, 1, true⟩ : Buf)])[h.bufs.length]? = some ⟨[], c, 0, 1, true⟩ := by
      simp
    have hwr := write_ok (h := ⟨h.bufs ++ [⟨[], c, 0, 1, true⟩], .alloc h.bufs.length c :: h.trace⟩)
      (id := h.bufs.length) (pos := 0) (bytes := x) (b := ⟨[], c, 0, 1, true⟩) "owned_copy" hnb rfl
      (Nat.zero_le _) (by simpa using h1)
    rw [hwr]
    have hset : (h.bufs ++ [(⟨[], c, 0, 1, true⟩ : Buf)]).set h.bufs.length
        { (⟨[], c, 0, 1, true⟩ : Buf) with data := ([] : List UInt8).take 0 ++ x }
        = h.bufs ++ [⟨x, c, 0, 1, true⟩] := by
      simp
    simp only [hset]
    have hw := w.alloc_owned (x := x) (c := c) h1 h2 (by omega)
    refine ⟨hw, ?_, ?_, _, _, rfl, h1⟩
    · intro u hu; exact abs_append (w.twf u hu)
    · simp [abs]

theorem makeOwned_spec {h : Heap} {t : T} {rest : List T} (w : WF h (t :: rest)) :
    Sat (makeOwned h t) (fun r => WF r.1 (r.2 :: rest) ∧ (∀ u ∈ rest, abs r.1 u = abs h u) ∧
      abs r.1 r.2 = abs h t ∧ ∃ id cap, r.2 = .owned id t.len32 cap) := by
  have key : Sat (asByteSlice h t >>= fun bs => ownedCopy h bs >>= fun r =>
      dropT r.1 t >>= fun h' => (.ok (h', r.2) : M (Heap × T)))
      (fun r => WF r.1 (r.2 :: rest) ∧ (∀ u ∈ rest, abs r.1 u = abs h u) ∧
      abs r.1 r.2 = abs h t ∧ ∃ id cap, r.2 = .owned id t.len32 cap) := by
    rw [asByteSlice_head w]
    apply (ownedCopy_spec (abs h t) w).bind
    rintro ⟨h1, t1⟩ ⟨w1, hab, hat, id, cap, ht1, _⟩
    simp only at w1 hab hat ht1
    have w1' : WF h1 (t :: t1 :: rest) := w1.perm (List.Perm.swap ..)
    apply (dropT_spec w1').sat.bind
    rintro h2 ⟨w2, hab2⟩
    refine Sat.ok ⟨w2, fun u hu => (hab2 u).trans (hab u (List.mem_cons_of_mem _ hu)),
      (hab2 _).trans hat, id, cap, ?_⟩
    rw [ht1, abs_length (w.twf t (List.mem_cons_self ..))]
  cases t with
  | owned id len cap => exact Sat.ok ⟨w, fun _ _ => rfl, rfl, id, cap, rfl⟩
  | inline bs => exact key
  | shared id off len => exact key

theorem abs_realloc {h : Heap} {id : Nat} {b nb : Buf} {tr : List Event} {u : T} (wu : TWF h u)
    (hb : h.bufs[id]? = some b) :
    abs ⟨h.bufs.set id { b with live := false } ++ [nb], tr⟩ u = abs h u := by
  apply abs_congr
  intro j hj
  have := wu.lt hj
  simp only []
  rw [List.getElem?_append_left (by simpa using this)]
  by_cases hji : j = id
  · subst hji; rw [getElem?_set_self' hb, hb]; rfl
  · rw [getElem?_set_ne' hji]

theorem buf32Grow_spec {h : Heap} {id len cap : Nat} {rest : List T} (newCap : Nat)
    (w : WF h (.owned id len cap :: rest)) :
    Sat (buf32Grow h id cap newCap) (fun r => WF r.1 (.owned r.2.1 len r.2.2 :: rest) ∧
      (∀ u ∈ rest, abs r.1 u = abs h u) ∧
      abs r.1 (.owned r.2.1 len r.2.2) = abs h (.owned id len cap) ∧ newCap ≤ r.2.2) := by
  obtain ⟨b, hb, hl, hc, hlen, hok, hrc, hr0⟩ := w.owned_head
  unfold buf32Grow
  split
  · exact Sat.ok ⟨w, fun _ _ => rfl, rfl, by assumption⟩
  · rename_i hgt
    simp only []
    apply Sat.ite_panic; intro hnp
    apply Sat.ite_panic; intro hrc'
    rw [realloc_ok _ hb hl hc.symm]
    have hnp' := le_nextPow2 (Nat.le_of_not_gt hnp)
    have hrn := le_roundCap (nextPow2 newCap)
    have hw := w.realloc_owned_head (nc := roundCap (nextPow2 newCap)) hb (by omega) (by omega)
    refine Sat.ok ⟨hw, ?_, ?_, by simp only []; omega⟩
    · intro u hu
      exact abs_realloc (w.twf u (List.mem_cons_of_mem _ hu)) hb
    · have hlt := lookup_lt hb
      simp only [abs, hb]
      rw [List.getElem?_append_right (by simp)]
      simp

theorem makeOwnedWithCapacity_spec {h : Heap} {t : T} {rest : List T} (cap : Nat)
    (w : WF h (t :: rest)) :
    Sat (makeOwnedWithCapacity h t cap) (fun r => WF r.1 (r.2 :: rest) ∧
      (∀ u ∈ rest, abs r.1 u = abs h u) ∧ abs r.1 r.2 = abs h t ∧
      ∃ id c, r.2 = .owned id t.len32 c ∧ cap ≤ c) := by
  unfold makeOwnedWithCapacity
  apply (makeOwned_spec w).bind
  rintro ⟨h1, t1⟩ ⟨w1, hab, hat, id, c, ht1⟩
  simp only at w1 hab hat ht1
  subst ht1
  simp only []
  apply (buf32Grow_spec cap w1).bind
  rintro ⟨h2, id2, c2⟩ ⟨w2, hab2, hat2, hge⟩
  simp only at w2 hab2 hat2 hge
  exact Sat.ok ⟨w2, fun u hu => (hab2 u hu).trans (hab u hu), hat2.trans hat, id2, c2, rfl, hge⟩


/-! ## the public operations on one tendril -/

/-- what `push_bytes_without_validating` produces, on byte lists -/
def pushSpec (F : Format) (a b : List UInt8) : List UInt8 :=
  a.take (a.length - (F.fixup a b).dropLeft) ++ (F.fixup a b).insert ++ b.drop (F.fixup a b).dropRight

/-- the fix-up of a format never reaches outside its operands -/
def FixupOK (F : Format) : Prop :=
  ∀ a b, (F.fixup a b).dropLeft ≤ a.length ∧ (F.fixup a b).dropRight ≤ b.length

theorem mkInline_ok {x : List UInt8} (s : String) (h : x.length ≤ 8) : mkInline x s = .ok (.inline x) := by
  simp [mkInline, h]

theorem fromBytesUnchecked_spec {h : Heap} {ts : List T} (x : List UInt8) (w : WF h ts) :
    Sat (fromBytesUnchecked h x) (fun r => WF r.1 (r.2 :: ts) ∧ (∀ u ∈ ts, abs r.1 u = abs h u) ∧
      abs r.1 r.2 = x) := by
  unfold fromBytesUnchecked
  apply Sat.ite_panic; intro _
  split
  · rename_i h8
    rw [mkInline_ok _ h8]
    exact Sat.ok ⟨w.cons_inline h8, fun _ _ => rfl, rfl⟩
  · exact (ownedCopy_spec x w).mono (fun r ⟨a, b, c, _⟩ => ⟨a, b, c⟩)

theorem clearT_spec {h : Heap} {t : T} {rest : List T} (w : WF h (t :: rest)) :
    SatT (clearT h t) (fun r => WF r.1 (r.2 :: rest) ∧ (∀ u ∈ rest, abs r.1 u = abs h u) ∧
      abs r.1 r.2 = []) := by
  cases t with
  | inline bs =>
    exact SatT.ok ⟨w.tail_inline.cons_inline (by simp), fun _ _ => rfl, rfl⟩
  | owned id len cap =>
    obtain ⟨b, hb, hl, hc, hlen, hok, hrc, hr0⟩ := w.owned_head
    refine SatT.ok ⟨w.replace_head rfl ⟨b, hb, hl, hc, Nat.zero_le _⟩ ?_, fun _ _ => rfl, ?_⟩
    · rintro i l c ⟨⟩; exact ⟨len, rfl⟩
    · simp [abs, hb]
  | shared id off len =>
    simp only [clearT]
    apply (dropT_spec w).bind
    rintro h1 ⟨w1, hab⟩
    exact SatT.ok ⟨w1.cons_inline (by simp), fun u _ => hab u, rfl⟩

theorem pushBytesUnchecked_spec {F : Format} (hF : FixupOK F) {h : Heap} {t : T} {rest : List T}
    (buf : List UInt8) (w : WF h (t :: rest)) :
    Sat (pushBytesUnchecked F h t buf) (fun r => WF r.1 (r.2 :: rest) ∧
      (∀ u ∈ rest, abs r.1 u = abs h u) ∧ abs r.1 r.2 = pushSpec F (abs h t) buf) := by
  have hlen := abs_length (w.twf t (List.mem_cons_self ..))
  obtain ⟨hdl, hdr⟩ := hF (abs h t) buf
  unfold pushBytesUnchecked
  simp only [bind, Except.bind]
  apply Sat.ite_panic; intro _
  rw [asByteSlice_head w]
  simp only []
  apply Sat.ite_panic; intro _
  apply Sat.ite_panic; intro _
  apply Sat.ite_panic; intro _
  apply Sat.ite_panic; intro _
  apply Sat.ite_ub (by omega)
  generalize hfx : F.fixup (abs h t) buf = fx at hdl hdr ⊢
  have hps : pushSpec F (abs h t) buf
      = (abs h t).take ((abs h t).length - fx.dropLeft) ++ fx.insert ++ buf.drop fx.dropRight := by
    simp [pushSpec, hfx]
  have hpl : (pushSpec F (abs h t) buf).length
      = t.len32 + fx.insert.length - fx.dropLeft + buf.length - fx.dropRight := by
    rw [hps]; simp [List.length_take]; omega
  split
  · rename_i h8
    apply Sat.ite_ub (by rw [← hps, hpl]; omega)
    rw [← hps, ← hpl, List.take_length, mkInline_ok _ (by rw [hpl]; exact h8)]
    simp only []
    apply (dropT_spec w).sat.bind
    rintro h1 ⟨w1, hab⟩
    exact Sat.ok ⟨w1.cons_inline (by rw [hpl]; exact h8), fun u _ => hab u, rfl⟩
  · rename_i h8
    apply (makeOwnedWithCapacity_spec _ w).bind
    rintro ⟨h1, t1⟩ ⟨w1, hab, hat, id, c, ht1, hge⟩
    simp only at w1 hab hat ht1 hge
    subst ht1
    simp only []
    apply Sat.ite_ub (by omega)
    obtain ⟨b, hb, hl, hc, hlen1, hok, hrc, hr0⟩ := w1.owned_head
    have hwl : (fx.insert ++ buf.drop fx.dropRight).length = fx.insert.length + (buf.length - fx.dropRight) := by
      simp
    have hw := w1.write_owned_head (pos := t.len32 - fx.dropLeft)
      (bytes := fx.insert ++ buf.drop fx.dropRight) hb (by omega) (by rw [hwl]; omega)
    rw [write_ok _ hb hl (by omega) (by rw [hwl, hc]; omega)]
    have he : t.len32 - fx.dropLeft + (fx.insert ++ buf.drop fx.dropRight).length
        = t.len32 + fx.insert.length - fx.dropLeft + buf.length - fx.dropRight := by
      rw [hwl]; omega
    have hte : T.owned id (t.len32 - fx.dropLeft + (fx.insert ++ buf.drop fx.dropRight).length) c
        = T.owned id (t.len32 + fx.insert.length - fx.dropLeft + buf.length - fx.dropRight) c := by
      rw [he]
    rw [hte] at hw
    refine Sat.ok ⟨hw, ?_, ?_⟩
    · intro u hu
      have hne : u.bufId? ≠ some id := by
        intro hid
        have := refs_pos_of_mem hu hid
        omega
      rw [abs_set_other hne]; exact hab u hu
    · rw [hps, hlen, ← hat]
      simp only [abs, getElem?_set_self' hb, hb]
      rw [List.take_of_length_le (by simp [List.length_take]; omega)]
      simp only [List.append_assoc, List.take_take]
      congr 2
      omega


theorem unsafeSubtendril_spec {h : Heap} {t : T} {rest : List T} (off len : Nat)
    (w : WF h (t :: rest)) (hb : off + len ≤ t.len32) :
    SatT (unsafeSubtendril h t off len) (fun r => WF r.1 (r.2.1 :: r.2.2 :: rest) ∧
      (∀ u ∈ rest, abs r.1 u = abs h u) ∧ abs r.1 r.2.1 = abs h t ∧
      abs r.1 r.2.2 = ((abs h t).drop off).take len) := by
  have hlen := abs_length (w.twf t (List.mem_cons_self ..))
  unfold unsafeSubtendril
  split
  · rename_i h8
    rw [asByteSlice_head w]
    simp only [bind, Except.bind]
    rw [if_pos (by omega)]
    have hl8 : (((abs h t).drop off).take len).length ≤ 8 := by
      simp [List.length_take]; omega
    rw [mkInline_ok _ hl8]
    have w' : WF h (.inline (((abs h t).drop off).take len) :: t :: rest) := w.cons_inline hl8
    exact SatT.ok ⟨w'.perm (List.Perm.swap ..), fun _ _ => rfl, rfl, rfl⟩
  · rename_i h8
    have hni : t.bufId?.isSome := by
      cases t with
      | inline bs =>
        have := w.twf _ (List.mem_cons_self ..)
        simp only [TWF] at this
        simp only [T.len32] at hb
        omega
      | owned => rfl
      | shared => rfl
    apply (makeBufShared_spec "unsafe_subtendril" w hni).bind
    rintro ⟨h1, t1⟩ ⟨w1, hab, hat, id, o, ht1, _⟩
    simp only at w1 hab hat ht1
    subst ht1
    simp only []
    apply (increfT_spec "unsafe_subtendril" w1).bind
    rintro h2 ⟨hab2, hv⟩
    rw [if_pos hb]
    obtain ⟨hw2, ha2⟩ := hv off len hb
    exact SatT.ok ⟨hw2, fun u _ => (hab2 u).trans (hab u), (hab2 _).trans hat, by rw [ha2, hat]⟩

theorem unsafePopFront_spec {h : Heap} {t : T} {rest : List T} (n : Nat)
    (w : WF h (t :: rest)) (hn : n ≤ t.len32) :
    SatT (unsafePopFront h t n) (fun r => WF r.1 (r.2 :: rest) ∧
      (∀ u ∈ rest, abs r.1 u = abs h u) ∧ abs r.1 r.2 = (abs h t).drop n) := by
  have hlen := abs_length (w.twf t (List.mem_cons_self ..))
  unfold unsafePopFront
  rw [if_neg (by omega)]
  simp only []
  split
  · rename_i h8
    rw [asByteSlice_head w]
    simp only [bind, Except.bind]
    have he : ((abs h t).drop n).take (t.len32 - n) = (abs h t).drop n := by
      apply List.take_of_length_le; simp; omega
    rw [he, mkInline_ok _ (by simp; omega)]
    simp only []
    apply (dropT_spec w).bind
    rintro h1 ⟨w1, hab⟩
    exact SatT.ok ⟨w1.cons_inline (by simp; omega), fun u _ => hab u, rfl⟩
  · rename_i h8
    have hni : t.bufId?.isSome := by
      cases t with
      | inline bs =>
        have := w.twf _ (List.mem_cons_self ..)
        simp only [TWF] at this
        simp only [T.len32] at h8
        omega
      | owned => rfl
      | shared => rfl
    apply (makeBufShared_spec "unsafe_pop_front" w hni).bind
    rintro ⟨h1, t1⟩ ⟨w1, hab, hat, id, o, ht1, _⟩
    simp only at w1 hab hat ht1
    subst ht1
    simp only []
    obtain ⟨b, hb, hl, hc, hlen1, hok, hrc, hno⟩ := w1.shared_head
    refine SatT.ok ⟨w1.replace_head rfl ⟨b, hb, hl, hc, by omega⟩ (by rintro _ _ _ ⟨⟩),
      fun u _ => hab u, ?_⟩
    rw [← hat]
    simp only [abs, hb, List.drop_take, List.drop_drop]
    try (congr 1; omega)

theorem unsafePopBack_spec {h : Heap} {t : T} {rest : List T} (n : Nat)
    (w : WF h (t :: rest)) (hn : n ≤ t.len32) :
    SatT (unsafePopBack h t n) (fun r => WF r.1 (r.2 :: rest) ∧
      (∀ u ∈ rest, abs r.1 u = abs h u) ∧ abs r.1 r.2 = (abs h t).take (t.len32 - n)) := by
  have hlen := abs_length (w.twf t (List.mem_cons_self ..))
  unfold unsafePopBack
  rw [if_neg (by omega)]
  simp only []
  split
  · rename_i h8
    rw [asByteSlice_head w]
    simp only [bind, Except.bind]
    rw [mkInline_ok _ (by simp [List.length_take]; omega)]
    simp only []
    apply (dropT_spec w).bind
    rintro h1 ⟨w1, hab⟩
    exact SatT.ok ⟨w1.cons_inline (by simp [List.length_take]; omega), fun u _ => hab u, rfl⟩
  · rename_i h8
    have hni : t.bufId?.isSome := by
      cases t with
      | inline bs =>
        have := w.twf _ (List.mem_cons_self ..)
        simp only [TWF] at this
        simp only [T.len32] at h8
        omega
      | owned => rfl
      | shared => rfl
    apply (makeBufShared_spec "unsafe_pop_back" w hni).bind
    rintro ⟨h1, t1⟩ ⟨w1, hab, hat, id, o, ht1, _⟩
    simp only at w1 hab hat ht1
    subst ht1
    simp only []
    obtain ⟨b, hb, hl, hc, hlen1, hok, hrc, hno⟩ := w1.shared_head
    refine SatT.ok ⟨w1.replace_head rfl ⟨b, hb, hl, hc, by omega⟩ (by rintro _ _ _ ⟨⟩),
      fun u _ => hab u, ?_⟩
    rw [← hat]
    simp only [abs, hb, List.take_take]
    congr 1
    omega

/-- `try_pop_front` in terms of the format's own suffix check -/
theorem tryPopFront_spec (F : Format) {h : Heap} {t : T} {rest : List T} (n : Nat)
    (w : WF h (t :: rest)) :
    SatT (tryPopFront F h t n) (fun r => WF r.1 (r.2.1 :: rest) ∧
      (∀ u ∈ rest, abs r.1 u = abs h u) ∧
      (r.2.2, abs r.1 r.2.1) =
        (if n = 0 then (none, abs h t)
         else if n > (abs h t).length then (some .outOfBounds, abs h t)
         else if F.validateSuffix ((abs h t).drop n) then (none, (abs h t).drop n)
         else (some .validationFailed, abs h t))) := by
  have hlen := abs_length (w.twf t (List.mem_cons_self ..))
  unfold tryPopFront
  by_cases h0 : n = 0
  · simp only [h0, ↓reduceIte]
    exact SatT.ok ⟨w, fun _ _ => rfl, rfl⟩
  · rw [if_neg h0, if_neg h0, hlen]
    by_cases h1 : n > t.len32
    · rw [if_pos h1, if_pos h1]
      exact SatT.ok ⟨w, fun _ _ => rfl, rfl⟩
    · rw [if_neg h1, if_neg h1, asByteSlice_head w]
      simp only [bind, Except.bind]
      have he : ((abs h t).drop n).take (t.len32 - n) = (abs h t).drop n := by
        apply List.take_of_length_le; simp; omega
      rw [he]
      by_cases hv : F.validateSuffix ((abs h t).drop n) = true
      · simp only [hv, Bool.not_true, Bool.false_eq_true, ↓reduceIte]
        apply (unsafePopFront_spec n w (by omega)).bind
        rintro ⟨h1, t1⟩ ⟨w1, hab, hat⟩
        exact SatT.ok ⟨w1, hab, by simp only [hat]⟩
      · simp only [hv, Bool.not_false, ↓reduceIte]
        simp only [Bool.not_eq_true] at hv
        simp only [hv, Bool.not_false, ↓reduceIte, Bool.false_eq_true]
        exact SatT.ok ⟨w, fun _ _ => rfl, rfl⟩

theorem tryPopBack_spec (F : Format) {h : Heap} {t : T} {rest : List T} (n : Nat)
    (w : WF h (t :: rest)) :
    SatT (tryPopBack F h t n) (fun r => WF r.1 (r.2.1 :: rest) ∧
      (∀ u ∈ rest, abs r.1 u = abs h u) ∧
      (r.2.2, abs r.1 r.2.1) =
        (if n = 0 then (none, abs h t)
         else if n > (abs h t).length then (some .outOfBounds, abs h t)
         else if F.validatePrefix ((abs h t).take ((abs h t).length - n)) then
           (none, (abs h t).take ((abs h t).length - n))
         else (some .validationFailed, abs h t))) := by
  have hlen := abs_length (w.twf t (List.mem_cons_self ..))
  unfold tryPopBack
  by_cases h0 : n = 0
  · simp only [h0, ↓reduceIte]
    exact SatT.ok ⟨w, fun _ _ => rfl, rfl⟩
  · rw [if_neg h0, if_neg h0, hlen]
    by_cases h1 : n > t.len32
    · rw [if_pos h1, if_pos h1]
      exact SatT.ok ⟨w, fun _ _ => rfl, rfl⟩
    · rw [if_neg h1, if_neg h1, asByteSlice_head w]
      simp only [bind, Except.bind]
      by_cases hv : F.validatePrefix ((abs h t).take (t.len32 - n)) = true
      · simp only [hv, Bool.not_true, Bool.false_eq_true, ↓reduceIte]
        apply (unsafePopBack_spec n w (by omega)).bind
        rintro ⟨h1, t1⟩ ⟨w1, hab, hat⟩
        exact SatT.ok ⟨w1, hab, by simp only [hat]⟩
      · simp only [Bool.not_eq_true] at hv
        simp only [hv, Bool.not_false, ↓reduceIte, Bool.false_eq_true]
        exact SatT.ok ⟨w, fun _ _ => rfl, rfl⟩

/-- `try_subtendril` in terms of the format's own subsequence check: either an error and nothing
changes, or a new tendril `s` holding the requested slice -/
theorem trySubtendril_spec (F : Format) {h : Heap} {t : T} {rest : List T} (off len : Nat)
    (w : WF h (t :: rest)) :
    SatT (trySubtendril F h t off len) (fun r =>
      (∀ u ∈ rest, abs r.1 u = abs h u) ∧ abs r.1 r.2.1 = abs h t ∧
      match r.2.2 with
      | .inl e => WF r.1 (r.2.1 :: rest) ∧
          e = (if off > (abs h t).length ∨ len > (abs h t).length - off then SubErr.outOfBounds
               else .validationFailed) ∧
          (¬ (off > (abs h t).length ∨ len > (abs h t).length - off) →
            F.validateSubseq (((abs h t).drop off).take len) = false)
      | .inr s => WF r.1 (r.2.1 :: s :: rest) ∧
          ¬ (off > (abs h t).length ∨ len > (abs h t).length - off) ∧
          F.validateSubseq (((abs h t).drop off).take len) = true ∧
          abs r.1 s = ((abs h t).drop off).take len) := by
  have hlen := abs_length (w.twf t (List.mem_cons_self ..))
  unfold trySubtendril
  rw [hlen]
  by_cases h1 : off > t.len32 ∨ len > t.len32 - off
  · rw [if_pos h1]
    exact SatT.ok ⟨fun _ _ => rfl, rfl, w, by simp only [h1, ↓reduceIte], fun hn => (hn h1).elim⟩
  · rw [if_neg h1, asByteSlice_head w]
    simp only [bind, Except.bind]
    by_cases hv : F.validateSubseq (((abs h t).drop off).take len) = true
    · have hc : ¬ ((!F.validateSubseq (((abs h t).drop off).take len)) = true) := by simp [hv]
      rw [if_neg hc]
      apply (unsafeSubtendril_spec off len w (by omega)).bind
      rintro ⟨h1', t1, s⟩ ⟨w1, hab, hat, has⟩
      exact SatT.ok ⟨hab, hat, w1, h1, hv, has⟩
    · simp only [Bool.not_eq_true] at hv
      have hc : (!F.validateSubseq (((abs h t).drop off).take len)) = true := by simp [hv]
      rw [if_pos hc]
      exact SatT.ok ⟨fun _ _ => rfl, rfl, w, by simp only [h1, ↓reduceIte], fun _ => hv⟩


theorem pushTendril_spec {F : Format} (hF : FixupOK F) {h : Heap} {t o : T} {rest : List T}
    (w : WF h (t :: rest)) (ho : o ∈ rest) :
    Sat (pushTendril F h t o) (fun r => WF r.1 (r.2 :: rest) ∧
      (∀ u ∈ rest, abs r.1 u = abs h u) ∧
      (abs r.1 r.2 = pushSpec F (abs h t) (abs h o) ∨ abs r.1 r.2 = abs h t ++ abs h o)) := by
  have wo : TWF h o := w.twf o (List.mem_cons_of_mem _ ho)
  have slow : Sat (asByteSlice h o >>= fun bs => pushBytesUnchecked F h t bs) (fun r =>
      WF r.1 (r.2 :: rest) ∧ (∀ u ∈ rest, abs r.1 u = abs h u) ∧
      (abs r.1 r.2 = pushSpec F (abs h t) (abs h o) ∨ abs r.1 r.2 = abs h t ++ abs h o)) := by
    rw [asByteSlice_eq wo w.bufs]
    exact (pushBytesUnchecked_spec hF _ w).mono (fun r ⟨a, b, c⟩ => ⟨a, b, Or.inl c⟩)
  unfold pushTendril
  apply Sat.ite_panic; intro _
  split
  · rename_i id off len id2 off2 len2
    split
    · rename_i hfast
      obtain ⟨rfl, rfl⟩ := hfast
      obtain ⟨b, hb, hl, hc, hlen, hok, hrc, hno⟩ := w.shared_head
      obtain ⟨b2, hb2, _, _, hlen2⟩ := wo
      rw [hb] at hb2; cases hb2
      refine Sat.ok ⟨w.replace_head rfl ⟨b, hb, hl, hc, by simp only [T.len32]; omega⟩
        (by rintro _ _ _ ⟨⟩), fun _ _ => rfl, Or.inr ?_⟩
      simp only [abs, hb, T.len32]
      rw [List.take_add, List.drop_drop]
    · exact slow
  · exact slow

/-- `pop_front_char` on byte lists, through the format's `char_indices` -/
def popFrontCharSpec (F : Format) (a : List UInt8) : Option (Option Nat × List UInt8) :=
  match F.charIndices a with
  | none => none
  | some [] => some (none, [])
  | some [(_, c)] => some (some c, [])
  | some ((_, c) :: (n, _) :: _) => some (some c, if n = 0 then [] else a.drop n)

theorem popFrontChar_spec (F : Format) {h : Heap} {t : T} {rest : List T} {cs : List (Nat × Nat)}
    (w : WF h (t :: rest)) (hcs : F.charIndices (abs h t) = some cs)
    (hb : ∀ p ∈ cs, p.1 ≤ (abs h t).length) :
    SatT (popFrontChar F h t) (fun r => WF r.1 (r.2.1 :: rest) ∧
      (∀ u ∈ rest, abs r.1 u = abs h u) ∧
      some (r.2.2, abs r.1 r.2.1) = popFrontCharSpec F (abs h t)) := by
  have hlen := abs_length (w.twf t (List.mem_cons_self ..))
  unfold popFrontChar popFrontCharSpec
  rw [asByteSlice_head w]
  simp only [bind, Except.bind, hcs]
  match cs, hb with
  | [], _ =>
    simp only []
    apply (clearT_spec w).bind
    rintro ⟨h1, t1⟩ ⟨w1, hab, hat⟩
    exact SatT.ok ⟨w1, hab, by simp only [hat]⟩
  | [(i, c)], _ =>
    simp only []
    apply (clearT_spec w).bind
    rintro ⟨h1, t1⟩ ⟨w1, hab, hat⟩
    exact SatT.ok ⟨w1, hab, by simp only [hat]⟩
  | (i, c) :: (n, c2) :: more, hb =>
    simp only []
    by_cases h0 : n = 0
    · simp only [h0, ↓reduceIte]
      apply (clearT_spec w).bind
      rintro ⟨h1, t1⟩ ⟨w1, hab, hat⟩
      exact SatT.ok ⟨w1, hab, by simp only [hat]⟩
    · simp only [h0, ↓reduceIte]
      have hn := hb (n, c2) (by simp)
      apply (unsafePopFront_spec n w (by simp only at hn; omega)).bind
      rintro ⟨h1, t1⟩ ⟨w1, hab, hat⟩
      exact SatT.ok ⟨w1, hab, by simp only [hat]⟩

/-- `pop_front_char_run` on byte lists: (run, class, remainder) -/
def popFrontCharRunSpec (F : Format) (classOf : Nat → Nat) (a : List UInt8) :
    Option (Option (List UInt8 × Nat) × List UInt8) :=
  match F.charIndices a with
  | none => none
  | some [] => some (none, a)
  | some ((_, first) :: rest) =>
    match rest.find? (fun p => classOf p.2 != classOf first) with
    | some (idx, _) => some (some (a.take idx, classOf first), a.drop idx)
    | none => some (some (a, classOf first), [])

theorem popFrontCharRun_spec (F : Format) (classOf : Nat → Nat) {h : Heap} {t : T} {rest : List T}
    {cs : List (Nat × Nat)} (w : WF h (t :: rest)) (hcs : F.charIndices (abs h t) = some cs)
    (hb : ∀ p ∈ cs, p.1 ≤ (abs h t).length) :
    SatT (popFrontCharRun F classOf h t) (fun r =>
      (∀ u ∈ rest, abs r.1 u = abs h u) ∧
      match r.2.2 with
      | none => WF r.1 (r.2.1 :: rest) ∧
          some (none, abs r.1 r.2.1) = popFrontCharRunSpec F classOf (abs h t)
      | some (s, cls) => WF r.1 (r.2.1 :: s :: rest) ∧
          some (some (abs r.1 s, cls), abs r.1 r.2.1) = popFrontCharRunSpec F classOf (abs h t)) := by
  have hlen := abs_length (w.twf t (List.mem_cons_self ..))
  unfold popFrontCharRun popFrontCharRunSpec
  rw [asByteSlice_head w]
  simp only [bind, Except.bind, hcs]
  match cs, hb with
  | [], _ => exact SatT.ok ⟨fun _ _ => rfl, w, rfl⟩
  | (i, first) :: more, hb =>
    simp only []
    cases hf : more.find? (fun p => classOf p.2 != classOf first) with
    | some p =>
      obtain ⟨idx, c2⟩ := p
      simp only []
      have hmem : (idx, c2) ∈ more := List.mem_of_find?_eq_some hf
      have hn := hb (idx, c2) (List.mem_cons_of_mem _ hmem)
      simp only at hn
      apply (unsafeSubtendril_spec 0 idx w (by omega)).bind
      rintro ⟨h1, t1, s⟩ ⟨w1, hab, hat, has⟩
      simp only at w1 hab hat has
      have hl1 : t1.len32 = t.len32 := by
        rw [← abs_length (w1.twf t1 (List.mem_cons_self ..)), hat, hlen]
      apply (unsafePopFront_spec idx w1 (by omega)).bind
      rintro ⟨h2, t2⟩ ⟨w2, hab2, hat2⟩
      simp only at w2 hab2 hat2
      refine SatT.ok ⟨fun u hu => (hab2 u (List.mem_cons_of_mem _ hu)).trans (hab u hu), w2, ?_⟩
      simp only [hat2, hat, hab2 s (List.mem_cons_self ..), has, List.drop_zero]
    | none =>
      simp only []
      apply (cloneT_spec w).bind
      rintro ⟨h1, t1, s⟩ ⟨w1, hab, hat, has⟩
      simp only at w1 hab hat has
      apply (clearT_spec w1).bind
      rintro ⟨h2, t2⟩ ⟨w2, hab2, hat2⟩
      simp only at w2 hab2 hat2
      refine SatT.ok ⟨fun u hu => (hab2 u (List.mem_cons_of_mem _ hu)).trans (hab u), w2, ?_⟩
      simp only [hat2, hab2 s (List.mem_cons_self ..), has]

theorem reserveT_spec {h : Heap} {t : T} {rest : List T} (n : Nat) (w : WF h (t :: rest)) :
    Sat (reserveT h t n) (fun r => WF r.1 (r.2 :: rest) ∧ (∀ u ∈ rest, abs r.1 u = abs h u) ∧
      abs r.1 r.2 = abs h t) := by
  unfold reserveT
  split
  · exact Sat.ok ⟨w, fun _ _ => rfl, rfl⟩
  · apply Sat.ite_panic; intro _
    split
    · exact (makeOwnedWithCapacity_spec _ w).mono (fun r ⟨a, b, c, _⟩ => ⟨a, b, c⟩)
    · exact Sat.ok ⟨w, fun _ _ => rfl, rfl⟩

theorem withCapacity_spec {h : Heap} {ts : List T} (n : Nat) (w : WF h ts) :
    Sat (withCapacity h n) (fun r => WF r.1 (r.2 :: ts) ∧ (∀ u ∈ ts, abs r.1 u = abs h u) ∧
      abs r.1 r.2 = []) := by
  unfold withCapacity
  have w0 : WF h (.inline [] :: ts) := w.cons_inline (by simp)
  split
  · exact (makeOwnedWithCapacity_spec _ w0).mono (fun r ⟨a, b, c, _⟩ => ⟨a, b, c⟩)
  · exact Sat.ok ⟨w0, fun _ _ => rfl, rfl⟩

theorem derefMut_spec {h : Heap} {t : T} {rest : List T} (w : WF h (t :: rest)) :
    Sat (derefMut h t) (fun r => WF r.1 (r.2 :: rest) ∧ (∀ u ∈ rest, abs r.1 u = abs h u) ∧
      abs r.1 r.2 = abs h t ∧ r.2.len32 = t.len32 ∧ ¬ r.2.isShared) := by
  cases t with
  | inline bs => exact Sat.ok ⟨w, fun _ _ => rfl, rfl, rfl, by simp [T.isShared]⟩
  | owned id len cap =>
    exact (makeOwned_spec w).mono (fun r ⟨a, b, c, i, cp, e⟩ => ⟨a, b, c, by rw [e]; rfl, by rw [e]; simp [T.isShared]⟩)
  | shared id off len =>
    exact (makeOwned_spec w).mono (fun r ⟨a, b, c, i, cp, e⟩ => ⟨a, b, c, by rw [e]; rfl, by rw [e]; simp [T.isShared]⟩)

theorem storeByte_spec {h : Heap} {t : T} {rest : List T} (k : Nat) (v : UInt8)
    (w : WF h (t :: rest)) (hs : ¬ t.isShared) (hk : k < t.len32) :
    SatT (storeByte h t k v) (fun r => WF r.1 (r.2 :: rest) ∧ (∀ u ∈ rest, abs r.1 u = abs h u) ∧
      abs r.1 r.2 = (abs h t).set k v) := by
  cases t with
  | inline bs =>
    simp only [T.len32] at hk
    simp only [storeByte, hk, ↓reduceIte]
    have := w.twf _ (List.mem_cons_self ..)
    simp only [TWF] at this
    exact SatT.ok ⟨w.tail_inline.cons_inline (by simpa using this), fun _ _ => rfl, rfl⟩
  | shared id off len => simp [T.isShared] at hs
  | owned id len cap =>
    simp only [T.len32] at hk
    obtain ⟨b, hb, hl, hc, hlen, hok, hrc, hr0⟩ := w.owned_head
    simp only [storeByte, hk, ↓reduceIte, bind, Except.bind]
    have hok1 := hok.1
    rw [poke_ok _ hb hl (by omega) (by omega)]
    refine SatT.ok ⟨w.poke_owned_head hb (by omega), ?_, ?_⟩
    · intro u hu
      have hne : u.bufId? ≠ some id := by
        intro hid
        have := refs_pos_of_mem hu hid
        omega
      exact abs_set_other hne
    · simp only [abs, getElem?_set_self' hb, hb]
      rw [List.take_set]


/-! ## no panic below 2 GiB

`Sat` admits a panic anywhere; these lemmas show that the panics of the model (the crate's `OFLOW`
guards and length asserts) do not fire while all sizes stay ≤ 2^31. -/

/-- the computation does not panic -/
def NP {α : Type} (x : M α) : Prop := ∀ s, x ≠ .error (.panic s)

theorem NP.ok {α} {a : α} : NP (.ok a : M α) := by intro s h; cases h

theorem NP.ub {α} {u : String} : NP (.error (.ub u) : M α) := by intro s h; cases h

theorem NP.bind {α β} {x : M α} {f : α → M β} (hx : NP x) (hf : ∀ a, x = .ok a → NP (f a)) :
    NP (x >>= f) := by
  cases x with
  | ok a => exact hf a rfl
  | error e =>
    cases e with
    | panic s => exact (hx s rfl).elim
    | ub u => exact NP.ub

theorem NP.of_satT {α} {x : M α} {Q : α → Prop} (h : SatT x Q) : NP x := by
  obtain ⟨a, rfl, _⟩ := h; exact NP.ok

theorem NP.ite_panic {α} {c : Prop} [Decidable c] {s : String} {x : M α} (hc : ¬ c) (h : NP x) :
    NP (if c then .error (.panic s) else x) := by
  rw [if_neg hc]; exact h

theorem NP.ite_ub {α} {c : Prop} [Decidable c] {s : String} {x : M α} (h : NP x) :
    NP (if c then .error (.ub s) else x) := by
  split
  · exact NP.ub
  · exact h

theorem roundCap_le {x : Nat} (h : x ≤ 2147483648) : roundCap x ≤ 4294967295 := by
  unfold roundCap; omega

theorem nextPow2Fuel_le (f p n k : Nat) (hk : k ≤ f) (hn : n ≤ p * 2 ^ k) :
    nextPow2Fuel f p n ≤ p * 2 ^ k := by
  induction f generalizing p k with
  | zero =>
    have : k = 0 := by omega
    subst this; simp [nextPow2Fuel]
  | succ f ih =>
    unfold nextPow2Fuel
    split
    · have : 1 ≤ 2 ^ k := Nat.one_le_two_pow
      calc p = p * 1 := (Nat.mul_one p).symm
        _ ≤ p * 2 ^ k := Nat.mul_le_mul_left p this
    · rename_i hgt
      cases k with
      | zero => simp at hn; omega
      | succ k =>
        have := ih (2 * p) k (by omega) (by rw [Nat.pow_succ] at hn; rw [Nat.mul_comm 2 p, Nat.mul_assoc, Nat.mul_comm 2 (2 ^ k)]; exact hn)
        rw [Nat.pow_succ, ← Nat.mul_assoc, Nat.mul_comm p (2 ^ k), Nat.mul_assoc, Nat.mul_comm (2 ^ k) (p * 2),
          Nat.mul_comm p 2]
        exact this

theorem nextPow2_le {n : Nat} (h : n ≤ 2147483648) : nextPow2 n ≤ 2147483648 := by
  have := nextPow2Fuel_le 33 1 n 31 (by omega) (by simpa using h)
  simpa [nextPow2] using this

theorem np_ownedCopy {h : Heap} (x : List UInt8) (hx : x.length ≤ 2147483648) : NP (ownedCopy h x) := by
  unfold ownedCopy buf32WithCapacity
  simp only []
  have hc : ¬ roundCap (if x.length < 16 then 16 else x.length) > 4294967295 := by
    have : roundCap (if x.length < 16 then 16 else x.length) ≤ 4294967295 := by
      apply roundCap_le; split <;> omega
    omega
  simp only [hc, ↓reduceIte, Heap.alloc, bind, Except.bind]
  generalize hcc : roundCap (if x.length < 16 then 16 else x.length) = c
  have h1 : x.length ≤ c := by
    subst hcc; split
    · have := le_roundCap 16; omega
    · exact le_roundCap _
  have hnb : (h.bufs ++ [(⟨[], c, 0, 1, true⟩ : Buf)])[h.bufs.length]? = some ⟨[], c, 0, 1, true⟩ := by
    simp
  have hwr := write_ok (h := ⟨h.bufs ++ [⟨[], c, 0, 1, true⟩], .alloc h.bufs.length c :: h.trace⟩)
    (id := h.bufs.length) (pos := 0) (bytes := x) (b := ⟨[], c, 0, 1, true⟩) "owned_copy" hnb rfl
    (Nat.zero_le _) (by simpa using h1)
  rw [hwr]
  exact NP.ok

theorem np_makeOwned {h : Heap} {t : T} {rest : List T} (w : WF h (t :: rest))
    (hl : t.len32 ≤ 2147483648) : NP (makeOwned h t) := by
  have hlen := abs_length (w.twf t (List.mem_cons_self ..))
  have key : NP (asByteSlice h t >>= fun bs => ownedCopy h bs >>= fun r =>
      dropT r.1 t >>= fun h' => (.ok (h', r.2) : M (Heap × T))) := by
    rw [asByteSlice_head w]
    apply NP.bind (np_ownedCopy _ (by rw [hlen]; exact hl))
    rintro ⟨h1, t1⟩ he
    obtain ⟨w1, _⟩ := (ownedCopy_spec (abs h t) w).of_ok he
    have w1' : WF h1 (t :: t1 :: rest) := w1.perm (List.Perm.swap ..)
    apply NP.bind (NP.of_satT (dropT_spec w1'))
    intro h2 _
    exact NP.ok
  cases t with
  | owned id len cap => exact NP.ok
  | inline bs => exact key
  | shared id off len => exact key

theorem np_buf32Grow {h : Heap} {id len cap : Nat} {rest : List T} (newCap : Nat)
    (w : WF h (.owned id len cap :: rest)) (hn : newCap ≤ 2147483648) : NP (buf32Grow h id cap newCap) := by
  obtain ⟨b, hb, hl, hc, hlen, hok, hrc, hr0⟩ := w.owned_head
  unfold buf32Grow
  split
  · exact NP.ok
  · simp only []
    have h1 := nextPow2_le hn
    apply NP.ite_panic (by omega)
    apply NP.ite_panic (by have := roundCap_le h1; omega)
    rw [realloc_ok _ hb hl hc.symm]
    exact NP.ok

theorem np_makeOwnedWithCapacity {h : Heap} {t : T} {rest : List T} (cap : Nat) (w : WF h (t :: rest))
    (hl : t.len32 ≤ 2147483648) (hc : cap ≤ 2147483648) : NP (makeOwnedWithCapacity h t cap) := by
  unfold makeOwnedWithCapacity
  apply NP.bind (np_makeOwned w hl)
  rintro ⟨h1, t1⟩ he
  obtain ⟨w1, _, _, id, c, ht1⟩ := (makeOwned_spec w).of_ok he
  simp only at w1 ht1
  subst ht1
  simp only []
  apply NP.bind (np_buf32Grow cap w1 hc)
  rintro ⟨h2, id2, c2⟩ _
  exact NP.ok

theorem np_fromBytesUnchecked {h : Heap} (x : List UInt8) (hx : x.length ≤ 2147483648) :
    NP (fromBytesUnchecked h x) := by
  unfold fromBytesUnchecked
  apply NP.ite_panic (by omega)
  split
  · rename_i h8
    rw [mkInline_ok _ h8]; exact NP.ok
  · exact np_ownedCopy x hx

theorem np_pushBytesUnchecked {F : Format} (hF : ∀ a b, F.fixup a b = {}) {h : Heap} {t : T}
    {rest : List T} (buf : List UInt8) (w : WF h (t :: rest))
    (hs : t.len32 + buf.length ≤ 2147483648) : NP (pushBytesUnchecked F h t buf) := by
  have hlen := abs_length (w.twf t (List.mem_cons_self ..))
  unfold pushBytesUnchecked
  simp only [bind, Except.bind]
  apply NP.ite_panic (by omega)
  rw [asByteSlice_head w]
  simp only [hF, List.length_nil, Nat.add_zero, Nat.sub_zero]
  apply NP.ite_panic (by omega)
  apply NP.ite_panic (by omega)
  apply NP.ite_panic (by omega)
  apply NP.ite_panic (by omega)
  apply NP.ite_ub
  split
  · apply NP.ite_ub
    rename_i h8
    have h8' : (List.take (t.len32 + buf.length)
        (List.take (abs h t).length (abs h t) ++ [] ++ List.drop 0 buf)).length ≤ 8 := by
      simp [List.length_take]; omega
    rw [mkInline_ok _ h8']
    simp only []
    apply NP.bind (NP.of_satT (dropT_spec w))
    intro h1 _
    exact NP.ok
  · apply NP.bind (np_makeOwnedWithCapacity _ w (by omega) (by omega))
    rintro ⟨h1, t1⟩ he
    obtain ⟨w1, _, _, id, c, ht1, hge⟩ := (makeOwnedWithCapacity_spec _ w).of_ok he
    simp only at w1 ht1 hge
    subst ht1
    simp only []
    apply NP.ite_ub
    obtain ⟨b, hb, hl, hc, hlen1, hok, hrc, hr0⟩ := w1.owned_head
    rw [write_ok _ hb hl (by omega) (by simp; omega)]
    exact NP.ok

theorem np_pushTendril {F : Format} (hF : ∀ a b, F.fixup a b = {}) {h : Heap} {t o : T}
    {rest : List T} (w : WF h (t :: rest)) (ho : o ∈ rest)
    (hs : t.len32 + o.len32 ≤ 2147483648) : NP (pushTendril F h t o) := by
  have wo : TWF h o := w.twf o (List.mem_cons_of_mem _ ho)
  have hlo := abs_length wo
  have slow : NP (asByteSlice h o >>= fun bs => pushBytesUnchecked F h t bs) := by
    rw [asByteSlice_eq wo w.bufs]
    exact np_pushBytesUnchecked hF _ w (by rw [hlo]; exact hs)
  unfold pushTendril
  apply NP.ite_panic (by omega)
  split
  · split
    · exact NP.ok
    · exact slow
  · exact slow

theorem np_reserveT {h : Heap} {t : T} {rest : List T} (n : Nat) (w : WF h (t :: rest))
    (hs : t.len32 + n ≤ 2147483648) : NP (reserveT h t n) := by
  unfold reserveT
  split
  · exact NP.ok
  · apply NP.ite_panic (by omega)
    split
    · exact np_makeOwnedWithCapacity _ w (by omega) hs
    · exact NP.ok

theorem np_withCapacity {h : Heap} {ts : List T} (n : Nat) (w : WF h ts) (hn : n ≤ 2147483648) :
    NP (withCapacity h n) := by
  unfold withCapacity
  have w0 : WF h (.inline [] :: ts) := w.cons_inline (by simp)
  split
  · exact np_makeOwnedWithCapacity _ w0 (by simp [T.len32]) hn
  · exact NP.ok

theorem np_derefMut {h : Heap} {t : T} {rest : List T} (w : WF h (t :: rest))
    (hl : t.len32 ≤ 2147483648) : NP (derefMut h t) := by
  cases t with
  | inline bs => exact NP.ok
  | owned id len cap => exact np_makeOwned w hl
  | shared id off len => exact np_makeOwned w hl


end H5V.Lemmas.Tendril
