import H5V.Lemmas.HtmlTBModesBodyDefs
import H5V.Lemmas.HtmlTBModesPrimPop
import H5V.Lemmas.HtmlTBModesPrimIns2
import H5V.Lemmas.HtmlTBModesPrimFmt2
import H5V.Lemmas.HtmlTBModesSmall2
/-!
The "in body" insertion mode, slice 4: formatting elements, `applet`/`marquee`/`object`, `table`, the void
elements, `input`, `hr`, `image`, `textarea`, `xmp`, `iframe`, `noembed`.
-/
namespace H5V.Lemmas.HtmlTBModes
open H5V.Model.HtmlTB
open H5V.Model.Dom (Id SinkOp Output Dom QualName Attr NodeOrText ElementFlags NodeData QuirksMode)
open H5V.Lemmas.HtmlTBAlgo
open H5V.Lemmas.TBSafe (TI HInv SInv Rooted)
open H5V.Spec.TreeAlgo2 (Elem Entry PState Ctx Edit Place)
open H5V.Spec.TreeModes (STok ETok IMode Config Out TokSwitch XOp Op Step Edition)

set_option linter.unusedSimpArgs false

/-! ### the arms of the model's `stepInBody` -/

theorem b4_model_a (t : Tag) (hk : t.kind = .startTag) (hn : t.name = "a".toList) :
    stepInBody (.tag t) = (do
      handleMisnestedATags
      reconstructActiveFormattingElements
      let _ ← createFormattingElementFor t
      pure .done) := by
  simp +decide only [stepInBody, Tag.isStart, Tag.isEnd, isOneOf_cons, isOneOf_nil, Bool.or_false, hk, hn, if_false, if_true]

theorem b4_model_fmt (t : Tag) (hk : t.kind = .startTag)
    (hn : isOneOf t.name ["b", "big", "code", "em", "font", "i", "s", "small", "strike", "strong", "tt", "u"] = true) :
    stepInBody (.tag t) = (do
      reconstructActiveFormattingElements
      let _ ← createFormattingElementFor t
      pure .done) := by
  simp only [isOneOf_cons, isOneOf_nil, Bool.or_false, Bool.or_eq_true, decide_eq_true_eq] at hn
  rcases hn with h | h | h | h | h | h | h | h | h | h | h | h <;>
  simp +decide only [stepInBody, Tag.isStart, Tag.isEnd, isOneOf_cons, isOneOf_nil, Bool.or_false, hk, h, if_false, if_true]

theorem b4_model_nobr (t : Tag) (hk : t.kind = .startTag) (hn : t.name = "nobr".toList) :
    stepInBody (.tag t) = (do
      reconstructActiveFormattingElements
      if ← inScopeNamed defaultScope "nobr" then
        parseError "Nested <nobr>"
        adoptionAgency "nobr".toList
        reconstructActiveFormattingElements
      let _ ← createFormattingElementFor t
      pure .done) := by
  simp +decide only [stepInBody, Tag.isStart, Tag.isEnd, isOneOf_cons, isOneOf_nil, Bool.or_false, hk, hn, if_false, if_true]

theorem b4_model_fmtEnd (t : Tag) (hk : t.kind = .endTag)
    (hn : isOneOf t.name ["a", "b", "big", "code", "em", "font", "i", "nobr", "s", "small", "strike", "strong", "tt", "u"] = true) :
    stepInBody (.tag t) = (do
      adoptionAgency t.name
      pure .done) := by
  simp only [isOneOf_cons, isOneOf_nil, Bool.or_false, Bool.or_eq_true, decide_eq_true_eq] at hn
  rcases hn with h | h | h | h | h | h | h | h | h | h | h | h | h | h <;>
  simp +decide only [stepInBody, Tag.isStart, Tag.isEnd, isOneOf_cons, isOneOf_nil, Bool.or_false, hk, h, if_false, if_true]

theorem b4_model_amoStart (t : Tag) (hk : t.kind = .startTag)
    (hn : isOneOf t.name ["applet", "marquee", "object"] = true) :
    stepInBody (.tag t) = (do
      reconstructActiveFormattingElements
      let _ ← insertElementFor t
      pushMarker
      setFramesetOk false
      pure .done) := by
  simp only [isOneOf_cons, isOneOf_nil, Bool.or_false, Bool.or_eq_true, decide_eq_true_eq] at hn
  rcases hn with h | h | h <;>
  simp +decide only [stepInBody, Tag.isStart, Tag.isEnd, isOneOf_cons, isOneOf_nil, Bool.or_false, hk, h, if_false, if_true]

theorem b4_model_amoEnd (t : Tag) (hk : t.kind = .endTag)
    (hn : isOneOf t.name ["applet", "marquee", "object"] = true) :
    stepInBody (.tag t) = (do
      if !(← inScopeNamedS defaultScope t.name) then
        let _ ← unexpected
      else
        generateImpliedEndTags cursoryImpliedEnd
        expectToCloseS t.name
        clearActiveFormattingToMarker
      pure .done) := by
  simp only [isOneOf_cons, isOneOf_nil, Bool.or_false, Bool.or_eq_true, decide_eq_true_eq] at hn
  rcases hn with h | h | h <;>
  simp +decide only [stepInBody, Tag.isStart, Tag.isEnd, isOneOf_cons, isOneOf_nil, Bool.or_false, hk, h, if_false, if_true]

theorem b4_model_table (t : Tag) (hk : t.kind = .startTag) (hn : t.name = "table".toList) :
    stepInBody (.tag t) = (do
      if (← getS).quirksMode != .quirks then closePElementInButtonScope
      let _ ← insertElementFor t
      setFramesetOk false
      setMode .inTable
      pure .done) := by
  simp +decide only [stepInBody, Tag.isStart, Tag.isEnd, isOneOf_cons, isOneOf_nil, Bool.or_false, hk, hn, if_false, if_true]

theorem b4_model_brEnd (t : Tag) (hk : t.kind = .endTag) (hn : t.name = "br".toList) :
    stepInBody (.tag t) = (do
      let _ ← unexpected
      inBodyVoid { t with kind := .startTag, attrs := [] }) := by
  simp +decide only [stepInBody, Tag.isStart, Tag.isEnd, isOneOf_cons, isOneOf_nil, Bool.or_false, hk, hn, if_false, if_true]

theorem b4_model_void (t : Tag) (hk : t.kind = .startTag)
    (hn : isOneOf t.name ["area", "br", "embed", "img", "keygen", "wbr"] = true) :
    stepInBody (.tag t) = inBodyVoid t := by
  simp only [isOneOf_cons, isOneOf_nil, Bool.or_false, Bool.or_eq_true, decide_eq_true_eq] at hn
  rcases hn with h | h | h | h | h | h <;>
  simp +decide only [stepInBody, Tag.isStart, Tag.isEnd, isOneOf_cons, isOneOf_nil, Bool.or_false, hk, h, if_false, if_true]

theorem b4_model_input (t : Tag) (hk : t.kind = .startTag) (hn : t.name = "input".toList) :
    stepInBody (.tag t) = (do
      if ← contextIsSelect "rules.rs:823" then
        let _ ← unexpected
        pure .done
      else
        if ← inScopeNamed defaultScope "select" then
          let _ ← unexpected
          let _ ← popUntilNamed "select"
        let hidden := isTypeHidden t
        reconstructActiveFormattingElements
        let _ ← insertAndPopElementFor t
        if !hidden then setFramesetOk false
        pure .doneAckSelfClosing) := by
  simp +decide only [stepInBody, Tag.isStart, Tag.isEnd, isOneOf_cons, isOneOf_nil, Bool.or_false, hk, hn, if_false, if_true]

theorem b4_model_param (t : Tag) (hk : t.kind = .startTag)
    (hn : isOneOf t.name ["param", "source", "track"] = true) :
    stepInBody (.tag t) = (do
      let _ ← insertAndPopElementFor t
      pure .doneAckSelfClosing) := by
  simp only [isOneOf_cons, isOneOf_nil, Bool.or_false, Bool.or_eq_true, decide_eq_true_eq] at hn
  rcases hn with h | h | h <;>
  simp +decide only [stepInBody, Tag.isStart, Tag.isEnd, isOneOf_cons, isOneOf_nil, Bool.or_false, hk, h, if_false, if_true]

theorem b4_model_hr (t : Tag) (hk : t.kind = .startTag) (hn : t.name = "hr".toList) :
    stepInBody (.tag t) = (do
      closePElementInButtonScope
      if ← inScopeNamed defaultScope "select" then
        generateImpliedEndTags cursoryImpliedEnd
        let nested ← do
          if ← inScopeNamed defaultScope "option" then pure true
          else inScopeNamed defaultScope "optgroup"
        if nested then parseError "hr in option"
      let _ ← insertAndPopElementFor t
      setFramesetOk false
      pure .doneAckSelfClosing) := by
  simp +decide only [stepInBody, Tag.isStart, Tag.isEnd, isOneOf_cons, isOneOf_nil, Bool.or_false, hk, hn, if_false, if_true]

theorem b4_model_image (t : Tag) (hk : t.kind = .startTag) (hn : t.name = "image".toList) :
    stepInBody (.tag t) = (do
      let _ ← unexpected
      inBodyVoid { t with name := "img".toList }) := by
  simp +decide only [stepInBody, Tag.isStart, Tag.isEnd, isOneOf_cons, isOneOf_nil, Bool.or_false, hk, hn, if_false, if_true]

theorem b4_model_textarea (t : Tag) (hk : t.kind = .startTag) (hn : t.name = "textarea".toList) :
    stepInBody (.tag t) = (do
      modS fun s => { s with ignoreLf := true }
      setFramesetOk false
      parseRawData t .rcdata) := by
  simp +decide only [stepInBody, Tag.isStart, Tag.isEnd, isOneOf_cons, isOneOf_nil, Bool.or_false, hk, hn, if_false, if_true]

theorem b4_model_xmp (t : Tag) (hk : t.kind = .startTag) (hn : t.name = "xmp".toList) :
    stepInBody (.tag t) = (do
      closePElementInButtonScope
      reconstructActiveFormattingElements
      setFramesetOk false
      parseRawData t .rawtext) := by
  simp +decide only [stepInBody, Tag.isStart, Tag.isEnd, isOneOf_cons, isOneOf_nil, Bool.or_false, hk, hn, if_false, if_true]

theorem b4_model_iframe (t : Tag) (hk : t.kind = .startTag) (hn : t.name = "iframe".toList) :
    stepInBody (.tag t) = (do
      setFramesetOk false
      parseRawData t .rawtext) := by
  simp +decide only [stepInBody, Tag.isStart, Tag.isEnd, isOneOf_cons, isOneOf_nil, Bool.or_false, hk, hn, if_false, if_true]

theorem b4_model_noembed (t : Tag) (hk : t.kind = .startTag) (hn : t.name = "noembed".toList) :
    stepInBody (.tag t) = parseRawData t .rawtext := by
  simp +decide only [stepInBody, Tag.isStart, Tag.isEnd, isOneOf_cons, isOneOf_nil, Bool.or_false, hk, hn, if_false, if_true]

/-! ### the clauses of the specification's `inBody` -/

section SpecArms
variable (cfg : Config Id) (σ : SState) (st : STag)

theorem b4_spec_start (hn : st.name ≠ "image".toList) :
    Spec.TreeModes.inBody cfg σ (.startTag st) = Spec.TreeModes.inBodyStartTagCore cfg σ st := by
  simp only [Spec.TreeModes.inBody, Spec.TreeModes.inBodyStartTag, Spec.TreeModes.Tag.is, strIs_eq, hn, decide_false,
    Bool.false_eq_true, if_false]

theorem b4_spec_image (hn : st.name = "image".toList) :
    Spec.TreeModes.inBody cfg σ (.startTag st)
      = Spec.TreeModes.inBodyStartTagCore cfg (σ.err "in body: image start tag") { st with name := "img".toList } := by
  simp only [Spec.TreeModes.inBody, Spec.TreeModes.inBodyStartTag, Spec.TreeModes.Tag.is, strIs_eq, hn, decide_true, if_true]

theorem b4_core_a (hn : st.name = "a".toList) :
    Spec.TreeModes.inBodyStartTagCore cfg σ st = Spec.TreeModes.inBodyStartA σ st := by
  simp +decide only [Spec.TreeModes.inBodyStartTagCore, Spec.TreeModes.Tag.is, Spec.TreeModes.Tag.isOneOf, strIs_eq,
    strIsOneOf_cons, strIsOneOf_nil, Spec.TreeModes.blockStart, Spec.TreeModes.formattingStart, Spec.TreeTables.heading,
    Bool.or_false, hn, if_true, if_false]


theorem b4_core_fmt
    (hn : isOneOf st.name ["b", "big", "code", "em", "font", "i", "s", "small", "strike", "strong", "tt", "u"] = true) :
    Spec.TreeModes.inBodyStartTagCore cfg σ st = (do
      let s ← Spec.TreeModes.reconstruct σ
      let r ← Spec.TreeModes.insertHtml s st
      pure (.done (Spec.TreeModes.pushFormatting r.1 r.2 st))) := by
  simp only [isOneOf_cons, isOneOf_nil, Bool.or_false, Bool.or_eq_true, decide_eq_true_eq] at hn
  rcases hn with h | h | h | h | h | h | h | h | h | h | h | h <;>
  simp +decide only [Spec.TreeModes.inBodyStartTagCore, Spec.TreeModes.Tag.is, Spec.TreeModes.Tag.isOneOf, strIs_eq,
    strIsOneOf_cons, strIsOneOf_nil, Spec.TreeModes.blockStart, Spec.TreeModes.formattingStart, Spec.TreeTables.heading,
    Bool.or_false, h, if_true, if_false]

theorem b4_core_nobr (hn : st.name = "nobr".toList) :
    Spec.TreeModes.inBodyStartTagCore cfg σ st = Spec.TreeModes.inBodyStartNobr cfg σ st := by
  simp +decide only [Spec.TreeModes.inBodyStartTagCore, Spec.TreeModes.Tag.is, Spec.TreeModes.Tag.isOneOf, strIs_eq,
    strIsOneOf_cons, strIsOneOf_nil, Spec.TreeModes.blockStart, Spec.TreeModes.formattingStart, Spec.TreeTables.heading,
    Bool.or_false, hn, if_true, if_false]

theorem b4_core_amo (hn : isOneOf st.name ["applet", "marquee", "object"] = true) :
    Spec.TreeModes.inBodyStartTagCore cfg σ st = (do
      let s ← Spec.TreeModes.reconstruct σ
      let s ← Spec.TreeModes.insertHtml' s st
      pure (.done s.insertMarker.notOk)) := by
  simp only [isOneOf_cons, isOneOf_nil, Bool.or_false, Bool.or_eq_true, decide_eq_true_eq] at hn
  rcases hn with h | h | h <;>
  simp +decide only [Spec.TreeModes.inBodyStartTagCore, Spec.TreeModes.Tag.is, Spec.TreeModes.Tag.isOneOf, strIs_eq,
    strIsOneOf_cons, strIsOneOf_nil, Spec.TreeModes.blockStart, Spec.TreeModes.formattingStart, Spec.TreeTables.heading,
    Bool.or_false, h, if_true, if_false]

theorem b4_core_table (hn : st.name = "table".toList) :
    Spec.TreeModes.inBodyStartTagCore cfg σ st = (do
      let s := if σ.quirks != .quirks then Spec.TreeModes.closePIfInButtonScope cfg σ else σ
      let s ← Spec.TreeModes.insertHtml' s st
      pure (.done (s.notOk.setMode .inTable))) := by
  simp +decide only [Spec.TreeModes.inBodyStartTagCore, Spec.TreeModes.Tag.is, Spec.TreeModes.Tag.isOneOf, strIs_eq,
    strIsOneOf_cons, strIsOneOf_nil, Spec.TreeModes.blockStart, Spec.TreeModes.formattingStart, Spec.TreeTables.heading,
    Bool.or_false, hn, if_true, if_false]

theorem b4_core_void (hn : isOneOf st.name ["area", "br", "embed", "img", "keygen", "wbr"] = true) :
    Spec.TreeModes.inBodyStartTagCore cfg σ st = (do
      let s ← Spec.TreeModes.reconstruct σ
      let s ← Spec.TreeModes.insertVoid s st
      pure (.done s.notOk)) := by
  simp only [isOneOf_cons, isOneOf_nil, Bool.or_false, Bool.or_eq_true, decide_eq_true_eq] at hn
  rcases hn with h | h | h | h | h | h <;>
  simp +decide only [Spec.TreeModes.inBodyStartTagCore, Spec.TreeModes.Tag.is, Spec.TreeModes.Tag.isOneOf, strIs_eq,
    strIsOneOf_cons, strIsOneOf_nil, Spec.TreeModes.blockStart, Spec.TreeModes.formattingStart, Spec.TreeTables.heading,
    Bool.or_false, h, if_true, if_false]

theorem b4_core_input (hn : st.name = "input".toList) :
    Spec.TreeModes.inBodyStartTagCore cfg σ st = Spec.TreeModes.inBodyStartInput cfg σ st := by
  simp +decide only [Spec.TreeModes.inBodyStartTagCore, Spec.TreeModes.Tag.is, Spec.TreeModes.Tag.isOneOf, strIs_eq,
    strIsOneOf_cons, strIsOneOf_nil, Spec.TreeModes.blockStart, Spec.TreeModes.formattingStart, Spec.TreeTables.heading,
    Bool.or_false, hn, if_true, if_false]

theorem b4_core_param (hn : isOneOf st.name ["param", "source", "track"] = true) :
    Spec.TreeModes.inBodyStartTagCore cfg σ st = Step.done <$> Spec.TreeModes.insertVoid σ st := by
  simp only [isOneOf_cons, isOneOf_nil, Bool.or_false, Bool.or_eq_true, decide_eq_true_eq] at hn
  rcases hn with h | h | h <;>
  simp +decide only [Spec.TreeModes.inBodyStartTagCore, Spec.TreeModes.Tag.is, Spec.TreeModes.Tag.isOneOf, strIs_eq,
    strIsOneOf_cons, strIsOneOf_nil, Spec.TreeModes.blockStart, Spec.TreeModes.formattingStart, Spec.TreeTables.heading,
    Bool.or_false, h, if_true, if_false]

theorem b4_core_hr (hn : st.name = "hr".toList) :
    Spec.TreeModes.inBodyStartTagCore cfg σ st = Spec.TreeModes.inBodyStartHr cfg σ st := by
  simp +decide only [Spec.TreeModes.inBodyStartTagCore, Spec.TreeModes.Tag.is, Spec.TreeModes.Tag.isOneOf, strIs_eq,
    strIsOneOf_cons, strIsOneOf_nil, Spec.TreeModes.blockStart, Spec.TreeModes.formattingStart, Spec.TreeTables.heading,
    Bool.or_false, hn, if_true, if_false]

theorem b4_core_textarea (hn : st.name = "textarea".toList) :
    Spec.TreeModes.inBodyStartTagCore cfg σ st = (do
      let s ← Spec.TreeModes.insertHtml' σ st
      let s := { s with ignoreLf := true }
      let s := s.switchTokenizer .rcdata
      let s := { s with originalMode := s.mode }
      let s := s.notOk
      pure (.done (s.setMode .text))) := by
  simp +decide only [Spec.TreeModes.inBodyStartTagCore, Spec.TreeModes.Tag.is, Spec.TreeModes.Tag.isOneOf, strIs_eq,
    strIsOneOf_cons, strIsOneOf_nil, Spec.TreeModes.blockStart, Spec.TreeModes.formattingStart, Spec.TreeTables.heading,
    Bool.or_false, hn, if_true, if_false]

theorem b4_core_xmp (hn : st.name = "xmp".toList) :
    Spec.TreeModes.inBodyStartTagCore cfg σ st = (do
      let s ← Spec.TreeModes.reconstruct (Spec.TreeModes.closePIfInButtonScope cfg σ)
      Step.done <$> Spec.TreeModes.genericRawText s.notOk st) := by
  simp +decide only [Spec.TreeModes.inBodyStartTagCore, Spec.TreeModes.Tag.is, Spec.TreeModes.Tag.isOneOf, strIs_eq,
    strIsOneOf_cons, strIsOneOf_nil, Spec.TreeModes.blockStart, Spec.TreeModes.formattingStart, Spec.TreeTables.heading,
    Bool.or_false, hn, if_true, if_false]

theorem b4_core_iframe (hn : st.name = "iframe".toList) :
    Spec.TreeModes.inBodyStartTagCore cfg σ st = Step.done <$> Spec.TreeModes.genericRawText σ.notOk st := by
  simp +decide only [Spec.TreeModes.inBodyStartTagCore, Spec.TreeModes.Tag.is, Spec.TreeModes.Tag.isOneOf, strIs_eq,
    strIsOneOf_cons, strIsOneOf_nil, Spec.TreeModes.blockStart, Spec.TreeModes.formattingStart, Spec.TreeTables.heading,
    Bool.or_false, hn, if_true, if_false]

theorem b4_core_noembed (hn : st.name = "noembed".toList) :
    Spec.TreeModes.inBodyStartTagCore cfg σ st = Step.done <$> Spec.TreeModes.genericRawText σ st := by
  simp +decide only [Spec.TreeModes.inBodyStartTagCore, Spec.TreeModes.Tag.is, Spec.TreeModes.Tag.isOneOf, strIs_eq,
    strIsOneOf_cons, strIsOneOf_nil, Spec.TreeModes.blockStart, Spec.TreeModes.formattingStart, Spec.TreeTables.heading,
    Bool.or_false, Bool.true_or, decide_true, hn, if_true, if_false]

/-! end tags -/

theorem b4_end_fmt
    (hn : isOneOf st.name ["a", "b", "big", "code", "em", "font", "i", "nobr", "s", "small", "strike", "strong", "tt", "u"] = true) :
    Spec.TreeModes.inBody cfg σ (.endTag st) = Step.done <$> Spec.TreeModes.adoptionAgency σ st.name := by
  simp only [isOneOf_cons, isOneOf_nil, Bool.or_false, Bool.or_eq_true, decide_eq_true_eq] at hn
  rcases hn with h | h | h | h | h | h | h | h | h | h | h | h | h | h <;>
  simp +decide only [Spec.TreeModes.inBody, Spec.TreeModes.inBodyEndTag, Spec.TreeModes.Tag.is, Spec.TreeModes.Tag.isOneOf, strIs_eq,
    strIsOneOf_cons, strIsOneOf_nil, Spec.TreeModes.blockEnd, Spec.TreeModes.formattingEnd, Spec.TreeTables.heading,
    Bool.or_false, Bool.and_false, decide_false, decide_true, Bool.false_or, Bool.false_eq_true, h, if_true, if_false]

theorem b4_end_amo (hn : isOneOf st.name ["applet", "marquee", "object"] = true) :
    Spec.TreeModes.inBody cfg σ (.endTag st) =
      (if !Spec.TreeModes.hasStrInScope cfg σ st.name then
        pure (.done (σ.err "in body: applet/marquee/object end tag without element in scope"))
      else
        let s := Spec.TreeModes.genImplied σ
        let s := if s.cur.any (fun e => Spec.TreeModes.isNamed st.name e.name) then s
          else s.err "in body: applet/marquee/object end tag, current node differs"
        let s := Spec.TreeModes.popUntilPoppedStr s st.name
        pure (.done s.clearToLastMarker)) := by
  simp only [isOneOf_cons, isOneOf_nil, Bool.or_false, Bool.or_eq_true, decide_eq_true_eq] at hn
  rcases hn with h | h | h <;>
  simp +decide only [Spec.TreeModes.inBody, Spec.TreeModes.inBodyEndTag, Spec.TreeModes.Tag.is, Spec.TreeModes.Tag.isOneOf, strIs_eq,
    strIsOneOf_cons, strIsOneOf_nil, Spec.TreeModes.blockEnd, Spec.TreeModes.formattingEnd, Spec.TreeTables.heading,
    Bool.or_false, Bool.and_false, decide_false, decide_true, Bool.false_or, Bool.false_eq_true, h, if_true, if_false]

theorem b4_end_br (hn : st.name = "br".toList) :
    Spec.TreeModes.inBody cfg σ (.endTag st) =
      Spec.TreeModes.inBodyStartTagCore cfg (σ.err "in body: br end tag") (Spec.TreeModes.bareTag "br") := by
  simp +decide only [Spec.TreeModes.inBody, Spec.TreeModes.inBodyEndTag, Spec.TreeModes.Tag.is, Spec.TreeModes.Tag.isOneOf, strIs_eq,
    strIsOneOf_cons, strIsOneOf_nil, Spec.TreeModes.blockEnd, Spec.TreeModes.formattingEnd, Spec.TreeTables.heading,
    Bool.or_false, Bool.and_false, decide_false, decide_true, Bool.false_or, Bool.false_eq_true, hn, if_true, if_false]

end SpecArms

theorem b4_notSpecial_fmt {n : Str}
    (hn : isOneOf n ["b", "big", "code", "em", "font", "i", "s", "small", "strike", "strong", "tt", "u"] = true) :
    Spec.TreeAlgo.inTable Spec.TreeTables.special ⟨Spec.TreeAlgo.nsHtml, n⟩ = false := by
  simp only [isOneOf_cons, isOneOf_nil, Bool.or_false, Bool.or_eq_true, decide_eq_true_eq] at hn
  rcases hn with h | h | h | h | h | h | h | h | h | h | h | h <;> rw [h] <;> decide +kernel

theorem b4_ne_image_of {n : Str} {l : List String} (hn : isOneOf n l = true) (hl : isOneOf "image".toList l = false) :
    n ≠ "image".toList := by
  intro h; rw [h] at hn; rw [hn] at hl; cases hl

theorem body_fmt {t : Tag} (hwf : TagWf t) (hk : t.kind = .startTag)
    (hn : isOneOf t.name ["b", "big", "code", "em", "font", "i", "s", "small", "strike", "strong", "tt", "u"] = true)
    {s : State} (hm : MInv s) :
    PC (stepInBody (.tag t)) s (TokPost (fun σ => Spec.TreeModes.inBody (cfgOf s) σ (stokOf (.tag t))) s (.tag t)) := by
  rw [b4_model_fmt t hk hn]
  have hni : (specTag t).name ≠ "image".toList := b4_ne_image_of hn (by decide)
  refine pc_seq (pc_reconstruct hm) ?_
  rintro _ s1 c1 he1 ⟨hS1, hw1, htr1⟩
  have hm1 := htr1.1
  refine pc_seq (pc_createFormattingElementFor hm1 t hk hwf.plain (b4_notSpecial_fmt hn)) ?_
  rintro elem s2 c2 he2 ⟨_, hw2, htr2⟩
  refine pc_pure (tokPost_of_tr (by rw [List.append_nil]; exact htr1.trans htr2) trivial ?_)
  rintro x x'' hx hx'' ⟨x1, r1, σ1, e, r2, re, r3⟩
  refine ⟨x'', ?_, AuxSame.rfl', Or.inl rfl, rfl, rfl⟩
  simp only [stokOf, stokOfTag_start hk]
  rw [b4_spec_start _ _ _ hni, b4_core_fmt _ _ _ hn]
  simp only [r1, r2, bind, Except.bind, pure, Except.pure, r3, stepOf]

theorem body_a {t : Tag} (hwf : TagWf t) (hk : t.kind = .startTag) (hn : t.name = "a".toList)
    {s : State} (hm : MInv s) :
    PC (stepInBody (.tag t)) s (TokPost (fun σ => Spec.TreeModes.inBody (cfgOf s) σ (stokOf (.tag t))) s (.tag t)) := by
  rw [b4_model_a t hk hn]
  have hni : (specTag t).name ≠ "image".toList := by show t.name ≠ _; rw [hn]; decide
  have hns : Spec.TreeAlgo.inTable Spec.TreeTables.special ⟨Spec.TreeAlgo.nsHtml, t.name⟩ = false := by
    rw [hn]; decide +kernel
  refine pc_seq (pc_handleMisnestedATags hm) ?_
  rintro _ s0 c0 he0 ⟨hS0, hw0, htr0⟩
  have hm0 := htr0.1
  refine pc_seq (pc_reconstruct hm0) ?_
  rintro _ s1 c1 he1 ⟨hS1, hw1, htr1⟩
  have hm1 := htr1.1
  refine pc_seq (pc_createFormattingElementFor hm1 t hk hwf.plain hns) ?_
  rintro elem s2 c2 he2 ⟨_, hw2, htr2⟩
  refine pc_pure (tokPost_of_tr (by rw [List.append_nil, ← List.append_assoc]; exact (htr0.trans htr1).trans htr2) trivial ?_)
  rintro x x'' hx hx'' ⟨x1, ⟨x0, r0, r1⟩, σ1, e, r2, re, r3⟩
  refine ⟨x'', ?_, AuxSame.rfl', Or.inl rfl, rfl, rfl⟩
  simp only [stokOf, stokOfTag_start hk]
  rw [b4_spec_start _ _ _ hni, b4_core_a _ _ _ hn, inBodyStartA_eq]
  rw [show (specTag t).name = "a".toList from hn]
  simp only [r0, r1, r2, bind, Except.bind, pure, Except.pure, r3, stepOf]

theorem body_fmtEnd {t : Tag} (hk : t.kind = .endTag)
    (hn : isOneOf t.name ["a", "b", "big", "code", "em", "font", "i", "nobr", "s", "small", "strike", "strong", "tt", "u"] = true)
    {s : State} (hm : MInv s) :
    PC (stepInBody (.tag t)) s (TokPost (fun σ => Spec.TreeModes.inBody (cfgOf s) σ (stokOf (.tag t))) s (.tag t)) := by
  rw [b4_model_fmtEnd t hk hn]
  refine pc_seq (pc_adoptionAgency hm t.name) ?_
  rintro _ s1 c1 he1 ⟨hS1, hw1, htr1⟩
  refine pc_pure (tokPost_of_tr (by rw [List.append_nil]; exact htr1) trivial ?_)
  rintro x x'' hx hx'' r1
  refine ⟨x'', ?_, AuxSame.rfl', Or.inl rfl, rfl, rfl⟩
  simp only [stokOf, stokOfTag_end hk]
  rw [b4_end_fmt _ _ _ hn]
  simp only [specTag_name, r1, Functor.map, Except.map, stepOf]

theorem body_nobr {t : Tag} (hwf : TagWf t) (hk : t.kind = .startTag) (hn : t.name = "nobr".toList)
    {s : State} (hm : MInv s) :
    PC (stepInBody (.tag t)) s (TokPost (fun σ => Spec.TreeModes.inBody (cfgOf s) σ (stokOf (.tag t))) s (.tag t)) := by
  rw [b4_model_nobr t hk hn]
  have hni : (specTag t).name ≠ "image".toList := by show t.name ≠ _; rw [hn]; decide
  have hns : Spec.TreeAlgo.inTable Spec.TreeTables.special ⟨Spec.TreeAlgo.nsHtml, t.name⟩ = false := by
    rw [hn]; decide +kernel
  refine pc_seq (pc_reconstruct hm) ?_
  rintro _ s1 c1 he1 ⟨hS1, hw1, htr1⟩
  have hm1 := htr1.1
  have hc1 : cfgOf s1 = cfgOf s := htr1.2.1
  refine pc_seq (pc_inScopeNamed_default hm1 "nobr") ?_
  rintro b s2 c2 he2 htr2
  have hm2 := htr2.1
  cases b with
  | false =>
    simp only [Bool.false_eq_true, if_false]
    refine pc_seq (pc_createFormattingElementFor hm2 t hk hwf.plain hns) ?_
    rintro elem s3 c3 he3 ⟨_, hw3, htr3⟩
    refine pc_pure (tokPost_of_tr (by rw [List.append_nil, ← List.append_assoc]; exact (htr1.trans htr2).trans htr3) trivial ?_)
    rintro x x'' hx hx'' ⟨x2, ⟨x1, r1, hx2, e2, hb⟩, σ1, e, r3, re, r4⟩
    subst hx2
    refine ⟨x'', ?_, AuxSame.rfl', Or.inl rfl, rfl, rfl⟩
    simp only [stokOf, stokOfTag_start hk]
    rw [b4_spec_start _ _ _ hni, b4_core_nobr _ _ _ hn]
    rw [hc1, e2] at hb
    simp only [Spec.TreeModes.inBodyStartNobr, r1, bind, Except.bind, ← hb, Bool.false_eq_true, if_false, pure, Except.pure, e2, r3, r4,
      stepOf]
  | true =>
    simp only [if_true]
    refine pc_seq (pc_parseError hm2 _) ?_
    rintro _ s3 c3 he3 htr3
    have hm3 := htr3.1
    have htre := Tr.err hm3 "in body: nobr start tag with nobr in scope"
    refine pc_seq (pc_adoptionAgency hm3 "nobr".toList) ?_
    rintro _ s4 c4 he4 ⟨hS4, hw4, htr4⟩
    have hm4 := htr4.1
    refine pc_seq (pc_reconstruct hm4) ?_
    rintro _ s5 c5 he5 ⟨hS5, hw5, htr5⟩
    have hm5 := htr5.1
    refine pc_seq (pc_createFormattingElementFor hm5 t hk hwf.plain hns) ?_
    rintro elem s6 c6 he6 ⟨_, hw6, htr6⟩
    have htr := (((((htr1.trans htr2).trans htr3).trans htre).trans htr4).trans htr5).trans htr6
    refine pc_pure (tokPost_of_tr (calls := c1 ++ (c2 ++ (c3 ++ (c4 ++ (c5 ++ (c6 ++ [])))))) (by simpa [List.append_assoc] using htr) trivial ?_)
    rintro x x'' hx hx'' ⟨x5, ⟨x4, ⟨xe, ⟨x3, ⟨x2, ⟨x1, r1, hx2, e2, hb⟩, hx3, e3⟩, hxe⟩, r4⟩, r5⟩, σ1, e, r6, re, r7⟩
    subst hx2; subst hx3; subst hxe
    refine ⟨x'', ?_, AuxSame.rfl', Or.inl rfl, rfl, rfl⟩
    simp only [stokOf, stokOfTag_start hk]
    rw [b4_spec_start _ _ _ hni, b4_core_nobr _ _ _ hn]
    rw [hc1, e2] at hb
    have r4' : Spec.TreeModes.adoptionAgency ((absF s3 x3).err "in body: nobr start tag with nobr in scope") "nobr".toList
        = .ok (absF s4 x4) := r4
    have hn' : (specTag t).name = "nobr".toList := hn
    simp only [Spec.TreeModes.inBodyStartNobr, hn', r1, bind, Except.bind, ← hb, if_true, pure, Except.pure, e2, e3, stepOf]
    rw [r4']; dsimp only
    rw [r5]; dsimp only
    rw [r6]; dsimp only
    rw [r7]

theorem body_amoStart {t : Tag} (hwf : TagWf t) (hk : t.kind = .startTag)
    (hn : isOneOf t.name ["applet", "marquee", "object"] = true) {s : State} (hm : MInv s) :
    PC (stepInBody (.tag t)) s (TokPost (fun σ => Spec.TreeModes.inBody (cfgOf s) σ (stokOf (.tag t))) s (.tag t)) := by
  rw [b4_model_amoStart t hk hn]
  have hni : (specTag t).name ≠ "image".toList := b4_ne_image_of hn (by decide)
  refine pc_seq (pc_reconstruct hm) ?_
  rintro _ s1 c1 he1 ⟨hS1, hw1, htr1⟩
  have hm1 := htr1.1
  refine pc_seq (pc_insertElementFor' hm1 hwf.plain) ?_
  rintro a s2 c2 he2 ⟨-, -, -, -, -, htr2⟩
  have hm2 := htr2.1
  refine pc_seq (pc_pushMarker hm2) ?_
  rintro _ s3 c3 he3 ⟨-, htr3⟩
  have hm3 := htr3.1
  refine pc_seq (pc_setFramesetNotOk hm3) ?_
  rintro _ s4 c4 he4 ⟨-, htr4⟩
  have htr := ((htr1.trans htr2).trans htr3).trans htr4
  refine pc_pure (tokPost_of_tr (calls := c1 ++ (c2 ++ (c3 ++ (c4 ++ [])))) (by simpa [List.append_assoc] using htr) trivial ?_)
  rintro x x'' hx hx'' ⟨x3, ⟨x2, ⟨x1, r1, r2⟩, hx3, r3⟩, hx4, r4⟩
  subst hx3; subst hx4
  refine ⟨x'', ?_, AuxSame.rfl', Or.inl rfl, rfl, rfl⟩
  simp only [stokOf, stokOfTag_start hk]
  rw [b4_spec_start _ _ _ hni, b4_core_amo _ _ _ hn]
  simp only [r1, r2, bind, Except.bind, pure, Except.pure, r3, r4, stepOf]

theorem body_amoEnd {t : Tag} (hk : t.kind = .endTag)
    (hn : isOneOf t.name ["applet", "marquee", "object"] = true) {s : State} (hm : MInv s) :
    PC (stepInBody (.tag t)) s (TokPost (fun σ => Spec.TreeModes.inBody (cfgOf s) σ (stokOf (.tag t))) s (.tag t)) := by
  rw [b4_model_amoEnd t hk hn]
  refine pc_seq (pc_inScopeNamedS_default hm t.name) ?_
  rintro b s1 c1 he1 htr1
  have hm1 := htr1.1
  cases b with
  | false =>
    simp only [Bool.not_false, if_true]
    refine pc_seq (pc_unexpected hm1) ?_
    rintro _ s2 c2 he2 ⟨-, htr2⟩
    refine pc_pure (tokPost_of_tr (calls := c1 ++ (c2 ++ [])) (by simpa [List.append_assoc] using htr1.trans htr2) trivial ?_)
    rintro x x'' hx hx'' ⟨x1, ⟨hx1, e1, hb⟩, hx2, e2⟩
    subst hx1; subst hx2
    refine ⟨{ x'' with errors := x''.errors ++ ["in body: applet/marquee/object end tag without element in scope"] }, ?_,
      ⟨rfl, rfl, rfl, rfl, rfl⟩, Or.inl rfl, rfl, rfl⟩
    simp only [stokOf, stokOfTag_end hk]
    rw [b4_end_amo _ _ _ hn]
    have hb' : Spec.TreeModes.hasStrInScope (cfgOf s) (absF s x'') t.name = false := by first | exact hb | exact hb.symm
    simp only [specTag_name, hb', Bool.not_false, if_true, stepOf, absF_err, ← e2, ← e1]
    rfl
  | true =>
    simp only [Bool.not_true, Bool.false_eq_true, if_false]
    refine pc_seq (pc_generateImpliedEndTags_cursory hm1) ?_
    rintro _ s2 c2 he2 htr2
    have hm2 := htr2.1
    refine pc_seq (pc_expectToCloseS hm2 t.name) ?_
    rintro _ s3 c3 he3 htr3
    have hm3 := htr3.1
    refine pc_seq (pc_clearActiveFormattingToMarker hm3) ?_
    rintro _ s4 c4 he4 ⟨-, htr4⟩
    have htr := ((htr1.trans htr2).trans htr3).trans htr4
    refine pc_pure (tokPost_of_tr (calls := c1 ++ (c2 ++ (c3 ++ (c4 ++ [])))) (by simpa [List.append_assoc] using htr) trivial ?_)
    rintro x x'' hx hx'' ⟨x3, ⟨x2, ⟨x1, ⟨hx1, e1, hb⟩, hx2, e2⟩, hx3, e3⟩, hx4, e4⟩
    subst hx1; subst hx2; subst hx3; subst hx4
    simp only [stokOf, stokOfTag_end hk]
    rw [b4_end_amo _ _ _ hn]
    have hb' : Spec.TreeModes.hasStrInScope (cfgOf s) (absF s x'') t.name = true := by first | exact hb | exact hb.symm
    simp only [specTag_name, hb', Bool.not_true, Bool.false_eq_true, if_false, stepOf]
    by_cases hcur : (Spec.TreeModes.genImplied (absF s x'')).cur.any (fun e => Spec.TreeModes.isNamed t.name e.name) = true
    · refine ⟨x'', ?_, AuxSame.rfl', Or.inl rfl, rfl, rfl⟩
      simp only [hcur, if_true, ← e4, e3, e2, ← e1]
      rfl
    · refine ⟨{ x'' with errors := x''.errors ++ ["in body: applet/marquee/object end tag, current node differs"] }, ?_,
        ⟨rfl, rfl, rfl, rfl, rfl⟩, Or.inl rfl, rfl, rfl⟩
      simp only [hcur, Bool.false_eq_true, if_false, absF_err, ← e4, e3, e2, ← e1]
      rfl

theorem b4_dmode_ne_quirks (q : QuirksMode) : (dmode q != Spec.TreeAlgo.DocMode.quirks) = (q != .quirks) := by
  cases q <;> rfl

theorem body_table {t : Tag} (hwf : TagWf t) (hk : t.kind = .startTag) (hn : t.name = "table".toList)
    {s : State} (hm : MInv s) :
    PC (stepInBody (.tag t)) s (TokPost (fun σ => Spec.TreeModes.inBody (cfgOf s) σ (stokOf (.tag t))) s (.tag t)) := by
  rw [b4_model_table t hk hn]
  have hni : (specTag t).name ≠ "image".toList := by show t.name ≠ _; rw [hn]; decide
  have hn' : (specTag t).name = "table".toList := hn
  -- the tail after the optional "close a p element"
  have tail : ∀ (s1 : State) (c1 : List Call) (R : Aux → Aux → Prop), Tr s s1 c1 R →
      (∀ x x1, AuxOk s x → R x x1 →
        absF s1 x1 = (if (absF s x).quirks != .quirks then Spec.TreeModes.closePIfInButtonScope (cfgOf s) (absF s x) else absF s x)) →
      PC (do
          let _ ← insertElementFor t
          setFramesetOk false
          setMode .inTable
          pure ProcessResult.done) s1
        (fun b s2 c2 => TokPost (fun σ => Spec.TreeModes.inBody (cfgOf s) σ (stokOf (.tag t))) s (.tag t) b s2 (c1 ++ c2)) := by
    intro s1 c1 R htr1 hR
    have hm1 := htr1.1
    refine pc_seq (pc_insertElementFor' hm1 hwf.plain) ?_
    rintro a s2 c2 he2 ⟨-, -, -, -, -, htr2⟩
    have hm2 := htr2.1
    refine pc_seq (pc_setFramesetNotOk hm2) ?_
    rintro _ s3 c3 he3 ⟨-, htr3⟩
    have hm3 := htr3.1
    refine pc_seq (pc_setMode_junk hm3 .inTable (by decide)) ?_
    rintro _ s4 c4 he4 ⟨-, htr4⟩
    have htr := ((htr1.trans htr2).trans htr3).trans htr4
    refine pc_pure (tokPost_of_tr (calls := c1 ++ (c2 ++ (c3 ++ (c4 ++ [])))) (by simpa [List.append_assoc] using htr) trivial ?_)
    rintro x x'' hx hx'' ⟨x3, ⟨x2, ⟨x1, r1, r2⟩, hx3, r3⟩, hx4, r4⟩
    subst hx3
    refine ⟨x'', ?_, AuxSame.rfl', Or.inl rfl, rfl, rfl⟩
    simp only [stokOf, stokOfTag_start hk]
    rw [b4_spec_start _ _ _ hni, b4_core_table _ _ _ hn']
    simp only [← hR x x1 hx r1, r2, bind, Except.bind, pure, Except.pure, r3, r4, stepOf, imode]
  refine pc_getS_bind ?_
  cases hq : (s.quirksMode != .quirks) with
  | false =>
    simp only [Bool.false_eq_true, if_false]
    have := tail s [] _ (Tr.refl hm) (fun x x1 hx (h : x1 = x) => by
      subst h
      have : ((absF s x1).quirks != .quirks) = false := by
        show (dmode s.quirksMode != _) = false; rw [b4_dmode_ne_quirks, hq]
      simp only [this, Bool.false_eq_true, if_false])
    simpa using this
  | true =>
    simp only [if_true]
    refine pc_seq (pc_closePElementInButtonScope hm) ?_
    rintro _ s1 c1 he1 htr1
    refine tail s1 c1 _ htr1 ?_
    rintro x x1 hx ⟨-, e⟩
    have : ((absF s x).quirks != .quirks) = true := by
      show (dmode s.quirksMode != _) = true; rw [b4_dmode_ne_quirks, hq]
    simp only [this, if_true, e]

/-! ### the void elements -/

theorem b4_ack_notOk (σ : SState) (t : STag) : (σ.ack t).notOk = (σ.notOk).ack t := by
  unfold Spec.TreeModes.State.ack
  split <;> rfl

theorem b4_insertHtml'_etok (σ : SState) (a b : STag) (h : a.etok = b.etok) :
    Spec.TreeModes.insertHtml' σ a = Spec.TreeModes.insertHtml' σ b := by
  simp only [Spec.TreeModes.insertHtml', Spec.TreeModes.insertHtml, h]

/-- `inBodyVoid tag` (Rules.lean): reconstruct, insert and pop, frameset-ok -/
theorem b4_inBodyVoid {s : State} (hm : MInv s) {t : Tag} (hp : PlainTag t) :
    PC (inBodyVoid t) s (fun r s' calls => r = .doneAckSelfClosing ∧
      Tr s s' calls (fun x x' => ∃ σ1 σ2, Spec.TreeModes.reconstruct (absF s x) = .ok σ1 ∧
        Spec.TreeModes.insertHtml' σ1 (specTag t) = .ok σ2 ∧ absF s' x' = σ2.pop.notOk)) := by
  unfold inBodyVoid
  refine pc_seq (pc_reconstruct hm) ?_
  rintro _ s1 c1 he1 ⟨-, -, htr1⟩
  have hm1 := htr1.1
  refine pc_seq (pc_insertAndPopElementFor hm1 hp) ?_
  rintro a s2 c2 he2 ⟨-, -, -, -, -, htr2⟩
  have hm2 := htr2.1
  refine pc_seq (pc_setFramesetNotOk hm2) ?_
  rintro _ s3 c3 he3 ⟨-, htr3⟩
  refine pc_pure ⟨rfl, ?_⟩
  have htr := (htr1.trans htr2).trans htr3
  have hc : c1 ++ (c2 ++ (c3 ++ [])) = c1 ++ c2 ++ c3 := by simp [List.append_assoc]
  rw [hc]
  refine htr.conseq ?_
  rintro x x'' hx hx'' ⟨x2, ⟨x1, r1, σ2, r2, e2⟩, hx3, r3⟩
  subst hx3
  exact ⟨_, σ2, r1, r2, by rw [r3, e2]⟩

/-- the specification's clause for the void elements, given the pieces -/
theorem b4_voidSpec {σ σ1 σ2 : SState} {st : STag} (r1 : Spec.TreeModes.reconstruct σ = .ok σ1)
    (r2 : Spec.TreeModes.insertHtml' σ1 st = .ok σ2) :
    (do
      let s ← Spec.TreeModes.reconstruct σ
      let s ← Spec.TreeModes.insertVoid s st
      pure (Step.done s.notOk) : Spec.TreeModes.M (Step Id)) = .ok (.done ((σ2.pop.notOk).ack st)) := by
  simp only [r1, Spec.TreeModes.insertVoid, r2, bind, Except.bind, pure, Except.pure, b4_ack_notOk]

theorem body_void {t : Tag} (hwf : TagWf t) (hk : t.kind = .startTag)
    (hn : isOneOf t.name ["area", "br", "embed", "img", "keygen", "wbr"] = true) {s : State} (hm : MInv s) :
    PC (stepInBody (.tag t)) s (TokPost (fun σ => Spec.TreeModes.inBody (cfgOf s) σ (stokOf (.tag t))) s (.tag t)) := by
  rw [b4_model_void t hk hn]
  have hni : (specTag t).name ≠ "image".toList := b4_ne_image_of hn (by decide)
  refine pc_conseq (b4_inBodyVoid hm hwf.plain) ?_
  rintro r s' calls _ ⟨rfl, htr⟩
  refine tokPost_ack (specTag t) htr ?_
  rintro x x' hx hx' ⟨σ1, σ2, r1, r2, e⟩
  simp only [stokOf, stokOfTag_start hk]
  rw [b4_spec_start _ _ _ hni, b4_core_void _ _ _ hn, b4_voidSpec r1 r2, e]

theorem body_brEnd {t : Tag} (hk : t.kind = .endTag) (hn : t.name = "br".toList) {s : State} (hm : MInv s) :
    PC (stepInBody (.tag t)) s (TokPost (fun σ => Spec.TreeModes.inBody (cfgOf s) σ (stokOf (.tag t))) s (.tag t)) := by
  rw [b4_model_brEnd t hk hn]
  refine pc_seq (pc_unexpected hm) ?_
  rintro _ s1 c1 he1 ⟨-, htr1⟩
  have hm1 := htr1.1
  have htre := Tr.err hm1 "in body: br end tag"
  have hp : PlainTag { t with kind := .startTag, attrs := [] } := fun a ha => by cases ha
  refine pc_conseq (b4_inBodyVoid hm1 hp) ?_
  rintro r s2 c2 _ ⟨rfl, htr2⟩
  have htr := (htr1.trans htre).trans htr2
  rw [List.append_nil] at htr
  refine tokPost_ack (Spec.TreeModes.bareTag "br") htr ?_
  rintro x x' hx hx' ⟨xe, ⟨x1, ⟨hx1, e1⟩, hxe⟩, σ1, σ2, r1, r2, e⟩
  subst hx1; subst hxe
  simp only [stokOf, stokOfTag_end hk]
  rw [b4_end_br _ _ _ hn, b4_core_void _ _ _ (by decide)]
  rw [absF_err, ← e1] at r1
  have r2' : Spec.TreeModes.insertHtml' σ1 (Spec.TreeModes.bareTag "br") = .ok σ2 := by
    rw [← r2]
    apply b4_insertHtml'_etok
    simp only [Spec.TreeModes.Tag.etok, Spec.TreeModes.bareTag, specTag, hn, List.map_nil]
  rw [b4_voidSpec r1 r2', e]

theorem body_image {t : Tag} (hwf : TagWf t) (hk : t.kind = .startTag) (hn : t.name = "image".toList)
    {s : State} (hm : MInv s) :
    PC (stepInBody (.tag t)) s (TokPost (fun σ => Spec.TreeModes.inBody (cfgOf s) σ (stokOf (.tag t))) s (.tag t)) := by
  rw [b4_model_image t hk hn]
  refine pc_seq (pc_unexpected hm) ?_
  rintro _ s1 c1 he1 ⟨-, htr1⟩
  have hm1 := htr1.1
  have htre := Tr.err hm1 "in body: image start tag"
  have hp : PlainTag { t with name := "img".toList } := hwf.plain
  refine pc_conseq (b4_inBodyVoid hm1 hp) ?_
  rintro r s2 c2 _ ⟨rfl, htr2⟩
  have htr := (htr1.trans htre).trans htr2
  rw [List.append_nil] at htr
  refine tokPost_ack (specTag t) htr ?_
  rintro x x' hx hx' ⟨xe, ⟨x1, ⟨hx1, e1⟩, hxe⟩, σ1, σ2, r1, r2, e⟩
  subst hx1; subst hxe
  simp only [stokOf, stokOfTag_start hk]
  rw [b4_spec_image _ _ _ hn, b4_core_void _ _ _ (show isOneOf "img".toList _ = true by decide)]
  rw [absF_err, ← e1] at r1
  have r2' : Spec.TreeModes.insertHtml' σ1 { specTag t with name := "img".toList } = .ok σ2 := r2
  rw [b4_voidSpec r1 r2', e]
  rfl

theorem body_param {t : Tag} (hwf : TagWf t) (hk : t.kind = .startTag)
    (hn : isOneOf t.name ["param", "source", "track"] = true) {s : State} (hm : MInv s) :
    PC (stepInBody (.tag t)) s (TokPost (fun σ => Spec.TreeModes.inBody (cfgOf s) σ (stokOf (.tag t))) s (.tag t)) := by
  rw [b4_model_param t hk hn]
  have hni : (specTag t).name ≠ "image".toList := b4_ne_image_of hn (by decide)
  refine pc_seq (pc_insertVoid hm hwf.plain) ?_
  rintro a s1 c1 he1 ⟨-, -, -, -, -, htr1⟩
  refine pc_pure (tokPost_of_tr (by rw [List.append_nil]; exact htr1) trivial ?_)
  rintro x x' hx hx' r1
  refine ⟨x', ?_, AuxSame.rfl', Or.inl rfl, rfl, rfl⟩
  simp only [stokOf, stokOfTag_start hk]
  rw [b4_spec_start _ _ _ hni, b4_core_param _ _ _ hn]
  simp only [r1, Functor.map, Except.map, stepOf]

theorem body_noembed {t : Tag} (hwf : TagWf t) (hk : t.kind = .startTag) (hn : t.name = "noembed".toList)
    {s : State} (hm : MInv s) :
    PC (stepInBody (.tag t)) s (TokPost (fun σ => Spec.TreeModes.inBody (cfgOf s) σ (stokOf (.tag t))) s (.tag t)) := by
  rw [b4_model_noembed t hk hn]
  have hni : (specTag t).name ≠ "image".toList := by show t.name ≠ _; rw [hn]; decide
  refine pc_tokPost_congr (pc_parseRawData_rawtext hm hwf.plain (.tag t)) ?_
  intro x hx
  simp only [stokOf, stokOfTag_start hk]
  rw [b4_spec_start _ _ _ hni, b4_core_noembed _ _ _ hn]

/-- the pieces of the generic raw text / RCDATA element parsing algorithm -/
theorem b4_genericSpec {σ σ1 : SState} {st : STag} {sw : TokSwitch} (r : Spec.TreeModes.insertHtml' σ st = .ok σ1) :
    Spec.TreeModes.genericTextElement σ st sw
      = .ok (({ σ1 with originalMode := σ1.mode, mode := .text } : SState).switchTokenizer sw) := by
  simp only [Spec.TreeModes.genericTextElement, r, bind, Except.bind, pure, Except.pure]
  rfl

theorem body_iframe {t : Tag} (hwf : TagWf t) (hk : t.kind = .startTag) (hn : t.name = "iframe".toList)
    {s : State} (hm : MInv s) :
    PC (stepInBody (.tag t)) s (TokPost (fun σ => Spec.TreeModes.inBody (cfgOf s) σ (stokOf (.tag t))) s (.tag t)) := by
  rw [b4_model_iframe t hk hn]
  have hni : (specTag t).name ≠ "image".toList := by show t.name ≠ _; rw [hn]; decide
  refine pc_seq (pc_setFramesetNotOk hm) ?_
  rintro _ s1 c1 he1 ⟨-, htr1⟩
  have hm1 := htr1.1
  refine pc_conseq (pc_parseRawData hm1 hwf.plain .rawtext) ?_
  rintro r s2 c2 _ ⟨rfl, -, -, -, -, -, -, -, htr2⟩
  refine tokPost_toRawData (htr1.trans htr2) ?_
  rintro x x' hx hx' ⟨x1, ⟨hx1, e1⟩, σ1, r2, e2⟩
  subst hx1
  simp only [stokOf, stokOfTag_start hk]
  rw [b4_spec_start _ _ _ hni, b4_core_iframe _ _ _ hn]
  rw [e1] at r2
  simp only [Spec.TreeModes.genericRawText, b4_genericSpec r2, Functor.map, Except.map, e2]
  rfl

theorem body_xmp {t : Tag} (hwf : TagWf t) (hk : t.kind = .startTag) (hn : t.name = "xmp".toList)
    {s : State} (hm : MInv s) :
    PC (stepInBody (.tag t)) s (TokPost (fun σ => Spec.TreeModes.inBody (cfgOf s) σ (stokOf (.tag t))) s (.tag t)) := by
  rw [b4_model_xmp t hk hn]
  have hni : (specTag t).name ≠ "image".toList := by show t.name ≠ _; rw [hn]; decide
  refine pc_seq (pc_closePElementInButtonScope hm) ?_
  rintro _ s0 c0 he0 htr0
  have hm0 := htr0.1
  refine pc_seq (pc_reconstruct hm0) ?_
  rintro _ s1 c1 he1 ⟨-, -, htr1⟩
  have hm1 := htr1.1
  refine pc_seq (pc_setFramesetNotOk hm1) ?_
  rintro _ s2 c2 he2 ⟨-, htr2⟩
  have hm2 := htr2.1
  refine pc_conseq (pc_parseRawData hm2 hwf.plain .rawtext) ?_
  rintro r s3 c3 _ ⟨rfl, -, -, -, -, -, -, -, htr3⟩
  have htr := ((htr0.trans htr1).trans htr2).trans htr3
  refine tokPost_toRawData (calls := c0 ++ (c1 ++ (c2 ++ c3))) (by simpa [List.append_assoc] using htr) ?_
  rintro x x' hx hx' ⟨x2, ⟨x1, ⟨x0, ⟨-, e0⟩, r1⟩, hx2, e2⟩, σ1, r3, e3⟩
  subst hx2
  simp only [stokOf, stokOfTag_start hk]
  rw [b4_spec_start _ _ _ hni, b4_core_xmp _ _ _ hn]
  rw [e0] at r1
  rw [e2] at r3
  simp only [r1, bind, Except.bind, Spec.TreeModes.genericRawText, b4_genericSpec r3, Functor.map, Except.map, e3]
  rfl

/-- `self.ignore_lf.set(true)` -/
theorem b4_setIgnoreLf {s : State} (hm : MInv s) :
    PC (modS fun s => { s with ignoreLf := true }) s (fun _ s' calls => s' = { s with ignoreLf := true } ∧
      Tr s s' calls (fun x x' => x' = x ∧ absF s' x' = { absF s x with ignoreLf := true })) := by
  refine pc_modS rfl rfl ⟨rfl, (Tr.of_upd (s' := { s with ignoreLf := true }) hm rfl (fun _ h => h)
    (hm.withIgnoreLf true) rfl).conseq ?_⟩
  intro x x' _ _ h
  subst h
  exact ⟨rfl, rfl⟩

/-- "insert an HTML element" only looks at the `PState` -/
theorem b4_insertHtml'_p (σ σ' : SState) (st : STag) (h : σ'.p = σ.p) {τ' : SState}
    (r : Spec.TreeModes.insertHtml' σ' st = .ok τ') :
    ∃ τ, Spec.TreeModes.insertHtml' σ st = .ok τ ∧ τ' = { σ' with p := τ.p } ∧ τ = { σ with p := τ.p } := by
  simp only [Spec.TreeModes.insertHtml', Spec.TreeModes.insertHtml, h] at r ⊢
  cases hh : Spec.TreeAlgo2.insertHtmlElement Spec.TreeModes.cx σ.p st.etok with
  | none => rw [hh] at r; cases r
  | some v =>
    rw [hh] at r
    simp only [Spec.TreeModes.req, bind, Except.bind, pure, Except.pure] at r ⊢
    cases r
    exact ⟨_, rfl, rfl, rfl⟩

theorem body_textarea {t : Tag} (hwf : TagWf t) (hk : t.kind = .startTag) (hn : t.name = "textarea".toList)
    {s : State} (hm : MInv s) :
    PC (stepInBody (.tag t)) s (TokPost (fun σ => Spec.TreeModes.inBody (cfgOf s) σ (stokOf (.tag t))) s (.tag t)) := by
  rw [b4_model_textarea t hk hn]
  have hni : (specTag t).name ≠ "image".toList := by show t.name ≠ _; rw [hn]; decide
  refine pc_seq (b4_setIgnoreLf hm) ?_
  rintro _ s0 c0 he0 ⟨-, htr0⟩
  have hm0 := htr0.1
  refine pc_seq (pc_setFramesetNotOk hm0) ?_
  rintro _ s1 c1 he1 ⟨-, htr1⟩
  have hm1 := htr1.1
  refine pc_conseq (pc_parseRawData hm1 hwf.plain .rcdata) ?_
  rintro r s2 c2 _ ⟨rfl, -, -, -, -, -, -, -, htr2⟩
  have htr := (htr0.trans htr1).trans htr2
  refine tokPost_toRawData (calls := c0 ++ (c1 ++ c2)) (by simpa [List.append_assoc] using htr) ?_
  rintro x x' hx hx' ⟨x1, ⟨x0, ⟨hx0, e0⟩, hx1, e1⟩, σ1, r2, e2⟩
  subst hx0; subst hx1
  simp only [stokOf, stokOfTag_start hk]
  rw [b4_spec_start _ _ _ hni, b4_core_textarea _ _ _ hn]
  rw [e1, e0] at r2
  obtain ⟨τ, rτ, hσ1, hτ⟩ := b4_insertHtml'_p (absF s x1) _ (specTag t) (by rfl) r2
  simp only [rτ, bind, Except.bind, pure, Except.pure, e2]
  rw [hσ1]
  rw [hτ]
  rfl

theorem b4_edition (s : State) : ((cfgOf s).edition == Edition.customizableSelect) = true := rfl

/-- the first part of the specification's clause for `hr` (before the insertion) -/
def b4_hrMid (cfg : Config Id) (σ : SState) : SState :=
  let s := Spec.TreeModes.closePIfInButtonScope cfg σ
  if cfg.edition == .customizableSelect && Spec.TreeModes.hasInScope cfg s "select" then
    let s := Spec.TreeModes.genImplied s
    if Spec.TreeModes.hasInScope cfg s "option" || Spec.TreeModes.hasInScope cfg s "optgroup" then
      s.err "in body: hr start tag with option/optgroup in scope" else s
  else s

theorem b4_hr_eq (cfg : Config Id) (σ : SState) (st : STag) :
    Spec.TreeModes.inBodyStartHr cfg σ st = (do
      let s ← Spec.TreeModes.insertVoid (b4_hrMid cfg σ) st
      pure (.done s.notOk)) := rfl

theorem body_hr {t : Tag} (hwf : TagWf t) (hk : t.kind = .startTag) (hn : t.name = "hr".toList)
    {s : State} (hm : MInv s) :
    PC (stepInBody (.tag t)) s (TokPost (fun σ => Spec.TreeModes.inBody (cfgOf s) σ (stokOf (.tag t))) s (.tag t)) := by
  rw [b4_model_hr t hk hn]
  have hni : (specTag t).name ≠ "image".toList := by show t.name ≠ _; rw [hn]; decide
  have hn' : (specTag t).name = "hr".toList := hn
  have tail : ∀ (s1 : State) (c1 : List Call) (R : Aux → Aux → Prop), Tr s s1 c1 R →
      (∀ x x1, AuxOk s x → R x x1 → absF s1 x1 = b4_hrMid (cfgOf s) (absF s x)) →
      PC (do
          let _ ← insertAndPopElementFor t
          setFramesetOk false
          pure ProcessResult.doneAckSelfClosing) s1
        (fun b s2 c2 => TokPost (fun σ => Spec.TreeModes.inBody (cfgOf s) σ (stokOf (.tag t))) s (.tag t) b s2 (c1 ++ c2)) := by
    intro s1 c1 R htr1 hR
    have hm1 := htr1.1
    refine pc_seq (pc_insertAndPopElementFor hm1 hwf.plain) ?_
    rintro a s2 c2 he2 ⟨-, -, -, -, -, htr2⟩
    have hm2 := htr2.1
    refine pc_seq (pc_setFramesetNotOk hm2) ?_
    rintro _ s3 c3 he3 ⟨-, htr3⟩
    have htr := (htr1.trans htr2).trans htr3
    refine pc_pure (tokPost_ack (calls := c1 ++ (c2 ++ (c3 ++ []))) (specTag t) (by simpa [List.append_assoc] using htr) ?_)
    rintro x x'' hx hx'' ⟨x2, ⟨x1, r1, σ2, r2, e2⟩, hx3, r3⟩
    subst hx3
    simp only [stokOf, stokOfTag_start hk]
    rw [b4_spec_start _ _ _ hni, b4_core_hr _ _ _ hn', b4_hr_eq, ← hR x x1 hx r1]
    simp only [Spec.TreeModes.insertVoid, r2, bind, Except.bind, pure, Except.pure, b4_ack_notOk, r3, e2]
  refine pc_seq (pc_closePElementInButtonScope hm) ?_
  rintro _ s0 c0 he0 htr0
  have hm0 := htr0.1
  have hc0 : cfgOf s0 = cfgOf s := htr0.2.1
  refine pc_seq (pc_inScopeNamed_default hm0 "select") ?_
  rintro b s1 c1 he1 htr1
  have hm1 := htr1.1
  have hc1 : cfgOf s1 = cfgOf s0 := htr1.2.1
  cases b with
  | false =>
    simp only [Bool.false_eq_true, if_false]
    have := tail s1 (c0 ++ c1) _ (htr0.trans htr1) (by
      rintro x x1 hx ⟨x0, ⟨-, e0⟩, hx1, e1, hb⟩
      subst hx1
      have hb' : Spec.TreeModes.hasInScope (cfgOf s) (Spec.TreeModes.closePIfInButtonScope (cfgOf s) (absF s x)) "select" = false := by
        rw [← e0, ← hc0]; first | exact hb | exact hb.symm
      simp only [b4_hrMid, hb', Bool.and_false, Bool.false_eq_true, if_false, ← e1, e0])
    simpa [List.append_assoc] using this
  | true =>
    simp only [if_true]
    -- the tail after a parse error
    have errTail : ∀ (s3 : State) (c3 : List Call) (R : Aux → Aux → Prop), Tr s s3 c3 R →
        (∀ x x3, AuxOk s x → R x x3 →
          b4_hrMid (cfgOf s) (absF s x) = (absF s3 x3).err "in body: hr start tag with option/optgroup in scope") →
        PC (do
            parseError "hr in option"
            let _ ← insertAndPopElementFor t
            setFramesetOk false
            pure ProcessResult.doneAckSelfClosing) s3
          (fun b s2 c2 => TokPost (fun σ => Spec.TreeModes.inBody (cfgOf s) σ (stokOf (.tag t))) s (.tag t) b s2 (c3 ++ c2)) := by
      intro s3 c3 R htr3 hR
      have hm3 := htr3.1
      refine pc_seq (pc_parseError hm3 _) ?_
      rintro _ s4 c4 he4 htr4
      have hm4 := htr4.1
      have htre := Tr.err hm4 "in body: hr start tag with option/optgroup in scope"
      have := tail s4 (c3 ++ c4 ++ []) _ ((htr3.trans htr4).trans htre) (by
        rintro x xe hx ⟨x4, ⟨x3, r3, hx4, e4⟩, hxe⟩
        subst hx4; subst hxe
        rw [hR x x4 hx r3, absF_err, ← e4])
      simpa [List.append_assoc] using this
    refine pc_seq (pc_generateImpliedEndTags_cursory hm1) ?_
    rintro _ s2 c2 he2 htr2
    have hm2 := htr2.1
    have hc2 : cfgOf s2 = cfgOf s1 := htr2.2.1
    -- the specification's state after "generate implied end tags"
    have hmid : ∀ x x0, absF s0 x0 = Spec.TreeModes.closePIfInButtonScope (cfgOf s) (absF s x) →
        absF s0 x0 = absF s1 x0 → true = Spec.TreeModes.hasInScope (cfgOf s0) (absF s0 x0) "select" →
        absF s2 x0 = Spec.TreeModes.genImplied (absF s1 x0) →
        b4_hrMid (cfgOf s) (absF s x) =
          if Spec.TreeModes.hasInScope (cfgOf s) (absF s2 x0) "option" || Spec.TreeModes.hasInScope (cfgOf s) (absF s2 x0) "optgroup"
          then (absF s2 x0).err "in body: hr start tag with option/optgroup in scope" else absF s2 x0 := by
      intro x x0 e0 e1 hb e2
      have hb' : Spec.TreeModes.hasInScope (cfgOf s) (Spec.TreeModes.closePIfInButtonScope (cfgOf s) (absF s x)) "select" = true := by
        rw [← e0, ← hc0]; exact hb.symm
      simp only [b4_hrMid, hb', b4_edition, Bool.and_true, if_true, e2, ← e1, e0]
    have hc20 : cfgOf s2 = cfgOf s := by rw [hc2, hc1, hc0]
    refine pc_seq (pc_inScopeNamed_default hm2 "option") ?_
    rintro b1 s3 c3 he3 htr3
    have hm3 := htr3.1
    have hc3 : cfgOf s3 = cfgOf s2 := htr3.2.1
    cases b1 with
    | true =>
      simp only [if_true, pure_bind]
      have := errTail s3 (c0 ++ c1 ++ c2 ++ c3) _ (((htr0.trans htr1).trans htr2).trans htr3) (by
        rintro x x3 hx ⟨x2, ⟨x1, ⟨x0, ⟨-, e0⟩, hx1, e1, hb⟩, hx2, e2⟩, hx3, e3, hb1⟩
        subst hx1; subst hx2; subst hx3
        have hb1' : Spec.TreeModes.hasInScope (cfgOf s) (absF s2 x3) "option" = true := by
          rw [← hc20]; first | exact hb1 | exact hb1.symm
        rw [hmid x x3 e0 e1 hb e2, hb1', Bool.true_or, if_pos rfl, e3])
      simpa [List.append_assoc] using this
    | false =>
      simp only [Bool.false_eq_true, if_false]
      refine pc_seq (pc_inScopeNamed_default hm3 "optgroup") ?_
      rintro b2 s4 c4 he4 htr4
      cases b2 with
      | true =>
        simp only [if_true]
        have := errTail s4 (c0 ++ c1 ++ c2 ++ c3 ++ c4) _ ((((htr0.trans htr1).trans htr2).trans htr3).trans htr4) (by
          rintro x x4 hx ⟨x3, ⟨x2, ⟨x1, ⟨x0, ⟨-, e0⟩, hx1, e1, hb⟩, hx2, e2⟩, hx3, e3, hb1⟩, hx4, e4, hb2⟩
          subst hx1; subst hx2; subst hx3; subst hx4
          have hb2' : Spec.TreeModes.hasInScope (cfgOf s) (absF s2 x4) "optgroup" = true := by
            rw [← hc20, ← hc3, e3]; first | exact hb2 | exact hb2.symm
          rw [hmid x x4 e0 e1 hb e2, hb2', Bool.or_true, if_pos rfl, e3, e4])
        simpa [List.append_assoc] using this
      | false =>
        simp only [Bool.false_eq_true, if_false]
        have := tail s4 (c0 ++ c1 ++ c2 ++ c3 ++ c4) _ ((((htr0.trans htr1).trans htr2).trans htr3).trans htr4) (by
          rintro x x4 hx ⟨x3, ⟨x2, ⟨x1, ⟨x0, ⟨-, e0⟩, hx1, e1, hb⟩, hx2, e2⟩, hx3, e3, hb1⟩, hx4, e4, hb2⟩
          subst hx1; subst hx2; subst hx3; subst hx4
          have hb1' : Spec.TreeModes.hasInScope (cfgOf s) (absF s2 x4) "option" = false := by
            rw [← hc20]; first | exact hb1 | exact hb1.symm
          have hb2' : Spec.TreeModes.hasInScope (cfgOf s) (absF s2 x4) "optgroup" = false := by
            rw [← hc20, ← hc3, e3]; first | exact hb2 | exact hb2.symm
          rw [hmid x x4 e0 e1 hb e2, hb1', hb2', Bool.or_self, if_neg (by decide), e3, e4])
        simpa [List.append_assoc] using this

/-- `is_fragment() && html_elem_named(context_elem, "select")` — `Spec.TreeModes.contextIsSelect` -/
theorem b4_contextIsSelect {s : State} (hm : MInv s) (site : String) :
    PC (contextIsSelect site) s (fun b s' calls => b = Spec.TreeModes.contextIsSelect (cfgOf s) ∧
      Tr s s' calls (fun x x' => x' = x ∧ absF s x = absF s' x)) := by
  unfold contextIsSelect
  refine pc_seq (pc_isFragment hm) ?_
  rintro b s1 c1 _ ⟨rfl, rfl, hb, -⟩
  cases hctx : s1.contextElem with
  | none =>
    simp only [hb, hctx, Option.isSome_none, Bool.false_eq_true, if_false]
    refine pc_pure ⟨?_, Tr.refl hm |>.conseq fun x x' _ _ h => ⟨h, rfl⟩⟩
    simp [Spec.TreeModes.contextIsSelect, cfgOf, hctx]
  | some c =>
    simp only [hb, hctx, Option.isSome_some, if_true]
    refine pc_getS_bind ?_
    simp only [hctx]
    refine pc_conseq (pc_of_query hm (tot_htmlElemNamed s1 c "select")) ?_
    rintro b s2 c2 _ ⟨hb2, htr⟩
    refine ⟨?_, by simpa using htr⟩
    rw [hb2]
    simp [Spec.TreeModes.contextIsSelect, cfgOf, hctx]

theorem b4_typeHidden_aux : ∀ (l : List Attr), (∀ a ∈ l, H5V.Lemmas.HtmlTBSpec.Plain a) →
    (match l.find? (fun a => a.name.ns == [] && isName a.name.loc "type") with
      | none => false
      | some a => eqIgnoreAsciiCase a.value "hidden".toList)
    = (match ((l.map (fun a => (⟨a.name.loc, a.value⟩ : Spec.TreeModes.Attr))).find? (fun a => a.name == "type".toList)).map (·.value) with
      | some v => Spec.TreeAlgo.eqCI v "hidden"
      | none => false)
  | [], _ => rfl
  | a :: l, h => by
    have ha : a.name.ns = [] := by
      have := h a (by simp)
      unfold H5V.Lemmas.HtmlTBSpec.Plain at this
      rw [this]; rfl
    have ih := b4_typeHidden_aux l (fun b hb => h b (by simp [hb]))
    simp only [List.find?_cons, List.map_cons, ha, beq_self_eq_true, Bool.true_and, isName_eq, beq_str]
    by_cases hn : a.name.loc = "type".toList
    · simp only [hn, decide_true, Bool.and_true, Bool.and_self, Option.map_some]
      rfl
    · simp only [hn, decide_false, decide_true, Bool.and_false]
      simpa only [isName_eq, beq_str] using ih

theorem b4_typeHidden {t : Tag} (hp : PlainTag t) : isTypeHidden t = (specTag t).typeIsHidden := by
  unfold isTypeHidden Spec.TreeModes.Tag.typeIsHidden Spec.TreeModes.Tag.attr?
  exact b4_typeHidden_aux t.attrs hp

/-- the first part of the specification's clause for `input` (the context element is not `select`) -/
def b4_inputMid (cfg : Config Id) (σ : SState) : SState :=
  if cfg.edition == .customizableSelect && Spec.TreeModes.hasInScope cfg σ "select" then
    Spec.TreeModes.popUntilPopped (σ.err "in body: input start tag inside select") "select"
  else σ

theorem b4_input_eq (cfg : Config Id) (σ : SState) (st : STag) (hctx : Spec.TreeModes.contextIsSelect cfg = false) :
    Spec.TreeModes.inBodyStartInput cfg σ st = (do
      let s ← Spec.TreeModes.reconstruct (b4_inputMid cfg σ)
      let s ← Spec.TreeModes.insertVoid s st
      pure (.done (if st.typeIsHidden then s else s.notOk))) := by
  simp only [Spec.TreeModes.inBodyStartInput, hctx, Bool.and_false, Bool.false_eq_true, if_false]
  rfl

/-- the specification's clause for `input` in the fragment case with a `select` context element -/
theorem b4_input_eq_ctx (cfg : Config Id) (σ : SState) (st : STag) (hed : (cfg.edition == Edition.customizableSelect) = true)
    (hctx : Spec.TreeModes.contextIsSelect cfg = true) :
    Spec.TreeModes.inBodyStartInput cfg σ st = .ok (.done (σ.err "in body: input start tag in a select fragment")) := by
  simp only [Spec.TreeModes.inBodyStartInput, hed, hctx, Bool.and_self, if_true]
  rfl

/-- `<input>`, fragment case with a `select` context element: parse error, ignore the token -/
theorem body_input_ctx {t : Tag} (hk : t.kind = .startTag) (hn : t.name = "input".toList)
    {s : State} (hm : MInv s) (hctx : Spec.TreeModes.contextIsSelect (cfgOf s) = true) :
    PC (stepInBody (.tag t)) s (TokPost (fun σ => Spec.TreeModes.inBody (cfgOf s) σ (stokOf (.tag t))) s (.tag t)) := by
  rw [b4_model_input t hk hn]
  have hni : (specTag t).name ≠ "image".toList := by show t.name ≠ _; rw [hn]; decide
  have hn' : (specTag t).name = "input".toList := hn
  refine pc_seq (b4_contextIsSelect hm _) ?_
  rintro b s0 c0 he0 ⟨hb, htr0⟩
  rw [hctx] at hb
  subst hb
  have hm0 := htr0.1
  simp only [if_true]
  refine pc_seq (pc_unexpected hm0) ?_
  rintro _ s1 c1 he1 ⟨-, htr1⟩
  refine pc_pure (tokPost_of_tr (calls := c0 ++ (c1 ++ [])) (by simpa [List.append_assoc] using htr0.trans htr1) trivial ?_)
  rintro x x'' hx hx'' ⟨x0, ⟨hx0, e0⟩, hx1, e1⟩
  subst hx0; subst hx1
  refine ⟨{ x'' with errors := x''.errors ++ ["in body: input start tag in a select fragment"] }, ?_,
    ⟨rfl, rfl, rfl, rfl, rfl⟩, Or.inl rfl, rfl, rfl⟩
  simp only [stokOf, stokOfTag_start hk]
  rw [b4_spec_start _ _ _ hni, b4_core_input _ _ _ hn', b4_input_eq_ctx _ _ _ (b4_edition s) hctx]
  simp only [stepOf, absF_err, ← e1, ← e0]

theorem body_input {t : Tag} (hwf : TagWf t) (hk : t.kind = .startTag) (hn : t.name = "input".toList)
    {s : State} (hm : MInv s) (hctx : Spec.TreeModes.contextIsSelect (cfgOf s) = false) :
    PC (stepInBody (.tag t)) s (TokPost (fun σ => Spec.TreeModes.inBody (cfgOf s) σ (stokOf (.tag t))) s (.tag t)) := by
  rw [b4_model_input t hk hn]
  have hni : (specTag t).name ≠ "image".toList := by show t.name ≠ _; rw [hn]; decide
  have hn' : (specTag t).name = "input".toList := hn
  have tail : ∀ (s1 : State) (c1 : List Call) (R : Aux → Aux → Prop), Tr s s1 c1 R →
      (∀ x x1, AuxOk s x → R x x1 → absF s1 x1 = b4_inputMid (cfgOf s) (absF s x)) →
      PC (do
          reconstructActiveFormattingElements
          let _ ← insertAndPopElementFor t
          if (!isTypeHidden t) = true then do
              setFramesetOk false
              pure ProcessResult.doneAckSelfClosing
            else pure ProcessResult.doneAckSelfClosing) s1
        (fun b s2 c2 => TokPost (fun σ => Spec.TreeModes.inBody (cfgOf s) σ (stokOf (.tag t))) s (.tag t) b s2 (c1 ++ c2)) := by
    intro s1 c1 R htr1 hR
    have hm1 := htr1.1
    refine pc_seq (pc_reconstruct hm1) ?_
    rintro _ s2 c2 he2 ⟨-, -, htr2⟩
    have hm2 := htr2.1
    refine pc_seq (pc_insertAndPopElementFor hm2 hwf.plain) ?_
    rintro a s3 c3 he3 ⟨-, -, -, -, -, htr3⟩
    have hm3 := htr3.1
    have hspec : ∀ x x1 x2 σ3, AuxOk s x → R x x1 → Spec.TreeModes.reconstruct (absF s1 x1) = .ok (absF s2 x2) →
        Spec.TreeModes.insertHtml' (absF s2 x2) (specTag t) = .ok σ3 →
        Spec.TreeModes.inBody (cfgOf s) (absF s x) (stokOf (.tag t))
          = .ok (.done (if (specTag t).typeIsHidden then σ3.pop.ack (specTag t) else (σ3.pop.ack (specTag t)).notOk)) := by
      intro x x1 x2 σ3 hx r1 r2 r3
      simp only [stokOf, stokOfTag_start hk]
      rw [b4_spec_start _ _ _ hni, b4_core_input _ _ _ hn', b4_input_eq _ _ _ hctx, ← hR x x1 hx r1]
      simp only [r2, Spec.TreeModes.insertVoid, r3, bind, Except.bind, pure, Except.pure]
    cases hh : isTypeHidden t with
    | true =>
      simp only [Bool.not_true, Bool.false_eq_true, if_false]
      have htr := (htr1.trans htr2).trans htr3
      refine pc_pure (tokPost_ack (calls := c1 ++ (c2 ++ (c3 ++ []))) (specTag t) (by simpa [List.append_assoc] using htr) ?_)
      rintro x x'' hx hx'' ⟨x2, ⟨x1, r1, r2⟩, σ3, r3, e3⟩
      rw [hspec x x1 x2 σ3 hx r1 r2 r3, ← b4_typeHidden hwf.plain, hh, if_pos rfl, e3]
    | false =>
      simp only [Bool.not_false, if_true]
      refine pc_seq (pc_setFramesetNotOk hm3) ?_
      rintro _ s4 c4 he4 ⟨-, htr4⟩
      have htr := ((htr1.trans htr2).trans htr3).trans htr4
      refine pc_pure (tokPost_ack (calls := c1 ++ (c2 ++ (c3 ++ (c4 ++ [])))) (specTag t) (by simpa [List.append_assoc] using htr) ?_)
      rintro x x'' hx hx'' ⟨x3, ⟨x2, ⟨x1, r1, r2⟩, σ3, r3, e3⟩, hx4, e4⟩
      subst hx4
      rw [hspec x x1 x2 σ3 hx r1 r2 r3, ← b4_typeHidden hwf.plain, hh, if_neg (by decide), e4, e3, b4_ack_notOk]
  refine pc_seq (b4_contextIsSelect hm _) ?_
  rintro b s0 c0 he0 ⟨hb, htr0⟩
  rw [hctx] at hb
  subst hb
  have hm0 := htr0.1
  have hc0 : cfgOf s0 = cfgOf s := htr0.2.1
  simp only [Bool.false_eq_true, if_false]
  refine pc_seq (pc_inScopeNamed_default hm0 "select") ?_
  rintro b s1 c1 he1 htr1
  have hm1 := htr1.1
  cases b with
  | false =>
    simp only [Bool.false_eq_true, if_false]
    have := tail s1 (c0 ++ c1) _ (htr0.trans htr1) (by
      rintro x x1 hx ⟨x0, ⟨hx0, e0⟩, hx1, e1, hb⟩
      subst hx0; subst hx1
      have hb' : Spec.TreeModes.hasInScope (cfgOf s) (absF s x1) "select" = false := by
        rw [e0, ← hc0]; first | exact hb | exact hb.symm
      rw [← e1, ← e0]
      simp only [b4_inputMid, hb', Bool.and_false, Bool.false_eq_true, if_false])
    simpa [List.append_assoc] using this
  | true =>
    simp only [if_true]
    refine pc_seq (pc_unexpected hm1) ?_
    rintro _ s2 c2 he2 ⟨-, htr2⟩
    have hm2 := htr2.1
    have htre := Tr.err hm2 "in body: input start tag inside select"
    refine pc_seq (pc_popUntilNamed hm2 "select") ?_
    rintro _ s3 c3 he3 htr3
    have := tail s3 (c0 ++ c1 ++ c2 ++ [] ++ c3) _ ((((htr0.trans htr1).trans htr2).trans htre).trans htr3) (by
      rintro x x3 hx ⟨xe, ⟨x2, ⟨x1, ⟨x0, ⟨hx0, e0⟩, hx1, e1, hb⟩, hx2, e2⟩, hxe⟩, hx3, e3, -⟩
      subst hx0; subst hx1; subst hx2; subst hxe; subst hx3
      have hb' : Spec.TreeModes.hasInScope (cfgOf s) (absF s x2) "select" = true := by
        rw [e0, ← hc0]; first | exact hb | exact hb.symm
      rw [e3, absF_err, ← e2, ← e1, ← e0]
      simp only [b4_inputMid, hb', b4_edition, Bool.and_true, if_true])
    simpa [List.append_assoc] using this

/-! ### the slice -/

theorem b4_name_of {n : Str} {a : String} (h : isOneOf n [a] = true) : n = a.toList := by
  simpa only [isOneOf_cons, isOneOf_nil, Bool.or_false, decide_eq_true_eq] using h

/-- **slice 4 of "in body"** (the arms with condition `bodyC4`). -/
theorem bodySlice4 :
    BodySliceSim (fun t => bodyC1 t || bodyC2 t || bodyC3 t) bodyC4 := by
  intro t hwf _ hc s hm
  have ek1 : (Model.HtmlTok.TagKind.startTag == Model.HtmlTok.TagKind.endTag) = false := rfl
  have ek2 : (Model.HtmlTok.TagKind.endTag == Model.HtmlTok.TagKind.startTag) = false := rfl
  cases hk : t.kind with
  | startTag =>
    by_cases h1 : isOneOf t.name ["a"] = true
    · exact body_a hwf hk (b4_name_of h1) hm
    by_cases h2 : isOneOf t.name ["b", "big", "code", "em", "font", "i", "s", "small", "strike", "strong", "tt", "u"] = true
    · exact body_fmt hwf hk h2 hm
    by_cases h3 : isOneOf t.name ["nobr"] = true
    · exact body_nobr hwf hk (b4_name_of h3) hm
    by_cases h4 : isOneOf t.name ["applet", "marquee", "object"] = true
    · exact body_amoStart hwf hk h4 hm
    by_cases h5 : isOneOf t.name ["table"] = true
    · exact body_table hwf hk (b4_name_of h5) hm
    by_cases h6 : isOneOf t.name ["area", "br", "embed", "img", "keygen", "wbr"] = true
    · exact body_void hwf hk h6 hm
    by_cases h7 : isOneOf t.name ["input"] = true
    · cases hctx : Spec.TreeModes.contextIsSelect (cfgOf s) with
      | false => exact body_input hwf hk (b4_name_of h7) hm hctx
      | true => exact body_input_ctx hk (b4_name_of h7) hm hctx
    by_cases h8 : isOneOf t.name ["param", "source", "track"] = true
    · exact body_param hwf hk h8 hm
    by_cases h9 : isOneOf t.name ["hr"] = true
    · exact body_hr hwf hk (b4_name_of h9) hm
    by_cases h10 : isOneOf t.name ["image"] = true
    · exact body_image hwf hk (b4_name_of h10) hm
    by_cases h11 : isOneOf t.name ["textarea"] = true
    · exact body_textarea hwf hk (b4_name_of h11) hm
    by_cases h12 : isOneOf t.name ["xmp"] = true
    · exact body_xmp hwf hk (b4_name_of h12) hm
    by_cases h13 : isOneOf t.name ["iframe"] = true
    · exact body_iframe hwf hk (b4_name_of h13) hm
    by_cases h14 : isOneOf t.name ["noembed"] = true
    · exact body_noembed hwf hk (b4_name_of h14) hm
    exfalso
    rw [Bool.not_eq_true] at h1 h2 h3 h4 h5 h6 h7 h8 h9 h10 h11 h12 h13 h14
    simp only [bodyC4, Tag.isStart, Tag.isEnd, hk, ek1, h1, h2, h3, h4, h5, h6, h7, h8, h9, h10, h11, h12, h13, h14,
      Bool.and_false, Bool.false_and, Bool.or_self, Bool.false_eq_true] at hc
  | endTag =>
    by_cases h1 : isOneOf t.name ["a", "b", "big", "code", "em", "font", "i", "nobr", "s", "small", "strike", "strong", "tt", "u"] = true
    · exact body_fmtEnd hk h1 hm
    by_cases h2 : isOneOf t.name ["applet", "marquee", "object"] = true
    · exact body_amoEnd hk h2 hm
    by_cases h3 : isOneOf t.name ["br"] = true
    · exact body_brEnd hk (b4_name_of h3) hm
    exfalso
    rw [Bool.not_eq_true] at h1 h2 h3
    simp only [bodyC4, Tag.isStart, Tag.isEnd, hk, ek2, h1, h2, h3,
      Bool.and_false, Bool.false_and, Bool.or_self, Bool.false_eq_true] at hc

end H5V.Lemmas.HtmlTBModes
