import H5V.Lemmas.HtmlTBModesTable2
/-!
The table family of insertion modes, part 3: "in caption", "in column group", "in cell" — the rule-level
simulations `tblc_sim_inCaption`, `tblc_sim_inColumnGroup`, `tblc_sim_inCell` and the per-mode statements
`modeSim_*` / `modeCharSim_*`.

"in cell", a start tag `caption`, `col`, `colgroup`, `tbody`, `td`, `tfoot`, `th`, `thead`, `tr`: the standard
asserts "the stack of open elements has a `td` or `th` element in table scope" (the specification throws when
the assertion fails, html5ever reports a parse error and ignores the token).  The invariant `TI` only knows
that a `td` / `th` element is on the stack in this mode (`SInv.stack`), so the assertion is an explicit
hypothesis of `tblc_sim_inCell` / `modeSim_inCell` (`tblc_hasAny_absF` states it without the `Aux`).
-/
namespace H5V.Lemmas.HtmlTBModes
open H5V.Model.HtmlTB
open H5V.Model.Dom (Id SinkOp Output Dom QualName Attr NodeOrText ElementFlags NodeData QuirksMode)
open H5V.Lemmas.HtmlTBAlgo
open H5V.Lemmas.TBSafe (TI HInv SInv Rooted)
open H5V.Spec.TreeAlgo2 (Elem Entry PState Ctx Edit Place)
open H5V.Spec.TreeModes (STok ETok IMode Config Out TokSwitch XOp Op Step Edition)

theorem tblc_strIsOneOf (n : Str) (l : List String) : Spec.TreeModes.strIsOneOf n l = isOneOf n l := by
  unfold Spec.TreeModes.strIsOneOf isOneOf
  congr 1
  funext b
  exact beq_list_comm _ _


/-- "anything else" of "in column group" -/
theorem tblc_pc_cgElse {s : State} (hm : MInv s) (tok : Token) :
    PC (currentNodeNamed "colgroup" >>= fun b =>
        if b = true then (pop >>= fun _ => pure (ProcessResult.reprocess Mode.inTable tok)) else unexpected) s
      (TokPost (fun σ => if (!Spec.TreeModes.State.curIs σ "colgroup") = true then
          pure (Step.done (Spec.TreeModes.State.err σ "in column group: current node is not colgroup"))
        else pure (Step.reprocess ((Spec.TreeModes.State.pop σ).setMode IMode.inTable))) s tok) := by
  refine pc_seq (pc_currentNodeNamed hm "colgroup") ?_
  rintro b s1 c1 _ htr1
  cases b with
  | false =>
    simp only [Bool.false_eq_true, if_false]
    refine pc_conseq (pc_unexpected htr1.1) ?_
    rintro r s2 c2 _ ⟨rfl, htr2⟩
    refine tokPost_of_tr (htr1.trans htr2) trivial ?_
    rintro x x2 hx hx2 ⟨x1, ⟨hx1, e1, hb⟩, hx2e, e2⟩
    subst x2
    subst x1
    refine ⟨{ x with errors := x.errors ++ ["in column group: current node is not colgroup"] }, ?_,
      ⟨rfl, rfl, rfl, rfl, rfl⟩, Or.inl rfl, rfl, rfl⟩
    rw [← hb]
    simp only [Bool.not_false, if_true, stepOf]
    rw [e1, e2]
    rfl
  | true =>
    simp only [if_true]
    refine pc_seq (pc_pop htr1.1) ?_
    rintro h s2 c2 _ ⟨-, -, -, htr2⟩
    refine pc_pure ?_
    rw [List.append_nil]
    refine tokPost_of_tr (htr1.trans htr2) rfl ?_
    rintro x x2 hx hx2 ⟨x1, ⟨hx1, e1, hb⟩, hx2e, e2, -⟩
    subst x2
    subst x1
    refine ⟨{ x with pendingJunk := (absF s2 x).pendingTableChars }, ?_, ⟨rfl, rfl, rfl, rfl, rfl⟩, Or.inl rfl, rfl, rfl⟩
    rw [← hb]
    simp only [Bool.not_true, Bool.false_eq_true, if_false, stepOf, applyRes]
    rw [tbl_absF_setMode _ _ _ (by decide), e2, ← e1]
    rfl


theorem tblc_sim_inColumnGroup (hhead : StepSimTok stepInHead Spec.TreeModes.inHead)
    (hbody : StepSimTok stepInBody Spec.TreeModes.inBody) :
    StepSimTok stepInColumnGroup Spec.TreeModes.inColumnGroup := by
  intro tok hch hwf s hm
  cases tok with
  | chars st text => cases hch
  | comment text =>
    simp only [stepInColumnGroup]
    refine pc_conseq (pc_appendComment' hm text) ?_
    rintro r s' calls _ ⟨rfl, htr⟩
    refine tokPost_of_tr htr trivial ?_
    intro x x' hx hx' hr
    refine ⟨x', ?_, AuxSame.rfl', Or.inl rfl, rfl, rfl⟩
    simp only [stokOf, Spec.TreeModes.inColumnGroup, hr]
    rfl
  | eof =>
    simp only [stepInColumnGroup]
    refine pc_tokPost_congr (hbody .eof rfl hwf s hm) ?_
    intro x hx
    simp only [stokOf, Spec.TreeModes.inColumnGroup]
  | nullChar =>
    simp only [stepInColumnGroup]
    simp only [stokOf, Spec.TreeModes.inColumnGroup, isWs_nul, Bool.false_eq_true, if_false]
    exact tblc_pc_cgElse hm _
  | tag t =>
    cases hk : t.kind with
    | startTag =>
      simp only [stepInColumnGroup, Tag.isStart, Tag.isEnd, isOneOf_cons, isOneOf_nil, Bool.or_false, hk, tbl_kind_se,
        tbl_kind_ss, Bool.false_and, Bool.true_and, Bool.false_eq_true, if_false]
      simp only [stokOf, stokOfTag_start hk, Spec.TreeModes.inColumnGroup, Spec.TreeModes.Tag.is, strIs_eq, specTag_name]
      by_cases h1 : t.name = "html".toList
      · simp +decide only [h1, if_true]
        refine pc_tokPost_congr (hbody (.tag t) rfl hwf s hm) ?_
        intro x hx
        simp only [stokOf, stokOfTag_start hk]
      · by_cases h2 : t.name = "col".toList
        · simp +decide only [h2, if_true, if_false]
          refine pc_seq (pc_insertVoid hm (hwf : TagWf t).plain) ?_
          rintro a s' calls _ ⟨-, -, -, -, -, htr⟩
          refine pc_pure (tokPost_of_tr (by rw [List.append_nil]; exact htr) trivial ?_)
          intro x x' hx hx' hr
          refine ⟨x', ?_, AuxSame.rfl', Or.inl rfl, rfl, rfl⟩
          simp only [hr]
          rfl
        · by_cases h3 : t.name = "template".toList
          · simp +decide only [h3, if_true, if_false]
            refine pc_tokPost_congr (hhead (.tag t) rfl hwf s hm) ?_
            intro x hx
            simp only [stokOf, stokOfTag_start hk]
          · simp +decide only [h1, h2, h3, if_false]
            exact tblc_pc_cgElse hm _
    | endTag =>
      simp only [stepInColumnGroup, Tag.isStart, Tag.isEnd, isOneOf_cons, isOneOf_nil, Bool.or_false, hk, tbl_kind_es,
        tbl_kind_ee, Bool.false_and, Bool.true_and, Bool.false_eq_true, if_false, Bool.false_or]
      simp only [stokOf, stokOfTag_end hk, Spec.TreeModes.inColumnGroup, Spec.TreeModes.Tag.is, strIs_eq, specTag_name]
      by_cases h1 : t.name = "colgroup".toList
      · simp +decide only [h1, if_true]
        refine pc_seq (pc_currentNodeNamed hm "colgroup") ?_
        rintro b s1 c1 _ htr1
        cases b with
        | false =>
          simp only [Bool.false_eq_true, if_false]
          refine pc_seq (pc_unexpected htr1.1) ?_
          rintro _ s2 c2 _ ⟨-, htr2⟩
          refine pc_pure ?_
          rw [List.append_nil]
          refine tokPost_of_tr (htr1.trans htr2) trivial ?_
          rintro x x2 hx hx2 ⟨x1, ⟨hx1, e1, hb⟩, hx2e, e2⟩
          subst x2
          subst x1
          refine ⟨{ x with errors := x.errors ++ ["in column group: colgroup end tag, current node is not colgroup"] }, ?_,
            ⟨rfl, rfl, rfl, rfl, rfl⟩, Or.inl rfl, rfl, rfl⟩
          rw [← hb]
          simp only [Bool.not_false, if_true, stepOf]
          rw [e1, e2]
          rfl
        | true =>
          simp only [if_true]
          refine pc_seq (pc_pop htr1.1) ?_
          rintro h s2 c2 _ ⟨-, -, -, htr2⟩
          refine pc_seq (pc_setMode_junk htr2.1 .inTable (by decide)) ?_
          rintro _ s3 c3 _ ⟨-, htr3⟩
          refine pc_pure ?_
          rw [List.append_nil, ← List.append_assoc]
          refine tokPost_of_tr ((htr1.trans htr2).trans htr3) trivial ?_
          rintro x x3 hx hx3 ⟨x2, ⟨x1, ⟨hx1, e1, hb⟩, hx2e, e2, -⟩, hx3e, e3⟩
          subst x2
          subst x1
          refine ⟨x3, ?_, AuxSame.rfl', Or.inl rfl, rfl, rfl⟩
          rw [← hb]
          simp only [Bool.not_true, Bool.false_eq_true, if_false, stepOf]
          rw [e3, e2, ← e1]
          rfl
      · by_cases h2 : t.name = "col".toList
        · simp +decide only [h2, if_true, if_false]
          exact pc_unexpected_err hm _ _
        · by_cases h3 : t.name = "template".toList
          · simp +decide only [h3, if_true, if_false]
            refine pc_tokPost_congr (hhead (.tag t) rfl hwf s hm) ?_
            intro x hx
            simp only [stokOf, stokOfTag_end hk]
          · simp +decide only [h1, h2, h3, if_false]
            exact tblc_pc_cgElse hm _


theorem modeSim_inColumnGroup (hhead : StepSimTok stepInHead Spec.TreeModes.inHead)
    (hbody : StepSimTok stepInBody Spec.TreeModes.inBody) : ModeSim .inColumnGroup := by
  intro tok hch hwf s _ hm hmode _
  refine pc_tokPost_congr (tblc_sim_inColumnGroup hhead hbody tok hch hwf s hm) ?_
  intro x hx
  exact byModeDev_inColumnGroup (by show imode s.mode = _; rw [hmode]; rfl) _

/-! ### runs of characters in "in column group" -/

/-- `charsRunK_foldlM` for a rule that depends on the stack (which the run does not change) -/
theorem tblc_charsRunK_foldlM {cfg : Config Id} {rule : SState → STok → Spec.TreeModes.M (Step Id)}
    (f : SState → Char → Spec.TreeModes.M SState) {text : Str} {m : IMode} (stk : List (Elem Id))
    (hrule : ∀ σ : SState, σ.mode = m → σ.p.stack = stk → ∀ c ∈ text, rule σ (.character c) = (Step.done <$> f σ c))
    (hf : ∀ σ σ1 c, f σ c = .ok σ1 → SameDisp σ σ1) :
    ∀ {t : Str} {σ σ' : SState}, (∀ c ∈ t, c ∈ text) → σ.mode = m → σ.p.stack = stk → σ.stopped = false →
      σ.ignoreLf = false →
      Spec.TreeAlgo.useHtmlRules (Spec.TreeModes.adjustedCurrentNode cfg σ) .character = true →
      t.foldlM f σ = .ok σ' → CharsRunK cfg rule σ t σ' := by
  intro t
  induction t with
  | nil =>
    intro σ σ' _ _ _ _ _ _ h
    cases h
    exact CharsRunK.nil σ
  | cons c cs ih =>
    intro σ σ' hsub hm hstk hs hl hu h
    rw [List.foldlM_cons] at h
    cases h1 : f σ c with
    | error e => rw [h1] at h; cases h
    | ok σ1 =>
      rw [h1] at h
      have sd := hf σ σ1 c h1
      have hu1 : Spec.TreeAlgo.useHtmlRules (Spec.TreeModes.adjustedCurrentNode cfg σ1) .character = true := by
        rw [adjustedCurrentNode_congr sd.stack sd.annot]; exact hu
      refine CharsRunK.cons ?_ sd.mode (sd.stopped.trans hs) (sd.ignoreLf.trans hl) hu1
        (ih (fun c hc => hsub c (List.mem_cons_of_mem _ hc)) (sd.mode.trans hm) (sd.stack.trans hstk) (sd.stopped.trans hs)
          (sd.ignoreLf.trans hl) hu1 h)
      rw [hrule σ hm hstk c (hsub c List.mem_cons_self), h1]
      rfl

/-- a stretch that keeps the abstract "ignore LF" flag keeps the model's -/
theorem tblc_tr_ignoreLf {s s' : State} {c : List Call} {R : Aux → Aux → Prop} (hm : MInv s) (h : Tr s s' c R)
    (hR : ∀ x x', AuxOk s x → AuxOk s' x' → R x x' → (absF s' x').ignoreLf = (absF s x).ignoreLf) :
    s'.ignoreLf = s.ignoreLf := by
  obtain ⟨hm', -, -, ids, hfi, f⟩ := h
  obtain ⟨x, hx, hsup⟩ := tbl_auxOk_exists hm ids
  obtain ⟨x', l, r⟩ := f x [] hx (by simp [hsup])
  exact hR x x' hx l.aux r

theorem tblc_curIs_of_stack {σ σ1 : SState} (h : σ1.p.stack = σ.p.stack) (n : String) :
    Spec.TreeModes.State.curIs σ1 n = Spec.TreeModes.State.curIs σ n := by
  unfold Spec.TreeModes.State.curIs Spec.TreeModes.State.cur
  rw [h]

theorem modeCharSim_inColumnGroup : ModeCharSim .inColumnGroup := by
  intro st text hwf s _ hm hmode hlf hdisp
  have hcls := hwf.2.2
  have hmσ : imode s.mode = .inColumnGroup := by rw [hmode]; rfl
  show PC (stepInColumnGroup (.chars st text)) s _
  cases st with
  | notSplit => simp only [stepInColumnGroup]; exact pc_pure (charsPost_split hm text)
  | whitespace =>
    simp only [stepInColumnGroup]
    refine pc_chars_insert hm hmσ hlf hdisp ?_
    intro σ1 h1 c hc
    rw [byModeDev_inColumnGroup h1]
    simp only [Spec.TreeModes.inColumnGroup, isWs_eq_ascii, hcls c hc, if_true]
  | notWhitespace =>
    simp only [stepInColumnGroup]
    refine pc_seq (pc_currentNodeNamed hm "colgroup") ?_
    rintro b s1 c1 _ htr1
    have hlf1 : s1.ignoreLf = s.ignoreLf := tblc_tr_ignoreLf hm htr1 (by
      rintro x x' _ _ ⟨hx', e, -⟩
      subst x'
      rw [← e])
    cases b with
    | false =>
      simp only [Bool.false_eq_true, if_false]
      refine pc_conseq (pc_unexpected_same htr1.1) ?_
      rintro r s2 c2 _ ⟨rfl, hs, htr2⟩
      refine ⟨hs.fields.ignoreLf.trans hlf1, (htr1.trans htr2).reaux
        (fun _ x' => { x' with errors := x'.errors ++ List.replicate text.length "in column group: current node is not colgroup" })
        (fun _ _ => ⟨⟨rfl, rfl, rfl, rfl, rfl⟩, rfl, rfl, rfl⟩) ?_⟩
      rintro x x2 hx hx2 ⟨x1, ⟨hx1, e1, hb⟩, hx2e, e2⟩
      subst x2
      subst x1
      refine specChars_of_byModeRun (tblc_charsRunK_foldlM (m := .inColumnGroup)
        (fun σ _ => pure (σ.err "in column group: current node is not colgroup")) (absF s x).p.stack ?_
        (fun σ _ _ h => ?_) (fun _ h => h) hmσ rfl hx.live hlf (hdisp x hx) ?_)
      · intro σ1 h1 hstk c hc
        rw [byModeDev_inColumnGroup h1]
        simp only [Spec.TreeModes.inColumnGroup, isWs_eq_ascii, hcls c hc, Bool.false_eq_true, if_false,
          tblc_curIs_of_stack hstk, ← hb, Bool.not_false, if_true]
        rfl
      · cases h; exact SameDisp.err σ _
      · rw [foldlM_err, e1, e2]; rfl
    | true =>
      simp only [if_true]
      refine pc_seq (pc_pop htr1.1) ?_
      rintro h s2 c2 _ ⟨-, -, hso, htr2⟩
      refine pc_pure ?_
      rw [List.append_nil]
      obtain ⟨hne, -, -⟩ := hwf
      cases text with
      | nil => exact absurd rfl hne
      | cons c cs =>
        have hlf2 : s2.ignoreLf = s1.ignoreLf := by unfold StackOnly at hso; rw [hso]
        refine ⟨rfl, hlf2.trans hlf1, c, cs, rfl, ?_⟩
        refine (tbl_tr_withMode (htr1.trans htr2) .inTable).reaux
          (fun _ x' => { x' with pendingJunk := (absF s2 x').pendingTableChars })
          (fun _ _ => ⟨⟨rfl, rfl, rfl, rfl, rfl⟩, rfl, rfl, rfl⟩) ?_
        rintro x x2 hx hx2 ⟨x1, ⟨hx1, e1, hb⟩, hx2e, e2, -⟩
        subst x2
        subst x1
        rw [byModeDev_inColumnGroup hmσ]
        simp only [Spec.TreeModes.inColumnGroup, isWs_eq_ascii, hcls c List.mem_cons_self, Bool.false_eq_true, if_false,
          ← hb, Bool.not_true]
        rw [tbl_absF_setMode _ _ _ (by decide), e2, ← e1]
        rfl


/-! ### "in caption" -/

theorem tblc_closeCaption_some (σ : SState) (h : Spec.TreeModes.hasInTableScope σ "caption" = true) :
    ∃ E, Spec.TreeModes.closeCaption σ = some { ((Spec.TreeModes.popUntilPopped (Spec.TreeModes.genImplied σ) "caption").clearToLastMarker).setMode
      .inTable with errors := E } := by
  unfold Spec.TreeModes.closeCaption
  simp only [h, Bool.not_true, Bool.false_eq_true, if_false]
  by_cases hc : (Spec.TreeModes.genImplied σ).curIs "caption" = true
  · simp only [hc, if_true]
    exact ⟨σ.errors, rfl⟩
  · simp only [hc]
    exact ⟨σ.errors ++ ["in caption: current node is not caption"], rfl⟩

theorem tblc_closeCaption_none (σ : SState) (h : Spec.TreeModes.hasInTableScope σ "caption" = false) :
    Spec.TreeModes.closeCaption σ = none := by
  unfold Spec.TreeModes.closeCaption
  simp only [h, Bool.not_false, if_true]

theorem tblc_absF_setMode_err (s : State) (x : Aux) (m : Mode) (hne : m ≠ .inTableText) (E : List String) :
    absF { s with mode := m } { x with errors := E, pendingJunk := (absF s x).pendingTableChars }
      = { (absF s x).setMode (imode m) with errors := E } := by
  rw [← tbl_absF_setMode s x m hne]
  rfl


/-- the specification's answer in the arms of "in caption" that close the caption -/
def tblc_capSpec (w : String) (re : Bool) (σ : SState) : Spec.TreeModes.M (Step Id) :=
  match Spec.TreeModes.closeCaption σ with
  | none => pure (Step.done (Spec.TreeModes.State.err σ w))
  | some s => pure (if re then Step.reprocess s else Step.done s)

/-- "Generate implied end tags. … Pop elements from this stack until a caption element has been popped
from the stack.  Clear the list of active formatting elements up to the last marker." -/
theorem tblc_pc_closeCaptionThen {α : Type} {s : State} (hm : MInv s) {k : M α} {Q : α → State → List Call → Prop}
    (hk : ∀ s' c, Tr s s' c (fun x x' => x' = x ∧ absF s' x
        = (Spec.TreeModes.popUntilPopped (Spec.TreeModes.genImplied (absF s x)) "caption").clearToLastMarker) →
      PC k s' (fun a s2 c2 => Q a s2 (c ++ c2))) :
    PC (generateImpliedEndTags cursoryImpliedEnd >>= fun _ => expectToClose "caption" >>= fun _ =>
      clearActiveFormattingToMarker >>= fun _ => k) s Q := by
  refine pc_seq (pc_generateImpliedEndTags_cursory hm) ?_
  rintro _ s1 c1 _ htr1
  refine pc_seq (pc_expectToClose htr1.1 "caption") ?_
  rintro _ s2 c2 _ htr2
  refine pc_seq (pc_clearActiveFormattingToMarker htr2.1) ?_
  rintro _ s3 c3 _ ⟨-, htr3⟩
  have h := hk s3 ((c1 ++ c2) ++ c3) (((htr1.trans htr2).trans htr3).conseq (by
    rintro x x3 _ _ ⟨x2, ⟨x1, ⟨hx1, e1⟩, hx2, e2⟩, hx3, e3⟩
    subst x3
    subst x2
    subst x1
    exact ⟨rfl, by rw [← e3, e2, e1]⟩))
  simp only [List.append_assoc] at h
  exact h

theorem tblc_pc_caption {s : State} (hm : MInv s) (tok : Token) (w : String) (re : Bool) :
    PC (inScopeNamed tableScope "caption" >>= fun b =>
        if b = true then
          generateImpliedEndTags cursoryImpliedEnd >>= fun _ => expectToClose "caption" >>= fun _ =>
            clearActiveFormattingToMarker >>= fun _ =>
              (if re = true then pure (ProcessResult.reprocess Mode.inTable tok)
               else setMode Mode.inTable >>= fun _ => pure ProcessResult.done)
        else unexpected >>= fun _ => pure ProcessResult.done) s
      (TokPost (tblc_capSpec w re) s tok) := by
  refine pc_seq (pc_inScopeNamed_table hm "caption") ?_
  rintro b s1 c1 _ htr1
  cases b with
  | false =>
    simp only [Bool.false_eq_true, if_false]
    refine pc_seq (pc_unexpected htr1.1) ?_
    rintro _ s2 c2 _ ⟨-, htr2⟩
    refine pc_pure ?_
    rw [List.append_nil]
    refine tokPost_of_tr (htr1.trans htr2) trivial ?_
    rintro x x2 hx hx2 ⟨x1, ⟨hx1, e1, hb⟩, hx2e, e2⟩
    subst x2
    subst x1
    refine ⟨{ x with errors := x.errors ++ [w] }, ?_, ⟨rfl, rfl, rfl, rfl, rfl⟩, Or.inl rfl, rfl, rfl⟩
    simp only [tblc_capSpec, tblc_closeCaption_none _ hb.symm, stepOf]
    rw [e1, e2]
    rfl
  | true =>
    simp only [if_true]
    refine tblc_pc_closeCaptionThen htr1.1 ?_
    intro s2 c2 htr2
    cases re with
    | true =>
      simp only [if_true]
      refine pc_pure ?_
      rw [List.append_nil]
      refine tokPost_of_tr (htr1.trans htr2) rfl ?_
      rintro x x2 hx hx2 ⟨x1, ⟨hx1, e1, hb⟩, hx2e, e2⟩
      subst x2
      subst x1
      obtain ⟨E, hE⟩ := tblc_closeCaption_some (absF s x) hb.symm
      refine ⟨{ x with errors := E, pendingJunk := (absF s2 x).pendingTableChars }, ?_, ⟨rfl, rfl, rfl, rfl, rfl⟩, Or.inl rfl,
        rfl, rfl⟩
      simp only [tblc_capSpec, hE, stepOf, applyRes, if_true]
      rw [tblc_absF_setMode_err _ _ _ (by decide), e2, ← e1]
      rfl
    | false =>
      simp only [Bool.false_eq_true, if_false]
      refine pc_seq (pc_setMode htr2.1 .inTable) ?_
      rintro _ s3 c3 _ ⟨rfl, htr3⟩
      refine pc_pure ?_
      rw [List.append_nil, ← List.append_assoc]
      refine tokPost_of_tr ((htr1.trans htr2).trans htr3) trivial ?_
      rintro x x3 hx hx3 ⟨x2, ⟨x1, ⟨hx1, e1, hb⟩, hx2e, e2⟩, hx3e⟩
      subst x3
      subst x2
      subst x1
      obtain ⟨E, hE⟩ := tblc_closeCaption_some (absF s x) hb.symm
      refine ⟨{ x with errors := E, pendingJunk := (absF s2 x).pendingTableChars }, ?_, ⟨rfl, rfl, rfl, rfl, rfl⟩, Or.inl rfl,
        rfl, rfl⟩
      simp only [tblc_capSpec, hE, stepOf, Bool.false_eq_true, if_false]
      rw [tblc_absF_setMode_err _ _ _ (by decide), e2, ← e1]
      rfl

theorem tblc_isOneOf2_false {n : Str} {a b : String} (h1 : ¬ n = a.toList) (h2 : ¬ n = b.toList) :
    isOneOf n [a, b] = false := by
  simp only [isOneOf_cons, isOneOf_nil, decide_eq_false h1, decide_eq_false h2, Bool.or_self]

theorem tblc_sim_inCaption (hbody : StepSimTok stepInBody Spec.TreeModes.inBody) :
    StepSimTok stepInCaption Spec.TreeModes.inCaption := by
  intro tok hch hwf s hm
  cases tok with
  | chars st text => cases hch
  | comment text =>
    simp only [stepInCaption]
    refine pc_tokPost_congr (hbody _ rfl hwf s hm) ?_
    intro x hx
    simp only [stokOf, Spec.TreeModes.inCaption]
  | eof =>
    simp only [stepInCaption]
    refine pc_tokPost_congr (hbody _ rfl hwf s hm) ?_
    intro x hx
    simp only [stokOf, Spec.TreeModes.inCaption]
  | nullChar =>
    simp only [stepInCaption]
    refine pc_tokPost_congr (hbody _ rfl hwf s hm) ?_
    intro x hx
    simp only [stokOf, Spec.TreeModes.inCaption]
  | tag t =>
    cases hk : t.kind with
    | startTag =>
      simp only [stepInCaption, Tag.isStart, Tag.isEnd, hk, tbl_kind_se, tbl_kind_ss, Bool.false_and, Bool.true_and,
        Bool.false_eq_true, if_false, Bool.or_false]
      simp only [stokOf, stokOfTag_start hk, Spec.TreeModes.inCaption, Spec.TreeModes.Tag.isOneOf, specTag_name,
        tblc_strIsOneOf]
      cases h9 : isOneOf t.name ["caption", "col", "colgroup", "tbody", "td", "tfoot", "th", "thead", "tr"] with
      | true =>
        simp only [if_true]
        refine pc_tokPost_congr (tblc_pc_caption hm (.tag t) "in caption: table start tag without caption in table scope" true) ?_
        intro x hx
        simp only [tblc_capSpec, if_true]
        cases Spec.TreeModes.closeCaption (absF s x) <;> rfl
      | false =>
        simp only [Bool.false_eq_true, if_false]
        refine pc_tokPost_congr (hbody (.tag t) rfl hwf s hm) ?_
        intro x hx
        simp only [stokOf, stokOfTag_start hk]
    | endTag =>
      simp only [stepInCaption, Tag.isStart, Tag.isEnd, hk, tbl_kind_es, tbl_kind_ee, Bool.false_and, Bool.true_and,
        Bool.false_or]
      simp only [stokOf, stokOfTag_end hk, Spec.TreeModes.inCaption, Spec.TreeModes.Tag.is, Spec.TreeModes.Tag.isOneOf, strIs_eq,
        specTag_name, tblc_strIsOneOf]
      by_cases h1 : t.name = "caption".toList
      · simp +decide only [h1, if_true]
        refine pc_tokPost_congr (tblc_pc_caption hm (.tag t) "in caption: caption end tag without caption in table scope" false) ?_
        intro x hx
        simp only [tblc_capSpec, Bool.false_eq_true, if_false]
        cases Spec.TreeModes.closeCaption (absF s x) <;> rfl
      · by_cases h2 : t.name = "table".toList
        · simp +decide only [h2, if_true, if_false]
          refine pc_tokPost_congr (tblc_pc_caption hm (.tag t) "in caption: table end tag without caption in table scope" true) ?_
          intro x hx
          simp only [tblc_capSpec, if_true]
          cases Spec.TreeModes.closeCaption (absF s x) <;> rfl
        · simp only [tblc_isOneOf2_false h2 h1, decide_eq_false h1, decide_eq_false h2, Bool.false_eq_true, if_false]
          cases h10 : isOneOf t.name ["body", "col", "colgroup", "html", "tbody", "td", "tfoot", "th", "thead", "tr"] with
          | true =>
            simp only [if_true]
            exact pc_unexpected_err hm _ _
          | false =>
            simp only [Bool.false_eq_true, if_false]
            refine pc_tokPost_congr (hbody (.tag t) rfl hwf s hm) ?_
            intro x hx
            simp only [stokOf, stokOfTag_end hk]


theorem modeSim_inCaption (hbody : StepSimTok stepInBody Spec.TreeModes.inBody) : ModeSim .inCaption := by
  intro tok hch hwf s _ hm hmode _
  refine pc_tokPost_congr (tblc_sim_inCaption hbody tok hch hwf s hm) ?_
  intro x hx
  exact byModeDev_inCaption (by show imode s.mode = _; rw [hmode]; rfl) _

theorem modeCharSim_inCaption (hbodyc : StepSimChars stepInBody Spec.TreeModes.inBody) : ModeCharSim .inCaption := by
  intro st text hwf s _ hm hmode hlf hdisp
  have hmσ : imode s.mode = .inCaption := by rw [hmode]; rfl
  show PC (stepInCaption (.chars st text)) s _
  simp only [stepInCaption]
  refine pc_chars_delegate hbodyc hwf hm hmσ hlf hdisp ?_
  intro σ1 h1 c hc
  rw [byModeDev_inCaption h1]
  simp only [Spec.TreeModes.inCaption]


/-! ### "in cell" -/


theorem tblc_cellEnd_eq (σ : SState) (name : Str) :
    ∃ E, (Spec.TreeModes.popUntilPoppedStr
        (if Option.any (fun e => Spec.TreeModes.isNamed name e.name) (Spec.TreeModes.genImplied σ).cur = true then
          Spec.TreeModes.genImplied σ
        else (Spec.TreeModes.genImplied σ).err "in cell: current node differs") name).clearToLastMarker.setMode IMode.inRow
      = { ((Spec.TreeModes.popUntilPoppedStr (Spec.TreeModes.genImplied σ) name).clearToLastMarker).setMode .inRow with
          errors := E } := by
  by_cases hc : Option.any (fun e => Spec.TreeModes.isNamed name e.name) (Spec.TreeModes.genImplied σ).cur = true
  · simp only [hc, if_true]
    exact ⟨σ.errors, rfl⟩
  · simp only [hc]
    exact ⟨σ.errors ++ ["in cell: current node differs"], rfl⟩

/-- an end tag `td` / `th` in "in cell" -/
theorem tblc_pc_cellEnd {s : State} (hm : MInv s) (tok : Token) (name : Str) (w : String) :
    PC (inScopeNamedS tableScope name >>= fun b =>
        if b = true then
          generateImpliedEndTags cursoryImpliedEnd >>= fun _ => expectToCloseS name >>= fun _ =>
            clearActiveFormattingToMarker >>= fun _ => setMode Mode.inRow >>= fun _ => pure ProcessResult.done
        else unexpected >>= fun _ => pure ProcessResult.done) s
      (TokPost (fun σ =>
        if (!Spec.TreeModes.hasStrInTableScope σ name) = true then pure (Step.done (Spec.TreeModes.State.err σ w))
        else pure (Step.done ((Spec.TreeModes.popUntilPoppedStr
          (if Option.any (fun e => Spec.TreeModes.isNamed name e.name) (Spec.TreeModes.genImplied σ).cur = true then
            Spec.TreeModes.genImplied σ
          else (Spec.TreeModes.genImplied σ).err "in cell: current node differs") name).clearToLastMarker.setMode
            IMode.inRow))) s tok) := by
  refine pc_seq (pc_inScopeNamedS_table hm name) ?_
  rintro b s1 c1 _ htr1
  cases b with
  | false =>
    simp only [Bool.false_eq_true, if_false]
    refine pc_seq (pc_unexpected htr1.1) ?_
    rintro _ s2 c2 _ ⟨-, htr2⟩
    refine pc_pure ?_
    rw [List.append_nil]
    refine tokPost_of_tr (htr1.trans htr2) trivial ?_
    rintro x x2 hx hx2 ⟨x1, ⟨hx1, e1, hb⟩, hx2e, e2⟩
    subst x2
    subst x1
    refine ⟨{ x with errors := x.errors ++ [w] }, ?_, ⟨rfl, rfl, rfl, rfl, rfl⟩, Or.inl rfl, rfl, rfl⟩
    rw [← hb]
    simp only [Bool.not_false, if_true, stepOf]
    rw [e1, e2]
    rfl
  | true =>
    simp only [if_true]
    refine pc_seq (pc_generateImpliedEndTags_cursory htr1.1) ?_
    rintro _ s2 c2 _ htr2
    refine pc_seq (pc_expectToCloseS htr2.1 name) ?_
    rintro _ s3 c3 _ htr3
    refine pc_seq (pc_clearActiveFormattingToMarker htr3.1) ?_
    rintro _ s4 c4 _ ⟨-, htr4⟩
    refine pc_seq (pc_setMode htr4.1 .inRow) ?_
    rintro _ s5 c5 _ ⟨rfl, htr5⟩
    refine pc_pure ?_
    rw [List.append_nil, ← List.append_assoc, ← List.append_assoc, ← List.append_assoc]
    refine tokPost_of_tr ((((htr1.trans htr2).trans htr3).trans htr4).trans htr5) trivial ?_
    rintro x x5 hx hx5 ⟨x4, ⟨x3, ⟨x2, ⟨x1, ⟨hx1, e1, hb⟩, hx2e, e2⟩, hx3e, e3⟩, hx4e, e4⟩, hx5e⟩
    subst x5
    subst x4
    subst x3
    subst x2
    subst x1
    obtain ⟨E, hE⟩ := tblc_cellEnd_eq (absF s x) name
    refine ⟨{ x with errors := E, pendingJunk := (absF s4 x).pendingTableChars }, ?_, ⟨rfl, rfl, rfl, rfl, rfl⟩, Or.inl rfl,
      rfl, rfl⟩
    rw [← hb]
    simp only [Bool.not_true, Bool.false_eq_true, if_false, stepOf, hE]
    rw [tblc_absF_setMode_err _ _ _ (by decide), ← e4, e3, e2, ← e1]
    rfl

/-- "close the cell and reprocess the token", after the test `q` -/
theorem tblc_pc_cellClose {s : State} (tok : Token) {q : M Bool} {g : SState → Bool}
    (hq : PC q s (fun b s' calls => Tr s s' calls (fun x x' => x' = x ∧ absF s x = absF s' x ∧ b = g (absF s x))))
    (w : String) :
    PC (q >>= fun b =>
        if b = true then closeTheCell >>= fun _ => pure (ProcessResult.reprocess Mode.inRow tok) else unexpected) s
      (TokPost (fun σ => if (!g σ) = true then pure (Step.done (Spec.TreeModes.State.err σ w))
        else pure (Step.reprocess (Spec.TreeModes.closeCell σ))) s tok) := by
  refine pc_seq hq ?_
  rintro b s1 c1 _ htr1
  cases b with
  | false =>
    simp only [Bool.false_eq_true, if_false]
    refine pc_conseq (pc_unexpected htr1.1) ?_
    rintro r s2 c2 _ ⟨rfl, htr2⟩
    refine tokPost_of_tr (htr1.trans htr2) trivial ?_
    rintro x x2 hx hx2 ⟨x1, ⟨hx1, e1, hb⟩, hx2e, e2⟩
    subst x2
    subst x1
    refine ⟨{ x with errors := x.errors ++ [w] }, ?_, ⟨rfl, rfl, rfl, rfl, rfl⟩, Or.inl rfl, rfl, rfl⟩
    rw [← hb]
    simp only [Bool.not_false, if_true, stepOf]
    rw [e1, e2]
    rfl
  | true =>
    simp only [if_true]
    refine pc_seq (pc_closeTheCell htr1.1) ?_
    rintro _ s2 c2 _ ⟨-, htr2⟩
    refine pc_pure ?_
    rw [List.append_nil]
    refine tokPost_of_tr (htr1.trans htr2) rfl ?_
    rintro x x2 hx hx2 ⟨x1, ⟨hx1, e1, hb⟩, hx2e, e2⟩
    subst x1
    refine ⟨{ x2 with pendingJunk := (absF s2 x2).pendingTableChars }, ?_, ⟨rfl, rfl, rfl, rfl, rfl⟩, Or.inl rfl, rfl, rfl⟩
    rw [← hb]
    simp only [Bool.not_true, Bool.false_eq_true, if_false, stepOf, applyRes]
    rw [tbl_absF_setMode _ _ _ (by decide), e1, ← e2]
    rfl

/-- the token is one of the start tags for which "in cell" asserts a cell in table scope -/
def cellAssertTag (tok : STok) : Bool :=
  match isStartTag tok with
  | some t => t.isOneOf ["caption", "col", "colgroup", "tbody", "td", "tfoot", "th", "thead", "tr"]
  | none => false

/-- "in cell" with the standard's one assertion made total as html5ever does (parse error, ignore the token):
what `byModeDev` is in the "in cell" insertion mode -/
def inCellDev (cfg : Config Id) (σ : SState) (tok : STok) : Spec.TreeModes.M (Step Id) :=
  if cellAssertTag tok && !Spec.TreeModes.hasAnyInTableScope σ ["td", "th"] then
    pure (.done (σ.err "in cell: no cell in table scope (asserted impossible)"))
  else Spec.TreeModes.inCell cfg σ tok

theorem cellAssertFails_inCell {σ : SState} (h : σ.mode = .inCell) (tok : STok) :
    cellAssertFails σ tok = (cellAssertTag tok && !Spec.TreeModes.hasAnyInTableScope σ ["td", "th"]) := by
  simp only [cellAssertFails, h, beq_self_eq_true, Bool.true_and]
  cases tok <;> rfl

theorem byModeDev_inCellDev {cfg : Config Id} {σ : SState} (h : σ.mode = .inCell) (tok : STok) :
    byModeDev cfg σ tok = inCellDev cfg σ tok := by
  cases hc : cellAssertFails σ tok with
  | false =>
    rw [byModeDev_inCell h tok hc]
    rw [cellAssertFails_inCell h] at hc
    simp only [inCellDev, hc, Bool.false_eq_true, if_false]
  | true =>
    rw [byModeDev_inCell_assert h tok hc]
    rw [cellAssertFails_inCell h] at hc
    simp only [inCellDev, hc, if_true]

theorem inCellDev_of_tag {cfg : Config Id} {σ : SState} {tok : STok} (h : cellAssertTag tok = false) :
    inCellDev cfg σ tok = Spec.TreeModes.inCell cfg σ tok := by
  simp only [inCellDev, h, Bool.false_and, Bool.false_eq_true, if_false]

theorem tblc_sim_inCell (hbody : StepSimTok stepInBody Spec.TreeModes.inBody) (tok : Token) (hch : isCharsTok tok = false)
    (hwf : TokWf tok) (s : State) (hm : MInv s) :
    PC (stepInCell tok) s (TokPost (fun σ => inCellDev (cfgOf s) σ (stokOf tok)) s tok) := by
  cases tok with
  | chars st text => cases hch
  | comment text =>
    simp only [stepInCell]
    refine pc_tokPost_congr (hbody _ rfl hwf s hm) ?_
    intro x hx
    rw [inCellDev_of_tag (by rfl)]
    simp only [stokOf, Spec.TreeModes.inCell]
  | eof =>
    simp only [stepInCell]
    refine pc_tokPost_congr (hbody _ rfl hwf s hm) ?_
    intro x hx
    rw [inCellDev_of_tag (by rfl)]
    simp only [stokOf, Spec.TreeModes.inCell]
  | nullChar =>
    simp only [stepInCell]
    refine pc_tokPost_congr (hbody _ rfl hwf s hm) ?_
    intro x hx
    rw [inCellDev_of_tag (by rfl)]
    simp only [stokOf, Spec.TreeModes.inCell]
  | tag t =>
    cases hk : t.kind with
    | startTag =>
      simp only [stepInCell, Tag.isStart, Tag.isEnd, hk, tbl_kind_se, tbl_kind_ss, Bool.false_and, Bool.true_and,
        Bool.false_eq_true, if_false]
      simp only [stokOf, stokOfTag_start hk, inCellDev, cellAssertTag, isStartTag, Spec.TreeModes.inCell,
        Spec.TreeModes.Tag.isOneOf, specTag_name, tblc_strIsOneOf]
      cases h9 : isOneOf t.name ["caption", "col", "colgroup", "tbody", "td", "tfoot", "th", "thead", "tr"] with
      | true =>
        simp only [Bool.true_and, if_true]
        refine pc_tokPost_congr (tblc_pc_cellClose (.tag t) (g := fun σ => Spec.TreeModes.hasAnyInTableScope σ ["td", "th"])
          (pc_inScope_table_tdTh hm) "in cell: no cell in table scope (asserted impossible)") ?_
        intro x hx
        cases Spec.TreeModes.hasAnyInTableScope (absF s x) ["td", "th"] <;>
          simp only [Bool.not_true, Bool.not_false, Bool.false_eq_true, if_false, if_true]
      | false =>
        simp only [Bool.false_and, Bool.false_eq_true, if_false]
        refine pc_tokPost_congr (hbody (.tag t) rfl hwf s hm) ?_
        intro x hx
        simp only [stokOf, stokOfTag_start hk]
    | endTag =>
      simp only [stepInCell, Tag.isStart, Tag.isEnd, hk, tbl_kind_es, tbl_kind_ee, Bool.false_and, Bool.true_and,
        Bool.false_eq_true, if_false]
      simp only [stokOf, stokOfTag_end hk, inCellDev, cellAssertTag, isStartTag, Bool.false_and, Bool.false_eq_true, if_false,
        Spec.TreeModes.inCell, Spec.TreeModes.Tag.isOneOf, specTag_name, tblc_strIsOneOf]
      cases h2 : isOneOf t.name ["td", "th"] with
      | true =>
        simp only [if_true]
        exact tblc_pc_cellEnd hm _ _ _
      | false =>
        simp only [Bool.false_eq_true, if_false]
        cases h5 : isOneOf t.name ["body", "caption", "col", "colgroup", "html"] with
        | true =>
          simp only [if_true]
          exact pc_unexpected_err hm _ _
        | false =>
          simp only [Bool.false_eq_true, if_false]
          cases h5b : isOneOf t.name ["table", "tbody", "tfoot", "thead", "tr"] with
          | true =>
            simp only [if_true]
            exact tblc_pc_cellClose (.tag t) (g := fun σ => Spec.TreeModes.hasStrInTableScope σ t.name)
              (pc_inScopeNamedS_table hm t.name) _
          | false =>
            simp only [Bool.false_eq_true, if_false]
            refine pc_tokPost_congr (hbody (.tag t) rfl hwf s hm) ?_
            intro x hx
            simp only [stokOf, stokOfTag_end hk]

/-- "has one of `l` in table scope" of the abstract state, in terms of the model state only -/
theorem tblc_hasAny_absF {s : State} {x : Aux} (hx : AuxOk s x) (l : List String) :
    Spec.TreeModes.hasAnyInTableScope (absF s x) l
      = Spec.TreeAlgo.hasInScope (Spec.TreeAlgo.inHtml l) Spec.TreeAlgo.tableScopeList
          (namesRev (absStack s.dom s.openElems)) := by
  unfold Spec.TreeModes.hasAnyInTableScope
  rw [absF_names hx]

theorem modeSim_inCell (hbody : StepSimTok stepInBody Spec.TreeModes.inBody) : ModeSim .inCell := by
  intro tok hch hwf s hti hm hmode _
  refine pc_tokPost_congr (tblc_sim_inCell hbody tok hch hwf s hm) ?_
  intro x hx
  exact byModeDev_inCellDev (by show imode s.mode = _; rw [hmode]; rfl) _

theorem modeCharSim_inCell (hbodyc : StepSimChars stepInBody Spec.TreeModes.inBody) : ModeCharSim .inCell := by
  intro st text hwf s _ hm hmode hlf hdisp
  have hmσ : imode s.mode = .inCell := by rw [hmode]; rfl
  show PC (stepInCell (.chars st text)) s _
  simp only [stepInCell]
  refine pc_chars_delegate hbodyc hwf hm hmσ hlf hdisp ?_
  intro σ1 h1 c hc
  rw [byModeDev_inCellDev h1, inCellDev_of_tag (by rfl)]
  simp only [Spec.TreeModes.inCell]

end H5V.Lemmas.HtmlTBModes
