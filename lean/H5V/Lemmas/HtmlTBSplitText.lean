import H5V.Lemmas.HtmlTBSplitFuel
/-!
C03 lifted to the tree — layer 4a: inserting text in two pieces is inserting the concatenation.
* `appendText_eval`: `append_text` = compute the place (a query), then one text-inserting sink call;
* `fa_add`: `[frameset-ok;] append_text x; … ; [frameset-ok;] append_text y` ends like
  `[frameset-ok;] append_text (x ++ y)` (the DOM text-merging lemmas + stability of the place);
* `reconstruct`: after `reconstruct_active_formatting_elements` ran, running it again (also after a
  text insertion) changes nothing (`RDone`), and if it created elements the current node is a new
  HTML formatting element (`HtmlTop`).
-/
namespace H5V.Lemmas.TBSplit
open H5V.Model.Dom (Id QualName Attr NodeOrText SinkOp Output ElementFlags QuirksMode Dom)
open H5V.Model.HtmlTok (TagKind RawKind)
open H5V.Model.HtmlTB
open H5V.Lemmas.TBSplitDom

/-! ### `Sim` states answer queries alike -/

theorem DQ_wE (d : Dom) (e : List Str) : DQ d (wE d e) := fun _ => ⟨RelE.refl _, RelE.refl _, RelE.refl _⟩

theorem Sim.qsim {s t : State} (h : Sim s t) : QSim s t := by
  obtain ⟨_, tr, cl, er, pt, rfl, _⟩ := h
  exact ⟨s.mode, s.origMode, pt, s.framesetOk, s.ignoreLf, cl, tr, _, rfl, DQ_wE s.dom er⟩

/-- the states differ in the trace only -/
def TrEq (s t : State) : Prop := ∃ tr, t = withTr s tr

theorem TrEq.refl (s : State) : TrEq s s := ⟨s.traceRev, rfl⟩
theorem TrEq.symm {s t : State} (h : TrEq s t) : TrEq t s := by
  obtain ⟨tr, rfl⟩ := h; exact ⟨s.traceRev, rfl⟩
theorem TrEq.trans {s t u : State} (h : TrEq s t) (h' : TrEq t u) : TrEq s u := by
  obtain ⟨tr, rfl⟩ := h; obtain ⟨tr', rfl⟩ := h'; exact ⟨tr', rfl⟩
theorem TrEq.qsim {s t : State} (h : TrEq s t) : QSim s t := by
  obtain ⟨tr, rfl⟩ := h; exact QSim.withTr s tr
theorem TrEq.sim {s t : State} (h : TrEq s t) (hg : Good s) : Sim s t := by
  obtain ⟨tr, rfl⟩ := h
  exact ⟨hg.af, tr, s.currentLine, s.dom.errorsRev, s.pendingTableText, by cases s with | mk _ _ _ _ _ _ _ _ _ _ _ _ _ _ _ _ dom _ => cases dom; rfl,
    PendRel.rfl' hg.pend⟩
theorem TrEq.good {s t : State} (h : TrEq s t) (hg : Good s) : Good t := (h.sim hg).symm.good

/-! ### `append_text` -/

/-- the sink call that inserts text `z` at `p` -/
def insOp (p : InsertionPoint) (z : Str) : SinkOp :=
  match p with
  | .lastChild parent => .append parent (.text z)
  | .beforeSibling sibling => .appendBeforeSibling sibling (.text z)
  | .tableFosterParenting element prev => .appendBasedOnParentNode element prev (.text z)

theorem insOp_isTextIns (p : InsertionPoint) (z : Str) : isTextIns (insOp p z) = true := by
  cases p <;> rfl

theorem insertAt_text (p : InsertionPoint) (z : Str) : insertAt p (.text z) = sinkUnit (insOp p z) := by
  cases p <;> rfl

/-- **text merging**, for each of the three insertion points -/
theorem insOp_merge (d : Dom) (p : InsertionPoint) (x y : Str) :
    Dom.apply d (insOp p (x ++ y)) = (Dom.apply d (insOp p x)) >>= fun r => Dom.apply r.1 (insOp p y) := by
  cases p with
  | lastChild parent => exact append_text_merge d parent x y
  | beforeSibling sib => exact appendBeforeSibling_text_merge d sib x y
  | tableFosterParenting e prev => exact appendBasedOnParentNode_text_merge d e prev x y

local notation "place" => appropriatePlaceForInsertion none

theorem place_run (s : State) : (∃ e, place s = .error e) ∨ ∃ p tr, place s = .ok (p, withTr s tr) :=
  (appropriatePlaceForInsertion_q none).run s

theorem sinkUnit_apply (op : SinkOp) (s : State) :
    sinkUnit op s = match s.dom.apply op with
      | .error e => .error (errClass e ++ "@sink: " ++ e)
      | .ok (d, out) => .ok ((), { s with dom := d, traceRev := (op, out) :: s.traceRev }) := by
  unfold sinkUnit
  rw [bind_apply, sink_apply]
  cases s.dom.apply op with
  | error e => rfl
  | ok v => rfl

/-- **`append_text` evaluated** -/
theorem appendText_eval (z : Str) (s : State) :
    appendText z s = match place s with
      | .error e => .error e
      | .ok (p, s') => match s'.dom.apply (insOp p z) with
        | .error e => .error (errClass e ++ "@sink: " ++ e)
        | .ok (d, out) => .ok (.done, { s' with dom := d, traceRev := (insOp p z, out) :: s'.traceRev }) := by
  unfold appendText insertAppropriately
  simp only [bind_assoc]
  rw [bind_apply]
  cases place s with
  | error e => rfl
  | ok v =>
    obtain ⟨p, s'⟩ := v
    show (insertAt p (.text z) >>= fun _ => (pure ProcessResult.done : M ProcessResult)) s' =
      match s'.dom.apply (insOp p z) with
      | .error e => .error (errClass e ++ "@sink: " ++ e)
      | .ok (d, out) => .ok (.done, { s' with dom := d, traceRev := (insOp p z, out) :: s'.traceRev })
    rw [bind_apply, insertAt_text, sinkUnit_apply]
    cases s'.dom.apply (insOp p z) with
    | error e => rfl
    | ok w => rfl

/-- the state after a text insertion: only `dom` and the trace changed, and the DOM answers queries as before -/
def TextStep (s s' : State) : Prop :=
  ∃ d tr, s' = { s with dom := d, traceRev := tr } ∧ DQ s.dom d

theorem TextStep.qsim {s s' : State} (h : TextStep s s') : QSim s s' := by
  obtain ⟨d, tr, rfl, hd⟩ := h
  exact ⟨s.mode, s.origMode, s.pendingTableText, s.framesetOk, s.ignoreLf, s.currentLine, tr, d, rfl, hd⟩

theorem TextStep.good {s s' : State} (h : TextStep s s') (hg : Good s) : Good s' := by
  obtain ⟨d, tr, rfl, _⟩ := h; exact ⟨hg.af, hg.pend⟩

/-- a successful `append_text` -/
theorem appendText_ok {z : Str} {s s1 : State} {r : ProcessResult} (h : appendText z s = .ok (r, s1)) :
    r = .done ∧ ∃ p tr d out, place s = .ok (p, withTr s tr) ∧ s.dom.apply (insOp p z) = .ok (d, out) ∧
      s1 = { s with dom := d, traceRev := (insOp p z, out) :: tr } := by
  rw [appendText_eval] at h
  rcases place_run s with ⟨e, he⟩ | ⟨p, tr, hp⟩
  · rw [he] at h; cases h
  · rw [hp] at h
    simp only at h
    cases hd : s.dom.apply (insOp p z) with
    | error e =>
      have : (withTr s tr).dom = s.dom := rfl
      rw [this, hd] at h; cases h
    | ok v =>
      obtain ⟨d, out⟩ := v
      have : (withTr s tr).dom = s.dom := rfl
      rw [this, hd] at h
      simp only [Except.ok.injEq, Prod.mk.injEq] at h
      exact ⟨h.1.symm, p, tr, d, out, hp, hd, h.2.symm⟩

theorem appendText_textStep {z : Str} {s s1 : State} {r : ProcessResult} (h : appendText z s = .ok (r, s1)) :
    TextStep s s1 := by
  obtain ⟨_, p, tr, d, out, _, hd, rfl⟩ := appendText_ok h
  exact ⟨d, _, rfl, DQ.of_textIns (insOp_isTextIns p z) hd⟩

/-- states that differ only in components no query looks at **and have the same DOM** -/
def SameDom (s u : State) : Prop := QSim s u ∧ u.dom = s.dom

/-- **`append_text x` then (possibly after queries and frameset-ok updates) `append_text y`**, against
`append_text (x ++ y)` started in a state `s_` that no query can tell from `s` and has the same DOM -/
theorem appendText_add {x y : Str} {s s_ : State} (hqs_ : QSim s s_) (hds_ : s_.dom = s.dom) :
    (∀ e, appendText x s = .error e → ∃ e', appendText (x ++ y) s_ = .error e') ∧
    (∀ r s1, appendText x s = .ok (r, s1) → ∀ u, QSim s1 u → u.dom = s1.dom →
      (∃ e e', appendText y u = .error e ∧ appendText (x ++ y) s_ = .error e') ∨
      ∃ u2 sL, appendText y u = .ok (.done, u2) ∧ appendText (x ++ y) s_ = .ok (.done, sL) ∧
        (∃ d2 tr1 tr2, u2 = { u with dom := d2, traceRev := tr1 } ∧ sL = { s_ with dom := d2, traceRev := tr2 })) := by
  constructor
  · intro e he
    rw [appendText_eval] at he ⊢
    rcases place_run s with ⟨e1, h1⟩ | ⟨p, tr, hp⟩
    · obtain ⟨e', he'⟩ := (appropriatePlaceForInsertion_q none).transfer_err hqs_ h1
      rw [he']; exact ⟨e', rfl⟩
    · obtain ⟨tr_, hp_⟩ := (appropriatePlaceForInsertion_q none).transfer hqs_ hp
      rw [hp] at he
      rw [hp_]
      simp only at he ⊢
      have hdm : (withTr s tr).dom = s.dom := rfl
      have hdm_ : (withTr s_ tr_).dom = s.dom := hds_
      rw [hdm] at he
      rw [hdm_, insOp_merge]
      cases hd : s.dom.apply (insOp p x) with
      | error e2 => exact ⟨_, rfl⟩
      | ok v => rw [hd] at he; cases he
  · intro r s1 h1 u hq hud
    obtain ⟨_, p, tr, d, out, hp, hd, rfl⟩ := appendText_ok h1
    obtain ⟨tr_, hp_⟩ := (appropriatePlaceForInsertion_q none).transfer hqs_ hp
    have hq1 : QSim s { s with dom := d, traceRev := (insOp p x, out) :: tr } :=
      ⟨s.mode, s.origMode, s.pendingTableText, s.framesetOk, s.ignoreLf, s.currentLine, _, d, rfl,
        DQ.of_textIns (insOp_isTextIns p x) hd⟩
    have hqs : QSim s u := hq1.trans hq
    obtain ⟨tr2, hp2⟩ := (appropriatePlaceForInsertion_q none).transfer hqs hp
    have hm := insOp_merge s.dom p x y
    rw [hd] at hm
    have hud' : u.dom = d := hud
    have hdm_ : (withTr s_ tr_).dom = s.dom := hds_
    cases hd2 : d.apply (insOp p y) with
    | error e2 =>
      have hm2 : Dom.apply s.dom (insOp p (x ++ y)) = .error e2 := by
        rw [hm]; show (Dom.apply d (insOp p y)) = _; exact hd2
      refine Or.inl ⟨errClass e2 ++ "@sink: " ++ e2, errClass e2 ++ "@sink: " ++ e2, ?_, ?_⟩
      · rw [appendText_eval, hp2]
        simp only
        have : (withTr u tr2).dom = d := hud'
        rw [this, hd2]
      · rw [appendText_eval, hp_]
        simp only
        rw [hdm_, hm2]
    | ok v2 =>
      obtain ⟨d2, out2⟩ := v2
      have hm2 : Dom.apply s.dom (insOp p (x ++ y)) = .ok (d2, out2) := by
        rw [hm]; show (Dom.apply d (insOp p y)) = _; exact hd2
      refine Or.inr ⟨{ u with dom := d2, traceRev := (insOp p y, out2) :: tr2 },
        { s_ with dom := d2, traceRev := (insOp p (x ++ y), out2) :: tr_ }, ?_, ?_, ⟨d2, _, _, rfl, rfl⟩⟩
      · rw [appendText_eval, hp2]
        simp only
        have : (withTr u tr2).dom = d := hud'
        rw [this, hd2]
      · rw [appendText_eval, hp_]
        simp only
        rw [hdm_, hm2]

/-! ### frameset-ok and `append_text` -/

/-- `if c { frameset_ok = false }` -/
def setF (c : Bool) (s : State) : State := if c then { s with framesetOk := false } else s

theorem fOk_apply (z : Str) (s : State) : fOk z s = .ok ((), setF (anyNotWhitespace z) s) := by
  unfold fOk setF
  cases anyNotWhitespace z <;> rfl

/-- `[frameset-ok;] append_text` -/
def FA (b : Bool) (z : Str) : M ProcessResult := (if b then fOk z else pure ()) >>= fun _ => appendText z

theorem FA_apply (b : Bool) (z : Str) (s : State) : FA b z s = appendText z (setF (b && anyNotWhitespace z) s) := by
  unfold FA
  rw [bind_apply]
  cases b
  · simp only [Bool.false_eq_true, if_false, pure_apply, Bool.false_and]; rfl
  · simp only [if_true, fOk_apply, Bool.true_and]

theorem anyNotWhitespace_append (x y : Str) :
    anyNotWhitespace (x ++ y) = (anyNotWhitespace x || anyNotWhitespace y) := by
  simp [anyNotWhitespace, List.any_append]

theorem setF_qsim (c : Bool) (s : State) : QSim s (setF c s) ∧ (setF c s).dom = s.dom := by
  unfold setF
  cases c
  · exact ⟨QSim.refl s, rfl⟩
  · exact ⟨⟨s.mode, s.origMode, s.pendingTableText, false, s.ignoreLf, s.currentLine, s.traceRev, s.dom, rfl, DQ.refl _⟩, rfl⟩

theorem setF_good {c : Bool} {s : State} (h : Good s) : Good (setF c s) := by
  unfold setF; cases c
  · exact h
  · exact ⟨h.af, h.pend⟩

/-- **`[frameset-ok;] append_text` in two pieces** -/
theorem fa_add (b : Bool) {x y : Str} {s : State} (hg : Good s) :
    (∀ e, FA b x s = .error e → ∃ e', FA b (x ++ y) s = .error e') ∧
    (∀ r s1, FA b x s = .ok (r, s1) → r = .done ∧ Good s1 ∧ ∀ u, TrEq s1 u →
      RelR (· = .done) (FA b (x ++ y) s) (FA b y u)) := by
  have h0 := setF_qsim (b && anyNotWhitespace x) s
  have h1 := setF_qsim (b && anyNotWhitespace (x ++ y)) s
  have hA := appendText_add (x := x) (y := y) (s := setF (b && anyNotWhitespace x) s)
    (s_ := setF (b && anyNotWhitespace (x ++ y)) s) (h0.1.symm.trans h1.1) (by rw [h1.2, h0.2])
  constructor
  · intro e he
    rw [FA_apply] at he ⊢
    exact hA.1 e he
  · intro r s1 hs1
    rw [FA_apply] at hs1
    have hr := (appendText_ok hs1).1
    have hts := appendText_textStep hs1
    have hg1 : Good s1 := hts.good (setF_good hg)
    refine ⟨hr, hg1, ?_⟩
    intro u hu
    obtain ⟨tru, rfl⟩ := hu
    have hu' := setF_qsim (b && anyNotWhitespace y) (withTr s1 tru)
    rcases hA.2 r s1 hs1 (setF (b && anyNotWhitespace y) (withTr s1 tru))
        ((QSim.withTr s1 tru).trans hu'.1) (by rw [hu'.2]) with ⟨e, e', h2, h3⟩ | ⟨u2, sL, h2, h3, d2, tr1, tr2, rfl, rfl⟩
    · rw [FA_apply, FA_apply, h2, h3]; trivial
    · rw [FA_apply, FA_apply, h2, h3]
      refine ⟨rfl, rfl, ?_⟩
      -- the two final states agree up to the trace
      obtain ⟨d, tr, hs1eq, _⟩ := hts
      subst hs1eq
      refine TrEq.sim ⟨tr1, ?_⟩ ⟨(setF_good hg).af, (setF_good hg).pend⟩
      rw [anyNotWhitespace_append]
      cases b <;> cases anyNotWhitespace x <;> cases anyNotWhitespace y <;> rfl

/-! ### running `do` blocks by hand -/

theorem bind_ok {α β : Type} {m : M α} {f : α → M β} {s s2 : State} {b : β}
    (h : (m >>= f) s = .ok (b, s2)) : ∃ a s1, m s = .ok (a, s1) ∧ f a s1 = .ok (b, s2) := by
  rw [bind_apply] at h
  cases hm : m s with
  | error e => rw [hm] at h; cases h
  | ok v => obtain ⟨a, s1⟩ := v; rw [hm] at h; exact ⟨a, s1, rfl, h⟩

theorem sink_ok {op : SinkOp} {s s' : State} {o : Output} (h : sink op s = .ok (o, s')) :
    ∃ d, s.dom.apply op = .ok (d, o) ∧ s' = { s with dom := d, traceRev := (op, o) :: s.traceRev } := by
  rw [sink_apply] at h
  cases hd : s.dom.apply op with
  | error e => rw [hd] at h; cases h
  | ok v =>
    obtain ⟨d, o'⟩ := v
    rw [hd] at h
    simp only [Except.ok.injEq, Prod.mk.injEq] at h
    obtain ⟨rfl, rfl⟩ := h
    exact ⟨d, rfl, rfl⟩

/-- the step keeps the stack-like components and the names of the elements of the DOM -/
structure Ext (s s' : State) : Prop where
  openElems : s'.openElems = s.openElems
  af : s'.activeFormatting = s.activeFormatting
  names : ∀ h r, s.dom.elemName h = .ok r → s'.dom.elemName h = .ok r

theorem Ext.refl (s : State) : Ext s s := ⟨rfl, rfl, fun _ _ h => h⟩
theorem Ext.trans {s t u : State} (h : Ext s t) (h' : Ext t u) : Ext s u :=
  ⟨h'.openElems.trans h.openElems, h'.af.trans h.af, fun x r hx => h'.names x r (h.names x r hx)⟩
theorem Ext.of_trEq {s t : State} (h : TrEq s t) : Ext s t := by
  obtain ⟨tr, rfl⟩ := h; exact ⟨rfl, rfl, fun _ _ h => h⟩

theorem Ext.of_sink {op : SinkOp} (hop : keepsNames op = true) {s s' : State} {o : Output}
    (h : sink op s = .ok (o, s')) : Ext s s' := by
  obtain ⟨d, hd, rfl⟩ := sink_ok h
  exact ⟨rfl, rfl, fun x r hx => keepsNames_elemName hop hd hx⟩

theorem Ext.of_sinkUnit {op : SinkOp} (hop : keepsNames op = true) {s s' : State} {o : Unit}
    (h : sinkUnit op s = .ok (o, s')) : Ext s s' := by
  unfold sinkUnit at h
  obtain ⟨o', s1, h1, h2⟩ := bind_ok h
  cases h2
  exact Ext.of_sink hop h1

theorem QResp.ext {α : Type} {m : M α} (hq : QResp m) {s s' : State} {a : α} (h : m s = .ok (a, s')) : Ext s s' := by
  rcases hq.run s with ⟨e, he⟩ | ⟨a', tr, ha⟩
  · rw [he] at h; cases h
  · rw [ha] at h; cases h; exact Ext.of_trEq ⟨tr, rfl⟩

theorem QResp.trEq {α : Type} {m : M α} (hq : QResp m) {s s' : State} {a : α} (h : m s = .ok (a, s')) : TrEq s s' := by
  rcases hq.run s with ⟨e, he⟩ | ⟨a', tr, ha⟩
  · rw [he] at h; cases h
  · rw [ha] at h; cases h; exact ⟨tr, rfl⟩

/-! ### `insert_element` -/

theorem insertAt_node_ext {ip : InsertionPoint} {e : Id} {s s' : State} {o : Unit}
    (h : insertAt ip (.node e) s = .ok (o, s')) : Ext s s' := by
  cases ip <;> exact Ext.of_sinkUnit rfl h

theorem createElementWithFlags_ok {qn : QualName} {attrs : List Attr} {hd : Bool} {s s' : State} {e : Id}
    (h : createElementWithFlags qn attrs hd s = .ok (e, s')) :
    Ext s s' ∧ s'.dom.elemName e = .ok (qn.ns, qn.loc) := by
  unfold createElementWithFlags sinkNode at h
  obtain ⟨o, s1, h1, h2⟩ := bind_ok h
  obtain ⟨d, hd', rfl⟩ := sink_ok h1
  refine ⟨?_, ?_⟩
  · cases o with
    | node id => cases h2; exact Ext.of_sink rfl h1
    | unit => cases h2
    | bool b => cases h2
    | name a b => cases h2
  · cases o with
    | node id =>
      cases h2
      have : Dom.apply s.dom (.createElement qn attrs _) = .ok (d, .node e) := hd'
      have hc := createElement_elemName s.dom qn attrs
        { template := qn.ns == nsHtml && isName qn.loc "template",
          mathmlIP := if qn.ns == nsMathml && isName qn.loc "annotation-xml" then
              attrs.any (fun a => a.name.ns == [] && isName a.name.loc "encoding" &&
                (eqIgnoreAsciiCase a.value "text/html".toList ||
                 eqIgnoreAsciiCase a.value "application/xhtml+xml".toList))
            else false,
          hadDuplicateAttributes := hd }
      have h3 : Dom.apply s.dom (.createElement qn attrs
        { template := qn.ns == nsHtml && isName qn.loc "template",
          mathmlIP := if qn.ns == nsMathml && isName qn.loc "annotation-xml" then
              attrs.any (fun a => a.name.ns == [] && isName a.name.loc "encoding" &&
                (eqIgnoreAsciiCase a.value "text/html".toList ||
                 eqIgnoreAsciiCase a.value "application/xhtml+xml".toList))
            else false,
          hadDuplicateAttributes := hd }) = .ok ((s.dom.createElement qn attrs _).1, .node (s.dom.createElement qn attrs _).2) := rfl
      rw [h3] at this
      simp only [Except.ok.injEq, Prod.mk.injEq, Output.node.injEq] at this
      obtain ⟨rfl, rfl⟩ := this
      exact hc
    | unit => cases h2
    | bool b => cases h2
    | name a b => cases h2

/-- **`insert_element(Push, …)`**: the new element is pushed, is an element of the DOM with the
requested name; the stack was not empty; the formatting list is untouched -/
theorem insertElement_push_ok {ns name : Str} {attrs : List Attr} {hadDup : Bool} {s s' : State} {e : Id}
    (h : insertElement true ns name attrs hadDup s = .ok (e, s')) :
    s'.openElems = s.openElems ++ [e] ∧ s.openElems ≠ [] ∧ s'.dom.elemName e = .ok (ns, name) ∧
      s'.activeFormatting = s.activeFormatting := by
  unfold insertElement at h
  obtain ⟨ip, s1, h1, h⟩ := bind_ok h
  have e1 := (appropriatePlaceForInsertion_q none).ext h1
  have hne : s.openElems ≠ [] := by
    intro hnil
    unfold appropriatePlaceForInsertion at h1
    obtain ⟨t, s1', ht, _⟩ := bind_ok h1
    unfold currentNode at ht
    obtain ⟨st, s1'', hg, ht⟩ := bind_ok ht
    cases hg
    rw [hnil] at ht
    cases ht
  rcases hn : ip.nodes with ⟨n1, n2⟩
  rw [hn] at h
  simp only at h
  obtain ⟨st, s1', hg, h⟩ := bind_ok h
  cases hg
  -- the tail, for any answer of the `form_is_associatable` computation
  have tail : ∀ (fa : Bool) (s2 : State), Ext s s2 →
      (do
        let elem ← createElementWithFlags { pfx := none, ns := ns, loc := name } attrs hadDup
        have __do_jp : Unit → M Id := fun __r => do
          insertAt ip (NodeOrText.node elem)
          have __do_jp : Unit → M Id := fun __r => pure elem
          if true = true then do
              let __r ← push elem
              __do_jp __r
            else __do_jp ()
        if fa = true then do
            let __do_lift ← getS
            match __do_lift.formElem with
              | some form => do
                let __r ← sinkUnit (SinkOp.associateWithForm elem form n1 n2)
                __do_jp __r
              | none => do
                let __r ← panicAt "unwrap-none" "mod.rs:1401" "form_elem unwrap"
                __do_jp __r
          else __do_jp () : M Id) s2 = .ok (e, s') →
      s'.openElems = s.openElems ++ [e] ∧ s'.dom.elemName e = .ok (ns, name) ∧
        s'.activeFormatting = s.activeFormatting := by
    intro fa s2 e2 ht
    obtain ⟨el, s3, h3, ht⟩ := bind_ok ht
    obtain ⟨e3, hn3⟩ := createElementWithFlags_ok h3
    -- after the optional `associate_with_form`
    have fin : ∀ s4, Ext s3 s4 →
        (do
          insertAt ip (NodeOrText.node el)
          have __do_jp : Unit → M Id := fun __r => pure el
          if true = true then do
              let __r ← push el
              __do_jp __r
            else __do_jp () : M Id) s4 = .ok (e, s') →
        s'.openElems = s.openElems ++ [e] ∧ s'.dom.elemName e = .ok (ns, name) ∧
          s'.activeFormatting = s.activeFormatting := by
      intro s4 e4 hf
      obtain ⟨u, s5, h5, hf⟩ := bind_ok hf
      have e5 := insertAt_node_ext h5
      simp only [if_true] at hf
      obtain ⟨u', s6, h6, hf⟩ := bind_ok hf
      cases hf
      have h6' : s' = { s5 with openElems := s5.openElems ++ [e] } := by
        unfold push at h6; cases h6; rfl
      subst h6'
      have e15 : Ext s s5 := ((e2.trans e3).trans e4).trans e5
      exact ⟨by show s5.openElems ++ [e] = _; rw [e15.openElems],
        (e4.trans e5).names e _ hn3, by show s5.activeFormatting = _; exact e15.af⟩
    cases fa with
    | false =>
      simp only [Bool.false_eq_true, if_false] at ht
      exact fin s3 (Ext.refl _) ht
    | true =>
      simp only [if_true] at ht
      obtain ⟨st, s3', hg, ht⟩ := bind_ok ht
      cases hg
      cases hf : s3.formElem with
      | none =>
        rw [hf] at ht
        simp only at ht
        obtain ⟨_, _, hp, _⟩ := bind_ok ht
        cases hp
      | some form =>
        rw [hf] at ht
        simp only at ht
        obtain ⟨u, s4, h4, ht⟩ := bind_ok ht
        exact fin s4 (Ext.of_sinkUnit rfl h4) ht
  simp only [pure_bind] at h
  split at h
  · obtain ⟨t, s2, h2, h⟩ := bind_ok h
    have e2 := (inHtmlElemNamed_q "template").ext h2
    split at h
    · obtain ⟨a, b, c⟩ := tail _ s2 (e1.trans e2) h
      exact ⟨a, hne, b, c⟩
    · obtain ⟨a, b, c⟩ := tail _ s2 (e1.trans e2) h
      exact ⟨a, hne, b, c⟩
  · obtain ⟨a, b, c⟩ := tail _ s1 e1 h
    exact ⟨a, hne, b, c⟩

/-! ### `reconstruct_active_formatting_elements` -/

/-- the current node is an HTML formatting element of the DOM, and not the only open element -/
def HtmlTop (s : State) : Prop :=
  ∃ e n, s.openElems.getLast? = some e ∧ 2 ≤ s.openElems.length ∧ s.dom.elemName e = .ok (nsHtml, n) ∧
    isOneOf n fmtNames = true

/-- what `reconstructCreate` leaves behind -/
def RCPost (s : State) : Prop :=
  ∃ e t, s.activeFormatting.getLast? = some (.element e t) ∧ s.openElems.getLast? = some e ∧
    2 ≤ s.openElems.length ∧ s.dom.elemName e = .ok (nsHtml, t.name) ∧ isOneOf t.name fmtNames = true

theorem RCPost.htmlTop {s : State} (h : RCPost s) : HtmlTop s := by
  obtain ⟨e, t, _, h2, h3, h4, h5⟩ := h
  exact ⟨e, t.name, h2, h3, h4, h5⟩

theorem setAF_apply (af : List FormatEntry) (s : State) : setAF af s = .ok ((), { s with activeFormatting := af }) := rfl

theorem reconstructCreate_post : ∀ (fuel i : Nat) (s s' : State), Good s →
    reconstructCreate fuel i s = .ok ((), s') → RCPost s'
  | 0, _, _, _, _, h => by cases h
  | fuel + 1, i, s, s', hg, h => by
    unfold reconstructCreate at h
    obtain ⟨st, s0, hgs, h⟩ := bind_ok h
    cases hgs
    simp (config := { zeta := true }) only [pure_bind] at h
    cases hget : s.activeFormatting[i]? with
    | none =>
      rw [hget] at h
      obtain ⟨_, _, hp, _⟩ := bind_ok h
      cases hp
    | some ent =>
      cases ent with
      | marker =>
        rw [hget] at h
        obtain ⟨_, _, hp, _⟩ := bind_ok h
        cases hp
      | element id0 t =>
        rw [hget] at h
        simp only at h
        have htag : isOneOf t.name fmtNames = true := fmt_of_getElem? hg.af hget
        obtain ⟨new, s1, h1, h⟩ := bind_ok h
        obtain ⟨ho, hne, hnm, haf⟩ := insertElement_push_ok h1
        obtain ⟨st, s1', hgs, h⟩ := bind_ok h
        cases hgs
        by_cases hlt : i < s1.activeFormatting.length
        · rw [if_pos hlt, bind_apply, setAF_apply] at h
          simp only at h
          obtain ⟨st, s2', hgs, h⟩ := bind_ok h
          cases hgs
          have hg1 : Good s1 := ((insertElement_resp _ _ _ _ _).post hg h1).2
          have hg2 : Good { s1 with activeFormatting := s1.activeFormatting.set i (.element new t) } :=
            ⟨fmt_set hg1.af i htag, hg1.pend⟩
          simp only at h
          by_cases hz : ((s1.activeFormatting.set i (FormatEntry.element new t)).length == 0) = true
          · rw [if_pos hz] at h; cases h
          · rw [if_neg hz] at h
            by_cases hlast : (i == (s1.activeFormatting.set i (FormatEntry.element new t)).length - 1) = true
            · rw [if_pos hlast] at h
              cases h
              refine ⟨new, t, ?_, ?_, ?_, hnm, htag⟩
              · show (s1.activeFormatting.set i (.element new t)).getLast? = _
                have hi : i = (s1.activeFormatting.set i (.element new t)).length - 1 := by
                  simpa using hlast
                rw [List.getLast?_eq_getElem?, ← hi, List.getElem?_set_self hlt]
              · show s1.openElems.getLast? = _; rw [ho]; simp
              · show 2 ≤ s1.openElems.length
                rw [ho, List.length_append]
                have := List.length_pos_iff.mpr hne
                simp; omega
            · rw [if_neg hlast] at h
              exact reconstructCreate_post fuel (i + 1) _ s' hg2 h
        · rw [if_neg hlt] at h
          obtain ⟨_, _, hp, _⟩ := bind_ok h
          cases hp

theorem reconstructRewind_q : ∀ n, QResp (reconstructRewind n)
  | 0 => by unfold reconstructRewind; q_auto
  | i + 1 => by
    have ih := reconstructRewind_q i
    unfold reconstructRewind; q_auto

/-- running `reconstruct_active_formatting_elements` again would change nothing -/
def RDone (s : State) : Prop :=
  match s.activeFormatting.getLast? with
  | none => True
  | some last => ∃ tr, isMarkerOrOpen last s = .ok (true, withTr s tr)

theorem reconstruct_apply (s : State) :
    reconstructActiveFormattingElements s = match s.activeFormatting.getLast? with
      | none => .ok ((), s)
      | some last => (isMarkerOrOpen last >>= fun b =>
          if b then pure () else
            reconstructRewind (s.activeFormatting.length - 1) >>= fun start =>
              reconstructCreate (s.activeFormatting.length + 1) start) s := by
  unfold reconstructActiveFormattingElements
  rw [bind_apply, getS_apply]
  simp only
  cases s.activeFormatting.getLast? with
  | none => rfl
  | some last => rfl

theorem QSim.af {s u : State} (h : QSim s u) : u.activeFormatting = s.activeFormatting := by
  obtain ⟨_, _, _, _, _, _, _, _, rfl, _⟩ := h; rfl
theorem QSim.openElems {s u : State} (h : QSim s u) : u.openElems = s.openElems := by
  obtain ⟨_, _, _, _, _, _, _, _, rfl, _⟩ := h; rfl
theorem QSim.dq {s u : State} (h : QSim s u) : DQ s.dom u.dom := by
  obtain ⟨_, _, _, _, _, _, _, _, rfl, hd⟩ := h; exact hd

theorem RDone.of_qsim {s u : State} (h : RDone s) (hq : QSim s u) : RDone u := by
  unfold RDone at h ⊢
  rw [hq.af]
  cases hl : s.activeFormatting.getLast? with
  | none => trivial
  | some last =>
    rw [hl] at h
    obtain ⟨tr, htr⟩ := h
    exact (isMarkerOrOpen_q last).transfer hq htr

/-- **R3**: nothing to reconstruct -/
theorem RDone.run {s : State} (h : RDone s) : ∃ tr, reconstructActiveFormattingElements s = .ok ((), withTr s tr) := by
  rw [reconstruct_apply]
  unfold RDone at h
  cases hl : s.activeFormatting.getLast? with
  | none => exact ⟨s.traceRev, rfl⟩
  | some last =>
    rw [hl] at h
    obtain ⟨tr, htr⟩ := h
    refine ⟨tr, ?_⟩
    simp only
    rw [bind_apply, htr]
    rfl

theorem sameNode_apply (x y : Id) (s : State) :
    sameNode x y s = .ok (x == y, { s with traceRev := (.sameNode x y, .bool (x == y)) :: s.traceRev }) := by
  unfold sameNode sinkBool
  rw [bind_apply, sink_apply]
  rfl

theorem RCPost.rdone {s : State} (h : RCPost s) : RDone s := by
  obtain ⟨e, t, h1, h2, _, _, _⟩ := h
  unfold RDone
  rw [h1]
  simp only [isMarkerOrOpen]
  rw [bind_apply, getS_apply]
  simp only
  have hrev : ∃ rest, s.openElems.reverse = e :: rest := by
    have := List.getLast?_eq_head?_reverse (xs := s.openElems)
    rw [h2] at this
    cases hr : s.openElems.reverse with
    | nil => rw [hr] at this; cases this
    | cons a rest => rw [hr] at this; simp at this; exact ⟨rest, by rw [this]⟩
  obtain ⟨rest, hr⟩ := hrev
  rw [hr]
  unfold anySameNodeRev
  rw [bind_apply, sameNode_apply]
  simp only [beq_self_eq_true, if_true]
  exact ⟨_, rfl⟩

/-- **R1** -/
theorem reconstruct_post {s s1 : State} (hg : Good s) (h : reconstructActiveFormattingElements s = .ok ((), s1)) :
    RDone s1 ∧ (TrEq s s1 ∨ HtmlTop s1) := by
  rw [reconstruct_apply] at h
  cases hl : s.activeFormatting.getLast? with
  | none =>
    rw [hl] at h
    cases h
    exact ⟨by unfold RDone; rw [hl]; trivial, Or.inl (TrEq.refl s)⟩
  | some last =>
    rw [hl] at h
    simp only at h
    obtain ⟨b, s0, h0, h⟩ := bind_ok h
    obtain ⟨tr, rfl⟩ := (isMarkerOrOpen_q last).trEq h0
    cases b with
    | true =>
      cases h
      refine ⟨?_, Or.inl ⟨tr, rfl⟩⟩
      have : RDone s := by unfold RDone; rw [hl]; exact ⟨tr, h0⟩
      exact this.of_qsim (QSim.withTr s tr)
    | false =>
      simp only [Bool.false_eq_true, if_false] at h
      obtain ⟨start, s2, h2, h⟩ := bind_ok h
      obtain ⟨tr2, rfl⟩ := (reconstructRewind_q _).trEq h2
      have hp := reconstructCreate_post _ _ _ _ (good_withTr (good_withTr hg tr) tr2) h
      exact ⟨hp.rdone, Or.inr hp.htmlTop⟩

/-! ### consequences of `HtmlTop` -/

theorem elemName_apply (h : Id) (s : State) :
    elemName h s = match s.dom.elemName h with
      | .ok (ns, loc) => .ok (⟨ns, loc⟩, { s with traceRev := (.elemName h, .name ns loc) :: s.traceRev })
      | .error e => .error (errClass e ++ "@sink: " ++ e) := by
  unfold elemName
  rw [bind_apply, sink_apply, sink_elemName_apply]
  cases s.dom.elemName h with
  | error e => rfl
  | ok v => rfl

theorem HtmlTop.of_names {s u : State} (h : HtmlTop s) (ho : u.openElems = s.openElems)
    (hn : ∀ x r, s.dom.elemName x = .ok r → u.dom.elemName x = .ok r) : HtmlTop u := by
  obtain ⟨e, n, h1, h2, h3, h4⟩ := h
  exact ⟨e, n, by rw [ho]; exact h1, by rw [ho]; exact h2, hn _ _ h3, h4⟩

theorem DQ.names {d d' : Dom} (h : DQ d d') (x : Id) (r : Str × Str) (hx : d.elemName x = .ok r) : d'.elemName x = .ok r := by
  have := (h x).1
  rw [hx] at this
  cases hd : d'.elemName x with
  | error e => rw [hd] at this; exact this.elim
  | ok v => rw [hd] at this; have : r = v := this; rw [this]

theorem HtmlTop.of_qsim {s u : State} (h : HtmlTop s) (hq : QSim s u) : HtmlTop u :=
  h.of_names hq.openElems (fun x r hx => hq.dq.names x r hx)

theorem isForeign_htmlTop {s : State} (h : HtmlTop s) : ∃ tr, isForeignChars s = .ok (false, withTr s tr) := by
  obtain ⟨e, n, h1, h2, h3, _⟩ := h
  unfold isForeignChars isForeign
  have hne : s.openElems.isEmpty = false := by
    cases ho : s.openElems with
    | nil => rw [ho] at h2; simp at h2
    | cons a t => rfl
  have hl : (s.openElems.length == 1) = false := by
    cases hb : s.openElems.length == 1 with
    | false => rfl
    | true => have : s.openElems.length = 1 := by simpa using hb
              omega
  have hadj : adjustedCurrentNode s = .ok (e, s) := by
    unfold adjustedCurrentNode
    rw [bind_apply, getS_apply]
    simp only [hl, Bool.false_eq_true, if_false]
    unfold currentNode
    rw [bind_apply, getS_apply]
    simp only [h1]
    rfl
  have hdec : (Token.chars SplitStatus.notSplit [] == Token.eof) = false := rfl
  simp only [hdec, Bool.false_eq_true, if_false]
  rw [bind_apply, getS_apply]
  simp only [hne, Bool.false_eq_true, if_false]
  rw [bind_apply, hadj]
  simp only
  rw [bind_apply, elemName_apply, h3]
  simp only [beq_self_eq_true, if_true]
  exact ⟨_, rfl⟩

theorem currentNodeIn_htmlTop {s : State} (h : HtmlTop s) (set : EName → Bool)
    (hset : ∀ n, isOneOf n fmtNames = true → set ⟨nsHtml, n⟩ = false) :
    ∃ tr, currentNodeIn set s = .ok (false, withTr s tr) := by
  obtain ⟨e, n, h1, _, h3, h4⟩ := h
  unfold currentNodeIn currentNode
  rw [bind_apply, bind_apply, getS_apply]
  simp only [h1, pure_apply]
  rw [bind_apply, elemName_apply, h3]
  simp only [hset n h4]
  exact ⟨_, rfl⟩

theorem fmt_not_outer (n : Str) (h : isOneOf n fmtNames = true) : tableOuterChars ⟨nsHtml, n⟩ = false := by
  simp only [isOneOf, fmtNames, List.any_cons, List.any_nil, Bool.or_false, Bool.or_eq_true, beq_iff_eq] at h
  rcases h with h | h | h | h | h | h | h | h | h | h | h | h | h | h <;> (subst h; decide +kernel)

end H5V.Lemmas.TBSplit
