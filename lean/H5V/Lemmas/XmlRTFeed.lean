import H5V.Lemmas.XmlRTEv
import H5V.Props.C04XmlTerm
/-!
C17, tokenizer half, part 10: from chains of steps to the functions the driver runs — `feed` of the
whole text in one piece on a fresh machine (either `discard_bom`), then `finish` (`XmlTokenizer::end`).
-/
namespace H5V.Lemmas.XmlRT
open H5V.Model.XmlTok

theorem fresh_ctl (b : Bool) : Ctl ({ discardBom := b } : Mach) .data := ⟨rfl, rfl, rfl, rfl, rfl⟩
theorem fresh_clean (b : Bool) : Clean ({ discardBom := b } : Mach) := ⟨rfl, rfl, rfl⟩

/-- `feed` of a text that starts with `<` on a fresh machine, given the chain of steps over the text
from the data state to the data state -/
theorem feed_of_reach (o : Opts) (ho : o.exactErrors = false) (b : Bool) (t : Str) (T : List Model.XmlTB.Token)
    (hrun : ∀ m : Mach, Ctl m .data → Clean m →
      ∃ m', Reach o m ('<' :: t) m' [] ∧ Ctl m' .data ∧ Clean m' ∧ cvOut m'.out = cvOut m.out ++ T) :
    ∃ m1, feed o { discardBom := b } [] ('<' :: t) = .done m1 [] ∧ Ctl m1 .data ∧ cvOut m1.out = T := by
  obtain ⟨mf, hf, _⟩ := Props.C04X.C04_xml_feed_total o { discardBom := b } [] ('<' :: t)
    (Props.C04X.C04_xml_initial_inv .data b)
  have hbom : (feedBom ({ discardBom := b } : Mach) ('<' :: t)).2 = '<' :: t := by
    cases b <;> simp [feedBom]
  have hm0 : Ctl (feedBom ({ discardBom := b } : Mach) ('<' :: t)).1 .data ∧
      Clean (feedBom ({ discardBom := b } : Mach) ('<' :: t)).1 ∧
      (feedBom ({ discardBom := b } : Mach) ('<' :: t)).1.out = [] := by
    cases b
    · simp only [feedBom]; exact ⟨fresh_ctl false, fresh_clean false, rfl⟩
    · simp only [feedBom, if_true]
      exact ⟨⟨rfl, rfl, rfl, rfl, rfl⟩, ⟨rfl, rfl, rfl⟩, rfl⟩
  obtain ⟨m', hr, hc, _, hout⟩ := hrun _ hm0.1 hm0.2.1
  have hrt : RunsTo o (feedBom ({ discardBom := b } : Mach) ('<' :: t)).1 ('<' :: t) m' :=
    Reach.runsTo hr (RunsTo.susp (data_suspend o ho m' hc))
  rcases Props.C15.feed_done o _ _ _ hf with ⟨hnil, _⟩ | ⟨_, hrt'⟩
  · cases hnil
  · rw [hbom] at hrt'
    have := runsTo_det hrt hrt'
    subst this
    refine ⟨m', hf, hc, ?_⟩
    rw [hout, hm0.2.2]; rfl

/-- `XmlTokenizer::end` in the data state: the EOF token -/
theorem finish_data (o : Opts) (ho : o.exactErrors = false) (m : Mach) (h : Ctl m .data) :
    ∃ m2, finish o m = .ok m2 ∧ cvOut m2.out = cvOut m.out ++ [.eof] := by
  obtain ⟨s1, s2, s3, s4, s5⟩ := h
  have hc : Ctl (m.setAtEof true) .data := by constructor <;> simp [Mach.setAtEof, *]
  have hs := data_suspend o ho (m.setAtEof true) hc
  refine ⟨emit (m.setAtEof true) .eof, ?_, ?_⟩
  · unfold finish
    simp only [s2]
    have hf : fuelFor (m.setAtEof true) [] = 15 + 1 := by simp [fuelFor, Mach.setAtEof, s5, s2]
    rw [hf]
    simp only [run, hs]
    simp [eofLoop, transEof, Mach.setAtEof, s1]
  · simp only [emit, Mach.setAtEof]
    rw [cvOut_cons]; rfl

end H5V.Lemmas.XmlRT
