import H5V.Lemmas.HtmlTBSafeBody1
/-!
# Tree-builder safety, InBody rules, part 2: the arms that keep the insertion mode (`BK` steps)
-/
set_option linter.unusedVariables false
namespace H5V.Lemmas.TBSafe.IB
open H5V.Model.HtmlTB
open H5V.Model.Dom (Id QualName Attr NodeOrText SinkOp Output ElementFlags QuirksMode Dom NodeData Node)

variable {al : Allow}

theorem arm_chars {text : Str} {s : State} (hi : HInv s) (hr : Rooted s.dom s.openElems) :
    Sat (do
      reconstructActiveFormattingElements
      if anyNotWhitespace text then setFramesetOk false
      appendText text) s (fun r s' => r = .done ∧ BK s s') := by
  refine bk_step hi (bk_reconstruct hi hr) ?_
  intro _ s1 hi1 hr1
  have hfin : ∀ s2, HInv s2 → Rooted s2.dom s2.openElems →
      Sat (appendText text) s2 (fun r s' => r = .done ∧ BK s2 s') :=
    fun s2 hi2 hr2 => (sat_appendText (PlaceOk.of_hinv hi2 hr2)).mono (fun r s' h => ⟨h.1, BK.of_qf hi2 hr2 h.2⟩)
  split
  · exact bk_step hi1 (bk_setFramesetOk hi1 hr1) (fun _ s2 hi2 hr2 => hfin s2 hi2 hr2)
  · exact hfin s1 hi1 hr1

theorem arm_comment {text : Str} {s : State} (hi : HInv s) (hr : Rooted s.dom s.openElems) :
    Sat (appendComment text) s (fun r s' => PlainRes r ∧ BK s s') :=
  (sat_appendComment (PlaceOk.of_hinv hi hr)).mono (fun r s' h => ⟨Or.inl h.1, BK.of_qf hi hr h.2⟩)

theorem arm_body {tag : Tag} {s : State} (hi : HInv s) (hr : Rooted s.dom s.openElems) :
    Sat (do
      let _ ← unexpected
      match ← bodyElem with
      | some node =>
        if (← getS).openElems.length != 1 then
          if !(← inHtmlElemNamed "template") then
            setFramesetOk false
            sinkUnit (.addAttrsIfMissing node tag.attrs)
      | none => pure ()
      pure .done) s (fun r s' => PlainRes r ∧ BK s s') := by
  refine q_step' hi hr (sat_unexpected.mono (fun _ _ h => h.2)) ?_
  intro _ s1 hq1 hi1 hr1
  refine q_step (P := fun r => ∀ b, r = some b → b ∈ s1.openElems) hi1 hr1
    ((sat_bodyElem hi1.open_el).mono (fun r s2 h => ⟨fun b hb => List.mem_of_getElem? (h.2 b hb).1, h.1⟩)) ?_
  intro r s2 hP hq2 hi2 hr2
  cases r with
  | none => exact bk_pure hi2 hr2 plain_done
  | some node =>
    have hmem : node ∈ s2.openElems := by rw [hq2.openElems]; exact hP node rfl
    dsimp only
    refine sat_getS_bind ?_
    split
    · refine q_step' hi2 hr2 ((sat_inHtmlElemNamed hi2.open_el).mono (fun _ _ h => h.2)) ?_
      intro b s3 hq3 hi3 hr3
      have hmem3 : node ∈ s3.openElems := by rw [hq3.openElems]; exact hmem
      split
      · refine same_step hi3 hr3 sat_setFramesetOk ?_
        intro _ s4 st4 hi4 hr4
        have hmem4 : node ∈ s4.openElems := by rw [st4.openElems]; exact hmem3
        refine q_step' hi4 hr4 (sat_addAttrs (hi4.open_el node hmem4)) ?_
        intro _ s5 _ hi5 hr5
        exact bk_pure hi5 hr5 plain_done
      · exact bk_pure hi3 hr3 plain_done
    · exact bk_pure hi2 hr2 plain_done

/-- the block-level start tags, `<menu>`, `<plaintext>` -/
theorem arm_block {tag : Tag} {res : ProcessResult} {s : State} (hi : HInv s) (hr : Rooted s.dom s.openElems)
    (hn : NewOk ⟨nsHtml, tag.name⟩) (hres : PlainRes res) :
    Sat (do
      closePElementInButtonScope
      let _ ← insertElementFor tag
      pure res) s (fun r s' => PlainRes r ∧ BK s s') := by
  refine bk_step hi (bk_closeP hi hr) ?_
  intro _ s1 hi1 hr1
  refine bk_step hi1 (bk_insertFor hi1 hr1 hn) ?_
  intro _ s2 hi2 hr2
  exact bk_pure hi2 hr2 hres

theorem arm_heading {tag : Tag} {s : State} (hi : HInv s) (hr : Rooted s.dom s.openElems)
    (hn : NewOk ⟨nsHtml, tag.name⟩) :
    Sat (do
      closePElementInButtonScope
      if ← currentNodeIn headingTag then
        parseError "nested heading tags"
        let _ ← pop
      let _ ← insertElementFor tag
      pure .done) s (fun r s' => PlainRes r ∧ BK s s') := by
  refine bk_step hi (bk_closeP hi hr) ?_
  intro _ s1 hi1 hr1
  have hfin : ∀ s2, HInv s2 → Rooted s2.dom s2.openElems →
      Sat (do let _ ← insertElementFor tag; pure ProcessResult.done) s2 (fun r s' => PlainRes r ∧ BK s2 s') := by
    intro s2 hi2 hr2
    refine bk_step hi2 (bk_insertFor hi2 hr2 hn) ?_
    intro _ s3 hi3 hr3
    exact bk_pure hi3 hr3 plain_done
  refine q_step hi1 hr1 (q_currentNodeIn hi1 hr1) ?_
  intro b s2 hP hq2 hi2 hr2
  split
  · rename_i hb
    refine q_step' hi2 hr2 sat_parseError ?_
    intro _ s3 hq3 hi3 hr3
    have htop : TopIs s3 headingTag := ((hP hb).of_qf hi1 hq2).of_qf hi2 hq3
    refine bk_step hi3 (bk_pop_top hi3 hr3 htop (fun n h => popOk_of_heading h)) ?_
    intro _ s4 hi4 hr4
    exact hfin s4 hi4 hr4
  · exact hfin s2 hi2 hr2

theorem arm_pre {tag : Tag} {s : State} (hi : HInv s) (hr : Rooted s.dom s.openElems)
    (hn : NewOk ⟨nsHtml, tag.name⟩) :
    Sat (do
      closePElementInButtonScope
      let _ ← insertElementFor tag
      modS fun s => { s with ignoreLf := true }
      setFramesetOk false
      pure .done) s (fun r s' => PlainRes r ∧ BK s s') := by
  refine bk_step hi (bk_closeP hi hr) ?_
  intro _ s1 hi1 hr1
  refine bk_step hi1 (bk_insertFor hi1 hr1 hn) ?_
  intro _ s2 hi2 hr2
  refine bk_step hi2 (sat_modS (bk_withIgnoreLf hi2 hr2 true)) ?_
  intro _ s3 hi3 hr3
  refine bk_step hi3 (bk_setFramesetOk hi3 hr3) ?_
  intro _ s4 hi4 hr4
  exact bk_pure hi4 hr4 plain_done

theorem arm_form {tag : Tag} {s : State} (hi : HInv s) (hr : Rooted s.dom s.openElems)
    (hname : tag.name = "form".toList) :
    Sat (do
      let nested ← if (← getS).formElem.isSome then (do pure (!(← inHtmlElemNamed "template"))) else pure false
      if nested then parseError "nested forms"
      else
        closePElementInButtonScope
        let elem ← insertElementFor tag
        if !(← inHtmlElemNamed "template") then
          modS fun s => { s with formElem := some elem }
      pure .done) s (fun r s' => PlainRes r ∧ BK s s') := by
  have hn : NewOk ⟨nsHtml, tag.name⟩ := by rw [hname]; exact newOk_mk (by decide)
  have htail : ∀ (nested : Bool) (s1 : State), HInv s1 → Rooted s1.dom s1.openElems →
      Sat (if nested = true then do
          parseError "nested forms"
          pure ProcessResult.done
        else do
          closePElementInButtonScope
          let elem ← insertElementFor tag
          let __do_lift ← inHtmlElemNamed "template"
          if (!__do_lift) = true then do
            modS fun s => { s with formElem := some elem }
            pure ProcessResult.done
          else pure ProcessResult.done) s1 (fun r s' => PlainRes r ∧ BK s1 s') := by
    intro nested s1 hi1 hr1
    split
    · refine bk_step hi1 (bk_parseError hi1 hr1) ?_
      intro _ s2 hi2 hr2
      exact bk_pure hi2 hr2 plain_done
    · refine bk_step hi1 (bk_closeP hi1 hr1) ?_
      intro _ s2 hi2 hr2
      refine bk_stepP hi2 (bk_insertForP hi2 hr2 hn) ?_
      rintro elem s3 ⟨hel, hnm⟩ hi3 hr3
      refine q_step' hi3 hr3 ((sat_inHtmlElemNamed hi3.open_el).mono (fun _ _ h => h.2)) ?_
      intro b s4 hq4 hi4 hr4
      split
      · refine bk_step hi4 (sat_modS (bk_withForm hi4 hr4 (some elem) ?_)) ?_
        · intro h hh
          cases hh
          exact ⟨hel.ext hq4.ext, by rw [nm_ext hq4.ext hel, hnm, hname]; rfl⟩
        · intro _ s5 hi5 hr5
          exact bk_pure hi5 hr5 plain_done
      · exact bk_pure hi4 hr4 plain_done
  refine sat_getS_bind ?_
  split
  · refine Sat.bind (Q := fun _ s1 => QF s s1) ?_ ?_
    · refine (sat_inHtmlElemNamed hi.open_el).bind ?_
      intro b s1 hq
      exact sat_pure hq.2
    · intro nested s1 hq1
      have hbk := BK.of_qf hi hr hq1
      exact (htail nested s1 hbk.b.hinv hbk.b.rooted).mono (fun r s2 h => ⟨h.1, BK.trans hi hbk h.2⟩)
  · refine Sat.bind (Q := fun _ s1 => s1 = s) (sat_pure rfl) ?_
    rintro nested s1 rfl
    exact htail nested s1 hi hr

/-! ### `<li>`, `<dd>`, `<dt>` -/

/-- `close_list` / `close_defn` -/
def canClose (list : Bool) (n : EName) : Bool := if list then closeList n else closeDefn n

theorem canClose_html {list : Bool} {n : EName} (h : canClose list n = true) : n.ns = nsHtml := by
  unfold canClose at h
  split at h
  · unfold closeList htmlIn at h; simp only [Bool.and_eq_true, beq_iff_eq] at h; exact h.1
  · unfold closeDefn htmlIn at h; simp only [Bool.and_eq_true, beq_iff_eq] at h; exact h.1

theorem canClose_popOk {list : Bool} {n : EName} (h : canClose list n = true) : popOk n = true := by
  unfold canClose at h
  split at h
  · exact popOk_of_htmlIn (by decide) h
  · exact popOk_of_htmlIn (by decide) h

theorem sat_listCloseSearch {list : Bool} : ∀ (l : List Id) (s : State), AllEl s.dom l →
    Sat (listCloseSearch list l) s (fun r s' => QF s s' ∧ ∀ name, r = some name →
      ∃ a x b, l = a ++ x :: b ∧ canClose list (nm s.dom x) = true ∧ (nm s.dom x).loc = name ∧
        ∀ y ∈ a, canClose list (nm s.dom y) = false ∧ extraSpecial (nm s.dom y) = false) := by
  intro l
  induction l with
  | nil => intro s _; exact sat_pure ⟨QF.refl s, fun _ h => by cases h⟩
  | cons node rest ih =>
    intro s hall
    unfold listCloseSearch
    refine (sat_elemName (hall node List.mem_cons_self)).bind ?_
    rintro n s1 ⟨rfl, hq1⟩
    dsimp only
    by_cases hc : canClose list (nm s.dom node) = true
    · have hc' : (if list = true then closeList (nm s.dom node) else closeDefn (nm s.dom node)) = true := hc
      rw [if_pos hc']
      refine sat_pure ⟨hq1, ?_⟩
      intro name hn
      cases hn
      exact ⟨[], node, rest, rfl, hc, rfl, by simp⟩
    · have hc' : ¬ (if list = true then closeList (nm s.dom node) else closeDefn (nm s.dom node)) = true := hc
      rw [if_neg hc']
      by_cases hx : extraSpecial (nm s.dom node) = true
      · rw [if_pos hx]
        exact sat_pure ⟨hq1, fun _ h => by cases h⟩
      · rw [if_neg hx]
        have hall' : AllEl s.dom rest := hall.sub (fun x hx => List.mem_cons_of_mem _ hx)
        refine (ih s1 (hall'.ext hq1.ext)).mono ?_
        rintro r s2 ⟨hq2, hsp⟩
        refine ⟨hq1.trans hq2, ?_⟩
        intro name hn
        obtain ⟨a, x, b, heq, h1, h2, h3⟩ := hsp name hn
        have hnm : ∀ z ∈ rest, nm s1.dom z = nm s.dom z := fun z hz => hall'.nm_eq hq1.ext hz
        have hxm : x ∈ rest := by rw [heq]; simp
        refine ⟨node :: a, x, b, by rw [heq]; rfl, by rw [← hnm x hxm]; exact h1, by rw [← hnm x hxm]; exact h2, ?_⟩
        intro y hy
        rcases List.mem_cons.mp hy with h | h
        · rw [h]; exact ⟨by simpa using hc, by simpa using hx⟩
        · have hym : y ∈ rest := by rw [heq]; exact List.mem_append_left _ h
          rw [← hnm y hym]; exact h3 y h

theorem arm_li {tag : Tag} {s : State} (hi : HInv s) (hr : Rooted s.dom s.openElems)
    (hn : NewOk ⟨nsHtml, tag.name⟩) :
    Sat (do
      let list := isName tag.name "li"
      setFramesetOk false
      let toClose ← listCloseSearch list (← getS).openElems.reverse
      match toClose with
      | some name =>
        generateImpliedEndExcept name
        expectToCloseS name
      | none => pure ()
      closePElementInButtonScope
      let _ ← insertElementFor tag
      pure .done) s (fun r s' => PlainRes r ∧ BK s s') := by
  dsimp only
  refine same_step hi hr sat_setFramesetOk ?_
  intro _ s1 st1 hi1 hr1
  refine sat_getS_bind ?_
  refine q_step hi1 hr1 (P := fun r => ∀ name, r = some name → ∃ pre x post,
      Split s1 (Named name) pre x post ∧ popOk (nm s1.dom x) = true)
    ((sat_listCloseSearch _ s1 (hi1.open_el.sub (fun x hx => List.mem_reverse.mp hx))).mono ?_) ?_
  · rintro r s2 ⟨hq, hsp⟩
    refine ⟨?_, hq⟩
    intro name hn
    obtain ⟨a, x, b, heq, h1, h2, h3⟩ := hsp name hn
    have hxn : nm s1.dom x = ⟨nsHtml, name⟩ := by
      cases hx : nm s1.dom x with
      | mk ns loc =>
        rw [hx] at h1 h2
        have := canClose_html h1
        simp only at this h2
        rw [this, h2]
    refine ⟨b.reverse, x, a.reverse, ⟨?_, ?_, ?_⟩, canClose_popOk h1⟩
    · have := congrArg List.reverse heq
      simpa using this
    · rw [hxn]; simp
    · intro y hy
      have hy' := h3 y (List.mem_reverse.mp hy)
      refine ⟨?_, popOk_of_not_extraSpecial hy'.2⟩
      cases hp : Named name (nm s1.dom y) with
      | false => rfl
      | true =>
        rw [named_eq hp, ← hxn, h1] at hy'
        cases hy'.1
  · intro r s2 hP hq2 hi2 hr2
    have hfin : ∀ s3, HInv s3 → Rooted s3.dom s3.openElems →
        Sat (do
          closePElementInButtonScope
          let _ ← insertElementFor tag
          pure ProcessResult.done) s3 (fun r s' => PlainRes r ∧ BK s3 s') :=
      fun s3 hi3 hr3 => arm_block hi3 hr3 hn plain_done
    cases r with
    | none => exact hfin s2 hi2 hr2
    | some name =>
      obtain ⟨pre, x, post, hsp, hpx⟩ := hP name rfl
      have hsp2 := hsp.of_qf hi1 hq2
      have hnx2 : nm s2.dom x = ⟨nsHtml, name⟩ := named_eq hsp2.px
      have hpx2 : popOk (nm s2.dom x) = true := by
        rw [nm_ext hq2.ext (hi1.open_el x (by rw [hsp.eq]; simp))]; exact hpx
      dsimp only
      unfold generateImpliedEndExcept
      refine bk_stepP hi2 (split_implied hi2 hr2 hsp2 (by rw [hnx2]; exact impliedExcept_self)) ?_
      rintro _ s3 ⟨post0, hsp3⟩ hi3 hr3
      have hnx3 : nm s3.dom x = ⟨nsHtml, name⟩ := named_eq hsp3.px
      refine bk_step hi3 (split_expectToCloseS hi3 hr3 hsp3 (by rw [hnx3, ← hnx2]; exact hpx2)) ?_
      intro _ s4 hi4 hr4
      exact hfin s4 hi4 hr4

/-! ### `<button>` and the end tags that pop down to an element in scope -/

theorem arm_button {tag : Tag} {s : State} (hi : HInv s) (hr : Rooted s.dom s.openElems)
    (hn : NewOk ⟨nsHtml, tag.name⟩) :
    Sat (do
      if ← inScopeNamed defaultScope "button" then
        parseError "nested buttons"
        generateImpliedEndTags cursoryImpliedEnd
        let _ ← popUntilNamed "button"
      reconstructActiveFormattingElements
      let _ ← insertElementFor tag
      setFramesetOk false
      pure .done) s (fun r s' => PlainRes r ∧ BK s s') := by
  have hfin : ∀ s3, HInv s3 → Rooted s3.dom s3.openElems →
      Sat (do
        reconstructActiveFormattingElements
        let _ ← insertElementFor tag
        setFramesetOk false
        pure ProcessResult.done) s3 (fun r s' => PlainRes r ∧ BK s3 s') := by
    intro s3 hi3 hr3
    refine bk_step hi3 (bk_reconstruct hi3 hr3) ?_
    intro _ s4 hi4 hr4
    refine bk_step hi4 (bk_insertFor hi4 hr4 hn) ?_
    intro _ s5 hi5 hr5
    refine bk_step hi5 (bk_setFramesetOk hi5 hr5) ?_
    intro _ s6 hi6 hr6
    exact bk_pure hi6 hr6 plain_done
  refine q_step hi hr (q_inScopeNamed hi (fun n h => popOk_of_not_default h)) ?_
  intro b s1 hP hq1 hi1 hr1
  split
  · rename_i hb
    obtain ⟨pre, x, post, hsp⟩ := hP hb
    refine q_step' hi1 hr1 sat_parseError ?_
    intro _ s2 hq2 hi2 hr2
    have hsp2 := (hsp.of_qf hi hq1).of_qf hi1 hq2
    have hnx2 := named_eq hsp2.px
    refine bk_stepP hi2 (split_implied hi2 hr2 hsp2 (by rw [hnx2]; decide)) ?_
    rintro _ s3 ⟨post0, hsp3⟩ hi3 hr3
    have hnx3 := named_eq hsp3.px
    refine bk_step hi3 (split_popUntil hi3 hr3 hsp3 (by rw [hnx3]; decide)) ?_
    intro _ s4 hi4 hr4
    exact hfin s4 hi4 hr4
  · exact hfin s1 hi1 hr1

/-- `generate_implied_end_tags; expect_to_close(name)` after a scope test found `name` -/
theorem arm_endBlock {name : Str} {s : State} (hi : HInv s) (hr : Rooted s.dom s.openElems)
    (hc : isOneOf name cursoryImpliedEndNames = false) (hname : isOneOf name ["html", "td", "th"] = false) :
    Sat (do
      if !(← inScopeNamedS defaultScope name) then
        let _ ← unexpected
      else
        generateImpliedEndTags cursoryImpliedEnd
        expectToCloseS name
      pure .done) s (fun r s' => PlainRes r ∧ BK s s') := by
  refine q_step hi hr (q_inScopeNamedS hi (fun n h => popOk_of_not_default h)) ?_
  intro b s1 hP hq1 hi1 hr1
  split
  · refine bk_step hi1 (bk_unexpected hi1 hr1) ?_
    intro _ s2 hi2 hr2
    exact bk_pure hi2 hr2 plain_done
  · rename_i hb
    have hb' : b = true := by simpa using hb
    obtain ⟨pre, x, post, hsp⟩ := hP hb'
    have hsp1 := hsp.of_qf hi hq1
    exact split_implied_close hi1 hr1 hsp1 (cursory_mk_false hc) hname
      (fun _ s2 hi2 hr2 => bk_pure hi2 hr2 plain_done)

/-! ### `</form>` -/

theorem form_not_cursory : cursoryImpliedEnd formName = false := by decide
theorem form_popOk : popOk formName = true := by decide

theorem arm_endForm {s : State} (hi : HInv s) (hr : Rooted s.dom s.openElems) :
    Sat (do
      if !(← inHtmlElemNamed "template") then
        let s ← getS
        match s.formElem with
        | none =>
          parseError "Null form element pointer on </form>"
          pure .done
        | some node =>
          set { s with formElem := none }
          if !(← inScope defaultScope (fun n => sameNode node n)) then
            parseError "Form element not in scope on </form>"
            pure .done
          else
            generateImpliedEndTags cursoryImpliedEnd
            let current ← currentNode
            removeFromStack node
            if !(← sameNode current node) then parseError "Bad open element on </form>"
            pure .done
      else
        if !(← inScopeNamed defaultScope "form") then
          parseError "Form element not in scope on </form>"
          pure .done
        else
          generateImpliedEndTags cursoryImpliedEnd
          if !(← currentNodeNamed "form") then parseError "Bad open element on </form>"
          let _ ← popUntilNamed "form"
          pure .done) s (fun r s' => PlainRes r ∧ BK s s') := by
  have hdone : ∀ {msg : String} s3, HInv s3 → Rooted s3.dom s3.openElems →
      Sat (do parseError msg; pure ProcessResult.done) s3 (fun r s' => PlainRes r ∧ BK s3 s') := by
    intro msg s3 hi3 hr3
    refine bk_step hi3 (bk_parseError hi3 hr3) ?_
    intro _ s4 hi4 hr4
    exact bk_pure hi4 hr4 plain_done
  refine q_step' hi hr ((sat_inHtmlElemNamed hi.open_el).mono (fun _ _ h => h.2)) ?_
  intro b s1 hq1 hi1 hr1
  split
  · -- no template on the stack
    refine sat_getS_bind ?_
    cases hf : s1.formElem with
    | none => exact hdone s1 hi1 hr1
    | some node =>
      dsimp only
      obtain ⟨hnel, hnnm⟩ := hi1.form node hf
      refine bk_stepK hi1 (sat_set (bk_withForm hi1 hr1 none (fun h hh => by cases hh))) ?_
      intro _ s2 hb2 hi2 hr2
      refine q_step hi2 hr2 (P := fun b => b = true → ∃ pre post, s2.openElems = pre ++ node :: post ∧
          ∀ y ∈ post, popOk (nm s2.dom y) = true) ((sat_inScope hi2.open_el (P := fun n => node == n)
          (fun x _ => answers_sameNode_left)).mono ?_) ?_
      · rintro b s3 ⟨rfl, hq⟩
        refine ⟨fun hb => ?_, hq⟩
        obtain ⟨pre, x, post, hs⟩ := inScopeP_split hb
        have hx : x = node := (beq_iff_eq.mp hs.px).symm
        subst hx
        exact ⟨pre, post, hs.eq, fun y hy => popOk_of_not_default (hs.above y hy).2⟩
      · intro b s3 hP hq3 hi3 hr3
        split
        · exact hdone s3 hi3 hr3
        · rename_i hb
          have hb' : b = true := by simpa using hb
          obtain ⟨pre, post, heq, habove⟩ := hP hb'
          have heq3 : s3.openElems = pre ++ node :: post := by rw [hq3.openElems]; exact heq
          have he13 : Ext s1.dom s3.dom := hb2.b.ext.trans hq3.ext
          have hnm3 : nm s3.dom node = formName := by rw [nm_ext he13 hnel]; exact hnnm
          refine bk_stepP (P := fun _ s4 => Ext s3.dom s4.dom) hi3
            ((sat_generateImpliedEndTags_keep (set := cursoryImpliedEnd) hi3.open_el heq3
              (by rw [hnm3]; exact form_not_cursory)).mono ?_) ?_
          · rintro _ s4 ⟨post0, post1, hp, st, _⟩
            refine ⟨st.fr.ext, bk_of_pops (pre := pre ++ node :: post0) (post := post1) hi3 hr3
              (by rw [heq3, hp]; simp) st ?_⟩
            intro y hy
            have hym : y ∈ post := by rw [hp]; exact List.mem_append_right _ hy
            rw [nm_ext hq3.ext (hi2.open_el y (by rw [heq]; simp [hym]))]
            exact habove y hym
          · intro _ s4 he34 hi4 hr4
            obtain ⟨top, hl⟩ := last_of_rooted hr4
            refine (sat_currentNode hl).bind ?_
            rintro cur s4' ⟨rfl, rfl⟩
            have hnm4 : nm s4'.dom node = formName := by rw [nm_ext (he13.trans he34) hnel]; exact hnnm
            refine bk_step hi4 (sat_removeFromStack.mono ?_) ?_
            · rintro _ s5 (⟨_, st⟩ | ⟨pre', post', heq', _, st⟩)
              · exact BK.of_same hi4 hr4 st
              · exact bk_of_remove hi4 hr4 heq' (by rw [hnm4]; exact form_popOk) st
            · intro _ s5 hi5 hr5
              refine q_step' hi5 hr5 (sat_sameNode.mono (fun _ _ h => h.2)) ?_
              intro b5 s6 _ hi6 hr6
              split
              · exact hdone s6 hi6 hr6
              · exact bk_pure hi6 hr6 plain_done
  · -- a template is on the stack
    refine q_step hi1 hr1 (q_inScopeNamed hi1 (fun n h => popOk_of_not_default h)) ?_
    intro b2 s2 hP hq2 hi2 hr2
    split
    · exact hdone s2 hi2 hr2
    · rename_i hb
      have hb' : b2 = true := by simpa using hb
      obtain ⟨pre, x, post, hsp⟩ := hP hb'
      have hsp2 := hsp.of_qf hi1 hq2
      have hnx2 := named_eq hsp2.px
      refine bk_stepP hi2 (split_implied hi2 hr2 hsp2 (by rw [hnx2]; decide)) ?_
      rintro _ s3 ⟨post0, hsp3⟩ hi3 hr3
      refine q_step' hi3 hr3 ((q_currentNodeNamed hi3 hr3).mono (fun _ _ h => h.2)) ?_
      intro b3 s4 hq4 hi4 hr4
      have hsp4 := hsp3.of_qf hi3 hq4
      have hfin : ∀ s5, QF s4 s5 → HInv s5 → Rooted s5.dom s5.openElems →
          Sat (do let _ ← popUntilNamed "form"; pure ProcessResult.done) s5
            (fun r s' => PlainRes r ∧ BK s5 s') := by
        intro s5 hq5 hi5 hr5
        have hsp5 := hsp4.of_qf hi4 hq5
        have hnx5 := named_eq hsp5.px
        refine bk_step hi5 (split_popUntil hi5 hr5 hsp5 (by rw [hnx5]; decide)) ?_
        intro _ s6 hi6 hr6
        exact bk_pure hi6 hr6 plain_done
      split
      · refine q_step' hi4 hr4 sat_parseError ?_
        intro _ s5 hq5 hi5 hr5
        exact hfin s5 hq5 hi5 hr5
      · exact hfin s4 (QF.refl _) hi4 hr4

/-! ### `</option>`, `</p>`, `</li>`…, `</h1>`… -/

theorem sat_findOption : ∀ (l : List Id) (s : State), AllEl s.dom l →
    Sat (findOption l) s (fun _ s' => QF s s') := by
  intro l
  induction l with
  | nil => intro s _; exact sat_pure (QF.refl s)
  | cons e rest ih =>
    intro s hall
    unfold findOption
    refine (sat_htmlElemNamed (hall e List.mem_cons_self)).bind ?_
    rintro b s1 ⟨-, hq⟩
    split
    · exact sat_pure hq
    · exact (ih s1 ((hall.sub (fun x hx => List.mem_cons_of_mem _ hx)).ext hq.ext)).mono
        (fun _ _ h => hq.trans h)

theorem sat_anySameNode {x : Id} : ∀ (l : List Id) (s : State),
    Sat (anySameNode x l) s (fun _ s' => QF s s') := by
  intro l
  induction l with
  | nil => intro s; exact sat_pure (QF.refl s)
  | cons e rest ih =>
    intro s
    unfold anySameNode
    refine sat_sameNode.bind ?_
    rintro b s1 ⟨-, hq⟩
    split
    · exact sat_pure hq
    · exact (ih s1).mono (fun _ _ h => hq.trans h)

theorem arm_endOption {tag : Tag} {s : State} (het : EndTagSpec) (hi : HInv s) (hr : Rooted s.dom s.openElems)
    (hname : tag.name = "option".toList) :
    Sat (do
      let optionInStack ← findOption (← getS).openElems
      processEndTagInBody tag
      match optionInStack with
      | some option =>
        if !(← anySameNode option (← getS).openElems) then
          sinkUnit (.maybeCloneAnOptionIntoSelectedcontent option)
      | none => pure ()
      pure .done) s (fun r s' => PlainRes r ∧ BK s s') := by
  refine sat_getS_bind ?_
  refine q_step' hi hr (sat_findOption _ s hi.open_el) ?_
  intro opt s1 hq1 hi1 hr1
  refine bk_step hi1 ((het tag s1 hi1 hr1 (by rw [hname]; decide)).mono ?_) ?_
  · rintro _ s2 ⟨pre, post, heq, st, _, hp⟩
    refine bk_of_pops hi1 hr1 heq st ?_
    intro y hy
    rcases hp y hy with h | h
    · exact popOk_of_not_special h
    · rw [namedP_nm h, hname]; decide
  · intro _ s2 hi2 hr2
    cases opt with
    | none => exact bk_pure hi2 hr2 plain_done
    | some option =>
      dsimp only
      refine sat_getS_bind ?_
      refine q_step' hi2 hr2 (sat_anySameNode _ s2) ?_
      intro b s3 hq3 hi3 hr3
      split
      · refine q_step' hi3 hr3 (sat_sinkUnit_mut trivial) ?_
        intro _ s4 _ hi4 hr4
        exact bk_pure hi4 hr4 plain_done
      · exact bk_pure hi3 hr3 plain_done

theorem arm_endP {s : State} (hi : HInv s) (hr : Rooted s.dom s.openElems) :
    Sat (do
      if !(← inScopeNamed buttonScope "p") then
        parseError "No <p> tag to close"
        let _ ← insertPhantom "p"
      closePElement
      pure .done) s (fun r s' => PlainRes r ∧ BK s s') := by
  have hfin : ∀ s3 pre x post, HInv s3 → Rooted s3.dom s3.openElems → Split s3 (Named "p".toList) pre x post →
      Sat (do closePElement; pure ProcessResult.done) s3 (fun r s' => PlainRes r ∧ BK s3 s') := by
    intro s3 pre x post hi3 hr3 hsp
    refine bk_step hi3 (split_closeP hi3 hr3 hsp) ?_
    intro _ s4 hi4 hr4
    exact bk_pure hi4 hr4 plain_done
  refine q_step hi hr (q_inScopeNamed hi (fun n h => popOk_of_not_button h)) ?_
  intro b s1 hP hq1 hi1 hr1
  split
  · refine q_step' hi1 hr1 sat_parseError ?_
    intro _ s2 hq2 hi2 hr2
    refine bk_stepP (P := fun r s3 => s3.openElems = s2.openElems ++ [r] ∧ nm s3.dom r = ⟨nsHtml, "p".toList⟩) hi2
      ((sat_insertPhantom (PlaceOk.of_hinv hi2 hr2)).mono ?_) ?_
    · intro r s3 hins
      exact ⟨⟨by rw [hins.openElems]; rfl, hins.nm⟩, BK.of_inserted hi2 hr2 hins (newOk_mk (by decide))⟩
    · rintro r s3 ⟨ho, hnm⟩ hi3 hr3
      exact hfin s3 s2.openElems r [] hi3 hr3 ⟨ho, by rw [hnm]; rfl, by simp⟩
  · rename_i hb
    have hb' : b = true := by simpa using hb
    obtain ⟨pre, x, post, hsp⟩ := hP hb'
    exact hfin s1 pre x post hi1 hr1 (hsp.of_qf hi hq1)

theorem arm_endLi {tag : Tag} {s : State} (hi : HInv s) (hr : Rooted s.dom s.openElems)
    (hname : isOneOf tag.name ["html", "td", "th"] = false) :
    Sat (do
      let inSc ← if isName tag.name "li" then inScopeNamedS listItemScope tag.name
                 else inScopeNamedS defaultScope tag.name
      if inSc then
        generateImpliedEndExcept tag.name
        expectToCloseS tag.name
      else parseError "No matching tag to close"
      pure .done) s (fun r s' => PlainRes r ∧ BK s s') := by
  have htail : ∀ (scope : EName → Bool), (∀ n, scope n = false → popOk n = true) →
      Sat (do
        let inSc ← inScopeNamedS scope tag.name
        if inSc = true then do
          generateImpliedEndExcept tag.name
          expectToCloseS tag.name
          pure ProcessResult.done
        else do
          parseError "No matching tag to close"
          pure ProcessResult.done) s (fun r s' => PlainRes r ∧ BK s s') := by
    intro scope hsc
    refine q_step hi hr (q_inScopeNamedS hi hsc) ?_
    intro b s1 hP hq1 hi1 hr1
    split
    · rename_i hb
      obtain ⟨pre, x, post, hsp⟩ := hP hb
      unfold generateImpliedEndExcept
      exact split_implied_close hi1 hr1 (hsp.of_qf hi hq1) impliedExcept_self hname
        (fun _ s2 hi2 hr2 => bk_pure hi2 hr2 plain_done)
    · refine bk_step hi1 (bk_parseError hi1 hr1) ?_
      intro _ s2 hi2 hr2
      exact bk_pure hi2 hr2 plain_done
  split
  · exact htail listItemScope (fun n h => popOk_of_not_listItem h)
  · exact htail defaultScope (fun n h => popOk_of_not_default h)

theorem arm_endHeading {tag : Tag} {s : State} (hi : HInv s) (hr : Rooted s.dom s.openElems) :
    Sat (do
      if ← inScope defaultScope (fun n => elemIn n headingTag) then
        generateImpliedEndTags cursoryImpliedEnd
        if !(← currentNodeNamedS tag.name) then parseError "Closing wrong heading tag"
        let _ ← popUntil headingTag
      else parseError "No heading tag to close"
      pure .done) s (fun r s' => PlainRes r ∧ BK s s') := by
  refine q_step hi hr (q_inScopeIn hi (fun n h => popOk_of_not_default h)) ?_
  intro b s1 hP hq1 hi1 hr1
  split
  · rename_i hb
    obtain ⟨pre, x, post, hsp⟩ := hP hb
    have hsp1 := hsp.of_qf hi hq1
    refine bk_stepP hi1 (split_implied hi1 hr1 hsp1 (heading_not_cursory hsp1.px)) ?_
    rintro _ s2 ⟨post0, hsp2⟩ hi2 hr2
    refine q_step' hi2 hr2 (q_currentNodeNamedS hi2 hr2) ?_
    intro b3 s3 hq3 hi3 hr3
    have hsp3 := hsp2.of_qf hi2 hq3
    have hfin : ∀ s5, QF s3 s5 → HInv s5 → Rooted s5.dom s5.openElems →
        Sat (do let _ ← popUntil headingTag; pure ProcessResult.done) s5
          (fun r s' => PlainRes r ∧ BK s5 s') := by
      intro s5 hq5 hi5 hr5
      have hsp5 := hsp3.of_qf hi3 hq5
      refine bk_step hi5 (split_popUntil hi5 hr5 hsp5 (popOk_of_heading hsp5.px)) ?_
      intro _ s6 hi6 hr6
      exact bk_pure hi6 hr6 plain_done
    split
    · refine q_step' hi3 hr3 sat_parseError ?_
      intro _ s4 hq4 hi4 hr4
      exact hfin s4 hq4 hi4 hr4
    · exact hfin s3 (QF.refl _) hi3 hr3
  · refine bk_step hi1 (bk_parseError hi1 hr1) ?_
    intro _ s2 hi2 hr2
    exact bk_pure hi2 hr2 plain_done

/-! ### formatting elements -/

theorem arm_fmt {tag : Tag} {s : State} (hi : HInv s) (hr : Rooted s.dom s.openElems)
    (hf : isOneOf tag.name fmtNames = true) :
    Sat (do
      reconstructActiveFormattingElements
      let _ ← createFormattingElementFor tag
      pure .done) s (fun r s' => PlainRes r ∧ BK s s') := by
  refine bk_step hi (bk_reconstruct hi hr) ?_
  intro _ s1 hi1 hr1
  refine bk_step hi1 (bk_createFmt hi1 hr1 hf) ?_
  intro _ s2 hi2 hr2
  exact bk_pure hi2 hr2 plain_done

theorem arm_a {tag : Tag} {s : State} (hmis : MisnestedSpec) (hi : HInv s) (hr : Rooted s.dom s.openElems)
    (hf : isOneOf tag.name fmtNames = true) :
    Sat (do
      handleMisnestedATags
      reconstructActiveFormattingElements
      let _ ← createFormattingElementFor tag
      pure .done) s (fun r s' => PlainRes r ∧ BK s s') := by
  refine bk_step hi ((hmis s hi hr).mono (fun _ _ h => bk_of_aapost h)) ?_
  intro _ s1 hi1 hr1
  exact arm_fmt hi1 hr1 hf

theorem arm_nobr {tag : Tag} {s : State} (haa : AgencySpec) (hi : HInv s) (hr : Rooted s.dom s.openElems)
    (hf : isOneOf tag.name fmtNames = true) :
    Sat (do
      reconstructActiveFormattingElements
      if ← inScopeNamed defaultScope "nobr" then
        parseError "Nested <nobr>"
        adoptionAgency "nobr".toList
        reconstructActiveFormattingElements
      let _ ← createFormattingElementFor tag
      pure .done) s (fun r s' => PlainRes r ∧ BK s s') := by
  have hfin : ∀ s3, HInv s3 → Rooted s3.dom s3.openElems →
      Sat (do let _ ← createFormattingElementFor tag; pure ProcessResult.done) s3
        (fun r s' => PlainRes r ∧ BK s3 s') := by
    intro s3 hi3 hr3
    refine bk_step hi3 (bk_createFmt hi3 hr3 hf) ?_
    intro _ s4 hi4 hr4
    exact bk_pure hi4 hr4 plain_done
  refine bk_step hi (bk_reconstruct hi hr) ?_
  intro _ s1 hi1 hr1
  refine q_step' hi1 hr1 ((sat_inScopeNamed hi1.open_el).mono (fun _ _ h => h.2)) ?_
  intro b s2 _ hi2 hr2
  split
  · refine bk_step hi2 (bk_parseError hi2 hr2) ?_
    intro _ s3 hi3 hr3
    refine bk_step hi3 ((haa "nobr".toList s3 hi3 hr3 (by decide)).mono (fun _ _ h => bk_of_aapost h)) ?_
    intro _ s4 hi4 hr4
    refine bk_step hi4 (bk_reconstruct hi4 hr4) ?_
    intro _ s5 hi5 hr5
    exact hfin s5 hi5 hr5
  · exact hfin s2 hi2 hr2

theorem arm_endFmt {tag : Tag} {s : State} (haa : AgencySpec) (hi : HInv s) (hr : Rooted s.dom s.openElems)
    (hf : isOneOf tag.name fmtNames = true) :
    Sat (do
      adoptionAgency tag.name
      pure .done) s (fun r s' => PlainRes r ∧ BK s s') := by
  refine bk_step hi ((haa tag.name s hi hr hf).mono (fun _ _ h => bk_of_aapost h)) ?_
  intro _ s1 hi1 hr1
  exact bk_pure hi1 hr1 plain_done

/-! ### `<applet>`, `<marquee>`, `<object>` -/

theorem arm_applet {tag : Tag} {s : State} (hi : HInv s) (hr : Rooted s.dom s.openElems)
    (hn : NewOk ⟨nsHtml, tag.name⟩) :
    Sat (do
      reconstructActiveFormattingElements
      let _ ← insertElementFor tag
      pushMarker
      setFramesetOk false
      pure .done) s (fun r s' => PlainRes r ∧ BK s s') := by
  refine bk_step hi (bk_reconstruct hi hr) ?_
  intro _ s1 hi1 hr1
  refine bk_step hi1 (bk_insertFor hi1 hr1 hn) ?_
  intro _ s2 hi2 hr2
  refine bk_step hi2 (sat_modS (bk_withAF hi2 hr2 _ ?_)) ?_
  · intro e he
    rcases List.mem_append.mp he with h | h
    · exact Or.inl h
    · exact Or.inr (List.mem_singleton.mp h)
  · intro _ s3 hi3 hr3
    refine bk_step hi3 (bk_setFramesetOk hi3 hr3) ?_
    intro _ s4 hi4 hr4
    exact bk_pure hi4 hr4 plain_done

theorem arm_endApplet {name : Str} {s : State} (hi : HInv s) (hr : Rooted s.dom s.openElems)
    (hc : isOneOf name cursoryImpliedEndNames = false) (hname : isOneOf name ["html", "td", "th"] = false) :
    Sat (do
      if !(← inScopeNamedS defaultScope name) then
        let _ ← unexpected
      else
        generateImpliedEndTags cursoryImpliedEnd
        expectToCloseS name
        clearActiveFormattingToMarker
      pure .done) s (fun r s' => PlainRes r ∧ BK s s') := by
  refine q_step hi hr (q_inScopeNamedS hi (fun n h => popOk_of_not_default h)) ?_
  intro b s1 hP hq1 hi1 hr1
  split
  · refine bk_step hi1 (bk_unexpected hi1 hr1) ?_
    intro _ s2 hi2 hr2
    exact bk_pure hi2 hr2 plain_done
  · rename_i hb
    have hb' : b = true := by simpa using hb
    obtain ⟨pre, x, post, hsp⟩ := hP hb'
    refine split_implied_close hi1 hr1 (hsp.of_qf hi hq1) (cursory_mk_false hc) hname ?_
    intro _ s2 hi2 hr2
    refine bk_step hi2 (sat_modS (bk_withAF hi2 hr2 _ (fun e he => Or.inl (mem_clearedAF he)))) ?_
    intro _ s3 hi3 hr3
    exact bk_pure hi3 hr3 plain_done

/-! ### void elements, `<input>`, `<hr>`, `<select>`, `<option>`, ruby, foreign -/

theorem arm_void {tag : Tag} {s : State} (hi : HInv s) (hr : Rooted s.dom s.openElems)
    (hn : NewOk ⟨nsHtml, tag.name⟩) : Sat (inBodyVoid tag) s (fun r s' => PlainRes r ∧ BK s s') := by
  unfold inBodyVoid
  refine bk_step hi (bk_reconstruct hi hr) ?_
  intro _ s1 hi1 hr1
  refine bk_step hi1 (bk_insertAndPopFor hi1 hr1 hn) ?_
  intro _ s2 hi2 hr2
  refine bk_step hi2 (bk_setFramesetOk hi2 hr2) ?_
  intro _ s3 hi3 hr3
  exact bk_pure hi3 hr3 plain_ack

theorem arm_unexpectedVoid {tag : Tag} {s : State} (hi : HInv s) (hr : Rooted s.dom s.openElems)
    (hn : NewOk ⟨nsHtml, tag.name⟩) :
    Sat (do
      let _ ← unexpected
      inBodyVoid tag) s (fun r s' => PlainRes r ∧ BK s s') := by
  refine bk_step hi (bk_unexpected hi hr) ?_
  intro _ s1 hi1 hr1
  exact arm_void hi1 hr1 hn

theorem q_contextIsSelect {site : String} {s : State} (hi : HInv s) :
    Sat (contextIsSelect site) s (fun _ s' => QF s s') := by
  unfold contextIsSelect
  refine sat_isFragment.bind ?_
  rintro b s1 ⟨rfl, rfl⟩
  split
  · rename_i hb
    refine sat_getS_bind ?_
    cases hc : s1.contextElem with
    | none => rw [hc] at hb; cases hb
    | some c => exact (sat_htmlElemNamed (hi.ctx c hc)).mono (fun _ _ h => h.2)
  · exact sat_pure (QF.refl _)

/-- `unexpected; pop_until_named("select")` after the scope test -/
theorem popSelect {β : Type} {s : State} {f : Nat → M β} {R : β → Prop} {pre post : List Id} {x : Id}
    (hi : HInv s) (hr : Rooted s.dom s.openElems)
    (hsp : Split s (Named "select".toList) pre x post)
    (hf : ∀ a s2, HInv s2 → Rooted s2.dom s2.openElems → Sat (f a) s2 (fun b s3 => R b ∧ BK s2 s3)) :
    Sat (unexpected >>= fun _ => popUntilNamed "select" >>= f) s (fun b s3 => R b ∧ BK s s3) := by
  refine q_step' hi hr (sat_unexpected.mono (fun _ _ h => h.2)) ?_
  intro _ s1 hq1 hi1 hr1
  have hsp1 := hsp.of_qf hi hq1
  have hnx := named_eq hsp1.px
  exact bk_step hi1 (split_popUntil hi1 hr1 hsp1 (by rw [hnx]; decide)) hf

theorem arm_input {tag : Tag} {s : State} (hi : HInv s) (hr : Rooted s.dom s.openElems)
    (hn : NewOk ⟨nsHtml, tag.name⟩) :
    Sat (do
      if ← contextIsSelect "rules.rs:823" then
        let _ ← unexpected
        pure .done
      else
        if ← inScopeNamed defaultScope "select" then
          let _ ← unexpected
          let _ ← popUntilNamed "select"
        let hidden := isTypeHidden tag
        reconstructActiveFormattingElements
        let _ ← insertAndPopElementFor tag
        if !hidden then setFramesetOk false
        pure .doneAckSelfClosing) s (fun r s' => PlainRes r ∧ BK s s') := by
  have hfin : ∀ s3, HInv s3 → Rooted s3.dom s3.openElems →
      Sat (do
        reconstructActiveFormattingElements
        let _ ← insertAndPopElementFor tag
        if (!isTypeHidden tag) = true then do
          setFramesetOk false
          pure ProcessResult.doneAckSelfClosing
        else pure ProcessResult.doneAckSelfClosing) s3 (fun r s' => PlainRes r ∧ BK s3 s') := by
    intro s3 hi3 hr3
    refine bk_step hi3 (bk_reconstruct hi3 hr3) ?_
    intro _ s4 hi4 hr4
    refine bk_step hi4 (bk_insertAndPopFor hi4 hr4 hn) ?_
    intro _ s5 hi5 hr5
    split
    · refine bk_step hi5 (bk_setFramesetOk hi5 hr5) ?_
      intro _ s6 hi6 hr6
      exact bk_pure hi6 hr6 plain_ack
    · exact bk_pure hi5 hr5 plain_ack
  have hmid : ∀ s2, HInv s2 → Rooted s2.dom s2.openElems →
      Sat (do
        let __do_lift ← inScopeNamed defaultScope "select"
        if __do_lift = true then do
          let _ ← unexpected
          let _ ← popUntilNamed "select"
          reconstructActiveFormattingElements
          let _ ← insertAndPopElementFor tag
          if (!isTypeHidden tag) = true then do
            setFramesetOk false
            pure ProcessResult.doneAckSelfClosing
          else pure ProcessResult.doneAckSelfClosing
        else do
          reconstructActiveFormattingElements
          let _ ← insertAndPopElementFor tag
          if (!isTypeHidden tag) = true then do
            setFramesetOk false
            pure ProcessResult.doneAckSelfClosing
          else pure ProcessResult.doneAckSelfClosing) s2 (fun r s' => PlainRes r ∧ BK s2 s') := by
    intro s2 hi2 hr2
    refine q_step hi2 hr2 (q_inScopeNamed hi2 (fun n h => popOk_of_not_default h)) ?_
    intro b s3 hP hq3 hi3 hr3
    split
    · rename_i hb
      obtain ⟨pre, x, post, hsp⟩ := hP hb
      exact popSelect hi3 hr3 (hsp.of_qf hi2 hq3) (fun _ s4 hi4 hr4 => hfin s4 hi4 hr4)
    · exact hfin s3 hi3 hr3
  dsimp only
  refine q_step' hi hr (q_contextIsSelect hi) ?_
  intro b s1 _ hi1 hr1
  split
  · refine bk_step hi1 (bk_unexpected hi1 hr1) ?_
    intro _ s2 hi2 hr2
    exact bk_pure hi2 hr2 plain_done
  · exact hmid s1 hi1 hr1

theorem arm_param {tag : Tag} {s : State} (hi : HInv s) (hr : Rooted s.dom s.openElems)
    (hn : NewOk ⟨nsHtml, tag.name⟩) :
    Sat (do
      let _ ← insertAndPopElementFor tag
      pure .doneAckSelfClosing) s (fun r s' => PlainRes r ∧ BK s s') := by
  refine bk_step hi (bk_insertAndPopFor hi hr hn) ?_
  intro _ s2 hi2 hr2
  exact bk_pure hi2 hr2 plain_ack

theorem arm_hr {tag : Tag} {s : State} (hi : HInv s) (hr : Rooted s.dom s.openElems)
    (hn : NewOk ⟨nsHtml, tag.name⟩) :
    Sat (do
      closePElementInButtonScope
      if ← inScopeNamed defaultScope "select" then
        generateImpliedEndTags cursoryImpliedEnd
        let nested ← do
          if ← inScopeNamed defaultScope "option" then pure true
          else inScopeNamed defaultScope "optgroup"
        if nested then parseError "hr in option"
      let _ ← insertAndPopElementFor tag
      setFramesetOk false
      pure .doneAckSelfClosing) s (fun r s' => PlainRes r ∧ BK s s') := by
  have hfin : ∀ s3, HInv s3 → Rooted s3.dom s3.openElems →
      Sat (do
        let _ ← insertAndPopElementFor tag
        setFramesetOk false
        pure ProcessResult.doneAckSelfClosing) s3 (fun r s' => PlainRes r ∧ BK s3 s') := by
    intro s3 hi3 hr3
    refine bk_step hi3 (bk_insertAndPopFor hi3 hr3 hn) ?_
    intro _ s4 hi4 hr4
    refine bk_step hi4 (bk_setFramesetOk hi4 hr4) ?_
    intro _ s5 hi5 hr5
    exact bk_pure hi5 hr5 plain_ack
  have hnest : ∀ (nested : Bool) s3, HInv s3 → Rooted s3.dom s3.openElems →
      Sat (if nested = true then do
          parseError "hr in option"
          let _ ← insertAndPopElementFor tag
          setFramesetOk false
          pure ProcessResult.doneAckSelfClosing
        else do
          let _ ← insertAndPopElementFor tag
          setFramesetOk false
          pure ProcessResult.doneAckSelfClosing) s3 (fun r s' => PlainRes r ∧ BK s3 s') := by
    intro nested s3 hi3 hr3
    split
    · refine bk_step hi3 (bk_parseError hi3 hr3) ?_
      intro _ s4 hi4 hr4
      exact hfin s4 hi4 hr4
    · exact hfin s3 hi3 hr3
  refine bk_step hi (bk_closeP hi hr) ?_
  intro _ s1 hi1 hr1
  refine q_step' hi1 hr1 ((sat_inScopeNamed hi1.open_el).mono (fun _ _ h => h.2)) ?_
  intro b s2 _ hi2 hr2
  split
  · refine bk_step hi2 (bk_implied hi2 hr2 (fun n h => popOk_of_cursory h)) ?_
    intro _ s3 hi3 hr3
    refine q_step' hi3 hr3 ((sat_inScopeNamed hi3.open_el).mono (fun _ _ h => h.2)) ?_
    intro b4 s4 _ hi4 hr4
    split
    · exact hnest true s4 hi4 hr4
    · refine q_step' hi4 hr4 ((sat_inScopeNamed hi4.open_el).mono (fun _ _ h => h.2)) ?_
      intro nested s5 _ hi5 hr5
      exact hnest nested s5 hi5 hr5
  · exact hfin s2 hi2 hr2

theorem arm_insert {tag : Tag} {s : State} (hi : HInv s) (hr : Rooted s.dom s.openElems)
    (hn : NewOk ⟨nsHtml, tag.name⟩) :
    Sat (do
      let _ ← insertElementFor tag
      pure .done) s (fun r s' => PlainRes r ∧ BK s s') := by
  refine bk_step hi (bk_insertFor hi hr hn) ?_
  intro _ s2 hi2 hr2
  exact bk_pure hi2 hr2 plain_done

/-- the catch-all start tag (and the tail of several arms) -/
theorem arm_anyStart {tag : Tag} {s : State} (hi : HInv s) (hr : Rooted s.dom s.openElems)
    (hn : NewOk ⟨nsHtml, tag.name⟩) :
    Sat (do
      reconstructActiveFormattingElements
      let _ ← insertElementFor tag
      pure .done) s (fun r s' => PlainRes r ∧ BK s s') := by
  refine bk_step hi (bk_reconstruct hi hr) ?_
  intro _ s1 hi1 hr1
  exact arm_insert hi1 hr1 hn

theorem arm_select {tag : Tag} {s : State} (hi : HInv s) (hr : Rooted s.dom s.openElems)
    (hn : NewOk ⟨nsHtml, tag.name⟩) :
    Sat (do
      if ← contextIsSelect "rules.rs:903" then
        let _ ← unexpected
      else if ← inScopeNamed defaultScope "select" then
        let _ ← unexpected
        let _ ← popUntilNamed "select"
      else
        reconstructActiveFormattingElements
        let _ ← insertElementFor tag
        setFramesetOk false
      pure .done) s (fun r s' => PlainRes r ∧ BK s s') := by
  refine q_step' hi hr (q_contextIsSelect hi) ?_
  intro b s1 _ hi1 hr1
  split
  · refine bk_step hi1 (bk_unexpected hi1 hr1) ?_
    intro _ s2 hi2 hr2
    exact bk_pure hi2 hr2 plain_done
  · refine q_step hi1 hr1 (q_inScopeNamed hi1 (fun n h => popOk_of_not_default h)) ?_
    intro b2 s2 hP hq2 hi2 hr2
    split
    · rename_i hb
      obtain ⟨pre, x, post, hsp⟩ := hP hb
      exact popSelect hi2 hr2 (hsp.of_qf hi1 hq2) (fun _ s3 hi3 hr3 => bk_pure hi3 hr3 plain_done)
    · refine bk_step hi2 (bk_reconstruct hi2 hr2) ?_
      intro _ s3 hi3 hr3
      refine bk_step hi3 (bk_insertFor hi3 hr3 hn) ?_
      intro _ s4 hi4 hr4
      refine bk_step hi4 (bk_setFramesetOk hi4 hr4) ?_
      intro _ s5 hi5 hr5
      exact bk_pure hi5 hr5 plain_done

theorem option_popOk {n : EName} (h : Named "option".toList n = true) : popOk n = true := by
  rw [named_eq h]; decide

/-- `if current_node_named("option") { pop() }`, then the catch-all tail -/
theorem popOptionTail {tag : Tag} {s : State} (hi : HInv s) (hr : Rooted s.dom s.openElems)
    (hn : NewOk ⟨nsHtml, tag.name⟩) :
    Sat (do
      let __do_lift ← currentNodeNamed "option"
      if __do_lift = true then do
        let _ ← pop
        reconstructActiveFormattingElements
        let _ ← insertElementFor tag
        pure ProcessResult.done
      else do
        reconstructActiveFormattingElements
        let _ ← insertElementFor tag
        pure ProcessResult.done) s (fun r s' => PlainRes r ∧ BK s s') := by
  refine q_step hi hr (q_currentNodeNamed hi hr) ?_
  intro b s1 hP hq1 hi1 hr1
  split
  · rename_i hb
    refine bk_step hi1 (bk_pop_top hi1 hr1 ((hP hb).of_qf hi hq1) (fun n h => option_popOk h)) ?_
    intro _ s2 hi2 hr2
    exact arm_anyStart hi2 hr2 hn
  · exact arm_anyStart hi1 hr1 hn

theorem arm_option {tag : Tag} {s : State} (hi : HInv s) (hr : Rooted s.dom s.openElems)
    (hn : NewOk ⟨nsHtml, tag.name⟩) :
    Sat (do
      if ← inScopeNamed defaultScope "select" then
        generateImpliedEndExcept "optgroup".toList
        if ← inScopeNamed defaultScope "option" then parseError "nested options"
      else if ← currentNodeNamed "option" then
        let _ ← pop
      reconstructActiveFormattingElements
      let _ ← insertElementFor tag
      pure .done) s (fun r s' => PlainRes r ∧ BK s s') := by
  refine q_step' hi hr ((sat_inScopeNamed hi.open_el).mono (fun _ _ h => h.2)) ?_
  intro b s1 _ hi1 hr1
  split
  · unfold generateImpliedEndExcept
    refine bk_step hi1 (bk_implied hi1 hr1 (fun n h => popOk_of_impliedExcept h)) ?_
    intro _ s2 hi2 hr2
    refine q_step' hi2 hr2 ((sat_inScopeNamed hi2.open_el).mono (fun _ _ h => h.2)) ?_
    intro b3 s3 _ hi3 hr3
    split
    · refine bk_step hi3 (bk_parseError hi3 hr3) ?_
      intro _ s4 hi4 hr4
      exact arm_anyStart hi4 hr4 hn
    · exact arm_anyStart hi3 hr3 hn
  · exact popOptionTail hi1 hr1 hn

theorem arm_optgroup {tag : Tag} {s : State} (hi : HInv s) (hr : Rooted s.dom s.openElems)
    (hn : NewOk ⟨nsHtml, tag.name⟩) :
    Sat (do
      if ← inScopeNamed defaultScope "select" then
        generateImpliedEndTags cursoryImpliedEnd
        let nested ← do
          if ← inScopeNamed defaultScope "option" then pure true
          else inScopeNamed defaultScope "optgroup"
        if nested then parseError "nested options"
      else if ← currentNodeNamed "option" then
        let _ ← pop
      reconstructActiveFormattingElements
      let _ ← insertElementFor tag
      pure .done) s (fun r s' => PlainRes r ∧ BK s s') := by
  have hnest : ∀ (nested : Bool) s3, HInv s3 → Rooted s3.dom s3.openElems →
      Sat (if nested = true then do
          parseError "nested options"
          reconstructActiveFormattingElements
          let _ ← insertElementFor tag
          pure ProcessResult.done
        else do
          reconstructActiveFormattingElements
          let _ ← insertElementFor tag
          pure ProcessResult.done) s3 (fun r s' => PlainRes r ∧ BK s3 s') := by
    intro nested s3 hi3 hr3
    split
    · refine bk_step hi3 (bk_parseError hi3 hr3) ?_
      intro _ s4 hi4 hr4
      exact arm_anyStart hi4 hr4 hn
    · exact arm_anyStart hi3 hr3 hn
  refine q_step' hi hr ((sat_inScopeNamed hi.open_el).mono (fun _ _ h => h.2)) ?_
  intro b s1 _ hi1 hr1
  split
  · refine bk_step hi1 (bk_implied hi1 hr1 (fun n h => popOk_of_cursory h)) ?_
    intro _ s2 hi2 hr2
    refine q_step' hi2 hr2 ((sat_inScopeNamed hi2.open_el).mono (fun _ _ h => h.2)) ?_
    intro b3 s3 _ hi3 hr3
    split
    · exact hnest true s3 hi3 hr3
    · refine q_step' hi3 hr3 ((sat_inScopeNamed hi3.open_el).mono (fun _ _ h => h.2)) ?_
      intro nested s4 _ hi4 hr4
      exact hnest nested s4 hi4 hr4
  · exact popOptionTail hi1 hr1 hn

theorem arm_rb {tag : Tag} {s : State} (hi : HInv s) (hr : Rooted s.dom s.openElems)
    (hn : NewOk ⟨nsHtml, tag.name⟩) :
    Sat (do
      if ← inScopeNamed defaultScope "ruby" then generateImpliedEndTags cursoryImpliedEnd
      if !(← currentNodeNamed "ruby") then
        let _ ← unexpected
      let _ ← insertElementFor tag
      pure .done) s (fun r s' => PlainRes r ∧ BK s s') := by
  have hmid : ∀ s2, HInv s2 → Rooted s2.dom s2.openElems →
      Sat (do
        let __do_lift ← currentNodeNamed "ruby"
        if (!__do_lift) = true then do
          let _ ← unexpected
          let _ ← insertElementFor tag
          pure ProcessResult.done
        else do
          let _ ← insertElementFor tag
          pure ProcessResult.done) s2 (fun r s' => PlainRes r ∧ BK s2 s') := by
    intro s2 hi2 hr2
    refine q_step' hi2 hr2 ((q_currentNodeNamed hi2 hr2).mono (fun _ _ h => h.2)) ?_
    intro b s3 _ hi3 hr3
    split
    · refine bk_step hi3 (bk_unexpected hi3 hr3) ?_
      intro _ s4 hi4 hr4
      exact arm_insert hi4 hr4 hn
    · exact arm_insert hi3 hr3 hn
  refine q_step' hi hr ((sat_inScopeNamed hi.open_el).mono (fun _ _ h => h.2)) ?_
  intro b s1 _ hi1 hr1
  split
  · refine bk_step hi1 (bk_implied hi1 hr1 (fun n h => popOk_of_cursory h)) ?_
    intro _ s2 hi2 hr2
    exact hmid s2 hi2 hr2
  · exact hmid s1 hi1 hr1

theorem arm_rp {tag : Tag} {s : State} (hi : HInv s) (hr : Rooted s.dom s.openElems)
    (hn : NewOk ⟨nsHtml, tag.name⟩) :
    Sat (do
      if ← inScopeNamed defaultScope "ruby" then generateImpliedEndExcept "rtc".toList
      let ok ← do
        if ← currentNodeNamed "rtc" then pure true else currentNodeNamed "ruby"
      if !ok then
        let _ ← unexpected
      let _ ← insertElementFor tag
      pure .done) s (fun r s' => PlainRes r ∧ BK s s') := by
  have hok : ∀ (ok : Bool) s3, HInv s3 → Rooted s3.dom s3.openElems →
      Sat (if (!ok) = true then do
          let _ ← unexpected
          let _ ← insertElementFor tag
          pure ProcessResult.done
        else do
          let _ ← insertElementFor tag
          pure ProcessResult.done) s3 (fun r s' => PlainRes r ∧ BK s3 s') := by
    intro ok s3 hi3 hr3
    split
    · refine bk_step hi3 (bk_unexpected hi3 hr3) ?_
      intro _ s4 hi4 hr4
      exact arm_insert hi4 hr4 hn
    · exact arm_insert hi3 hr3 hn
  have hmid : ∀ s2, HInv s2 → Rooted s2.dom s2.openElems →
      Sat (do
        let __do_lift ← currentNodeNamed "rtc"
        if __do_lift = true then do
          let ok ← pure true
          if (!ok) = true then do
            let _ ← unexpected
            let _ ← insertElementFor tag
            pure ProcessResult.done
          else do
            let _ ← insertElementFor tag
            pure ProcessResult.done
        else do
          let ok ← currentNodeNamed "ruby"
          if (!ok) = true then do
            let _ ← unexpected
            let _ ← insertElementFor tag
            pure ProcessResult.done
          else do
            let _ ← insertElementFor tag
            pure ProcessResult.done) s2 (fun r s' => PlainRes r ∧ BK s2 s') := by
    intro s2 hi2 hr2
    refine q_step' hi2 hr2 ((q_currentNodeNamed hi2 hr2).mono (fun _ _ h => h.2)) ?_
    intro b s3 _ hi3 hr3
    split
    · exact hok true s3 hi3 hr3
    · refine q_step' hi3 hr3 ((q_currentNodeNamed hi3 hr3).mono (fun _ _ h => h.2)) ?_
      intro ok s4 _ hi4 hr4
      exact hok ok s4 hi4 hr4
  refine q_step' hi hr ((sat_inScopeNamed hi.open_el).mono (fun _ _ h => h.2)) ?_
  intro b s1 _ hi1 hr1
  split
  · unfold generateImpliedEndExcept
    refine bk_step hi1 (bk_implied hi1 hr1 (fun n h => popOk_of_impliedExcept h)) ?_
    intro _ s2 hi2 hr2
    exact hmid s2 hi2 hr2
  · exact hmid s1 hi1 hr1

theorem bk_enterForeign {tag : Tag} {ns : Str} {s : State} (hi : HInv s) (hr : Rooted s.dom s.openElems)
    (hns : ns ≠ nsHtml) : Sat (enterForeign tag ns) s (fun r s' => PlainRes r ∧ BK s s') := by
  have h : ∀ t : Tag, Sat (if t.selfClosing = true then do
        let _ ← insertElement false ns t.name t.attrs t.hadDup
        pure ProcessResult.doneAckSelfClosing
      else do
        let _ ← insertElement true ns t.name t.attrs t.hadDup
        pure ProcessResult.done) s (fun r s' => PlainRes r ∧ BK s s') := by
    intro t
    split
    · refine bk_step hi ((sat_insertElement (PlaceOk.of_hinv hi hr)).mono
        (fun _ _ h => BK.of_inserted hi hr h (newOk_foreign hns))) ?_
      intro _ s2 hi2 hr2
      exact bk_pure hi2 hr2 plain_ack
    · refine bk_step hi ((sat_insertElement (PlaceOk.of_hinv hi hr)).mono
        (fun _ _ h => BK.of_inserted hi hr h (newOk_foreign hns))) ?_
      intro _ s2 hi2 hr2
      exact bk_pure hi2 hr2 plain_done
  unfold enterForeign
  exact h _

theorem arm_foreign {tag : Tag} {ns : Str} {s : State} (hi : HInv s) (hr : Rooted s.dom s.openElems)
    (hns : ns ≠ nsHtml) :
    Sat (do
      reconstructActiveFormattingElements
      enterForeign tag ns) s (fun r s' => PlainRes r ∧ BK s s') := by
  refine bk_step hi (bk_reconstruct hi hr) ?_
  intro _ s1 hi1 hr1
  exact bk_enterForeign hi1 hr1 hns

theorem arm_unexpected {s : State} (hi : HInv s) (hr : Rooted s.dom s.openElems) :
    Sat (do
      let _ ← unexpected
      pure .done) s (fun r s' => PlainRes r ∧ BK s s') := by
  refine bk_step hi (bk_unexpected hi hr) ?_
  intro _ s1 hi1 hr1
  exact bk_pure hi1 hr1 plain_done

end H5V.Lemmas.TBSafe.IB
