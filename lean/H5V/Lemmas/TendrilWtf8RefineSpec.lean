import H5V.Lemmas.TendrilWtf8
/-!
The specification of WTF-8 and of WTF-8 concatenation, written from the WTF-8 document
(Simon Sapin, "The WTF-8 encoding"), and its relation to the model of `tendril::fmt::WTF8`.

Specification side (`H5V.Props.C11.Spec`, nothing of the tendril model is used):
* `encCp` — *generalized UTF-8*: the UTF-8 bit distribution applied to any code point
  U+0000..U+10FFFF, surrogates included (three bytes `ED A0..BF 80..BF`);
* `decHead` / `decCps` — the decoder, defined as the inverse of `encCp`: a code point is read only if
  its encoding is exactly the bytes consumed (`decCps_iff`);
* `WfWtf8 l` — well-formed WTF-8: `l` is the generalized UTF-8 encoding of a sequence of code points
  in which no lead surrogate is directly followed by a trail surrogate (such a pair has to be
  spelled as the four bytes of the supplementary code point);
* `joinCps` / `concatWtf8` — §"Concatenating": decode both operands; if the left one ends with a lead
  surrogate and the right one starts with a trail surrogate, replace the two by the supplementary
  code point `0x10000 + (lead - 0xD800) * 0x400 + (trail - 0xDC00)`; re-encode.

Relation to the model:
* `wtf8Validate_iff_wf : wtf8Validate l = true ↔ WfWtf8 l` — `WTF8::validate` (with the fix 218f57f)
  accepts exactly well-formed WTF-8;
* `wtf8_push_eq` — on well-formed operands, what `push_bytes_without_validating` builds from
  `WTF8::fixup` (`pushSpec Format.wtf8`) is `concatWtf8`: the model's fix-up agrees with the WTF-8
  document on every pair of well-formed operands;
* `wtf8_concat_wf` — well-formedness is closed under `concatWtf8`;
* `wtf8_seam` — inside a well-formed string no fix-up is due between two adjacent well-formed
  parts (this is what makes the zero-copy merge of `push_tendril` correct).
-/
namespace H5V.Props.C11
open H5V.Model.Tendril H5V.Lemmas.Tendril H5V.Lemmas.Tendril.Utf8

namespace Spec

/-! ## the WTF-8 document -/

/-- lead (high) surrogate code point U+D800..U+DBFF -/
def isLead (c : Nat) : Bool := decide (0xD800 ≤ c ∧ c ≤ 0xDBFF)
/-- trail (low) surrogate code point U+DC00..U+DFFF -/
def isTrail (c : Nat) : Bool := decide (0xDC00 ≤ c ∧ c ≤ 0xDFFF)

/-- generalized UTF-8 of one code point (≤ U+10FFFF; surrogates are encoded like any other code
point of their range, in three bytes) -/
def encCp (c : Nat) : List UInt8 :=
  if c < 0x80 then [UInt8.ofNat c]
  else if c < 0x800 then [UInt8.ofNat (0xC0 + c / 64), UInt8.ofNat (0x80 + c % 64)]
  else if c < 0x10000 then
    [UInt8.ofNat (0xE0 + c / 4096), UInt8.ofNat (0x80 + c / 64 % 64), UInt8.ofNat (0x80 + c % 64)]
  else
    [UInt8.ofNat (0xF0 + c / 262144), UInt8.ofNat (0x80 + c / 4096 % 64),
     UInt8.ofNat (0x80 + c / 64 % 64), UInt8.ofNat (0x80 + c % 64)]

/-- generalized UTF-8 of a sequence of code points -/
def encCps : List Nat → List UInt8
  | [] => []
  | c :: cs => encCp c ++ encCps cs

/-- the length announced by the first byte of a sequence -/
def seqLen (a : UInt8) : Nat :=
  if a.toNat < 0x80 then 1 else if a.toNat < 0xE0 then 2 else if a.toNat < 0xF0 then 3 else 4

/-- the payload bits of a 1-, 2-, 3- or 4-byte sequence -/
def payload : List UInt8 → Nat
  | [a] => a.toNat
  | [a, b] => (a.toNat % 32) * 64 + b.toNat % 64
  | [a, b, c] => (a.toNat % 16) * 4096 + (b.toNat % 64) * 64 + c.toNat % 64
  | [a, b, c, d] => (a.toNat % 8) * 262144 + (b.toNat % 64) * 4096 + (c.toNat % 64) * 64 + d.toNat % 64
  | _ => 0

/-- the code point at the head of a byte string and the number of bytes it takes: the first byte
announces the length, the payload bits give the value, and the value is accepted only if it is a
code point whose generalized UTF-8 is exactly these bytes (so over-long forms, bad continuation
bytes, truncated sequences and values above U+10FFFF are all rejected) -/
def decHead (l : List UInt8) : Option (Nat × Nat) :=
  match l with
  | [] => none
  | a :: _ =>
    if payload (l.take (seqLen a)) ≤ 0x10FFFF ∧ encCp (payload (l.take (seqLen a))) = l.take (seqLen a) then
      some (seqLen a, payload (l.take (seqLen a)))
    else none

def decFuel : Nat → List UInt8 → Option (List Nat)
  | _, [] => some []
  | 0, _ :: _ => none
  | f + 1, a :: r =>
    match decHead (a :: r) with
    | none => none
    | some (n, v) => (decFuel f ((a :: r).drop n)).map (fun cs => v :: cs)

/-- the code points of a generalized UTF-8 string; `none` = not generalized UTF-8 -/
def decCps (l : List UInt8) : Option (List Nat) := decFuel l.length l

/-- no lead surrogate directly followed by a trail surrogate -/
def noPair : List Nat → Bool
  | a :: b :: r => !(isLead a && isTrail b) && noPair (b :: r)
  | _ => true

/-- **well-formed WTF-8**: the generalized UTF-8 encoding of a sequence of code points without a
surrogate pair -/
def WfWtf8 (l : List UInt8) : Prop :=
  ∃ cs : List Nat, (∀ c ∈ cs, c ≤ 0x10FFFF) ∧ noPair cs = true ∧ encCps cs = l

/-- the decision procedure for `WfWtf8` (`wfWtf8_iff`) -/
def wfWtf8 (l : List UInt8) : Bool :=
  match decCps l with
  | some cs => noPair cs
  | none => false

/-- the supplementary code point a surrogate pair stands for -/
def supplementary (hi lo : Nat) : Nat := 0x10000 + (hi - 0xD800) * 0x400 + (lo - 0xDC00)

/-- concatenation of code point sequences in which a lead surrogate at the end of the left operand
and a trail surrogate at the start of the right operand become one supplementary code point -/
def joinCps (x y : List Nat) : List Nat :=
  match x.getLast?, y with
  | some hi, lo :: y' =>
    if isLead hi && isTrail lo then x.dropLast ++ supplementary hi lo :: y' else x ++ y
  | _, _ => x ++ y

/-- **WTF-8 concatenation** (on operands that are not generalized UTF-8: plain append) -/
def concatWtf8 (a b : List UInt8) : List UInt8 :=
  match decCps a, decCps b with
  | some x, some y => encCps (joinCps x y)
  | _, _ => a ++ b

/-! ## encoder and decoder are inverse -/

theorem encCps_append (x y : List Nat) : encCps (x ++ y) = encCps x ++ encCps y := by
  induction x with
  | nil => rfl
  | cons c cs ih => simp only [List.cons_append, encCps, ih, List.append_assoc]

theorem encCp_length_pos (v : Nat) : 0 < (encCp v).length := by
  unfold encCp; repeat' split
  all_goals simp

theorem decHead_sound {l : List UInt8} {n v : Nat} (h : decHead l = some (n, v)) :
    v ≤ 0x10FFFF ∧ encCp v = l.take n := by
  cases l with
  | nil => simp [decHead] at h
  | cons a r =>
    simp only [decHead] at h
    split at h
    · rename_i hc
      simp only [Option.some.injEq, Prod.mk.injEq] at h
      obtain ⟨h1, h2⟩ := h
      rw [← h1, ← h2]; exact hc
    · cases h

theorem decHead_enc {v : Nat} (hv : v ≤ 0x10FFFF) (r : List UInt8) :
    decHead (encCp v ++ r) = some ((encCp v).length, v) := by
  by_cases h1 : v < 0x80
  · have e : encCp v = [UInt8.ofNat v] := by simp only [encCp, h1, if_true]
    have t : (UInt8.ofNat v).toNat = v := ofNat_toNat (by omega)
    rw [e]
    simp only [decHead, seqLen, payload, List.cons_append, List.nil_append, t, h1, if_true, List.take_succ_cons,
      List.take_zero, e, hv, and_self, List.length_cons, List.length_nil]
  · by_cases h2 : v < 0x800
    · have e : encCp v = [UInt8.ofNat (0xC0 + v / 64), UInt8.ofNat (0x80 + v % 64)] := by
        simp only [encCp, h1, h2, if_true, if_false]
      have t1 : (UInt8.ofNat (0xC0 + v / 64)).toNat = 0xC0 + v / 64 := ofNat_toNat (by omega)
      have t2 : (UInt8.ofNat (0x80 + v % 64)).toNat = 0x80 + v % 64 := ofNat_toNat (by omega)
      have c1 : ¬ (0xC0 + v / 64 < 0x80) := by omega
      have c2 : 0xC0 + v / 64 < 0xE0 := by omega
      have ev : (0xC0 + v / 64) % 32 * 64 + (0x80 + v % 64) % 64 = v := by omega
      rw [e]
      simp only [decHead, seqLen, payload, List.cons_append, List.nil_append, t1, t2, c1, c2, if_true, if_false,
        List.take_succ_cons, List.take_zero, ev, e, hv, and_self, List.length_cons, List.length_nil]
    · by_cases h3 : v < 0x10000
      · have e : encCp v = [UInt8.ofNat (0xE0 + v / 4096), UInt8.ofNat (0x80 + v / 64 % 64),
            UInt8.ofNat (0x80 + v % 64)] := by
          simp only [encCp, h1, h2, h3, if_true, if_false]
        have t1 : (UInt8.ofNat (0xE0 + v / 4096)).toNat = 0xE0 + v / 4096 := ofNat_toNat (by omega)
        have t2 : (UInt8.ofNat (0x80 + v / 64 % 64)).toNat = 0x80 + v / 64 % 64 := ofNat_toNat (by omega)
        have t3 : (UInt8.ofNat (0x80 + v % 64)).toNat = 0x80 + v % 64 := ofNat_toNat (by omega)
        have c1 : ¬ (0xE0 + v / 4096 < 0x80) := by omega
        have c2 : ¬ (0xE0 + v / 4096 < 0xE0) := by omega
        have c3 : 0xE0 + v / 4096 < 0xF0 := by omega
        have ev : (0xE0 + v / 4096) % 16 * 4096 + (0x80 + v / 64 % 64) % 64 * 64 + (0x80 + v % 64) % 64 = v := by
          omega
        rw [e]
        simp only [decHead, seqLen, payload, List.cons_append, List.nil_append, t1, t2, t3, c1, c2, c3, if_true, if_false,
          List.take_succ_cons, List.take_zero, ev, e, hv, and_self, List.length_cons, List.length_nil]
      · have e : encCp v = [UInt8.ofNat (0xF0 + v / 262144), UInt8.ofNat (0x80 + v / 4096 % 64),
            UInt8.ofNat (0x80 + v / 64 % 64), UInt8.ofNat (0x80 + v % 64)] := by
          simp only [encCp, h1, h2, h3, if_false]
        have t1 : (UInt8.ofNat (0xF0 + v / 262144)).toNat = 0xF0 + v / 262144 := ofNat_toNat (by omega)
        have t2 : (UInt8.ofNat (0x80 + v / 4096 % 64)).toNat = 0x80 + v / 4096 % 64 := ofNat_toNat (by omega)
        have t3 : (UInt8.ofNat (0x80 + v / 64 % 64)).toNat = 0x80 + v / 64 % 64 := ofNat_toNat (by omega)
        have t4 : (UInt8.ofNat (0x80 + v % 64)).toNat = 0x80 + v % 64 := ofNat_toNat (by omega)
        have c1 : ¬ (0xF0 + v / 262144 < 0x80) := by omega
        have c2 : ¬ (0xF0 + v / 262144 < 0xE0) := by omega
        have c3 : ¬ (0xF0 + v / 262144 < 0xF0) := by omega
        have ev : (0xF0 + v / 262144) % 8 * 262144 + (0x80 + v / 4096 % 64) % 64 * 4096
            + (0x80 + v / 64 % 64) % 64 * 64 + (0x80 + v % 64) % 64 = v := by omega
        rw [e]
        simp only [decHead, seqLen, payload, List.cons_append, List.nil_append, t1, t2, t3, t4, c1, c2, c3, if_false,
          List.take_succ_cons, List.take_zero, ev, e, hv, and_self, if_true, List.length_cons,
          List.length_nil]

theorem decFuel_sound : ∀ (f : Nat) (l : List UInt8) (cs : List Nat), decFuel f l = some cs →
    encCps cs = l ∧ ∀ c ∈ cs, c ≤ 0x10FFFF := by
  intro f
  induction f with
  | zero =>
    intro l cs h
    cases l with
    | nil => simp only [decFuel, Option.some.injEq] at h; subst h; exact ⟨rfl, by simp⟩
    | cons a r => simp [decFuel] at h
  | succ f ih =>
    intro l cs h
    cases l with
    | nil => simp only [decFuel, Option.some.injEq] at h; subst h; exact ⟨rfl, by simp⟩
    | cons a r =>
      simp only [decFuel] at h
      cases hd : decHead (a :: r) with
      | none => rw [hd] at h; cases h
      | some nv =>
        obtain ⟨n, v⟩ := nv
        rw [hd] at h
        simp only [Option.map_eq_some_iff] at h
        obtain ⟨cs', h1, rfl⟩ := h
        obtain ⟨e1, e2⟩ := ih _ _ h1
        obtain ⟨hv, he⟩ := decHead_sound hd
        refine ⟨?_, ?_⟩
        · simp only [encCps, e1, he]; exact List.take_append_drop n (a :: r)
        · intro c hc
          rcases List.mem_cons.mp hc with rfl | hc
          · exact hv
          · exact e2 c hc

theorem decFuel_enc : ∀ (cs : List Nat), (∀ c ∈ cs, c ≤ 0x10FFFF) → ∀ f, (encCps cs).length ≤ f →
    decFuel f (encCps cs) = some cs := by
  intro cs
  induction cs with
  | nil => intro _ f _; cases f <;> rfl
  | cons v cs ih =>
    intro hall f hf
    have hv := hall v (List.mem_cons_self ..)
    have hpos := encCp_length_pos v
    simp only [encCps, List.length_append] at hf
    cases f with
    | zero => omega
    | succ f =>
      simp only [encCps]
      cases he : encCp v with
      | nil => rw [he] at hpos; simp at hpos
      | cons a r =>
        have hd := decHead_enc hv (encCps cs)
        rw [he] at hd
        simp only [List.cons_append] at hd ⊢
        simp only [decFuel, hd]
        have : List.drop (a :: r).length (a :: (r ++ encCps cs)) = encCps cs := by
          rw [← List.cons_append]; exact List.drop_left
        rw [this, ih (fun c hc => hall c (List.mem_cons_of_mem _ hc)) f (by rw [he] at hf; simp at hf; omega)]
        rfl

/-- the decoder is the inverse of the encoder -/
theorem decCps_iff (l : List UInt8) (cs : List Nat) :
    decCps l = some cs ↔ (∀ c ∈ cs, c ≤ 0x10FFFF) ∧ encCps cs = l := by
  constructor
  · intro h; obtain ⟨a, b⟩ := decFuel_sound _ _ _ h; exact ⟨b, a⟩
  · rintro ⟨h1, rfl⟩; exact decFuel_enc cs h1 _ (Nat.le_refl _)

theorem wfWtf8_iff (l : List UInt8) : wfWtf8 l = true ↔ WfWtf8 l := by
  unfold wfWtf8 WfWtf8
  constructor
  · intro h
    cases hd : decCps l with
    | none => rw [hd] at h; cases h
    | some cs =>
      rw [hd] at h
      obtain ⟨a, b⟩ := (decCps_iff l cs).mp hd
      exact ⟨cs, a, h, b⟩
  · rintro ⟨cs, a, b, c⟩
    rw [(decCps_iff l cs).mpr ⟨a, c⟩]; exact b

theorem concat_enc {x y : List Nat} (hx : ∀ c ∈ x, c ≤ 0x10FFFF) (hy : ∀ c ∈ y, c ≤ 0x10FFFF) :
    concatWtf8 (encCps x) (encCps y) = encCps (joinCps x y) := by
  unfold concatWtf8
  rw [(decCps_iff _ x).mpr ⟨hx, rfl⟩, (decCps_iff _ y).mpr ⟨hy, rfl⟩]

end Spec

open Spec H5V.Lemmas.Tendril.Wtf8

/-! ## code points and the characters of the model -/

theorem u8_ext {a b : UInt8} (h : a.toNat = b.toNat) : a = b := UInt8.toNat_inj.mp h

theorem encCp_char {v : Nat} (hv : v ≤ 0x10FFFF) (hs : ¬ (0xD800 ≤ v ∧ v ≤ 0xDFFF)) : IsChar (encCp v) := by
  unfold encCp
  split
  · apply isChar_C1; unfold C1; rw [ofNat_toNat (by omega)]; omega
  · split
    · apply isChar_C2; unfold C2; rw [ofNat_toNat (by omega), ofNat_toNat (by omega)]; omega
    · split
      · apply isChar_C3; unfold C3
        rw [ofNat_toNat (by omega), ofNat_toNat (by omega), ofNat_toNat (by omega)]; omega
      · apply isChar_C4; unfold C4
        rw [ofNat_toNat (by omega), ofNat_toNat (by omega), ofNat_toNat (by omega), ofNat_toNat (by omega)]
        omega

theorem encCp_sur {v : Nat} (h1 : 0xD800 ≤ v) (h2 : v ≤ 0xDFFF) :
    encCp v = [UInt8.ofNat (0xE0 + v / 4096), UInt8.ofNat (0x80 + v / 64 % 64), UInt8.ofNat (0x80 + v % 64)] := by
  unfold encCp
  rw [if_neg (by omega), if_neg (by omega), if_pos (by omega)]

theorem val3_enc {v : Nat} (h1 : 0x800 ≤ v) (h2 : v < 0x10000) :
    val3 (UInt8.ofNat (0xE0 + v / 4096)) (UInt8.ofNat (0x80 + v / 64 % 64)) (UInt8.ofNat (0x80 + v % 64)) = v := by
  unfold val3
  rw [ofNat_toNat (by omega), ofNat_toNat (by omega), ofNat_toNat (by omega)]; omega

theorem encCp_lead {v : Nat} (h : isLead v = true) : Lead (encCp v) := by
  simp only [isLead, decide_eq_true_eq] at h
  rw [encCp_sur (by omega) (by omega)]
  refine ⟨_, _, _, rfl, ?_⟩
  rw [ofNat_toNat (by omega), ofNat_toNat (by omega), ofNat_toNat (by omega)]; omega

theorem encCp_trail {v : Nat} (h : isTrail v = true) : Trail (encCp v) := by
  simp only [isTrail, decide_eq_true_eq] at h
  rw [encCp_sur (by omega) (by omega)]
  refine ⟨_, _, _, rfl, ?_⟩
  rw [ofNat_toNat (by omega), ofNat_toNat (by omega), ofNat_toNat (by omega)]; omega

/-- every Table 3-7 character is the encoding of a scalar value -/
theorem isChar_enc {c : List UInt8} (h : IsChar c) :
    ∃ v, v ≤ 0x10FFFF ∧ ¬ (0xD800 ≤ v ∧ v ≤ 0xDFFF) ∧ encCp v = c := by
  rcases isChar_forms h with ⟨a, rfl, hc⟩ | ⟨a, b, rfl, hc⟩ | ⟨a, b, d, rfl, hc⟩ | ⟨a, b, d, e, rfl, hc⟩
  · unfold C1 at hc
    refine ⟨a.toNat, by omega, by omega, ?_⟩
    unfold encCp; rw [if_pos hc, UInt8.ofNat_toNat]
  · unfold C2 at hc
    refine ⟨(a.toNat % 32) * 64 + b.toNat % 64, by omega, by omega, ?_⟩
    unfold encCp; rw [if_neg (by omega), if_pos (by omega)]
    congr 1
    · apply u8_ext; rw [ofNat_toNat (by omega)]; omega
    · congr 1; apply u8_ext; rw [ofNat_toNat (by omega)]; omega
  · unfold C3 at hc
    refine ⟨(a.toNat % 16) * 4096 + (b.toNat % 64) * 64 + d.toNat % 64, by omega, by omega, ?_⟩
    unfold encCp; rw [if_neg (by omega), if_neg (by omega), if_pos (by omega)]
    congr 1
    · apply u8_ext; rw [ofNat_toNat (by omega)]; omega
    · congr 1
      · apply u8_ext; rw [ofNat_toNat (by omega)]; omega
      · congr 1; apply u8_ext; rw [ofNat_toNat (by omega)]; omega
  · unfold C4 at hc
    refine ⟨(a.toNat % 8) * 262144 + (b.toNat % 64) * 4096 + (d.toNat % 64) * 64 + e.toNat % 64,
      by omega, by omega, ?_⟩
    unfold encCp; rw [if_neg (by omega), if_neg (by omega), if_neg (by omega)]
    congr 1
    · apply u8_ext; rw [ofNat_toNat (by omega)]; omega
    · congr 1
      · apply u8_ext; rw [ofNat_toNat (by omega)]; omega
      · congr 1
        · apply u8_ext; rw [ofNat_toNat (by omega)]; omega
        · congr 1; apply u8_ext; rw [ofNat_toNat (by omega)]; omega

theorem sur_enc {a b d : UInt8} (ha : a.toNat = 0xED) (hb1 : 0xA0 ≤ b.toNat) (hb2 : b.toNat ≤ 0xBF)
    (hd1 : 0x80 ≤ d.toNat) (hd2 : d.toNat ≤ 0xBF) : encCp (val3 a b d) = [a, b, d] := by
  have : 0xD800 ≤ val3 a b d ∧ val3 a b d ≤ 0xDFFF := by unfold val3; omega
  rw [encCp_sur this.1 this.2]
  unfold val3
  congr 1
  · apply u8_ext; rw [ofNat_toNat (by omega)]; omega
  · congr 1
    · apply u8_ext; rw [ofNat_toNat (by omega)]; omega
    · congr 1; apply u8_ext; rw [ofNat_toNat (by omega)]; omega

theorem lead_enc {c : List UInt8} (h : Lead c) : ∃ v, isLead v = true ∧ encCp v = c := by
  obtain ⟨a, b, d, rfl, ha, hb1, hb2, hd1, hd2⟩ := h
  refine ⟨val3 a b d, ?_, sur_enc ha (by omega) (by omega) hd1 hd2⟩
  simp only [isLead, decide_eq_true_eq]; unfold val3; omega

theorem trail_enc {c : List UInt8} (h : Trail c) : ∃ v, isTrail v = true ∧ encCp v = c := by
  obtain ⟨a, b, d, rfl, ha, hb1, hb2, hd1, hd2⟩ := h
  refine ⟨val3 a b d, ?_, sur_enc ha (by omega) (by omega) hd1 hd2⟩
  simp only [isTrail, decide_eq_true_eq]; unfold val3; omega

/-! ## `WTF8::validate` accepts exactly well-formed WTF-8 -/

/-- the first code point is not a trail surrogate -/
def NoTrailHead (cs : List Nat) : Prop := ∀ v r, cs = v :: r → isTrail v = false

theorem noPair_cons {v : Nat} {cs : List Nat} :
    noPair (v :: cs) = true ↔ noPair cs = true ∧ (isLead v = true → NoTrailHead cs) := by
  cases cs with
  | nil => simp [noPair, NoTrailHead]
  | cons w r =>
    simp only [noPair, Bool.and_eq_true, Bool.not_eq_true', NoTrailHead]
    constructor
    · rintro ⟨h1, h2⟩
      refine ⟨h2, ?_⟩
      intro hl v' r' e
      cases e
      cases ht : isTrail w with
      | false => rfl
      | true => rw [hl, ht] at h1; cases h1
    · rintro ⟨h1, h2⟩
      refine ⟨?_, h1⟩
      cases hl : isLead v with
      | false => rfl
      | true => rw [h2 hl w r rfl]; rfl

theorem lead_not_trail {v : Nat} (h : isLead v = true) : isTrail v = false := by
  simp only [isLead, isTrail, decide_eq_true_eq, decide_eq_false_iff_not] at *; omega

theorem VW_cps {p : Bool} {l : List UInt8} (h : VW p l) :
    ∃ cs : List Nat, (∀ c ∈ cs, c ≤ 0x10FFFF) ∧ noPair cs = true ∧ encCps cs = l ∧
      (p = true → NoTrailHead cs) := by
  induction h with
  | nil p => exact ⟨[], by simp, rfl, rfl, fun _ v r e => by cases e⟩
  | char hc _ ih =>
    obtain ⟨cs, h1, h2, h3, _⟩ := ih
    obtain ⟨v, hv, hs, he⟩ := isChar_enc hc
    refine ⟨v :: cs, ?_, ?_, by simp only [encCps, he, h3], ?_⟩
    · intro c hm; rcases List.mem_cons.mp hm with rfl | hm
      · exact hv
      · exact h1 c hm
    · rw [noPair_cons]; refine ⟨h2, ?_⟩
      intro hl; simp only [isLead, decide_eq_true_eq] at hl; omega
    · intro _ v' r' e; cases e
      simp only [isTrail, decide_eq_false_iff_not]; omega
  | lead hc _ ih =>
    obtain ⟨cs, h1, h2, h3, h4⟩ := ih
    obtain ⟨v, hv, he⟩ := lead_enc hc
    refine ⟨v :: cs, ?_, ?_, by simp only [encCps, he, h3], ?_⟩
    · intro c hm; rcases List.mem_cons.mp hm with rfl | hm
      · simp only [isLead, decide_eq_true_eq] at hv; omega
      · exact h1 c hm
    · rw [noPair_cons]; exact ⟨h2, fun _ => h4 rfl⟩
    · intro _ v' r' e; cases e; exact lead_not_trail hv
  | trail hc _ ih =>
    obtain ⟨cs, h1, h2, h3, _⟩ := ih
    obtain ⟨v, hv, he⟩ := trail_enc hc
    refine ⟨v :: cs, ?_, ?_, by simp only [encCps, he, h3], ?_⟩
    · intro c hm; rcases List.mem_cons.mp hm with rfl | hm
      · simp only [isTrail, decide_eq_true_eq] at hv; omega
      · exact h1 c hm
    · rw [noPair_cons]; refine ⟨h2, ?_⟩
      intro hl; simp only [isLead, isTrail, decide_eq_true_eq] at hl hv; omega
    · intro hp; cases hp

theorem VW_of_cps : ∀ (cs : List Nat), (∀ c ∈ cs, c ≤ 0x10FFFF) → noPair cs = true →
    ∀ p : Bool, (p = true → NoTrailHead cs) → VW p (encCps cs) := by
  intro cs
  induction cs with
  | nil => intro _ _ p _; exact VW.nil p
  | cons v cs ih =>
    intro hall hnp p hp
    have hv := hall v (List.mem_cons_self ..)
    have hall' : ∀ c ∈ cs, c ≤ 0x10FFFF := fun c hc => hall c (List.mem_cons_of_mem _ hc)
    rw [noPair_cons] at hnp
    simp only [encCps]
    by_cases hl : isLead v = true
    · exact VW.lead (encCp_lead hl) (ih hall' hnp.1 true (fun _ => hnp.2 hl))
    · by_cases ht : isTrail v = true
      · cases p with
        | true => have := hp rfl v cs rfl; rw [ht] at this; cases this
        | false => exact VW.trail (encCp_trail ht) (ih hall' hnp.1 false (fun h => by cases h))
      · refine VW.char (encCp_char hv ?_) (ih hall' hnp.1 false (fun h => by cases h))
        simp only [isLead, isTrail, decide_eq_true_eq] at hl ht; omega

/-- **`WTF8::validate` accepts exactly the well-formed WTF-8 strings of the WTF-8 document** -/
theorem wtf8Validate_iff_wf (l : List UInt8) : wtf8Validate l = true ↔ WfWtf8 l := by
  rw [wtf8Validate_iff]
  constructor
  · intro h; obtain ⟨cs, a, b, c, _⟩ := VW_cps h; exact ⟨cs, a, b, c⟩
  · rintro ⟨cs, a, b, rfl⟩; exact VW_of_cps cs a b false (fun h => by cases h)

/-! ## the fix-up of the model is the concatenation of the document -/

theorem noPair_append {x : List Nat} : ∀ {y : List Nat}, noPair x = true → noPair y = true →
    (∀ hi, x.getLast? = some hi → isLead hi = true → NoTrailHead y) → noPair (x ++ y) = true := by
  induction x with
  | nil => intro y _ hy _; exact hy
  | cons v xs ih =>
    intro y hx hy hs
    rw [noPair_cons] at hx
    rw [List.cons_append, noPair_cons]
    cases xs with
    | nil =>
      refine ⟨hy, ?_⟩
      intro hl; exact hs v rfl hl
    | cons w r =>
      refine ⟨ih hx.1 hy (fun hi h1 h2 => hs hi (by rw [List.getLast?_cons_cons]; exact h1) h2), ?_⟩
      intro hl v' r' e
      rw [List.cons_append] at e; cases e
      exact hx.2 hl _ _ rfl

theorem step_lead_val {a b d : UInt8} (h : Lead [a, b, d]) (r : List UInt8) :
    stepAt ([a, b, d] ++ r) 0 = some (3, .lead (val3 a b d - 0xD800)) := by
  obtain ⟨a', b', d', e, ha, hb1, hb2, hd1, hd2⟩ := h
  cases e
  have hr : 0xD800 ≤ val3 a b d ∧ val3 a b d ≤ 0xDBFF := by unfold val3; omega
  unfold stepAt
  simp only [List.cons_append, List.nil_append]
  rw [classify_zero, byteK_s3 (by omega)]
  simp only
  rw [E3, if_pos ⟨(isCont_iff _).mpr (by omega), (isCont_iff _).mpr (by omega)⟩, decode3]
  rw [if_neg (by omega), if_pos hr]
  simp [wtf8Meaningful]

theorem step_trail_val {a b d : UInt8} (h : Trail [a, b, d]) (r : List UInt8) :
    stepAt ([a, b, d] ++ r) 0 = some (3, .trail (val3 a b d - 0xDC00)) := by
  obtain ⟨a', b', d', e, ha, hb1, hb2, hd1, hd2⟩ := h
  cases e
  have hr : 0xDC00 ≤ val3 a b d ∧ val3 a b d ≤ 0xDFFF := by unfold val3; omega
  unfold stepAt
  simp only [List.cons_append, List.nil_append]
  rw [classify_zero, byteK_s3 (by omega)]
  simp only
  rw [E3, if_pos ⟨(isCont_iff _).mpr (by omega), (isCont_iff _).mpr (by omega)⟩, decode3]
  rw [if_neg (by omega), if_neg (by omega), if_pos hr]
  simp [wtf8Meaningful]

theorem encodeUtf8_supp {n : Nat} (h1 : 0x10000 ≤ n) (h2 : n ≤ 0x10FFFF) : encodeUtf8 n = some (encCp n) := by
  unfold encodeUtf8 encCp
  rw [if_neg (by omega), if_neg (by omega), if_neg (by omega), if_neg (by omega), if_pos h2,
    if_neg (by omega), if_neg (by omega), if_neg (by omega)]

theorem wtf8Fixup_eq {lhs rhs : List UInt8} {s l hi s' l' lo : Nat} {bs : List UInt8}
    (h3 : lhs.length ≥ 3 ∧ rhs.length ≥ 3) (h1 : classify lhs (lhs.length - 1) = some ⟨s, l, .lead hi⟩)
    (h2 : classify rhs 0 = some ⟨s', l', .trail lo⟩) (he : encodeUtf8 (0x10000 + hi * 1024 + lo) = some bs) :
    wtf8Fixup lhs rhs = ⟨3, 3, bs⟩ := by
  unfold wtf8Fixup
  rw [if_pos h3, h1, h2]
  simp only [he]

/-- the fix-up at a junction of a lead surrogate `hi` and a trail surrogate `lo`, by value -/
theorem fixup_join_val (a0 r : List UInt8) {hi lo : Nat} (hh : isLead hi = true) (hl : isTrail lo = true) :
    wtf8Fixup (a0 ++ encCp hi) (encCp lo ++ r) = ⟨3, 3, encCp (supplementary hi lo)⟩ := by
  have hh' := hh; have hl' := hl
  simp only [isLead, isTrail, decide_eq_true_eq] at hh' hl'
  have hL := encCp_lead hh
  have hT := encCp_trail hl
  have hL0 := hL.length
  have hT0 := hT.length
  have e1 := encCp_sur (v := hi) (by omega) (by omega)
  have e2 := encCp_sur (v := lo) (by omega) (by omega)
  rw [e1] at hL; rw [e2] at hT
  have s1 := step_lead_val hL []
  have s2 := step_trail_val hT r
  rw [val3_enc (by omega) (by omega)] at s1 s2
  rw [List.append_nil] at s1
  have hc0 : classify (encCp lo ++ r) 0 = some ⟨0, 3, .trail (lo - 0xDC00)⟩ := by
    rw [e2]; exact (step0_info s2).1
  have hce := classify_end a0 (.inr (.inl hL)) s1
  have hs1 : 0x10000 ≤ supplementary hi lo := by unfold supplementary; omega
  have hs2 : supplementary hi lo ≤ 0x10FFFF := by unfold supplementary; omega
  have hsup : encodeUtf8 (0x10000 + (hi - 0xD800) * 1024 + (lo - 0xDC00)) = some (encCp (supplementary hi lo)) :=
    encodeUtf8_supp hs1 hs2
  rw [← e1] at hce
  exact wtf8Fixup_eq ⟨by rw [List.length_append, hL0]; omega, by rw [List.length_append, hT0]; omega⟩ hce hc0 hsup

theorem joinCps_nil_left (y : List Nat) : joinCps [] y = y := by
  simp [joinCps]

theorem joinCps_concat (x0 : List Nat) (hi : Nat) (y : List Nat) :
    joinCps (x0 ++ [hi]) y =
      match y with
      | lo :: y' => if isLead hi && isTrail lo then x0 ++ supplementary hi lo :: y' else (x0 ++ [hi]) ++ y
      | [] => (x0 ++ [hi]) ++ y := by
  unfold joinCps
  rw [List.getLast?_concat, List.dropLast_concat]
  cases y <;> rfl

/-- **The model's fix-up agrees with the WTF-8 document.**  For well-formed operands the bytes
`push_bytes_without_validating` produces (drop `drop_left` bytes, insert, drop `drop_right` bytes,
as dictated by `WTF8::fixup`) are the WTF-8 concatenation. -/
theorem wtf8_push_eq (a b : List UInt8) (ha : wtf8Validate a = true) (hb : wtf8Validate b = true) :
    pushSpec Format.wtf8 a b = concatWtf8 a b := by
  rw [wtf8Validate_iff] at ha hb
  obtain ⟨x, hx1, hx2, rfl, _⟩ := VW_cps ha
  obtain ⟨y, hy1, hy2, rfl, _⟩ := VW_cps hb
  rw [concat_enc hx1 hy1]
  -- the plain case: no pair at the seam
  have plain : (∀ hi, x.getLast? = some hi → isLead hi = true → NoTrailHead y) → joinCps x y = x ++ y →
      pushSpec Format.wtf8 (encCps x) (encCps y) = encCps (joinCps x y) := by
    intro hs hj
    rw [hj, encCps_append]
    apply pushSpec_trivial
    apply wtf8_fixup_trivial
    rw [wtf8Validate_iff, ← encCps_append]
    refine VW_of_cps _ ?_ (noPair_append hx2 hy2 hs) false (fun h => by cases h)
    intro c hc
    rcases List.mem_append.mp hc with hc | hc
    · exact hx1 c hc
    · exact hy1 c hc
  rcases List.eq_nil_or_concat x with rfl | ⟨x0, hi, rfl⟩
  · exact plain (fun hi h => by simp at h) (joinCps_nil_left y)
  · rw [List.concat_eq_append] at *
    cases y with
    | nil =>
      exact plain (fun _ _ _ v r e => by cases e) (by rw [joinCps_concat])
    | cons lo y' =>
      by_cases hp : (isLead hi && isTrail lo) = true
      · rw [joinCps_concat]; simp only [hp, if_true]
        rw [Bool.and_eq_true] at hp
        rw [encCps_append, encCps_append]
        simp only [encCps, List.append_nil]
        have hF := fixup_join_val (encCps x0) (encCps y') hp.1 hp.2
        have hL := encCp_lead hp.1
        have hT := encCp_trail hp.2
        simp only [pushSpec, Format.wtf8, hF]
        have h3 : List.drop 3 (encCp lo ++ encCps y') = encCps y' := by rw [← hT.length, List.drop_left]
        have h4 : List.take ((encCps x0 ++ encCp hi).length - 3) (encCps x0 ++ encCp hi) = encCps x0 := by
          rw [List.length_append, hL.length, Nat.add_sub_cancel, List.take_left]
        rw [h3, h4, List.append_assoc]
      · refine plain ?_ (by rw [joinCps_concat]; simp only [hp, Bool.false_eq_true, if_false])
        intro hi' h1 h2 v r e
        rw [List.getLast?_concat] at h1; cases h1; cases e
        cases ht : isTrail lo with
        | false => rfl
        | true => rw [h2, ht] at hp; exact absurd rfl hp

/-- well-formedness is closed under WTF-8 concatenation -/
theorem wtf8_concat_valid (a b : List UInt8) (ha : wtf8Validate a = true) (hb : wtf8Validate b = true) :
    wtf8Validate (concatWtf8 a b) = true := by
  rw [← wtf8_push_eq a b ha hb]; exact wtf8_push_valid a b ha hb

theorem wtf8_concat_wf (a b : List UInt8) (ha : WfWtf8 a) (hb : WfWtf8 b) : WfWtf8 (concatWtf8 a b) := by
  rw [← wtf8Validate_iff_wf] at *; exact wtf8_concat_valid a b ha hb

/-! ## no fix-up between adjacent well-formed parts of a well-formed string -/

theorem VW_inv_trail {q : Bool} {l : List UInt8} {k n : Nat} (h : VW q l)
    (hs : stepAt l 0 = some (k, .trail n)) : ∃ c r, l = c ++ r ∧ Trail c := by
  cases h with
  | nil => rw [stepAt_nil] at hs; cases hs
  | char hc hr => obtain ⟨v, hv⟩ := step_char hc _; rw [hv] at hs; simp at hs
  | lead hc hr => obtain ⟨v, hv⟩ := step_lead hc _; rw [hv] at hs; simp at hs
  | trail hc hr => exact ⟨_, _, rfl, hc⟩

/-- **the seam law**: two adjacent well-formed parts `a`, `b` of a well-formed string
`x ++ (a ++ b) ++ y` need no fix-up — their WTF-8 concatenation is `a ++ b` -/
theorem wtf8_seam_fixup (x a b y : List UInt8) (h : wtf8Validate (x ++ (a ++ b) ++ y) = true)
    (ha : wtf8Validate a = true) (hb : wtf8Validate b = true) : wtf8Fixup a b = {} := by
  rw [wtf8Validate_iff] at h ha hb
  unfold wtf8Fixup
  split
  · rename_i hl
    split
    · rename_i h1 h2
      exfalso
      have hane : a ≠ [] := by intro e; subst e; simp at hl
      -- the part from `a` on is well-formed
      have h' : VW false (a ++ (b ++ y)) := by
        have e : x ++ (a ++ b) ++ y = x ++ (a ++ (b ++ y)) := by simp only [List.append_assoc]
        rw [e] at h
        rcases h.cut_right x (a ++ (b ++ y)) rfl with hv | ⟨y', r', e', hy'⟩
        · exact hv
        · exfalso
          cases a with
          | nil => exact hane rfl
          | cons a0 ar =>
            rw [List.cons_append] at e'; cases e'
            have := wtf8_not_cont y' ar hy'
            rw [(wtf8Validate_iff _).mpr ha] at this; cases this
      obtain ⟨a0, d, _, _, _, hT⟩ := last_lead h' hane h1
      cases b with
      | nil => simp at hl
      | cons b0 br =>
        have hs := stepAt_of_classify0 h2 rfl
        obtain ⟨c, r, e, hc⟩ := VW_inv_trail hb hs
        rw [e, List.append_assoc] at hT
        obtain ⟨n, hn⟩ := step_trail hc (r ++ y)
        exact hT.not_trail rfl hn
    · rfl
  · rfl

theorem wtf8_seam (x a b y : List UInt8) (h : wtf8Validate (x ++ (a ++ b) ++ y) = true)
    (ha : wtf8Validate a = true) (hb : wtf8Validate b = true) : concatWtf8 a b = a ++ b := by
  rw [← wtf8_push_eq a b ha hb]
  exact pushSpec_trivial (wtf8_seam_fixup x a b y h ha hb)

end H5V.Props.C11
