import H5V.Model.XmlTB
/-!
The XML tree-builder model (`H5V.Model.XmlTB`) does not depend on how text is cut into character
tokens.

* `strip` / `addErr`: the parse-error log is write-only — `step` never reads it (`step_wr`: a step
  from `s` is the step from `strip s` with the old log appended behind the new entries).
* `dedupAdj`: the log with adjacent repetitions collapsed.  A run of non-whitespace text before or
  after the root element is reported once *per character token* ("Unexpected element in start/end
  phase"), so the *number* of reports depends on the cut; the collapsed log does not.
* `SimS s t`: all fields but the log equal, logs equal after collapsing.
* `step_sim` (congruence), `step_split` (`chars (a ++ b)` vs `chars a, chars b`, in all three phases;
  no non-emptiness needed: RcDom's text merge makes even an empty piece invisible next to another
  piece).
-/
namespace H5V.Lemmas.XmlTBSplit
open H5V.Model.XmlTB

/-- the state with an empty parse-error log -/
def strip (s : State) : State := { s with errors := [] }

/-- put an older log behind the state's log -/
def addErr (es : List Err) (s : State) : State := { s with errors := s.errors ++ es }

@[simp] theorem strip_addErr (es : List Err) (s : State) : strip (addErr es s) = strip s := rfl
@[simp] theorem addErr_errors (es : List Err) (s : State) : (addErr es s).errors = s.errors ++ es := rfl
@[simp] theorem strip_errors (s : State) : (strip s).errors = [] := rfl
@[simp] theorem strip_strip (s : State) : strip (strip s) = strip s := rfl
theorem addErr_addErr (a b : List Err) (s : State) : addErr a (addErr b s) = addErr (b ++ a) s := by
  simp [addErr, List.append_assoc]
theorem addErr_strip (s : State) : addErr s.errors (strip s) = s := by
  cases s; simp [addErr, strip]
@[simp] theorem strip_phase (s : State) : (strip s).phase = s.phase := rfl
@[simp] theorem strip_opened (s : State) : (strip s).opened = s.opened := rfl
@[simp] theorem addErr_phase (es : List Err) (s : State) : (addErr es s).phase = s.phase := rfl
@[simp] theorem addErr_opened (es : List Err) (s : State) : (addErr es s).opened = s.opened := rfl

/-- `f` only ever appends to the log -/
def Wr (f : State → Except String State) : Prop := ∀ s, f s = (f (strip s)).map (addErr s.errors)

/-- pure version -/
def WrP (f : State → State) : Prop := ∀ s, f s = addErr s.errors (f (strip s))

theorem Wr.of_pure {f : State → State} (h : WrP f) : Wr (fun s => .ok (f s)) := by
  intro s; simp only [Except.map]; rw [h s]

theorem map_map_addErr (a b : List Err) (r : Except String State) :
    (r.map (addErr b)).map (addErr a) = r.map (addErr (b ++ a)) := by
  cases r with
  | error e => rfl
  | ok s => simp [Except.map, addErr_addErr]

theorem Wr.bind {f g : State → Except String State} (hf : Wr f) (hg : Wr g) :
    Wr (fun s => (f s).bind g) := by
  intro s
  dsimp only
  rw [hf s]
  cases h : f (strip s) with
  | error e => rfl
  | ok u =>
    show g (addErr s.errors u) = (g u).map (addErr s.errors)
    rw [hg (addErr s.errors u), hg u, strip_addErr, addErr_errors, map_map_addErr]

theorem Wr.map {f : State → Except String State} {g : State → State} (hf : Wr f) (hg : WrP g) :
    Wr (fun s => (f s).map g) := by
  intro s
  dsimp only
  rw [hf s]
  cases h : f (strip s) with
  | error e => rfl
  | ok u =>
    show Except.ok (g (addErr s.errors u)) = Except.ok (addErr s.errors (g u))
    rw [hg (addErr s.errors u), hg u, strip_addErr, addErr_errors, addErr_addErr]

theorem err_wr (l : List Err) : WrP (fun s => s.err l) := by
  intro s; cases s; simp [State.err, strip, addErr]

theorem appendDoc_wr (n : Node) : WrP (fun s => s.appendDoc n) := by
  intro s
  obtain ⟨ph, db, da, rt, op, ns, cr, er, ds⟩ := s
  simp only [State.appendDoc, State.hasRoot, strip, addErr]
  by_cases h : (rt.isSome || !op.isEmpty) = true <;> simp [h]

theorem setEndIfEmpty_wr : WrP setEndIfEmpty := by
  intro s
  obtain ⟨ph, db, da, rt, op, ns, cr, er, ds⟩ := s
  simp only [setEndIfEmpty, strip, addErr]
  by_cases h : op.isEmpty = true <;> simp [h]

theorem pop_wr : Wr pop := by
  intro s
  obtain ⟨ph, db, da, rt, op, ns, cr, er, ds⟩ := s
  unfold pop strip addErr
  dsimp only
  match op with
  | [] => rfl
  | [f] => simp [Except.map]
  | f :: g :: rest => simp [Except.map]

theorem appendCur_wr (upd : List Node → List Node) : Wr (fun s => appendCur s upd) := by
  intro s
  obtain ⟨ph, db, da, rt, op, ns, cr, er, ds⟩ := s
  unfold appendCur strip addErr
  dsimp only
  match op with
  | [] => rfl
  | f :: rest => simp [Except.map]

theorem insertTag_wr (b : Bound) : Wr (fun s => insertTag s b) := by
  intro s
  obtain ⟨ph, db, da, rt, op, ns, cr, er, ds⟩ := s
  unfold insertTag strip addErr
  dsimp only
  match op with
  | [] => rfl
  | f :: rest => simp [Except.map]

theorem popUntil_wr (name : QName) : ∀ fuel, Wr (popUntil name fuel) := by
  intro fuel
  induction fuel with
  | zero =>
    intro s
    obtain ⟨ph, db, da, rt, op, ns, cr, er, ds⟩ := s
    unfold popUntil strip addErr
    dsimp only
    match op with
    | [] => rfl
    | f :: rest => dsimp only; split <;> simp [Except.map]
  | succ n ih =>
    intro s
    have hb := Wr.bind pop_wr ih s
    unfold popUntil
    cases ho : s.opened with
    | nil => simp [ho]; rfl
    | cons f rest =>
      simp only [strip_opened, ho]
      split
      · simp [Except.map, addErr_strip]
      · exact hb

theorem Wr.comp_pure {g : State → Except String State} {f : State → State} (hg : Wr g) (hf : WrP f) :
    Wr (fun s => g (f s)) := by
  intro s
  dsimp only
  rw [hf s, hg (addErr s.errors (f (strip s))), hg (f (strip s)), strip_addErr, addErr_errors, map_map_addErr]

/-- the optional "current node doesn't match" report of `close_tag` -/
def closeTagPre (name : QName) (s : State) : State :=
  match s.opened with
  | [] => s
  | f :: _ => if f.name.loc ≠ name.loc then s.err [.currentMismatch] else s

/-- the rest of `close_tag` -/
def closeTagPost (name : QName) (u : State) : Except String State :=
  if u.opened.any (fun g => sameExpanded g.name name) then (popUntil name u.opened.length u).bind pop
  else .ok u

theorem closeTag_eq (s : State) (name : QName) :
    closeTag s name =
      match s.opened with
      | [] => .error "tree_builder/mod.rs:444 no current element"
      | _ :: _ => closeTagPost name (closeTagPre name s) := by
  unfold closeTag closeTagPost closeTagPre
  cases s.opened <;> rfl

theorem closeTagPre_wr (name : QName) : WrP (closeTagPre name) := by
  intro s
  unfold closeTagPre
  simp only [strip_opened]
  cases s.opened with
  | nil => exact (addErr_strip s).symm
  | cons f rest =>
    dsimp only
    split
    · exact err_wr _ s
    · exact (addErr_strip s).symm

theorem closeTagPost_wr (name : QName) : Wr (closeTagPost name) := by
  intro u
  unfold closeTagPost
  simp only [strip_opened]
  by_cases h : (u.opened.any fun g => sameExpanded g.name name) = true
  · simp only [h, if_true]
    exact Wr.bind (popUntil_wr name u.opened.length) pop_wr u
  · simp only [h, if_false, Bool.false_eq_true]
    simp [Except.map, addErr_strip]

theorem closeTag_wr (name : QName) : Wr (fun s => closeTag s name) := by
  intro s
  dsimp only
  rw [closeTag_eq, closeTag_eq]
  simp only [strip_opened]
  cases s.opened with
  | nil => rfl
  | cons f rest => exact Wr.comp_pure (closeTagPost_wr name) (closeTagPre_wr name) s

theorem applyNs_wr (cfg : TbCfg) (t : Tag) :
    WrP (fun s => (applyNs cfg s t).1) ∧ ∀ s, (applyNs cfg s t).2 = (applyNs cfg (strip s) t).2 := by
  constructor
  · intro s
    obtain ⟨ph, db, da, rt, op, ns, cr, er, ds⟩ := s
    simp only [applyNs, State.err, strip, addErr]
    by_cases h : pushesMap t.kind (processNamespaces cfg ns t).name = true <;> simp [h]
  · intro s; rfl

theorem applyNs_eq (cfg : TbCfg) (s : State) (t : Tag) :
    applyNs cfg s t = (addErr s.errors (applyNs cfg (strip s) t).1, (applyNs cfg (strip s) t).2) :=
  Prod.ext ((applyNs_wr cfg t).1 s) rfl

/-- **the parse-error log is write-only**: a step from `s` is the step from `strip s` with the old
log put behind the new entries -/
theorem step_wr (cfg : TbCfg) (tok : Token) : Wr (fun s => step cfg s tok) := by
  intro s
  dsimp only
  unfold step
  simp only [strip_phase]
  cases hp : s.phase with
  | start =>
    dsimp only
    cases tok with
    | tag t =>
      obtain ⟨k, n, as⟩ := t
      cases k <;> dsimp only
      · rw [applyNs_eq cfg s]
        generalize (applyNs cfg (strip s) ⟨.start, n, as⟩) = r
        obtain ⟨r1, r2⟩ := r
        simp [Except.map, addErr]
      · exact Wr.of_pure (err_wr _) s
      · rw [applyNs_eq cfg s]
        generalize (applyNs cfg (strip s) ⟨.empty, n, as⟩) = r
        obtain ⟨r1, r2⟩ := r
        simp [Except.map, addErr]
      · exact Wr.of_pure (err_wr _) s
    | doctype n p sy =>
      dsimp only
      have e : (strip s).doctypeSeen = s.doctypeSeen := rfl
      rw [e]
      split
      · exact Wr.of_pure (err_wr _) s
      · simp only [Except.map]
        obtain ⟨ph, db, da, rt, op, ns, cr, er, ds⟩ := s
        simp only [State.appendDoc, State.hasRoot, strip, addErr]
        by_cases h : (rt.isSome || !op.isEmpty) = true <;> simp [h]
    | comment c => exact Wr.of_pure (appendDoc_wr _) s
    | chars cs =>
      dsimp only
      split
      · simp [Except.map, addErr_strip]
      · exact Wr.of_pure (err_wr _) s
    | pi t d => exact Wr.of_pure (appendDoc_wr _) s
    | nullChar => exact Wr.of_pure (err_wr _) s
    | eof =>
      simp only [Except.map]
      obtain ⟨ph, db, da, rt, op, ns, cr, er, ds⟩ := s
      simp [State.err, strip, addErr]
  | main =>
    dsimp only
    cases tok with
    | tag t =>
      obtain ⟨k, n, as⟩ := t
      cases k <;> dsimp only
      · rw [applyNs_eq cfg s]
        generalize (applyNs cfg (strip s) ⟨.start, n, as⟩) = r
        obtain ⟨r1, r2⟩ := r
        dsimp only
        have h1 := insertTag_wr r2 (addErr s.errors r1)
        have h2 := insertTag_wr r2 r1
        dsimp only at h1 h2
        rw [h1, strip_addErr, addErr_errors, h2, map_map_addErr]
      · rw [applyNs_eq cfg s]
        generalize (applyNs cfg (strip s) ⟨.end_, n, as⟩) = r
        obtain ⟨r1, r2⟩ := r
        dsimp only
        have hw := Wr.map (closeTag_wr r2.name) setEndIfEmpty_wr
        have h1 := hw (addErr s.errors r1)
        have h2 := hw r1
        dsimp only at h1 h2
        rw [h1, strip_addErr, addErr_errors, h2, map_map_addErr]
      · rw [applyNs_eq cfg s]
        generalize (applyNs cfg (strip s) ⟨.empty, n, as⟩) = r
        obtain ⟨r1, r2⟩ := r
        dsimp only
        split
        · have hw := Wr.bind (insertTag_wr r2) (closeTag_wr r2.name)
          have h1 := hw (addErr s.errors r1)
          have h2 := hw r1
          dsimp only at h1 h2
          rw [h1, strip_addErr, addErr_errors, h2, map_map_addErr]
        · have hg : WrP (fun s => { s with created := ⟨r2.name, r2.attrs⟩ :: s.created }) := by
            intro u; cases u; simp [strip, addErr]
          have hw := Wr.map (appendCur_wr (fun k => .elem r2.name r2.attrs [] :: k)) hg
          have h1 := hw (addErr s.errors r1)
          have h2 := hw r1
          dsimp only at h1 h2
          rw [h1, strip_addErr, addErr_errors, h2, map_map_addErr]
      · exact Wr.map pop_wr setEndIfEmpty_wr s
    | doctype n p sy => exact Wr.of_pure (err_wr _) s
    | comment c => exact appendCur_wr _ s
    | chars cs => exact appendCur_wr _ s
    | pi t d => exact appendCur_wr _ s
    | nullChar => simp only [Except.map]; cases s; simp [strip, addErr]
    | eof => simp only [Except.map]; cases s; simp [strip, addErr]
  | end_ =>
    dsimp only
    cases tok with
    | tag t => exact Wr.of_pure (err_wr _) s
    | doctype n p sy => exact Wr.of_pure (err_wr _) s
    | comment c => exact Wr.of_pure (appendDoc_wr _) s
    | chars cs =>
      dsimp only
      split
      · simp [Except.map, addErr_strip]
      · exact Wr.of_pure (err_wr _) s
    | pi t d => exact Wr.of_pure (appendDoc_wr _) s
    | nullChar => exact Wr.of_pure (err_wr _) s
    | eof => simp [Except.map, addErr_strip]

/-! ### the collapsed log -/

/-- collapse adjacent repetitions -/
def dedupAdj : List Err → List Err
  | [] => []
  | x :: l => if l.head? = some x then dedupAdj l else x :: dedupAdj l

theorem dedupAdj_head (l : List Err) : (dedupAdj l).head? = l.head? := by
  induction l with
  | nil => rfl
  | cons x l ih =>
    simp only [dedupAdj]
    split
    · rename_i h; rw [ih, h]; rfl
    · rfl

theorem dedupAdj_cons_congr (x : Err) {l1 l2 : List Err} (h : dedupAdj l1 = dedupAdj l2) :
    dedupAdj (x :: l1) = dedupAdj (x :: l2) := by
  have hh : l1.head? = l2.head? := by rw [← dedupAdj_head l1, ← dedupAdj_head l2, h]
  simp only [dedupAdj, hh, h]

theorem dedupAdj_append_congr (a : List Err) {l1 l2 : List Err} (h : dedupAdj l1 = dedupAdj l2) :
    dedupAdj (a ++ l1) = dedupAdj (a ++ l2) := by
  induction a with
  | nil => exact h
  | cons x a ih => exact dedupAdj_cons_congr x ih

theorem dedupAdj_dup (x : Err) (l : List Err) : dedupAdj (x :: x :: l) = dedupAdj (x :: l) := by
  simp [dedupAdj]

/-! ### the simulation -/

/-- equal except for the parse-error log, and the logs agree after collapsing adjacent repetitions -/
def SimS (s t : State) : Prop := strip s = strip t ∧ dedupAdj s.errors = dedupAdj t.errors

theorem SimS.refl (s : State) : SimS s s := ⟨rfl, rfl⟩
theorem SimS.symm {s t : State} (h : SimS s t) : SimS t s := ⟨h.1.symm, h.2.symm⟩
theorem SimS.trans {s t u : State} (h1 : SimS s t) (h2 : SimS t u) : SimS s u :=
  ⟨h1.1.trans h2.1, h1.2.trans h2.2⟩

/-- both fail at the same site, or both succeed in `SimS` states -/
def RelR : Except String State → Except String State → Prop
  | .ok a, .ok b => SimS a b
  | .error e, .error e' => e = e'
  | _, _ => False

theorem RelR.refl (r : Except String State) : RelR r r := by
  cases r with
  | error e => exact rfl
  | ok s => exact SimS.refl s
theorem RelR.symm {x y : Except String State} (h : RelR x y) : RelR y x := by
  cases x <;> cases y <;> simp only [RelR] at h ⊢
  · exact h.symm
  · exact h.symm
theorem RelR.trans {x y z : Except String State} (h1 : RelR x y) (h2 : RelR y z) : RelR x z := by
  cases x <;> cases y <;> cases z <;> simp only [RelR] at h1 h2 ⊢
  · exact h1.trans h2
  · exact h1.trans h2

theorem SimS.addErr {s t : State} (h : SimS s t) (u : State) : SimS (addErr s.errors u) (addErr t.errors u) :=
  ⟨rfl, dedupAdj_append_congr _ h.2⟩

/-- **congruence**: any token, delivered to `SimS` states -/
theorem step_sim (cfg : TbCfg) (tok : Token) {s t : State} (h : SimS s t) :
    RelR (step cfg s tok) (step cfg t tok) := by
  have h1 := step_wr cfg tok s
  have h2 := step_wr cfg tok t
  dsimp only at h1 h2
  rw [h1, h2, ← h.1]
  cases step cfg (strip s) tok with
  | error e => exact rfl
  | ok u => exact h.addErr u

theorem appendText_append (k : List Node) (a b : Str) :
    appendText (appendText k a) b = appendText k (a ++ b) := by
  cases k with
  | nil => simp [appendText]
  | cons n rest => cases n <;> simp [appendText, List.append_assoc]

theorem anyNotWhitespace_append (a b : Str) :
    anyNotWhitespace (a ++ b) = (anyNotWhitespace a || anyNotWhitespace b) := by
  simp only [anyNotWhitespace, List.all_append]
  cases List.all a _ <;> simp

theorem err_err_sim (s : State) (x : Err) : SimS (s.err [x]) ((s.err [x]).err [x]) := by
  refine ⟨rfl, ?_⟩
  simp only [State.err, List.reverse_cons, List.reverse_nil, List.nil_append, List.singleton_append]
  exact (dedupAdj_dup x s.errors).symm

/-- **the cut**: `chars (a ++ b)` against `chars a` followed by `chars b`, from the same state, in every
phase (before the root: whitespace ignored, anything else reported; inside: RcDom's text merge; after
the root: as before it) -/
theorem step_split (cfg : TbCfg) (s : State) (a b : Str) :
    RelR (step cfg s (.chars (a ++ b))) ((step cfg s (.chars a)).bind (fun s' => step cfg s' (.chars b))) := by
  cases hp : s.phase with
  | start =>
    have e1 : ∀ cs, step cfg s (.chars cs) =
        if !anyNotWhitespace cs then .ok s else .ok (s.err [.unexpStart]) := by
      intro cs; unfold step; simp only [hp]
    have e2 : ∀ cs, step cfg (s.err [.unexpStart]) (.chars cs) =
        if !anyNotWhitespace cs then .ok (s.err [.unexpStart]) else .ok ((s.err [.unexpStart]).err [.unexpStart]) := by
      intro cs; unfold step
      have : (s.err [.unexpStart]).phase = .start := hp
      simp only [this]
    rw [e1, e1, anyNotWhitespace_append]
    cases ha : anyNotWhitespace a <;> cases hb : anyNotWhitespace b <;>
      simp only [Bool.or_false, Bool.or_true, Bool.not_false, Bool.not_true, if_true, Bool.false_eq_true, if_false,
        Except.bind]
    · rw [e1]; simp only [hb, Bool.not_false, if_true]; exact SimS.refl s
    · rw [e1]; simp only [hb, Bool.not_true, Bool.false_eq_true, if_false]; exact SimS.refl _
    · rw [e2]; simp only [hb, Bool.not_false, if_true]; exact SimS.refl _
    · rw [e2]; simp only [hb, Bool.not_true, Bool.false_eq_true, if_false]; exact err_err_sim s _
  | main =>
    have e1 : ∀ (u : State) cs, u.phase = .main → step cfg u (.chars cs) = appendCur u (fun k => appendText k cs) := by
      intro u cs hu; unfold step; simp only [hu]
    rw [e1 s _ hp, e1 s _ hp]
    unfold appendCur
    cases ho : s.opened with
    | nil => exact rfl
    | cons f rest =>
      simp only [Except.bind]
      unfold step
      simp only [hp, appendCur, appendText_append]
      exact SimS.refl _
  | end_ =>
    have e1 : ∀ cs, step cfg s (.chars cs) =
        if !anyNotWhitespace cs then .ok s else .ok (s.err [.unexpEnd]) := by
      intro cs; unfold step; simp only [hp]
    have e2 : ∀ cs, step cfg (s.err [.unexpEnd]) (.chars cs) =
        if !anyNotWhitespace cs then .ok (s.err [.unexpEnd]) else .ok ((s.err [.unexpEnd]).err [.unexpEnd]) := by
      intro cs; unfold step
      have : (s.err [.unexpEnd]).phase = .end_ := hp
      simp only [this]
    rw [e1, e1, anyNotWhitespace_append]
    cases ha : anyNotWhitespace a <;> cases hb : anyNotWhitespace b <;>
      simp only [Bool.or_false, Bool.or_true, Bool.not_false, Bool.not_true, if_true, Bool.false_eq_true, if_false,
        Except.bind]
    · rw [e1]; simp only [hb, Bool.not_false, if_true]; exact SimS.refl s
    · rw [e1]; simp only [hb, Bool.not_true, Bool.false_eq_true, if_false]; exact SimS.refl _
    · rw [e2]; simp only [hb, Bool.not_false, if_true]; exact SimS.refl _
    · rw [e2]; simp only [hb, Bool.not_true, Bool.false_eq_true, if_false]; exact err_err_sim s _

end H5V.Lemmas.XmlTBSplit
