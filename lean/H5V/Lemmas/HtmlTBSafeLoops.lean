import H5V.Lemmas.HtmlTBSafeStack
/-!
# Tree-builder safety, part 4: scope tests and the popping loops

The fuel every caller passes to the popping loops (`open_elems.len() + 1`) suffices: the `fuelOut`
branches are not benign, so the `Sat` statements below exclude them.
-/
namespace H5V.Lemmas.TBSafe
open H5V.Model.HtmlTB
open H5V.Model.Dom (Id QualName Attr NodeOrText SinkOp Output ElementFlags QuirksMode Dom NodeData Node)

variable {al : Allow}

/-! ### `in_scope` -/

/-- `in_scope` on the reversed stack with pure answers -/
def inScopeP (d : Dom) (scope : EName → Bool) (P : Id → Bool) : List Id → Bool
  | [] => false
  | x :: rest => if P x then true else if scope (nm d x) then false else inScopeP d scope P rest

theorem inScopeP_congr {d d' : Dom} {scope : EName → Bool} {P : Id → Bool} :
    ∀ {l : List Id}, (∀ x ∈ l, nm d' x = nm d x) → inScopeP d' scope P l = inScopeP d scope P l := by
  intro l
  induction l with
  | nil => intro _; rfl
  | cons a t ih =>
    intro h
    simp only [inScopeP]
    rw [h a List.mem_cons_self, ih (fun x hx => h x (List.mem_cons_of_mem _ hx))]

/-- a query that answers `P x` -/
def Answers [al : Allow] (pred : Id → M Bool) (P : Id → Bool) (d0 : Dom) (x : Id) : Prop :=
  ∀ s1, Ext d0 s1.dom → Sat (pred x) s1 (fun b s2 => b = P x ∧ QF s1 s2)

theorem sat_inScopeLoop {scope : EName → Bool} {pred : Id → M Bool} {P : Id → Bool} :
    ∀ (l : List Id) (s : State), AllEl s.dom l → (∀ x ∈ l, Answers pred P s.dom x) →
    Sat (inScopeLoop scope pred l) s (fun b s' => b = inScopeP s.dom scope P l ∧ QF s s') := by
  intro l
  induction l with
  | nil => intro s _ _; exact sat_pure ⟨rfl, QF.refl s⟩
  | cons node rest ih =>
    intro s hall hp
    unfold inScopeLoop
    refine (hp node List.mem_cons_self s (Ext.refl _)).bind ?_
    rintro b s1 ⟨rfl, hq1⟩
    by_cases hP : P node = true
    · simp only [hP, if_true]
      exact sat_pure ⟨by simp [inScopeP, hP], hq1⟩
    · simp only [hP, if_false, Bool.false_eq_true]
      refine (sat_elemName ((hall node List.mem_cons_self).ext hq1.ext)).bind ?_
      rintro n s2 ⟨rfl, hq2⟩
      rw [nm_ext hq1.ext (hall node List.mem_cons_self)]
      by_cases hsc : scope (nm s.dom node) = true
      · simp only [hsc, if_true]
        exact sat_pure ⟨by simp [inScopeP, hP, hsc], hq1.trans hq2⟩
      · simp only [hsc, if_false, Bool.false_eq_true]
        have hq := hq1.trans hq2
        have hall' : AllEl s.dom rest := hall.sub (fun x hx => List.mem_cons_of_mem _ hx)
        refine (ih s2 (hall'.ext hq.ext) ?_).mono ?_
        · intro x hx s3 he
          exact hp x (List.mem_cons_of_mem _ hx) s3 (hq.ext.trans he)
        · rintro b s3 ⟨rfl, hq3⟩
          refine ⟨?_, hq.trans hq3⟩
          simp only [inScopeP, hP, hsc, if_false, Bool.false_eq_true]
          exact inScopeP_congr (fun x hx => hall'.nm_eq hq.ext hx)

theorem sat_inScope {scope : EName → Bool} {pred : Id → M Bool} {P : Id → Bool} {s : State}
    (hall : AllEl s.dom s.openElems) (hp : ∀ x ∈ s.openElems, Answers pred P s.dom x) :
    Sat (inScope scope pred) s (fun b s' => b = inScopeP s.dom scope P s.openElems.reverse ∧ QF s s') := by
  unfold inScope
  refine sat_getS_bind ?_
  exact sat_inScopeLoop _ s (hall.sub (fun x hx => List.mem_reverse.mp hx))
    (fun x hx => hp x (List.mem_reverse.mp hx))

/-- `html_elem_named(h, name)` as a predicate on handles -/
def namedP (d : Dom) (name : Str) (h : Id) : Bool := (nm d h).ns == nsHtml && (nm d h).loc == name

theorem answers_named {d : Dom} {name : Str} {x : Id} (hx : IsEl d x) :
    Answers (fun h => htmlElemNamedS h name) (namedP d name) d x := by
  intro s1 he
  refine (sat_htmlElemNamedS (hx.ext he)).mono ?_
  rintro b s2 ⟨rfl, hq⟩
  exact ⟨by unfold namedP; rw [nm_ext he hx], hq⟩

theorem answers_elemIn {d : Dom} {set : EName → Bool} {x : Id} (hx : IsEl d x) :
    Answers (fun h => elemIn h set) (fun h => set (nm d h)) d x := by
  intro s1 he
  refine (sat_elemIn (hx.ext he)).mono ?_
  rintro b s2 ⟨rfl, hq⟩
  exact ⟨by rw [nm_ext he hx], hq⟩

theorem answers_sameNode_left {d : Dom} {node x : Id} :
    Answers (fun n => sameNode node n) (fun n => node == n) d x := fun _ _ => sat_sameNode

theorem answers_sameNode_right {d : Dom} {node x : Id} :
    Answers (fun n => sameNode n node) (fun n => n == node) d x := fun _ _ => sat_sameNode

theorem sat_inScopeNamedS {scope : EName → Bool} {name : Str} {s : State} (hall : AllEl s.dom s.openElems) :
    Sat (inScopeNamedS scope name) s
      (fun b s' => b = inScopeP s.dom scope (namedP s.dom name) s.openElems.reverse ∧ QF s s') := by
  unfold inScopeNamedS
  exact sat_inScope hall (fun x hx => answers_named (hall x hx))

theorem sat_inScopeNamed {scope : EName → Bool} {name : String} {s : State} (hall : AllEl s.dom s.openElems) :
    Sat (inScopeNamed scope name) s
      (fun b s' => b = inScopeP s.dom scope (namedP s.dom name.toList) s.openElems.reverse ∧ QF s s') :=
  sat_inScopeNamedS hall

/-- the element found by a successful scope test: the topmost one satisfying `P`, nothing above it
satisfies `P` or is a scope boundary -/
structure TopSplit (d : Dom) (scope : EName → Bool) (P : Id → Bool) (l pre : List Id) (x : Id) (post : List Id) : Prop where
  eq : l = pre ++ x :: post
  px : P x = true
  above : ∀ y ∈ post, P y = false ∧ scope (nm d y) = false

theorem inScopeP_split_rev {d : Dom} {scope : EName → Bool} {P : Id → Bool} :
    ∀ {r : List Id}, inScopeP d scope P r = true →
      ∃ a x b, r = a ++ x :: b ∧ P x = true ∧ ∀ y ∈ a, P y = false ∧ scope (nm d y) = false := by
  intro r
  induction r with
  | nil => intro h; simp [inScopeP] at h
  | cons z t ih =>
    intro h
    simp only [inScopeP] at h
    by_cases hP : P z = true
    · exact ⟨[], z, t, rfl, hP, by simp⟩
    · simp only [hP, if_false, Bool.false_eq_true] at h
      by_cases hsc : scope (nm d z) = true
      · simp [hsc] at h
      · simp only [hsc, if_false, Bool.false_eq_true] at h
        obtain ⟨a, x, b, rfl, hx, ha⟩ := ih h
        refine ⟨z :: a, x, b, rfl, hx, ?_⟩
        intro y hy
        rcases List.mem_cons.mp hy with rfl | hy
        · exact ⟨by simpa using hP, by simpa using hsc⟩
        · exact ha y hy

theorem inScopeP_split {d : Dom} {scope : EName → Bool} {P : Id → Bool} {l : List Id}
    (h : inScopeP d scope P l.reverse = true) : ∃ pre x post, TopSplit d scope P l pre x post := by
  obtain ⟨a, x, b, hr, hx, ha⟩ := inScopeP_split_rev h
  refine ⟨b.reverse, x, a.reverse, ⟨?_, hx, fun y hy => ha y (List.mem_reverse.mp hy)⟩⟩
  have := congrArg List.reverse hr
  simpa using this

/-! ### `generate_implied_end_tags` -/

theorem sat_generateImpliedEndTagsLoop {set : EName → Bool} : ∀ (fuel : Nat) (s : State),
    AllEl s.dom s.openElems → s.openElems.length < fuel →
    Sat (generateImpliedEndTagsLoop set fuel) s (fun _ s' => ∃ pre post, s.openElems = pre ++ post ∧
      St s s' pre ∧ (∀ h ∈ post, set (nm s.dom h) = true) ∧
      (∀ h, pre.getLast? = some h → set (nm s.dom h) = false)) := by
  intro fuel
  induction fuel with
  | zero => intro s _ h; exact absurd h (Nat.not_lt_zero _)
  | succ fuel ih =>
    intro s hall hlen
    unfold generateImpliedEndTagsLoop
    refine sat_getS_bind ?_
    cases hl : s.openElems.getLast? with
    | none =>
      have : s.openElems = [] := List.getLast?_eq_none_iff.mp hl
      exact sat_pure ⟨[], [], by simp [this], ⟨Fr.refl s, this, rfl⟩, by simp, by simp⟩
    | some elem =>
      simp only
      have hel := hall elem (getLast?_mem hl)
      refine (sat_elemName hel).bind ?_
      rintro n s1 ⟨rfl, hq1⟩
      by_cases hset : set (nm s.dom elem) = true
      · simp only [hset, Bool.not_true, Bool.false_eq_true, if_false]
        have hl1 : s1.openElems.getLast? = some elem := by rw [hq1.openElems]; exact hl
        refine (sat_pop hl1).bind ?_
        rintro _ s2 ⟨-, hst⟩
        have hdl : s.openElems = s.openElems.dropLast ++ [elem] := dropLast_append_getLast hl
        have he2 : Ext s.dom s2.dom := hq1.ext.trans hst.fr.ext
        have hall2 : AllEl s2.dom s2.openElems := by
          rw [hst.openElems, hq1.openElems]
          exact (hall.sub (fun x hx => List.dropLast_subset _ hx)).ext he2
        have hlen2 : s2.openElems.length < fuel := by
          rw [hst.openElems, hq1.openElems, List.length_dropLast]
          have : 0 < s.openElems.length := by rw [hdl]; simp
          omega
        refine (ih s2 hall2 hlen2).mono ?_
        rintro _ s3 ⟨pre, post, heq, hst3, hpost, hpre⟩
        rw [hst.openElems, hq1.openElems] at heq
        have hsub : ∀ x ∈ s.openElems.dropLast, x ∈ s.openElems := fun x hx => List.dropLast_subset _ hx
        have hnm : ∀ x ∈ s.openElems.dropLast, nm s2.dom x = nm s.dom x :=
          fun x hx => (hall.sub hsub).nm_eq he2 hx
        refine ⟨pre, post ++ [elem], by rw [← List.append_assoc, ← heq]; exact hdl, ?_, ?_, ?_⟩
        · exact ⟨hq1.fr.trans (hst.fr.trans hst3.fr), hst3.openElems,
            by rw [hst3.af, hst.af, hq1.activeFormatting]⟩
        · intro h hh
          rcases List.mem_append.mp hh with hh | hh
          · rw [← hnm h (by rw [heq]; exact List.mem_append_right _ hh)]; exact hpost h hh
          · rw [List.mem_singleton.mp hh]; exact hset
        · intro h hh
          rw [← hnm h (by rw [heq]; exact List.mem_append_left _ (getLast?_mem hh))]; exact hpre h hh
      · simp only [hset, Bool.not_false, if_true]
        refine sat_pure ⟨s.openElems, [], by simp, hq1.same, by simp, ?_⟩
        intro h hh
        rw [hl] at hh; cases hh
        simpa using hset

theorem sat_generateImpliedEndTags {set : EName → Bool} {s : State} (hall : AllEl s.dom s.openElems) :
    Sat (generateImpliedEndTags set) s (fun _ s' => ∃ pre post, s.openElems = pre ++ post ∧
      St s s' pre ∧ (∀ h ∈ post, set (nm s.dom h) = true) ∧
      (∀ h, pre.getLast? = some h → set (nm s.dom h) = false)) := by
  unfold generateImpliedEndTags
  exact sat_getS_bind (sat_generateImpliedEndTagsLoop _ s hall (Nat.lt_succ_self _))

/-! ### `pop_until_current` -/

theorem sat_popUntilCurrentLoop {set : EName → Bool} : ∀ (fuel : Nat) (s : State) (pre post : List Id) (x : Id),
    AllEl s.dom s.openElems → s.openElems = pre ++ post → pre.getLast? = some x → set (nm s.dom x) = true →
    (∀ y ∈ post, set (nm s.dom y) = false) → post.length < fuel →
    Sat (popUntilCurrentLoop set fuel) s (fun _ s' => St s s' pre) := by
  intro fuel
  induction fuel with
  | zero => intro s pre post x _ _ _ _ _ h; exact absurd h (Nat.not_lt_zero _)
  | succ fuel ih =>
    intro s pre post x hall heq hx hsx hpost hlen
    unfold popUntilCurrentLoop
    rcases List.eq_nil_or_concat post with rfl | ⟨post0, y, rfl⟩
    · -- the current node is `x`
      have hl : s.openElems.getLast? = some x := by rw [heq]; simpa using hx
      refine (sat_currentNodeIn hl (hall x (getLast?_mem hl))).bind ?_
      rintro b s1 ⟨rfl, hq⟩
      simp only [hsx, if_true]
      exact sat_pure ⟨hq.fr, by rw [hq.openElems, heq]; simp, hq.activeFormatting⟩
    · have hl : s.openElems.getLast? = some y := by
        rw [heq, List.concat_eq_append, ← List.append_assoc]; simp
      refine (sat_currentNodeIn hl (hall y (getLast?_mem hl))).bind ?_
      rintro b s1 ⟨rfl, hq⟩
      have hy : set (nm s.dom y) = false := hpost y (by simp)
      simp only [hy, if_false, Bool.false_eq_true]
      have hl1 : s1.openElems.getLast? = some y := by rw [hq.openElems]; exact hl
      refine (sat_popSilently_some hl1).bind ?_
      rintro r s2 ⟨rfl, rfl⟩
      have hdrop : s1.openElems.dropLast = pre ++ post0 := by
        rw [hq.openElems, heq, List.concat_eq_append, ← List.append_assoc, List.dropLast_concat]
      have hallp : AllEl s.dom (pre ++ post0) := hall.sub (fun z hz => by
        rw [heq, List.concat_eq_append, ← List.append_assoc]; exact List.mem_append_left _ hz)
      refine (ih { s1 with openElems := s1.openElems.dropLast } pre post0 x ?_ hdrop hx ?_ ?_ ?_).mono ?_
      · show AllEl s1.dom s1.openElems.dropLast
        rw [hdrop]; exact hallp.ext hq.ext
      · show set (nm s1.dom x) = true
        rw [hallp.nm_eq hq.ext (List.mem_append_left _ (getLast?_mem hx))]; exact hsx
      · intro z hz
        show set (nm s1.dom z) = false
        rw [hallp.nm_eq hq.ext (List.mem_append_right _ hz)]
        exact hpost z (by simp [hz])
      · simp at hlen; omega
      · intro _ s3 hst
        exact ⟨hq.fr.trans ((st_dropLast s1).fr.trans hst.fr), hst.openElems,
          by rw [hst.af]; exact hq.activeFormatting⟩

/-- split a list at the last element satisfying `p` -/
theorem split_last_sat {p : Id → Bool} : ∀ {l : List Id}, (∃ x ∈ l, p x = true) →
    ∃ pre post x, l = pre ++ post ∧ pre.getLast? = some x ∧ p x = true ∧ ∀ y ∈ post, p y = false := by
  intro l
  induction l with
  | nil => rintro ⟨x, hx, _⟩; simp at hx
  | cons a t ih =>
    rintro ⟨x, hx, hp⟩
    by_cases ht : ∃ y ∈ t, p y = true
    · obtain ⟨pre, post, y, rfl, hy, hpy, hpost⟩ := ih ht
      refine ⟨a :: pre, post, y, rfl, ?_, hpy, hpost⟩
      have hne : pre ≠ [] := by intro e; subst e; simp at hy
      rw [List.getLast?_cons_of_ne_nil hne]; exact hy
    · have hall : ∀ y ∈ t, p y = false := by
        intro y hy
        cases hpy : p y with
        | false => rfl
        | true => exact absurd ⟨y, hy, hpy⟩ ht
      have hxa : x = a := by
        rcases List.mem_cons.mp hx with h | h
        · exact h
        · rw [hall x h] at hp; cases hp
      subst hxa
      exact ⟨[x], t, x, rfl, rfl, hp, hall⟩

theorem sat_popUntilCurrent {set : EName → Bool} {s : State} (hall : AllEl s.dom s.openElems)
    (hex : ∃ x ∈ s.openElems, set (nm s.dom x) = true) :
    Sat (popUntilCurrent set) s (fun _ s' => ∃ pre post x, s.openElems = pre ++ post ∧ St s s' pre ∧
      pre.getLast? = some x ∧ set (nm s.dom x) = true ∧ ∀ y ∈ post, set (nm s.dom y) = false) := by
  unfold popUntilCurrent
  refine sat_getS_bind ?_
  obtain ⟨pre, post, x, heq, hx, hsx, hpost⟩ := split_last_sat (p := fun h => set (nm s.dom h)) hex
  refine (sat_popUntilCurrentLoop _ s pre post x hall heq hx hsx hpost ?_).mono ?_
  · rw [heq]; simp; omega
  · intro _ s' hst; exact ⟨pre, post, x, heq, hst, hx, hsx, hpost⟩

/-! ### `pop_until` -/

theorem sat_popUntilLoop {pred : EName → Bool} : ∀ (fuel : Nat) (s : State) (n : Nat) (pre post : List Id) (x : Id),
    AllEl s.dom s.openElems → s.openElems = pre ++ x :: post → pred (nm s.dom x) = true →
    (∀ y ∈ post, pred (nm s.dom y) = false) → post.length < fuel →
    Sat (popUntilLoop pred fuel n) s (fun r s' => St s s' pre ∧ r = n + post.length + 1) := by
  intro fuel
  induction fuel with
  | zero => intro s n pre post x _ _ _ _ h; exact absurd h (Nat.not_lt_zero _)
  | succ fuel ih =>
    intro s n pre post x hall heq hpx hpost hlen
    unfold popUntilLoop
    rcases List.eq_nil_or_concat post with rfl | ⟨post0, y, rfl⟩
    · have hl : s.openElems.getLast? = some x := by rw [heq]; simp
      refine (sat_popSilently_some hl).bind ?_
      rintro r s1 ⟨rfl, rfl⟩
      simp only
      have hx : IsEl s.dom x := hall x (getLast?_mem hl)
      refine (sat_elemName (s := { s with openElems := s.openElems.dropLast }) hx).bind ?_
      rintro nn s2 ⟨rfl, hq⟩
      show Sat (if pred (nm s.dom x) = true then _ else _) s2 _
      simp only [hpx, if_true]
      refine sat_pure ⟨?_, by simp⟩
      refine ⟨(st_dropLast s).fr.trans hq.fr, ?_, hq.activeFormatting⟩
      rw [hq.openElems]; show s.openElems.dropLast = pre
      rw [heq]; simp
    · have hl : s.openElems.getLast? = some y := by
        have : s.openElems = (pre ++ x :: post0) ++ [y] := by rw [heq]; simp
        rw [this]; exact List.getLast?_concat
      refine (sat_popSilently_some hl).bind ?_
      rintro r s1 ⟨rfl, rfl⟩
      simp only
      have hy : IsEl s.dom y := hall y (getLast?_mem hl)
      refine (sat_elemName (s := { s with openElems := s.openElems.dropLast }) hy).bind ?_
      rintro nn s2 ⟨rfl, hq⟩
      show Sat (if pred (nm s.dom y) = true then _ else _) s2 _
      have hpy : pred (nm s.dom y) = false := hpost y (by simp)
      simp only [hpy, if_false, Bool.false_eq_true]
      have hdrop : s.openElems.dropLast = pre ++ x :: post0 := by
        rw [heq, List.concat_eq_append, ← List.cons_append, ← List.append_assoc, List.dropLast_concat]
      have hallp : AllEl s.dom (pre ++ x :: post0) := hall.sub (fun z hz => by
        rw [heq, List.concat_eq_append, ← List.cons_append, ← List.append_assoc]
        exact List.mem_append_left _ hz)
      have hopen2 : s2.openElems = pre ++ x :: post0 := by rw [hq.openElems]; exact hdrop
      refine (ih s2 (n + 1) pre post0 x ?_ hopen2 ?_ ?_ ?_).mono ?_
      · rw [hopen2]; exact hallp.ext hq.ext
      · rw [hallp.nm_eq hq.ext (by simp)]; exact hpx
      · intro z hz
        rw [hallp.nm_eq hq.ext (by simp [hz])]
        exact hpost z (by simp [hz])
      · simp at hlen; omega
      · rintro r s3 ⟨hst, rfl⟩
        refine ⟨⟨(st_dropLast s).fr.trans (hq.fr.trans hst.fr), hst.openElems, ?_⟩, by simp; omega⟩
        rw [hst.af]; exact hq.activeFormatting

theorem sat_popUntil {pred : EName → Bool} {s : State} {pre post : List Id} {x : Id}
    (hall : AllEl s.dom s.openElems) (heq : s.openElems = pre ++ x :: post) (hpx : pred (nm s.dom x) = true)
    (hpost : ∀ y ∈ post, pred (nm s.dom y) = false) :
    Sat (popUntil pred) s (fun r s' => St s s' pre ∧ r = post.length + 1) := by
  unfold popUntil
  refine sat_getS_bind ?_
  refine (sat_popUntilLoop _ s 0 pre post x hall heq hpx hpost ?_).mono ?_
  · rw [heq]; simp; omega
  · rintro r s' ⟨h1, h2⟩; exact ⟨h1, by omega⟩

theorem sat_popUntilNamedS {name : Str} {s : State} {pre post : List Id} {x : Id}
    (hall : AllEl s.dom s.openElems) (heq : s.openElems = pre ++ x :: post) (hpx : namedP s.dom name x = true)
    (hpost : ∀ y ∈ post, namedP s.dom name y = false) :
    Sat (popUntilNamedS name) s (fun r s' => St s s' pre ∧ r = post.length + 1) := by
  unfold popUntilNamedS
  exact sat_popUntil hall heq hpx hpost

theorem sat_expectToCloseS {name : Str} {s : State} {pre post : List Id} {x : Id}
    (hall : AllEl s.dom s.openElems) (heq : s.openElems = pre ++ x :: post) (hpx : namedP s.dom name x = true)
    (hpost : ∀ y ∈ post, namedP s.dom name y = false) :
    Sat (expectToCloseS name) s (fun _ s' => St s s' pre) := by
  unfold expectToCloseS
  refine (sat_popUntilNamedS hall heq hpx hpost).bind ?_
  rintro r s1 ⟨hst, _⟩
  split
  · exact sat_parseError.mono (fun _ s2 hq => hst.same_right hq.same)
  · exact sat_pure hst

/-! ### `remove_from_stack` -/

/-- `iter().rposition(p)` on the reversed list -/
def rposL (P : Id → Bool) : List Id → Nat → Option Nat
  | [], _ => none
  | x :: rest, len => if P x then some (len - 1) else rposL P rest (len - 1)

theorem sat_rpositionLoop {p : Id → M Bool} {P : Id → Bool} : ∀ (l : List Id) (n : Nat) (s : State),
    (∀ x ∈ l, Answers p P s.dom x) →
    Sat (rpositionLoop p l n) s (fun r s' => r = rposL P l n ∧ QF s s') := by
  intro l
  induction l with
  | nil => intro n s _; exact sat_pure ⟨rfl, QF.refl s⟩
  | cons x rest ih =>
    intro n s hp
    unfold rpositionLoop
    refine (hp x List.mem_cons_self s (Ext.refl _)).bind ?_
    rintro b s1 ⟨rfl, hq⟩
    by_cases hP : P x = true
    · simp only [hP, if_true]; exact sat_pure ⟨by simp [rposL, hP], hq⟩
    · simp only [hP, if_false, Bool.false_eq_true]
      refine (ih (n - 1) s1 (fun y hy s2 he => hp y (List.mem_cons_of_mem _ hy) s2 (hq.ext.trans he))).mono ?_
      rintro r s2 ⟨rfl, hq2⟩
      exact ⟨by simp [rposL, hP], hq.trans hq2⟩

theorem sat_rposition {p : Id → M Bool} {P : Id → Bool} {s : State}
    (hp : ∀ x ∈ s.openElems, Answers p P s.dom x) :
    Sat (rposition p) s (fun r s' => r = rposL P s.openElems.reverse s.openElems.length ∧ QF s s') := by
  unfold rposition
  exact sat_getS_bind (sat_rpositionLoop _ _ s (fun x hx => hp x (List.mem_reverse.mp hx)))

theorem rposL_rev {P : Id → Bool} : ∀ (r : List Id) (n : Nat), n = r.length →
    (rposL P r n = none ∧ ∀ x ∈ r, P x = false) ∨
    (∃ a x b, r = a ++ x :: b ∧ rposL P r n = some b.length ∧ P x = true ∧ ∀ y ∈ a, P y = false) := by
  intro r
  induction r with
  | nil => intro n _; exact Or.inl ⟨rfl, by simp⟩
  | cons z t ih =>
    intro n hn
    by_cases hP : P z = true
    · refine Or.inr ⟨[], z, t, rfl, ?_, hP, by simp⟩
      simp [rposL, hP, hn]
    · rcases ih (n - 1) (by simp [hn]) with ⟨h1, h2⟩ | ⟨a, x, b, rfl, h1, h2, h3⟩
      · refine Or.inl ⟨by simp [rposL, hP, h1], ?_⟩
        intro y hy
        rcases List.mem_cons.mp hy with rfl | hy
        · simpa using hP
        · exact h2 y hy
      · refine Or.inr ⟨z :: a, x, b, rfl, by simp [rposL, hP, h1], h2, ?_⟩
        intro y hy
        rcases List.mem_cons.mp hy with rfl | hy
        · simpa using hP
        · exact h3 y hy

/-- the answer of `rposition`: `none` and nothing satisfies `P`, or the index of the last element
satisfying `P` -/
theorem rposL_spec {P : Id → Bool} (l : List Id) :
    (rposL P l.reverse l.length = none ∧ ∀ x ∈ l, P x = false) ∨
    (∃ pre x post, l = pre ++ x :: post ∧ rposL P l.reverse l.length = some pre.length ∧ P x = true ∧
      ∀ y ∈ post, P y = false) := by
  rcases rposL_rev (P := P) l.reverse l.length (by simp) with ⟨h1, h2⟩ | ⟨a, x, b, hr, h1, h2, h3⟩
  · exact Or.inl ⟨h1, fun x hx => h2 x (List.mem_reverse.mpr hx)⟩
  · refine Or.inr ⟨b.reverse, x, a.reverse, ?_, by simpa using h1, h2, fun y hy => h3 y (List.mem_reverse.mp hy)⟩
    have := congrArg List.reverse hr
    simpa using this

theorem eraseIdx_append_cons (pre : List Id) (x : Id) (post : List Id) :
    (pre ++ x :: post).eraseIdx pre.length = pre ++ post := by
  induction pre with
  | nil => rfl
  | cons a t ih => simp [ih]

theorem sat_removeFromStack {elem : Id} {s : State} :
    Sat (removeFromStack elem) s (fun _ s' =>
      (elem ∉ s.openElems ∧ Same s s') ∨
      (∃ pre post, s.openElems = pre ++ elem :: post ∧ elem ∉ post ∧ St s s' (pre ++ post))) := by
  unfold removeFromStack
  refine (sat_rposition (P := fun x => elem == x) (fun x _ => answers_sameNode_left)).bind ?_
  rintro r s1 ⟨rfl, hq⟩
  rcases rposL_spec (P := fun x => elem == x) s.openElems with ⟨h1, h2⟩ | ⟨pre, x, post, heq, h1, h2, h3⟩
  · rw [h1]
    refine sat_pure (Or.inl ⟨?_, hq.same⟩)
    intro hmem
    have := h2 elem hmem
    simp at this
  · rw [h1]
    simp only
    have hx : x = elem := by simpa using (beq_iff_eq.mp h2).symm
    subst hx
    refine sat_modS_bind ?_
    refine (sat_sinkUnit_total ⟨_, _, apply_pop _ _⟩).mono ?_
    intro _ s2 hq2
    refine Or.inr ⟨pre, post, heq, ?_, ?_⟩
    · intro hm; have := h3 x hm; simp at this
    · refine ⟨hq.fr.trans ?_, ?_, ?_⟩
      · exact ⟨hq2.mode, hq2.origMode, hq2.templateModes, hq2.pendingTableText, hq2.headElem, hq2.formElem,
          hq2.contextElem, hq2.docHandle, hq2.opts, hq2.ext⟩
      · rw [hq2.openElems]
        show s1.openElems.eraseIdx pre.length = pre ++ post
        rw [hq.openElems, heq, eraseIdx_append_cons]
      · rw [hq2.activeFormatting]; exact hq.activeFormatting

/-! ### `check_body_end`, `body_elem` -/

theorem sat_checkBodyEndLoop : ∀ (l : List Id) (s : State), AllEl s.dom l →
    Sat (checkBodyEndLoop l) s (fun _ s' => QF s s') := by
  intro l
  induction l with
  | nil => intro s _; exact sat_pure (QF.refl s)
  | cons e rest ih =>
    intro s hall
    unfold checkBodyEndLoop
    refine (sat_elemName (hall e List.mem_cons_self)).bind ?_
    rintro n s1 ⟨rfl, hq⟩
    split
    · exact (ih s1 ((hall.sub (fun x hx => List.mem_cons_of_mem _ hx)).ext hq.ext)).mono
        (fun _ s2 h2 => hq.trans h2)
    · exact sat_parseError.mono (fun _ s2 h2 => hq.trans h2)

theorem sat_checkBodyEnd {s : State} (hall : AllEl s.dom s.openElems) :
    Sat checkBodyEnd s (fun _ s' => QF s s') := by
  unfold checkBodyEnd
  exact sat_getS_bind (sat_checkBodyEndLoop _ s hall)

theorem sat_bodyElem {s : State} (hall : AllEl s.dom s.openElems) :
    Sat bodyElem s (fun r s' => QF s s' ∧ ∀ b, r = some b → s.openElems[1]? = some b ∧
      nm s.dom b = ⟨nsHtml, "body".toList⟩) := by
  unfold bodyElem
  refine sat_getS_bind ?_
  split
  · exact sat_pure ⟨QF.refl s, by simp⟩
  · cases h1 : s.openElems[1]? with
    | none => exact sat_pure ⟨QF.refl s, by simp⟩
    | some node =>
      simp only
      have hmem : node ∈ s.openElems := List.mem_of_getElem? h1
      refine (sat_htmlElemNamed (hall node hmem)).bind ?_
      rintro b s1 ⟨rfl, hq⟩
      split
      · rename_i hb
        refine sat_pure ⟨hq, ?_⟩
        intro b hb'
        cases hb'
        refine ⟨rfl, ?_⟩
        simp only [Bool.and_eq_true, beq_iff_eq] at hb
        cases hn : nm s.dom node with
        | mk ns loc => rw [hn] at hb; simp at hb; rw [hb.1, hb.2]; rfl
      · exact sat_pure ⟨hq, by simp⟩

end H5V.Lemmas.TBSafe
