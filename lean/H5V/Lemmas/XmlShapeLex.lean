import H5V.Lemmas.XmlRTCheck
import H5V.Lemmas.XmlTokCleanRun
/-!
C17, shape of parsed trees, part 4 (tokenizer side): the lexical invariant of the XML tokenizer model —
definitions and the `go!` helpers.

`TokA t` — the lexical clauses that hold for EVERY token the tokenizer model emits, whatever the input:
* a start / empty tag has a name `process_qname raw` with `TagNameLex raw` (non-empty; first character none
  of TAB LF SPACE `/` `>` CR NUL `!` `?` `:` `<`, the others none of TAB LF SPACE `/` `>` CR NUL);
* every attribute has a name `process_qname raw` with `ANameA raw` (non-empty; first character a name
  character — possibly `:` or `=` —, the others name characters different from `=`); the attribute names of
  a tag are pairwise distinct;
* a PI has a non-empty target whose characters are no blanks and (after the first) no `?`, and data without `?`;
* the characters of a doctype name are `DtCh` (no blank, `>`, CR, NUL, ASCII capital);
* a comment text is `GtScanP`: every `>` in it stands where the tokenizer does not end a comment (not at the
  start, not after a single leading `-`, not after `--` or `--!`);
* a character token is not empty.
(No CR / NUL in names, comments, PIs, doctype names and no NUL in attribute values / character tokens is
C15's `CleanP NN`, proved separately.)

`LexE m` — the part of the invariant that does not depend on the comment states: the clauses above for the
token log and for the registers a later token is built from (`LexG`, state-independent), plus (`ModeOK`):
inside a start tag the kind is start / empty and the name register satisfies `TagNameLex`; inside an end
tag the kind is end; inside a PI the target register is not empty.  The comment states are
`XmlShapeCmt.lean`; the tables `XmlShapeLexTab.lean`; `step` / `run` / `feed` / `end` `XmlShapeLexRun.lean`.
-/
namespace H5V.Lemmas.XmlShapeLex
open H5V.Model.XmlTok H5V.Lemmas.XmlRT

/-! ### predicates -/

/-- a raw attribute name as `create_attr` / `push_name` build it -/
def ANameA (s : Str) : Prop := ∃ c t, s = c :: t ∧ NmCh c ∧ ∀ d ∈ t, NmCh d ∧ d ≠ '='

def ANameBuf (s : Str) : Prop := s = [] ∨ ANameA s

def AttrA (a : Attr) : Prop := ∃ raw, a.name = processQName raw ∧ ANameA raw

def TagA (t : Tag) : Prop :=
  ((t.kind = .startTag ∨ t.kind = .emptyTag) → ∃ raw, t.name = processQName raw ∧ TagNameLex raw) ∧
  (∀ a ∈ t.attrs, AttrA a) ∧ (t.attrs.map (·.name)).Nodup

/-- a PI target as `create_pi` / `push_pi_target` build it -/
def PiTA (t : Str) : Prop := ∃ c t', t = c :: t' ∧ NoWs3 c ∧ ∀ x ∈ t', NoWs3 x ∧ x ≠ '?'

def DtI (d : Doctype) : Prop := ∀ s, d.name = some s → ∀ x ∈ s, DtCh x

/-- every `>` inside the comment text stands where the tokenizer does not end the comment -/
def GtScanP (s : Str) : Prop := ∀ p t, s = p ++ '>' :: t → GtOk p

/-- what holds for every emitted token -/
def TokA : Token → Prop
  | .tag t => TagA t
  | .pi t d => PiTA t ∧ ∀ x ∈ d, x ≠ '?'
  | .doctype d => DtI d
  | .chars s => s ≠ []
  | .comment s => GtScanP s
  | .eof => True
  | .error _ => True

inductive Mode | other | stag | etag | pi
deriving DecidableEq, Repr

def modeOf : State → Mode
  | .tagName | .tagEmpty | .tagAttrNameBefore | .tagAttrName | .tagAttrNameAfter | .tagAttrValueBefore
  | .tagAttrValue _ => .stag
  | .endTagName | .endTagNameAfter => .etag
  | .piTarget | .piTargetAfter | .piData | .piAfter => .pi
  | _ => .other

def ModeOK : Mode → Mach → Prop
  | .other, _ => True
  | .stag, m => (m.tagKind = .startTag ∨ m.tagKind = .emptyTag) ∧ TagNameLex m.tagName
  | .etag, m => m.tagKind = .endTag
  | .pi, m => m.piTarget ≠ []

/-- the state-independent part -/
structure LexG (m : Mach) : Prop where
  out : ∀ t ∈ m.out, TokA t
  aname : ANameBuf m.attrName
  attrs : ∀ a ∈ m.tagAttrs, AttrA a
  nodup : (m.tagAttrs.map (·.name)).Nodup
  piT : m.piTarget = [] ∨ PiTA m.piTarget
  piD : ∀ x ∈ m.piData, x ≠ '?'
  dt : DtI m.doctype
  scan : GtScanP m.comment

def LexE (m : Mach) : Prop := LexG m ∧ ModeOK (modeOf m.state) m

/-! ### character facts -/

theorem tagNameLex_snoc {s : Str} {c : Char} (h : TagNameLex s) (hc : NmCh c) : TagNameLex (s ++ [c]) := by
  obtain ⟨a, t, rfl, h1, h2, h3⟩ := h
  refine ⟨a, t ++ [c], rfl, h1, h2, ?_⟩
  intro d hd
  rcases List.mem_append.mp hd with hd | hd
  · exact h3 d hd
  · simp only [List.mem_singleton] at hd; subst hd; exact hc

theorem aNameBuf_snoc {s : Str} {c : Char} (h : ANameBuf s) (hc : NmCh c) (he : c ≠ '=') : ANameBuf (s ++ [c]) := by
  rcases h with rfl | ⟨a, t, rfl, h1, h2⟩
  · exact Or.inr ⟨c, [], rfl, hc, by simp⟩
  · refine Or.inr ⟨a, t ++ [c], rfl, h1, ?_⟩
    intro d hd
    rcases List.mem_append.mp hd with hd | hd
    · exact h2 d hd
    · simp only [List.mem_singleton] at hd; subst hd; exact ⟨hc, he⟩

theorem piTA_snoc {s : Str} {c : Char} (h : s = [] ∨ PiTA s) (hc : NoWs3 c) (hq : s ≠ [] → c ≠ '?') :
    PiTA (s ++ [c]) := by
  rcases h with rfl | ⟨a, t, rfl, h1, h2⟩
  · exact ⟨c, [], rfl, hc, by simp⟩
  · refine ⟨a, t ++ [c], rfl, h1, ?_⟩
    intro d hd
    rcases List.mem_append.mp hd with hd | hd
    · exact h2 d hd
    · simp only [List.mem_singleton] at hd; subst hd; exact ⟨hc, hq (by simp)⟩

theorem lower_ne {c x : Char} (hx : toAsciiLower x = x) (h : c ≠ x) (hxl : ¬ ('a' ≤ x ∧ x ≤ 'z')) :
    toAsciiLower c ≠ x := by
  unfold toAsciiLower
  split
  · rename_i h1
    intro e
    apply hxl
    simp only [char_le_iff, Char.reduceToNat] at h1 ⊢
    have hv : (c.toNat + 32).isValidChar := by left; omega
    have e2 := toNat_ofNat_valid _ hv
    rw [e] at e2
    omega
  · exact h

theorem lower_idem (c : Char) : toAsciiLower (toAsciiLower c) = toAsciiLower c := by
  unfold toAsciiLower
  split
  · rename_i h1
    simp only [char_le_iff, Char.reduceToNat] at h1
    have hv : (c.toNat + 32).isValidChar := by left; omega
    have e2 := toNat_ofNat_valid _ hv
    have : ¬ ('A' ≤ Char.ofNat (c.toNat + 32) ∧ Char.ofNat (c.toNat + 32) ≤ 'Z') := by
      simp only [char_le_iff, Char.reduceToNat, e2]; omega
    simp [this]
  · rename_i h1; simp [h1]

theorem dtCh_lower {c : Char} (hq : QC c) (h1 : c ≠ '\t') (h2 : c ≠ '\n') (h3 : c ≠ '\x0c') (h4 : c ≠ ' ')
    (h5 : c ≠ '>') : DtCh (toAsciiLower c) :=
  ⟨lower_ne (by decide) h1 (by decide), lower_ne (by decide) h2 (by decide), lower_ne (by decide) h3 (by decide),
   lower_ne (by decide) h4 (by decide), lower_ne (by decide) h5 (by decide), lower_ne (by decide) hq.1 (by decide),
   lower_ne (by decide) hq.2 (by decide), lower_idem c⟩

/-! ### comment texts -/

theorem gtScan_nil : GtScanP [] := by
  intro p t e; cases p <;> cases e

theorem split_snoc {p' t' : Str} {c : Char} {s : Str} (e : s ++ [c] = p' ++ '>' :: t') :
    (t' = [] ∧ c = '>' ∧ s = p') ∨ ∃ t'', t' = t'' ++ [c] ∧ s = p' ++ '>' :: t'' := by
  rcases List.eq_nil_or_concat t' with rfl | ⟨t'', x, e0⟩
  · left
    have : s ++ [c] = p' ++ ['>'] := e
    have h := List.append_inj' this rfl
    exact ⟨rfl, by simpa using h.2, h.1⟩
  · right
    rw [List.concat_eq_append] at e0; subst e0
    have : s ++ [c] = (p' ++ '>' :: t'') ++ [x] := by simpa using e
    have h := List.append_inj' this rfl
    have hx : c = x := by simpa using h.2
    subst hx
    exact ⟨t'', rfl, h.1⟩

theorem gtScan_snoc_ne {s : Str} {c : Char} (h : GtScanP s) (hc : c ≠ '>') : GtScanP (s ++ [c]) := by
  intro p t e
  rcases split_snoc e with ⟨_, h2, _⟩ | ⟨t'', _, h2⟩
  · exact absurd h2 hc
  · exact h p t'' h2

theorem gtScan_snoc_gt {s : Str} (h : GtScanP s) (hg : GtOk s) : GtScanP (s ++ ['>']) := by
  intro p t e
  rcases split_snoc e with ⟨_, _, h3⟩ | ⟨t'', _, h2⟩
  · rw [← h3]; exact hg
  · exact h p t'' h2

theorem gtScan_append {s u : Str} (h : GtScanP s) (hu : ∀ c ∈ u, c ≠ '>') : GtScanP (s ++ u) := by
  induction u generalizing s with
  | nil => simpa using h
  | cons c r ih =>
    have := ih (gtScan_snoc_ne h (hu c (by simp))) (fun x hx => hu x (by simp [hx]))
    simpa using this

/-- the text ends with `u` -/
theorem ends_snoc {u p : Str} {a c : Char} : (u ++ [a]) <:+ (p ++ [c]) ↔ a = c ∧ u <:+ p := by
  rw [← List.reverse_prefix, ← List.reverse_prefix]
  simp [List.cons_prefix_cons]

theorem ends_nil_snoc {a : Char} {u : Str} : ¬ (u ++ [a]) <:+ ([] : Str) := by
  intro h
  have := List.IsSuffix.length_le h
  simp at this

theorem getLast_snoc (p : Str) (c : Char) : (p ++ [c]).getLast? = some c := by simp

/-- in the comment state, nothing pending: the text is not empty, does not end with `-`, nor with `--!` -/
def CW (p : Str) : Prop := p ≠ [] ∧ p.getLast? ≠ some '-' ∧ ¬ ['-', '-', '!'] <:+ p

/-- what the comment state needs to know about the text when it is about to see `c` -/
def CR (p : Str) (c : Char) : Prop :=
  (c = '>' → GtOk p) ∧ (c = '-' → p ≠ [] ∧ p.getLast? ≠ some '-') ∧ (c = '!' → ¬ ['-', '-'] <:+ p)

theorem last_of_ends {p : Str} {u : Str} {a : Char} (h : (u ++ [a]) <:+ p) : p.getLast? = some a := by
  obtain ⟨t, rfl⟩ := h
  rw [← List.append_assoc]; simp

theorem gtOk_of_CW {p : Str} (h : CW p) : GtOk p := by
  obtain ⟨h1, h2, h3⟩ := h
  refine ⟨h1, ?_, ?_, h3⟩
  · intro e; rw [e] at h2; exact h2 rfl
  · intro e
    exact h2 (last_of_ends (u := ['-']) e)

theorem CR_of_CW {p : Str} (h : CW p) (c : Char) : CR p c :=
  ⟨fun _ => gtOk_of_CW h, fun _ => ⟨h.1, h.2.1⟩, fun _ e => h.2.1 (last_of_ends (u := ['-']) e)⟩

/-- the comment state pushes `c` (not `<`, not `-`) -/
theorem CW_push {p : Str} {c : Char} (h : CR p c) (h2 : c ≠ '-') : CW (p ++ [c]) := by
  refine ⟨by simp, by rw [getLast_snoc]; intro e; injection e with e; exact h2 e, ?_⟩
  intro e
  have e' : (['-', '-'] ++ ['!']) <:+ (p ++ [c]) := e
  rw [ends_snoc] at e'
  exact h.2.2 e'.1.symm e'.2

theorem gtOk_snoc {p : Str} {c : Char} (hc : c ≠ '-') (hb : c ≠ '!') : GtOk (p ++ [c]) := by
  refine ⟨by simp, ?_, ?_, ?_⟩
  · intro e
    have := congrArg List.getLast? e
    rw [getLast_snoc] at this
    injection this with this; exact hc this
  · intro e
    have e' : (['-'] ++ ['-']) <:+ (p ++ [c]) := e
    rw [ends_snoc] at e'; exact hc e'.1.symm
  · intro e
    have e' : (['-', '-'] ++ ['!']) <:+ (p ++ [c]) := e
    rw [ends_snoc] at e'; exact hb e'.1.symm

/-! ### the helpers: state-independent part -/

section helpers
variable {m : Mach}

macro "lg_same" h:ident : tactic =>
  `(tactic| exact ⟨($h).out, ($h).aname, ($h).attrs, ($h).nodup, ($h).piT, ($h).piD, ($h).dt, ($h).scan⟩)

theorem LexG_to (h : LexG m) (s : State) : LexG (to s m) := by lg_same h
theorem LexG_reconsumeTo (h : LexG m) (s : State) : LexG (reconsumeTo s m) := by lg_same h
theorem LexG_setEmptyTag (h : LexG m) : LexG (setEmptyTag m) := by lg_same h
theorem LexG_consumeCharRef (h : LexG m) (x : Option Char) : LexG (consumeCharRef x m) := by lg_same h
theorem LexG_setTagKind (h : LexG m) (k : TagKind) : LexG { m with tagKind := k } := by lg_same h
theorem LexG_pushTag (h : LexG m) (c : Char) : LexG (pushTag c m) := by lg_same h
theorem LexG_pushValue (h : LexG m) (c : Char) : LexG (pushValue c m) := by lg_same h
theorem LexG_appendValue (h : LexG m) (s : Str) : LexG (appendValue s m) := by lg_same h
theorem LexG_pushComment (h : LexG m) {c : Char} (hc : c ≠ '>' ∨ GtOk m.comment) : LexG (pushComment c m) :=
  ⟨h.out, h.aname, h.attrs, h.nodup, h.piT, h.piD, h.dt, by
    show GtScanP (m.comment ++ [c])
    by_cases e : c = '>'
    · subst e
      rcases hc with hc | hc
      · exact absurd rfl hc
      · exact gtScan_snoc_gt h.scan hc
    · exact gtScan_snoc_ne h.scan e⟩
theorem LexG_appendComment (h : LexG m) (s : String) (hs : ∀ c ∈ s.toList, c ≠ '>') : LexG (appendComment s m) :=
  ⟨h.out, h.aname, h.attrs, h.nodup, h.piT, h.piD, h.dt, gtScan_append h.scan hs⟩
theorem LexG_clearComment (h : LexG m) : LexG (clearComment m) :=
  ⟨h.out, h.aname, h.attrs, h.nodup, h.piT, h.piD, h.dt, gtScan_nil⟩

theorem LexG_emit (h : LexG m) {t : Token} (ht : TokA t) : LexG (emit m t) :=
  ⟨(by intro x hx; rcases List.mem_cons.mp hx with rfl | hx; exact ht; exact h.out x hx),
   h.aname, h.attrs, h.nodup, h.piT, h.piD, h.dt, h.scan⟩
theorem LexG_emitErr (h : LexG m) (s : String) : LexG (emitErr m s) := LexG_emit h trivial
theorem LexG_badChar (h : LexG m) (o : Opts) : LexG (badChar o m) := by
  unfold badChar; split
  · exact LexG_emit h trivial
  · exact LexG_emitErr h _
theorem LexG_badEof (h : LexG m) (o : Opts) : LexG (badEof o m) := by
  unfold badEof; split <;> exact LexG_emitErr h _
theorem LexG_emitChar (h : LexG m) (c : Char) : LexG (emitChar m c) := LexG_emit h (by simp [TokA])
theorem LexG_emitChars (h : LexG m) {s : Str} (hs : s ≠ []) : LexG (emitChars m s) := LexG_emit h hs
theorem LexG_emitComment (h : LexG m) : LexG (emitComment m) :=
  ⟨(by intro x hx; rcases List.mem_cons.mp hx with rfl | hx; exact h.scan; exact h.out x hx),
   h.aname, h.attrs, h.nodup, h.piT, h.piD, h.dt, gtScan_nil⟩

theorem LexG_discardTag (h : LexG m) : LexG (discardTag m) :=
  ⟨h.out, h.aname, (fun _ hh => nomatch hh), List.nodup_nil, h.piT, h.piD, h.dt, h.scan⟩
theorem LexG_createTag (h : LexG m) (k : TagKind) (c : Char) : LexG (createTag k c m) :=
  ⟨h.out, h.aname, (fun _ hh => nomatch hh), List.nodup_nil, h.piT, h.piD, h.dt, h.scan⟩

theorem LexG_createPi (h : LexG m) {c : Char} (hc : NoWs3 c) : LexG (createPi c m) :=
  ⟨h.out, h.aname, h.attrs, h.nodup, Or.inr ⟨c, [], rfl, hc, (by simp)⟩, (fun _ hh => nomatch hh), h.dt, h.scan⟩
theorem LexG_pushPiTarget (h : LexG m) {c : Char} (hc : NoWs3 c) (hq : c ≠ '?') : LexG (pushPiTarget c m) :=
  ⟨h.out, h.aname, h.attrs, h.nodup, Or.inr (piTA_snoc h.piT hc (fun _ => hq)), h.piD, h.dt, h.scan⟩
theorem LexG_pushPiData (h : LexG m) {c : Char} (hq : c ≠ '?') : LexG (pushPiData c m) :=
  ⟨h.out, h.aname, h.attrs, h.nodup, h.piT, (by
    intro x hx
    rcases List.mem_append.mp hx with hx | hx
    · exact h.piD x hx
    · simp only [List.mem_singleton] at hx; subst hx; exact hq), h.dt, h.scan⟩
theorem LexG_emitPi (h : LexG m) (hp : m.piTarget ≠ []) : LexG (emitPi m) :=
  ⟨(by
    intro x hx
    rcases List.mem_cons.mp hx with rfl | hx
    · rcases h.piT with e | e
      · exact absurd e hp
      · exact ⟨e, h.piD⟩
    · exact h.out x hx),
   h.aname, h.attrs, h.nodup, Or.inl rfl, (fun _ hh => nomatch hh), h.dt, h.scan⟩

theorem LexG_pushName (h : LexG m) {c : Char} (hc : NmCh c) (he : c ≠ '=') : LexG (pushName c m) :=
  ⟨h.out, aNameBuf_snoc h.aname hc he, h.attrs, h.nodup, h.piT, h.piD, h.dt, h.scan⟩

theorem dtI_empty : DtI {} := by intro s hs; cases hs
theorem LexG_createDoctype (h : LexG m) : LexG (createDoctype m) :=
  ⟨h.out, h.aname, h.attrs, h.nodup, h.piT, h.piD, dtI_empty, h.scan⟩
theorem LexG_pushDoctypeName (h : LexG m) {c : Char} (hc : DtCh c) : LexG (pushDoctypeName c m) :=
  ⟨h.out, h.aname, h.attrs, h.nodup, h.piT, h.piD, (by
    intro s hs
    simp only [pushDoctypeName] at hs
    unfold optPush at hs
    cases hn : m.doctype.name with
    | none =>
      rw [hn] at hs; simp only [Option.some.injEq] at hs; subst hs
      intro x hx; simp only [List.mem_singleton] at hx; subst hx; exact hc
    | some t =>
      rw [hn] at hs; simp only [Option.some.injEq] at hs; subst hs
      intro x hx
      rcases List.mem_append.mp hx with hx | hx
      · exact h.dt t hn x hx
      · simp only [List.mem_singleton] at hx; subst hx; exact hc), h.scan⟩
theorem LexG_pushDoctypeId (h : LexG m) (k : DoctypeKind) (c : Char) : LexG (pushDoctypeId k c m) := by
  cases k <;> exact ⟨h.out, h.aname, h.attrs, h.nodup, h.piT, h.piD, h.dt, h.scan⟩
theorem LexG_clearDoctypeId (h : LexG m) (k : DoctypeKind) : LexG (clearDoctypeId k m) := by
  cases k <;> exact ⟨h.out, h.aname, h.attrs, h.nodup, h.piT, h.piD, h.dt, h.scan⟩
theorem LexG_emitDoctype (h : LexG m) : LexG (emitDoctype m) :=
  ⟨(by intro x hx; rcases List.mem_cons.mp hx with rfl | hx; exact h.dt; exact h.out x hx),
   h.aname, h.attrs, h.nodup, h.piT, h.piD, dtI_empty, h.scan⟩

/-- `finish_attribute`: the new attribute has a good name, distinct from the earlier ones; the name
register is empty afterwards -/
theorem LexG_finishAttribute (h : LexG m) : LexG (finishAttribute m) ∧ (finishAttribute m).attrName = [] := by
  unfold finishAttribute
  dsimp only
  split
  · rename_i he
    exact ⟨h, by simpa using he⟩
  · rename_i he
    have hne : m.attrName ≠ [] := by simpa using he
    have ha : AttrA ⟨processQName m.attrName, m.attrValue⟩ := by
      rcases h.aname with e | e
      · exact absurd e hne
      · exact ⟨m.attrName, rfl, e⟩
    split
    · exact ⟨⟨(by
        intro x hx
        rcases List.mem_cons.mp hx with rfl | hx
        · trivial
        · exact h.out x hx), Or.inl rfl, h.attrs, h.nodup, h.piT, h.piD, h.dt, h.scan⟩, rfl⟩
    · rename_i hdup
      have hnot : processQName m.attrName ∉ m.tagAttrs.map (·.name) := by
        intro hm
        obtain ⟨x, hx, hxe⟩ := List.mem_map.mp hm
        exact hdup (List.any_eq_true.mpr ⟨x, hx, by simpa using hxe⟩)
      split
      · refine ⟨⟨h.out, Or.inl rfl, ?_, ?_, h.piT, h.piD, h.dt, h.scan⟩, rfl⟩
        · intro a hm
          rcases List.mem_cons.mp hm with rfl | hm
          · exact ha
          · exact h.attrs a hm
        · simp only [List.map_cons, List.nodup_cons]; exact ⟨hnot, h.nodup⟩
      · refine ⟨⟨h.out, Or.inl rfl, ?_, ?_, h.piT, h.piD, h.dt, h.scan⟩, rfl⟩
        · intro a hm
          rcases List.mem_append.mp hm with hm | hm
          · exact h.attrs a hm
          · simp only [List.mem_singleton] at hm; subst hm; exact ha
        · rw [List.map_append, List.nodup_append]
          refine ⟨h.nodup, by simp, ?_⟩
          intro x hx y hy
          simp only [List.map_cons, List.map_nil, List.mem_singleton] at hy; subst hy
          intro e; subst e; exact hnot hx

theorem LexG_createAttr (h : LexG m) {c : Char} (hc : NmCh c) : LexG (createAttr c m) := by
  obtain ⟨h1, h2⟩ := LexG_finishAttribute h
  unfold createAttr
  dsimp only
  generalize finishAttribute m = x at h1 h2
  refine ⟨h1.out, ?_, h1.attrs, h1.nodup, h1.piT, h1.piD, h1.dt, h1.scan⟩
  show ANameBuf (x.attrName ++ [c])
  rw [h2]
  exact Or.inr ⟨c, [], rfl, hc, by simp⟩

theorem finishAttribute_tag (m : Mach) :
    (finishAttribute m).tagName = m.tagName ∧ (finishAttribute m).tagKind = m.tagKind ∧
    (finishAttribute m).piTarget = m.piTarget := by
  unfold finishAttribute
  dsimp only
  repeat' split
  all_goals exact ⟨rfl, rfl, rfl⟩

/-- `emit_current_tag`: the emitted tag satisfies `TagA`, given the name condition for start / empty tags -/
theorem LexG_emitCurrentTag (h : LexG m)
    (hn : (m.tagKind = .startTag ∨ m.tagKind = .emptyTag) → TagNameLex m.tagName) : LexG (emitCurrentTag m) := by
  obtain ⟨h1, h2⟩ := LexG_finishAttribute h
  obtain ⟨e1, e2, _⟩ := finishAttribute_tag m
  unfold emitCurrentTag
  dsimp only
  generalize finishAttribute m = x at h1 h2 e1 e2
  have ht : TokA (.tag { kind := x.tagKind, name := processQName x.tagName, attrs := x.tagAttrs }) := by
    refine ⟨?_, h1.attrs, h1.nodup⟩
    intro hk
    exact ⟨x.tagName, rfl, by rw [e1]; exact hn (by rw [← e2]; exact hk)⟩
  have hA : ANameBuf x.attrName := h1.aname
  repeat' split
  all_goals
    refine ⟨?_, hA, (fun _ hh => nomatch hh), List.nodup_nil, h1.piT, h1.piD, h1.dt, h1.scan⟩
    intro t hm
    rcases List.mem_cons.mp hm with rfl | hm
    · exact ht
    · first
      | exact h1.out t hm
      | (rcases List.mem_cons.mp hm with rfl | hm
         · trivial
         · exact h1.out t hm)

end helpers

end H5V.Lemmas.XmlShapeLex
