import H5V.Model.XmlSer
import H5V.Lemmas.XmlTB
/-! Lemmas for C17: reversibility of escaping; the tree builder on a well-nested token stream. -/
namespace H5V.Lemmas.XmlSer
open H5V.Model.XmlTB H5V.Model.XmlSer H5V.Lemmas.XmlTB

/-! ### escaping -/

theorem unescape_plain (c : Char) (rest : Str) (h : c ≠ '&') :
    unescape (c :: rest) = c :: unescape rest := by
  conv => lhs; unfold unescape
  split <;> simp_all

theorem unescape_escapeChar (cfg : SerCfg) (m : Bool) (c : Char) (rest : Str) :
    unescape (escapeChar cfg m c ++ rest) = c :: unescape rest := by
  unfold escapeChar
  split
  · subst_vars; simp only [List.cons_append, List.nil_append]; rw [unescape]
  · split
    · rename_i h; obtain ⟨rfl, _⟩ := h; simp only [List.cons_append, List.nil_append]; rw [unescape]
    · split
      · rename_i h; obtain ⟨rfl, _⟩ := h; simp only [List.cons_append, List.nil_append]; rw [unescape]
      · split
        · rename_i h; obtain ⟨rfl, _⟩ := h; simp only [List.cons_append, List.nil_append]; rw [unescape]
        · split
          · rename_i h; obtain ⟨rfl, _⟩ := h; simp only [List.cons_append, List.nil_append]; rw [unescape]
          · split
            · rename_i h; obtain ⟨rfl, _⟩ := h; simp only [List.cons_append, List.nil_append]; rw [unescape]
            · rename_i h _ _ _ _ _; exact unescape_plain c rest h

theorem escape_cons (cfg : SerCfg) (m : Bool) (c : Char) (s : Str) :
    escape cfg m (c :: s) = escapeChar cfg m c ++ escape cfg m s := by
  simp [escape]

/-- decoding the references undoes the escaping, in both modes, for every string -/
theorem unescape_escape (cfg : SerCfg) (m : Bool) (s : Str) : unescape (escape cfg m s) = s := by
  induction s with
  | nil => simp [escape, unescape]
  | cons c s ih => rw [escape_cons, unescape_escapeChar, ih]

theorem normalize_noCR (s : Str) (h : '\r' ∉ s) : normalizeNewlines s = s := by
  induction s with
  | nil => simp [normalizeNewlines]
  | cons c s ih =>
    have hc : c ≠ '\r' := by intro e; subst e; simp at h
    have hs : '\r' ∉ s := by intro e; exact h (by simp [e])
    conv => lhs; unfold normalizeNewlines
    split <;> simp_all

theorem escapeChar_noCR (cfg : SerCfg) (m : Bool) (c : Char) (h : c ≠ '\r' ∨ cfg.escapeCR = true) :
    '\r' ∉ escapeChar cfg m c := by
  unfold escapeChar
  split
  · decide
  · split
    · decide
    · split
      · decide
      · split
        · decide
        · split
          · decide
          · split
            · decide
            · rename_i hcr
              rcases h with h | h
              · simp [Ne.symm h]
              · simp [h] at hcr; simp [Ne.symm hcr]

theorem escape_noCR (cfg : SerCfg) (m : Bool) (s : Str) (h : '\r' ∉ s ∨ cfg.escapeCR = true) :
    '\r' ∉ escape cfg m s := by
  induction s with
  | nil => simp [escape]
  | cons c s ih =>
    rw [escape_cons]
    simp only [List.mem_append, not_or]
    constructor
    · apply escapeChar_noCR
      rcases h with h | h
      · left; intro e; subst e; simp at h
      · right; exact h
    · apply ih
      rcases h with h | h
      · left; intro e; exact h (by simp [e])
      · right; exact h

theorem escapeChar_text_no_lt (cfg : SerCfg) (c : Char) : '<' ∉ escapeChar cfg false c := by
  unfold escapeChar
  split
  · decide
  · split
    · decide
    · split
      · decide
      · split
        · decide
        · split
          · decide
          · split
            · decide
            · rename_i h _ _; simp at h ⊢; exact fun e => h e.symm

theorem escapeChar_attr_no_quote (cfg : SerCfg) (c : Char) : '"' ∉ escapeChar cfg true c := by
  unfold escapeChar
  split
  · decide
  · split
    · decide
    · split
      · decide
      · split
        · decide
        · split
          · decide
          · split
            · decide
            · rename_i h _ _ _; simp at h ⊢; exact fun e => h e.symm

theorem mem_escape (cfg : SerCfg) (m : Bool) (x : Char) (s : Str) (h : x ∈ escape cfg m s) :
    ∃ c ∈ s, x ∈ escapeChar cfg m c := by
  induction s with
  | nil => simp [escape] at h
  | cons c s ih =>
    rw [escape_cons] at h
    rcases List.mem_append.mp h with h | h
    · exact ⟨c, by simp, h⟩
    · obtain ⟨c', hc', hx⟩ := ih h; exact ⟨c', by simp [hc'], hx⟩

/-! ### the serializer's events spell the tree -/

/-- `evs` is a well-nested event stream for the node list (declarations arbitrary) -/
inductive Spells : List Ev → List Node → Prop where
  | nil : Spells [] []
  | elem {n : QName} {decls : SMap} {as : List Attr} {evs : List Ev} {ks : List Node}
      {rest : List Ev} {ns : List Node} :
      Spells evs ks → Spells rest ns →
      Spells (.startTag n decls as :: (evs ++ .endTag n :: rest)) (.elem n as ks :: ns)
  | text {s : Str} {rest : List Ev} {ns : List Node} :
      Spells rest ns → Spells (.text s :: rest) (.text s :: ns)
  | comment {s : Str} {rest : List Ev} {ns : List Node} :
      Spells rest ns → Spells (.comment s :: rest) (.comment s :: ns)
  | pi {t d : Str} {rest : List Ev} {ns : List Node} :
      Spells rest ns → Spells (.pi t d :: rest) (.pi t d :: ns)
  | doctype {n p sy : Str} {rest : List Ev} {ns : List Node} :
      Spells rest ns → Spells (.doctype n :: rest) (.doctype n p sy :: ns)

theorem Spells.append {e1 e2 : List Ev} {n1 n2 : List Node} (h1 : Spells e1 n1) (h2 : Spells e2 n2) :
    Spells (e1 ++ e2) (n1 ++ n2) := by
  induction h1 with
  | nil => simpa using h2
  | elem hk _ _ ih2 =>
    simp only [List.cons_append, List.append_assoc]
    exact Spells.elem hk ih2
  | text _ ih => exact Spells.text ih
  | comment _ ih => exact Spells.comment ih
  | pi _ ih => exact Spells.pi ih
  | doctype _ ih => exact Spells.doctype ih

theorem startElem_ev (cfg : SerCfg) (st : List SMap) (n : QName) (as : List Attr) :
    ∃ decls, (startElem cfg st n as).1 = .startTag n decls as := by
  unfold startElem; exact ⟨_, rfl⟩

theorem endElem_ev (cfg : SerCfg) (st : List SMap) (n : QName) : (endElem cfg st n).1 = .endTag n := rfl

mutual
theorem serNode_spells (cfg : SerCfg) : ∀ (st : List SMap) (n : Node), Spells (serNode cfg st n).1 [n]
  | st, .elem n as ks => by
    obtain ⟨decls, hd⟩ := startElem_ev cfg st n as
    have hk := serNodes_spells cfg (startElem cfg st n as).2 ks
    simp only [serNode, hd, endElem_ev]
    have := Spells.elem (n := n) (decls := decls) (as := as) hk Spells.nil
    simpa using this
  | st, .text s => by simpa [serNode] using Spells.text Spells.nil
  | st, .comment s => by simpa [serNode] using Spells.comment Spells.nil
  | st, .pi t d => by simpa [serNode] using Spells.pi Spells.nil
  | st, .doctype n p sy => by simpa [serNode] using Spells.doctype (p := p) (sy := sy) Spells.nil
theorem serNodes_spells (cfg : SerCfg) : ∀ (st : List SMap) (ns : List Node), Spells (serNodes cfg st ns).1 ns
  | st, [] => by simpa [serNodes] using Spells.nil
  | st, n :: rest => by
    have h1 := serNode_spells cfg st n
    have h2 := serNodes_spells cfg (serNode cfg st n).2 rest
    simp only [serNodes]
    simpa using Spells.append h1 h2
end

/-! ### the check: every written start tag resolves to its own name and attributes -/

/-- the tag the tokenizer delivers for a start-tag event -/
def tagOf (scfg : SerCfg) (lcfg : LexCfg) (n : QName) (decls : SMap) (attrs : List Attr) : Tag :=
  finishTag lcfg.tok ⟨.start, rawName n,
    decls.map (fun d => ⟨declName d.1, lexAttrValue lcfg (declValue scfg d.2)⟩) ++
    attrs.map (fun a => ⟨rawName a.name, lexAttrValue lcfg (escape scfg true a.value)⟩)⟩

theorem tagOf_kind (scfg : SerCfg) (lcfg : LexCfg) (n : QName) (decls : SMap) (attrs : List Attr) :
    tagOf scfg lcfg n decls attrs =
      ⟨.start, splitQName (rawName n), (tagOf scfg lcfg n decls attrs).attrs⟩ := rfl

/-- **the decidable side condition of `C17_partial`**: walking the event stream with the parser's
namespace stack (`pst`), every start tag — lexed, passed through the tokenizer's attribute step and
`process_namespaces` — yields exactly the element's own qualified name and attribute list. -/
def okEvs (scfg : SerCfg) (lcfg : LexCfg) (tcfg : TbCfg) : List NsMap → List Ev → Bool
  | _, [] => true
  | pst, .startTag n decls as :: rest =>
    let b := processNamespaces tcfg pst (tagOf scfg lcfg n decls as)
    b.name == n && b.attrs == as && okEvs scfg lcfg tcfg (b.map :: pst) rest
  | pst, .endTag _ :: rest => okEvs scfg lcfg tcfg pst.tail rest
  | pst, .text _ :: rest => okEvs scfg lcfg tcfg pst rest
  | pst, .comment _ :: rest => okEvs scfg lcfg tcfg pst rest
  | pst, .pi _ _ :: rest => okEvs scfg lcfg tcfg pst rest
  | pst, .doctype _ :: rest => okEvs scfg lcfg tcfg pst rest

theorem okEvs_append (scfg : SerCfg) (lcfg : LexCfg) (tcfg : TbCfg) {evs : List Ev} {ns : List Node}
    (h : Spells evs ns) (pst : List NsMap) (rest : List Ev) :
    okEvs scfg lcfg tcfg pst (evs ++ rest) =
      (okEvs scfg lcfg tcfg pst evs && okEvs scfg lcfg tcfg pst rest) := by
  induction h generalizing pst rest with
  | nil => simp [okEvs]
  | elem hk hr ihk ihr =>
    simp only [List.cons_append, List.append_assoc, okEvs]
    rw [ihk, ihk]
    simp only [okEvs, List.tail_cons]
    rw [ihr]
    simp [Bool.and_assoc]
  | text _ ih => simp only [List.cons_append, okEvs]; exact ih pst rest
  | comment _ ih => simp only [List.cons_append, okEvs]; exact ih pst rest
  | pi _ ih => simp only [List.cons_append, okEvs]; exact ih pst rest
  | doctype _ ih => simp only [List.cons_append, okEvs]; exact ih pst rest

/-! ### what a parsed tree's content looks like -/

mutual
/-- element content the parser can produce and the lexer gives back unchanged: no doctype, no empty
text, no two adjacent text nodes (`prev` = the previous sibling is a text node), no U+000D in text
unless the serializer escapes it -/
def nodesOK (scfg : SerCfg) : Bool → List Node → Prop
  | _, [] => True
  | prev, n :: rest => nodeOK scfg prev n ∧ nodesOK scfg (match n with | .text _ => true | _ => false) rest
def nodeOK (scfg : SerCfg) : Bool → Node → Prop
  | prev, .text s => prev = false ∧ s ≠ [] ∧ ('\r' ∉ s ∨ scfg.escapeCR = true)
  | _, .elem _ _ ks => nodesOK scfg false ks
  | _, .comment _ => True
  | _, .pi _ _ => True
  | _, .doctype _ _ _ => False
end

def prevText : List Node → Bool
  | .text _ :: _ => true
  | _ => false

/-! ### the tree builder on such a stream -/

theorem processNamespaces_name (cfg : TbCfg) (st : List NsMap) (t : Tag) :
    (processNamespaces cfg st t).name = (bindQName st (processNamespaces cfg st t).map t.name).1 := by
  unfold processNamespaces
  generalize declareAll [] [] (t.attrs.filter (isDeclLike cfg)) = r
  obtain ⟨cur, derrs⟩ := r
  rfl

/-- an end tag without attributes resolves its name in the scope of the open element exactly as that
element's start tag did -/
theorem endTag_name (cfg : TbCfg) (m : NsMap) (pst : List NsMap) (nm : RName) :
    (processNamespaces cfg (m :: pst) ⟨.end_, nm, []⟩).name = (bindQName pst m nm).1 := by
  have h : Model.XmlTB.findUri (m :: pst) [] nm.pfx = Model.XmlTB.findUri pst m nm.pfx := by
    simp [Model.XmlTB.findUri, List.findSome?_cons]
  simp [processNamespaces, declareAll, bindQName, h]

theorem closeTag_top (s : State) (nm : QName) (g f : Frame) (fr : List Frame)
    (hs : s.opened = g :: f :: fr) (hnm : g.name = nm) :
    closeTag s nm = .ok { s with nsStack := s.nsStack.tail,
                                 opened := { f with kids := g.close :: f.kids } :: fr } := by
  subst hnm
  unfold closeTag
  simp only [hs, ne_eq, not_true_eq_false, ↓reduceIte, List.any_cons, sameExpanded, beq_self_eq_true,
    Bool.and_self, Bool.true_or, List.length_cons]
  unfold popUntil
  simp only [hs, sameExpanded, beq_self_eq_true, Bool.and_self, ↓reduceIte, Except.bind]
  unfold pop
  simp only [hs]

theorem closeTag_root (s : State) (nm : QName) (g : Frame)
    (hs : s.opened = [g]) (hnm : g.name = nm) :
    closeTag s nm = .ok { s with nsStack := s.nsStack.tail, opened := [], root := some g.close } := by
  subst hnm
  unfold closeTag
  simp only [hs, ne_eq, not_true_eq_false, ↓reduceIte, List.any_cons, sameExpanded, beq_self_eq_true,
    Bool.and_self, Bool.true_or, List.length_cons]
  unfold popUntil
  simp only [hs, sameExpanded, beq_self_eq_true, Bool.and_self, ↓reduceIte, Except.bind]
  unfold pop
  simp only [hs]

theorem run_cons (cfg : TbCfg) (s : State) (t : Token) (rest : List Token) :
    run cfg s (t :: rest) = (step cfg s t).bind (fun s' => run cfg s' rest) := rfl

/-- the document-level fields are untouched -/
structure SameDoc (s s' : State) : Prop where
  docBefore : s'.docBefore = s.docBefore
  docAfter : s'.docAfter = s.docAfter
  root : s'.root = s.root

theorem SameDoc.refl (s : State) : SameDoc s s := ⟨rfl, rfl, rfl⟩
theorem SameDoc.trans {a b c : State} (h1 : SameDoc a b) (h2 : SameDoc b c) : SameDoc a c :=
  ⟨h2.docBefore.trans h1.docBefore, h2.docAfter.trans h1.docAfter, h2.root.trans h1.root⟩

theorem step_main_append (cfg : TbCfg) (s : State) (f : Frame) (fr : List Frame) (tok : Token)
    (upd : List Node → List Node) (hp : s.phase = .main) (hs : s.opened = f :: fr)
    (htok : step cfg s tok = appendCur s upd) :
    ∃ s', step cfg s tok = .ok s' ∧ s'.phase = .main ∧
      s'.opened = { f with kids := upd f.kids } :: fr ∧ s'.nsStack = s.nsStack ∧ SameDoc s s' := by
  rw [htok]; unfold appendCur; simp only [hs]
  exact ⟨_, rfl, hp, rfl, rfl, ⟨rfl, rfl, rfl⟩⟩

theorem step_main_start (cfg : TbCfg) (s : State) (f : Frame) (fr : List Frame) (nm : RName)
    (as : List RAttr) (hp : s.phase = .main) (hs : s.opened = f :: fr) :
    ∃ s', step cfg s (.tag ⟨.start, nm, as⟩) = .ok s' ∧ s'.phase = .main ∧
      s'.opened = ⟨(processNamespaces cfg s.nsStack ⟨.start, nm, as⟩).name,
                   (processNamespaces cfg s.nsStack ⟨.start, nm, as⟩).attrs, []⟩ :: f :: fr ∧
      s'.nsStack = (processNamespaces cfg s.nsStack ⟨.start, nm, as⟩).map :: s.nsStack ∧ SameDoc s s' := by
  unfold step
  simp only [hp]
  unfold insertTag
  match hs' : (applyNs cfg s ⟨.start, nm, as⟩).1.opened with
  | [] => simp [hs] at hs'
  | g :: rest' =>
    simp [hs] at hs'
    refine ⟨_, rfl, by simpa using hp, ?_, ?_, ?_⟩
    · simp [hs'.1, hs'.2]
    · simp [applyNs_nsStack, pushesMap]
    · unfold applyNs; simp only []; split <;> exact ⟨rfl, rfl, rfl⟩

theorem step_main_end (cfg : TbCfg) (s : State) (g f : Frame) (fr : List Frame) (nm : RName)
    (hp : s.phase = .main) (hs : s.opened = g :: f :: fr)
    (hnm : (processNamespaces cfg s.nsStack ⟨.end_, nm, []⟩).name = g.name) :
    ∃ s', step cfg s (.tag ⟨.end_, nm, []⟩) = .ok s' ∧ s'.phase = .main ∧
      s'.opened = { f with kids := g.close :: f.kids } :: fr ∧ s'.nsStack = s.nsStack.tail ∧
      SameDoc s s' := by
  unfold step
  simp only [hp]
  have ho : (applyNs cfg s ⟨.end_, nm, []⟩).1.opened = g :: f :: fr := by simp [hs]
  have hns : (applyNs cfg s ⟨.end_, nm, []⟩).1.nsStack = s.nsStack := by simp [applyNs_nsStack, pushesMap]
  rw [closeTag_top _ _ g f fr ho (by simpa using hnm.symm)]
  simp only [Except.map, setEndIfEmpty, List.isEmpty_cons, Bool.false_eq_true, ↓reduceIte]
  refine ⟨_, rfl, by simpa using hp, rfl, by simp [hns], ?_⟩
  unfold applyNs; simp only []; split <;> exact ⟨rfl, rfl, rfl⟩

theorem appendText_noPrev (kids : List Node) (s : Str) (h : prevText kids = false) :
    appendText kids s = .text s :: kids := by
  unfold appendText
  split
  · simp [prevText] at h
  · rfl

theorem lexText_escape (scfg : SerCfg) (s : Str) (h : '\r' ∉ s ∨ scfg.escapeCR = true) :
    lexText (escape scfg false s) = s := by
  unfold lexText
  rw [normalize_noCR _ (escape_noCR scfg false s h), unescape_escape]

theorem frame_eta (f : Frame) : ({ f with kids := f.kids } : Frame) = f := by cases f; rfl

/-- **the tree builder rebuilds what the events spell**: in the Main phase, with current node `f`, a
well-nested event stream for `ns` whose start tags pass `okEvs` appends exactly `ns` to `f`, leaves
the namespace stack as it was and touches nothing else. -/
theorem run_spells (scfg : SerCfg) (lcfg : LexCfg) (tcfg : TbCfg) {evs : List Ev} {ns : List Node}
    (h : Spells evs ns) :
    ∀ (s : State) (f : Frame) (fr : List Frame) (more : List Token),
      s.phase = .main → s.opened = f :: fr →
      okEvs scfg lcfg tcfg s.nsStack evs = true → nodesOK scfg (prevText f.kids) ns →
      ∃ s', run tcfg s (evs.filterMap (lexEv scfg lcfg) ++ more) = run tcfg s' more ∧
        s'.phase = .main ∧ s'.opened = { f with kids := ns.reverse ++ f.kids } :: fr ∧
        s'.nsStack = s.nsStack ∧ SameDoc s s' := by
  induction h with
  | nil =>
    intro s f fr more hp hs _ _
    exact ⟨s, rfl, hp, by simp [hs], rfl, SameDoc.refl s⟩
  | @text str rest ns' _ ih =>
    intro s f fr more hp hs hok hn
    simp only [nodesOK, nodeOK] at hn
    obtain ⟨⟨hprev, hne, hcr⟩, hrest⟩ := hn
    simp only [okEvs] at hok
    obtain ⟨s1, h1, hp1, ho1, hns1, hd1⟩ := step_main_append tcfg s f fr (.chars str)
      (fun k => appendText k str) hp hs (by unfold step; simp only [hp])
    rw [appendText_noPrev _ _ hprev] at ho1
    obtain ⟨s2, h2, hp2, ho2, hns2, hd2⟩ := ih s1 _ fr more hp1 ho1 (by rw [hns1]; exact hok) (by simpa [prevText] using hrest)
    refine ⟨s2, ?_, hp2, ?_, by rw [hns2, hns1], hd1.trans hd2⟩
    · simp only [List.filterMap_cons, lexEv, hne, ↓reduceIte, lexText_escape scfg str hcr, List.cons_append]
      rw [run_cons, h1]; exact h2
    · rw [ho2]; simp
  | @comment str rest ns' _ ih =>
    intro s f fr more hp hs hok hn
    simp only [nodesOK, nodeOK, true_and] at hn
    simp only [okEvs] at hok
    obtain ⟨s1, h1, hp1, ho1, hns1, hd1⟩ := step_main_append tcfg s f fr (.comment str)
      (fun k => .comment str :: k) hp hs (by unfold step; simp only [hp])
    obtain ⟨s2, h2, hp2, ho2, hns2, hd2⟩ := ih s1 _ fr more hp1 ho1 (by rw [hns1]; exact hok) (by simpa [prevText] using hn)
    refine ⟨s2, ?_, hp2, ?_, by rw [hns2, hns1], hd1.trans hd2⟩
    · simp only [List.filterMap_cons, lexEv, List.cons_append]
      rw [run_cons, h1]; exact h2
    · rw [ho2]; simp
  | @pi t d rest ns' _ ih =>
    intro s f fr more hp hs hok hn
    simp only [nodesOK, nodeOK, true_and] at hn
    simp only [okEvs] at hok
    obtain ⟨s1, h1, hp1, ho1, hns1, hd1⟩ := step_main_append tcfg s f fr (.pi t d)
      (fun k => .pi t d :: k) hp hs (by unfold step; simp only [hp])
    obtain ⟨s2, h2, hp2, ho2, hns2, hd2⟩ := ih s1 _ fr more hp1 ho1 (by rw [hns1]; exact hok) (by simpa [prevText] using hn)
    refine ⟨s2, ?_, hp2, ?_, by rw [hns2, hns1], hd1.trans hd2⟩
    · simp only [List.filterMap_cons, lexEv, List.cons_append]
      rw [run_cons, h1]; exact h2
    · rw [ho2]; simp
  | doctype _ _ =>
    intro s f fr more _ _ _ hn
    simp [nodesOK, nodeOK] at hn
  | @elem n decls as evs' ks rest ns' hk hr ihk ihr =>
    intro s f fr more hp hs hok hn
    simp only [nodesOK, nodeOK] at hn
    obtain ⟨hks, hrest⟩ := hn
    simp only [okEvs, Bool.and_eq_true, beq_iff_eq] at hok
    obtain ⟨⟨hbn, hba⟩, hok2⟩ := hok
    rw [okEvs_append scfg lcfg tcfg hk, Bool.and_eq_true] at hok2
    obtain ⟨hokk, hok3⟩ := hok2
    simp only [okEvs, List.tail_cons] at hok3
    -- start tag
    obtain ⟨s1, h1, hp1, ho1, hns1, hd1⟩ := step_main_start tcfg s f fr (splitQName (rawName n))
      (tagOf scfg lcfg n decls as).attrs hp hs
    rw [← tagOf_kind] at ho1 hns1
    rw [hbn, hba] at ho1
    -- children
    obtain ⟨s2, h2, hp2, ho2, hns2, hd2⟩ := ihk s1 ⟨n, as, []⟩ (f :: fr)
      (.tag ⟨.end_, splitQName (rawName n), []⟩ :: (rest.filterMap (lexEv scfg lcfg) ++ more))
      hp1 ho1 (by rw [hns1]; exact hokk) (by simpa [prevText] using hks)
    -- end tag
    have hname : (processNamespaces tcfg s2.nsStack ⟨.end_, splitQName (rawName n), []⟩).name = n := by
      rw [hns2, hns1, endTag_name]
      have := processNamespaces_name tcfg s.nsStack (tagOf scfg lcfg n decls as)
      exact this.symm.trans hbn
    obtain ⟨s3, h3, hp3, ho3, hns3, hd3⟩ := step_main_end tcfg s2 _ f fr (splitQName (rawName n)) hp2 ho2
      (by rw [hname])
    have hns3' : s3.nsStack = s.nsStack := by rw [hns3, hns2, hns1]; rfl
    -- following siblings
    obtain ⟨s4, h4, hp4, ho4, hns4, hd4⟩ := ihr s3 _ fr more hp3 ho3 (by rw [hns3']; exact hok3)
      (by simpa [prevText, Frame.close] using hrest)
    refine ⟨s4, ?_, hp4, ?_, by rw [hns4, hns3'], ((hd1.trans hd2).trans hd3).trans hd4⟩
    · simp only [List.filterMap_cons, lexEv, List.filterMap_append, List.cons_append, List.append_assoc]
      rw [run_cons]
      have : (Token.tag (finishTag lcfg.tok ⟨.start, rawName n,
          decls.map (fun d => ⟨declName d.1, lexAttrValue lcfg (declValue scfg d.2)⟩) ++
          as.map (fun a => ⟨rawName a.name, lexAttrValue lcfg (escape scfg true a.value)⟩)⟩)) =
          .tag ⟨.start, splitQName (rawName n), (tagOf scfg lcfg n decls as).attrs⟩ := rfl
      rw [this, h1]
      simp only [Except.bind]
      rw [h2, run_cons, h3]
      exact h4
    · rw [ho4]; simp [Frame.close]

end H5V.Lemmas.XmlSer
