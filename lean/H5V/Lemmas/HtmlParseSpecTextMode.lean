import H5V.Model.HtmlTB
import H5V.Lemmas.HtmlTBMetaBase
import H5V.Lemmas.HtmlTBSafeRun
/-!
How `process_token` changes the insertion mode, the options and the quirks mode.

* `processToken_enters_text` — the "text" insertion mode is only entered by a tag token that is answered
  with `RawData k`;
* `processToken_text_endTag` — in the "text" insertion mode an end tag leaves the mode;
* `processToken_opts` — the options never change;
* `processToken_initial` — the "initial" insertion mode is never re-entered, and while the builder
  stays in it the quirks mode is untouched.

Machinery (all in the sub-namespace `TextMode`):
* `Fr m` — the frame judgement: `m` leaves `mode`, `orig_mode`, `template_modes`, `opts` and the quirks
  mode alone (all helper algorithms of mod.rs but `set_mode`, `set_quirks_mode`, `to_raw_text_mode`);
* `PI m` — `m` keeps `opts` and the walk invariant `I` (no template mode and — in "in table text" —
  no original mode is "text"/"initial", the mode is neither "text" nor "initial");
* `HR tok m` — for a rule `m` handed the token `tok`: `opts` is kept, and from a state satisfying `I`
  the rule ends in "text" only with the answer `ToRawData` (then `tok` is a tag), it re-processes only
  `tok` and only in a mode that is neither "text" nor "initial", …;
* `VS tok m` — `step_foreign`: frame only, or a run of `step mode tok` for the current mode;
* `Ok m s Q` — partial correctness of one run, for the three rules that read `orig_mode`
  (`Text`, `InTableText`) or write the quirks mode (`Initial`), the loop of `process_to_completion`
  and `process_token`.
-/
namespace H5V.Lemmas.ParseSpec.TextMode
open H5V.Model.Dom (Id QualName Attr NodeOrText SinkOp Output ElementFlags QuirksMode Dom)
open H5V.Model.HtmlTB
open H5V.Model.HtmlTok (RawKind)
open H5V.Lemmas.TBM

/-! ## the frame -/

/-- the components the helper algorithms never touch -/
def frT (s : State) : Mode × Option Mode × List Mode × Opts × QuirksMode :=
  (s.mode, s.origMode, s.templateModes, s.opts, s.quirksMode)

structure FrAt {α : Type} (s : State) (m : M α) : Prop where
  h : ∀ a s', m s = .ok (a, s') → frT s' = frT s

/-- `m` leaves `mode`, `orig_mode`, `template_modes`, `opts`, `quirks_mode` alone -/
class Fr {α : Type} (m : M α) : Prop where
  h : ∀ s, FrAt s m

theorem fr_run {α : Type} {m : M α} (h : Fr m) {s s' : State} {a : α} (e : m s = .ok (a, s')) :
    frT s' = frT s := (h.h s).h a s' e

instance fr_pure {α : Type} (a : α) : Fr (pure a : M α) :=
  ⟨fun _ => ⟨fun _ _ e => by obtain ⟨_, rfl⟩ := pure_ok.mp e; rfl⟩⟩
instance fr_throw {α : Type} (e : String) : Fr (throw e : M α) := ⟨fun _ => ⟨fun _ _ h => absurd h throw_ok⟩⟩
instance fr_panicAt {α : Type} (c f t : String) : Fr (panicAt c f t : M α) :=
  ⟨fun _ => ⟨fun _ _ h => absurd h throw_ok⟩⟩
instance fr_fuelOut {α : Type} (w : String) : Fr (fuelOut w : M α) := ⟨fun _ => ⟨fun _ _ h => absurd h throw_ok⟩⟩
instance fr_getS : Fr getS := ⟨fun _ => ⟨fun _ _ e => by obtain ⟨_, rfl⟩ := getS_ok.mp e; rfl⟩⟩
instance fr_sink (op : SinkOp) : Fr (sink op) :=
  ⟨fun _ => ⟨fun _ _ e => by obtain ⟨d, _, rfl⟩ := sink_ok.mp e; rfl⟩⟩

theorem fr_modS {g : State → State} (h : ∀ s, frT (g s) = frT s) : Fr (modS g) :=
  ⟨fun s => ⟨fun _ _ e => by rw [modS_ok.mp e]; exact h s⟩⟩

theorem fr_bind {α β : Type} {m : M α} {f : α → M β} (h1 : Fr m) (h2 : ∀ a, Fr (f a)) : Fr (m >>= f) :=
  ⟨fun s => ⟨fun b s'' e => by
    obtain ⟨a, s', e1, e2⟩ := bind_ok.mp e
    exact (fr_run (h2 a) e2).trans (fr_run h1 e1)⟩⟩

theorem fr_getS_bind {β : Type} {f : State → M β} (h : ∀ s, FrAt s (f s)) : Fr (getS >>= f) :=
  ⟨fun s => ⟨fun b s'' e => by
    obtain ⟨a, s', e1, e2⟩ := bind_ok.mp e
    obtain ⟨rfl, rfl⟩ := getS_ok.mp e1
    exact (h _).h b s'' e2⟩⟩

theorem frAt_of {α : Type} {m : M α} (h : Fr m) (s : State) : FrAt s m := h.h s

theorem frAt_set_bind {β : Type} {x s : State} {k : Unit → M β} (hx : frT x = frT s) (h : ∀ u, Fr (k u)) :
    FrAt s (set x >>= k) :=
  ⟨fun b s'' e => by
    obtain ⟨u, s', e1, e2⟩ := bind_ok.mp e
    rw [set_ok.mp e1] at e2
    exact (fr_run (h u) e2).trans hx⟩

theorem frAt_set {x s : State} (hx : frT x = frT s) : FrAt s (set x : M Unit) :=
  ⟨fun _ _ e => by rw [set_ok.mp e]; exact hx⟩

theorem fr_ite {α : Type} {c : Prop} [Decidable c] {a b : M α} (ha : Fr a) (hb : Fr b) :
    Fr (if c then a else b) := by
  split
  · exact ha
  · exact hb

theorem frAt_ite {α : Type} {s : State} {c : Prop} [Decidable c] {a b : M α} (ha : FrAt s a) (hb : FrAt s b) :
    FrAt s (if c then a else b) := by
  split
  · exact ha
  · exact hb

/-- one step of the walk over a helper algorithm -/
syntax "tmx_fr_step" : tactic
macro_rules
  | `(tactic| tmx_fr_step) => `(tactic|
    first
      | exact inferInstance
      | with_reducible assumption
      | exact fr_modS (fun _ => rfl)
      | (with_reducible refine fr_getS_bind ?_)
      | (with_reducible refine fr_bind ?_ ?_)
      | (with_reducible refine frAt_set_bind rfl ?_)
      | (with_reducible exact frAt_set rfl)
      | intro _
      | (with_reducible refine fr_ite ?_ ?_)
      | (with_reducible refine frAt_ite ?_ ?_)
      | split
      | (with_reducible refine frAt_of ?_ _)
      | dsimp only)

syntax "tmx_fr" : tactic
macro_rules
  | `(tactic| tmx_fr) => `(tactic| repeat' tmx_fr_step)

instance (op : SinkOp) : Fr (sinkUnit op) := by unfold sinkUnit; tmx_fr
instance (op : SinkOp) : Fr (sinkNode op) := by unfold sinkNode; tmx_fr
instance (op : SinkOp) : Fr (sinkBool op) := by unfold sinkBool; tmx_fr
instance (msg : String) : Fr (parseError msg) := by unfold parseError; tmx_fr
instance (h : Id) : Fr (elemName h) := by unfold elemName; tmx_fr
instance (x y : Id) : Fr (sameNode x y) := by unfold sameNode; tmx_fr
instance (h : Id) (n : Str) : Fr (htmlElemNamedS h n) := by unfold htmlElemNamedS; tmx_fr
instance (h : Id) (n : String) : Fr (htmlElemNamed h n) := by unfold htmlElemNamed; tmx_fr
instance (h : Id) (set : EName → Bool) : Fr (elemIn h set) := by unfold elemIn; tmx_fr
instance : Fr currentNode := by unfold currentNode; tmx_fr
instance : Fr adjustedCurrentNode := by unfold adjustedCurrentNode; tmx_fr
instance (set : EName → Bool) : Fr (currentNodeIn set) := by unfold currentNodeIn; tmx_fr
instance (n : Str) : Fr (currentNodeNamedS n) := by unfold currentNodeNamedS; tmx_fr
instance (n : String) : Fr (currentNodeNamed n) := by unfold currentNodeNamed; tmx_fr
instance : Fr htmlElem := by unfold htmlElem; tmx_fr
instance : Fr htmlElemFn := by unfold htmlElemFn; tmx_fr
instance : Fr isFragment := by unfold isFragment; tmx_fr
instance (h : Id) : Fr (push h) := by unfold push; tmx_fr
instance : Fr pop := by unfold pop; tmx_fr
instance : Fr popSilently := by unfold popSilently; tmx_fr
instance (b : Bool) : Fr (setFramesetOk b) := by unfold setFramesetOk; tmx_fr
instance : Fr pushMarker := by unfold pushMarker; tmx_fr
instance : Fr unexpected := by unfold unexpected; tmx_fr
instance (n : QualName) (a : List Attr) (d : Bool) : Fr (createElementWithFlags n a d) := by
  unfold createElementWithFlags; tmx_fr

theorem fr_fosterLoop : ∀ l, Fr (fosterLoop l)
  | [] => by unfold fosterLoop; tmx_fr
  | _ :: rest => by
    have ih := fr_fosterLoop rest
    unfold fosterLoop; tmx_fr
instance (l : List Id) : Fr (fosterLoop l) := fr_fosterLoop l
instance (o : Option Id) : Fr (appropriatePlaceForInsertion o) := by unfold appropriatePlaceForInsertion; tmx_fr
instance (p : InsertionPoint) (c : NodeOrText) : Fr (insertAt p c) := by unfold insertAt; tmx_fr
instance (c : NodeOrText) (o : Option Id) : Fr (insertAppropriately c o) := by unfold insertAppropriately; tmx_fr
theorem fr_anyHtmlElemNamed (n : String) : ∀ l, Fr (anyHtmlElemNamed n l)
  | [] => by unfold anyHtmlElemNamed; tmx_fr
  | _ :: rest => by
    have ih := fr_anyHtmlElemNamed n rest
    unfold anyHtmlElemNamed; tmx_fr
instance (n : String) (l : List Id) : Fr (anyHtmlElemNamed n l) := fr_anyHtmlElemNamed n l
instance (n : String) : Fr (inHtmlElemNamed n) := by unfold inHtmlElemNamed; tmx_fr
instance (p : Bool) (ns n : Str) (a : List Attr) (d : Bool) : Fr (insertElement p ns n a d) := by
  unfold insertElement; tmx_fr
instance (tag : Tag) : Fr (insertElementFor tag) := by unfold insertElementFor; tmx_fr
instance (tag : Tag) : Fr (insertAndPopElementFor tag) := by unfold insertAndPopElementFor; tmx_fr
instance (n : String) : Fr (insertPhantom n) := by unfold insertPhantom; tmx_fr
instance (tag : Tag) (ns : Str) (b : Bool) : Fr (insertForeignElement tag ns b) := by
  unfold insertForeignElement; tmx_fr
instance (a : List Attr) : Fr (createRoot a) := by unfold createRoot; tmx_fr
instance (t : Str) : Fr (appendText t) := by unfold appendText; tmx_fr
instance (t : Str) : Fr (appendComment t) := by unfold appendComment; tmx_fr
instance (t : Str) : Fr (appendCommentToDoc t) := by unfold appendCommentToDoc; tmx_fr
instance (t : Str) : Fr (appendCommentToHtml t) := by unfold appendCommentToHtml; tmx_fr

theorem fr_inScopeLoop (scope : EName → Bool) (pred : Id → M Bool) (hp : ∀ h, Fr (pred h)) :
    ∀ l, Fr (inScopeLoop scope pred l)
  | [] => by unfold inScopeLoop; tmx_fr
  | _ :: rest => by
    have ih := fr_inScopeLoop scope pred hp rest
    unfold inScopeLoop; tmx_fr
theorem fr_inScope (scope : EName → Bool) (pred : Id → M Bool) (hp : ∀ h, Fr (pred h)) : Fr (inScope scope pred) := by
  have := fr_inScopeLoop scope pred hp
  unfold inScope; tmx_fr
instance (scope : EName → Bool) (n : Str) : Fr (inScopeNamedS scope n) := by
  unfold inScopeNamedS; exact fr_inScope _ _ (fun _ => inferInstance)
instance (scope : EName → Bool) (n : String) : Fr (inScopeNamed scope n) := by unfold inScopeNamed; tmx_fr
instance (scope : EName → Bool) (x : Id) : Fr (inScope scope (fun n => sameNode n x)) :=
  fr_inScope _ _ (fun _ => inferInstance)
instance (scope : EName → Bool) (x : Id) : Fr (inScope scope (fun n => sameNode x n)) :=
  fr_inScope _ _ (fun _ => inferInstance)
instance (scope : EName → Bool) (set : EName → Bool) : Fr (inScope scope (fun n => elemIn n set)) :=
  fr_inScope _ _ (fun _ => inferInstance)

theorem fr_generateImpliedEndTagsLoop (set : EName → Bool) : ∀ n, Fr (generateImpliedEndTagsLoop set n)
  | 0 => by unfold generateImpliedEndTagsLoop; tmx_fr
  | n + 1 => by
    have ih := fr_generateImpliedEndTagsLoop set n
    unfold generateImpliedEndTagsLoop; tmx_fr
instance (set : EName → Bool) (n : Nat) : Fr (generateImpliedEndTagsLoop set n) := fr_generateImpliedEndTagsLoop set n
instance (set : EName → Bool) : Fr (generateImpliedEndTags set) := by unfold generateImpliedEndTags; tmx_fr
instance (e : Str) : Fr (generateImpliedEndExcept e) := by unfold generateImpliedEndExcept; tmx_fr
theorem fr_popUntilCurrentLoop (set : EName → Bool) : ∀ n, Fr (popUntilCurrentLoop set n)
  | 0 => by unfold popUntilCurrentLoop; tmx_fr
  | n + 1 => by
    have ih := fr_popUntilCurrentLoop set n
    unfold popUntilCurrentLoop; tmx_fr
instance (set : EName → Bool) (n : Nat) : Fr (popUntilCurrentLoop set n) := fr_popUntilCurrentLoop set n
instance (set : EName → Bool) : Fr (popUntilCurrent set) := by unfold popUntilCurrent; tmx_fr
theorem fr_popUntilLoop (pred : EName → Bool) : ∀ f n, Fr (popUntilLoop pred f n)
  | 0, _ => by unfold popUntilLoop; tmx_fr
  | f + 1, n => by
    have ih := fr_popUntilLoop pred f (n + 1)
    unfold popUntilLoop; tmx_fr
instance (pred : EName → Bool) (f n : Nat) : Fr (popUntilLoop pred f n) := fr_popUntilLoop pred f n
instance (pred : EName → Bool) : Fr (popUntil pred) := by unfold popUntil; tmx_fr
instance (n : Str) : Fr (popUntilNamedS n) := by unfold popUntilNamedS; tmx_fr
instance (n : String) : Fr (popUntilNamed n) := by unfold popUntilNamed; tmx_fr
instance (n : Str) : Fr (expectToCloseS n) := by unfold expectToCloseS; tmx_fr
instance (n : String) : Fr (expectToClose n) := by unfold expectToClose; tmx_fr
instance : Fr closePElement := by unfold closePElement; tmx_fr
instance : Fr closePElementInButtonScope := by unfold closePElementInButtonScope; tmx_fr
theorem fr_checkBodyEndLoop : ∀ l, Fr (checkBodyEndLoop l)
  | [] => by unfold checkBodyEndLoop; tmx_fr
  | _ :: rest => by
    have ih := fr_checkBodyEndLoop rest
    unfold checkBodyEndLoop; tmx_fr
instance (l : List Id) : Fr (checkBodyEndLoop l) := fr_checkBodyEndLoop l
instance : Fr checkBodyEnd := by unfold checkBodyEnd; tmx_fr
instance : Fr bodyElem := by unfold bodyElem; tmx_fr
theorem fr_rpositionLoop (p : Id → M Bool) (hp : ∀ h, Fr (p h)) : ∀ l n, Fr (rpositionLoop p l n)
  | [], _ => by unfold rpositionLoop; tmx_fr
  | _ :: rest, n => by
    have ih := fr_rpositionLoop p hp rest (n - 1)
    unfold rpositionLoop; tmx_fr
theorem fr_rposition (p : Id → M Bool) (hp : ∀ h, Fr (p h)) : Fr (rposition p) := by
  have := fr_rpositionLoop p hp
  unfold rposition; tmx_fr
instance (x : Id) : Fr (rposition (fun n => sameNode x n)) := fr_rposition _ (fun _ => inferInstance)
instance (x : Id) : Fr (rposition (fun n => sameNode n x)) := fr_rposition _ (fun _ => inferInstance)
instance (e : Id) : Fr (removeFromStack e) := by unfold removeFromStack; tmx_fr

theorem fr_positionInAFLoop (e : Id) : ∀ l i, Fr (positionInAFLoop e l i)
  | [], _ => by unfold positionInAFLoop; tmx_fr
  | .marker :: rest, i => by
    have ih := fr_positionInAFLoop e rest (i + 1)
    unfold positionInAFLoop; tmx_fr
  | .element _ _ :: rest, i => by
    have ih := fr_positionInAFLoop e rest (i + 1)
    unfold positionInAFLoop; tmx_fr
instance (e : Id) (l : List FormatEntry) (i : Nat) : Fr (positionInAFLoop e l i) := fr_positionInAFLoop e l i
instance (e : Id) : Fr (positionInActiveFormatting e) := by unfold positionInActiveFormatting; tmx_fr
instance (af : List FormatEntry) : Fr (setAF af) := by unfold setAF; tmx_fr
instance (i : Nat) (site : String) : Fr (afRemove i site) := by unfold afRemove; tmx_fr
theorem fr_anySameNodeRev (x : Id) : ∀ l, Fr (anySameNodeRev x l)
  | [] => by unfold anySameNodeRev; tmx_fr
  | _ :: rest => by
    have ih := fr_anySameNodeRev x rest
    unfold anySameNodeRev; tmx_fr
instance (x : Id) (l : List Id) : Fr (anySameNodeRev x l) := fr_anySameNodeRev x l
instance (e : FormatEntry) : Fr (isMarkerOrOpen e) := by cases e <;> (unfold isMarkerOrOpen; tmx_fr)
theorem fr_reconstructRewind : ∀ n, Fr (reconstructRewind n)
  | 0 => by unfold reconstructRewind; tmx_fr
  | n + 1 => by
    have ih := fr_reconstructRewind n
    unfold reconstructRewind; tmx_fr
instance (n : Nat) : Fr (reconstructRewind n) := fr_reconstructRewind n
theorem fr_reconstructCreate : ∀ f i, Fr (reconstructCreate f i)
  | 0, _ => by unfold reconstructCreate; tmx_fr
  | f + 1, i => by
    have ih := fr_reconstructCreate f (i + 1)
    unfold reconstructCreate; tmx_fr
instance (f i : Nat) : Fr (reconstructCreate f i) := fr_reconstructCreate f i
instance : Fr reconstructActiveFormattingElements := by unfold reconstructActiveFormattingElements; tmx_fr
instance (tag : Tag) : Fr (createFormattingElementFor tag) := by unfold createFormattingElementFor; tmx_fr
instance : Fr clearActiveFormattingToMarker := by unfold clearActiveFormattingToMarker; tmx_fr

theorem fr_endTagSearch (n : Str) : ∀ l k, Fr (endTagSearch n l k)
  | [], _ => by unfold endTagSearch; tmx_fr
  | _ :: rest, k => by
    have ih := fr_endTagSearch n rest (k - 1)
    unfold endTagSearch; tmx_fr
instance (n : Str) (l : List Id) (k : Nat) : Fr (endTagSearch n l k) := fr_endTagSearch n l k
instance (tag : Tag) : Fr (processEndTagInBody tag) := by unfold processEndTagInBody; tmx_fr
theorem fr_findFurthestBlock : ∀ l i, Fr (findFurthestBlock l i)
  | [], _ => by unfold findFurthestBlock; tmx_fr
  | _ :: rest, i => by
    have ih := fr_findFurthestBlock rest (i + 1)
    unfold findFurthestBlock; tmx_fr
instance (l : List Id) (i : Nat) : Fr (findFurthestBlock l i) := fr_findFurthestBlock l i
theorem fr_positionSameNode (x : Id) : ∀ l i, Fr (positionSameNode x l i)
  | [], _ => by unfold positionSameNode; tmx_fr
  | _ :: rest, i => by
    have ih := fr_positionSameNode x rest (i + 1)
    unfold positionSameNode; tmx_fr
instance (x : Id) (l : List Id) (i : Nat) : Fr (positionSameNode x l i) := fr_positionSameNode x l i
theorem fr_aaInner (fe fb : Id) : ∀ n c l b, Fr (aaInner fe fb n c l b)
  | 0, _, _, _ => by unfold aaInner; tmx_fr
  | n + 1, c, l, b => by
    have ih := fr_aaInner fe fb n
    unfold aaInner; tmx_fr
instance (fe fb : Id) (n c : Nat) (l : Id) (b : Bookmark) : Fr (aaInner fe fb n c l b) := fr_aaInner fe fb n c l b
instance (subject : Str) : Fr (aaOuterStep subject) := by unfold aaOuterStep; tmx_fr
theorem fr_aaOuter (subject : Str) : ∀ n, Fr (aaOuter subject n)
  | 0 => by unfold aaOuter; tmx_fr
  | n + 1 => by
    have ih := fr_aaOuter subject n
    unfold aaOuter; tmx_fr
instance (subject : Str) (n : Nat) : Fr (aaOuter subject n) := fr_aaOuter subject n
instance (subject : Str) : Fr (adoptionAgency subject) := by unfold adoptionAgency; tmx_fr
theorem fr_findAInAF : ∀ l, Fr (findAInAF l)
  | [] => by unfold findAInAF; tmx_fr
  | (_, _, _) :: rest => by
    have ih := fr_findAInAF rest
    unfold findAInAF; tmx_fr
instance (l : List (Nat × Id × Tag)) : Fr (findAInAF l) := fr_findAInAF l
instance : Fr handleMisnestedATags := by unfold handleMisnestedATags; tmx_fr
theorem fr_resetLoop : ∀ l n, Fr (resetLoop l n)
  | [], _ => by unfold resetLoop; tmx_fr
  | _ :: rest, n => by
    have ih := fr_resetLoop rest (n - 1)
    unfold resetLoop; tmx_fr
instance (l : List Id) (n : Nat) : Fr (resetLoop l n) := fr_resetLoop l n
instance : Fr resetInsertionMode := by unfold resetInsertionMode; tmx_fr
instance : Fr closeTheCell := by unfold closeTheCell; tmx_fr
instance (tag : Tag) (ns : Str) : Fr (enterForeign tag ns) := by unfold enterForeign; tmx_fr
instance (tag : Tag) : Fr (foreignStartTag tag) := by unfold foreignStartTag; tmx_fr
instance (tok : Token) : Fr (isForeign tok) := by unfold isForeign; tmx_fr
theorem fr_popToIntegrationPointLoop : ∀ n, Fr (popToIntegrationPointLoop n)
  | 0 => by unfold popToIntegrationPointLoop; tmx_fr
  | n + 1 => by
    have ih := fr_popToIntegrationPointLoop n
    unfold popToIntegrationPointLoop; tmx_fr
instance (n : Nat) : Fr (popToIntegrationPointLoop n) := fr_popToIntegrationPointLoop n
instance : Fr pendingTableTextEmpty := by unfold pendingTableTextEmpty; tmx_fr


/-! ## the walk invariant -/

/-- a mode the builder may switch to without `orig_mode` bookkeeping -/
def okM (m : Mode) : Bool := !(m == .text || m == .initial || m == .inTableText)

/-- the original insertion mode is neither "text" nor "initial" -/
def origNT (s : State) : Prop := s.origMode ≠ some .text ∧ s.origMode ≠ some .initial

/-- the invariant of a walk over a rule: no template mode is "text"/"initial"/"in table text"; in
"in table text" the original mode is neither "text" nor "initial"; the mode is neither -/
structure I (s : State) : Prop where
  tm : ∀ x ∈ s.templateModes, okM x = true
  tt : s.mode = .inTableText → origNT s
  nt : s.mode ≠ .text
  ni : s.mode ≠ .initial

theorem frT_eq {s s' : State} (h : frT s' = frT s) :
    s'.mode = s.mode ∧ s'.origMode = s.origMode ∧ s'.templateModes = s.templateModes ∧ s'.opts = s.opts ∧
      s'.quirksMode = s.quirksMode := by
  simpa only [frT, Prod.mk.injEq] using h

theorem I.of_fr {s s' : State} (hi : I s) (h : frT s' = frT s) : I s' := by
  obtain ⟨h1, h2, h3, _, _⟩ := frT_eq h
  exact ⟨by rw [h3]; exact hi.tm, by rw [h1]; unfold origNT; rw [h2]; exact hi.tt, by rw [h1]; exact hi.nt,
    by rw [h1]; exact hi.ni⟩

theorem okM_ne {m : Mode} (h : okM m = true) : m ≠ .text ∧ m ≠ .initial ∧ m ≠ .inTableText := by
  cases m <;> first | (exact ⟨by decide, by decide, by decide⟩) | (revert h; decide)

theorem I.withMode {s : State} (hi : I s) {m : Mode} (h : okM m = true) : I { s with mode := m } :=
  ⟨hi.tm, fun e => absurd e (okM_ne h).2.2, (okM_ne h).1, (okM_ne h).2.1⟩

/-! ## `PI`: `opts` and the walk invariant are kept -/

structure PIAt {α : Type} (s : State) (m : M α) : Prop where
  h : ∀ a s', m s = .ok (a, s') → I s → I s'

class PI {α : Type} (m : M α) : Prop where
  h : ∀ s, PIAt s m

theorem pi_run {α : Type} {m : M α} (h : PI m) {s s' : State} {a : α} (e : m s = .ok (a, s')) :
    I s → I s' := (h.h s).h a s' e

theorem pi_of_fr {α : Type} {m : M α} (h : Fr m) : PI m :=
  ⟨fun _ => ⟨fun _ _ e hi => hi.of_fr (fr_run h e)⟩⟩

instance (priority := low) pi_inst_fr {α : Type} {m : M α} [h : Fr m] : PI m := pi_of_fr h

theorem pi_bind {α β : Type} {m : M α} {f : α → M β} (h1 : PI m) (h2 : ∀ a, PI (f a)) : PI (m >>= f) :=
  ⟨fun s => ⟨fun b s'' e => by
    obtain ⟨a, s', e1, e2⟩ := bind_ok.mp e
    exact fun hi => pi_run (h2 a) e2 (pi_run h1 e1 hi)⟩⟩

theorem pi_getS_bind {β : Type} {f : State → M β} (h : ∀ s, PIAt s (f s)) : PI (getS >>= f) :=
  ⟨fun s => ⟨fun b s'' e => by
    obtain ⟨a, s', e1, e2⟩ := bind_ok.mp e
    obtain ⟨rfl, rfl⟩ := getS_ok.mp e1
    exact (h _).h b s'' e2⟩⟩

theorem piAt_of {α : Type} {m : M α} (h : PI m) (s : State) : PIAt s m := h.h s

theorem piAt_set_bind {β : Type} {x s : State} {k : Unit → M β} (hx : frT x = frT s) (h : ∀ u, PI (k u)) :
    PIAt s (set x >>= k) :=
  ⟨fun b s'' e => by
    obtain ⟨u, s', e1, e2⟩ := bind_ok.mp e
    rw [set_ok.mp e1] at e2
    exact fun hi => pi_run (h u) e2 (hi.of_fr hx)⟩

theorem pi_ite {α : Type} {c : Prop} [Decidable c] {a b : M α} (ha : PI a) (hb : PI b) :
    PI (if c then a else b) := by
  split
  · exact ha
  · exact hb

theorem piAt_ite {α : Type} {s : State} {c : Prop} [Decidable c] {a b : M α} (ha : PIAt s a) (hb : PIAt s b) :
    PIAt s (if c then a else b) := by
  split
  · exact ha
  · exact hb

theorem pi_modS {g : State → State} (h : ∀ s, I s → I (g s)) : PI (modS g) :=
  ⟨fun s => ⟨fun _ _ e => by rw [modS_ok.mp e]; exact h s⟩⟩

theorem pi_setMode {m : Mode} (h : okM m = true) : PI (setMode m) := by
  unfold setMode
  exact pi_modS (fun s hi => hi.withMode h)

instance (q : QuirksMode) : PI (setQuirksMode q) := by
  unfold setQuirksMode
  refine pi_bind (pi_modS (fun s hi => ⟨hi.tm, hi.tt, hi.nt, hi.ni⟩)) (fun _ => inferInstance)

theorem pi_pushTemplateMode :
    PI (modS fun s => { s with templateModes := s.templateModes ++ [.inTemplate] }) := by
  refine pi_modS (fun s hi => ⟨?_, hi.tt, hi.nt, hi.ni⟩)
  intro x hx
  rcases List.mem_append.mp hx with h | h
  · exact hi.tm x h
  · rw [List.mem_singleton.mp h]; rfl

theorem pi_popTemplateMode :
    PI (modS fun s => { s with templateModes := s.templateModes.dropLast }) := by
  refine pi_modS (fun s hi => ⟨?_, hi.tt, hi.nt, hi.ni⟩)
  intro x hx
  exact hi.tm x (List.dropLast_subset _ hx)

theorem pi_setTemplateMode {m : Mode} (h : okM m = true) : PI (setTemplateMode m) := by
  unfold setTemplateMode
  refine pi_modS (fun s hi => ⟨?_, hi.tt, hi.nt, hi.ni⟩)
  intro x hx
  rcases List.mem_append.mp hx with h' | h'
  · exact hi.tm x (List.dropLast_subset _ h')
  · rw [List.mem_singleton.mp h']; exact h

/-! ## `HR`: the rules -/

def isTagTok : Token → Bool
  | .tag _ => true
  | _ => false

/-- an answer that neither re-processes nor switches the tokenizer to a raw-text state -/
def Plain : ProcessResult → Bool
  | .reprocess _ _ => false
  | .reprocessForeign _ => false
  | .toRawData _ => false
  | _ => true

/-- what a rule that was handed `tok` guarantees (from a state satisfying `I`) -/
structure RQ (tok : Token) (s' : State) (a : ProcessResult) : Prop where
  tm : ∀ x ∈ s'.templateModes, okM x = true
  tt : s'.mode = .inTableText → origNT s'
  ni : s'.mode ≠ .initial
  text : s'.mode = .text → (∃ k, a = .toRawData k) ∧ origNT s'
  raw : ∀ k, a = .toRawData k → isTagTok tok = true
  rep : ∀ m t, a = .reprocess m t → t = tok ∧ m ≠ .text ∧ m ≠ .initial ∧ (m = .inTableText → origNT s')
  nrf : ∀ t, a ≠ .reprocessForeign t

theorem RQ.of_fr {tok : Token} {s s' : State} {a : ProcessResult} (hq : RQ tok s a) (h : frT s' = frT s) :
    RQ tok s' a := by
  obtain ⟨h1, h2, h3, _, _⟩ := frT_eq h
  have ho : origNT s' ↔ origNT s := by unfold origNT; rw [h2]
  exact ⟨by rw [h3]; exact hq.tm, by rw [h1, ho]; exact hq.tt, by rw [h1]; exact hq.ni, by rw [h1, ho]; exact hq.text,
    hq.raw, fun m t e => by rw [ho]; exact hq.rep m t e, hq.nrf⟩

theorem RQ.plain {tok : Token} {s : State} {a : ProcessResult} (hi : I s) (h : Plain a = true) : RQ tok s a :=
  ⟨hi.tm, hi.tt, hi.ni, fun e => absurd e hi.nt, fun k e => (by rw [e] at h; cases h),
    fun m t e => (by rw [e] at h; cases h), fun t e => (by rw [e] at h; cases h)⟩

theorem RQ.reprocess {tok : Token} {s : State} {m : Mode} (hi : I s) (h : okM m = true) :
    RQ tok s (.reprocess m tok) :=
  ⟨hi.tm, hi.tt, hi.ni, fun e => absurd e hi.nt, fun k e => (by cases e),
    fun m' t e => (by cases e; exact ⟨rfl, (okM_ne h).1, (okM_ne h).2.1, fun e => absurd e (okM_ne h).2.2⟩),
    fun t e => (by cases e)⟩

structure HRAt (s : State) (tok : Token) (m : M ProcessResult) : Prop where
  h : ∀ a s', m s = .ok (a, s') → I s → RQ tok s' a

class HR (tok : Token) (m : M ProcessResult) : Prop where
  h : ∀ s, HRAt s tok m

theorem hr_run {tok : Token} {m : M ProcessResult} (h : HR tok m) {s s' : State} {a : ProcessResult}
    (e : m s = .ok (a, s')) : I s → RQ tok s' a := (h.h s).h a s' e

theorem hr_pure_plain {tok : Token} {a : ProcessResult} (h : Plain a = true) : HR tok (pure a) :=
  ⟨fun _ => ⟨fun _ _ e => by obtain ⟨rfl, rfl⟩ := pure_ok.mp e; exact fun hi => RQ.plain hi h⟩⟩

theorem hr_pure_rep {tok : Token} {m : Mode} (h : okM m = true) : HR tok (pure (.reprocess m tok)) :=
  ⟨fun _ => ⟨fun _ _ e => by obtain ⟨rfl, rfl⟩ := pure_ok.mp e; exact fun hi => RQ.reprocess hi h⟩⟩

instance hr_throw {tok : Token} (e : String) : HR tok (throw e) := ⟨fun _ => ⟨fun _ _ h => absurd h throw_ok⟩⟩
instance hr_panicAt {tok : Token} (c f t : String) : HR tok (panicAt c f t) :=
  ⟨fun _ => ⟨fun _ _ h => absurd h throw_ok⟩⟩
instance hr_fuelOut {tok : Token} (w : String) : HR tok (fuelOut w) := ⟨fun _ => ⟨fun _ _ h => absurd h throw_ok⟩⟩

theorem hr_bind {α : Type} {tok : Token} {m : M α} {f : α → M ProcessResult} (h1 : PI m) (h2 : ∀ a, HR tok (f a)) :
    HR tok (m >>= f) :=
  ⟨fun s => ⟨fun b s'' e => by
    obtain ⟨a, s', e1, e2⟩ := bind_ok.mp e
    exact fun hi => hr_run (h2 a) e2 (pi_run h1 e1 hi)⟩⟩

theorem hr_getS_bind {tok : Token} {f : State → M ProcessResult} (h : ∀ s, HRAt s tok (f s)) : HR tok (getS >>= f) :=
  ⟨fun s => ⟨fun b s'' e => by
    obtain ⟨a, s', e1, e2⟩ := bind_ok.mp e
    obtain ⟨rfl, rfl⟩ := getS_ok.mp e1
    exact (h _).h b s'' e2⟩⟩

theorem hrAt_of {tok : Token} {m : M ProcessResult} (h : HR tok m) (s : State) : HRAt s tok m := h.h s

theorem hrAt_set_bind {tok : Token} {x s : State} {k : Unit → M ProcessResult} (hx : frT x = frT s)
    (h : ∀ u, HR tok (k u)) : HRAt s tok (set x >>= k) :=
  ⟨fun b s'' e => by
    obtain ⟨u, s', e1, e2⟩ := bind_ok.mp e
    rw [set_ok.mp e1] at e2
    exact fun hi => hr_run (h u) e2 (hi.of_fr hx)⟩

theorem hr_ite {tok : Token} {c : Prop} [Decidable c] {a b : M ProcessResult} (ha : HR tok a) (hb : HR tok b) :
    HR tok (if c then a else b) := by
  split
  · exact ha
  · exact hb

theorem hrAt_ite {tok : Token} {s : State} {c : Prop} [Decidable c] {a b : M ProcessResult} (ha : HRAt s tok a)
    (hb : HRAt s tok b) : HRAt s tok (if c then a else b) := by
  split
  · exact ha
  · exact hb

/-- `m` answers `a` and keeps the frame -/
structure FrRet {α : Type} (a : α) (m : M α) : Prop where
  h : ∀ s b s', m s = .ok (b, s') → b = a ∧ frT s' = frT s

theorem frRet_pure {α : Type} (a : α) : FrRet a (pure a : M α) :=
  ⟨fun _ _ _ e => by obtain ⟨rfl, rfl⟩ := pure_ok.mp e; exact ⟨rfl, rfl⟩⟩

theorem frRet_bind {α β : Type} {b : β} {m : M α} {f : α → M β} (h1 : Fr m) (h2 : ∀ a, FrRet b (f a)) :
    FrRet b (m >>= f) :=
  ⟨fun s c s'' e => by
    obtain ⟨a, s', e1, e2⟩ := bind_ok.mp e
    obtain ⟨r, f2⟩ := (h2 a).h s' c s'' e2
    exact ⟨r, f2.trans (fr_run h1 e1)⟩⟩

/-- a rule whose answer is handed on after some frame-keeping clean-up -/
theorem hr_ret {tok : Token} {m : M ProcessResult} {f : ProcessResult → M ProcessResult} (h1 : HR tok m)
    (h2 : ∀ a, FrRet a (f a)) : HR tok (m >>= f) :=
  ⟨fun s => ⟨fun b s'' e => by
    obtain ⟨a, s', e1, e2⟩ := bind_ok.mp e
    obtain ⟨rfl, f2⟩ := (h2 a).h s' b s'' e2
    exact fun hi => (hr_run h1 e1 hi).of_fr f2⟩⟩

/-! ### `reset_insertion_mode` answers an acceptable mode -/

/-- partial correctness of the run of `m` from `s` -/
def Ok {α : Type} (m : M α) (s : State) (Q : α → State → Prop) : Prop := ∀ a s', m s = .ok (a, s') → Q a s'

theorem ok_pure {α : Type} {a : α} {s : State} {Q : α → State → Prop} (h : Q a s) : Ok (pure a : M α) s Q :=
  fun _ _ e => by obtain ⟨rfl, rfl⟩ := pure_ok.mp e; exact h

theorem ok_throw {α : Type} {e : String} {s : State} {Q : α → State → Prop} : Ok (throw e : M α) s Q :=
  fun _ _ h => absurd h throw_ok

theorem ok_panicAt {α : Type} {c f t : String} {s : State} {Q : α → State → Prop} : Ok (panicAt c f t : M α) s Q :=
  fun _ _ h => absurd h throw_ok

theorem ok_fuelOut {α : Type} {w : String} {s : State} {Q : α → State → Prop} : Ok (fuelOut w : M α) s Q :=
  fun _ _ h => absurd h throw_ok

theorem ok_bind {α β : Type} {m : M α} {f : α → M β} {s : State} {P : α → State → Prop} {Q : β → State → Prop}
    (h1 : Ok m s P) (h2 : ∀ a s1, P a s1 → Ok (f a) s1 Q) : Ok (m >>= f) s Q :=
  fun b s'' e => by
    obtain ⟨a, s', e1, e2⟩ := bind_ok.mp e
    exact h2 a s' (h1 a s' e1) b s'' e2

theorem ok_mono {α : Type} {m : M α} {s : State} {P Q : α → State → Prop} (h : Ok m s P)
    (hpq : ∀ a s', P a s' → Q a s') : Ok m s Q := fun a s' e => hpq a s' (h a s' e)

theorem ok_getS_bind {β : Type} {f : State → M β} {s : State} {Q : β → State → Prop} (h : Ok (f s) s Q) :
    Ok (getS >>= f) s Q :=
  fun b s'' e => by
    obtain ⟨a, s', e1, e2⟩ := bind_ok.mp e
    obtain ⟨rfl, rfl⟩ := getS_ok.mp e1
    exact h b s'' e2

theorem ok_modS_bind {β : Type} {g : State → State} {k : Unit → M β} {s : State} {Q : β → State → Prop}
    (h : Ok (k ()) (g s) Q) : Ok (modS g >>= k) s Q :=
  fun b s'' e => by
    obtain ⟨u, s', e1, e2⟩ := bind_ok.mp e
    rw [modS_ok.mp e1] at e2
    exact h b s'' e2

theorem ok_set_bind {β : Type} {x : State} {k : Unit → M β} {s : State} {Q : β → State → Prop}
    (h : Ok (k ()) x Q) : Ok (set x >>= k) s Q :=
  fun b s'' e => by
    obtain ⟨u, s', e1, e2⟩ := bind_ok.mp e
    rw [set_ok.mp e1] at e2
    exact h b s'' e2

theorem ok_fr {α : Type} (m : M α) [h : Fr m] (s : State) : Ok m s (fun _ s' => frT s' = frT s) :=
  fun _ _ e => fr_run h e

theorem ok_fr_bind {α β : Type} {m : M α} [h : Fr m] {f : α → M β} {s : State} {Q : β → State → Prop}
    (h2 : ∀ a s1, frT s1 = frT s → Ok (f a) s1 Q) : Ok (m >>= f) s Q :=
  ok_bind (ok_fr m s) h2

theorem ok_ite {α : Type} {c : Prop} [Decidable c] {a b : M α} {s : State} {Q : α → State → Prop}
    (ha : c → Ok a s Q) (hb : ¬ c → Ok b s Q) : Ok (if c then a else b) s Q := by
  split
  · exact ha ‹_›
  · exact hb ‹_›

theorem ok_resetLoop : ∀ (l : List Id) (n : Nat) (s : State), (∀ x ∈ s.templateModes, okM x = true) →
    Ok (resetLoop l n) s (fun m _ => okM m = true)
  | [], _, s, _ => by unfold resetLoop; exact ok_pure rfl
  | _ :: rest, n, s, htm => by
    unfold resetLoop
    refine ok_getS_bind ?_
    dsimp only
    refine ok_fr_bind ?_
    intro nm s1 hf
    have htm1 : ∀ x ∈ s1.templateModes, okM x = true := by rw [(frT_eq hf).2.2.1]; exact htm
    have ih := ok_resetLoop rest (n - 1) s1 htm1
    repeat' (first | exact ih | exact ok_pure rfl | exact ok_panicAt | refine ok_ite (fun _ => ?_) (fun _ => ?_) | split)
    rename_i hm
    exact ok_pure (htm _ (List.mem_of_getLast? hm))

theorem ok_resetInsertionMode {s : State} (htm : ∀ x ∈ s.templateModes, okM x = true) :
    Ok resetInsertionMode s (fun m _ => okM m = true) := by
  unfold resetInsertionMode
  exact ok_getS_bind (ok_resetLoop _ _ s htm)

theorem hr_bind_reset {tok : Token} {f : Mode → M ProcessResult} (h : ∀ m, okM m = true → HR tok (f m)) :
    HR tok (resetInsertionMode >>= f) :=
  ⟨fun s => ⟨fun b s'' e => by
    obtain ⟨a, s', e1, e2⟩ := bind_ok.mp e
    have hf := fr_run (inferInstance : Fr resetInsertionMode) e1
    exact fun hi => hr_run (h a (ok_resetInsertionMode hi.tm a s' e1)) e2 (hi.of_fr hf)⟩⟩


/-- one step of the walk over a rule -/
syntax "tmx_step" : tactic
macro_rules
  | `(tactic| tmx_step) => `(tactic|
    first
      | exact inferInstance
      | with_reducible assumption
      | exact fr_modS (fun _ => rfl)
      | exact pi_of_fr (fr_modS (fun _ => rfl))
      | exact hr_pure_plain rfl
      | exact hr_pure_rep rfl
      | exact hr_pure_rep (by assumption)
      | exact pi_setMode rfl
      | exact pi_setMode (by assumption)
      | exact pi_setTemplateMode rfl
      | exact pi_pushTemplateMode
      | exact pi_popTemplateMode
      | (with_reducible refine hr_bind_reset ?_)
      | (with_reducible refine hr_getS_bind ?_)
      | (with_reducible refine pi_getS_bind ?_)
      | (with_reducible refine fr_getS_bind ?_)
      | (with_reducible refine hr_bind ?_ ?_)
      | (with_reducible refine pi_bind ?_ ?_)
      | (with_reducible refine fr_bind ?_ ?_)
      | (with_reducible refine hrAt_set_bind rfl ?_)
      | (with_reducible refine piAt_set_bind rfl ?_)
      | (with_reducible refine frAt_set_bind rfl ?_)
      | (with_reducible exact frAt_set rfl)
      | intro _
      | (with_reducible refine hr_ite ?_ ?_)
      | (with_reducible refine hrAt_ite ?_ ?_)
      | (with_reducible refine pi_ite ?_ ?_)
      | (with_reducible refine piAt_ite ?_ ?_)
      | (with_reducible refine fr_ite ?_ ?_)
      | (with_reducible refine frAt_ite ?_ ?_)
      | split
      | (with_reducible refine hrAt_of ?_ _)
      | (with_reducible refine piAt_of ?_ _)
      | (with_reducible refine frAt_of ?_ _)
      | dsimp only)

syntax "tmx_walk" : tactic
macro_rules
  | `(tactic| tmx_walk) => `(tactic| repeat' tmx_step)

/-! ### the two places that write `orig_mode` -/

instance hr_toRawTextMode (tag : Tag) (k : RawKind) : HR (.tag tag) (toRawTextMode k) :=
  ⟨fun s => ⟨fun a s' e hi => by
    unfold toRawTextMode at e
    obtain ⟨u, s1, e1, e2⟩ := bind_ok.mp e
    rw [modS_ok.mp e1] at e2
    obtain ⟨rfl, rfl⟩ := pure_ok.mp e2
    exact ⟨hi.tm, fun h => (by cases h), fun h => (by cases h),
      fun _ => ⟨⟨k, rfl⟩, fun h => hi.nt (Option.some.inj h), fun h => hi.ni (Option.some.inj h)⟩, fun _ _ => rfl,
      fun m t h => (by cases h), fun t h => (by cases h)⟩⟩⟩

theorem hr_charsToTableText (tok : Token) :
    HR tok (do modS fun s => { s with origMode := some s.mode }; pure (.reprocess .inTableText tok)) :=
  ⟨fun s => ⟨fun a s' e hi => by
    obtain ⟨u, s1, e1, e2⟩ := bind_ok.mp e
    rw [modS_ok.mp e1] at e2
    obtain ⟨rfl, rfl⟩ := pure_ok.mp e2
    have ho : origNT { s with origMode := some s.mode } :=
      ⟨fun h => hi.nt (Option.some.inj h), fun h => hi.ni (Option.some.inj h)⟩
    exact ⟨hi.tm, fun _ => ho, hi.ni, fun h => absurd h hi.nt, fun _ h => (by cases h),
      fun m t h => (by cases h; exact ⟨rfl, by decide, by decide, fun _ => ho⟩), fun t h => (by cases h)⟩⟩⟩

instance (tag tag' : Tag) (k : RawKind) : HR (.tag tag) (parseRawData tag' k) := by unfold parseRawData; tmx_walk

/-! ### helpers -/

instance {tok : Token} : HR tok unexpected := by unfold unexpected; tmx_walk
instance {tok : Token} (t : Str) : HR tok (appendText t) := by unfold appendText; tmx_walk
instance {tok : Token} (t : Str) : HR tok (appendComment t) := by unfold appendComment; tmx_walk
instance {tok : Token} (t : Str) : HR tok (appendCommentToDoc t) := by unfold appendCommentToDoc; tmx_walk
instance {tok : Token} (t : Str) : HR tok (appendCommentToHtml t) := by unfold appendCommentToHtml; tmx_walk
instance {tok : Token} (tag : Tag) : HR tok (inBodyHtml tag) := by unfold inBodyHtml; tmx_walk
instance {tok : Token} (tag : Tag) : HR tok (inBodyVoid tag) := by unfold inBodyVoid; tmx_walk
instance {tok : Token} (tag : Tag) (ns : Str) : HR tok (enterForeign tag ns) := by unfold enterForeign; tmx_walk
instance {tok : Token} (tag : Tag) : HR tok (foreignStartTag tag) := by unfold foreignStartTag; tmx_walk
instance : HR .eof inTemplateEof := by unfold inTemplateEof; tmx_walk

instance (c : Str) : Fr (extractEncoding c) := by unfold extractEncoding; tmx_fr
instance (tag : Tag) : Fr (shouldAttachDeclarativeShadow tag) := by unfold shouldAttachDeclarativeShadow; tmx_fr
theorem fr_listCloseSearch (b : Bool) : ∀ l, Fr (listCloseSearch b l)
  | [] => by unfold listCloseSearch; tmx_fr
  | _ :: rest => by
    have ih := fr_listCloseSearch b rest
    unfold listCloseSearch; tmx_fr
instance (b : Bool) (l : List Id) : Fr (listCloseSearch b l) := fr_listCloseSearch b l
theorem fr_findOption : ∀ l, Fr (findOption l)
  | [] => by unfold findOption; tmx_fr
  | _ :: rest => by
    have ih := fr_findOption rest
    unfold findOption; tmx_fr
instance (l : List Id) : Fr (findOption l) := fr_findOption l
theorem fr_anySameNode (x : Id) : ∀ l, Fr (anySameNode x l)
  | [] => by unfold anySameNode; tmx_fr
  | _ :: rest => by
    have ih := fr_anySameNode x rest
    unfold anySameNode; tmx_fr
instance (x : Id) (l : List Id) : Fr (anySameNode x l) := fr_anySameNode x l
instance (site : String) : Fr (contextIsSelect site) := by unfold contextIsSelect; tmx_fr
instance (site : String) : Fr (popTr site) := by unfold popTr; tmx_fr

/-! ### the insertion modes -/

instance (tok : Token) : HR tok (stepInHead tok) := by unfold stepInHead; tmx_walk


macro_rules
  | `(tactic| tmx_step) => `(tactic|
    first
      | (with_reducible exact hr_charsToTableText _)
      | (with_reducible refine hr_ret (inferInstance : HR _ (stepInHead _)) ?_)
      | (with_reducible refine frRet_bind ?_ ?_)
      | (with_reducible exact frRet_pure _))

instance (tok : Token) : HR tok (stepBeforeHtml tok) := by unfold stepBeforeHtml; tmx_walk
instance (tok : Token) : HR tok (stepInBody tok) := by unfold stepInBody; tmx_walk

macro_rules
  | `(tactic| tmx_step) => `(tactic|
      (with_reducible refine hr_ret (inferInstance : HR _ (stepInBody _)) ?_))

instance (tok : Token) : HR tok (stepBeforeHead tok) := by unfold stepBeforeHead; tmx_walk
instance (tok : Token) : HR tok (stepInHeadNoscript tok) := by unfold stepInHeadNoscript; tmx_walk
instance (tok : Token) : HR tok (stepAfterHead tok) := by unfold stepAfterHead; tmx_walk
instance (tok : Token) : HR tok (fosterParentInBody tok) := by unfold fosterParentInBody; tmx_walk
instance (tok : Token) : HR tok (processCharsInTable tok) := by unfold processCharsInTable; tmx_walk
instance (tok : Token) : HR tok (stepInTable tok) := by unfold stepInTable; tmx_walk
instance (tok : Token) : HR tok (stepInCaption tok) := by unfold stepInCaption; tmx_walk
instance (tok : Token) : HR tok (stepInColumnGroup tok) := by unfold stepInColumnGroup; tmx_walk
instance (tok : Token) : HR tok (stepInTableBody tok) := by unfold stepInTableBody; tmx_walk
instance (tok : Token) : HR tok (stepInRow tok) := by unfold stepInRow; tmx_walk
instance (tok : Token) : HR tok (stepInCell tok) := by unfold stepInCell; tmx_walk
instance (tok : Token) : HR tok (stepInTemplate tok) := by unfold stepInTemplate; tmx_walk
instance (tok : Token) : HR tok (stepAfterBody tok) := by unfold stepAfterBody; tmx_walk
instance (tok : Token) : HR tok (stepInFrameset tok) := by unfold stepInFrameset; tmx_walk
instance (tok : Token) : HR tok (stepAfterFrameset tok) := by unfold stepAfterFrameset; tmx_walk
instance (tok : Token) : HR tok (stepAfterAfterBody tok) := by unfold stepAfterAfterBody; tmx_walk
instance (tok : Token) : HR tok (stepAfterAfterFrameset tok) := by unfold stepAfterAfterFrameset; tmx_walk


/-! ## `KO`: the options are never written -/

structure KOAt {α : Type} (s : State) (m : M α) : Prop where
  h : ∀ a s', m s = .ok (a, s') → s'.opts = s.opts

class KO {α : Type} (m : M α) : Prop where
  h : ∀ s, KOAt s m

theorem ko_run {α : Type} {m : M α} (h : KO m) {s s' : State} {a : α} (e : m s = .ok (a, s')) :
    s'.opts = s.opts := (h.h s).h a s' e

instance (priority := low) ko_inst_fr {α : Type} {m : M α} [h : Fr m] : KO m :=
  ⟨fun _ => ⟨fun _ _ e => (frT_eq (fr_run h e)).2.2.2.1⟩⟩

theorem ko_modS {g : State → State} (h : ∀ s, (g s).opts = s.opts) : KO (modS g) :=
  ⟨fun s => ⟨fun _ _ e => by rw [modS_ok.mp e]; exact h s⟩⟩

theorem ko_bind {α β : Type} {m : M α} {f : α → M β} (h1 : KO m) (h2 : ∀ a, KO (f a)) : KO (m >>= f) :=
  ⟨fun s => ⟨fun b s'' e => by
    obtain ⟨a, s', e1, e2⟩ := bind_ok.mp e
    exact (ko_run (h2 a) e2).trans (ko_run h1 e1)⟩⟩

theorem ko_getS_bind {β : Type} {f : State → M β} (h : ∀ s, KOAt s (f s)) : KO (getS >>= f) :=
  ⟨fun s => ⟨fun b s'' e => by
    obtain ⟨a, s', e1, e2⟩ := bind_ok.mp e
    obtain ⟨rfl, rfl⟩ := getS_ok.mp e1
    exact (h _).h b s'' e2⟩⟩

theorem koAt_of {α : Type} {m : M α} (h : KO m) (s : State) : KOAt s m := h.h s

theorem koAt_set_bind {β : Type} {x s : State} {k : Unit → M β} (hx : x.opts = s.opts) (h : ∀ u, KO (k u)) :
    KOAt s (set x >>= k) :=
  ⟨fun b s'' e => by
    obtain ⟨u, s', e1, e2⟩ := bind_ok.mp e
    rw [set_ok.mp e1] at e2
    exact (ko_run (h u) e2).trans hx⟩

theorem koAt_set {x s : State} (hx : x.opts = s.opts) : KOAt s (set x : M Unit) :=
  ⟨fun _ _ e => by rw [set_ok.mp e]; exact hx⟩

theorem ko_ite {α : Type} {c : Prop} [Decidable c] {a b : M α} (ha : KO a) (hb : KO b) :
    KO (if c then a else b) := by
  split
  · exact ha
  · exact hb

theorem koAt_ite {α : Type} {s : State} {c : Prop} [Decidable c] {a b : M α} (ha : KOAt s a) (hb : KOAt s b) :
    KOAt s (if c then a else b) := by
  split
  · exact ha
  · exact hb

syntax "tmx_ko_step" : tactic
macro_rules
  | `(tactic| tmx_ko_step) => `(tactic|
    first
      | exact inferInstance
      | with_reducible assumption
      | exact ko_modS (fun _ => rfl)
      | (with_reducible refine ko_getS_bind ?_)
      | (with_reducible refine ko_bind ?_ ?_)
      | (with_reducible refine koAt_set_bind rfl ?_)
      | (with_reducible exact koAt_set rfl)
      | intro _
      | (with_reducible refine ko_ite ?_ ?_)
      | (with_reducible refine koAt_ite ?_ ?_)
      | split
      | (with_reducible refine koAt_of ?_ _)
      | dsimp only)

syntax "tmx_ko" : tactic
macro_rules
  | `(tactic| tmx_ko) => `(tactic| repeat' tmx_ko_step)

instance (tag : Tag) : Fr (inBodyHtml tag) := by unfold inBodyHtml; tmx_fr
instance (tag : Tag) : Fr (inBodyVoid tag) := by unfold inBodyVoid; tmx_fr
instance (m : Mode) : KO (setMode m) := by unfold setMode; tmx_ko
instance (q : QuirksMode) : KO (setQuirksMode q) := by unfold setQuirksMode; tmx_ko
instance (k : RawKind) : KO (toRawTextMode k) := by unfold toRawTextMode; tmx_ko
instance (tag : Tag) (k : RawKind) : KO (parseRawData tag k) := by unfold parseRawData; tmx_ko
instance (m : Mode) : KO (setTemplateMode m) := by unfold setTemplateMode; tmx_ko
instance : KO inTemplateEof := by unfold inTemplateEof; tmx_ko
instance (tok : Token) : KO (stepInitial tok) := by unfold stepInitial; tmx_ko
instance (tok : Token) : KO (stepBeforeHtml tok) := by unfold stepBeforeHtml; tmx_ko
instance (tok : Token) : KO (stepInHead tok) := by unfold stepInHead; tmx_ko
instance (tok : Token) : KO (stepInBody tok) := by unfold stepInBody; tmx_ko
instance (tok : Token) : KO (stepBeforeHead tok) := by unfold stepBeforeHead; tmx_ko
instance (tok : Token) : KO (stepInHeadNoscript tok) := by unfold stepInHeadNoscript; tmx_ko
instance (tok : Token) : KO (stepAfterHead tok) := by unfold stepAfterHead; tmx_ko
instance (tok : Token) : KO (stepText tok) := by unfold stepText; tmx_ko
instance (tok : Token) : KO (fosterParentInBody tok) := by unfold fosterParentInBody; tmx_ko
instance (tok : Token) : KO (processCharsInTable tok) := by unfold processCharsInTable; tmx_ko
instance (tok : Token) : KO (stepInTable tok) := by unfold stepInTable; tmx_ko
theorem ko_flushPendingFoster : ∀ l, KO (flushPendingFoster l)
  | [] => by unfold flushPendingFoster; tmx_ko
  | (_, _) :: rest => by
    have ih := ko_flushPendingFoster rest
    unfold flushPendingFoster; tmx_ko
instance (l : List (SplitStatus × Str)) : KO (flushPendingFoster l) := ko_flushPendingFoster l
theorem fr_flushPendingPlain : ∀ l, Fr (flushPendingPlain l)
  | [] => by unfold flushPendingPlain; tmx_fr
  | (_, _) :: rest => by
    have ih := fr_flushPendingPlain rest
    unfold flushPendingPlain; tmx_fr
instance (l : List (SplitStatus × Str)) : Fr (flushPendingPlain l) := fr_flushPendingPlain l
instance (tok : Token) : KO (stepInTableText tok) := by unfold stepInTableText; tmx_ko
instance : KO flushPendingTableText := by unfold flushPendingTableText; tmx_ko
instance (tok : Token) : KO (stepInCaption tok) := by unfold stepInCaption; tmx_ko
instance (tok : Token) : KO (stepInColumnGroup tok) := by unfold stepInColumnGroup; tmx_ko
instance (tok : Token) : KO (stepInTableBody tok) := by unfold stepInTableBody; tmx_ko
instance (tok : Token) : KO (stepInRow tok) := by unfold stepInRow; tmx_ko
instance (tok : Token) : KO (stepInCell tok) := by unfold stepInCell; tmx_ko
instance (tok : Token) : KO (stepInTemplate tok) := by unfold stepInTemplate; tmx_ko
instance (tok : Token) : KO (stepAfterBody tok) := by unfold stepAfterBody; tmx_ko
instance (tok : Token) : KO (stepInFrameset tok) := by unfold stepInFrameset; tmx_ko
instance (tok : Token) : KO (stepAfterFrameset tok) := by unfold stepAfterFrameset; tmx_ko
instance (tok : Token) : KO (stepAfterAfterBody tok) := by unfold stepAfterAfterBody; tmx_ko
instance (tok : Token) : KO (stepAfterAfterFrameset tok) := by unfold stepAfterAfterFrameset; tmx_ko
instance (mode : Mode) (tok : Token) : KO (step mode tok) := by
  cases mode <;> (unfold step; exact inferInstance)
instance (tag : Tag) : KO (unexpectedStartTagInForeignContent tag) := by
  unfold unexpectedStartTagInForeignContent; tmx_ko
theorem ko_foreignEndTagLoop (tag : Tag) : ∀ i first, KO (foreignEndTagLoop tag i first)
  | 0, _ => by unfold foreignEndTagLoop; tmx_ko
  | i + 1, _ => by
    have ih := ko_foreignEndTagLoop tag i
    unfold foreignEndTagLoop; tmx_ko
instance (tag : Tag) (i : Nat) (first : Bool) : KO (foreignEndTagLoop tag i first) := ko_foreignEndTagLoop tag i first
instance (tok : Token) : KO (stepForeign tok) := by unfold stepForeign; tmx_ko

theorem ko_ptc : ∀ (fuel : Nat) (tok : Token) (more : List Token), KO (processToCompletion fuel tok more) := by
  intro fuel
  induction fuel with
  | zero => intro tok more; unfold processToCompletion; exact inferInstance
  | succ fuel ih =>
    intro tok more
    unfold processToCompletion
    tmx_ko
    all_goals exact ih _ _
instance (fuel : Nat) (tok : Token) (more : List Token) : KO (processToCompletion fuel tok more) := ko_ptc fuel tok more

instance (t : TokToken) (line : Nat) : KO (processToken t line) := by unfold processToken; tmx_ko


/-! ## `step_foreign`: frame only, or the rule of the current insertion mode -/

/-- the run kept the frame and answered plainly, or it was — from a state with the same frame — a run
of the rule of the current insertion mode for the same token -/
def ViaStep (tok : Token) (s : State) (a : ProcessResult) (s' : State) : Prop :=
  (frT s' = frT s ∧ Plain a = true) ∨ ∃ s1, frT s1 = frT s ∧ step s1.mode tok s1 = .ok (a, s')

class VS (tok : Token) (m : M ProcessResult) : Prop where
  h : ∀ s a s', m s = .ok (a, s') → ViaStep tok s a s'

theorem vs_pure_plain {tok : Token} {a : ProcessResult} (h : Plain a = true) : VS tok (pure a) :=
  ⟨fun _ _ _ e => by obtain ⟨rfl, rfl⟩ := pure_ok.mp e; exact Or.inl ⟨rfl, h⟩⟩

instance vs_throw {tok : Token} (e : String) : VS tok (throw e) := ⟨fun _ _ _ h => absurd h throw_ok⟩
instance vs_panicAt {tok : Token} (c f t : String) : VS tok (panicAt c f t) := ⟨fun _ _ _ h => absurd h throw_ok⟩
instance vs_fuelOut {tok : Token} (w : String) : VS tok (fuelOut w) := ⟨fun _ _ _ h => absurd h throw_ok⟩

theorem vs_bind {α : Type} {tok : Token} {m : M α} {f : α → M ProcessResult} (h1 : Fr m) (h2 : ∀ a, VS tok (f a)) :
    VS tok (m >>= f) :=
  ⟨fun s b s'' e => by
    obtain ⟨a, s', e1, e2⟩ := bind_ok.mp e
    have hf := fr_run h1 e1
    rcases (h2 a).h s' b s'' e2 with ⟨h3, h4⟩ | ⟨s1, h3, h4⟩
    · exact Or.inl ⟨h3.trans hf, h4⟩
    · exact Or.inr ⟨s1, h3.trans hf, h4⟩⟩

theorem vs_step (tok : Token) : VS tok (getS >>= fun s => step s.mode tok) :=
  ⟨fun s b s'' e => by
    obtain ⟨a, s', e1, e2⟩ := bind_ok.mp e
    obtain ⟨rfl, rfl⟩ := getS_ok.mp e1
    exact Or.inr ⟨_, rfl, e2⟩⟩

theorem vs_ite {tok : Token} {c : Prop} [Decidable c] {a b : M ProcessResult} (ha : VS tok a) (hb : VS tok b) :
    VS tok (if c then a else b) := by
  split
  · exact ha
  · exact hb

syntax "tmx_vs_step" : tactic
macro_rules
  | `(tactic| tmx_vs_step) => `(tactic|
    first
      | exact inferInstance
      | with_reducible assumption
      | exact vs_pure_plain rfl
      | (with_reducible exact vs_step _)
      | (with_reducible refine vs_bind (by tmx_fr) ?_)
      | intro _
      | (with_reducible refine vs_ite ?_ ?_)
      | split
      | dsimp only)

syntax "tmx_vs" : tactic
macro_rules
  | `(tactic| tmx_vs) => `(tactic| repeat' tmx_vs_step)

instance {tok : Token} (t : Str) : VS tok (appendText t) := by unfold appendText; tmx_vs
instance {tok : Token} (t : Str) : VS tok (appendComment t) := by unfold appendComment; tmx_vs
instance (tag : Tag) : VS (.tag tag) (foreignStartTag tag) := by unfold foreignStartTag; tmx_vs
instance (tag : Tag) : VS (.tag tag) (unexpectedStartTagInForeignContent tag) := by
  unfold unexpectedStartTagInForeignContent; tmx_vs
theorem vs_foreignEndTagLoop (tag : Tag) : ∀ i first, VS (.tag tag) (foreignEndTagLoop tag i first)
  | 0, _ => by unfold foreignEndTagLoop; tmx_vs
  | i + 1, _ => by
    have ih := vs_foreignEndTagLoop tag i
    unfold foreignEndTagLoop; tmx_vs
instance (tag : Tag) (i : Nat) (first : Bool) : VS (.tag tag) (foreignEndTagLoop tag i first) :=
  vs_foreignEndTagLoop tag i first
instance (tok : Token) : VS tok (stepForeign tok) := by unfold stepForeign; tmx_vs


/-! ## one iteration of `process_to_completion` -/

/-- the invariant of the loop of `process_to_completion`: no template mode is "text"/"initial"/"in
table text"; where `orig_mode` is read it is neither "text" nor "initial" -/
structure J (s : State) : Prop where
  tm : ∀ x ∈ s.templateModes, okM x = true
  om : s.mode = .inTableText ∨ s.mode = .text → origNT s

theorem J.of_eq {s s' : State} (hj : J s) (h1 : s'.mode = s.mode) (h2 : s'.origMode = s.origMode)
    (h3 : s'.templateModes = s.templateModes) : J s' :=
  ⟨by rw [h3]; exact hj.tm, by rw [h1]; unfold origNT; rw [h2]; exact hj.om⟩

theorem J.of_fr {s s' : State} (hj : J s) (h : frT s' = frT s) : J s' :=
  hj.of_eq (frT_eq h).1 (frT_eq h).2.1 (frT_eq h).2.2.1

theorem I.of_J {s : State} (hj : J s) (h1 : s.mode ≠ .text) (h2 : s.mode ≠ .initial) : I s :=
  ⟨hj.tm, fun h => hj.om (Or.inl h), h1, h2⟩

/-- the mode after `process_to_completion` has handled the answer -/
def nxt : ProcessResult → Mode → Mode
  | .reprocess m _, _ => m
  | _, c => c

theorem nxt_plain {a : ProcessResult} (h : ∀ m t, a ≠ .reprocess m t) (c : Mode) : nxt a c = c := by
  cases a <;> first | rfl | exact absurd rfl (h _ _)

/-- what one rule, run in its own mode from a state satisfying `J`, guarantees -/
structure DPost (tok : Token) (s : State) (a : ProcessResult) (s1 : State) : Prop where
  j : J { s1 with mode := nxt a s1.mode }
  rep : ∀ m t, a = .reprocess m t → t = tok
  nrf : ∀ t, a ≠ .reprocessForeign t
  raw : ∀ k, a = .toRawData k → isTagTok tok = true
  text : s.mode ≠ .text → nxt a s1.mode = .text → ∃ k, a = .toRawData k
  init : nxt a s1.mode = .initial → s.mode = .initial ∧ s1.quirksMode = s.quirksMode

theorem DPost.of_fr_left {tok : Token} {s s0 s1 : State} {a : ProcessResult} (h : DPost tok s0 a s1)
    (hf : frT s0 = frT s) : DPost tok s a s1 :=
  ⟨h.j, h.rep, h.nrf, h.raw, fun h1 => h.text (by rw [(frT_eq hf).1]; exact h1),
    fun h1 => by
      obtain ⟨h2, h3⟩ := h.init h1
      exact ⟨by rw [← (frT_eq hf).1]; exact h2, by rw [h3]; exact (frT_eq hf).2.2.2.2⟩⟩

/-- a plain answer after frame-keeping work -/
theorem DPost.of_plain {tok : Token} {s s1 : State} {a : ProcessResult} (hj : J s) (hf : frT s1 = frT s)
    (hp : Plain a = true) : DPost tok s a s1 := by
  have hn : nxt a s1.mode = s1.mode := nxt_plain (fun m t e => by rw [e] at hp; cases hp) _
  refine ⟨?_, fun m t e => (by rw [e] at hp; cases hp), fun t e => (by rw [e] at hp; cases hp),
    fun k e => (by rw [e] at hp; cases hp), ?_, ?_⟩
  · rw [hn]; exact hj.of_fr hf
  · intro h1 h2
    rw [hn, (frT_eq hf).1] at h2
    exact absurd h2 h1
  · intro h1
    rw [hn, (frT_eq hf).1] at h1
    exact ⟨h1, (frT_eq hf).2.2.2.2⟩

/-- the rules covered by the walk -/
theorem DPost.of_rq {tok : Token} {s s1 : State} {a : ProcessResult} (hq : RQ tok s1 a) :
    DPost tok s a s1 := by
  refine ⟨?_, fun m t e => (hq.rep m t e).1, hq.nrf, hq.raw, ?_, ?_⟩
  · cases a with
    | reprocess m t =>
      obtain ⟨_, h1, _, h3⟩ := hq.rep m t rfl
      exact ⟨hq.tm, fun h => h.elim h3 (fun e => absurd e h1)⟩
    | _ => exact ⟨hq.tm, fun h => h.elim hq.tt (fun e => (hq.text e).2)⟩
  · intro _ h2
    cases a with
    | reprocess m t => exact absurd h2 (hq.rep m t rfl).2.1
    | _ => exact (hq.text h2).1
  · intro h1
    cases a with
    | reprocess m t => exact absurd h1 (hq.rep m t rfl).2.2.1
    | _ => exact absurd h1 hq.ni

theorem ok_of_hr {tok : Token} {m : M ProcessResult} (h : HR tok m) {s : State} (hi : I s) :
    Ok m s (DPost tok s) := fun _ _ e => DPost.of_rq (hr_run h e hi)

/-! ### the three rules outside the walk -/

theorem frRet_appendCommentToDoc (t : Str) : FrRet .done (appendCommentToDoc t) := by
  unfold appendCommentToDoc
  repeat' (first | exact frRet_pure _ | (refine frRet_bind (by tmx_fr) ?_) | intro _)

theorem frRet_appendText (t : Str) : FrRet .done (appendText t) := by
  unfold appendText
  exact frRet_bind inferInstance (fun _ => frRet_pure _)

theorem frRet_unexpected : FrRet .done unexpected := by
  unfold unexpected
  exact frRet_bind inferInstance (fun _ => frRet_pure _)

theorem ok_frRet {tok : Token} {a : ProcessResult} {m : M ProcessResult} (h : FrRet a m) (hp : Plain a = true)
    {s : State} (hj : J s) : Ok m s (DPost tok s) := by
  intro b s' e
  obtain ⟨rfl, hf⟩ := h.h s b s' e
  exact DPost.of_plain hj hf hp

/-- `set_quirks_mode` writes the quirks mode only -/
theorem ok_setQuirksMode (q : QuirksMode) (s : State) : Ok (setQuirksMode q) s (fun _ s' =>
    s'.mode = s.mode ∧ s'.origMode = s.origMode ∧ s'.templateModes = s.templateModes) := by
  unfold setQuirksMode
  refine ok_modS_bind ?_
  refine ok_mono (ok_fr _ _) ?_
  intro _ s' hf
  exact ⟨(frT_eq hf).1, (frT_eq hf).2.1, (frT_eq hf).2.2.1⟩

theorem ok_stepInitial (tok : Token) {s : State} (hj : J s) :
    Ok (stepInitial tok) s (DPost tok s) := by
  have hrep : ∀ s1 : State, s1.mode = s.mode → s1.origMode = s.origMode → s1.templateModes = s.templateModes →
      DPost tok s (.reprocess .beforeHtml tok) s1 := by
    intro s1 h1 h2 h3
    exact ⟨⟨by rw [h3]; exact hj.tm, fun h => (by rcases h with h | h <;> cases h)⟩, fun m t e => (by cases e; rfl),
      fun t e => (by cases e), fun k e => (by cases e), fun _ h => (by cases h), fun h => (by cases h)⟩
  have helse : Ok (do
      if !(← getS).opts.iframeSrcdoc then
        let _ ← unexpected
        setQuirksMode .quirks
      pure (ProcessResult.reprocess .beforeHtml tok)) s (DPost tok s) := by
    refine ok_getS_bind ?_
    dsimp only
    split
    · refine ok_fr_bind ?_
      intro _ s1 hf
      refine ok_bind (ok_setQuirksMode _ s1) ?_
      rintro _ s2 ⟨h1, h2, h3⟩
      exact ok_pure (hrep s2 (h1.trans (frT_eq hf).1) (h2.trans (frT_eq hf).2.1) (h3.trans (frT_eq hf).2.2.1))
    · exact ok_pure (hrep s rfl rfl rfl)
  unfold stepInitial
  split
  · exact ok_pure (DPost.of_plain hj rfl rfl)
  · exact ok_pure (DPost.of_plain hj rfl rfl)
  · exact ok_frRet (frRet_appendCommentToDoc _) rfl hj
  · exact helse


theorem ok_panicAt_bind {α β : Type} {c f t : String} {k : α → M β} {s : State} {Q : β → State → Prop} :
    Ok (panicAt c f t >>= k) s Q :=
  ok_bind (P := fun _ _ => False) ok_panicAt (fun _ _ h => False.elim h)

/-- the state after `orig_mode.take()`, for the answer `Reprocess(orig_mode, tok)` -/
theorem DPost.take_reprocess {tok : Token} {s0 s : State} {m : Mode} (hj : J s0) (ho : origNT s0)
    (hf : frT s = frT s0) (hm : s.origMode = some m) :
    DPost tok s0 (.reprocess m tok) { s with origMode := none } := by
  have ho' : s0.origMode = some m := by rw [← (frT_eq hf).2.1]; exact hm
  have h1 : m ≠ .text := fun e => ho.1 (by rw [ho', e])
  have h2 : m ≠ .initial := fun e => ho.2 (by rw [ho', e])
  refine ⟨⟨?_, fun _ => ⟨fun h => (by cases h), fun h => (by cases h)⟩⟩, fun m' t e => (by cases e; rfl),
    fun t e => (by cases e), fun k e => (by cases e), fun _ h => absurd h h1, fun h => absurd h h2⟩
  show ∀ x ∈ s.templateModes, okM x = true
  rw [(frT_eq hf).2.2.1]; exact hj.tm

/-- the state after `orig_mode.take()` and the switch back to that mode, for a plain answer -/
theorem DPost.take_plain {tok : Token} {s0 s : State} {m : Mode} {a : ProcessResult} (hj : J s0) (ho : origNT s0)
    (hf : frT s = frT s0) (hm : s.origMode = some m) (hp : Plain a = true) :
    DPost tok s0 a { s with origMode := none, mode := m } := by
  have ho' : s0.origMode = some m := by rw [← (frT_eq hf).2.1]; exact hm
  have h1 : m ≠ .text := fun e => ho.1 (by rw [ho', e])
  have h2 : m ≠ .initial := fun e => ho.2 (by rw [ho', e])
  have hn : nxt a m = m := nxt_plain (fun m t e => by rw [e] at hp; cases hp) _
  refine ⟨⟨?_, fun _ => ⟨fun h => (by cases h), fun h => (by cases h)⟩⟩, fun m' t e => (by rw [e] at hp; cases hp),
    fun t e => (by rw [e] at hp; cases hp), fun k e => (by rw [e] at hp; cases hp), fun _ h => ?_, fun h => ?_⟩
  · show ∀ x ∈ s.templateModes, okM x = true
    rw [(frT_eq hf).2.2.1]; exact hj.tm
  · exact absurd (hn ▸ h) h1
  · exact absurd (hn ▸ h) h2

theorem ok_stepText (tok : Token) {s : State} (hj : J s) (hm : s.mode = .text) :
    Ok (stepText tok) s (DPost tok s) := by
  have ho : origNT s := hj.om (Or.inr hm)
  unfold stepText
  split
  · exact ok_frRet (frRet_appendText _) rfl hj
  · refine ok_fr_bind ?_
    intro _ s1 hf1
    refine ok_fr_bind ?_
    intro b s2 hf2
    have hf2' := hf2.trans hf1
    dsimp only
    have htail : ∀ s3 : State, frT s3 = frT s → Ok (do
        let _ ← pop
        let s ← getS
        match s.origMode with
          | none => panicAt "unwrap-none" "rules.rs:1023" "orig_mode.take().unwrap()"
          | some m => do
            set { s with origMode := none }
            pure (ProcessResult.reprocess m Token.eof)) s3 (DPost .eof s) := by
      intro s3 hf3
      refine ok_fr_bind ?_
      intro _ s4 hf4
      refine ok_getS_bind ?_
      split
      · exact ok_panicAt
      · rename_i m hom
        refine ok_set_bind ?_
        exact ok_pure (DPost.take_reprocess hj ho (hf4.trans hf3) hom)
    split
    · refine ok_getS_bind ?_
      split
      · refine ok_fr_bind ?_
        intro _ s3 hf3
        refine ok_fr_bind ?_
        intro _ s4 hf4
        exact htail s4 (hf4.trans (hf3.trans hf2'))
      · exact ok_panicAt_bind
    · exact htail s2 hf2'
  · split
    · refine ok_fr_bind ?_
      intro node s1 hf1
      refine ok_getS_bind ?_
      split
      · exact ok_panicAt
      · rename_i m hom
        refine ok_set_bind ?_
        split
        · exact ok_pure (DPost.take_plain hj ho hf1 hom rfl)
        · exact ok_pure (DPost.take_plain hj ho hf1 hom rfl)
    · exact ok_panicAt
  · exact ok_panicAt

/-! ### "in table text" -/

instance fr_stepInBody_chars (st : SplitStatus) (z : Str) : Fr (stepInBody (.chars st z)) := by
  unfold stepInBody; dsimp only; tmx_fr
instance (st : SplitStatus) (z : Str) : Fr (fosterParentInBody (.chars st z)) := by
  unfold fosterParentInBody; tmx_fr
theorem fr_flushPendingFoster : ∀ l, Fr (flushPendingFoster l)
  | [] => by unfold flushPendingFoster; tmx_fr
  | (_, _) :: rest => by
    have ih := fr_flushPendingFoster rest
    unfold flushPendingFoster; tmx_fr
instance (l : List (SplitStatus × Str)) : Fr (flushPendingFoster l) := fr_flushPendingFoster l

theorem ok_stepInTableText (tok : Token) {s : State} (hj : J s) (hm : s.mode = .inTableText) :
    Ok (stepInTableText tok) s (DPost tok s) := by
  have ho : origNT s := hj.om (Or.inl hm)
  unfold stepInTableText
  split
  · exact ok_frRet frRet_unexpected rfl hj
  · refine ok_modS_bind ?_
    exact ok_pure (DPost.of_plain hj rfl rfl)
  · refine ok_getS_bind ?_
    refine ok_modS_bind ?_
    dsimp only
    have hf0 : frT ({ s with pendingTableText := [] } : State) = frT s := rfl
    have htail : ∀ s3 : State, frT s3 = frT s → Ok (do
        let s ← getS
        match s.origMode with
          | none => panicAt "unwrap-none" "rules.rs:1172" "orig_mode.take().unwrap()"
          | some m => do
            set { s with origMode := none }
            pure (ProcessResult.reprocess m tok)) s3 (DPost tok s) := by
      intro s3 hf3
      refine ok_getS_bind ?_
      split
      · exact ok_panicAt
      · rename_i m hom
        refine ok_set_bind ?_
        exact ok_pure (DPost.take_reprocess hj ho hf3 hom)
    split
    · refine ok_fr_bind ?_
      intro _ s1 hf1
      refine ok_fr_bind ?_
      intro _ s2 hf2
      exact htail s2 (hf2.trans (hf1.trans hf0))
    · refine ok_fr_bind ?_
      intro _ s1 hf1
      exact htail s1 (hf1.trans hf0)

/-- `flush_pending_table_text` (the DOCTYPE arm of `process_token`) answers a mode that is neither
"text" nor "initial" -/
theorem ok_flushPendingTableText {s : State} (hj : J s) (hm : s.mode = .inTableText) :
    Ok flushPendingTableText s (fun m s' => m ≠ .text ∧ m ≠ .initial ∧ s'.quirksMode = s.quirksMode) := by
  have ho : origNT s := hj.om (Or.inl hm)
  unfold flushPendingTableText
  refine ok_getS_bind ?_
  refine ok_modS_bind ?_
  dsimp only
  have hf0 : frT ({ s with pendingTableText := [] } : State) = frT s := rfl
  have htail : ∀ s3 : State, frT s3 = frT s → Ok (do
      let s ← getS
      match s.origMode with
        | none => panicAt "unwrap-none" "rules.rs:1172" "orig_mode.take().unwrap()"
        | some m => do
          set { s with origMode := none }
          pure m) s3 (fun m s' => m ≠ .text ∧ m ≠ .initial ∧ s'.quirksMode = s.quirksMode) := by
    intro s3 hf3
    refine ok_getS_bind ?_
    split
    · exact ok_panicAt
    · rename_i m hom
      refine ok_set_bind ?_
      have ho' : s.origMode = some m := by rw [← (frT_eq hf3).2.1]; exact hom
      exact ok_pure ⟨fun e => ho.1 (by rw [ho', e]), fun e => ho.2 (by rw [ho', e]), (frT_eq hf3).2.2.2.2⟩
  split
  · refine ok_fr_bind ?_
    intro _ s1 hf1
    refine ok_fr_bind ?_
    intro _ s2 hf2
    exact htail s2 (hf2.trans (hf1.trans hf0))
  · refine ok_fr_bind ?_
    intro _ s1 hf1
    exact htail s1 (hf1.trans hf0)

/-! ### every rule, run in its own mode -/

theorem ok_step_mode (tok : Token) {s : State} (hj : J s) (m : Mode) (hm : s.mode = m) :
    Ok (step m tok) s (DPost tok s) := by
  have hi : m ≠ .text → m ≠ .initial → I s := fun h1 h2 => I.of_J hj (hm ▸ h1) (hm ▸ h2)
  cases m <;> unfold step <;> dsimp only
  case initial => exact ok_stepInitial tok hj
  case text => exact ok_stepText tok hj hm
  case inTableText => exact ok_stepInTableText tok hj hm
  all_goals exact ok_of_hr inferInstance (hi (by decide) (by decide))

theorem ok_step (tok : Token) {s : State} (hj : J s) : Ok (step s.mode tok) s (DPost tok s) :=
  ok_step_mode tok hj s.mode rfl

/-- foreign content, from a state with the frame of `s` -/
theorem ok_stepForeign (tok : Token) {s s1 : State} (hj : J s) (hf1 : frT s1 = frT s) :
    Ok (stepForeign tok) s1 (DPost tok s) := by
  intro a s2 e
  rcases (inferInstance : VS tok (stepForeign tok)).h s1 a s2 e with ⟨h3, h4⟩ | ⟨s1', h3, h4⟩
  · exact DPost.of_plain hj (h3.trans hf1) h4
  · exact (ok_step tok (hj.of_fr (h3.trans hf1)) a s2 h4).of_fr_left (h3.trans hf1)

theorem ok_step_fr (tok : Token) {s s1 : State} (hj : J s) (hf1 : frT s1 = frT s) :
    Ok (step s1.mode tok) s1 (DPost tok s) :=
  ok_mono (ok_step tok (hj.of_fr hf1)) (fun _ _ h => h.of_fr_left hf1)

/-! ## the loop of `process_to_completion` -/

open H5V.Lemmas.TBSafe (ptcCont ptcNext processToCompletion_succ)

/-- what a run of `process_to_completion` guarantees -/
structure LoopPost (tok : Token) (s : State) (r : SinkResult) (s' : State) : Prop where
  text : s.mode ≠ .text → s'.mode = .text → isTagTok tok = true ∧ ∃ k, r = .rawData k
  init : s'.mode = .initial → s.mode = .initial ∧ s'.quirksMode = s.quirksMode

/-- the loop goes on after an answer that is not `ToRawData` -/
theorem LoopPost.step {tok tok' : Token} {s s1 s1' s' : State} {a : ProcessResult} {r : SinkResult}
    (hd : DPost tok s a s1) (hno : ∀ k, a ≠ .toRawData k) (hm : s1'.mode = nxt a s1.mode)
    (hq : s1'.quirksMode = s1.quirksMode) (htok : tok' = tok ∨ isTagTok tok' = false)
    (hl : LoopPost tok' s1' r s') : LoopPost tok s r s' := by
  constructor
  · intro h1 h2
    have h3 : s1'.mode ≠ .text := by
      intro e
      obtain ⟨k, hk⟩ := hd.text h1 (hm ▸ e)
      exact hno k hk
    obtain ⟨h4, h5⟩ := hl.text h3 h2
    rcases htok with rfl | h6
    · exact ⟨h4, h5⟩
    · rw [h6] at h4; cases h4
  · intro h1
    obtain ⟨h2, h3⟩ := hl.init h1
    obtain ⟨h4, h5⟩ := hd.init (hm ▸ h2)
    exact ⟨h4, by rw [h3, hq, h5]⟩

/-- the loop ends -/
theorem LoopPost.final {tok : Token} {s s1 s' : State} {a : ProcessResult} {r : SinkResult}
    (hd : DPost tok s a s1) (hnr : ∀ m t, a ≠ .reprocess m t) (hr : ∀ k, a = .toRawData k → r = .rawData k)
    (hf : frT s' = frT s1) : LoopPost tok s r s' := by
  have hn : nxt a s1.mode = s1.mode := nxt_plain hnr _
  constructor
  · intro h1 h2
    rw [(frT_eq hf).1] at h2
    obtain ⟨k, hk⟩ := hd.text h1 (hn.trans h2)
    exact ⟨hd.raw k hk, k, hr k hk⟩
  · intro h1
    rw [(frT_eq hf).1] at h1
    obtain ⟨h2, h3⟩ := hd.init (hn.trans h1)
    exact ⟨h2, by rw [(frT_eq hf).2.2.2.2, h3]⟩

theorem ok_ptcCont {fuel : Nat} {tok : Token} {more : List Token}
    (ih : ∀ tok more s, J s → (∀ t ∈ more, isTagTok t = false) →
      Ok (processToCompletion fuel tok more) s (LoopPost tok s))
    {s s1 : State} {a : ProcessResult} (hd : DPost tok s a s1) (hmo : ∀ t ∈ more, isTagTok t = false) :
    Ok (ptcCont fuel tok more a) s1 (LoopPost tok s) := by
  -- the next token of the queue, from a state with the frame of `s1`
  have hnext : (∀ m t, a ≠ .reprocess m t) → (∀ k, a ≠ .toRawData k) → ∀ s2, frT s2 = frT s1 →
      Ok (ptcNext fuel more) s2 (LoopPost tok s) := by
    intro hnr hno s2 hf2
    have hn : nxt a s1.mode = s1.mode := nxt_plain hnr _
    unfold ptcNext
    cases hmore : more with
    | nil =>
      dsimp only
      exact ok_pure (LoopPost.final hd hnr (fun k e => absurd e (hno k)) hf2)
    | cons t rest =>
      dsimp only
      have hall : ∀ x ∈ t :: rest, isTagTok x = false := by rw [← hmore]; exact hmo
      have hj2 : J s2 := hd.j.of_eq ((frT_eq hf2).1.trans hn.symm) (frT_eq hf2).2.1 (frT_eq hf2).2.2.1
      refine ok_mono (ih t rest s2 hj2 (fun x hx => hall x (List.mem_cons_of_mem _ hx))) ?_
      intro r s' hl
      exact LoopPost.step hd hno ((frT_eq hf2).1.trans hn.symm) (frT_eq hf2).2.2.2.2
        (Or.inr (hall t List.mem_cons_self)) hl
  unfold ptcCont
  dsimp only
  cases a with
  | done =>
    dsimp only
    have hack : ∀ (c : Bool), Ok (if c = true then do
          parseError "Unacknowledged self-closing tag"
          ptcNext fuel more
        else ptcNext fuel more) s1 (LoopPost tok s) := by
      intro c
      split
      · refine ok_fr_bind ?_
        intro _ s2 hf2
        exact hnext (fun _ _ e => by cases e) (fun _ e => by cases e) s2 hf2
      · exact hnext (fun _ _ e => by cases e) (fun _ e => by cases e) s1 rfl
    exact hack _
  | doneAckSelfClosing => exact hnext (fun _ _ e => by cases e) (fun _ e => by cases e) s1 rfl
  | reprocess m t =>
    dsimp only
    have : t = tok := hd.rep m t rfl
    subst this
    unfold setMode
    refine ok_modS_bind ?_
    refine ok_mono (ih t more _ hd.j hmo) ?_
    intro r s' hl
    exact LoopPost.step (s1' := { s1 with mode := m }) hd (fun _ e => by cases e) rfl rfl (Or.inl rfl) hl
  | reprocessForeign t => exact absurd rfl (hd.nrf t)
  | splitWhitespace buf =>
    dsimp only
    cases hpf : popFrontCharRun buf with
    | none =>
      dsimp only
      exact ok_pure (LoopPost.final hd (fun _ _ e => by cases e) (fun _ e => by cases e) rfl)
    | some x =>
      obtain ⟨first, isWs, rest⟩ := x
      dsimp only
      have hj1 : J s1 := hd.j.of_eq rfl rfl rfl
      refine ok_mono (ih _ _ s1 hj1 ?_) ?_
      · intro t ht
        split at ht
        · rcases List.mem_append.mp ht with h | h
          · exact hmo t h
          · rw [List.mem_singleton.mp h]; rfl
        · exact hmo t ht
      · intro r s' hl
        exact LoopPost.step hd (fun _ e => by cases e) rfl rfl (Or.inr rfl) hl
  | script node =>
    dsimp only
    split
    · exact ok_panicAt_bind
    · exact ok_pure (LoopPost.final hd (fun _ _ e => by cases e) (fun _ e => by cases e) rfl)
  | toPlaintext =>
    dsimp only
    split
    · exact ok_panicAt_bind
    · exact ok_pure (LoopPost.final hd (fun _ _ e => by cases e) (fun _ e => by cases e) rfl)
  | toRawData k =>
    dsimp only
    split
    · exact ok_panicAt_bind
    · exact ok_pure (LoopPost.final hd (fun _ _ e => by cases e) (fun k' e => by cases e; rfl) rfl)
  | encodingIndicator e =>
    exact ok_pure (LoopPost.final hd (fun _ _ e => by cases e) (fun _ e => by cases e) rfl)

theorem ok_ptc : ∀ (fuel : Nat) (tok : Token) (more : List Token) (s : State), J s →
    (∀ t ∈ more, isTagTok t = false) → Ok (processToCompletion fuel tok more) s (LoopPost tok s) := by
  intro fuel
  induction fuel with
  | zero =>
    intro tok more s _ _
    unfold processToCompletion
    exact ok_fuelOut
  | succ fuel ih =>
    intro tok more s hj hmo
    rw [processToCompletion_succ]
    refine ok_fr_bind ?_
    intro b s1 hf1
    dsimp only
    split
    · exact ok_bind (ok_stepForeign tok hj hf1) (fun a s2 hd => ok_ptcCont ih hd hmo)
    · refine ok_getS_bind ?_
      exact ok_bind (ok_step_fr tok hj hf1) (fun a s2 hd => ok_ptcCont ih hd hmo)

/-! ## `process_token` -/

/-- what `process_token` guarantees, from a state satisfying `J` -/
structure TokPost (t : TokToken) (s : State) (r : SinkResult) (s' : State) : Prop where
  text : s.mode ≠ .text → s'.mode = .text → (∃ tag, t = .tag tag) ∧ ∃ k, r = .rawData k
  init : s'.mode = .initial → s.mode = .initial ∧ s'.quirksMode = s.quirksMode

theorem ok_pure_bind {α β : Type} {a : α} {f : α → M β} {s : State} {Q : β → State → Prop} (h : Ok (f a) s Q) :
    Ok ((pure a : M α) >>= f) s Q :=
  ok_bind (P := fun b s1 => b = a ∧ s1 = s) (ok_pure ⟨rfl, rfl⟩) (fun _ _ ⟨h1, h2⟩ => h1 ▸ h2 ▸ h)

theorem ok_ite_jp {β : Type} {c : Prop} [Decidable c] {a : M PUnit} {k : PUnit → M β} {s : State}
    {P : State → Prop} {R : β → State → Prop} (ha : c → Ok a s (fun _ s1 => P s1)) (hn : ¬ c → P s)
    (hk : ∀ s1, P s1 → Ok (k PUnit.unit) s1 R) : Ok (if c then a >>= k else k PUnit.unit) s R := by
  split
  · rename_i hc; exact ok_bind (ha hc) (fun _ s1 h => hk s1 h)
  · rename_i hc; exact hk s (hn hc)

/-- the state in which the token (if any) is run to completion, relative to the start state -/
structure Pre (s s3 : State) : Prop where
  text : s.mode ≠ .text → s3.mode ≠ .text
  init : s3.mode = .initial → s.mode = .initial ∧ s3.quirksMode = s.quirksMode

theorem Pre.of_fr {s s3 : State} (h : frT s3 = frT s) : Pre s s3 :=
  ⟨fun h1 => by rw [(frT_eq h).1]; exact h1, fun h1 => ⟨by rw [← (frT_eq h).1]; exact h1, (frT_eq h).2.2.2.2⟩⟩

theorem Pre.of_mode {s s3 : State} (h1 : s3.mode ≠ .text) (h2 : s3.mode ≠ .initial) : Pre s s3 :=
  ⟨fun _ => h1, fun h => absurd h h2⟩

open H5V.Lemmas.TBSafe (ptFinish) in
theorem ok_ptFinish (t : TokToken) {s : State} (tb : Option Token) (s3 : State) (hp : Pre s s3)
    (htb : ∀ tk, tb = some tk → J s3 ∧ (isTagTok tk = true → ∃ tag, t = .tag tag)) :
    Ok (ptFinish tb) s3 (TokPost t s) := by
  unfold ptFinish
  cases tb with
  | none =>
    dsimp only
    exact ok_pure ⟨fun h1 h2 => absurd h2 (hp.text h1), hp.init⟩
  | some tk =>
    dsimp only
    obtain ⟨hj3, htag⟩ := htb tk rfl
    refine ok_getS_bind ?_
    refine ok_mono (ok_ptc _ tk [] s3 hj3 (fun _ h => by cases h)) ?_
    intro r s' hl
    refine ⟨fun h1 h2 => ?_, fun h1 => ?_⟩
    · obtain ⟨h3, h4⟩ := hl.text (hp.text h1) h2
      exact ⟨htag h3, h4⟩
    · obtain ⟨h2, h3⟩ := hl.init h1
      obtain ⟨h4, h5⟩ := hp.init h2
      exact ⟨h4, h3.trans h5⟩

open H5V.Lemmas.TBSafe (ptFinish) in
theorem ok_processToken (t : TokToken) (line : Nat) {s : State} (hj : J s) :
    Ok (processToken t line) s (TokPost t s) := by
  unfold processToken
  refine ok_getS_bind ?_
  dsimp only
  refine ok_ite_jp (P := fun s1 => frT s1 = frT s) (fun _ => ok_fr _ _) (fun _ => rfl) ?_
  intro s1 hf1
  refine ok_getS_bind ?_
  refine ok_modS_bind ?_
  have hf2 : frT ({ s1 with ignoreLf := false } : State) = frT s := hf1
  have hj2 : J ({ s1 with ignoreLf := false } : State) := hj.of_fr hf2
  have hfin : ∀ (tb : Option Token) (s3 : State), Pre s s3 →
      (∀ tk, tb = some tk → J s3 ∧ (isTagTok tk = true → ∃ tag, t = .tag tag)) →
      Ok (ptFinish tb) s3 (TokPost t s) := fun tb s3 h3 h4 => ok_ptFinish t tb s3 h3 h4
  cases t with
  | parseError e =>
    dsimp only
    refine ok_fr_bind ?_
    intro _ s3 hf3
    refine ok_modS_bind ?_
    refine ok_pure_bind ?_
    exact hfin none _ (Pre.of_fr (s3 := { s3 with ignoreLf := s1.ignoreLf }) (hf3.trans hf2)) (fun _ h => by cases h)
  | doctype dt =>
    dsimp only
    refine ok_getS_bind ?_
    have hrest : ∀ s3 : State, Pre s s3 → Ok (parseError "DOCTYPE in body" >>= fun _ =>
        (pure none : M (Option Token)) >>= fun tb => ptFinish tb) s3 (TokPost (.doctype dt) s) := by
      intro s3 hp3
      refine ok_fr_bind ?_
      intro _ s4 hf4
      refine ok_pure_bind ?_
      refine hfin none s4 ⟨fun h => ?_, fun h => ?_⟩ (fun _ h => by cases h)
      · rw [(frT_eq hf4).1]; exact hp3.text h
      · rw [(frT_eq hf4).1] at h
        rw [(frT_eq hf4).2.2.2.2]; exact hp3.init h
    by_cases hmi : ({ s1 with ignoreLf := false } : State).mode = .initial
    · have hmi' : (({ s1 with ignoreLf := false } : State).mode == Mode.initial) = true := by
        rw [hmi]; rfl
      rw [if_pos hmi']
      refine ok_getS_bind ?_
      dsimp only
      refine ok_ite_jp (P := fun s3 => frT s3 = frT s) (fun _ => ok_mono (ok_fr _ _) (fun _ _ h => h.trans hf2))
        (fun _ => hf2) ?_
      intro s3 hf3
      refine ok_getS_bind ?_
      refine ok_ite_jp (P := fun s4 => frT s4 = frT s) (fun _ => ok_mono (ok_fr _ _) (fun _ _ h => h.trans hf3))
        (fun _ => hf3) ?_
      intro s4 hf4
      refine ok_bind (ok_setQuirksMode _ s4) ?_
      rintro _ s5 ⟨h1, h2, h3⟩
      unfold setMode
      refine ok_modS_bind ?_
      refine ok_pure_bind ?_
      exact hfin none _ (Pre.of_mode (s3 := { s5 with mode := .beforeHtml }) (fun h => by cases h) (fun h => by cases h))
        (fun _ h => by cases h)
    · have hmi' : (({ s1 with ignoreLf := false } : State).mode == Mode.initial) = false := by
        cases hm : ({ s1 with ignoreLf := false } : State).mode <;> first | rfl | exact absurd hm hmi
      rw [hmi']
      simp only [Bool.false_eq_true, if_false]
      refine ok_getS_bind ?_
      by_cases hmt : ({ s1 with ignoreLf := false } : State).mode = .inTableText
      · have hmt' : (({ s1 with ignoreLf := false } : State).mode == Mode.inTableText) = true := by
          rw [hmt]; rfl
        rw [if_pos hmt']
        refine ok_bind (ok_flushPendingTableText hj2 hmt) ?_
        rintro m s3 ⟨hm1, hm2, _⟩
        unfold setMode
        refine ok_modS_bind ?_
        exact hrest _ (Pre.of_mode (s3 := { s3 with mode := m }) hm1 hm2)
      · have hmt' : (({ s1 with ignoreLf := false } : State).mode == Mode.inTableText) = false := by
          cases hm : ({ s1 with ignoreLf := false } : State).mode <;> first | rfl | exact absurd hm hmt
        rw [hmt']
        simp only [Bool.false_eq_true, if_false]
        exact hrest _ (Pre.of_fr hf2)
  | tag tg =>
    refine ok_pure_bind ?_
    exact hfin (some (.tag tg)) _ (Pre.of_fr hf2) (fun tk h => by cases h; exact ⟨hj2, fun _ => ⟨tg, rfl⟩⟩)
  | comment c =>
    refine ok_pure_bind ?_
    exact hfin (some (.comment c)) _ (Pre.of_fr hf2) (fun tk h => by cases h; exact ⟨hj2, fun h => by cases h⟩)
  | nullChar =>
    refine ok_pure_bind ?_
    exact hfin (some .nullChar) _ (Pre.of_fr hf2) (fun tk h => by cases h; exact ⟨hj2, fun h => by cases h⟩)
  | eof =>
    refine ok_pure_bind ?_
    exact hfin (some .eof) _ (Pre.of_fr hf2) (fun tk h => by cases h; exact ⟨hj2, fun h => by cases h⟩)
  | chars x =>
    refine ok_pure_bind ?_
    refine hfin (charsToken s1.ignoreLf x) _ (Pre.of_fr hf2) (fun tk h => ⟨hj2, fun h' => ?_⟩)
    unfold charsToken at h
    split at h
    · cases h
    · cases h; cases h'

/-! ## the invariant of the C04 package gives `J` -/

open H5V.Lemmas.TBSafe in
theorem J.of_TI {s : State} (h : TI s) : J s := by
  refine ⟨fun x hx => ?_, fun hm => ?_⟩
  · have h1 := h.s.tmodes x hx
    revert h1
    cases x <;> decide
  · rcases hm with hm | hm
    · obtain ⟨om, ho, hom⟩ := h.s.tableText hm
      refine ⟨fun e => ?_, fun e => ?_⟩ <;>
      · rw [ho] at e
        cases e
        revert hom
        decide
    · obtain ⟨om, ho, hom, _⟩ := h.s.text hm
      refine ⟨fun e => ?_, fun e => ?_⟩ <;>
      · rw [ho] at e
        cases e
        revert hom
        decide

/-! ## an end tag in "text" -/

/-- the allowance used to read the C04 lemmas as partial-correctness statements -/
@[reducible] def allowAny : H5V.Lemmas.TBSafe.Allow := ⟨True, True⟩

attribute [local instance] allowAny

open H5V.Lemmas.TBSafe in
theorem ok_of_sat {α : Type} {m : M α} {s : State} {Q : α → State → Prop} (h : Sat m s Q) : Ok m s Q := by
  intro a s' e
  unfold Sat at h
  rw [e] at h
  exact h

theorem ok_stepText_endTag {tg : Tag} (hk : tg.kind = .endTag) (s : State) :
    Ok (stepText (.tag tg)) s (fun a s' => (a = .done ∨ ∃ n, a = .script n) ∧
      ∃ m, s.origMode = some m ∧ s'.mode = m) := by
  unfold stepText
  dsimp only
  have hk' : (tg.kind == .endTag) = true := by rw [hk]; rfl
  rw [if_pos hk']
  refine ok_fr_bind ?_
  intro node s1 hf1
  refine ok_getS_bind ?_
  split
  · exact ok_panicAt
  · rename_i m hom
    refine ok_set_bind ?_
    have hom' : s.origMode = some m := by rw [← (frT_eq hf1).2.1]; exact hom
    split
    · exact ok_pure ⟨Or.inr ⟨_, rfl⟩, m, hom', rfl⟩
    · exact ok_pure ⟨Or.inl rfl, m, hom', rfl⟩

open H5V.Lemmas.TBSafe in
theorem ok_processToken_text_endTag (tg : Tag) (line : Nat) {s : State} (hti : TI s) (hm : s.mode = .text)
    (hk : tg.kind = .endTag) : Ok (processToken (.tag tg) line) s (fun _ s' => s'.mode ≠ .text) := by
  obtain ⟨om, hom, hok, -⟩ := hti.s.text hm
  have hne : om ≠ .text := by rintro rfl; revert hok; decide
  unfold processToken
  refine ok_getS_bind ?_
  dsimp only
  refine ok_ite_jp (P := fun s1 => TI s1 ∧ s1.mode = .text ∧ s1.origMode = some om)
    (fun _ => ok_mono (ok_of_sat (sat_sinkUnit_total ⟨_, _, apply_setLine _ _⟩))
      (fun _ s1 hq => ⟨hti.of_qf hq, hq.mode.trans hm, hq.origMode.trans hom⟩)) (fun _ => ⟨hti, hm, hom⟩) ?_
  rintro s1 ⟨ht1, hm1, ho1⟩
  refine ok_getS_bind ?_
  refine ok_modS_bind ?_
  refine ok_pure_bind ?_
  dsimp only
  refine ok_getS_bind ?_
  have ht2 : TI { s1 with ignoreLf := false } := ht1.withIgnoreLf false
  generalize ptcFuel _ _ = fuel
  cases fuel with
  | zero => unfold processToCompletion; exact ok_fuelOut
  | succ fuel =>
    rw [processToCompletion_succ]
    refine ok_bind (ok_of_sat (sat_isForeign ht2.h)) ?_
    rintro b s3 ⟨hq, hb⟩
    have hbf : b = false := by
      cases b with
      | false => rfl
      | true =>
        have h1 := bodyLike_of_foreign ht2 (hb rfl)
        rw [show ({ s1 with ignoreLf := false } : State).mode = .text from hm1] at h1
        revert h1; decide
    subst hbf
    dsimp only
    simp only [Bool.false_eq_true, if_false]
    refine ok_getS_bind ?_
    have hm3 : s3.mode = .text := hq.mode.trans hm1
    have ho3 : s3.origMode = some om := hq.origMode.trans ho1
    rw [hm3]
    unfold step
    dsimp only
    refine ok_bind (ok_stepText_endTag hk s3) ?_
    rintro a s4 ⟨ha, m, hom4, hm4⟩
    have hmo : m = om := by rw [ho3] at hom4; exact (Option.some.inj hom4).symm
    have hne4 : s4.mode ≠ .text := by rw [hm4, hmo]; exact hne
    unfold ptcCont
    dsimp only
    rcases ha with rfl | ⟨n, rfl⟩
    · dsimp only
      split
      · refine ok_fr_bind ?_
        intro _ s5 hf5
        exact ok_pure (by rw [(frT_eq hf5).1]; exact hne4)
      · exact ok_pure hne4
    · dsimp only
      split
      · exact ok_panicAt_bind
      · exact ok_pure hne4

end H5V.Lemmas.ParseSpec.TextMode

namespace H5V.Lemmas.ParseSpec
open H5V.Model.HtmlTB
open H5V.Lemmas.ParseSpec.TextMode

/-- (1), from the loop invariant `TextMode.J` alone -/
theorem processToken_enters_text_of_J (t : TokToken) (line : Nat) (s s' : State) (r : SinkResult)
    (hj : TextMode.J s) (h : (processToken t line).run s = .ok (r, s')) (h1 : s.mode ≠ .text)
    (h2 : s'.mode = .text) : ∃ tag k, t = .tag tag ∧ r = .rawData k := by
  obtain ⟨⟨tag, ht⟩, k, hr⟩ := (ok_processToken t line hj r s' h).text h1 h2
  exact ⟨tag, k, ht, hr⟩

/-- **(1) the "text" insertion mode is only entered by a tag token that is answered with `RawData k`**
(`to_raw_text_mode` is the only place that sets `mode := .text`, and its answer `ToRawData k` makes
`process_to_completion` return `RawData k` at once) -/
theorem processToken_enters_text (t : TokToken) (line : Nat) (s s' : State) (r : SinkResult)
    (hti : H5V.Lemmas.TBSafe.TI s) (h : (processToken t line).run s = .ok (r, s')) (h1 : s.mode ≠ .text)
    (h2 : s'.mode = .text) : ∃ tag k, t = .tag tag ∧ r = .rawData k :=
  processToken_enters_text_of_J t line s s' r (J.of_TI hti) h h1 h2

/-- **(2) in the "text" insertion mode an end tag leaves the mode** (the invariant of the C04 package
switches the foreign-content dispatcher off and says that `orig_mode` is not "text") -/
theorem processToken_text_endTag (tg : Tag) (line : Nat) (s s' : State) (r : SinkResult)
    (hti : H5V.Lemmas.TBSafe.TI s) (h : (processToken (.tag tg) line).run s = .ok (r, s')) (hm : s.mode = .text)
    (hk : tg.kind = .endTag) : s'.mode ≠ .text :=
  ok_processToken_text_endTag tg line hti hm hk r s' h

/-- **(3) the options never change** -/
theorem processToken_opts (t : TokToken) (line : Nat) (s s' : State) (r : SinkResult)
    (h : (processToken t line).run s = .ok (r, s')) : s'.opts = s.opts :=
  ko_run (inferInstance : KO (processToken t line)) h

/-- (4), from the loop invariant `TextMode.J` alone -/
theorem processToken_initial_of_J (t : TokToken) (line : Nat) (s s' : State) (r : SinkResult)
    (hj : TextMode.J s) (h : (processToken t line).run s = .ok (r, s')) (h2 : s'.mode = .initial) :
    s.mode = .initial ∧ s'.quirksMode = s.quirksMode :=
  (ok_processToken t line hj r s' h).init h2

/-- **(4) the "initial" insertion mode is never re-entered, and while the builder stays in it the
quirks mode is untouched** -/
theorem processToken_initial (t : TokToken) (line : Nat) (s s' : State) (r : SinkResult)
    (hti : H5V.Lemmas.TBSafe.TI s) (h : (processToken t line).run s = .ok (r, s')) (h2 : s'.mode = .initial) :
    s.mode = .initial ∧ s'.quirksMode = s.quirksMode :=
  processToken_initial_of_J t line s s' r (J.of_TI hti) h h2

/-- the same for one round of `process_to_completion` -/
theorem processToCompletion_opts (fuel : Nat) (tok : Token) (more : List Token) (s s' : State) (r : SinkResult)
    (h : (processToCompletion fuel tok more).run s = .ok (r, s')) : s'.opts = s.opts :=
  ko_run (inferInstance : KO (processToCompletion fuel tok more)) h

end H5V.Lemmas.ParseSpec
