import H5V.Lemmas.HtmlTBModesPrimFmt
/-!
Simulation lemmas for the adoption agency algorithm (`adoptionAgency`, `handleMisnestedATags`,
`positionInActiveFormatting`, `afRemove`, `removeFromStack` of `Model/HtmlTB/Actions.lean`) against
`Spec/TreeModes2.lean`.
-/
namespace H5V.Lemmas.HtmlTBModes
open H5V.Model.HtmlTB
open H5V.Model.Dom (Id SinkOp Output Dom QualName Attr NodeOrText ElementFlags NodeData QuirksMode)
open H5V.Lemmas.HtmlTBAlgo
open H5V.Lemmas.TBSafe (TI HInv SInv Rooted)
open H5V.Spec.TreeAlgo2 (Elem Entry PState Ctx Edit Place)
open H5V.Spec.TreeModes (STok ETok IMode Config Out TokSwitch XOp Op Step Edition)

/-! ### what the adoption agency algorithm does to the stack, the list, the supply and the log -/
section DeltaAA
variable {N T : Type} [DecidableEq N]

omit [DecidableEq N] in
theorem findFormattingRev_mem (cx : Ctx T) (subject : Spec.TreeAlgo.Str) : ∀ (l : List (Entry N T)) (len i : Nat) (n : N) (t : T),
    Spec.TreeAlgo2.findFormattingRev cx subject l len = some (i, n, t) → Entry.element n t ∈ l := by
  intro l
  induction l with
  | nil => intro len i n t h; cases h
  | cons e rest ih =>
    intro len i n t h
    cases e with
    | marker => cases h
    | element m tok =>
      simp only [Spec.TreeAlgo2.findFormattingRev] at h
      split at h
      · cases h; exact List.mem_cons_self ..
      · exact List.mem_cons_of_mem _ (ih _ _ _ _ h)

omit [DecidableEq N] in
theorem findFormattingElement_mem {cx : Ctx T} {subject : Spec.TreeAlgo.Str} {l : List (Entry N T)} {i : Nat} {n : N} {t : T}
    (h : Spec.TreeAlgo2.findFormattingElement cx subject l = some (i, n, t)) : Entry.element n t ∈ l :=
  List.mem_reverse.mp (findFormattingRev_mem cx subject _ _ _ _ _ h)

theorem take_eraseIdx_of_le {α : Type} (l : List α) {n i : Nat} (h : n ≤ i) : (l.eraseIdx i).take n = l.take n := by
  apply List.ext_getElem?
  intro j
  simp only [List.getElem?_take, List.getElem?_eraseIdx]
  by_cases hj : j < n
  · simp only [hj, if_true]
    have : j < i := by omega
    simp [this]
  · simp [hj]

/-- the inner loop: `Delta` -/
theorem innerLoop_delta (cx : Ctx T) (P : T → Prop) (fe fb : N) : ∀ (idx counter : Nat) (lastNode : N)
    (bm : Spec.TreeAlgo2.Bookmark N) (st : PState N T) (r : PState N T × N × Spec.TreeAlgo2.Bookmark N), TokOk P st →
    Spec.TreeAlgo2.innerLoop cx fe fb idx counter lastNode bm st = some r → Delta P st r.1 := by
  intro idx
  induction idx with
  | zero => intro _ _ _ _ _ _ h; cases h
  | succ idx ih =>
    intro counter lastNode bm st r ht h
    unfold Spec.TreeAlgo2.innerLoop at h
    cases hnode : st.stack[idx]? with
    | none => rw [hnode] at h; cases h
    | some node =>
      rw [hnode] at h
      simp only [] at h
      by_cases hfe : node.id = fe
      · simp only [hfe, if_true, Option.some.injEq] at h
        subst h; exact Delta.refl _ _
      · simp only [hfe, if_false] at h
        cases hpos : Spec.TreeAlgo2.listPos node.id st.list with
        | none =>
          rw [hpos] at h
          simp only [Spec.TreeAlgo.innerLoopAction, Option.isSome_none, Bool.and_false, Bool.false_eq_true,
            if_false, Bool.not_false, if_true] at h
          have hd : Delta P st { st with stack := st.stack.eraseIdx idx } :=
            Delta.sub rfl rfl (fun e he => List.mem_of_mem_eraseIdx he) (fun e he => he)
          exact hd.trans (ih _ _ _ _ _ (hd.tokOk ht) h)
        | some i =>
          rw [hpos] at h
          simp only [Spec.TreeAlgo.innerLoopAction, Option.isSome_some, Bool.and_true, Bool.not_true,
            Bool.false_eq_true, if_false, decide_eq_true_eq] at h
          by_cases hlim : counter + 1 > Spec.TreeTables.adoptionInnerLimit
          · simp only [hlim, if_true] at h
            have hd : Delta P st { st with list := st.list.eraseIdx i, stack := st.stack.eraseIdx idx } :=
              Delta.sub rfl rfl (fun e he => List.mem_of_mem_eraseIdx he) (fun e he => List.mem_of_mem_eraseIdx he)
            exact hd.trans (ih _ _ _ _ _ (hd.tokOk ht) h)
          · simp only [hlim, if_false] at h
            cases hent : st.list[i]? with
            | none => rw [hent] at h; cases h
            | some e =>
              cases e with
              | marker => rw [hent] at h; cases h
              | element x tok =>
                rw [hent] at h
                simp only [PState.newNode] at h
                cases hs : st.supply with
                | nil => rw [hs] at h; cases h
                | cons n rest =>
                  rw [hs] at h
                  simp only [Option.bind_some] at h
                  have hP : P tok := ht x tok (List.mem_of_getElem? hent)
                  have hd : Delta P st
                      { stack := st.stack.set idx ⟨n, ⟨Spec.TreeAlgo.nsHtml, cx.tokName tok⟩⟩,
                        list := st.list.set i (.element n tok), fosterParenting := st.fosterParenting,
                        formPointer := st.formPointer, supply := rest,
                        log := st.log ++ [.create n Spec.TreeAlgo.nsHtml tok, .remove lastNode,
                          .insert (.lastChildOf n) lastNode] } := by
                    refine Delta.new n tok (cx.tokName tok) hP hs _ rfl (by simp) ?_ ?_
                    · intro e he; exact List.mem_or_eq_of_mem_set he
                    · intro e he; exact List.mem_or_eq_of_mem_set he
                  exact hd.trans (ih _ _ _ _ _ (hd.tokOk ht) h)

/-- the inner loop does not touch the stack from the formatting element upwards -/
theorem innerLoop_prefix (cx : Ctx T) (fe fb : N) : ∀ (idx counter : Nat) (lastNode : N)
    (bm : Spec.TreeAlgo2.Bookmark N) (st : PState N T) (r : PState N T × N × Spec.TreeAlgo2.Bookmark N),
    Spec.TreeAlgo2.innerLoop cx fe fb idx counter lastNode bm st = some r →
    ∀ (pos : Nat) (e : Elem N), st.stack[pos]? = some e → e.id = fe → pos < idx →
      r.1.stack.take (pos + 1) = st.stack.take (pos + 1) := by
  intro idx
  induction idx with
  | zero => intro _ _ _ _ _ h; cases h
  | succ idx ih =>
    intro counter lastNode bm st r h pos e hpe hid hlt
    unfold Spec.TreeAlgo2.innerLoop at h
    cases hnode : st.stack[idx]? with
    | none => rw [hnode] at h; cases h
    | some node =>
      rw [hnode] at h
      simp only [] at h
      by_cases hfe : node.id = fe
      · simp only [hfe, if_true, Option.some.injEq] at h
        subst h; rfl
      · simp only [hfe, if_false] at h
        have hpi : pos < idx := by
          have : pos ≠ idx := by
            intro hh; subst hh; rw [hnode] at hpe; cases hpe; exact hfe hid
          omega
        have herase : ((st.stack.eraseIdx idx)[pos]? = some e) ∧
            (st.stack.eraseIdx idx).take (pos + 1) = st.stack.take (pos + 1) := by
          refine ⟨?_, take_eraseIdx_of_le _ (by omega)⟩
          rw [List.getElem?_eraseIdx]; simp [hpi, hpe]
        cases hpos : Spec.TreeAlgo2.listPos node.id st.list with
        | none =>
          rw [hpos] at h
          simp only [Spec.TreeAlgo.innerLoopAction, Option.isSome_none, Bool.and_false, Bool.false_eq_true,
            if_false, Bool.not_false, if_true] at h
          rw [ih _ _ _ _ _ h pos e herase.1 hid hpi]; exact herase.2
        | some i =>
          rw [hpos] at h
          simp only [Spec.TreeAlgo.innerLoopAction, Option.isSome_some, Bool.and_true, Bool.not_true,
            Bool.false_eq_true, if_false, decide_eq_true_eq] at h
          by_cases hlim : counter + 1 > Spec.TreeTables.adoptionInnerLimit
          · simp only [hlim, if_true] at h
            rw [ih _ _ _ _ _ h pos e herase.1 hid hpi]; exact herase.2
          · simp only [hlim, if_false] at h
            cases hent : st.list[i]? with
            | none => rw [hent] at h; cases h
            | some en =>
              cases en with
              | marker => rw [hent] at h; cases h
              | element x tok =>
                rw [hent] at h
                simp only [PState.newNode] at h
                cases hs : st.supply with
                | nil => rw [hs] at h; cases h
                | cons n rest =>
                  rw [hs] at h
                  simp only [Option.bind_some] at h
                  have h1 := ih _ _ _ _ _ h pos e (by
                    simp only []
                    rw [List.getElem?_set_ne (by omega)]; exact hpe) hid hpi
                  rw [h1]
                  exact List.take_set_of_le (by omega)

omit [DecidableEq N] in
theorem head?_insertIdx_eraseIdx {α : Type} (l : List α) {p j : Nat} (x : α) (hp : 0 < p) (e : α)
    (h : ((l.eraseIdx p).insertIdx (j + 1) x).head? = some e) : l.head? = some e := by
  rw [TBSafe.head?_insertIdx_succ, TBSafe.head?_eraseIdx_pos hp] at h
  exact h

omit [DecidableEq N] in
theorem mem_insertIdx' {α : Type} {a b : α} {i : Nat} {l : List α} (h : a ∈ l.insertIdx i b) : a = b ∨ a ∈ l := by
  by_cases hi : i ≤ l.length
  · exact (List.mem_insertIdx hi).mp h
  · rw [List.insertIdx_of_length_lt (by omega)] at h; exact Or.inr h

/-- steps 14–19: `Delta`, and the first stack entry stays when the formatting element is not the first -/
theorem finishRound_delta (cx : Ctx T) (P : T → Prop) (fe : N) (feTok : T) (fb ca : Elem N) (st st' : PState N T)
    (lastNode : N) (bm : Spec.TreeAlgo2.Bookmark N) (hP : P feTok)
    (h : Spec.TreeAlgo2.finishRound cx fe feTok fb ca st lastNode bm = some st') :
    Delta P st st' ∧ ∃ p, Spec.TreeAlgo2.stackPos fe st.stack = some p ∧ (0 < p → HeadPres st st') := by
  unfold Spec.TreeAlgo2.finishRound at h
  cases hloc : Spec.TreeAlgo2.appropriatePlace st.stack st.fosterParenting (some ca) with
  | none => rw [hloc] at h; cases h
  | some loc =>
    rw [hloc] at h
    simp only [Option.bind_some, PState.newNode] at h
    cases hs : st.supply with
    | nil => rw [hs] at h; cases h
    | cons n rest =>
      rw [hs] at h
      simp only [Option.bind_some] at h
      -- the list of step 18
      have key : ∀ (list : List (Entry N T)), (∀ e ∈ list, e ∈ st.list ∨ e = Entry.element n feTok) →
          ((Spec.TreeAlgo2.stackPos fe st.stack).bind fun p =>
            ((st.stack.eraseIdx p).findIdx? (fun e => e.id == fb.id)).map fun j =>
              ({ stack := (st.stack.eraseIdx p).insertIdx (j + 1) ⟨n, ⟨Spec.TreeAlgo.nsHtml, cx.tokName feTok⟩⟩,
                 list := list, fosterParenting := st.fosterParenting, formPointer := st.formPointer, supply := rest,
                 log := st.log ++ [Edit.remove lastNode, Edit.insert loc lastNode,
                   Edit.create n Spec.TreeAlgo.nsHtml feTok, Edit.moveChildren fb.id n,
                   Edit.insert (.lastChildOf fb.id) n] } : PState N T)) = some st' →
          Delta P st st' ∧ ∃ p, Spec.TreeAlgo2.stackPos fe st.stack = some p ∧ (0 < p → HeadPres st st') := by
        intro list hlist h
        cases hp : Spec.TreeAlgo2.stackPos fe st.stack with
        | none => rw [hp] at h; cases h
        | some p =>
          rw [hp] at h
          simp only [Option.bind_some] at h
          cases hj : (st.stack.eraseIdx p).findIdx? (fun e => e.id == fb.id) with
          | none => rw [hj] at h; cases h
          | some j =>
            rw [hj] at h
            simp only [Option.map_some, Option.some.injEq] at h
            subst h
            refine ⟨Delta.new n feTok (cx.tokName feTok) hP hs _ rfl (by simp) ?_ hlist, p, rfl, ?_⟩
            · intro e he
              rcases mem_insertIdx' he with h1 | h1
              · exact Or.inr h1
              · exact Or.inl (List.mem_of_mem_eraseIdx h1)
            · intro hp0 e he
              exact head?_insertIdx_eraseIdx st.stack _ hp0 e he
      cases bm with
      | atFormattingElement =>
        simp only [] at h
        cases hlp : Spec.TreeAlgo2.listPos fe st.list with
        | none => rw [hlp] at h; cases h
        | some i =>
          rw [hlp] at h
          simp only [Option.map_some, Option.bind_some] at h
          exact key _ (fun e he => List.mem_or_eq_of_mem_set he) h
      | after x =>
        simp only [] at h
        cases hlp : Spec.TreeAlgo2.listPos fe st.list with
        | none => rw [hlp] at h; cases h
        | some i =>
          rw [hlp] at h
          simp only [Option.bind_some, Spec.TreeAlgo2.insertAfter] at h
          cases hlx : Spec.TreeAlgo2.listPos x (st.list.eraseIdx i) with
          | none => rw [hlx] at h; cases h
          | some k =>
            rw [hlx] at h
            simp only [Option.map_some, Option.bind_some] at h
            refine key _ (fun e he => ?_) h
            rcases mem_insertIdx' he with h1 | h1
            · exact Or.inr h1
            · exact Or.inl (List.mem_of_mem_eraseIdx h1)

/-- the state of the result of a round -/
def roundSt : Spec.TreeAlgo2.Round N T → PState N T
  | .done st => st
  | .anyOtherEndTag st => st
  | .again st => st

omit [DecidableEq N] in
theorem furthestBlock_pos {stack : List (Elem N)} {pos fbPos : Nat} {fb : Elem N}
    (h : Spec.TreeAlgo2.furthestBlock stack pos = some (fbPos, fb)) : pos < fbPos := by
  unfold Spec.TreeAlgo2.furthestBlock at h
  simp only [] at h
  cases hj : List.findIdx? Spec.TreeAlgo2.isSpecial (List.drop (pos + 1) stack) with
  | none => rw [hj] at h; cases h
  | some j =>
    rw [hj] at h
    simp only [Option.bind_some] at h
    cases he : (List.drop (pos + 1) stack)[j]? with
    | none => rw [he] at h; cases h
    | some e =>
      rw [he] at h
      simp only [Option.map_some, Option.some.injEq, Prod.mk.injEq] at h
      omega

omit [DecidableEq N] in
theorem head?_of_take_eq {α : Type} {l l' : List α} {k : Nat} (h : l'.take (k + 1) = l.take (k + 1)) : l'.head? = l.head? := by
  have h1 := congrArg List.head? h
  simpa [List.head?_take] using h1

/-- one round of the outer loop: `Delta`, and the first stack entry stays -/
theorem outerRound_delta (cx : Ctx T) (P : T → Prop) (subject : Spec.TreeAlgo.Str) (st : PState N T)
    (r : Spec.TreeAlgo2.Round N T) (ht : TokOk P st) (h : Spec.TreeAlgo2.outerRound cx subject st = some r) :
    Delta P st (roundSt r) ∧ HeadPres st (roundSt r) := by
  unfold Spec.TreeAlgo2.outerRound at h
  cases hf : Spec.TreeAlgo2.findFormattingElement cx subject st.list with
  | none =>
    rw [hf] at h; simp only [Option.some.injEq] at h; subst h
    exact ⟨Delta.refl _ _, HeadPres.refl _⟩
  | some fr =>
    obtain ⟨fePos, fe, feTok⟩ := fr
    rw [hf] at h
    simp only [] at h
    have hPfe : P feTok := ht fe feTok (findFormattingElement_mem hf)
    cases hsp : Spec.TreeAlgo2.stackPos fe st.stack with
    | none =>
      rw [hsp] at h; simp only [Option.some.injEq] at h; subst h
      exact ⟨Delta.sub rfl rfl (fun _ he => he) (fun _ he => List.mem_of_mem_eraseIdx he), fun _ he => he⟩
    | some pos =>
      rw [hsp] at h
      simp only [] at h
      by_cases hsc : Spec.TreeAlgo2.hasNodeInScope fe Spec.TreeAlgo.defaultScopeList st.stack.reverse = true
      · simp only [hsc, Bool.not_true, Bool.false_eq_true, if_false] at h
        cases hfb : Spec.TreeAlgo2.furthestBlock st.stack pos with
        | none =>
          rw [hfb] at h; simp only [Option.some.injEq] at h; subst h
          refine ⟨Delta.sub rfl rfl (fun _ he => List.mem_of_mem_take he) (fun _ he => List.mem_of_mem_eraseIdx he), ?_⟩
          intro e he
          simp only [roundSt, List.head?_take] at he
          split at he
          · cases he
          · exact he
        | some fbr =>
          obtain ⟨fbPos, fb⟩ := fbr
          rw [hfb] at h
          simp only [] at h
          by_cases hp0 : pos = 0
          · simp only [hp0, if_true] at h; cases h
          · simp only [hp0, if_false] at h
            cases hca : st.stack[pos - 1]? with
            | none => rw [hca] at h; cases h
            | some ca =>
              rw [hca] at h
              simp only [Option.bind_some] at h
              cases hin : Spec.TreeAlgo2.innerLoop cx fe fb.id fbPos 0 fb.id Spec.TreeAlgo2.Bookmark.atFormattingElement st with
              | none => rw [hin] at h; cases h
              | some r1 =>
                rw [hin] at h
                simp only [Option.bind_some] at h
                cases hfin : Spec.TreeAlgo2.finishRound cx fe feTok fb ca r1.1 r1.2.1 r1.2.2 with
                | none => rw [hfin] at h; cases h
                | some st2 =>
                  rw [hfin] at h
                  simp only [Option.map_some, Option.some.injEq] at h
                  subst h
                  have d1 := innerLoop_delta cx P fe fb.id _ _ _ _ _ _ ht hin
                  obtain ⟨d2, p, hp, hhead⟩ := finishRound_delta cx P fe feTok fb ca r1.1 st2 r1.2.1 r1.2.2 hPfe hfin
                  refine ⟨d1.trans d2, ?_⟩
                  -- the formatting element stays where it is
                  obtain ⟨e, hpe, hide⟩ := lastPos_spec (fun e : Elem N => e.id == fe) st.stack pos hsp
                  have hid : e.id = fe := by simpa using hide
                  have hpre := innerLoop_prefix cx fe fb.id _ _ _ _ _ _ hin pos e hpe hid (furthestBlock_pos hfb)
                  have hpe1 : r1.1.stack[pos]? = some e := by
                    have := congrArg (fun l => l[pos]?) hpre
                    simpa [List.getElem?_take, hpe] using this
                  have hpp : pos ≤ p := by
                    by_cases hlt : p < pos
                    · have := lastPos_max (fun e : Elem N => e.id == fe) r1.1.stack p hp pos e hlt hpe1
                      rw [hide] at this; cases this
                    · omega
                  have h1 : HeadPres st r1.1 := by
                    intro e' he'; rw [← head?_of_take_eq hpre]; exact he'
                  exact h1.trans (hhead (by omega))
      · simp only [hsc, Bool.not_false, if_true, Option.some.injEq] at h
        subst h
        exact ⟨Delta.refl _ _, HeadPres.refl _⟩

theorem outerLoop_delta (cx : Ctx T) (P : T → Prop) (subject : Spec.TreeAlgo.Str) : ∀ (n : Nat) (st : PState N T)
    (r : PState N T × Bool), TokOk P st → Spec.TreeAlgo2.outerLoop cx subject n st = some r →
    Delta P st r.1 ∧ HeadPres st r.1 := by
  intro n
  induction n with
  | zero =>
    intro st r _ h
    simp only [Spec.TreeAlgo2.outerLoop, Option.some.injEq] at h
    subst h; exact ⟨Delta.refl _ _, HeadPres.refl _⟩
  | succ n ih =>
    intro st r ht h
    unfold Spec.TreeAlgo2.outerLoop at h
    cases hr : Spec.TreeAlgo2.outerRound cx subject st with
    | none => rw [hr] at h; cases h
    | some rr =>
      rw [hr] at h
      obtain ⟨d1, h1⟩ := outerRound_delta cx P subject st rr ht hr
      cases rr with
      | done st1 => simp only [Option.some.injEq] at h; subst h; exact ⟨d1, h1⟩
      | anyOtherEndTag st1 => simp only [Option.some.injEq] at h; subst h; exact ⟨d1, h1⟩
      | again st1 =>
        simp only [] at h
        obtain ⟨d2, h2⟩ := ih st1 r (d1.tokOk ht) h
        exact ⟨d1.trans d2, h1.trans h2⟩

omit [DecidableEq N] in
/-- implied end tags: a prefix of the stack -/
theorem generateImpliedEndTags_prefix (except : Option Spec.TreeAlgo.Str) (stack : List (Elem N)) :
    Spec.TreeAlgo2.generateImpliedEndTags except stack <+: stack := by
  unfold Spec.TreeAlgo2.generateImpliedEndTags
  refine ⟨(stack.reverse.takeWhile fun e => Spec.TreeAlgo.impliedEndTag except e.name).reverse, ?_⟩
  rw [← List.reverse_append, List.takeWhile_append_dropWhile, List.reverse_reverse]

omit [DecidableEq N] in
/-- "any other end tag": a prefix of the stack -/
theorem anyOtherEndTag_prefix (name : Spec.TreeAlgo.Str) (stack : List (Elem N)) :
    Spec.TreeAlgo2.anyOtherEndTag name stack <+: stack := by
  unfold Spec.TreeAlgo2.anyOtherEndTag
  split
  · exact List.prefix_refl _
  · exact (List.take_prefix _ _).trans (generateImpliedEndTags_prefix _ _)

/-- the adoption agency algorithm with its fallback: `Delta`, and the first stack entry stays -/
theorem adoptionAgencyWithFallback_delta (cx : Ctx T) (P : T → Prop) (subject : Spec.TreeAlgo.Str) (st st' : PState N T)
    (ht : TokOk P st) (h : Spec.TreeAlgo2.adoptionAgencyWithFallback cx subject st = some st') :
    Delta P st st' ∧ HeadPres st st' := by
  unfold Spec.TreeAlgo2.adoptionAgencyWithFallback at h
  cases ha : Spec.TreeAlgo2.adoptionAgency cx subject st with
  | none => rw [ha] at h; cases h
  | some r =>
    obtain ⟨st1, b⟩ := r
    rw [ha] at h
    simp only [Option.map_some, Option.some.injEq] at h
    have h1 : Delta P st st1 ∧ HeadPres st st1 := by
      unfold Spec.TreeAlgo2.adoptionAgency at ha
      cases hl : st.stack.getLast? with
      | none => rw [hl] at ha; cases ha
      | some cur =>
        rw [hl] at ha
        simp only [] at ha
        split at ha
        · simp only [Option.some.injEq, Prod.mk.injEq] at ha
          obtain ⟨ha1, _⟩ := ha
          subst ha1
          refine ⟨Delta.sub rfl rfl (fun e he => List.dropLast_subset _ he) (fun _ he => he), ?_⟩
          intro e he
          simp only [List.head?_dropLast] at he
          split at he
          · exact he
          · cases he
        · exact outerLoop_delta cx P subject _ st (st1, b) ht ha
    cases b with
    | false => simp only [Bool.false_eq_true, if_false] at h; subst h; exact h1
    | true =>
      simp only [if_true] at h
      subst h
      have hpre := anyOtherEndTag_prefix subject st1.stack
      have d2 : Delta P st1 { st1 with stack := Spec.TreeAlgo2.anyOtherEndTag subject st1.stack } :=
        Delta.sub rfl rfl (fun e he => hpre.subset he) (fun _ he => he)
      exact ⟨h1.1.trans d2, h1.2.trans (fun e he => head?_of_isPrefix hpre e he)⟩

end DeltaAA
/-! ### 4. the adoption agency algorithm -/

/-- `adoptionAgency subject` (Actions.lean) ↔ `Spec.TreeModes.adoptionAgency` (TreeModes2:
`TreeAlgo2.adoptionAgencyWithFallback` on the `PState`) -/
theorem pc_adoptionAgency {s : State} (hm : MInv s) (subject : Str) :
    PC (H5V.Model.HtmlTB.adoptionAgency subject) s (fun _ s' calls => SameButStackList s s' ∧ (AFWf s → AFWf s') ∧
      Tr s s' calls (fun x x' => Spec.TreeModes.adoptionAgency (absF s x) subject = .ok (absF s' x'))) := by
  by_cases hne : s.openElems = []
  · rw [adoptionAgency_eq]
    refine pc_bind ?_
    unfold currentNodeNamedS
    refine pc_bind ?_
    exact pc_currentNode_nil hne _
  · refine pc_conseq (PC.of_tot (tot_adoptionAgency subject s hm.elems (hm.headOk hne) hm.af)) ?_
    rintro _ s' calls he ⟨ids, L, hL, hspec, hS, hok', hfresh⟩
    have hsp0 := hspec [] []
    rw [List.append_nil, List.nil_append] at hsp0
    obtain ⟨hD, hH⟩ := adoptionAgencyWithFallback_delta tagCtx _ subject _ _ (tokOk_absState s ids []) hsp0
    obtain ⟨hm', hnew, htok⟩ := minv_of_delta hm he hS hok' ids L hfresh (hL _ (TcOk.self _)) hD hH
    refine ⟨hS, fun hw => hw.of_new hm he.ext htok, ?_⟩
    refine (tr_of_phase1 hm he hS hm' hnew ids (FreshIds.of_size hfresh) L hL).conseq ?_
    rintro x x' hx _ ⟨hx', ⟨rest, hsup⟩, hF⟩
    subst hx'
    unfold Spec.TreeModes.adoptionAgency
    rw [absF_p, absP_eq s x hx.live, adoptionAgencyWithFallback_mapP etokOf ctxMap_etok, hsup, hspec rest x.logT]
    simp only [Option.map_some, Spec.TreeModes.req]
    rw [absP_step s' hx.live hsup L [], hF]
    rfl

/-! ### positions in the list, removals from the list and the stack -/

/-- a stretch in which only a parse error is noted on the side of the specification -/
theorem Tr.err {s : State} (hm : MInv s) (w : String) :
    Tr s s [] (fun x x' => x' = { x with errors := x.errors ++ [w] }) :=
  ⟨hm, rfl, TBSafe.Ext.refl _, [], FreshIds.nil _, fun x rest hx hs => ⟨{ x with errors := x.errors ++ [w] },
    ⟨⟨hx.live, hx.annot, hx.annotEl, hx.xlog⟩, by simpa using hs, rfl, rfl, rfl, [], by simp [Aux.fullLog],
      fun _ _ => rfl⟩, rfl⟩⟩

theorem absF_err (s : State) (x : Aux) (w : String) :
    absF s { x with errors := x.errors ++ [w] } = (absF s x).err w := rfl

theorem listPos_absListE (e : Id) (af : List FormatEntry) :
    Spec.TreeAlgo2.listPos e (absListE af) = Spec.TreeAlgo2.listPos e (absList af) := by
  rw [absListE_mapTok, listPos_map]

/-- `positionInActiveFormatting e` (Actions.lean) ↔ `TreeAlgo2.listPos e` on the list -/
theorem pc_positionInActiveFormatting {s : State} (hm : MInv s) (e : Id) :
    PC (positionInActiveFormatting e) s (fun r s' calls => SameTB s s' ∧
      r = Spec.TreeAlgo2.listPos e (absList s.activeFormatting) ∧
      Tr s s' calls (fun x x' => x' = x ∧ absF s x = absF s' x ∧ r = Spec.TreeAlgo2.listPos e (absF s x).p.list)) := by
  refine pc_conseq (PC.of_tot (tot_positionInAF s e)) ?_
  rintro r s' calls he ⟨hr, hs, hc⟩
  refine ⟨hs, hr, (Tr.of_same hm hs he (by rw [← edits2_edits, hc]; rfl)).conseq ?_⟩
  rintro x x' _ _ ⟨hxx, e1⟩
  refine ⟨hxx, e1, ?_⟩
  rw [hr]
  simp only [absF, absP, listPos_absListE]

/-- `afRemove i` (Actions.lean: `Vec::remove`) ↔ erasing entry `i` of the list (`State.setList`); it panics
when `i` is out of bounds -/
theorem pc_afRemove {s : State} (hm : MInv s) (i : Nat) (site : String) :
    PC (afRemove i site) s (fun _ s' calls => i < s.activeFormatting.length ∧
      s' = { s with activeFormatting := s.activeFormatting.eraseIdx i } ∧
      Tr s s' calls (fun x x' => x' = x ∧
        Spec.TreeModes.State.setList (absF s x) ((absF s x).p.list.eraseIdx i) = absF s' x')) := by
  by_cases hi : i < s.activeFormatting.length
  · refine pc_conseq (PC.of_tot (tot_afRemove s i site hi)) ?_
    rintro _ s' calls _ ⟨hs', hc⟩
    subst hc
    refine ⟨hi, hs', ?_⟩
    rw [hs']
    refine (Tr.of_upd (s' := { s with activeFormatting := s.activeFormatting.eraseIdx i }) hm rfl (fun _ h => h)
      (hm.withAF _ (fun y t h => List.mem_of_mem_eraseIdx h)) rfl).conseq ?_
    rintro x x' _ _ hxx
    subst x'
    refine ⟨rfl, ?_⟩
    simp only [absF, absP, Spec.TreeModes.State.setList, absListE, map_eraseIdx]
  · unfold afRemove
    refine pc_getS_bind ?_
    simp only [hi, if_false]
    exact pc_panicAt

theorem stackPos_absStack_lt {x : Id} {d : Dom} {l : List Id} {i : Nat}
    (h : Spec.TreeAlgo2.stackPos x (absStack d l) = some i) : i < l.length ∧ l[i]? = some x := stackPos_lt h

/-- `removeFromStack node` (Actions.lean) ↔ `Spec.TreeModes.removeFromStack` (TreeModes2), for a node that is
not the first entry of the stack -/
theorem pc_removeFromStackF {s : State} (hm : MInv s) (node : Id) (hroot : s.openElems.head? ≠ some node) :
    PC (H5V.Model.HtmlTB.removeFromStack node) s (fun _ s' calls => SameButStackList s s' ∧
      s'.activeFormatting = s.activeFormatting ∧ (∀ h ∈ s'.openElems, h ∈ s.openElems) ∧
      Tr s s' calls (fun x x' => x' = x ∧ Spec.TreeModes.removeFromStack (absF s x) node = absF s' x')) := by
  refine pc_conseq (PC.of_tot (tot_removeFromStack s node)) ?_
  rintro _ s' calls he ⟨hs', hc⟩
  have hS : SameButStackList s s' := by unfold SameButStackList; rw [hs']
  have haf : s'.activeFormatting = s.activeFormatting := by rw [hs']
  have hx := he.ext
  cases hp : Spec.TreeAlgo2.stackPos node (absStack s.dom s.openElems) with
  | none =>
    simp only [hp] at hs'
    have hopen : s'.openElems = s.openElems := by rw [hs']
    have hsame : SameTB s s' := by unfold SameTB; exact hs'
    refine ⟨hS, haf, fun h hh => by rw [hopen] at hh; exact hh, ?_⟩
    refine (Tr.of_same hm hsame he (by rw [← edits2_edits, hc]; rfl)).conseq ?_
    rintro x x' hx0 _ ⟨hxx, e1⟩
    subst x'
    refine ⟨rfl, ?_⟩
    rw [← e1]
    simp only [Spec.TreeModes.removeFromStack, absF, absP, hx0.live, Bool.false_eq_true, if_false, hp]
  | some p =>
    simp only [hp] at hs'
    have hopen : s'.openElems = s.openElems.eraseIdx p := by rw [hs']
    obtain ⟨hplt, hpx⟩ := stackPos_absStack_lt hp
    have hp0 : 0 < p := by
      cases p with
      | zero =>
        exfalso; apply hroot
        rw [List.head?_eq_getElem?]; exact hpx
      | succ p => omega
    have hsub : ∀ h ∈ s'.openElems, h ∈ s.openElems := fun h hh => by
      rw [hopen] at hh; exact List.mem_of_mem_eraseIdx hh
    have hm' : MInv s' := hm.of_sub hS hx hsub
      (fun h0 hh => by rw [hopen, TBSafe.head?_eraseIdx_pos hp0] at hh; exact hh)
      (fun y t hy => by rw [haf] at hy; exact hy)
    refine ⟨hS, haf, hsub, (Tr.of_quiet hm he (by rw [← edits2_edits, hc]; rfl) hsub hm' (cfgOf_sbsl hm hS hx)).conseq ?_⟩
    rintro x x' hx0 _ hxx
    subst x'
    refine ⟨rfl, ?_⟩
    rw [absF_sbsl x hm hS hx]
    have f := sbsl_fields hS
    have e1 : absStack s'.dom s'.openElems = (absStack s.dom s.openElems).eraseIdx p := by
      rw [absStack_ext (fun y hy => hm.elems y (hsub y hy)) hx, hopen]
      simp only [absStack, map_eraseIdx]
    simp only [Spec.TreeModes.removeFromStack, Spec.TreeModes.State.setStack, absF, absP, hx0.live, Bool.false_eq_true,
      if_false, hp, e1, haf, f.fosterParenting, f.formElem]

/-! ### `handle_misnested_a_tags` -/

/-- the end of `handleMisnestedATags`: remove the node from the list and from the stack -/
def hmTail (node : Id) : M Unit := do
  match ← positionInActiveFormatting node with
  | some index => afRemove index "mod.rs:1602"
  | none => pure ()
  H5V.Model.HtmlTB.removeFromStack node

def hmSome (node : Id) : M Unit := do
  let _ ← unexpected
  H5V.Model.HtmlTB.adoptionAgency "a".toList
  hmTail node

theorem handleMisnestedATags_eq :
    handleMisnestedATags = (do
      match ← findAInAF (afEndToMarker (← getS).activeFormatting) with
      | none => pure ()
      | some node => hmSome node) := rfl

/-- "remove that element from the list of active formatting elements and the stack of open elements if the
adoption agency algorithm didn't already remove it": `hmTail` ↔ `removeFromStack (removeFromList σ a) a` -/
theorem pc_hmTail {s : State} (hm : MInv s) (node : Id) (hroot : s.openElems.head? ≠ some node) :
    PC (hmTail node) s (fun _ s' calls => SameButStackList s s' ∧
      (∀ y t, FormatEntry.element y t ∈ s'.activeFormatting → FormatEntry.element y t ∈ s.activeFormatting) ∧
      Tr s s' calls (fun x x' => x' = x ∧
        Spec.TreeModes.removeFromStack (Spec.TreeModes.removeFromList (absF s x) node) node = absF s' x')) := by
  unfold hmTail
  refine pc_seq (pc_positionInActiveFormatting hm node) ?_
  rintro r s1 c1 he1 ⟨hs1, hr, htr1⟩
  have hm1 := htr1.1
  have hroot1 : s1.openElems.head? ≠ some node := by rw [hs1.openElems]; exact hroot
  cases r with
  | none =>
    dsimp only
    refine pc_conseq (pc_removeFromStackF hm1 node hroot1) ?_
    rintro _ s2 c2 _ ⟨hS2, haf2, _, htr2⟩
    refine ⟨sbsl_trans (sbsl_of_sameTB hs1) hS2, fun y t hy => by rw [haf2, hs1.activeFormatting] at hy; exact hy, ?_⟩
    refine (htr1.trans htr2).conseq ?_
    rintro x x2 _ _ ⟨x1, ⟨hx1, e1, hr1⟩, hx2, r2⟩
    subst x1; subst x2
    refine ⟨rfl, ?_⟩
    rw [← r2, ← e1]
    simp only [Spec.TreeModes.removeFromList, ← hr1]
  | some i =>
    dsimp only
    refine pc_seq (pc_afRemove hm1 i _) ?_
    rintro _ s2 c2 _ ⟨_, hs2, htr2⟩
    have hm2 := htr2.1
    have hroot2 : s2.openElems.head? ≠ some node := by rw [hs2]; exact hroot1
    refine pc_conseq (pc_removeFromStackF hm2 node hroot2) ?_
    rintro _ s3 c3 _ ⟨hS3, haf3, _, htr3⟩
    have hS2 : SameButStackList s1 s2 := by unfold SameButStackList; rw [hs2]
    refine ⟨sbsl_trans (sbsl_trans (sbsl_of_sameTB hs1) hS2) hS3, ?_, ?_⟩
    · intro y t hy
      rw [haf3, hs2] at hy
      rw [← hs1.activeFormatting]
      exact List.mem_of_mem_eraseIdx hy
    · rw [← List.append_assoc]
      refine ((htr1.trans htr2).trans htr3).conseq ?_
      rintro x x3 _ _ ⟨x2, ⟨x1, ⟨hx1, e1, hr1⟩, hx2, r2⟩, hx3, r3⟩
      subst x1; subst x2; subst x3
      refine ⟨rfl, ?_⟩
      rw [← r3, ← r2, ← e1]
      simp only [Spec.TreeModes.removeFromList, ← hr1]

/-- the first part of the specification's clause for a start tag "a" (`inBodyStartA`, TreeModes2): "If the
list of active formatting elements contains an `a` element between the end of the list and the last marker
…, then this is a parse error; run the adoption agency algorithm for the token, then remove that element
from the list of active formatting elements and the stack of open elements if the adoption agency
algorithm didn't already remove it" (`name`: the token's tag name) -/
def specMisnestedA (σ : SState) (name : Str) : Spec.TreeModes.M SState :=
  match Spec.TreeAlgo2.findFormattingElement Spec.TreeModes.cx "a".toList σ.p.list with
  | some r => do
    let σ := σ.err "in body: a start tag with an a element in the list"
    let σ ← Spec.TreeModes.adoptionAgency σ name
    pure (Spec.TreeModes.removeFromStack (Spec.TreeModes.removeFromList σ r.2.1) r.2.1)
  | none => pure σ

/-- `inBodyStartA` is `specMisnestedA`, then reconstruct, insert, push -/
theorem inBodyStartA_eq (σ : SState) (t : STag) :
    Spec.TreeModes.inBodyStartA σ t = (do
      let σ ← specMisnestedA σ t.name
      let σ ← Spec.TreeModes.reconstruct σ
      let r ← Spec.TreeModes.insertHtml σ t
      pure (.done (Spec.TreeModes.pushFormatting r.1 r.2 t))) := by
  unfold Spec.TreeModes.inBodyStartA specMisnestedA
  cases Spec.TreeAlgo2.findFormattingElement Spec.TreeModes.cx "a".toList σ.p.list with
  | none => rfl
  | some r =>
    obtain ⟨i, a, tok⟩ := r
    dsimp only
    cases Spec.TreeModes.adoptionAgency (Spec.TreeModes.State.err σ "in body: a start tag with an a element in the list") t.name <;> rfl

/-- `findAInAF` (Actions.lean) asks the sink for the names of the listed elements; with `AFWf` this is the
search by token name (`AFWf` is `MInv.afwf`) -/
theorem pc_findAInAF (s : State) (hm : MInv s) : ∀ (l : List (Nat × Id × Tag)) (s1 : State),
    (∀ x ∈ l, FormatEntry.element x.2.1 x.2.2 ∈ s.activeFormatting) → SameTB s s1 → TBSafe.Ext s.dom s1.dom →
    PC (findAInAF l) s1 (fun r s2 calls => SameTB s1 s2 ∧ edits calls = [] ∧
      r = (l.find? (fun x => x.2.2.name == "a".toList)).map (·.2.1)) := by
  have hw : AFWf s := hm.toAFWf
  intro l
  induction l with
  | nil =>
    intro s1 _ _ _
    simp only [findAInAF]
    exact pc_pure ⟨SameTB.refl _, rfl, rfl⟩
  | cons x rest ih =>
    intro s1 hmem hs1 hx1
    obtain ⟨i, n, t⟩ := x
    simp only [findAInAF]
    have hin : FormatEntry.element n t ∈ s.activeFormatting := hmem (i, n, t) (List.mem_cons_self ..)
    have hval : (elemOf s1.dom n).name.isHtml "a" = (t.name == "a".toList) := by
      have : nameOf s1.dom n = ⟨nsHtml, t.name⟩ := by
        rw [nameOf_ext hx1 (hm.afEl n t hin)]; exact (hw n t hin).2
      simp only [elemOf, this, Spec.TreeAlgo.Name.isHtml, HtmlTBSpec.toName]
      have : (nsHtml == Spec.TreeAlgo.nsHtml) = true := by rw [beq_iff_eq]; rfl
      simp only [this, Bool.true_and]
    refine pc_query_bind (PC.of_tot (tot_htmlElemNamed s1 n "a")) ?_
    intro s2 c2 he2 hs2 hc2
    rw [hval]
    by_cases hn : (t.name == "a".toList) = true
    · simp only [hn, if_true]
      refine pc_pure ⟨hs2, by rw [List.append_nil]; exact hc2, ?_⟩
      simp only [List.find?_cons, hn, Option.map_some]
    · simp only [hn, Bool.false_eq_true, if_false]
      refine pc_conseq (ih s2 (fun y hy => hmem y (List.mem_cons_of_mem _ hy)) (hs1.trans hs2) (hx1.trans he2.ext)) ?_
      rintro r s3 c3 _ ⟨hs3, hc3, hr⟩
      refine ⟨hs2.trans hs3, by rw [edits_append, hc2, hc3]; rfl, ?_⟩
      have hn' : (t.name == "a".toList) = false := by simpa using hn
      simp only [List.find?_cons, hn']
      exact hr

/-- `unexpected`, with the frame fact -/
theorem pc_unexpectedS {s : State} (hm : MInv s) :
    PC unexpected s (fun r s' calls => r = .done ∧ SameTB s s' ∧
      Tr s s' calls (fun x x' => x' = x ∧ absF s x = absF s' x)) := by
  unfold unexpected
  refine pc_seq (PC.of_tot (tot_parseError s _)) ?_
  rintro _ s1 c1 he ⟨-, hs, hc⟩
  refine pc_pure ⟨rfl, hs, ?_⟩
  rw [List.append_nil]
  exact Tr.of_same hm hs he (by rw [← edits2_edits, hc]; rfl)

/-- `handleMisnestedATags` (Actions.lean) ↔ the first part of `inBodyStartA` (TreeModes2: `specMisnestedA`,
`inBodyStartA_eq`).  Uses `AFWf` = `MInv.afwf` (the sink's name of a listed element is its token's tag name). -/
theorem pc_handleMisnestedATags {s : State} (hm : MInv s) :
    PC handleMisnestedATags s (fun _ s' calls => SameButStackList s s' ∧ AFWf s' ∧
      Tr s s' calls (fun x x' => specMisnestedA (absF s x) "a".toList = .ok (absF s' x'))) := by
  have hw : AFWf s := hm.toAFWf
  rw [handleMisnestedATags_eq]
  refine pc_getS_bind ?_
  refine pc_seq (pc_findAInAF s hm (afEndToMarker s.activeFormatting) s ?_ (SameTB.refl s) (TBSafe.Ext.refl _)) ?_
  · rintro ⟨i, n, t⟩ hx
    exact List.mem_of_getElem? (afEndToMarker_mem s.activeFormatting i n t hx)
  rintro r s1 c1 he1 ⟨hs1, hc1, hr⟩
  rw [findFormatting_eq] at hr
  have htr0 := Tr.of_same hm hs1 he1 (by rw [← edits2_edits, hc1]; rfl)
  have hm1 := htr0.1
  have hfind : ∀ x, AuxOk s x → Spec.TreeAlgo2.findFormattingElement Spec.TreeModes.cx "a".toList (absF s x).p.list
      = (Spec.TreeAlgo2.findFormattingElement tagCtx "a".toList (absList s.activeFormatting)).map (mapTok3 etokOf) := by
    intro x _
    simp only [absF, absP]
    rw [absListE_mapTok, findFormattingElement_map etokOf ctxMap_etok]
  cases hf : Spec.TreeAlgo2.findFormattingElement tagCtx "a".toList (absList s.activeFormatting) with
  | none =>
    rw [hf] at hr
    subst hr
    simp only [Option.map_none]
    refine pc_pure ⟨sbsl_of_sameTB hs1, hw.of_sub hm he1.ext (fun y t hy => by rw [hs1.activeFormatting] at hy; exact hy), ?_⟩
    rw [List.append_nil]
    refine htr0.conseq ?_
    rintro x x' hx _ ⟨hxx, e0⟩
    subst x'
    unfold specMisnestedA
    rw [hfind x hx, hf]
    simp only [Option.map_none]
    rw [e0]
    rfl
  | some fr =>
    obtain ⟨i, node, t⟩ := fr
    rw [hf] at hr
    subst hr
    simp only [Option.map_some]
    obtain ⟨_, hnode, hname⟩ := findFormattingElement_some hf
    have hin : FormatEntry.element node t ∈ s.activeFormatting := List.mem_of_getElem? hnode
    have hnm : nameOf s.dom node = ⟨nsHtml, "a".toList⟩ := by
      rw [(hw node t hin).2, beq_iff_eq.mp hname]
    have hw1 : AFWf s1 := hw.of_sub hm he1.ext (fun y t hy => by rw [hs1.activeFormatting] at hy; exact hy)
    unfold hmSome
    refine pc_seq (pc_unexpectedS hm1) ?_
    rintro _ s2 c2 he2 ⟨_, hs2, htr1⟩
    have hm2 := htr1.1
    have hw2 : AFWf s2 := hw1.of_sub hm1 he2.ext (fun y t hy => by rw [hs2.activeFormatting] at hy; exact hy)
    refine pc_seq (pc_adoptionAgency hm2 "a".toList) ?_
    rintro _ s3 c3 he3 ⟨hS3, hw3, htr3⟩
    have hm3 := htr3.1
    have hx03 : TBSafe.Ext s.dom s3.dom := (he1.ext.trans he2.ext).trans he3.ext
    have hroot3 : s3.openElems.head? ≠ some node := by
      intro hh
      have h1 := hm3.root node hh
      rw [nameOf_ext hx03 (hm.afEl node t hin), hnm] at h1
      exact absurd h1 (by decide)
    refine pc_conseq (pc_hmTail hm3 node hroot3) ?_
    rintro _ s4 c4 he4 ⟨hS4, hsub4, htr4⟩
    refine ⟨sbsl_trans (sbsl_trans (sbsl_trans (sbsl_of_sameTB hs1) (sbsl_of_sameTB hs2)) hS3) hS4,
      (hw3 hw2).of_sub hm3 he4.ext hsub4, ?_⟩
    have htr := (((htr0.trans htr1).trans (Tr.err hm2 "in body: a start tag with an a element in the list")).trans htr3).trans htr4
    have hcalls : c1 ++ (c2 ++ (c3 ++ c4)) = c1 ++ c2 ++ [] ++ c3 ++ c4 := by simp
    rw [hcalls]
    refine htr.conseq ?_
    rintro x x4 hx _ ⟨x3, ⟨xe, ⟨x1, ⟨x0, ⟨hx0, e0⟩, hx1, e1⟩, hxe⟩, r3⟩, hx4, r4⟩
    subst x0; subst x1; subst xe; subst x4
    have hfx : Spec.TreeAlgo2.findFormattingElement Spec.TreeModes.cx "a".toList (absF s x).p.list
        = some (i, node, etokOf t) := by rw [hfind x hx, hf]; rfl
    rw [absF_err, ← e1, ← e0] at r3
    simp only [specMisnestedA, hfx, r3]
    rw [← r4]
    rfl

#print axioms adoptionAgencyWithFallback_delta
#print axioms pc_adoptionAgency
#print axioms pc_positionInActiveFormatting
#print axioms pc_afRemove
#print axioms pc_removeFromStackF
#print axioms pc_hmTail
#print axioms inBodyStartA_eq
#print axioms pc_findAInAF
#print axioms pc_handleMisnestedATags

end H5V.Lemmas.HtmlTBModes
