import H5V.Lemmas.DomClone
/-!
# TreeSink contract for the HTML tree builder, part 0: node kinds never change

`KExt d d'`: every node of `d` is a node of `d'` of the same kind (document / doctype / text /
comment / element / processing instruction).  `apply_kext`: every successful `Dom.apply` — inside the
contract or not — keeps the kinds (only attributes and text contents change).  In particular a
`Document` node (the document, template contents) stays one.
(Same case analysis as `H5V.Lemmas.TBSafe.apply_ext`.)
-/
namespace H5V.Lemmas.TBC
open H5V.Model.Dom (Id QualName Attr NodeOrText SinkOp Output ElementFlags QuirksMode Dom NodeData Node)
open H5V.Lemmas.Dom

def kindOf : NodeData → Nat
  | .document => 0
  | .doctype .. => 1
  | .text _ => 2
  | .comment _ => 3
  | .element .. => 4
  | .pi .. => 5

/-- every node of `d` is a node of `d'` with the same kind -/
def KExt (d d' : Dom) : Prop := ∀ x, x < d.size → (d'.dataOf x).map kindOf = (d.dataOf x).map kindOf

theorem KExt.refl (d : Dom) : KExt d d := fun _ _ => rfl

theorem lt_of_data {d : Dom} {x : Id} {v : NodeData} (h : d.dataOf x = some v) : x < d.size :=
  lt_of_dataOf_some h

theorem KExt.size_le {d d' : Dom} (h : KExt d d') : d.size ≤ d'.size := by
  refine Nat.le_of_not_lt (fun hlt => ?_)
  have h1 := h d'.size hlt
  obtain ⟨nd, hnd⟩ := node?_of_lt hlt
  have hd : d.dataOf d'.size = some nd.data := dataOf_of_node hnd
  rw [hd] at h1
  cases hd' : d'.dataOf d'.size with
  | none => rw [hd'] at h1; cases h1
  | some v => exact Nat.lt_irrefl _ (lt_of_data hd')

theorem KExt.trans {a b c : Dom} (h1 : KExt a b) (h2 : KExt b c) : KExt a c :=
  fun x hx => (h2 x (Nat.lt_of_lt_of_le hx h1.size_le)).trans (h1 x hx)

theorem kext_of_data {d d' : Dom} (h : ∀ x, x < d.size → d'.dataOf x = d.dataOf x) : KExt d d' :=
  fun x hx => by rw [h x hx]

theorem kext_of_data_all {d d' : Dom} (h : ∀ x, d'.dataOf x = d.dataOf x) : KExt d d' :=
  kext_of_data (fun x _ => h x)

/-- data changes at one node, keeping its kind -/
theorem kext_of_data_one {d d' : Dom} {t : Id} {v : NodeData}
    (h : ∀ x, d'.dataOf x = if x = t then some v else d.dataOf x)
    (hv : ∀ w, d.dataOf t = some w → kindOf v = kindOf w) : KExt d d' := by
  intro x hx
  rw [h x]
  by_cases hi : x = t
  · subst hi
    obtain ⟨nd, hnd⟩ := node?_of_lt hx
    have hd : d.dataOf x = some nd.data := dataOf_of_node hnd
    simp only [if_true, hd, Option.map_some]
    rw [hv _ hd]
  · simp [hi]

theorem kext_alloc (d : Dom) (data : NodeData) : KExt d (d.alloc data).1 :=
  kext_of_data (fun x hx => by rw [dataOf_alloc]; simp [Nat.ne_of_lt hx])

theorem kext_setNode_same {d : Dom} {i : Id} {n0 : Node} (h0 : d.node? i = some n0) (n : Node)
    (hd : n.data = n0.data) : ∀ x, (d.setNode i n).dataOf x = d.dataOf x := by
  intro x
  rw [dataOf_setNode h0]
  by_cases hx : x = i
  · subst hx; simp [dataOf_of_node h0, hd]
  · simp [hx]

/-! ### the free functions of rcdom -/

theorem appendRaw_data {d d' : Dom} {p c : Id} (h : d.appendRaw p c = .ok d') :
    ∀ x, d'.dataOf x = d.dataOf x := by
  unfold Dom.appendRaw at h
  simp only [bind, Except.bind] at h
  cases hc : d.get c with
  | error e => simp [hc] at h
  | ok cn =>
    have hcn := get_ok.mp hc
    simp only [hc] at h
    by_cases hpar : cn.parent.isSome = true
    · simp [hpar, throw, throwThe, MonadExceptOf.throw] at h
    · simp only [hpar] at h
      have h1 := kext_setNode_same hcn { cn with parent := some p } rfl
      cases hp : (d.setNode c { cn with parent := some p }).get p with
      | error e => simp [hp] at h
      | ok pn =>
        have hpn := get_ok.mp hp
        simp only [hp] at h
        simp at h
        subst h
        intro x
        exact (kext_setNode_same hpn { pn with children := pn.children ++ [c] } rfl x).trans (h1 x)

theorem removeFromParent_data' {d d' : Dom} {t : Id} (h : d.removeFromParent t = .ok d') :
    ∀ x, d'.dataOf x = d.dataOf x := removeFromParent_data h

theorem insertAtIndex_data {d d' : Dom} {P c : Id} {i : Nat} (h : d.insertAtIndex P i c = .ok d') :
    ∀ x, d'.dataOf x = d.dataOf x := by
  obtain ⟨d1, hr, _, _, _, _, _, hd, _, _⟩ := insertAtIndex_ok h
  intro x; rw [hd, removeFromParent_data hr]

theorem kext_append {d d' : Dom} {p : Id} {ch : NodeOrText} (h : d.append p ch = .ok d') : KExt d d' := by
  cases ch with
  | node c => rw [append_node_eq] at h; exact kext_of_data_all (appendRaw_data h)
  | text s =>
    obtain ⟨_, h1 | h2⟩ := append_text_ok h
    · obtain ⟨hl, old, _, hdl, _, hd, _⟩ := h1
      exact kext_of_data_one hd (fun w hw => by rw [hdl] at hw; cases hw; exact rfl)
    · exact (kext_alloc d _).trans (kext_of_data_all (appendRaw_data h2.2))

theorem kext_appendBeforeSibling {d d' : Dom} {s : Id} {ch : NodeOrText}
    (h : d.appendBeforeSibling s ch = .ok d') : KExt d d' := by
  obtain ⟨P, i, _, _, _, hm⟩ := appendBeforeSibling_ok h
  cases ch with
  | node c => exact kext_of_data_all (insertAtIndex_data hm)
  | text t =>
    rcases hm with ⟨prev, old, _, _, hdl, _, hd, _⟩ | ⟨_, h2⟩
    · exact kext_of_data_one hd (fun w hw => by rw [hdl] at hw; cases hw; exact rfl)
    · exact (kext_alloc d _).trans (kext_of_data_all (insertAtIndex_data h2))

theorem kext_preDetach {b : Dom.BeforeSiblingVariant} {d d' : Dom} {ch : NodeOrText}
    (h : Dom.preDetach b d ch = .ok d') : KExt d d' := by
  cases ch with
  | text t => simp [Dom.preDetach] at h; subst h; exact KExt.refl _
  | node c =>
    cases b with
    | asCode => simp [Dom.preDetach] at h; subst h; exact KExt.refl _
    | detachFirst => exact kext_of_data_all (removeFromParent_data (by simpa [Dom.preDetach] using h))

theorem kext_appendBeforeSiblingV {b : Dom.BeforeSiblingVariant} {d d' : Dom} {s : Id} {ch : NodeOrText}
    (h : Dom.appendBeforeSiblingV b d s ch = .ok d') : KExt d d' := by
  unfold Dom.appendBeforeSiblingV at h
  simp only [bind, Except.bind] at h
  cases hp : Dom.preDetach b d ch with
  | error e => simp [hp] at h
  | ok d1 =>
    simp only [hp] at h
    exact (kext_preDetach hp).trans (kext_appendBeforeSibling h)

theorem kext_appendBasedOnParentNodeV {b : Dom.BeforeSiblingVariant} {d d' : Dom} {e p : Id} {ch : NodeOrText}
    (h : Dom.appendBasedOnParentNodeV b d e p ch = .ok d') : KExt d d' := by
  unfold Dom.appendBasedOnParentNodeV at h
  simp only [bind, Except.bind] at h
  cases he : d.get e with
  | error x => simp [he] at h
  | ok en =>
    simp only [he] at h
    split at h
    · exact kext_appendBeforeSiblingV h
    · exact kext_append h

theorem kext_appendDoctype {d d' : Dom} {n p s : List Char} (h : d.appendDoctypeToDocument n p s = .ok d') :
    KExt d d' := by
  unfold Dom.appendDoctypeToDocument at h
  exact (kext_alloc d _).trans (kext_of_data_all (appendRaw_data h))

theorem kext_addAttrs {d d' : Dom} {t : Id} {attrs : List Attr} (h : d.addAttrsIfMissing t attrs = .ok d') :
    KExt d d' := by
  obtain ⟨name, existing, tc, ip, hdt, _, hd, _⟩ := addAttrsIfMissing_ok h
  exact kext_of_data_one hd (fun w hw => by rw [hdt] at hw; cases hw; exact rfl)

theorem kext_reparentChildren {d d' : Dom} {n np : Id} (h : d.reparentChildren n np = .ok d') : KExt d d' := by
  obtain ⟨_, _, _, _, _, hd, _, _⟩ := reparentChildren_ok h
  exact kext_of_data_all hd

/-! ### `maybe_clone_an_option_into_selectedcontent` (no invariant assumed) -/

theorem kext_cloneKidsWith {cl : Dom → Id → Except String (Dom × Id)}
    (hcl : ∀ d c d' k, cl d c = .ok (d', k) → KExt d d') (p : Id) :
    ∀ (cs : List Id) (d d' : Dom), Dom.cloneKidsWith cl p d cs = .ok d' → KExt d d' := by
  intro cs
  induction cs with
  | nil => intro d d' h; simp [Dom.cloneKidsWith] at h; subst h; exact KExt.refl _
  | cons c cs ih =>
    intro d d' h
    simp only [Dom.cloneKidsWith, bind, Except.bind] at h
    cases h1 : cl d c with
    | error e => simp [h1] at h
    | ok r =>
      obtain ⟨d1, k⟩ := r
      simp only [h1] at h
      cases h2 : d1.appendRaw p k with
      | error e => simp [h2] at h
      | ok d2 =>
        simp only [h2] at h
        exact ((hcl _ _ _ _ h1).trans (kext_of_data_all (appendRaw_data h2))).trans (ih _ _ h)

theorem bind_ok {ε α β : Type} {x : Except ε α} {f : α → Except ε β} {b : β}
    (h : (x >>= f) = .ok b) : ∃ a, x = .ok a ∧ f a = .ok b := by
  cases x with
  | error e => simp [bind, Except.bind] at h
  | ok a => exact ⟨a, rfl, by simpa [bind, Except.bind] using h⟩

theorem kext_cloneFixed : ∀ (fuel : Nat) (d : Dom) (x : Id) (d' : Dom) (k : Id),
    Dom.cloneFixed d fuel x = .ok (d', k) → KExt d d' := by
  intro fuel
  induction fuel with
  | zero => intro d x d' k h; simp [Dom.cloneFixed] at h
  | succ fuel ih =>
    intro d x d' k h
    simp only [Dom.cloneFixed] at h
    obtain ⟨n, _, h⟩ := bind_ok h
    have fin : ∀ (d1 : Dom) (data : NodeData), KExt d d1 →
        (Dom.cloneKidsWith (fun d c => Dom.cloneFixed d fuel c) (d1.alloc data).2 (d1.alloc data).1 n.children
          >>= fun d2 => (Except.ok (d2, (d1.alloc data).2) : Except String (Dom × Id))) = .ok (d', k) →
        KExt d d' := by
      intro d1 data he hh
      obtain ⟨d2, hk, hh⟩ := bind_ok hh
      simp only [Except.ok.injEq, Prod.mk.injEq] at hh
      rw [← hh.1]
      exact (he.trans (kext_alloc d1 data)).trans
        (kext_cloneKidsWith (fun a c a' k' hc => ih a c a' k' hc) _ _ _ _ hk)
    split at h
    · obtain ⟨⟨dt, tc'⟩, ht, h⟩ := bind_ok h
      exact fin dt _ (ih _ _ _ _ ht) h
    · exact fin d _ (KExt.refl d) h

theorem kext_cloneListWith {cl : Dom → Id → Except String (Dom × Id)}
    (hcl : ∀ d c d' k, cl d c = .ok (d', k) → KExt d d') :
    ∀ (cs : List Id) (d d' : Dom) (ks : List Id), Dom.cloneListWith cl d cs = .ok (d', ks) → KExt d d' := by
  intro cs
  induction cs with
  | nil => intro d d' ks h; simp [Dom.cloneListWith] at h; rw [← h.1]; exact KExt.refl _
  | cons c cs ih =>
    intro d d' ks h
    simp only [Dom.cloneListWith, bind, Except.bind] at h
    cases h1 : cl d c with
    | error e => simp [h1] at h
    | ok r =>
      obtain ⟨d1, k⟩ := r
      simp only [h1] at h
      cases h2 : Dom.cloneListWith cl d1 cs with
      | error e => simp [h2] at h
      | ok r2 =>
        obtain ⟨d2, ks2⟩ := r2
        simp only [h2] at h
        cases h
        exact (hcl _ _ _ _ h1).trans (ih _ _ _ h2)

theorem clearParents_data : ∀ (cs : List Id) (d : Dom) (x : Id), (Dom.clearParents d cs).dataOf x = d.dataOf x := by
  intro cs
  induction cs with
  | nil => intro d x; rfl
  | cons c cs ih =>
    intro d x
    simp only [Dom.clearParents]
    rw [ih]
    cases hc : d.nodes[c]? with
    | none => rfl
    | some cn =>
      have hcn : d.node? c = some cn := hc
      exact kext_setNode_same hcn { cn with parent := none } rfl x

theorem detachChildren_data {d d' : Dom} {p : Id} (h : d.detachChildren p = .ok d') :
    ∀ x, d'.dataOf x = d.dataOf x := by
  unfold Dom.detachChildren at h
  simp only [bind, Except.bind] at h
  cases hp : d.get p with
  | error e => simp [hp] at h
  | ok pn =>
    simp only [hp] at h
    cases hp2 : (d.clearParents pn.children).get p with
    | error e => simp [hp2] at h
    | ok pn2 =>
      simp only [hp2] at h
      cases h
      intro x
      exact (kext_setNode_same (get_ok.mp hp2) { pn2 with children := [] } rfl x).trans (clearParents_data _ _ x)

theorem attachAll_data {p : Id} : ∀ (ks : List Id) (d d' : Dom), d.attachAll p ks = .ok d' →
    ∀ x, d'.dataOf x = d.dataOf x := by
  intro ks
  induction ks with
  | nil => intro d d' h; simp [Dom.attachAll] at h; subst h; intro x; rfl
  | cons k ks ih =>
    intro d d' h
    simp only [Dom.attachAll, bind, Except.bind] at h
    cases h1 : d.appendRaw p k with
    | error e => simp [h1] at h
    | ok d1 =>
      simp only [h1] at h
      intro x; rw [ih _ _ h, appendRaw_data h1]

theorem kext_maybeCloneOption_fixed {d d' : Dom} {o : Id} (h : d.maybeCloneOption .fixed o = .ok d') :
    KExt d d' := by
  unfold Dom.maybeCloneOption at h
  simp only [bind, Except.bind] at h
  cases ht : d.cloneTarget .fixed o with
  | error e => simp [ht] at h
  | ok r =>
    simp only [ht] at h
    cases r with
    | none => simp at h; subst h; exact KExt.refl _
    | some sc =>
      simp only at h
      unfold Dom.cloneOptionInto at h
      simp only [bind, Except.bind] at h
      cases ho : d.get o with
      | error e => simp [ho] at h
      | ok on =>
        simp only [ho] at h
        cases h1 : Dom.cloneListWith (fun d c => Dom.cloneFixed d (d.size + 1) c) d on.children with
        | error e => simp [h1] at h
        | ok r1 =>
          obtain ⟨d1, frag⟩ := r1
          simp only [h1] at h
          cases h2 : d1.detachChildren sc with
          | error e => simp [h2] at h
          | ok d2 =>
            simp only [h2] at h
            exact ((kext_cloneListWith (fun a c a' k hc => kext_cloneFixed _ a c a' k hc) _ _ _ _ h1).trans
              (kext_of_data_all (detachChildren_data h2))).trans (kext_of_data_all (attachAll_data _ _ _ h))

/-! ### every sink call -/

theorem kext_createElement (d : Dom) (name : QualName) (attrs : List Attr) (flags : ElementFlags) :
    KExt d (d.createElement name attrs flags).1 := by
  unfold Dom.createElement
  split
  · exact (kext_alloc d _).trans (kext_alloc _ _)
  · exact kext_alloc d _

/-- **every successful sink call extends the arena** (no contract, no invariant assumed) -/
theorem apply_kext {d d' : Dom} {op : SinkOp} {out : Output} (h : d.apply op = .ok (d', out)) : KExt d d' := by
  unfold Dom.apply Dom.cloneVariant Dom.beforeSiblingVariant at h
  cases op with
  | parseError msg => simp [Dom.applyV] at h; rw [← h.1]; exact kext_of_data_all (fun _ => rfl)
  | getDocument => simp [Dom.applyV] at h; rw [← h.1]; exact KExt.refl _
  | elemName t =>
    simp only [Dom.applyV, bind, Except.bind] at h
    cases he : d.elemName t with
    | error e => simp [he] at h
    | ok r => simp [he] at h; rw [← h.1]; exact KExt.refl _
  | createElement name attrs flags =>
    simp [Dom.applyV] at h; rw [← h.1]; exact kext_createElement d name attrs flags
  | createComment text => simp [Dom.applyV, Dom.createComment] at h; rw [← h.1]; exact kext_alloc d _
  | createPi t dd => simp [Dom.applyV, Dom.createPi] at h; rw [← h.1]; exact kext_alloc d _
  | append p c =>
    simp only [Dom.applyV, bind, Except.bind] at h
    cases he : d.append p c with
    | error e => simp [he] at h
    | ok r => simp [he] at h; rw [← h.1]; exact kext_append he
  | appendBasedOnParentNode e p c =>
    simp only [Dom.applyV, bind, Except.bind] at h
    cases he : Dom.appendBasedOnParentNodeV .detachFirst d e p c with
    | error e => simp [he] at h
    | ok r => simp [he] at h; rw [← h.1]; exact kext_appendBasedOnParentNodeV he
  | appendDoctypeToDocument n p s =>
    simp only [Dom.applyV, bind, Except.bind] at h
    cases he : d.appendDoctypeToDocument n p s with
    | error e => simp [he] at h
    | ok r => simp [he] at h; rw [← h.1]; exact kext_appendDoctype he
  | markScriptAlreadyStarted n => simp [Dom.applyV] at h; rw [← h.1]; exact KExt.refl _
  | pop n => simp [Dom.applyV] at h; rw [← h.1]; exact KExt.refl _
  | getTemplateContents t =>
    simp only [Dom.applyV, bind, Except.bind] at h
    cases he : d.getTemplateContents t with
    | error e => simp [he] at h
    | ok r => simp [he] at h; rw [← h.1]; exact KExt.refl _
  | sameNode x y => simp [Dom.applyV] at h; rw [← h.1]; exact KExt.refl _
  | setQuirksMode m => simp [Dom.applyV] at h; rw [← h.1]; exact kext_of_data_all (fun _ => rfl)
  | appendBeforeSibling s c =>
    simp only [Dom.applyV, bind, Except.bind] at h
    cases he : Dom.appendBeforeSiblingV .detachFirst d s c with
    | error e => simp [he] at h
    | ok r => simp [he] at h; rw [← h.1]; exact kext_appendBeforeSiblingV he
  | addAttrsIfMissing t a =>
    simp only [Dom.applyV, bind, Except.bind] at h
    cases he : d.addAttrsIfMissing t a with
    | error e => simp [he] at h
    | ok r => simp [he] at h; rw [← h.1]; exact kext_addAttrs he
  | associateWithForm a b c e => simp [Dom.applyV] at h; rw [← h.1]; exact KExt.refl _
  | removeFromParent t =>
    simp only [Dom.applyV, bind, Except.bind] at h
    cases he : d.removeFromParent t with
    | error e => simp [he] at h
    | ok r => simp [he] at h; rw [← h.1]; exact kext_of_data_all (removeFromParent_data he)
  | reparentChildren n np =>
    simp only [Dom.applyV, bind, Except.bind] at h
    cases he : d.reparentChildren n np with
    | error e => simp [he] at h
    | ok r => simp [he] at h; rw [← h.1]; exact kext_reparentChildren he
  | isMathmlAnnotationXmlIntegrationPoint t =>
    simp only [Dom.applyV, bind, Except.bind] at h
    cases he : d.isMathmlAnnotationXmlIntegrationPoint t with
    | error e => simp [he] at h
    | ok r => simp [he] at h; rw [← h.1]; exact KExt.refl _
  | setCurrentLine l => simp [Dom.applyV] at h; rw [← h.1]; exact KExt.refl _
  | allowDeclarativeShadowRoots p => simp [Dom.applyV] at h; rw [← h.1]; exact KExt.refl _
  | attachDeclarativeShadow l t a => simp [Dom.applyV] at h; rw [← h.1]; exact KExt.refl _
  | maybeCloneAnOptionIntoSelectedcontent o =>
    simp only [Dom.applyV, bind, Except.bind] at h
    cases he : d.maybeCloneOption .fixed o with
    | error e => simp [he] at h
    | ok r => simp [he] at h; rw [← h.1]; exact kext_maybeCloneOption_fixed he

end H5V.Lemmas.TBC
